/-
  The flags the reply selection looks at (`overflow`, `senderok`, "no recipient accepted") tied to the input bytes and to
  the calls on qmail.c: when one of them says "refuse", a `qmail_fail` is among the calls, hence `flagerr`, hence no
  complete envelope — and conversely a complete envelope on descriptor 1 means none of them fired.
  Core Lean only.
-/
import Nq.Netstring
import Nq.Spec.C07
import Nq.Lemmas.C07Daemons

namespace Nq.QmailC
open Nq

/-- a `qmail_fail` anywhere in the call sequence leaves `flagerr` set at the end -/
theorem QQ.run_fail_mem : ∀ (ops : List QOp) (q : QQ), QOp.fail ∈ ops → (q.run ops).flagerr = true
  | [], _, h => by simp at h
  | op :: ops, q, h => by
    simp only [QQ.run, List.foldl_cons]
    rcases List.mem_cons.mp h with h | h
    · subst h
      exact QQ.run_mono ops _ rfl
    · exact QQ.run_fail_mem ops _ h

/-- the calls of a completely read message: message part, `qmail_from`, envelope part, `qmail_close`.  If `flagerr` is
    set at the end, the queue program finds no complete envelope. -/
theorem QQ.refused_of_flagerr (q0 : QQ) (a eops : List QOp) (s : Bytes) (he : ∀ op ∈ eops, EnvOp op)
    (hf : (q0.run (a ++ [.from_ s] ++ eops ++ [.close])).flagerr = true) :
    envComplete (q0.run (a ++ [.from_ s] ++ eops ++ [.close])).envPipe = false := by
  have hrun : q0.run (a ++ [.from_ s] ++ eops ++ [.close]) = ((((q0.run a).from_ s).run eops).close) := by
    simp [QQ.run, QQ.apply]
  rw [hrun] at hf ⊢
  exact QQ.close_fail_good _ (QQ.run_good eops _ (QQ.from_good _ s) he) hf

theorem QQ.refused_of_fail (q0 : QQ) (a eops : List QOp) (s : Bytes) (he : ∀ op ∈ eops, EnvOp op)
    (hfail : QOp.fail ∈ a ∨ QOp.fail ∈ eops) :
    (q0.run (a ++ [.from_ s] ++ eops ++ [.close])).flagerr = true ∧
    envComplete (q0.run (a ++ [.from_ s] ++ eops ++ [.close])).envPipe = false := by
  have hf : (q0.run (a ++ [.from_ s] ++ eops ++ [.close])).flagerr = true := by
    apply QQ.run_fail_mem
    simp only [List.mem_append]
    rcases hfail with h | h
    · exact Or.inl (Or.inl (Or.inl h))
    · exact Or.inl (Or.inr h)
  exact ⟨hf, QQ.refused_of_flagerr q0 a eops s he hf⟩

/-- conversely: a complete envelope means no failure was flagged, in particular no `qmail_fail` was called -/
theorem QQ.complete_no_fail (q0 : QQ) (a eops : List QOp) (s : Bytes) (he : ∀ op ∈ eops, EnvOp op)
    (hc : envComplete (q0.run (a ++ [.from_ s] ++ eops ++ [.close])).envPipe = true) :
    (q0.run (a ++ [.from_ s] ++ eops ++ [.close])).flagerr = false ∧ QOp.fail ∉ a ∧ QOp.fail ∉ eops := by
  have hf : (q0.run (a ++ [.from_ s] ++ eops ++ [.close])).flagerr = false := by
    cases h : (q0.run (a ++ [.from_ s] ++ eops ++ [.close])).flagerr
    · rfl
    · rw [QQ.refused_of_flagerr q0 a eops s he h] at hc; exact absurd hc (by simp)
  refine ⟨hf, ?_, ?_⟩
  · intro h
    rw [(QQ.refused_of_fail q0 a eops s he (Or.inl h)).1] at hf; exact absurd hf (by simp)
  · intro h
    rw [(QQ.refused_of_fail q0 a eops s he (Or.inr h)).1] at hf; exact absurd hf (by simp)

end Nq.QmailC

namespace Nq.Netstring
open Nq Nq.QmailC Nq.Received

/-! ### the `databytes` countdown -/

theorem ovfOps_fail (bto : Nat) (c : Byte) : QOp.fail ∈ ovfOps bto c ↔ bto = 1 := by
  unfold ovfOps; split <;> simp_all

namespace Smtp
open Nq.SmtpIn

theorem decN_eq : ∀ (n b : Nat), decN b n = b - n
  | 0, b => rfl
  | k + 1, b => by simp only [decN, ovfDec]; rw [decN_eq k]; omega

theorem ovfList_fail : ∀ (bs : Bytes) (bto : Nat), 1 ≤ bto → bto ≤ bs.length → QOp.fail ∈ ovfList bto bs
  | [], bto, h1, h2 => by simp at h2; omega
  | c :: r, bto, h1, h2 => by
    simp only [ovfList, List.mem_append]
    by_cases hb : bto = 1
    · exact Or.inl ((ovfOps_fail bto c).mpr hb)
    · right
      apply ovfList_fail r (ovfDec bto)
      · unfold ovfDec; omega
      · unfold ovfDec; simp at h2; omega

/-- the countdown after `blast`: what is left of `bto` after the stored bytes -/
theorem blast_bto : ∀ (inp : Bytes) (s : DSt) (bto : Nat),
    (blast s bto inp).bto = bto - (Qmtp.putBytes (blast s bto inp).ops).length
  | [], _, _ => by simp [blast, Qmtp.putBytes]
  | c :: inp, s, bto => by
    unfold blast
    split
    · rename_i bs hd
      simp only [putBytes_append, ovfList_bytes, List.length_append]
      rw [blast_bto inp, decN_eq]
      omega
    · simp [Qmtp.putBytes]
    · simp [Qmtp.putBytes]

/-- when the countdown (started ≥ 1) has reached 0, `put()` has called `qmail_fail` -/
theorem blast_fail : ∀ (inp : Bytes) (s : DSt) (bto : Nat), 1 ≤ bto → (blast s bto inp).bto = 0 →
    QOp.fail ∈ (blast s bto inp).ops
  | [], _, bto, h1, h0 => by simp [blast] at h0; omega
  | c :: inp, s, bto, h1, h0 => by
    unfold blast at h0 ⊢
    split at h0
    · rename_i bs hd
      simp only [List.mem_append]
      by_cases hl : bto ≤ bs.length
      · exact Or.inl (ovfList_fail bs bto h1 hl)
      · right
        apply blast_fail inp _ (decN bto bs.length)
        · rw [decN_eq]; omega
        · simpa using h0
    · simp at h0; omega
    · simp at h0; omega

/-- everything smtp_data() computes for a terminated DATA, spelled out -/
theorem data_full (cfg : Cfg) (helo : Option Bytes) (mailfrom rcptto inp : Bytes)
    (h : (data cfg helo mailfrom rcptto inp).stop = none) :
    ∃ rest, (blast .s1 (if cfg.databytes = 0 then 0 else cfg.databytes + 1) inp).fin = .done rest ∧
      (data cfg helo mailfrom rcptto inp).ops =
        ((receivedPieces pSMTP cfg.peer (fakehelo cfg.peer helo) cfg.now).map QOp.put ++
          (blast .s1 (if cfg.databytes = 0 then 0 else cfg.databytes + 1) inp).ops ++
          (if (data cfg helo mailfrom rcptto inp).hopsBad then [QOp.fail] else [])) ++
        [.from_ mailfrom] ++ [.put rcptto] ++ [.close] ∧
      (data cfg helo mailfrom rcptto inp).stored = Qmtp.putBytes (blast .s1 (if cfg.databytes = 0 then 0 else cfg.databytes + 1) inp).ops ∧
      ((data cfg helo mailfrom rcptto inp).overflow = true ↔
        (cfg.databytes ≠ 0 ∧ (blast .s1 (if cfg.databytes = 0 then 0 else cfg.databytes + 1) inp).bto = 0)) ∧
      (data cfg helo mailfrom rcptto inp).rest = rest := by
  obtain ⟨rest, hfin⟩ := (data_fin cfg helo mailfrom rcptto inp).1.mp h
  refine ⟨rest, hfin, ?_⟩
  unfold data
  simp only [hfin]
  refine ⟨by simp [List.append_assoc], by simp, by simp, by simp⟩

/-- **size limit, SMTP.**  For a terminated DATA the `overflow` flag is set exactly when `databytes` is in force and the
    decoded message (`stored`, what `C07_content_smtp` identifies with the reference decoder's output) is longer -/
theorem data_overflow_iff (cfg : Cfg) (helo : Option Bytes) (mailfrom rcptto inp : Bytes)
    (h : (data cfg helo mailfrom rcptto inp).stop = none) :
    (data cfg helo mailfrom rcptto inp).overflow = true ↔
      (cfg.databytes ≠ 0 ∧ (data cfg helo mailfrom rcptto inp).stored.length > cfg.databytes) := by
  obtain ⟨rest, _, _, hst, hov, _⟩ := data_full cfg helo mailfrom rcptto inp h
  rw [hov, hst, blast_bto]
  by_cases h0 : cfg.databytes = 0
  · simp [h0]
  · rw [if_neg h0]
    constructor
    · intro ⟨_, hb⟩; exact ⟨h0, by omega⟩
    · intro ⟨_, hb⟩; exact ⟨h0, by omega⟩

/-- … and then `qmail_fail` was called while the body was copied -/
theorem data_overflow_fail (cfg : Cfg) (helo : Option Bytes) (mailfrom rcptto inp : Bytes)
    (h : (data cfg helo mailfrom rcptto inp).stop = none) (ho : (data cfg helo mailfrom rcptto inp).overflow = true) :
    QOp.fail ∈ (blast .s1 (if cfg.databytes = 0 then 0 else cfg.databytes + 1) inp).ops := by
  obtain ⟨rest, _, _, _, hov, _⟩ := data_full cfg helo mailfrom rcptto inp h
  have := hov.mp ho
  apply blast_fail _ _ _ _ this.2
  simp only [this.1, ↓reduceIte]; omega

end Smtp

/-! ### qmail-qmtpd -/
namespace Qmtp

def bto0 (cfg : Cfg) : Nat := if cfg.databytes = 0 then 0 else cfg.databytes + 1

/-- the body loop `msg` runs for a message of framed length `len` whose mode byte is `c` -/
def bodyOf (cfg : Cfg) (len : Nat) (c : Byte) (r1 : Bytes) : BodyRes :=
  if c = CR then dosBody (len - 1) false (bto0 cfg) r1
  else (unixBody (len - 1) r1).pre (if c = LF ∧ cfg.databytes ≠ 0 ∧ len - 1 > cfg.databytes then [QOp.fail] else [])

/-- **inversion.**  Everything `msg` computes for a completely read message, spelled out: the parsing steps that
    succeeded and the resulting record. -/
theorem msg_full (cfg : Cfg) (inp : Bytes) (h : (msg cfg inp).stop = none) :
    ∃ len c r1 r2 r3 slen r4 sraw r5 r6 biglen r7 r8,
      Netstring.getlen Nq.Gen.C07.qmtpLenMax 0 inp = .ok len (c :: r1) ∧ len ≠ 0 ∧ (c = LF ∨ c = CR) ∧
      (bodyOf cfg len c r1).rest = some r2 ∧ Netstring.getcomma r2 = .ok () r3 ∧
      Netstring.getlen Nq.Gen.C07.qmtpLenMax 0 r3 = .ok slen r4 ∧ getbytes slen r4 = .ok sraw r5 ∧
      Netstring.getcomma r5 = .ok () r6 ∧
      Netstring.getlen Nq.Gen.C07.qmtpLenMax 0 r6 = .ok biglen r7 ∧
      (rcptLoop cfg (r7.length + 1) biglen r7).stop = none ∧
      Netstring.getcomma (rcptLoop cfg (r7.length + 1) biglen r7).rest = .ok () r8 ∧
      msg cfg inp =
        { ops := recvOps cfg ++ (bodyOf cfg len c r1).ops ++ [.from_ (if slen ≥ Nq.Gen.C07.qmtpAddrMax then [] else sraw)] ++
                   (if (!decide (slen ≥ Nq.Gen.C07.qmtpAddrMax) && !sraw.contains 0) = true then [] else [.fail]) ++
                   (rcptLoop cfg (r7.length + 1) biglen r7).ops ++
                   (if (rcptLoop cfg (r7.length + 1) biglen r7).failure.contains 0 = true then [] else [.fail]) ++ [.close],
          opened := true, rest := r8, stored := putBytes (bodyOf cfg len c r1).ops,
          senderok := (!decide (slen ≥ Nq.Gen.C07.qmtpAddrMax) && !sraw.contains 0),
          overflow := decide (cfg.databytes ≠ 0 ∧
            (if c = CR then (bodyOf cfg len c r1).bto
             else if c = LF ∧ cfg.databytes ≠ 0 ∧ len - 1 > cfg.databytes then 0 else bto0 cfg) = 0),
          sender := cstr (if slen ≥ Nq.Gen.C07.qmtpAddrMax then [] else sraw),
          failure := (rcptLoop cfg (r7.length + 1) biglen r7).failure,
          rcpts := (rcptLoop cfg (r7.length + 1) biglen r7).rcpts } := by
  unfold msg at h ⊢
  cases h1 : Netstring.getlen Nq.Gen.C07.qmtpLenMax 0 inp with
  | stop e r => simp [h1] at h
  | ok len r0 =>
    simp only [h1] at h ⊢
    by_cases hl : len = 0
    · simp [hl] at h
    · simp only [hl, ↓reduceIte] at h ⊢
      cases r0 with
      | nil => simp at h
      | cons c r1 =>
        simp only at h ⊢
        by_cases hc : c ≠ LF ∧ c ≠ CR
        · simp [hc] at h
        · simp only [hc, ↓reduceIte] at h ⊢
          have hc' : c = LF ∨ c = CR := by
            by_cases h1' : c = LF
            · exact Or.inl h1'
            · by_cases h2' : c = CR
              · exact Or.inr h2'
              · exact absurd ⟨h1', h2'⟩ hc
          have hb : (if c = CR then dosBody (len - 1) false (if cfg.databytes = 0 then 0 else cfg.databytes + 1) r1
              else BodyRes.pre (if c = LF ∧ cfg.databytes ≠ 0 ∧ len - 1 > cfg.databytes then [QOp.fail] else [])
                (unixBody (len - 1) r1)) = bodyOf cfg len c r1 := rfl
          rw [hb] at h ⊢
          cases h2 : (bodyOf cfg len c r1).rest with
          | none => simp [h2] at h
          | some r2 =>
            simp only [h2] at h ⊢
            cases h3 : Netstring.getcomma r2 with
            | stop e r => simp [h3] at h
            | ok u3 r3 =>
              simp only [h3] at h ⊢
              cases h4 : Netstring.getlen Nq.Gen.C07.qmtpLenMax 0 r3 with
              | stop e r => simp [h4] at h
              | ok slen r4 =>
                simp only [h4] at h ⊢
                cases h5 : getbytes slen r4 with
                | stop e r => simp [h5] at h
                | ok sraw r5 =>
                  simp only [h5] at h ⊢
                  cases h6 : Netstring.getcomma r5 with
                  | stop e r => simp [h6] at h
                  | ok u6 r6 =>
                    simp only [h6] at h ⊢
                    cases h7 : Netstring.getlen Nq.Gen.C07.qmtpLenMax 0 r6 with
                    | stop e r => simp [h7] at h
                    | ok biglen r7 =>
                      simp only [h7] at h ⊢
                      cases h8 : (rcptLoop cfg (r7.length + 1) biglen r7).stop with
                      | some e => simp [h8] at h
                      | none =>
                        simp only [h8] at h ⊢
                        cases h9 : Netstring.getcomma (rcptLoop cfg (r7.length + 1) biglen r7).rest with
                        | stop e r => simp [h9] at h
                        | ok u9 r8 =>
                          exact ⟨len, c, r1, r2, r3, slen, r4, sraw, r5, r6, biglen, r7, r8, rfl, hl, hc', h2, h3, h4, h5, h6,
                            h7, h8, h9, rfl⟩

/-! #### the size limit -/

theorem unixBody_len : ∀ (len : Nat) (p r : Bytes), (unixBody len p).rest = some r → len ≤ p.length
  | 0, _, _, _ => by omega
  | _ + 1, [], r, h => by simp [unixBody] at h
  | len + 1, c :: p, r, h => by
    simp only [unixBody, pre_rest] at h
    have := unixBody_len len p r h
    simp; omega

theorem dosBody_bto : ∀ (len : Nat) (pend : Bool) (bto : Nat) (p : Bytes),
    (dosBody len pend bto p).bto = bto - (putBytes (dosBody len pend bto p).ops).length
  | 0, _, _, _ => by simp [dosBody, putBytes]
  | _ + 1, _, _, [] => by simp [dosBody, putBytes]
  | len + 1, false, bto, c :: p => by
    rw [dosBody_false]
    split
    · exact dosBody_bto len true bto p
    · show (dosBody len false (ovfDec bto) p).bto = _
      rw [pre_ops, putBytes_append, ovfOps_bytes, dosBody_bto len false (ovfDec bto) p]
      simp [ovfDec]; omega
  | len + 1, true, bto, c :: p => by
    rw [dosBody_true]
    split
    · show (dosBody len false (ovfDec bto) p).bto = _
      rw [pre_ops, putBytes_append, ovfOps_bytes, dosBody_bto len false (ovfDec bto) p]
      simp [ovfDec]; omega
    · split
      · show (dosBody len true (ovfDec bto) p).bto = _
        rw [pre_ops, putBytes_append, ovfOps_bytes, dosBody_bto len true (ovfDec bto) p]
        simp [ovfDec]; omega
      · show (dosBody len false (ovfDec (ovfDec bto)) p).bto = _
        rw [pre_ops, putBytes_append, putBytes_append, ovfOps_bytes, ovfOps_bytes, dosBody_bto len false _ p]
        simp [ovfDec]; omega

theorem dosBody_fail : ∀ (len : Nat) (pend : Bool) (bto : Nat) (p : Bytes), 1 ≤ bto → (dosBody len pend bto p).bto = 0 →
    QOp.fail ∈ (dosBody len pend bto p).ops
  | 0, _, bto, _, h1, h0 => by simp [dosBody] at h0; omega
  | _ + 1, _, bto, [], h1, h0 => by simp [dosBody] at h0; omega
  | len + 1, false, bto, c :: p, h1, h0 => by
    rw [dosBody_false] at h0 ⊢
    split at h0
    · rename_i hc; simp only [hc, and_self, ↓reduceIte]; exact dosBody_fail len true bto p h1 h0
    · rename_i hc
      simp only [hc, ↓reduceIte, pre_ops, List.mem_append]
      by_cases hb : bto = 1
      · exact Or.inl ((ovfOps_fail bto c).mpr hb)
      · exact Or.inr (dosBody_fail len false (ovfDec bto) p (by unfold ovfDec; omega) h0)
  | len + 1, true, bto, c :: p, h1, h0 => by
    rw [dosBody_true] at h0 ⊢
    split at h0
    · rename_i hc
      simp only [hc, ↓reduceIte, pre_ops, List.mem_append]
      by_cases hb : bto = 1
      · exact Or.inl ((ovfOps_fail bto LF).mpr hb)
      · exact Or.inr (dosBody_fail len false (ovfDec bto) p (by unfold ovfDec; omega) h0)
    · rename_i hc
      split at h0
      · rename_i h2
        rw [if_neg hc, if_pos h2, pre_ops, List.mem_append]
        by_cases hb : bto = 1
        · exact Or.inl ((ovfOps_fail bto CR).mpr hb)
        · exact Or.inr (dosBody_fail len true (ovfDec bto) p (by unfold ovfDec; omega) h0)
      · rename_i h2
        rw [if_neg hc, if_neg h2, pre_ops, List.mem_append, List.mem_append]
        by_cases hb : bto = 1
        · exact Or.inl (Or.inl ((ovfOps_fail bto CR).mpr hb))
        · by_cases hb2 : bto = 2
          · exact Or.inl (Or.inr ((ovfOps_fail (ovfDec bto) c).mpr (by unfold ovfDec; omega)))
          · exact Or.inr (dosBody_fail len false (ovfDec (ovfDec bto)) p (by unfold ovfDec; omega) h0)

/-- **size limit, QMTP (both framings).**  For a completely read message the `overflow` flag is set exactly when
    `databytes` is in force and the decoded message (`stored`) is longer. -/
theorem msg_overflow_iff (cfg : Cfg) (inp : Bytes) (h : (msg cfg inp).stop = none) :
    (msg cfg inp).overflow = true ↔ (cfg.databytes ≠ 0 ∧ (msg cfg inp).stored.length > cfg.databytes) := by
  obtain ⟨len, c, r1, r2, r3, slen, r4, sraw, r5, r6, biglen, r7, r8, h1, hl, hc, h2, _, _, _, _, _, _, _, hm⟩ := msg_full cfg inp h
  rw [hm]
  simp only [decide_eq_true_eq]
  by_cases h0 : cfg.databytes = 0
  · simp [h0]
  · have hne : ¬ ((LF : Byte) = CR) := by decide
    rcases hc with hc | hc
    · -- LF framing: the test is made on the framed length before the copy
      subst hc
      have hb : bodyOf cfg len LF r1 = (unixBody (len - 1) r1).pre
          (if LF = LF ∧ cfg.databytes ≠ 0 ∧ len - 1 > cfg.databytes then [QOp.fail] else []) := by
        unfold bodyOf; rw [if_neg hne]
      rw [hb, pre_rest] at h2
      have hs := unixBody_stored (len - 1) r1 r2 h2
      have hlen := unixBody_len (len - 1) r1 r2 h2
      have hst : (putBytes (bodyOf cfg len LF r1).ops).length = len - 1 := by
        rw [hb, pre_ops, putBytes_append, hs.1]
        have : putBytes (if LF = LF ∧ cfg.databytes ≠ 0 ∧ len - 1 > cfg.databytes then [QOp.fail] else []) = [] := by
          split <;> rfl
        rw [this]; simp; omega
      rw [hst, if_neg hne]
      by_cases hbig : cfg.databytes ≠ 0 ∧ len - 1 > cfg.databytes
      · have hbig' : LF = LF ∧ cfg.databytes ≠ 0 ∧ len - 1 > cfg.databytes := ⟨rfl, hbig⟩
        rw [if_pos hbig']
        exact ⟨fun _ => hbig, fun _ => ⟨h0, rfl⟩⟩
      · have hbig' : ¬ (LF = LF ∧ cfg.databytes ≠ 0 ∧ len - 1 > cfg.databytes) := fun hh => hbig hh.2
        rw [if_neg hbig']
        constructor
        · intro ⟨_, hh⟩; unfold bto0 at hh; rw [if_neg h0] at hh; omega
        · intro hh; exact absurd hh hbig
    · -- CR framing: the countdown
      subst hc
      have hb : bodyOf cfg len CR r1 = dosBody (len - 1) false (bto0 cfg) r1 := by
        unfold bodyOf; rw [if_pos rfl]
      rw [if_pos rfl, hb, dosBody_bto]
      unfold bto0
      rw [if_neg h0]
      constructor
      · intro ⟨_, hh⟩; exact ⟨h0, by omega⟩
      · intro ⟨_, hh⟩; exact ⟨h0, by omega⟩

/-- … and then `qmail_fail` was called while (LF framing: before) the body was copied -/
theorem msg_overflow_fail (cfg : Cfg) (inp : Bytes) (h : (msg cfg inp).stop = none) (ho : (msg cfg inp).overflow = true) :
    ∃ len c r1, Netstring.getlen Nq.Gen.C07.qmtpLenMax 0 inp = .ok len (c :: r1) ∧ QOp.fail ∈ (bodyOf cfg len c r1).ops := by
  obtain ⟨len, c, r1, r2, r3, slen, r4, sraw, r5, r6, biglen, r7, r8, h1, hl, hc, h2, _, _, _, _, _, _, _, hm⟩ := msg_full cfg inp h
  refine ⟨len, c, r1, h1, ?_⟩
  rw [hm] at ho
  simp only [decide_eq_true_eq] at ho
  obtain ⟨h0, hz⟩ := ho
  have hne : ¬ ((LF : Byte) = CR) := by decide
  rcases hc with hc | hc
  · subst hc
    rw [if_neg hne] at hz
    unfold bodyOf
    rw [if_neg hne, pre_ops, List.mem_append]
    left
    by_cases hbig : LF = LF ∧ cfg.databytes ≠ 0 ∧ len - 1 > cfg.databytes
    · rw [if_pos hbig]; simp
    · rw [if_neg hbig] at hz; unfold bto0 at hz; rw [if_neg h0] at hz; omega
  · subst hc
    rw [if_pos rfl] at hz
    unfold bodyOf at hz ⊢
    rw [if_pos rfl] at hz ⊢
    apply dosBody_fail _ _ _ _ _ hz
    unfold bto0; rw [if_neg h0]; omega

/-- the calls of a completely read message, split at `qmail_from`, with what each refusal flag contributes:
    the size limit a `qmail_fail` in the message part, an unacceptable sender and "no recipient accepted" one in the
    envelope part -/
theorem msg_calls (cfg : Cfg) (inp : Bytes) (h : (msg cfg inp).stop = none) :
    ∃ a eops sbuf, (msg cfg inp).ops = a ++ [.from_ sbuf] ++ eops ++ [.close] ∧ (∀ op ∈ eops, EnvOp op) ∧
      ((msg cfg inp).overflow = true → QOp.fail ∈ a) ∧
      ((msg cfg inp).senderok = false → QOp.fail ∈ eops) ∧
      ((msg cfg inp).failure.contains 0 = false → QOp.fail ∈ eops) := by
  obtain ⟨len', c', r1', hg', hfail⟩ : ∃ len c r1, Netstring.getlen Nq.Gen.C07.qmtpLenMax 0 inp = .ok len (c :: r1) ∧
      ((msg cfg inp).overflow = true → QOp.fail ∈ (bodyOf cfg len c r1).ops) := by
    by_cases ho : (msg cfg inp).overflow = true
    · obtain ⟨len, c, r1, hg, hf⟩ := msg_overflow_fail cfg inp h ho
      exact ⟨len, c, r1, hg, fun _ => hf⟩
    · obtain ⟨len, c, r1, _, _, _, _, _, _, _, _, _, _, hg, _⟩ := msg_full cfg inp h
      exact ⟨len, c, r1, hg, fun hh => absurd hh ho⟩
  obtain ⟨len, c, r1, r2, r3, slen, r4, sraw, r5, r6, biglen, r7, r8, h1, hl, hc, h2, _, _, _, _, _, _, _, hm⟩ := msg_full cfg inp h
  rw [h1] at hg'
  simp only [R.ok.injEq, List.cons.injEq] at hg'
  obtain ⟨rfl, rfl, rfl⟩ := hg'
  refine ⟨recvOps cfg ++ (bodyOf cfg len c r1).ops,
    (if (!decide (slen ≥ Nq.Gen.C07.qmtpAddrMax) && !sraw.contains 0) = true then [] else [QOp.fail]) ++
      (rcptLoop cfg (r7.length + 1) biglen r7).ops ++
      (if (rcptLoop cfg (r7.length + 1) biglen r7).failure.contains 0 = true then [] else [QOp.fail]),
    (if slen ≥ Nq.Gen.C07.qmtpAddrMax then [] else sraw), ?_, ?_, ?_, ?_, ?_⟩
  · rw [hm]; simp [List.append_assoc]
  · intro op hop
    simp only [List.mem_append] at hop
    rcases hop with (hop | hop) | hop
    · split at hop <;> simp at hop; subst hop; exact .fail
    · have := rcptLoop_env cfg (r7.length + 1) biglen r7 op hop
      cases op <;> simp at this
      · exact .fail
      · exact .to _
    · split at hop <;> simp at hop; subst hop; exact .fail
  · intro ho; exact List.mem_append.mpr (Or.inr (hfail ho))
  · intro hs
    rw [hm] at hs
    simp only at hs
    simp only [List.mem_append]
    left; left
    rw [if_neg (by rw [hs]; simp)]; simp
  · intro hf
    rw [hm] at hf
    simp only at hf
    simp only [List.mem_append]
    right
    rw [if_neg (by rw [hf]; simp)]; simp

end Qmtp
end Nq.Netstring
