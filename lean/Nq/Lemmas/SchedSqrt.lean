/-
  Lemmas about `squareroot` / `nextretry` (qmail-send.c): the 16-step bitwise integer square root is
  exact on 0..2^32-1, saturates at 65535 above, returns 0 below 0, never overflows; the retry time is
  strictly in the future.
-/
import Nq.Sched
import Nq.Spec.Sched
import Mathlib.Tactic.Ring
import Mathlib.Tactic.Linarith

namespace Nq.Lemmas.Sched
open Nq.Sched Nq.Spec.Sched

theorem two_pow_pos (j : Nat) : (0 : Int) < 2 ^ j := by positivity

theorem pow_succ2 (j : Nat) : (2 : Int) ^ (j + 1) = 2 * 2 ^ j := by rw [pow_succ]; ring
theorem pow_dbl (j : Nat) : (2 : Int) ^ (j + j) = 2 ^ j * 2 ^ j := by rw [pow_add]

/-- loop invariant of `squareroot`: `yy = y²`, `y² ≤ x < (y + 2ⁿ)²` with `n` bits still to decide -/
theorem sqLoop_spec (x : Int) : ∀ (n : Nat) (y yy : Int), 0 ≤ y → yy = y * y → y * y ≤ x →
    x < (y + 2 ^ n) * (y + 2 ^ n) → IsSqrt x (sqLoop x n y yy) := by
  intro n
  induction n with
  | zero =>
    intro y yy hy hyy hlo hhi
    simp only [sqLoop, pow_zero] at *
    exact ⟨hy, hlo, hhi⟩
  | succ j ih =>
    intro y yy hy hyy hlo hhi
    have hp := two_pow_pos j
    simp only [sqLoop]
    rw [pow_succ2 j, pow_dbl j] at *
    generalize (2 : Int) ^ j = p at *
    have e1 : (y + p) * (y + p) = y * y + (y * (2 * p) + p * p) := by ring
    split
    · rename_i hc
      apply ih
      · linarith
      · rw [hyy]; ring
      · rw [e1]; linarith
      · have : y + p + p = y + 2 * p := by ring
        rw [this]; exact hhi
    · rename_i hc
      apply ih _ _ hy hyy hlo
      rw [e1]; linarith

/-- saturation: once `(y + 2ⁿ)² ≤ x` every remaining bit is set -/
theorem sqLoop_sat (x : Int) : ∀ (n : Nat) (y yy : Int), 0 ≤ y → yy = y * y →
    (y + 2 ^ n) * (y + 2 ^ n) ≤ x → sqLoop x n y yy = y + 2 ^ n - 1 := by
  intro n
  induction n with
  | zero => intro y yy _ _ _; simp [sqLoop]
  | succ j ih =>
    intro y yy hy hyy h
    have hp := two_pow_pos j
    simp only [sqLoop]
    rw [pow_succ2 j, pow_dbl j] at *
    generalize (2 : Int) ^ j = p at *
    have e1 : (y + p) * (y + p) = y * y + (y * (2 * p) + p * p) := by ring
    have e2 : (y + 2 * p) * (y + 2 * p) = (y + p) * (y + p) + (2 * (y * p) + 3 * (p * p)) := by ring
    have hyp : 0 ≤ y * p := Int.mul_nonneg hy (le_of_lt hp)
    have hpp : 0 < p * p := Int.mul_pos hp hp
    have hc : y * (2 * p) + p * p ≤ x - yy := by rw [hyy]; nlinarith
    rw [if_pos hc]
    rw [ih (y + p) _ (by linarith) (by rw [hyy]; ring) (by
      have : y + p + p = y + 2 * p := by ring
      rw [this]; exact h)]
    ring

/-- negative argument: no bit is ever set -/
theorem sqLoop_neg (x : Int) (hx : x < 0) : ∀ n : Nat, sqLoop x n 0 0 = 0 := by
  intro n
  induction n with
  | zero => rfl
  | succ j ih =>
    have hp := two_pow_pos (j + j)
    simp only [sqLoop]
    rw [if_neg (by simp only [Int.zero_mul, Int.zero_add, Int.sub_zero]; omega)]
    exact ih

/-- no intermediate of the loop overflows (`1 << (j+j)` as `int`, everything else as `long`) -/
theorem sqLoopOk_inv (x : Int) (hx0 : 0 ≤ x) (hx : x < 9223372036854775808) : ∀ (n : Nat) (y yy : Int), n ≤ 16 → 0 ≤ y →
    y + 2 ^ n ≤ 65536 → yy = y * y → y * y ≤ x → sqLoopOk x n y yy = true := by
  intro n
  induction n with
  | zero => intro y yy _ _ _ _ _; rfl
  | succ j ih =>
    intro y yy hn hy hb hyy hlo
    have hp := two_pow_pos j
    have hj : j ≤ 15 := by omega
    have hp15 : (2 : Int) ^ j ≤ 32768 := by
      have : (2 : Int) ^ j ≤ 2 ^ 15 := by
        exact_mod_cast (Nat.pow_le_pow_right (by decide : 1 ≤ 2) hj : 2 ^ j ≤ 2 ^ 15)
      norm_num at this; exact this
    rw [sqLoopOk]
    rw [pow_succ2 j] at hb
    rw [pow_succ2 j, pow_dbl j]
    obtain ⟨p, hpdef⟩ : ∃ p : Int, (2 : Int) ^ j = p := ⟨_, rfl⟩
    rw [hpdef] at hp hp15 hb ⊢
    simp only [inInt, inLong, Bool.and_eq_true, decide_eq_true_eq]
    have hyp : 0 ≤ y * p := Int.mul_nonneg hy (le_of_lt hp)
    have hpp : 0 < p * p := Int.mul_pos hp hp
    have hyb : y ≤ 65536 := by linarith
    have h1 : y * p ≤ 65536 * 32768 := by nlinarith
    have h2 : p * p ≤ 32768 * 32768 := by nlinarith
    have h3 : y * y ≤ 65536 * 65536 := by nlinarith
    have hyy0 : 0 ≤ y * y := Int.mul_nonneg hy hy
    subst hyy
    refine ⟨⟨⟨⟨⟨⟨?_, ?_⟩, ?_⟩, ?_⟩, ?_⟩, ?_⟩, ?_⟩
    · constructor <;> nlinarith
    · constructor <;> nlinarith
    · constructor <;> nlinarith
    · constructor <;> nlinarith
    · constructor <;> nlinarith
    · constructor <;> nlinarith
    · split
      · rename_i hc
        apply ih _ _ (by omega) (by linarith) (by rw [hpdef]; linarith) (by ring)
        have e1 : (y + p) * (y + p) = y * y + (y * (2 * p) + p * p) := by ring
        rw [e1]; linarith
      · exact ih _ _ (by omega) hy (by rw [hpdef]; linarith) rfl hlo

theorem isSqrt_unique {x r s : Int} (hr : IsSqrt x r) (hs : IsSqrt x s) : r = s := by
  obtain ⟨r0, r1, r2⟩ := hr
  obtain ⟨s0, s1, s2⟩ := hs
  by_contra hne
  rcases lt_or_gt_of_ne hne with h | h
  · have : r + 1 ≤ s := h
    nlinarith
  · have : s + 1 ≤ r := h
    nlinarith

theorem isSqrt_mono {x x' r r' : Int} (hr : IsSqrt x r) (hr' : IsSqrt x' r') (hx : x ≤ x') : r ≤ r' := by
  obtain ⟨r0, r1, r2⟩ := hr
  obtain ⟨s0, s1, s2⟩ := hr'
  by_contra hne
  have : r' + 1 ≤ r := by omega
  nlinarith

theorem chanskip_eq (c : Chan) : chanskip c = skip c := by
  cases c <;> simp [chanskip, skip, Nq.Gen.chanskip_local, Nq.Gen.chanskip_remote]

theorem skip_pos (c : Chan) : 10 ≤ skip c := by cases c <;> simp [skip]

theorem wrap64_id (v : Int) (h0 : -9223372036854775808 ≤ v) (h1 : v < 9223372036854775808) : wrap64 v = v := by
  unfold wrap64; omega


end Nq.Lemmas.Sched
