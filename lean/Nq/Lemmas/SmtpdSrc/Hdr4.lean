import Nq.Lemmas.SmtpdSrc.Defs
namespace Nq.SmtpdSrc
set_option maxRecDepth 1000000 in
/-- exhaustive kernel evaluation: pos = 4, every flag combination, every byte -/
theorem sliceH_4 : sliceH 4 = true := by decide +kernel
end Nq.SmtpdSrc
