import Nq.Lemmas.SmtpdSrc.Defs
namespace Nq.SmtpdSrc
/-- exhaustive kernel evaluation: pos = 4, every flag combination, every byte -/
set_option maxRecDepth 1000000 in
theorem sliceH_4 : sliceH 4 = true := by decide +kernel
end Nq.SmtpdSrc
