import Nq.Lemmas.SmtpdSrc.Defs
namespace Nq.SmtpdSrc
set_option maxRecDepth 1000000 in
/-- exhaustive kernel evaluation: pos = 7, every flag combination, every byte -/
theorem sliceH_7 : sliceH 7 = true := by decide +kernel
end Nq.SmtpdSrc
