import Nq.Lemmas.SmtpdSrc.Defs
namespace Nq.SmtpdSrc
/-- exhaustive kernel evaluation: pos = 6, every flag combination, every byte -/
set_option maxRecDepth 1000000 in
theorem sliceH_6 : sliceH 6 = true := by decide +kernel
end Nq.SmtpdSrc
