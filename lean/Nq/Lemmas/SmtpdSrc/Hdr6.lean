import Nq.Lemmas.SmtpdSrc.Defs
namespace Nq.SmtpdSrc
set_option maxRecDepth 1000000 in
/-- exhaustive kernel evaluation: pos = 6, every flag combination, every byte -/
theorem sliceH_6 : sliceH 6 = true := by decide +kernel
end Nq.SmtpdSrc
