import Nq.Lemmas.SmtpdSrc.Defs
namespace Nq.SmtpdSrc
set_option maxRecDepth 1000000 in
/-- exhaustive kernel evaluation: pos = 0, every flag combination, every byte -/
theorem sliceH_0 : sliceH 0 = true := by decide +kernel
end Nq.SmtpdSrc
