import Nq.Lemmas.SmtpdSrc.Defs
namespace Nq.SmtpdSrc
/-- exhaustive kernel evaluation: pos = 9, every flag combination, every byte -/
set_option maxRecDepth 1000000 in
theorem sliceH_9 : sliceH 9 = true := by decide +kernel
end Nq.SmtpdSrc
