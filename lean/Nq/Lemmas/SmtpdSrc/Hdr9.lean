import Nq.Lemmas.SmtpdSrc.Defs
namespace Nq.SmtpdSrc
set_option maxRecDepth 1000000 in
/-- exhaustive kernel evaluation: pos = 9, every flag combination, every byte -/
theorem sliceH_9 : sliceH 9 = true := by decide +kernel
end Nq.SmtpdSrc
