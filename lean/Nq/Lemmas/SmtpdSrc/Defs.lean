/-
  Nq.Lemmas.SmtpdSrc.Defs — how the state of the hand-written automaton of qmail-smtpd.c blast()
  (`Nq.SmtpIn.dstep` / `hstep`) is laid out in the locals of the C function, and the executable checks that
  compare one loop iteration of the EXTRACTED source (Nq.Gen.SmtpdBlast, meaning given by Nq.CMini.run)
  with one step of the automaton.  The checks are evaluated exhaustively by the kernel in the sibling
  modules (`Hdr0 … Hdr9`, `Sw`), glued together in `Nq.Lemmas.SmtpdSrc.Main`.
-/
import Nq.CMini
import Nq.Gen.SmtpdBlast
import Nq.SmtpIn

namespace Nq.SmtpdSrc
open Nq Nq.CMini Nq.SmtpIn Nq.Gen.SmtpdBlast

/-- the three top-level statements of the loop body after the read -/
def hdr : Stmt := stmts.getD 0 .skip    -- `if (flaginheader) { ... }`
def sw : Stmt := stmts.getD 1 .skip     -- `switch (state) { ... }`
def tl : Stmt := stmts.getD 2 .skip     -- `put(&ch);`
def swtl : Stmt := .seq sw tl
def body : Stmt := .seq hdr swtl

def n2b (n : Nat) : Bool := n != 0
def encS : DSt → Nat | .s0 => 0 | .s1 => 1 | .s2 => 2 | .s3 => 3 | .s4 => 4
def decS : Nat → DSt | 0 => .s0 | 1 => .s1 | 2 => .s2 | 3 => .s3 | _ => .s4

/-- `hstep` on the C representation of the hop scanner's state (hops counted from 0) -/
def expH (f p x y z c : Nat) : List Nat × Nat :=
  let h := hstep { inHeader := n2b f, pos := p, mx := n2b x, my := n2b y, mz := n2b z, hops := 0 } (UInt8.ofNat c)
  ([b2n h.inHeader, h.pos, b2n h.mx, b2n h.my, b2n h.mz], h.hops)

def isHops : List Ev → Nat → Bool
  | [], 0 => true
  | .hop :: l, n + 1 => isHops l n
  | _, _ => false

def isNorm : Ctl → Bool | .norm => true | _ => false

/-- the header block of the extracted source does to (flaginheader,pos,flagmaybex,y,z) and `*hops` what `hstep` does -/
def okH (f p x y z c : Nat) : Bool :=
  match run hdr none [0, f, p, x, y, z] c with
  | ⟨env, evs, ctl, sk⟩ =>
    let e := expH f p x y z c
    env == 0 :: e.1 && isHops evs e.2 && isNorm ctl && sk.isNone

def sliceH (p : Nat) : Bool :=
  (List.range 2).all fun f => (List.range 2).all fun x => (List.range 2).all fun y =>
  (List.range 2).all fun z => (List.range 256).all fun c => okH f p x y z c

inductive Cls | next | ret | exit (f : Nat)
  deriving DecidableEq, Repr
def cls : Ctl → Cls | .ret => .ret | .exit f => .exit f | _ => .next

def putEvs (bs : Bytes) : List Ev := bs.map (fun b => Ev.put b.toNat)

def expS (s c : Nat) : Nat × List Ev × Cls :=
  match dstep (decS s) (UInt8.ofNat c) with
  | (s', .data bs) => (encS s', putEvs bs, .next)
  | (s', .done) => (encS s', [], .ret)
  | (s', .stray) => (encS s', [], .exit 0)

/-- the switch and the trailing `put(&ch)` of the extracted source do to `state` and to the output what `dstep` does -/
def okS (s c : Nat) : Bool :=
  match run swtl none [s, 0, 0, 0, 0, 0] c with
  | ⟨env, evs, ctl, sk⟩ =>
    let e := expS s c
    env == [e.1, 0, 0, 0, 0, 0] && decide (evs = e.2.1) && decide (cls ctl = e.2.2) && sk.isNone

def allS : Bool := (List.range 5).all fun s => (List.range 256).all fun c => okS s c

end Nq.SmtpdSrc
