import Nq.Lemmas.SmtpdSrc.Defs
namespace Nq.SmtpdSrc
/-- exhaustive kernel evaluation: pos = 5, every flag combination, every byte -/
set_option maxRecDepth 1000000 in
theorem sliceH_5 : sliceH 5 = true := by decide +kernel
end Nq.SmtpdSrc
