import Nq.Lemmas.SmtpdSrc.Defs
namespace Nq.SmtpdSrc
set_option maxRecDepth 1000000 in
/-- exhaustive kernel evaluation: pos = 5, every flag combination, every byte -/
theorem sliceH_5 : sliceH 5 = true := by decide +kernel
end Nq.SmtpdSrc
