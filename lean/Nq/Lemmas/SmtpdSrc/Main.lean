/-
  Nq.Lemmas.SmtpdSrc.Main — one iteration of the loop body EXTRACTED from qmail-smtpd.c blast() (meaning:
  Nq.CMini.run) is one step of the hand-written automaton (`dstep` for `state` and the output, `hstep` for the
  hop scanner), for every automaton state, every reachable scanner state and every byte; and therefore the
  whole loop over any input is `drun`/`hopsOf`.
-/
import Nq.Lemmas.CMiniIndep
import Nq.Lemmas.SmtpdSrc.Sw
import Nq.Lemmas.SmtpdSrc.Hdr0
import Nq.Lemmas.SmtpdSrc.Hdr1
import Nq.Lemmas.SmtpdSrc.Hdr2
import Nq.Lemmas.SmtpdSrc.Hdr3
import Nq.Lemmas.SmtpdSrc.Hdr4
import Nq.Lemmas.SmtpdSrc.Hdr5
import Nq.Lemmas.SmtpdSrc.Hdr6
import Nq.Lemmas.SmtpdSrc.Hdr7
import Nq.Lemmas.SmtpdSrc.Hdr8
import Nq.Lemmas.SmtpdSrc.Hdr9

namespace Nq.SmtpdSrc
open Nq Nq.CMini Nq.SmtpIn Nq.Gen.SmtpdBlast

/-! ### shape of the extracted function -/

theorem shape_stmts : stmts.length = 3 := by decide
theorem shape_vars : varNames = ["state", "flaginheader", "pos", "flagmaybex", "flagmaybey", "flagmaybez"] := by decide
theorem shape_init : initEnv = [1, 1, 0, 1, 1, 1] := by decide
theorem hdr_vars : 0 ∉ hdr.vars := by decide
theorem swtl_vars : ∀ v ∈ [1, 2, 3, 4, 5], v ∉ swtl.vars := by decide

/-! ### the exhaustive checks, as statements -/

theorem okH_all (f p x y z c : Nat) (hf : f < 2) (hp : p < 10) (hx : x < 2) (hy : y < 2) (hz : z < 2)
    (hc : c < 256) : okH f p x y z c = true := by
  have hs : sliceH p = true := by
    match p, hp with
    | 0, _ => exact sliceH_0 | 1, _ => exact sliceH_1 | 2, _ => exact sliceH_2 | 3, _ => exact sliceH_3
    | 4, _ => exact sliceH_4 | 5, _ => exact sliceH_5 | 6, _ => exact sliceH_6 | 7, _ => exact sliceH_7
    | 8, _ => exact sliceH_8 | 9, _ => exact sliceH_9
    | n + 10, h => exact absurd h (by omega)
  simp only [sliceH, List.all_eq_true, List.mem_range] at hs
  exact hs f hf x hx y hy z hz c hc

theorem okS_all (s c : Nat) (hs : s < 5) (hc : c < 256) : okS s c = true := by
  have h := allS_true
  simp only [allS, List.all_eq_true, List.mem_range] at h
  exact h s hs c hc

theorem isHops_eq : ∀ (l : List Ev) (n : Nat), isHops l n = true → l = List.replicate n Ev.hop
  | [], 0, _ => rfl
  | [], n + 1, h => by simp [isHops] at h
  | .hop :: l, 0, h => by simp [isHops] at h
  | .hop :: l, n + 1, h => by
      simp only [isHops] at h
      simp [List.replicate_succ, isHops_eq l n h]
  | .put b :: l, n, h => by cases n <;> simp [isHops] at h

theorem isNorm_eq (c : Ctl) (h : isNorm c = true) : c = .norm := by cases c <;> simp [isNorm] at h ⊢

/-! ### layout of the automaton's state in the locals -/

def enc (s : DSt) (h : HSt) : Env := [encS s, b2n h.inHeader, h.pos, b2n h.mx, b2n h.my, b2n h.mz]

theorem n2b_b2n (b : Bool) : n2b (b2n b) = b := by cases b <;> rfl
theorem b2n_lt (b : Bool) : b2n b < 2 := by cases b <;> decide
theorem encS_lt (s : DSt) : encS s < 5 := by cases s <;> decide
theorem decS_encS (s : DSt) : decS (encS s) = s := by cases s <;> rfl

/-- the hop counter only ever adds to `hops` -/
theorem hstep_hops (h : HSt) (c : Byte) :
    hstep h c = { hstep { h with hops := 0 } c with hops := h.hops + (hstep { h with hops := 0 } c).hops } := by
  obtain ⟨f, p, x, y, z, n⟩ := h
  simp only [hstep]
  cases f <;> simp
  by_cases h9 : p < 9 <;> simp [h9]
  all_goals (repeat' split) <;> simp_all <;> omega

/-- what one iteration must do, in terms of the hand-written automaton -/
def expect (s : DSt) (h : HSt) (c : Byte) : Env × List Ev × Cls :=
  let h' := hstep h c
  let hops := List.replicate (h'.hops - h.hops) Ev.hop
  match dstep s c with
  | (s', .data bs) => (enc s' h', hops ++ putEvs bs, .next)
  | (s', .done) => (enc s' h', hops, .ret)
  | (s', .stray) => (enc s' h', hops, .exit 0)


theorem hstep_pos_le (h : HSt) (c : Byte) (hp : h.pos ≤ 9) : (hstep h c).pos ≤ 9 := by
  obtain ⟨f, p, x, y, z, n⟩ := h
  simp only [hstep]
  cases f <;> simp
  · exact hp
  · by_cases h9 : p < 9 <;> simp [h9]
    all_goals (repeat' split) <;> simp_all <;> omega

/-- the header block of the extracted source, on the locals that hold `(s, h)` -/
theorem hdr_run (s : DSt) (h : HSt) (c : Byte) (hp : h.pos ≤ 9) :
    run hdr none (enc s h) c.toNat =
      ⟨enc s (hstep h c), List.replicate ((hstep h c).hops - h.hops) Ev.hop, .norm, none⟩ := by
  have hk := okH_all (b2n h.inHeader) h.pos (b2n h.mx) (b2n h.my) (b2n h.mz) c.toNat (b2n_lt _) (by omega)
    (b2n_lt _) (b2n_lt _) (b2n_lt _) c.toNat_lt
  have hset : enc s h = ([0, b2n h.inHeader, h.pos, b2n h.mx, b2n h.my, b2n h.mz] : Env).set 0 (encS s) := rfl
  rw [hset, run_set 0 (encS s) c.toNat hdr none _ hdr_vars]
  generalize hr : run hdr none [0, b2n h.inHeader, h.pos, b2n h.mx, b2n h.my, b2n h.mz] c.toNat = r at hk ⊢
  obtain ⟨env, evs, ctl, sk⟩ := r
  simp only [okH, hr, Bool.and_eq_true, beq_iff_eq, Option.isNone_iff_eq_none] at hk
  obtain ⟨⟨⟨he, hh⟩, hn⟩, hsk⟩ := hk
  have e1 := isHops_eq _ _ hh
  have e2 := isNorm_eq _ hn
  subst he e1 e2 hsk
  have h0 : ({ inHeader := n2b (b2n h.inHeader), pos := h.pos, mx := n2b (b2n h.mx), my := n2b (b2n h.my), mz := n2b (b2n h.mz), hops := 0 } : HSt) = { h with hops := 0 } := by simp [n2b_b2n]
  have hh := hstep_hops h c
  simp only [Res.setv, expH, h0, UInt8.ofNat_toNat, enc, List.set_cons_zero]
  rw [hh]
  simp

/-- the switch and the final `put(&ch)` do not look at the hop scanner's locals -/
theorem swtl_run (s : DSt) (f p x y z : Nat) (c : Byte) :
    run swtl none [encS s, f, p, x, y, z] c.toNat =
      ((((((run swtl none [encS s, 0, 0, 0, 0, 0] c.toNat).setv 1 f).setv 2 p).setv 3 x).setv 4 y).setv 5 z) := by
  have hset : ([encS s, f, p, x, y, z] : Env) =
      ((((([encS s, 0, 0, 0, 0, 0] : Env).set 1 f).set 2 p).set 3 x).set 4 y).set 5 z := rfl
  rw [hset, run_set 5 z _ swtl none _ (swtl_vars 5 (by decide)), run_set 4 y _ swtl none _ (swtl_vars 4 (by decide)),
    run_set 3 x _ swtl none _ (swtl_vars 3 (by decide)), run_set 2 p _ swtl none _ (swtl_vars 2 (by decide)),
    run_set 1 f _ swtl none _ (swtl_vars 1 (by decide))]

/-- ONE ITERATION of the extracted loop body = one step of the automaton -/
theorem iter_eq (s : DSt) (h : HSt) (c : Byte) (hp : h.pos ≤ 9) :
    (let r := iter body (enc s h) c.toNat; (r.env, r.evs, cls r.ctl)) = expect s h c := by
  have hk := okS_all (encS s) c.toNat (encS_lt s) c.toNat_lt
  simp only [iter, body, run, hdr_run s h c hp]
  simp only [enc]
  rw [swtl_run]
  generalize hr : run swtl none [encS s, 0, 0, 0, 0, 0] c.toNat = r at hk ⊢
  obtain ⟨env, evs, ctl, sk⟩ := r
  simp only [okS, hr, Bool.and_eq_true, beq_iff_eq, decide_eq_true_eq, Option.isNone_iff_eq_none] at hk
  obtain ⟨⟨⟨he, hv⟩, hcl⟩, hsk⟩ := hk
  subst he hv hsk
  simp only [expS, decS_encS, UInt8.ofNat_toNat] at hcl ⊢
  simp only [expect, Res.setv, enc]
  rcases hd : dstep s c with ⟨s', o⟩
  cases o <;> simp [hd] at hcl ⊢ <;> simp [hcl, List.set]


/-! ### the whole loop -/

/-- the automaton and the hop scanner run side by side over the input, as `blast()` runs them -/
def mrun : DSt → HSt → Bytes → DRes × HSt
  | _, h, [] => (.incomplete, h)
  | s, h, c :: inp =>
      match (dstep s c).2 with
      | .data bs => let r := mrun (dstep s c).1 (hstep h c) inp
                    (emit bs r.1, r.2)
      | .done => (.accepted [] inp, hstep h c)
      | .stray => (.stray, hstep h c)

theorem mrun_fst : ∀ (inp : Bytes) (s : DSt) (h : HSt), (mrun s h inp).1 = drun s inp
  | [], _, _ => rfl
  | c :: inp, s, h => by
      simp only [mrun, drun]
      cases hd : (dstep s c).2 <;> simp [mrun_fst inp]

/-- when the terminator is found, the scanner has seen exactly the bytes consumed -/
theorem mrun_snd : ∀ (inp : Bytes) (s : DSt) (h : HSt) (b rest : Bytes), drun s inp = .accepted b rest →
    ∃ consumed, inp = consumed ++ rest ∧ (mrun s h inp).2 = consumed.foldl hstep h
  | [], _, _, _, _, hd => by simp [drun] at hd
  | c :: inp, s, h, b, rest, hd => by
      simp only [drun] at hd
      simp only [mrun]
      cases ho : (dstep s c).2 with
      | data bs =>
          simp only [ho] at hd
          cases hr : drun (dstep s c).1 inp with
          | accepted b' r' =>
              simp only [hr, emit] at hd
              injection hd with _ hrest
              subst hrest
              obtain ⟨cs, h1, h2⟩ := mrun_snd inp (dstep s c).1 (hstep h c) b' r' hr
              exact ⟨c :: cs, by simp [h1], by simp [h2]⟩
          | stray => simp [hr, emit] at hd
          | incomplete => simp [hr, emit] at hd
      | done =>
          simp only [ho] at hd
          injection hd with _ hrest
          subst hrest
          exact ⟨[c], by simp, by simp⟩
      | stray => simp [ho] at hd

def putsOf : List Ev → Bytes
  | [] => []
  | .put b :: l => UInt8.ofNat b :: putsOf l
  | .hop :: l => putsOf l

def hopCount : List Ev → Nat
  | [] => 0
  | .hop :: l => hopCount l + 1
  | .put _ :: l => hopCount l

theorem putsOf_append (a b : List Ev) : putsOf (a ++ b) = putsOf a ++ putsOf b := by
  induction a with
  | nil => rfl
  | cons e a ih => cases e <;> simp [putsOf, ih]

theorem hopCount_append (a b : List Ev) : hopCount (a ++ b) = hopCount a + hopCount b := by
  induction a with
  | nil => simp [hopCount]
  | cons e a ih => cases e <;> simp [hopCount, ih] <;> omega

theorem putsOf_replicate (n : Nat) : putsOf (List.replicate n Ev.hop) = [] := by
  induction n with
  | zero => rfl
  | succ n ih => simp [List.replicate_succ, putsOf, ih]

theorem hopCount_replicate (n : Nat) : hopCount (List.replicate n Ev.hop) = n := by
  induction n with
  | zero => rfl
  | succ n ih => simp [List.replicate_succ, hopCount, ih]

theorem putsOf_putEvs (bs : Bytes) : putsOf (putEvs bs) = bs := by
  induction bs with
  | nil => rfl
  | cons b bs ih => simp [putEvs, putsOf] at ih ⊢; exact ih

theorem hopCount_putEvs (bs : Bytes) : hopCount (putEvs bs) = 0 := by
  induction bs with
  | nil => rfl
  | cons b bs ih => simp [putEvs, hopCount] at ih ⊢; exact ih

theorem hstep_hops_le (h : HSt) (c : Byte) : h.hops ≤ (hstep h c).hops := by
  rw [hstep_hops h c]; simp

theorem mrun_hops_le : ∀ (inp : Bytes) (s : DSt) (h : HSt), h.hops ≤ (mrun s h inp).2.hops
  | [], _, _ => by simp [mrun]
  | c :: inp, s, h => by
      have := hstep_hops_le h c
      simp only [mrun]
      cases (dstep s c).2 with
      | data bs => have := mrun_hops_le inp (dstep s c).1 (hstep h c); simp; omega
      | done => simpa
      | stray => simpa

/-- what an outcome of the extracted loop means for the session: bytes handed to the queue writer, unread input, and the
number of `++*hops` executed -/
def outView : Out → DRes × Nat
  | .returned evs rest => (.accepted (putsOf evs) (rest.map UInt8.ofNat), hopCount evs)
  | .exited _ evs => (.stray, hopCount evs)
  | .starved evs _ => (.incomplete, hopCount evs)

theorem map_ofNat_toNat (l : Bytes) : (l.map (fun b => b.toNat)).map UInt8.ofNat = l := by
  induction l with
  | nil => rfl
  | cons b l ih => simp [ih]

theorem map_ofNat_toNat' (l : Bytes) : List.map (UInt8.ofNat ∘ fun b => b.toNat) l = l := by
  induction l with
  | nil => rfl
  | cons b l ih => simp [ih]

/-- THE LOOP of the extracted source over any input = the automaton's run, with the hop count of the scanner -/
theorem loop_eq : ∀ (inp : Bytes) (s : DSt) (h : HSt), h.pos ≤ 9 →
    outView (loop body (enc s h) (inp.map (fun b => b.toNat))) = ((mrun s h inp).1, (mrun s h inp).2.hops - h.hops)
  | [], s, h, _ => by simp [loop, outView, mrun, hopCount]
  | c :: inp, s, h, hp => by
      have hi := iter_eq s h c hp
      have ih := loop_eq inp (dstep s c).1 (hstep h c) (hstep_pos_le h c hp)
      have hle := hstep_hops_le h c
      simp only [List.map_cons, loop, mrun]
      generalize hr : iter body (enc s h) c.toNat = r at hi
      obtain ⟨env, evs, ctl, sk⟩ := r
      simp only [expect] at hi
      rcases hd : dstep s c with ⟨s', o⟩
      rw [hd] at hi ih
      cases o with
      | done =>
          simp only [Prod.mk.injEq] at hi
          obtain ⟨_, hev, hc⟩ := hi
          have : ctl = .ret := by cases ctl <;> simp [cls] at hc ⊢
          subst this hev
          simp [outView, putsOf_replicate, hopCount_replicate, map_ofNat_toNat']
      | stray =>
          simp only [Prod.mk.injEq] at hi
          obtain ⟨_, hev, hc⟩ := hi
          have : ctl = .exit 0 := by cases ctl <;> simp [cls] at hc ⊢; exact hc
          subst this hev
          simp [outView, hopCount_replicate]
      | data bs =>
          simp only [Prod.mk.injEq] at hi
          obtain ⟨henv, hev, hc⟩ := hi
          subst henv hev
          have hle2 := (mrun s' (hstep h c) inp).2.hops
          have hmono : (hstep h c).hops ≤ (mrun s' (hstep h c) inp).2.hops := mrun_hops_le inp s' (hstep h c)
          cases ctl <;> simp [cls] at hc <;>
          · simp only []
            generalize hl : loop body (enc s' (hstep h c)) (List.map (fun b => b.toNat) inp) = l at ih
            cases l <;> simp only [outView, Prod.mk.injEq] at ih ⊢ <;>
            · obtain ⟨h1, h2⟩ := ih
              simp only [putsOf_append, hopCount_append, putsOf_replicate, hopCount_replicate, putsOf_putEvs,
                hopCount_putEvs, h2, List.nil_append, Nat.add_zero]
              refine ⟨?_, by omega⟩
              rw [← h1]; simp [emit]

end Nq.SmtpdSrc
