/-
  Nq.Lemmas.SmtpdSrc.Main — one iteration of the loop body EXTRACTED from qmail-smtpd.c blast() (meaning:
  Nq.CMini.run) is one step of the hand-written automaton (`dstep` for `state` and the output, `hstep` for the
  hop scanner), for every automaton state, every reachable scanner state and every byte; and therefore the
  whole loop over any input is `drun`/`hopsOf`.
-/
import Nq.Lemmas.CMiniIndep
import Nq.Lemmas.SmtpdSrc.Sw
import Nq.Lemmas.SmtpdSrc.Hdr0
import Nq.Lemmas.SmtpdSrc.Hdr1
import Nq.Lemmas.SmtpdSrc.Hdr2
import Nq.Lemmas.SmtpdSrc.Hdr3
import Nq.Lemmas.SmtpdSrc.Hdr4
import Nq.Lemmas.SmtpdSrc.Hdr5
import Nq.Lemmas.SmtpdSrc.Hdr6
import Nq.Lemmas.SmtpdSrc.Hdr7
import Nq.Lemmas.SmtpdSrc.Hdr8
import Nq.Lemmas.SmtpdSrc.Hdr9

namespace Nq.SmtpdSrc
open Nq Nq.CMini Nq.SmtpIn Nq.Gen.SmtpdBlast

/-! ### shape of the extracted function -/

theorem shape_stmts : stmts.length = 3 := by decide
theorem shape_vars : varNames = ["state", "flaginheader", "pos", "flagmaybex", "flagmaybey", "flagmaybez"] := by decide
theorem shape_init : initEnv = [1, 1, 0, 1, 1, 1] := by decide
theorem hdr_vars : 0 ∉ hdr.vars := by decide
theorem swtl_vars : ∀ v ∈ [1, 2, 3, 4, 5], v ∉ swtl.vars := by decide

/-! ### the exhaustive checks, as statements -/

theorem okH_all (f p x y z c : Nat) (hf : f < 2) (hp : p < 10) (hx : x < 2) (hy : y < 2) (hz : z < 2)
    (hc : c < 256) : okH f p x y z c = true := by
  have hs : sliceH p = true := by
    match p, hp with
    | 0, _ => exact sliceH_0 | 1, _ => exact sliceH_1 | 2, _ => exact sliceH_2 | 3, _ => exact sliceH_3
    | 4, _ => exact sliceH_4 | 5, _ => exact sliceH_5 | 6, _ => exact sliceH_6 | 7, _ => exact sliceH_7
    | 8, _ => exact sliceH_8 | 9, _ => exact sliceH_9
    | n + 10, h => exact absurd h (by omega)
  simp only [sliceH, List.all_eq_true, List.mem_range] at hs
  exact hs f hf x hx y hy z hz c hc

theorem okS_all (s c : Nat) (hs : s < 5) (hc : c < 256) : okS s c = true := by
  have h := allS_true
  simp only [allS, List.all_eq_true, List.mem_range] at h
  exact h s hs c hc

theorem isHops_eq : ∀ (l : List Ev) (n : Nat), isHops l n = true → l = List.replicate n Ev.hop
  | [], 0, _ => rfl
  | [], n + 1, h => by simp [isHops] at h
  | .hop :: l, 0, h => by simp [isHops] at h
  | .hop :: l, n + 1, h => by
      simp only [isHops] at h
      simp [List.replicate_succ, isHops_eq l n h]
  | .put b :: l, n, h => by cases n <;> simp [isHops] at h

theorem isNorm_eq (c : Ctl) (h : isNorm c = true) : c = .norm := by cases c <;> simp [isNorm] at h ⊢

/-! ### layout of the automaton's state in the locals -/

def enc (s : DSt) (h : HSt) : Env := [encS s, b2n h.inHeader, h.pos, b2n h.mx, b2n h.my, b2n h.mz]

theorem n2b_b2n (b : Bool) : n2b (b2n b) = b := by cases b <;> rfl
theorem b2n_lt (b : Bool) : b2n b < 2 := by cases b <;> decide
theorem encS_lt (s : DSt) : encS s < 5 := by cases s <;> decide
theorem decS_encS (s : DSt) : decS (encS s) = s := by cases s <;> rfl

/-- the hop counter only ever adds to `hops` -/
theorem hstep_hops (h : HSt) (c : Byte) :
    hstep h c = { hstep { h with hops := 0 } c with hops := h.hops + (hstep { h with hops := 0 } c).hops } := by
  obtain ⟨f, p, x, y, z, n⟩ := h
  simp only [hstep]
  cases f <;> simp
  by_cases h9 : p < 9 <;> simp [h9]
  all_goals (repeat' split) <;> simp_all <;> omega

/-- what one iteration must do, in terms of the hand-written automaton -/
def expect (s : DSt) (h : HSt) (c : Byte) : Env × List Ev × Cls :=
  let h' := hstep h c
  let hops := List.replicate (h'.hops - h.hops) Ev.hop
  match dstep s c with
  | (s', .data bs) => (enc s' h', hops ++ putEvs bs, .next)
  | (s', .done) => (enc s' h', hops, .ret)
  | (s', .stray) => (enc s' h', hops, .exit 0)


theorem hstep_pos_le (h : HSt) (c : Byte) (hp : h.pos ≤ 9) : (hstep h c).pos ≤ 9 := by
  obtain ⟨f, p, x, y, z, n⟩ := h
  simp only [hstep]
  cases f <;> simp
  · exact hp
  · by_cases h9 : p < 9 <;> simp [h9]
    all_goals (repeat' split) <;> simp_all <;> omega

/-- the header block of the extracted source, on the locals that hold `(s, h)` -/
theorem hdr_run (s : DSt) (h : HSt) (c : Byte) (hp : h.pos ≤ 9) :
    run hdr none (enc s h) c.toNat =
      ⟨enc s (hstep h c), List.replicate ((hstep h c).hops - h.hops) Ev.hop, .norm, none⟩ := by
  have hk := okH_all (b2n h.inHeader) h.pos (b2n h.mx) (b2n h.my) (b2n h.mz) c.toNat (b2n_lt _) (by omega)
    (b2n_lt _) (b2n_lt _) (b2n_lt _) c.toNat_lt
  have hset : enc s h = ([0, b2n h.inHeader, h.pos, b2n h.mx, b2n h.my, b2n h.mz] : Env).set 0 (encS s) := rfl
  rw [hset, run_set 0 (encS s) c.toNat hdr none _ hdr_vars]
  generalize hr : run hdr none [0, b2n h.inHeader, h.pos, b2n h.mx, b2n h.my, b2n h.mz] c.toNat = r at hk ⊢
  obtain ⟨env, evs, ctl, sk⟩ := r
  simp only [okH, hr, Bool.and_eq_true, beq_iff_eq, Option.isNone_iff_eq_none] at hk
  obtain ⟨⟨⟨he, hh⟩, hn⟩, hsk⟩ := hk
  have e1 := isHops_eq _ _ hh
  have e2 := isNorm_eq _ hn
  subst he e1 e2 hsk
  have h0 : ({ inHeader := n2b (b2n h.inHeader), pos := h.pos, mx := n2b (b2n h.mx), my := n2b (b2n h.my),
      mz := n2b (b2n h.mz), hops := 0 } : HSt) = { h with hops := 0 } := by simp [n2b_b2n]
  have hh := hstep_hops h c
  simp only [Res.setv, expH, h0, UInt8.ofNat_toNat, enc, List.set_cons_zero]
  rw [hh]
  simp

/-- the switch and the final `put(&ch)` do not look at the hop scanner's locals -/
theorem swtl_run (s : DSt) (f p x y z : Nat) (c : Byte) :
    run swtl none [encS s, f, p, x, y, z] c.toNat =
      ((((((run swtl none [encS s, 0, 0, 0, 0, 0] c.toNat).setv 1 f).setv 2 p).setv 3 x).setv 4 y).setv 5 z) := by
  have hset : ([encS s, f, p, x, y, z] : Env) =
      ((((([encS s, 0, 0, 0, 0, 0] : Env).set 1 f).set 2 p).set 3 x).set 4 y).set 5 z := rfl
  rw [hset, run_set 5 z _ swtl none _ (swtl_vars 5 (by decide)), run_set 4 y _ swtl none _ (swtl_vars 4 (by decide)),
    run_set 3 x _ swtl none _ (swtl_vars 3 (by decide)), run_set 2 p _ swtl none _ (swtl_vars 2 (by decide)),
    run_set 1 f _ swtl none _ (swtl_vars 1 (by decide))]

/-- ONE ITERATION of the extracted loop body = one step of the automaton -/
theorem iter_eq (s : DSt) (h : HSt) (c : Byte) (hp : h.pos ≤ 9) :
    (let r := iter body (enc s h) c.toNat; (r.env, r.evs, cls r.ctl)) = expect s h c := by
  have hk := okS_all (encS s) c.toNat (encS_lt s) c.toNat_lt
  simp only [iter, body, run, hdr_run s h c hp]
  simp only [enc]
  rw [swtl_run]
  generalize hr : run swtl none [encS s, 0, 0, 0, 0, 0] c.toNat = r at hk ⊢
  obtain ⟨env, evs, ctl, sk⟩ := r
  simp only [okS, hr, Bool.and_eq_true, beq_iff_eq, decide_eq_true_eq, Option.isNone_iff_eq_none] at hk
  obtain ⟨⟨⟨he, hv⟩, hcl⟩, hsk⟩ := hk
  subst he hv hsk
  simp only [expS, decS_encS, UInt8.ofNat_toNat] at hcl ⊢
  simp only [expect, Res.setv, enc]
  rcases hd : dstep s c with ⟨s', o⟩
  cases o <;> simp [hd] at hcl ⊢ <;> simp [hcl, List.set]

end Nq.SmtpdSrc
