import Nq.Lemmas.SmtpdSrc.Defs
namespace Nq.SmtpdSrc
set_option maxRecDepth 1000000 in
/-- exhaustive kernel evaluation: pos = 3, every flag combination, every byte -/
theorem sliceH_3 : sliceH 3 = true := by decide +kernel
end Nq.SmtpdSrc
