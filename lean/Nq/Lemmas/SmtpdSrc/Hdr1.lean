import Nq.Lemmas.SmtpdSrc.Defs
namespace Nq.SmtpdSrc
/-- exhaustive kernel evaluation: pos = 1, every flag combination, every byte -/
set_option maxRecDepth 1000000 in
theorem sliceH_1 : sliceH 1 = true := by decide +kernel
end Nq.SmtpdSrc
