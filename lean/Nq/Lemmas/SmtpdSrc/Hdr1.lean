import Nq.Lemmas.SmtpdSrc.Defs
namespace Nq.SmtpdSrc
set_option maxRecDepth 1000000 in
/-- exhaustive kernel evaluation: pos = 1, every flag combination, every byte -/
theorem sliceH_1 : sliceH 1 = true := by decide +kernel
end Nq.SmtpdSrc
