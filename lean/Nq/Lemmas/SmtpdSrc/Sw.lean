import Nq.Lemmas.SmtpdSrc.Defs
namespace Nq.SmtpdSrc
/-- exhaustive kernel evaluation: every value of `state`, every byte -/
set_option maxRecDepth 1000000 in
theorem allS_true : allS = true := by decide +kernel
end Nq.SmtpdSrc
