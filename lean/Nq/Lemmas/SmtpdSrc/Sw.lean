import Nq.Lemmas.SmtpdSrc.Defs
namespace Nq.SmtpdSrc
set_option maxRecDepth 1000000 in
/-- exhaustive kernel evaluation: every value of `state`, every byte -/
theorem allS_true : allS = true := by decide +kernel
end Nq.SmtpdSrc
