import Nq.Lemmas.SmtpdSrc.Defs
namespace Nq.SmtpdSrc
/-- exhaustive kernel evaluation: pos = 8, every flag combination, every byte -/
set_option maxRecDepth 1000000 in
theorem sliceH_8 : sliceH 8 = true := by decide +kernel
end Nq.SmtpdSrc
