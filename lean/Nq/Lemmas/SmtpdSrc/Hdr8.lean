import Nq.Lemmas.SmtpdSrc.Defs
namespace Nq.SmtpdSrc
set_option maxRecDepth 1000000 in
/-- exhaustive kernel evaluation: pos = 8, every flag combination, every byte -/
theorem sliceH_8 : sliceH 8 = true := by decide +kernel
end Nq.SmtpdSrc
