import Nq.Lemmas.SmtpdSrc.Defs
namespace Nq.SmtpdSrc
set_option maxRecDepth 1000000 in
/-- exhaustive kernel evaluation: pos = 2, every flag combination, every byte -/
theorem sliceH_2 : sliceH 2 = true := by decide +kernel
end Nq.SmtpdSrc
