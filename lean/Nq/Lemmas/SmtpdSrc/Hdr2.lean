import Nq.Lemmas.SmtpdSrc.Defs
namespace Nq.SmtpdSrc
/-- exhaustive kernel evaluation: pos = 2, every flag combination, every byte -/
set_option maxRecDepth 1000000 in
theorem sliceH_2 : sliceH 2 = true := by decide +kernel
end Nq.SmtpdSrc
