/-
  Lemmas for C13 (extension round 4): the environment handed to commands (`Nq.LocalEnv`) is the documented one
  (`Nq.LocalEnvSpec`).
-/
import Nq.LocalEnv
import Nq.Spec.LocalEnvSpec
import Nq.Lemmas.Local
import Nq.Lemmas.Datetime
import Nq.Lemmas.DatetimeC12
import Nq.Lemmas.LocalDeliverMbox

set_option linter.unusedSimpArgs false

namespace Nq.Lemmas.LocalEnv
open Nq Nq.Local Nq.LocalEnv

/-! ### env.c -/

theorem envGet_append_single (e : Env) (k v k' : Bytes) :
    envGet (e ++ [(k, v)]) k' = match envGet e k' with
      | some x => some x
      | none => if k = k' then some v else none := by
  induction e with
  | nil => simp [envGet]
  | cons p r ih =>
    simp only [List.cons_append, envGet]
    split
    · rfl
    · exact ih

theorem envGet_filter_ne (e : Env) (k k' : Bytes) :
    envGet (e.filter (fun p => p.1 != k)) k' = if k' = k then none else envGet e k' := by
  induction e with
  | nil => simp [envGet]
  | cons p r ih =>
    by_cases hp : p.1 = k
    · have : (p :: r).filter (fun p => p.1 != k) = r.filter (fun p => p.1 != k) := by
        simp [List.filter, hp]
      rw [this, ih]
      by_cases hk : k' = k
      · simp [hk]
      · have : p.1 ≠ k' := by rw [hp]; exact fun h => hk h.symm
        simp [hk, envGet, this]
    · have : (p :: r).filter (fun p => p.1 != k) = p :: r.filter (fun p => p.1 != k) := by
        have hb : (p.1 != k) = true := by simpa using hp
        simp [List.filter, hb]
      rw [this]
      simp only [envGet]
      by_cases hk : p.1 = k'
      · have : k' ≠ k := by rw [← hk]; exact hp
        simp [hk, this]
      · simp only [hk, if_false]; exact ih

/-- env_put2 then env_get -/
theorem envGet_put (e : Env) (k v k' : Bytes) :
    envGet (envPut e k v) k' = if k' = k then some v else envGet e k' := by
  unfold envPut
  rw [envGet_append_single, envGet_filter_ne]
  by_cases hk : k' = k
  · subst hk; simp
  · have : k ≠ k' := fun h => hk h.symm
    simp only [hk, if_false, this]
    cases envGet e k' <;> rfl

/-- the value of the last put of `k` -/
def lastVal : List (Bytes × Bytes) → Bytes → Option Bytes
  | [], _ => none
  | p :: r, k => match lastVal r k with
    | some v => some v
    | none => if k = p.1 then some p.2 else none

theorem envGet_applyPuts (ps : List (Bytes × Bytes)) : ∀ (e : Env) (k : Bytes),
    envGet (applyPuts e ps) k = match lastVal ps k with
      | some v => some v
      | none => envGet e k := by
  induction ps with
  | nil => intro e k; rfl
  | cons p r ih =>
    intro e k
    have : applyPuts e (p :: r) = applyPuts (envPut e p.1 p.2) r := rfl
    rw [this, ih, envGet_put]
    simp only [lastVal]
    cases lastVal r k with
    | some v => rfl
    | none => by_cases hk : k = p.1 <;> simp [hk]

/-! ### EXTn -/

theorem following_nil (c : Byte) (n : Nat) : LocalEnvSpec.following c n [] = [] := by
  cases n <;> rfl

theorem following_afterDash (s : Bytes) : ∀ n, LocalEnvSpec.following 45 n (afterDash s) = LocalEnvSpec.following 45 (n + 1) s := by
  induction s with
  | nil => intro n; simp [afterDash, following_nil]
  | cons c r ih =>
    intro n
    by_cases hc : c = DASH
    · simp [afterDash, LocalEnvSpec.following, hc]
    · have h45 : ¬ c = 45 := hc
      simp only [afterDash, hc, if_false, LocalEnvSpec.following]
      exact ih n

theorem ext2_eq (ext : Bytes) : afterDash ext = LocalEnvSpec.following 45 1 ext := by
  have := following_afterDash ext 0
  simpa [LocalEnvSpec.following] using this

theorem ext3_eq (ext : Bytes) : afterDash (afterDash ext) = LocalEnvSpec.following 45 2 ext := by
  rw [← following_afterDash ext 1, ← ext2_eq]

theorem ext4_eq (ext : Bytes) : afterDash (afterDash (afterDash ext)) = LocalEnvSpec.following 45 3 ext := by
  rw [← following_afterDash ext 2, ← following_afterDash (afterDash ext) 1, ← ext2_eq]

/-- the documentation's wording: `following c (n+1) s` is what follows the dash that has exactly `n` dashes before it -/
theorem following_split (c : Byte) (r : Bytes) : ∀ (pre : Bytes) (n : Nat), pre.count c = n →
    LocalEnvSpec.following c (n + 1) (pre ++ c :: r) = r := by
  intro pre
  induction pre with
  | nil => intro n hn; simp at hn; subst hn; simp [LocalEnvSpec.following]
  | cons x p ih =>
    intro n hn
    by_cases hx : x = c
    · subst hx
      simp only [List.count_cons_self] at hn
      cases n with
      | zero => omega
      | succ m =>
        simp only [List.cons_append, LocalEnvSpec.following, if_true]
        exact ih m (by omega)
    · have hx' : (x == c) = false := by simpa using hx
      simp only [List.count_cons, hx', Bool.false_eq_true, if_false, Nat.add_zero] at hn
      simp only [List.cons_append, LocalEnvSpec.following, hx, if_false]
      exact ih n hn

theorem following_few (c : Byte) : ∀ (s : Bytes) (n : Nat), s.count c ≤ n → LocalEnvSpec.following c (n + 1) s = [] := by
  intro s
  induction s with
  | nil => intro n _; rfl
  | cons x p ih =>
    intro n hn
    by_cases hx : x = c
    · subst hx
      simp only [List.count_cons_self] at hn
      cases n with
      | zero => omega
      | succ m =>
        simp only [LocalEnvSpec.following, if_true]
        exact ih m (by omega)
    · have hx' : (x == c) = false := by simpa using hx
      simp only [List.count_cons, hx', Bool.false_eq_true, if_false, Nat.add_zero] at hn
      simp only [LocalEnvSpec.following, hx, if_false]
      exact ih n hn

/-! ### HOSTn -/

theorem rindex_none (c : Byte) : ∀ h : Bytes, c ∉ h → rindex c h = none := by
  intro h
  induction h with
  | nil => intro _; rfl
  | cons x r ih =>
    intro hm
    have h1 : c ∉ r := fun h => hm (List.mem_cons_of_mem _ h)
    have h2 : x ≠ c := fun h => hm (by rw [h]; exact List.mem_cons_self)
    simp [rindex, ih h1, h2]

theorem rindex_last (c : Byte) (r : Bytes) (hr : c ∉ r) : ∀ l : Bytes, rindex c (l ++ c :: r) = some l.length := by
  intro l
  induction l with
  | nil => simp [rindex, rindex_none c r hr]
  | cons x p ih => simp [rindex, ih]

theorem exists_last (c : Byte) : ∀ h : Bytes, c ∈ h → ∃ l r, h = l ++ c :: r ∧ c ∉ r := by
  intro h
  induction h with
  | nil => intro hm; cases hm
  | cons x p ih =>
    intro hm
    by_cases hp : c ∈ p
    · obtain ⟨l, r, he, hr⟩ := ih hp
      exact ⟨x :: l, r, by rw [he]; rfl, hr⟩
    · have : x = c := by
        rcases List.mem_cons.1 hm with h | h
        · exact h.symm
        · exact absurd h hp
      exact ⟨[], p, by rw [this]; rfl, hp⟩

/-- the documentation's wording: what precedes the last dot -/
theorem beforeLastDot_split (l r : Bytes) (hr : DOT ∉ r) : beforeLastDot (l ++ DOT :: r) = l := by
  unfold beforeLastDot
  rw [rindex_last DOT r hr l]
  simp

theorem beforeLastDot_nodot (h : Bytes) (hh : DOT ∉ h) : beforeLastDot h = h := by
  unfold beforeLastDot
  rw [rindex_none DOT h hh]

theorem dropWhile_all (p : Byte → Bool) : ∀ (a b : Bytes), (∀ x ∈ a, p x = true) → (a ++ b).dropWhile p = b.dropWhile p := by
  intro a
  induction a with
  | nil => intro b _; rfl
  | cons x r ih =>
    intro b h
    simp only [List.cons_append, List.dropWhile, h x List.mem_cons_self]
    exact ih b (fun y hy => h y (List.mem_cons_of_mem _ hy))

theorem beforeLastDot_eq_spec (h : Bytes) : beforeLastDot h = LocalEnvSpec.precedingLastDot h := by
  unfold LocalEnvSpec.precedingLastDot
  by_cases hd : DOT ∈ h
  · obtain ⟨l, r, he, hr⟩ := exists_last DOT h hd
    have hc : h.contains 46 = true := by simpa using hd
    rw [hc, if_pos rfl, he, beforeLastDot_split l r hr]
    have hrev : (l ++ DOT :: r).reverse = r.reverse ++ (DOT :: l.reverse) := by simp
    rw [hrev, dropWhile_all]
    · simp [List.dropWhile]
    · intro x hx
      have : x ∈ r := List.mem_reverse.1 hx
      have hne : x ≠ 46 := fun h => hr (by rw [h] at this; exact this)
      simpa using hne
  · have hc : h.contains 46 = false := by simpa using hd
    rw [hc, beforeLastDot_nodot h hd]
    simp

theorem host2_eq (h : Bytes) : beforeLastDot h = LocalEnvSpec.preceding 1 h := by
  simp [LocalEnvSpec.preceding, beforeLastDot_eq_spec]

theorem host3_eq (h : Bytes) : beforeLastDot (beforeLastDot h) = LocalEnvSpec.preceding 2 h := by
  simp [LocalEnvSpec.preceding, beforeLastDot_eq_spec]

theorem host4_eq (h : Bytes) : beforeLastDot (beforeLastDot (beforeLastDot h)) = LocalEnvSpec.preceding 3 h := by
  simp [LocalEnvSpec.preceding, beforeLastDot_eq_spec]

theorem pre11 (h : Bytes) : LocalEnvSpec.preceding 1 (LocalEnvSpec.preceding 1 h) = LocalEnvSpec.preceding 2 h := by
  simp [LocalEnvSpec.preceding]
theorem pre111 (h : Bytes) : LocalEnvSpec.preceding 1 (LocalEnvSpec.preceding 2 h) = LocalEnvSpec.preceding 3 h := by
  simp [LocalEnvSpec.preceding]
theorem fol11 (s : Bytes) : LocalEnvSpec.following 45 1 (LocalEnvSpec.following 45 1 s) = LocalEnvSpec.following 45 2 s := by
  rw [← ext2_eq, ← ext2_eq, ext3_eq]
theorem fol111 (s : Bytes) : LocalEnvSpec.following 45 1 (LocalEnvSpec.following 45 2 s) = LocalEnvSpec.following 45 3 s := by
  rw [← ext3_eq, ← ext2_eq, ext4_eq]

/-! ### UFLINE -/

open Nq.Datetime in
theorem ufline_eq_spec (sender : Bytes) (t : Nat) :
    LocalEnv.ufline sender t = LocalEnvSpec.uflineOf sender t (tai t).year (tai t).mon (tai t).mday := by
  obtain ⟨_, _, ⟨h0, h1, m0, m1, s0, s1⟩, hsum, hw⟩ := Nq.Lemmas.Datetime.tai_civil (t : Int)
  have hwd : (tai t).wday.toNat = (t / 86400 + 4) % 7 := by rw [hw]; omega
  have hh : (tai t).hour.toNat = t % 86400 / 3600 := by omega
  have hmi : (tai t).min.toNat = t % 3600 / 60 := by omega
  have hs : (tai t).sec.toNat = t % 60 := by omega
  have hp : uflinePrefix sender = [70, 114, 111, 109, 32] ++ LocalEnvSpec.fromWord sender ++ [32] := by
    unfold uflinePrefix LocalEnvSpec.fromWord; split <;> rfl
  unfold LocalEnv.ufline Nq.LocalDeliver.ufline Nq.LocalDeliver.myctime LocalEnvSpec.uflineOf LocalEnvSpec.renderCtime
  rw [Nq.Lemmas.DatetimeC12.localDeliver_datetimeTai_eq, hp]
  simp only [hwd, hh, hmi, hs]
  rfl

open Nq.Datetime in
theorem ufline_isUfline (sender : Bytes) (t : Nat) : LocalEnvSpec.IsUfline sender t (LocalEnv.ufline sender t) := by
  obtain ⟨h1, h2, _⟩ := Nq.Lemmas.Datetime.tai_civil (t : Int)
  exact ⟨_, _, _, h1, h2, ufline_eq_spec sender t⟩

theorem uflineOracle_sound (sender : Bytes) (t : Nat) (l : Bytes) (h : LocalEnvSpec.uflineOracle sender t l = true) :
    LocalEnvSpec.IsUfline sender t l := by
  unfold LocalEnvSpec.uflineOracle at h
  split at h
  · rename_i y m d hs
    unfold LocalEnvSpec.civilSearch at hs
    have hp := List.find?_some hs
    simp only [Bool.and_eq_true, decide_eq_true_eq, beq_iff_eq] at hp
    exact ⟨y, m, d, hp.1, hp.2, by simpa using h⟩
  · cases h

theorem ufline_oneLine (sender : Bytes) (t : Nat) : LocalSpec.oneLine (LocalEnv.ufline sender t) = true := by
  obtain ⟨pre, hpre, hno⟩ := Nq.Lemmas.LD.Rt.ufline_single sender t
  unfold LocalEnv.ufline
  rw [hpre]
  have : ¬ (10 : UInt8) ∈ pre := hno
  simp [LocalSpec.oneLine, this]

/-! ### the whole environment -/

def givenOf (x : EArgs) (date : Int × Int × Int) (dflt : Option Bytes) (ueo : Bytes) : LocalEnvSpec.Given :=
  { user := x.user, home := x.home, loc := x.loc, ext := x.ext, host := x.host, sender := x.sender, now := x.now,
    date := date, dflt := dflt, newsender := ueo }

theorem rpline_eq_spec (sender : Bytes) :
    rpline sender = LocalEnvSpec.lfToUscore ([82, 101, 116, 117, 114, 110, 45, 80, 97, 116, 104, 58, 32, 60] ++ quote2 sender) ++ [62, 10] := rfl

theorem lastVal_none (ps : List (Bytes × Bytes)) (k : Bytes) (h : ∀ p ∈ ps, p.1 ≠ k) : lastVal ps k = none := by
  induction ps with
  | nil => rfl
  | cons p r ih =>
    have h1 := ih (fun q hq => h q (List.mem_cons_of_mem _ hq))
    have h2 : ¬ k = p.1 := fun e => h p List.mem_cons_self e.symm
    simp [lastVal, h1, h2]

open Nq.Datetime in
theorem documented_ok (e0 : Env) (x : EArgs) (dflt : Option Bytes) (ueo : Bytes) (date : Int × Int × Int)
    (hd : (givenOf x date dflt ueo).dateOk) :
    ∀ p ∈ LocalEnvSpec.documented (givenOf x date dflt ueo),
      envGet (envFinal e0 x dflt ueo) p.1 = (match p.2 with
        | some v => some v
        | none => envGet e0 p.1) := by
  obtain ⟨hv, hdd⟩ := hd
  obtain ⟨u1, u2, u3⟩ := Nq.Lemmas.Datetime.tai_unique (x.now : Int) date.1 date.2.1 date.2.2 hv hdd
  have huf : LocalEnv.ufline x.sender x.now = LocalEnvSpec.uflineOf x.sender x.now date.1 date.2.1 date.2.2 := by
    rw [ufline_eq_spec, u1, u2, u3]
  intro p hp
  rw [envFinal, envGet_applyPuts]
  simp only [LocalEnvSpec.documented, givenOf, List.mem_cons, List.not_mem_nil, or_false] at hp
  rcases hp with rfl | rfl | rfl | rfl | rfl | rfl | rfl | rfl | rfl | rfl | rfl | rfl | rfl | rfl | rfl | rfl | rfl | rfl <;>
    cases dflt <;>
    simp [puts, putsFixed, putsLate, lastVal, envrecip, ext2_eq, ext3_eq, ext4_eq, host2_eq, host3_eq, host4_eq,
      Nq.Lemmas.Local.dtline_eq_spec, rpline_eq_spec, huf, pre11, pre111, fol11, fol111]

theorem others_inherited (e0 : Env) (x : EArgs) (dflt : Option Bytes) (ueo : Bytes) (date : Int × Int × Int) (k : Bytes)
    (hk : k ∉ (LocalEnvSpec.documented (givenOf x date dflt ueo)).map (fun p => p.1)) :
    envGet (envFinal e0 x dflt ueo) k = envGet e0 k := by
  rw [envFinal, envGet_applyPuts, lastVal_none]
  intro p hp
  simp only [LocalEnvSpec.documented, List.map, List.mem_cons, List.not_mem_nil, or_false, not_or] at hk
  cases dflt <;>
    simp only [puts, putsFixed, putsLate, List.cons_append, List.nil_append, List.mem_cons, List.not_mem_nil, or_false] at hp <;>
    rcases hp with rfl | rfl | rfl | rfl | rfl | rfl | rfl | rfl | rfl | rfl | rfl | rfl | rfl | rfl | rfl | rfl | rfl | hp <;>
    first
      | (intro e; simp only [← e] at hk; simp at hk)
      | (rcases hp with rfl | rfl <;> intro e <;> simp only [← e] at hk <;> simp at hk)
      | (subst hp; intro e; simp only [← e] at hk; simp at hk)

end Nq.Lemmas.LocalEnv
