/- Lemmas for C09 (session 4): qmail-remote blast() over the `smtpto` buffer (`Nq.RemoteBuf`).
   What the socket has taken plus the bytes of the failing write, against the pure encoder; on which
   side of `flagcritical = 1` a failing write falls. -/
import Nq.RemoteBuf
import Nq.Lemmas.SmtpIO

namespace Nq.Lemmas.RemoteBuf
open Nq Nq.Substdio Nq.SmtpOut Nq.SmtpIO Nq.RemoteSmtp Nq.RemoteBuf Nq.Lemmas.C20 Nq.Lemmas.SmtpIO

/-! ## a failing `allwrite` / `substdio_flush` / `substdio_put` -/

theorem allwrite_fail (ws : List Nat) (b : Bytes) (h : (allwrite ws b).2.2 = false) :
    (allwrite ws b).2.1.length < b.length := by
  induction ws generalizing b with
  | nil => cases b <;> simp [allwrite] at h
  | cons w ws ih =>
    cases b with
    | nil => simp [allwrite] at h
    | cons c b =>
      cases w with
      | zero => simp [allwrite]
      | succ k =>
        simp only [allwrite] at h ⊢
        by_cases hl : (c :: b).length ≤ k + 1
        · rw [if_pos hl] at h; simp at h
        · rw [if_neg hl] at h ⊢
          have := ih _ h
          simp only [List.length_append, List.length_take, List.length_drop] at this ⊢
          omega

theorem flushTry_eq (s : OSt) : (allwrite s.ws s.buf).2.1 ++ flushTry s = s.buf := by
  obtain ⟨⟨t, ht⟩, _⟩ := allwrite_spec s.ws s.buf
  have : flushTry s = t := by
    unfold flushTry
    have := congrArg (List.drop (allwrite s.ws s.buf).2.1.length) ht
    simpa using this
  rw [this]; exact ht.symm

theorem flush_fail (s : OSt) (h : (flush s).2 = false) :
    (flush s).1.buf = [] ∧ flushTry s ≠ [] ∧ (flush s).1.out ++ flushTry s = s.out ++ s.buf ∧ 0 ∈ s.ws := by
  have h0 : 0 ∈ s.ws := by
    apply Classical.byContradiction
    intro hn
    have := (flush_nofail s hn).1
    rw [h] at this; exact absurd this (by simp)
  unfold flush at h ⊢
  by_cases hp : s.p = 0
  · rw [if_pos hp] at h; simp at h
  · rw [if_neg hp] at h ⊢
    simp only at h ⊢
    have hlt := allwrite_fail _ _ h
    have he := flushTry_eq s
    refine ⟨trivial, ?_, ?_, h0⟩
    · intro e
      rw [e, List.append_nil] at he
      rw [he] at hlt; omega
    · rw [List.append_assoc, he]

theorem put_fail (s : OSt) (d : Bytes) (hd : d.length ≤ s.n) (h : (put s d).2 = false) :
    (put s d).1.buf = [] ∧ flushTry s ≠ [] ∧ (put s d).1.out ++ flushTry s = s.out ++ s.buf ∧ 0 ∈ s.ws ∧
    d ≠ [] := by
  unfold put at h ⊢
  by_cases hl : d.length > usub32 s.n s.p
  · rw [if_pos hl] at h ⊢
    by_cases hr : (flush s).2 = true
    · rw [if_pos hr] at h
      exfalso
      have hn := flush_n s
      have : (putLoop (d.length + 1) (if s.n < OUTSIZE then OUTSIZE else s.n) (flush s).1 d).2.2 = true := by
        simp only [putLoop]
        rw [if_neg (by rw [hn]; omega)]
      rw [if_pos this] at h; simp at h
    · rw [if_neg hr]
      have hf := flush_fail s (by simpa using hr)
      exact ⟨hf.1, hf.2.1, hf.2.2.1, hf.2.2.2, by intro e; subst e; simp at hl⟩
  · rw [if_neg hl] at h; simp at h

/-! ## `putAllT` = `putAll` + the bytes of the failing write -/

theorem putAllT_spec (o : OSt) (ds : List Bytes) (h : OWF o) (hc : cpIn o) (hd : ∀ d ∈ ds, d.length ≤ o.n) :
    (putAllT o ds).1 = (putAll o ds).1 ∧
    ((putAllT o ds).2 = none → (putAll o ds).2 = true) ∧
    (∀ t, (putAllT o ds).2 = some t → (putAll o ds).2 = false ∧ (putAllT o ds).1.buf = [] ∧ t ≠ [] ∧ 0 ∈ o.ws ∧
        ∃ rest, rest ≠ [] ∧ (putAllT o ds).1.out ++ t ++ rest = o.out ++ o.buf ++ ds.flatten) := by
  induction ds generalizing o with
  | nil => simp [putAllT, putAll]
  | cons d ds ih =>
    simp only [putAllT, putAll]
    obtain ⟨p1, p2, p3, p4⟩ := put_spec o d h hc
    by_cases hr : (put o d).2 = true
    · rw [if_pos hr, if_pos hr]
      obtain ⟨i1, i2, i3⟩ := ih (put o d).1 p1 p2 (by intro x hx; rw [p3]; exact hd x (by simp [hx]))
      refine ⟨i1, i2, ?_⟩
      intro t ht
      obtain ⟨j1, j2, j3, j4, rest, j5, j6⟩ := i3 t ht
      refine ⟨j1, j2, j3, ?_, rest, j5, ?_⟩
      · apply Classical.byContradiction
        intro hn
        exact (put_nofail o d h hn).2 j4
      · rw [j6, p4 hr]; simp
    · rw [if_neg hr, if_neg hr]
      have hr' : (put o d).2 = false := by simpa using hr
      obtain ⟨f1, f2, f3, f4, f5⟩ := put_fail o d (hd d (by simp)) hr'
      refine ⟨rfl, by intro hc; simp at hc, ?_⟩
      intro t ht
      simp only [Option.some.injEq] at ht
      subst ht
      refine ⟨rfl, f1, f2, f4, d ++ ds.flatten, by simp [f5], ?_⟩
      rw [f3]; simp

/-! ## the encoder's output before the terminating dot line -/

/-- everything `blast()` puts before the statement `flagcritical = 1` when the message is read to its end -/
def rbody (st : RSt) (m : Bytes) : Bytes :=
  rpart st m ++ (match rstate st m with | .cr => [CR, LF] | _ => [])

theorem rbody_cons (st : RSt) (c : Byte) (m : Bytes) :
    rbody st (c :: m) = (rstep st c).2 ++ rbody (rstep st c).1 m := by
  simp [rbody, rpart, rstate]

theorem rrun_cons (st : RSt) (c : Byte) (m : Bytes) :
    rrun st (c :: m) = (rrun (rstep st c).1 m).map (fun e => (rstep st c).2 ++ e) := by
  simp only [rrun]
  cases rrun (rstep st c).1 m <;> rfl

theorem rrun_rbody (st : RSt) (m e : Bytes) (h : rrun st m = some e) : e = rbody st m ++ [DOT, CR, LF] := by
  induction m generalizing st e with
  | nil =>
    cases st <;> simp [rrun, rfinish, rbody, rpart, rstate] at h ⊢ <;> exact h.symm
  | cons c m ih =>
    rw [rrun_cons] at h
    cases hr : rrun (rstep st c).1 m with
    | none => rw [hr] at h; simp at h
    | some e' =>
      rw [hr] at h
      simp only [Option.map_some, Option.some.injEq] at h
      rw [← h, ih _ _ hr, rbody_cons]; simp

/-! ## `blast()` over the buffer against the pure encoder -/

/-- `pre` = on the wire or in the buffer before; `ws` = the write script.
    * `sent`: the message is complete and the wire has all of it;
    * a failing write *before* `flagcritical = 1`: wire ++ tried is a **strict** prefix of the body part;
    * a failing write *after* it: no read error, the message is complete, and wire ++ tried is the whole body
      part (the flush forced by the put of the terminator) or the whole encoding (the final flush). -/
def BAgree (pre : Bytes) (err : Bool) (st : RSt) (m : Bytes) (ws : List Nat) : BRes → Prop
  | .sent o' => err = false ∧ rrun st m = some (rbody st m ++ [DOT, CR, LF]) ∧
      o'.out = pre ++ rbody st m ++ [DOT, CR, LF] ∧ o'.buf = []
  | .partialLine o' => err = false ∧ rrun st m = none ∧ o'.out ++ o'.buf = pre ++ rpart st m
  | .tempRead o' => err = true ∧ o'.out ++ o'.buf = pre ++ rpart st m
  | .dropped o' false t => 0 ∈ ws ∧ o'.buf = [] ∧ t ≠ [] ∧
      ∃ rest, rest ≠ [] ∧ o'.out ++ t ++ rest = pre ++ rbody st m
  | .dropped o' true t => 0 ∈ ws ∧ o'.buf = [] ∧ t ≠ [] ∧ err = false ∧
      rrun st m = some (rbody st m ++ [DOT, CR, LF]) ∧
      (o'.out ++ t = pre ++ rbody st m ∨ o'.out ++ t = pre ++ rbody st m ++ [DOT, CR, LF])

theorem BAgree_step (pre : Bytes) (err : Bool) (st : RSt) (c : Byte) (m : Bytes) (ws ws' : List Nat) (R : BRes)
    (hw : 0 ∈ ws' → 0 ∈ ws)
    (h : BAgree (pre ++ (rstep st c).2) err (rstep st c).1 m ws' R) : BAgree pre err st (c :: m) ws R := by
  cases R with
  | sent o' =>
    obtain ⟨h1, h2, h3, h4⟩ := h
    exact ⟨h1, by rw [rrun_cons, h2, rbody_cons]; simp, by rw [h3, rbody_cons]; simp, h4⟩
  | partialLine o' =>
    obtain ⟨h1, h2, h3⟩ := h
    exact ⟨h1, by rw [rrun_cons, h2]; rfl, by rw [h3]; simp [rpart]⟩
  | tempRead o' =>
    obtain ⟨h1, h3⟩ := h
    exact ⟨h1, by rw [h3]; simp [rpart]⟩
  | dropped o' crit t =>
    cases crit with
    | false =>
      obtain ⟨h1, h2, h3, rest, h4, h5⟩ := h
      exact ⟨hw h1, h2, h3, rest, h4, by rw [h5, rbody_cons]; simp⟩
    | true =>
      obtain ⟨h1, h2, h3, h4, h5, h6⟩ := h
      refine ⟨hw h1, h2, h3, h4, by rw [rrun_cons, h5, rbody_cons]; simp, ?_⟩
      rcases h6 with h6 | h6
      · left; rw [h6, rbody_cons]; simp
      · right; rw [h6, rbody_cons]; simp

/-- `flagcritical = 1; put(".\r\n",3); flush` -/
theorem bfinish_spec (o : OSt) (h : OWF o) (hc : cpIn o) (hn : 3 ≤ o.n) :
    match bfinish o with
    | .sent o' => o'.out = o.out ++ o.buf ++ [DOT, CR, LF] ∧ o'.buf = []
    | .dropped o' crit t => crit = true ∧ 0 ∈ o.ws ∧ o'.buf = [] ∧ t ≠ [] ∧
        (o'.out ++ t = o.out ++ o.buf ∨ o'.out ++ t = o.out ++ o.buf ++ [DOT, CR, LF])
    | _ => False := by
  unfold bfinish
  simp only [putAllT]
  obtain ⟨p1, p2, p3, p4⟩ := put_spec o [DOT, CR, LF] h hc
  by_cases hr : (put o [DOT, CR, LF]).2 = true
  · rw [if_pos hr]
    simp only
    have p4' := p4 hr
    by_cases hfl : (flush (put o [DOT, CR, LF]).1).2 = true
    · rw [if_pos hfl]
      simp only
      obtain ⟨f1, _, _, f4⟩ := flush_spec _ p1
      have fp := flush_p (put o [DOT, CR, LF]).1
      have fb : (flush (put o [DOT, CR, LF]).1).1.buf = [] := by
        have := f1.2.1; rw [fp] at this; exact List.eq_nil_of_length_eq_zero this
      refine ⟨?_, fb⟩
      have := f4 hfl
      rw [fb, List.append_nil, p4'] at this
      exact this
    · rw [if_neg hfl]
      simp only
      obtain ⟨g1, g2, g3, g4⟩ := flush_fail _ (by simpa using hfl)
      refine ⟨trivial, ?_, g1, g2, Or.inr (by rw [g3, p4'])⟩
      apply Classical.byContradiction
      intro hn0
      exact (put_nofail o _ h hn0).2 g4
  · rw [if_neg hr]
    simp only
    obtain ⟨f1, f2, f3, f4, _⟩ := put_fail o [DOT, CR, LF] (by simpa using hn) (by simpa using hr)
    exact ⟨trivial, f4, f1, f2, Or.inl f3⟩

theorem bloop_spec (err : Bool) (m : Bytes) : ∀ (o : OSt) (st : RSt), OWF o → cpIn o → 3 ≤ o.n →
    BAgree (o.out ++ o.buf) err st m o.ws (bloop err o st m) := by
  induction m with
  | nil =>
    intro o st h hc hn
    simp only [bloop]
    cases err with
    | true => simp [BAgree, rpart]
    | false =>
      simp only [Bool.false_eq_true, if_false]
      have fin : ∀ (o1 : OSt) (body : Bytes) (st' : RSt), OWF o1 → cpIn o1 → 3 ≤ o1.n → (0 ∈ o1.ws → 0 ∈ o.ws) →
          o1.out ++ o1.buf = o.out ++ o.buf ++ body → rbody st' [] = body →
          rrun st' [] = some (body ++ [DOT, CR, LF]) →
          BAgree (o.out ++ o.buf) false st' [] o.ws (bfinish o1) := by
        intro o1 body st' h1 hc1 hn1 hw he hb hrr
        have := bfinish_spec o1 h1 hc1 hn1
        generalize bfinish o1 = R at this
        cases R with
        | sent o' =>
          obtain ⟨a1, a2⟩ := this
          exact ⟨rfl, by rw [hb]; exact hrr, by rw [a1, he, hb], a2⟩
        | partialLine o' => exact this.elim
        | tempRead o' => exact this.elim
        | dropped o' crit t =>
          obtain ⟨a1, a2, a3, a4, a5⟩ := this
          subst a1
          refine ⟨hw a2, a3, a4, rfl, by rw [hb]; exact hrr, ?_⟩
          rcases a5 with a5 | a5
          · left; rw [a5, he, hb]
          · right; rw [a5, he, hb]
      cases st with
      | top =>
        exact fin o [] .top h hc hn id (by simp) (by simp [rbody, rpart, rstate]) (by simp [rrun, rfinish])
      | mid => simp [BAgree, rrun, rfinish, rpart]
      | cr =>
        simp only
        obtain ⟨q1, q2, q3⟩ := putAllT_spec o [[CR, LF]] h hc (by intro d hd; simp at hd; subst hd; simp; omega)
        obtain ⟨p1, p2, p3, p4, p5⟩ := putAll_spec o [[CR, LF]] h hc
        generalize hpa : putAllT o [[CR, LF]] = r at q1 q2 q3
        obtain ⟨o1, ot⟩ := r
        simp only at q1 q2 q3
        cases ot with
        | none =>
          simp only
          have hok := q2 rfl
          have p4' := p4 hok
          simp only [List.flatten_cons, List.flatten_nil, List.append_nil] at p4'
          rw [q1]
          refine fin _ [CR, LF] .cr p1 p2 (by rw [p3]; exact hn) ?_ p4' (by simp [rbody, rpart, rstate])
            (by simp [rrun, rfinish])
          intro h0
          apply Classical.byContradiction
          intro hn0
          exact (p5 hn0).2 h0
        | some t =>
          simp only
          obtain ⟨_, j2, j3, j4, rest, j5, j6⟩ := q3 t rfl
          refine ⟨j4, j2, j3, rest, j5, ?_⟩
          rw [j6]; simp [rbody, rpart, rstate]
  | cons c m ih =>
    intro o st h hc hn
    simp only [bloop]
    have hlen : ∀ d ∈ rputs st c, d.length ≤ o.n := by
      intro d hd
      have : d.length ≤ 2 := by
        cases st <;> simp only [rputs] at hd <;> split at hd <;> (try split at hd) <;> (try split at hd) <;>
          simp at hd <;> (try rcases hd with hd | hd | hd) <;> (try rcases hd with hd | hd) <;> subst_vars <;> simp
      omega
    obtain ⟨q1, q2, q3⟩ := putAllT_spec o (rputs st c) h hc hlen
    obtain ⟨p1, p2, p3, p4, p5⟩ := putAll_spec o (rputs st c) h hc
    generalize hpa : putAllT o (rputs st c) = r at q1 q2 q3
    obtain ⟨o1, ot⟩ := r
    simp only at q1 q2 q3
    cases ot with
    | none =>
      simp only
      have hok := q2 rfl
      have p4' := p4 hok
      rw [rputs_flatten] at p4'
      rw [q1]
      have := ih (putAll o (rputs st c)).1 (rstep st c).1 p1 p2 (by rw [p3]; exact hn)
      rw [p4'] at this
      refine BAgree_step _ _ _ _ _ _ _ _ ?_ this
      intro h0
      apply Classical.byContradiction
      intro hn0
      exact (p5 hn0).2 h0
    | some t =>
      simp only
      obtain ⟨_, j2, j3, j4, rest, j5, j6⟩ := q3 t rfl
      rw [rputs_flatten] at j6
      refine ⟨j4, j2, j3, rest ++ rbody (rstep st c).1 m, by simp [j5], ?_⟩
      rw [rbody_cons, ← List.append_assoc, j6]; simp

theorem ostart_wf (ws : List Nat) : OWF (ostart SMTPTO ws) ∧ cpIn (ostart SMTPTO ws) ∧ 3 ≤ (ostart SMTPTO ws).n := by
  refine ⟨by simp [OWF, ostart, SMTPTO], ?_, by simp [ostart, SMTPTO]⟩
  intro c hcm; simp [ostart] at hcm

theorem bblast_spec (ws : List Nat) (msg : Bytes) (err : Bool) :
    BAgree [] err .top msg ws (bblast ws msg err) := by
  obtain ⟨h1, h2, h3⟩ := ostart_wf ws
  have := bloop_spec err msg (ostart SMTPTO ws) .top h1 h2 h3
  simpa [ostart, bblast] using this

/-- a write script without a failing entry: nothing is dropped -/
theorem bblast_nofail (ws : List Nat) (msg : Bytes) (err : Bool) (h : 0 ∉ ws) :
    blastLabel (bblast ws msg err) = none := by
  have := bblast_spec ws msg err
  generalize bblast ws msg err = R at this
  cases R with
  | dropped o crit t =>
    cases crit with
    | false => exact absurd this.1 h
    | true => exact absurd this.1 h
  | _ => rfl

end Nq.Lemmas.RemoteBuf
