/-
  Lemmas for C20 (token822_unparse / token822_unquote: the second walk stays inside what the first walk counted).
-/
import Nq.TokFill

set_option linter.unusedSimpArgs false

namespace Nq.TokFill
open Nq

theorem esc2_eq (c : Byte) : esc2 c = esc1 c := rfl

/-- pointer sanity of the fill walk: `lineb ≤ s`, and a recorded fold lies at least two bytes behind the cursor
(so `s - lineb` is non-negative and `linee -= 2` stays inside the block) -/
def CurOk (c : Cur) : Prop := c.lineb ≤ c.s ∧ ∀ le, c.linee = some le → le + 2 ≤ c.s

theorem put1_fst (b : Bool) (s : Nat) : (put1 b s).1 = s + (if b then 1 else 0) := by
  cases b <;> simp [put1]

theorem put1_mem {b : Bool} {s : Nat} {i : Ix} {o : Nat × List Ix} (ho : put1 b s = o) (h : i ∈ o.2) :
    s ≤ i.idx ∧ i.idx < o.1 := by
  subst ho
  cases b <;> simp [put1] at h ⊢
  subst h; simp [Ix.idx]

theorem bytesFill_spec (b : Bytes) : ∀ s, (bytesFill s b).1 = s + bytesLen1 b ∧
    ∀ i ∈ (bytesFill s b).2, s ≤ i.idx ∧ i.idx < s + bytesLen1 b := by
  induction b with
  | nil => intro s; simp [bytesFill, bytesLen1]
  | cons c r ih =>
    intro s
    by_cases h : esc1 c = true
    · have h2 : esc2 c = true := by rw [esc2_eq]; exact h
      obtain ⟨i1, i2⟩ := ih (s + 2)
      simp only [bytesFill, bytesLen1, if_pos h, if_pos h2]
      refine ⟨by omega, ?_⟩
      intro i hi
      rcases List.mem_append.1 hi with hi | hi
      · simp at hi; rcases hi with rfl | rfl <;> simp [Ix.idx] <;> omega
      · have := i2 i hi; omega
    · have h2 : ¬ esc2 c = true := by rw [esc2_eq]; exact h
      obtain ⟨i1, i2⟩ := ih (s + 1)
      simp only [bytesFill, bytesLen1, if_neg h, if_neg h2]
      refine ⟨by omega, ?_⟩
      intro i hi
      rcases List.mem_append.1 hi with hi | hi
      · simp at hi; subst hi; simp [Ix.idx]; omega
      · have := i2 i hi; omega

theorem nsuw_spec (linelen : Nat) (c : Cur) (hc : CurOk c) :
    CurOk (nsuw linelen c).1 ∧ c.s ≤ (nsuw linelen c).1.s ∧ (nsuw linelen c).1.s ≤ c.s + 2 ∧ 2 ≤ (nsuw linelen c).1.s ∧
    ∀ i ∈ (nsuw linelen c).2, i.idx < c.s + 2 := by
  obtain ⟨hb, he⟩ := hc
  unfold nsuw
  cases hl : c.linee with
  | none =>
    simp only []
    refine ⟨⟨by (try simp only []); omega, by intro le h; simp at h; subst h; simp⟩, by simp, by simp, by simp, ?_⟩
    intro i hi; simp at hi; rcases hi with rfl | rfl <;> simp [Ix.idx]
  | some le =>
    have hle := he le hl
    simp only []
    by_cases hA : linelen = 0 ∨ c.s - c.lineb ≤ linelen
    · rw [if_pos hA]
      refine ⟨⟨hb, ?_⟩, Nat.le_refl _, by simp, by (try simp only []); omega, ?_⟩
      · intro le' h; simp at h; subst h; simp; omega
      · intro i hi
        rcases List.mem_append.1 hi with hi | hi
        · simp at hi; rcases hi with rfl | rfl <;> simp [Ix.idx]
        · obtain ⟨p, hp, hi⟩ := List.mem_flatMap.1 hi
          have := List.mem_range'_1.1 hp
          simp at hi; rcases hi with rfl | rfl <;> simp [Ix.idx] <;> omega
    · rw [if_neg hA]
      refine ⟨⟨by (try simp only []); omega, by intro le' h; simp at h; subst h; simp⟩, by simp, by simp, by simp, ?_⟩
      intro i hi; simp at hi; rcases hi with rfl | rfl <;> simp [Ix.idx]

theorem word_delims (t : Nat) (h : isWord t = true) :
    2 * ((if (t == QUOTE) = true then 1 else 0) + (if (t == LITERAL) = true then 1 else 0) + (if (t == COMMENT) = true then 1 else 0))
      = (if t ≠ ATOM then 2 else 0) := by
  simp [isWord] at h
  rcases h with ((h | h) | h) | h <;> subst h <;> decide

/-- one token: from a cursor `≤ B` the fill walk stays below `B + tokLen1` -/
theorem tokFill_spec (linelen last : Nat) (t : Tk) (c : Cur) (hc : CurOk c) (B : Nat) (hB : c.s ≤ B) :
    CurOk (tokFill linelen last t c).1 ∧ (tokFill linelen last t c).1.s ≤ B + tokLen1 last t ∧
    ∀ i ∈ (tokFill linelen last t c).2, i.idx < B + tokLen1 last t := by
  obtain ⟨hb, he⟩ := hc
  have hsp := put1_fst (needspace last t.typ) c.s
  unfold tokFill tokLen1
  by_cases h1 : t.typ = COMMA
  · simp only [if_pos h1]
    have hc' : CurOk { c with s := (put1 (needspace last t.typ) c.s).1 + 1 } :=
      ⟨by (try simp only []); omega, by intro le h; have := he le h; (try simp only []); omega⟩
    obtain ⟨n1, n2, n3, n4, n5⟩ := nsuw_spec linelen _ hc'
    refine ⟨n1, ?_, ?_⟩
    · simp at n3; omega
    · intro i hi
      rcases List.mem_append.1 hi with hi | hi
      · rcases List.mem_append.1 hi with hi | hi
        · have := put1_mem rfl hi; omega
        · simp at hi; subst hi; simp [Ix.idx]; omega
      · have := n5 i hi; simp at this; omega
  · simp only [if_neg h1]
    by_cases h2 : isSingle t.typ = true
    · simp only [if_pos h2]
      refine ⟨⟨by (try simp only []); omega, by intro le h; have := he le h; (try simp only []); omega⟩, by (try simp only []); omega, ?_⟩
      intro i hi
      rcases List.mem_append.1 hi with hi | hi
      · have := put1_mem rfl hi; omega
      · simp at hi; subst hi; simp [Ix.idx]; omega
    · simp only [if_neg h2]
      by_cases h3 : isWord t.typ = true
      · simp only [if_pos h3]
        have hd := word_delims t.typ h3
        generalize hs0 : (put1 (needspace last t.typ) c.s) = sp at hsp ⊢
        generalize ho1 : put1 (t.typ == QUOTE) sp.1 = o1
        generalize ho2 : put1 (t.typ == LITERAL) o1.1 = o2
        generalize ho3 : put1 (t.typ == COMMENT) o2.1 = o3
        generalize hbb : bytesFill o3.1 t.s = b
        generalize he1 : put1 (t.typ == QUOTE) b.1 = e1
        generalize he2 : put1 (t.typ == LITERAL) e1.1 = e2
        generalize he3 : put1 (t.typ == COMMENT) e2.1 = e3
        have f1 := put1_fst (t.typ == QUOTE) sp.1; rw [ho1] at f1
        have f2 := put1_fst (t.typ == LITERAL) o1.1; rw [ho2] at f2
        have f3 := put1_fst (t.typ == COMMENT) o2.1; rw [ho3] at f3
        obtain ⟨fb, mb⟩ := bytesFill_spec t.s o3.1; rw [hbb] at fb mb
        have g1 := put1_fst (t.typ == QUOTE) b.1; rw [he1] at g1
        have g2 := put1_fst (t.typ == LITERAL) e1.1; rw [he2] at g2
        have g3 := put1_fst (t.typ == COMMENT) e2.1; rw [he3] at g3
        have hfin : e3.1 = sp.1 + ((if t.typ ≠ ATOM then 2 else 0) + bytesLen1 t.s) := by
          omega
        refine ⟨⟨by (try simp only []); omega, by intro le h; have := he le h; (try simp only []); omega⟩, by (try simp only []); omega, ?_⟩
        intro i hi
        simp only [List.mem_append] at hi
        rcases hi with ((((((hi | hi) | hi) | hi) | hi) | hi) | hi) | hi
        · have := put1_mem hs0 hi; omega
        · have := put1_mem ho1 hi; omega
        · have := put1_mem ho2 hi; omega
        · have := put1_mem ho3 hi; omega
        · have := mb i hi; omega
        · have := put1_mem he1 hi; omega
        · have := put1_mem he2 hi; omega
        · have := put1_mem he3 hi; omega
      · simp only [if_neg h3]
        refine ⟨⟨by (try simp only []); omega, by intro le h; have := he le h; (try simp only []); omega⟩, by (try simp only []); omega, ?_⟩
        intro i hi
        have := put1_mem rfl hi; omega

theorem toksFill_spec (linelen : Nat) (ts : List Tk) : ∀ (last : Nat) (c : Cur), CurOk c → ∀ B, c.s ≤ B →
    CurOk (toksFill linelen last ts c).1 ∧ (toksFill linelen last ts c).1.s ≤ B + toksLen1 last ts ∧
    ∀ i ∈ (toksFill linelen last ts c).2, i.idx < B + toksLen1 last ts := by
  induction ts with
  | nil => intro last c hc B hB; simp [toksFill, toksLen1, hc, hB]
  | cons t r ih =>
    intro last c hc B hB
    obtain ⟨a1, a2, a3⟩ := tokFill_spec linelen last t c hc B hB
    obtain ⟨b1, b2, b3⟩ := ih t.typ (tokFill linelen last t c).1 a1 (B + tokLen1 last t) a2
    simp only [toksFill, toksLen1]
    refine ⟨b1, by omega, ?_⟩
    intro i hi
    rcases List.mem_append.1 hi with hi | hi
    · have := a3 i hi; omega
    · have := b3 i hi; omega

/-! ### unquote -/

theorem qTokFill_spec (t : Tk) (s : Nat) : (qTokFill t s).1 = s + qTokLen1 t ∧
    (qTokFill t s).2 = (List.range' s (qTokLen1 t)).map Ix.st := by
  unfold qTokFill qTokLen1
  by_cases h1 : isOne t.typ = true
  · simp [if_pos h1, List.range']
  · simp only [if_neg h1]
    by_cases h2 : t.typ = LITERAL
    · have h2' : t.typ = ATOM ∨ t.typ = QUOTE ∨ t.typ = LITERAL := Or.inr (Or.inr h2)
      simp only [if_pos h2, if_pos h2']
      have : (t.typ == LITERAL) = true := by simp [h2]
      simp only [this, put1, if_true]
      refine ⟨by omega, ?_⟩
      have e : 2 + t.s.length = 1 + (t.s.length + 1) := by omega
      rw [e, ← List.range'_append_1, ← List.range'_append_1]
      simp [List.range', Nat.add_comm, Nat.add_left_comm, Nat.add_assoc]
    · simp only [if_neg h2]
      have hf : (t.typ == LITERAL) = false := by simp [h2]
      by_cases h3 : t.typ = ATOM ∨ t.typ = QUOTE
      · have h3' : t.typ = ATOM ∨ t.typ = QUOTE ∨ t.typ = LITERAL := by
          rcases h3 with h | h
          · exact Or.inl h
          · exact Or.inr (Or.inl h)
        simp [if_pos h3, if_pos h3', hf, put1]
      · have h3' : ¬ (t.typ = ATOM ∨ t.typ = QUOTE ∨ t.typ = LITERAL) := by
          intro h; rcases h with h | h | h
          · exact h3 (Or.inl h)
          · exact h3 (Or.inr h)
          · exact h2 h
        simp [if_neg h3, if_neg h3']

theorem qFill_spec (ts : List Tk) : ∀ s, (qFill ts s).1 = s + qlen1 ts ∧
    (qFill ts s).2 = (List.range' s (qlen1 ts)).map Ix.st := by
  induction ts with
  | nil => intro s; simp [qFill, qlen1]
  | cons t r ih =>
    intro s
    obtain ⟨a1, a2⟩ := qTokFill_spec t s
    obtain ⟨b1, b2⟩ := ih (qTokFill t s).1
    simp only [qFill, qlen1]
    refine ⟨by omega, ?_⟩
    rw [a2, b2, a1, ← List.map_append, List.range'_append_1]

end Nq.TokFill
