/-
  C17 lemmas: the token-level rewriting of qmail-inject (`rwgeneric` on reversed token lists) agrees
  with the documented string-level rewriting (`Spec.Addr.rewriteMailbox` / `qualifyHost`, written from
  qmail-header(5) / qmail-inject(8)).
-/
import Nq.Lemmas.C17Unparse
import Nq.Lemmas.C17Envelope

namespace Nq.Lemmas.C17
set_option maxRecDepth 20000
open Nq Nq.Token822 Nq.Inject Nq.Spec.Addr Nq.Spec.Lex822

/-- tokens of a host name written as a dot-atom: dots and legal atoms -/
def hostTok : Tok → Bool
  | .dot => true
  | .atom s => !s.isEmpty && s.all atomByte
  | _ => false

def atomByteNot (c : Byte) : Bool := !atomByte c || (c != DOT && c != 91 && c != AT)

theorem atomByteNot_all : ∀ c, atomByteNot c = true := forall_byte atomByteNot (by decide)

theorem atomByte_ne {c : Byte} (h : atomByte c = true) : c ≠ DOT ∧ c ≠ 91 ∧ c ≠ AT := by
  have := atomByteNot_all c
  simp only [atomByteNot, h, Bool.not_true, Bool.false_or, Bool.and_eq_true, bne_iff_ne, ne_eq] at this
  exact ⟨this.1.1, this.1.2, this.2⟩

theorem hostTok_ne_at {t : Tok} (h : hostTok t = true) : t ≠ .at := by
  intro e; subst e; simp [hostTok] at h

/-- scanning the reversed address from its right end: a dot among the host tokens is found before the `@` -/
theorem beforeAt_dot_host (hr : List Tok) (X : List Tok) (h : hr.all hostTok = true) :
    beforeAt (· = .dot) (hr ++ .at :: X) = hr.contains .dot := by
  induction hr with
  | nil => simp [beforeAt]
  | cons t hr ih =>
    simp only [List.all_cons, Bool.and_eq_true] at h
    have hne := hostTok_ne_at h.1
    by_cases hd : t = .dot
    · subst hd; simp [beforeAt]
    · have hd2 : ¬ Tok.dot = t := fun e => hd e.symm
      simp [beforeAt, hd, hd2, hne, ih h.2]

theorem beforeAt_lit_host (hr : List Tok) (X : List Tok) (h : hr.all hostTok = true) :
    beforeAt isLiteral (hr ++ .at :: X) = false := by
  induction hr with
  | nil => simp [beforeAt, isLiteral]
  | cons t hr ih =>
    simp only [List.all_cons, Bool.and_eq_true] at h
    have hne := hostTok_ne_at h.1
    have hl : isLiteral t = false := by cases t <;> simp_all [hostTok, isLiteral]
    simp [beforeAt, hl, hne, ih h.2]

/-- the bytes of a dot-atom host contain a '.' exactly when its tokens contain a DOT token -/
theorem unquote_contains_dot (hs : List Tok) (h : hs.all hostTok = true) :
    (unquote hs).contains DOT = hs.contains .dot := by
  induction hs with
  | nil => simp [unquote]
  | cons t hs ih =>
    simp only [List.all_cons, Bool.and_eq_true] at h
    cases t with
    | dot => simp [unquote, unqTok, DOT]
    | atom s =>
      have hs' : s.all atomByte = true := by
        have := h.1; simp only [hostTok, Bool.and_eq_true] at this; exact this.2
      have hnd : s.contains DOT = false := by
        cases hc : s.contains DOT with
        | false => rfl
        | true =>
          have hm : DOT ∈ s := by simpa using hc
          exact absurd rfl (atomByte_ne (List.all_eq_true.mp hs' DOT hm)).1
      have : (unquote (Tok.atom s :: hs)).contains DOT = (s.contains DOT || (unquote hs).contains DOT) := by
        simp [unquote, unqTok, List.contains_append]
      rw [this, hnd, ih h.2]
      simp [List.contains_cons]
    | _ => simp [hostTok] at h

theorem unquote_head_host (hs : List Tok) (h : hs.all hostTok = true) : (unquote hs).head? ≠ some 91 := by
  cases hs with
  | nil => simp [unquote]
  | cons t hs =>
    simp only [List.all_cons, Bool.and_eq_true] at h
    cases t with
    | dot => simp [unquote, unqTok]
    | atom s =>
      cases s with
      | nil => simp [hostTok] at h
      | cons c s =>
        have hc : atomByte c = true := by
          have := h.1; simp [hostTok] at this; exact this.1
        have := (atomByte_ne hc).2.1
        simpa [unquote, unqTok] using this
    | _ => simp [hostTok] at h

theorem unquote_reverse_host_append (a b : List Tok) : unquote (a ++ b) = unquote a ++ unquote b := unquote_append a b

/-- **the last two steps of `rwgeneric` on `…@host`** (host a dot-atom ending in the atom `s`), as strings:
exactly `qualifyHost` of the host -/
theorem rw_host_strings (c : RwCfg) (sp : RwSpec) (h0 : List Tok) (s : Bytes) (X pt : List Tok)
    (hh : (h0 ++ [Tok.atom s]).all hostTok = true)
    (hdd : unquote c.defaultdomain = DOT :: sp.defaultdomain)
    (hpd : c.plusdomain = .dot :: pt) (hpt : ∀ t ∈ pt, t ≠ Tok.at) (hpu : unquote c.plusdomain = DOT :: sp.plusdomain) :
    addrString (rwnodot c (rwplus c ((h0 ++ [Tok.atom s]).reverse ++ .at :: X)))
      = unquote X.reverse ++ AT :: qualifyHost sp (unquote (h0 ++ [Tok.atom s])) := by
  have hh0 : h0.all hostTok = true := by
    simp only [List.all_append, Bool.and_eq_true] at hh; exact hh.1
  have hs : s ≠ [] ∧ s.all atomByte = true := by
    simp only [List.all_append, Bool.and_eq_true, List.all_cons, List.all_nil, Bool.and_true] at hh
    have := hh.2
    simp only [hostTok, Bool.and_eq_true, Bool.not_eq_true', List.isEmpty_eq_false_iff] at this
    exact this
  have hrev : (h0 ++ [Tok.atom s]).reverse = .atom s :: h0.reverse := by simp
  have hr0 : h0.reverse.all hostTok = true := by simpa using hh0
  have hhead := unquote_head_host _ hh
  have hu : unquote (h0 ++ [Tok.atom s]) = unquote h0 ++ s := by
    rw [unquote_append]; simp [unquote, unqTok]
  have hlast : (unquote (h0 ++ [Tok.atom s])).getLast? = s.getLast? := by
    rw [hu]
    obtain ⟨hne, _⟩ := hs
    cases s with
    | nil => exact absurd rfl hne
    | cons x xs =>
      rw [List.getLast?_append]
      cases hg : (x :: xs).getLast? with
      | none => simp at hg
      | some v => simp
  have hdl : (unquote (h0 ++ [Tok.atom s])).dropLast = unquote h0 ++ s.dropLast := by
    rw [hu]
    obtain ⟨hne, _⟩ := hs
    exact List.dropLast_append_of_ne_nil hne
  rw [hrev]
  simp only [qualifyHost, if_neg hhead, hlast]
  by_cases hplus : s.getLast? = some 43
  · -- plus domain
    have hb : beforeAt (· = .dot) (c.plusdomain.reverse ++ (.atom s.dropLast :: (h0.reverse ++ .at :: X))) = true := by
      rw [hpd, List.reverse_cons, List.append_assoc]
      exact beforeAt_prefix _ pt.reverse .dot _ (fun t ht => hpt t (by simpa using ht)) (by simp)
    simp only [List.cons_append, rwplus, hplus, if_true, rwnodot, hb, addrString, hdl]
    simp [unquote_append, unquote, unqTok, hpu, AT]
  · simp only [List.cons_append, rwplus, hplus, if_false]
    have hbd : beforeAt (· = .dot) (.atom s :: (h0.reverse ++ .at :: X)) = (h0 ++ [Tok.atom s]).contains .dot := by
      have := beforeAt_dot_host (.atom s :: h0.reverse) X (by simpa [hostTok, hs.1, hs.2] using hr0)
      simpa [List.contains_cons, List.contains_append, Bool.or_comm] using this
    have hbl : beforeAt isLiteral (.atom s :: (h0.reverse ++ .at :: X)) = false := by
      simpa using beforeAt_lit_host (.atom s :: h0.reverse) X (by simpa [hostTok, hs.1, hs.2] using hr0)
    rw [unquote_contains_dot _ hh]
    by_cases hdot : (h0 ++ [Tok.atom s]).contains .dot = true
    · simp only [rwnodot, hbd, hdot, if_true, addrString]
      simp [unquote_append, unquote, unqTok, hu, AT]
    · have hdot' : (h0 ++ [Tok.atom s]).contains .dot = false := by simpa using hdot
      simp only [rwnodot, hbd, hdot', hbl, Bool.false_eq_true, if_false, addrString]
      simp [unquote_append, unquote, unqTok, hu, hdd, AT]

end Nq.Lemmas.C17
