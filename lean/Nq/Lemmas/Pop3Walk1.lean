import Nq.Lemmas.Pop3Sim
namespace Nq.Lemmas.Pop3
open Nq Nq.Pop3 Nq.Pop3Ref Nq.Lemmas.Pop3Fmt

/-! ### reading replies the way the reference does -/

theorem readLineGo_line (l : Bytes) : ∀ (cur w : Bytes), LF ∉ l →
    readLineGo cur (l ++ CR :: LF :: w) = some (cur.reverse ++ l, w) := by
  induction l with
  | nil => intro cur w _; simp [readLineGo, CR, LF]
  | cons x l ih =>
    intro cur w h
    have hx : x ≠ LF := fun hh => h (by simp [hh])
    have hl : LF ∉ l := fun hh => h (by simp [hh])
    simp only [List.cons_append, readLineGo, hx, if_false]
    rw [ih (x :: cur) w hl]
    simp

theorem readLine_line (l w : Bytes) (h : LF ∉ l) : readLine (l ++ CR :: LF :: w) = some (l, w) := by
  unfold readLine
  rw [readLineGo_line l [] w h]; rfl

theorem digit_ne (c x : Byte) (h : isDigit c = true) (hx : isDigit x = false) : c ≠ x := by
  intro e; rw [e, hx] at h; cases h

theorem fmtNat_noLF (n : Nat) : LF ∉ fmtNat n := fun h => digit_ne _ LF (fmtNat_digits n _ h) (by decide) rfl
theorem fmtNat_noSP (n : Nat) : SP ∉ fmtNat n := fun h => digit_ne _ SP (fmtNat_digits n _ h) (by decide) rfl

theorem number_fmtNat (n : Nat) : number? (fmtNat n) = some n := by
  unfold number?
  have h1 : fmtNat n ≠ [] := fmtNat_ne_nil n
  have h2 : (fmtNat n).all isDigit = true := List.all_eq_true.mpr (fmtNat_digits n)
  simp [h1, h2, decVal_fmtNat]

theorem split_word {α} (p : α → Bool) (d : List α) (hd : ∀ c ∈ d, p c = false) : ∀ acc : List α,
    List.splitOnPPrepend p d acc = [acc.reverse ++ d] := by
  induction d with
  | nil => intro acc; simp [List.splitOnPPrepend.eq_1]
  | cons c d ih =>
    intro acc
    rw [List.splitOnPPrepend.eq_2, hd c (by simp)]
    simp only [Bool.false_eq_true, if_false]
    rw [ih (fun x hx => hd x (by simp [hx]))]
    simp

theorem split_word_sep {α} (p : α → Bool) (d : List α) (hd : ∀ c ∈ d, p c = false) (x : α) (hx : p x = true)
    (t : List α) : ∀ acc : List α,
    List.splitOnPPrepend p (d ++ x :: t) acc = (acc.reverse ++ d) :: List.splitOnPPrepend p t [] := by
  induction d with
  | nil => intro acc; simp [List.splitOnPPrepend.eq_2, hx]
  | cons c d ih =>
    intro acc
    rw [List.cons_append, List.splitOnPPrepend.eq_2, hd c (by simp)]
    simp only [Bool.false_eq_true, if_false]
    rw [ih (fun y hy => hd y (by simp [hy]))]
    simp

theorem fmtNat_nosep (n : Nat) : ∀ c ∈ fmtNat n, (c == SP) = false := by
  intro c hc
  have : c ≠ SP := fun e => fmtNat_noSP n (e ▸ hc)
  simpa using this

theorem words_two (a b : Nat) : words ([SP] ++ fmtNat a ++ [SP] ++ fmtNat b) = [fmtNat a, fmtNat b] := by
  unfold words List.splitOn List.splitOnP
  have e : [SP] ++ fmtNat a ++ [SP] ++ fmtNat b = [] ++ SP :: (fmtNat a ++ SP :: fmtNat b) := by simp
  rw [e, split_word_sep _ [] (by simp) SP (by simp), split_word_sep _ _ (fmtNat_nosep a) SP (by simp),
    split_word _ _ (fmtNat_nosep b)]
  simp [fmtNat_ne_nil]

theorem words_one (a : Nat) : words ([SP] ++ fmtNat a) = [fmtNat a] := by
  unfold words List.splitOn List.splitOnP
  have e : [SP] ++ fmtNat a = [] ++ SP :: fmtNat a := by simp
  rw [e, split_word_sep _ [] (by simp) SP (by simp), split_word _ _ (fmtNat_nosep a)]
  simp [fmtNat_ne_nil]

theorem match_ok (w : Bytes) : matchReply .ok (okLine ++ w) = some w := by
  have : okLine ++ w = okSp ++ CR :: LF :: w := by simp [okLine, okSp]
  unfold matchReply
  rw [this, readLine_line okSp w (by decide)]
  simp [isOk, okSp]

theorem isErr_errSp (t : Bytes) : isErr (errSp ++ t) = true := by simp [isErr, errSp]
theorem isOk_okSp (t : Bytes) : isOk (okSp ++ t) = true := by simp [isOk, okSp]
theorem isErr_okSp (t : Bytes) : isErr (okSp ++ t) = false := by simp [isErr, okSp]

theorem match_err (t w : Bytes) (h : LF ∉ t) : matchReply .err (errSp ++ t ++ [CR, LF] ++ w) = some w := by
  have e : errSp ++ t ++ [CR, LF] ++ w = (errSp ++ t) ++ CR :: LF :: w := by simp
  have hl : LF ∉ errSp ++ t := by
    intro hh; rcases List.mem_append.mp hh with hh | hh
    · revert hh; decide
    · exact h hh
  unfold matchReply
  rw [e, readLine_line _ w hl]
  simp [isErr_errSp]

theorem match_okText (t w : Bytes) (h : LF ∉ t) : matchReply (.okText t) (okSp ++ t ++ [CR, LF] ++ w) = some w := by
  have e : okSp ++ t ++ [CR, LF] ++ w = (okSp ++ t) ++ CR :: LF :: w := by simp
  have hl : LF ∉ okSp ++ t := by
    intro hh; rcases List.mem_append.mp hh with hh | hh
    · revert hh; decide
    · exact h hh
  unfold matchReply
  rw [e, readLine_line _ w hl]
  simp [okSp]

theorem mem_app_noLF (a b : Bytes) (ha : LF ∉ a) (hb : LF ∉ b) : LF ∉ a ++ b := by
  intro h; rcases List.mem_append.mp h with h | h
  · exact ha h
  · exact hb h

theorem match_okStat (c total : Nat) (w : Bytes) :
    matchReply (.okStat total) (okSp ++ fmtNat c ++ [SP] ++ fmtNat total ++ [CR, LF] ++ w) = some w := by
  have e : okSp ++ fmtNat c ++ [SP] ++ fmtNat total ++ [CR, LF] ++ w =
      (okSp ++ (fmtNat c ++ [SP] ++ fmtNat total)) ++ CR :: LF :: w := by simp
  have hl : LF ∉ okSp ++ (fmtNat c ++ [SP] ++ fmtNat total) :=
    mem_app_noLF _ _ (by decide) (mem_app_noLF _ _ (mem_app_noLF _ _ (fmtNat_noLF c) (by decide)) (fmtNat_noLF total))
  have hd : (okSp ++ (fmtNat c ++ [SP] ++ fmtNat total)).drop 3 = [SP] ++ fmtNat c ++ [SP] ++ fmtNat total := by
    simp [okSp]
  unfold matchReply
  rw [e, readLine_line _ w hl]
  simp only [hd, words_two, isOk_okSp, number_fmtNat]
  simp

theorem match_okNum (n : Nat) (w : Bytes) :
    matchReply (.okNum n) (okSp ++ fmtNat n ++ [CR, LF] ++ w) = some w := by
  have e : okSp ++ fmtNat n ++ [CR, LF] ++ w = (okSp ++ fmtNat n) ++ CR :: LF :: w := by simp
  have hl : LF ∉ okSp ++ fmtNat n := mem_app_noLF _ _ (by decide) (fmtNat_noLF n)
  have hd : (okSp ++ fmtNat n).drop 3 = [SP] ++ fmtNat n := by simp [okSp]
  unfold matchReply
  rw [e, readLine_line _ w hl]
  simp only [hd, words_one, isOk_okSp, number_fmtNat]
  simp

theorem match_multi (ls : List Bytes) (body w : Bytes) (h : popDecode (body ++ w) = some (ls, w)) :
    matchReply (.multi ls) (okLine ++ body ++ w) = some w := by
  have e : okLine ++ body ++ w = okSp ++ CR :: LF :: (body ++ w) := by simp [okLine, okSp]
  unfold matchReply
  rw [e, readLine_line okSp _ (by decide)]
  simp [isOk, okSp, h]

theorem match_multiOrErr (ls : List Bytes) (body w : Bytes) (h : popDecode (body ++ w) = some (ls, w)) :
    matchReply (.multiOrErr ls) (okLine ++ body ++ w) = some w := by
  have e : okLine ++ body ++ w = okSp ++ CR :: LF :: (body ++ w) := by simp [okLine, okSp]
  unfold matchReply
  rw [e, readLine_line okSp _ (by decide)]
  simp [isOk, isErr, okSp, h]

end Nq.Lemmas.Pop3
