/-
  Lemmas for `Nq.SmtpCmdIO`: commands() over substdio, for every read script, computes what the pure
  line reader computes on the concatenation of the reads; the session over substdio is `SmtpSession.run`.
  Core Lean only.
-/
import Nq.SmtpCmdIO
import Nq.Lemmas.SmtpIO

namespace Nq.Lemmas.SmtpCmd
open Nq Nq.Substdio Nq.SmtpIn Nq.SmtpIO Nq.SmtpSession Nq.SmtpCmdIO Nq.Lemmas.SmtpIO

/-! ### `readLine` -/

theorem readLine_nil : readLine [] = none := rfl

theorem readLine_lf (r : Bytes) : readLine (LF :: r) = some ([], r) := by simp [readLine]

theorem readLine_cons (c : Byte) (r : Bytes) (h : c ≠ LF) :
    readLine (c :: r) = (readLine r).map (fun x => (c :: x.1, x.2)) := by
  simp only [readLine, if_neg h]
  cases readLine r with
  | none => rfl
  | some x => obtain ⟨l, r'⟩ := x; rfl

/-- a line found: the stream is that line, its LF, and the rest -/
theorem readLine_some : ∀ (inp l r : Bytes), readLine inp = some (l, r) → inp = l ++ LF :: r ∧ LF ∉ l
  | [], l, r, h => by simp [readLine] at h
  | c :: t, l, r, h => by
    by_cases hc : c = LF
    · subst hc
      rw [readLine_lf] at h
      simp only [Option.some.injEq, Prod.mk.injEq] at h
      obtain ⟨rfl, rfl⟩ := h
      simp
    · rw [readLine_cons c t hc] at h
      cases hr : readLine t with
      | none => rw [hr] at h; simp at h
      | some x =>
        obtain ⟨l', r'⟩ := x
        rw [hr] at h
        simp only [Option.map_some, Option.some.injEq, Prod.mk.injEq] at h
        obtain ⟨rfl, rfl⟩ := h
        obtain ⟨e, hn⟩ := readLine_some t l' r' hr
        refine ⟨by rw [e]; rfl, ?_⟩
        intro hm
        rcases List.mem_cons.1 hm with h1 | h1
        · exact hc h1.symm
        · exact hn h1

theorem readLine_append (l r : Bytes) (h : LF ∉ l) : readLine (l ++ LF :: r) = some (l, r) := by
  induction l with
  | nil => exact readLine_lf r
  | cons c t ih =>
    have hc : c ≠ LF := fun e => h (by simp [e])
    have ht : LF ∉ t := fun e => h (by simp [e])
    rw [List.cons_append, readLine_cons c _ hc, ih ht]; rfl

theorem readLine_none_iff (inp : Bytes) : readLine inp = none ↔ LF ∉ inp := by
  induction inp with
  | nil => simp [readLine]
  | cons c t ih =>
    by_cases hc : c = LF
    · subst hc; simp [readLine_lf]
    · rw [readLine_cons c t hc]
      have hc' : ¬ LF = c := fun e => hc e.symm
      simp [ih, hc']

/-! ### one line over substdio -/

/-- what `getLine` computed, against `readLine` on the bytes that were still to come -/
def LAgree (s : ISt) : LineRes → Prop
  | .line l s' => readLine (pending s) = some (l, pending s') ∧ IWF s' ∧ s'.size = s.size ∧ (0 ∉ s.rs → 0 ∉ s'.rs)
  | .eof _ => readLine (pending s) = none
  | .err _ => 0 ∈ s.rs ∧ ∃ pre, pre <+: pending s ∧ readLine pre = none

theorem getLine_spec (fuel : Nat) (s : ISt) (h : IWF s) (hf : (pending s).length < fuel) : LAgree s (getLine fuel s) := by
  induction fuel generalizing s with
  | zero => omega
  | succ fuel ih =>
    simp only [getLine]
    obtain ⟨g1, g2, _, g4, g5⟩ := get1_spec s h
    generalize get1 s = gr at g1 g2 g4 g5
    obtain ⟨s', r⟩ := gr
    cases r with
    | byte c =>
      simp only at g1 g2 g4 g5 ⊢
      have hp : pending s = c :: pending s' := g5.symm
      by_cases hc : c = LF
      · rw [if_pos hc]
        subst hc
        exact ⟨by rw [hp, readLine_lf], g1, g2, fun hn => (g4 hn).1⟩
      · rw [if_neg hc]
        have hlen : (pending s').length < fuel := by rw [hp] at hf; simp only [List.length_cons] at hf; omega
        have := ih s' g1 hlen
        generalize getLine fuel s' = lr at this
        cases lr with
        | line l s'' =>
          obtain ⟨a1, a2, a3, a4⟩ := this
          exact ⟨by rw [hp, readLine_cons c _ hc, a1]; rfl, a2, by rw [a3, g2], fun hn => a4 (g4 hn).1⟩
        | eof s'' =>
          simp only [LineRes.cons, LAgree] at this ⊢
          rw [hp, readLine_cons c _ hc, this]; rfl
        | err s'' =>
          obtain ⟨a1, pre, a2, a3⟩ := this
          refine ⟨?_, c :: pre, ?_, ?_⟩
          · apply Classical.byContradiction
            intro hn
            exact (g4 hn).1 a1
          · rw [hp]; obtain ⟨t, ht⟩ := a2; exact ⟨t, by rw [← ht]; rfl⟩
          · rw [readLine_cons c _ hc, a3]; rfl
    | eof =>
      simp only at g5 ⊢
      show readLine (pending s) = none
      unfold pending; rw [g5.1]; rfl
    | err =>
      simp only at g4 ⊢
      refine ⟨?_, [], List.nil_prefix, rfl⟩
      apply Classical.byContradiction
      intro hn
      exact (g4 hn).2 rfl

theorem readLineIO_spec (s : ISt) (h : IWF s) : LAgree s (readLineIO s) :=
  getLine_spec _ s h (by omega)

/-! ### commands() with handlers that leave `ss` alone -/

theorem cmdsFuel_fuel (table : List Bytes) : ∀ (n m : Nat) (inp : Bytes), inp.length < n → inp.length < m →
    cmdsFuel table n inp = cmdsFuel table m inp
  | 0, _, _, h, _ => by omega
  | _, 0, _, _, h => by omega
  | n + 1, m + 1, inp, hn, hm => by
    simp only [cmdsFuel]
    cases hr : readLine inp with
    | none => rfl
    | some x =>
      obtain ⟨l, r⟩ := x
      obtain ⟨e, _⟩ := readLine_some inp l r hr
      have hl : r.length < inp.length := by rw [e]; simp; omega
      simp only
      rw [cmdsFuel_fuel table n m r (by omega) (by omega)]

theorem cmdsFuel_eq (table : List Bytes) (n : Nat) (inp : Bytes) (h : inp.length < n) : cmdsFuel table n inp = cmds table inp :=
  cmdsFuel_fuel table n _ inp h (by omega)

theorem cmds_line (table : List Bytes) (l r : Bytes) (h : LF ∉ l) :
    cmds table (l ++ LF :: r) = callOf table l :: cmds table r := by
  show cmdsFuel table ((l ++ LF :: r).length + 1) (l ++ LF :: r) = _
  simp only [cmdsFuel, readLine_append l r h]
  rw [cmdsFuel_eq table _ r (by simp; omega)]

theorem cmds_none (table : List Bytes) (inp : Bytes) (h : readLine inp = none) : cmds table inp = [] := by
  show cmdsFuel table (inp.length + 1) inp = _
  simp only [cmdsFuel, h]

/-- over any read script: the calls are those of the pure reader on the bytes delivered before the
first failing read (all of them when no read fails), and -1 is returned only after a failing read -/
theorem cmdsIOFuel_spec (table : List Bytes) (fuel : Nat) (s : ISt) (h : IWF s) (hf : (pending s).length < fuel) :
    ∃ pre, pre <+: pending s ∧ (cmdsIOFuel table fuel s).1 = cmds table pre ∧
      ((cmdsIOFuel table fuel s).2 = .err → 0 ∈ s.rs) ∧
      (0 ∉ s.rs → pre = pending s ∧ (cmdsIOFuel table fuel s).2 = .eof) := by
  induction fuel generalizing s with
  | zero => omega
  | succ fuel ih =>
    simp only [cmdsIOFuel]
    have hl := readLineIO_spec s h
    generalize readLineIO s = lr at hl
    cases lr with
    | line l s' =>
      obtain ⟨a1, a2, a3, a4⟩ := hl
      obtain ⟨e, hnl⟩ := readLine_some _ l _ a1
      have hlen : (pending s').length < fuel := by rw [e] at hf; simp at hf; omega
      obtain ⟨pre, p1, p2, p3, p4⟩ := ih s' a2 hlen
      refine ⟨l ++ LF :: pre, ?_, ?_, ?_, ?_⟩
      · rw [e]; obtain ⟨t, ht⟩ := p1; exact ⟨t, by rw [← ht]; simp⟩
      · simp only
        rw [p2, cmds_line table l pre hnl]
      · simp only
        intro he
        apply Classical.byContradiction
        intro hn
        exact a4 hn (p3 he)
      · intro hn
        obtain ⟨q1, q2⟩ := p4 (a4 hn)
        exact ⟨by rw [q1, e], q2⟩
    | eof s' =>
      simp only [LAgree] at hl
      refine ⟨pending s, List.prefix_refl _, ?_, by simp, fun _ => ⟨rfl, rfl⟩⟩
      simp only
      rw [cmds_none table _ hl]
    | err s' =>
      obtain ⟨a1, pre, a2, a3⟩ := hl
      refine ⟨pre, a2, ?_, fun _ => a1, fun hn => absurd a1 hn⟩
      simp only
      rw [cmds_none table _ a3]

theorem commandsIO_spec (table : List Bytes) (s : ISt) (h : IWF s) :
    ∃ pre, pre <+: pending s ∧ (commandsIO table s).1 = cmds table pre ∧
      ((commandsIO table s).2 = .err → 0 ∈ s.rs) ∧
      (0 ∉ s.rs → pre = pending s ∧ (commandsIO table s).2 = .eof) :=
  cmdsIOFuel_spec table _ s h (by omega)

theorem istart_IWF (size : Nat) (src : Bytes) (rs : List Nat) : IWF (istart size src rs) := by
  simp [IWF, istart]

theorem istart_pending (size : Nat) (src : Bytes) (rs : List Nat) : pending (istart size src rs) = src := by
  simp [pending, istart]

/-! ### the session over substdio -/

theorem semit_accepted (bs : Bytes) (r : SRes) (b : Bytes) (s' : ISt) (h : semit bs r = .accepted b s') :
    ∃ b0, r = .accepted b0 s' := by
  cases r with
  | accepted b0 s0 => simp only [semit, SRes.accepted.injEq] at h; exact ⟨b0, by rw [h.2]⟩
  | stray => simp [semit] at h
  | died => simp [semit] at h

/-- `blast()` returning leaves a read script without failing reads if it started with one -/
theorem sloop_noerr (fuel : Nat) (s : ISt) (st : DSt) (h : IWF s) (hn : 0 ∉ s.rs) (b : Bytes) (s' : ISt)
    (hr : sloop fuel s st = .accepted b s') : 0 ∉ s'.rs := by
  induction fuel generalizing s st b with
  | zero => simp [sloop] at hr
  | succ fuel ih =>
    simp only [sloop] at hr
    obtain ⟨g1, _, _, g4, _⟩ := get1_spec s h
    generalize get1 s = gr at g1 g4 hr
    obtain ⟨s1, r⟩ := gr
    cases r with
    | byte c =>
      simp only at g1 g4 hr
      cases hd : (dstep st c).2 with
      | data bs =>
        rw [hd] at hr
        simp only at hr
        obtain ⟨b0, hb0⟩ := semit_accepted _ _ _ _ hr
        exact ih s1 _ g1 (g4 hn).1 b0 hb0
      | done =>
        rw [hd] at hr
        simp only [SRes.accepted.injEq] at hr
        rw [← hr.2]; exact (g4 hn).1
      | stray => rw [hd] at hr; simp at hr
    | eof => simp at hr
    | err => simp at hr

theorem parseLine_split (l : Bytes) : parseLine l = (verbOf (splitCmd l).1, (splitCmd l).2) := rfl

/-- `find?` on the table is `findIdx` followed by indexing -/
theorem find_findIdx {α : Type} (p : α → Bool) : ∀ (l : List α), l.find? p = l[l.findIdx p]?
  | [] => rfl
  | x :: t => by
    by_cases hx : p x = true
    · simp [List.find?, List.findIdx_cons, hx]
    · have hx' : p x = false := by simpa using hx
      simp only [List.find?, List.findIdx_cons, hx']
      simp only [cond_false, List.getElem?_cons_succ]
      exact find_findIdx p t

theorem verbOf_eq (v : Bytes) : verbOf v = verbAt (tableIdx smtpTexts v) := by
  unfold verbOf verbAt tableIdx smtpTexts
  rw [find_findIdx, List.findIdx_map]
  rfl

/-- a DATA command whose message does not end properly ends the session -/
theorem data_bad_halts (cfg : Cfg) (s : Sess) (env : DataEnv) (hg : dataGate s = true) (ho : env.openFails = false)
    (hb : env.blast ≠ .ok) : (sstep cfg s (.data env)).2.halt = true := by
  unfold dataGate at hg
  simp only [Bool.and_eq_true, Bool.not_eq_true'] at hg
  obtain ⟨h1, h2⟩ := hg
  cases hbl : env.blast with
  | ok => exact absurd hbl hb
  | stray => simp [sstep, h1, h2, ho, hbl]
  | eof => simp [sstep, h1, h2, ho, hbl]

/-- one command read over substdio (no failing read): the command the pure reader finds, and — unless the
command ends the session — the same bytes left -/
theorem nextCmdIO_spec (cfg : Cfg) (qq : QQ) (s : Sess) (i : ISt) (h : IWF i) (hn : 0 ∉ i.rs) :
    match nextCmdIO qq s i with
    | none => nextCmd qq s (pending i) = none
    | some (c, i') => ∃ r, nextCmd qq s (pending i) = some (c, r) ∧
        ((sstep cfg s c).2.halt = true ∨ (r = pending i' ∧ IWF i' ∧ 0 ∉ i'.rs)) := by
  unfold nextCmdIO
  have hl := readLineIO_spec i h
  generalize readLineIO i = lr at hl
  cases lr with
  | eof i' => simp only [LAgree] at hl; simp only [nextCmd, hl]
  | err i' => exact absurd hl.1 hn
  | line l i' =>
    obtain ⟨a1, a2, a3, a4⟩ := hl
    simp only
    by_cases hd : (parseLine l).1 = .data ∧ (dataGate s && !qq.openFails) = true
    · rw [if_pos hd]
      obtain ⟨hv, hg⟩ := hd
      have hb := sblast_spec i' a2
      have hg' : dataGate s = true ∧ qq.openFails = false := by simpa using hg
      generalize hsb : sblast i' = sb at hb
      cases sb with
      | died =>
        rcases hb with ⟨_, e⟩ | hb
        · exact absurd e (a4 hn)
        · cases hdb : dblast (i'.data ++ i'.src) with
          | incomplete =>
            refine ⟨[], ?_, Or.inl (data_bad_halts cfg s _ hg'.1 rfl (by simp))⟩
            simp only [nextCmd, a1, hv, hg, if_true]
            unfold pending; rw [hdb]
          | stray => rw [hdb] at hb; exact absurd hb (by simp [SAgree])
          | accepted b r => rw [hdb] at hb; exact absurd hb (by simp [SAgree])
      | stray =>
        rcases hb with ⟨e, _⟩ | hb
        · exact absurd e (by simp)
        · cases hdb : dblast (i'.data ++ i'.src) with
          | stray =>
            refine ⟨[], ?_, Or.inl (data_bad_halts cfg s _ hg'.1 rfl (by simp))⟩
            simp only [nextCmd, a1, hv, hg, if_true]
            unfold pending; rw [hdb]
          | incomplete => rw [hdb] at hb; exact absurd hb (by simp [SAgree])
          | accepted b r => rw [hdb] at hb; exact absurd hb (by simp [SAgree])
      | accepted b i'' =>
        rcases hb with ⟨e, _⟩ | hb
        · exact absurd e (by simp)
        · cases hdb : dblast (i'.data ++ i'.src) with
          | accepted b' r =>
            rw [hdb] at hb
            obtain ⟨_, b2, b3, b4⟩ := hb
            refine ⟨r, ?_, Or.inr ⟨b4.symm, b2, ?_⟩⟩
            · simp only [nextCmd, a1, hv, hg, if_true]
              unfold pending; rw [hdb]
            · exact sloop_noerr _ i' .s1 a2 (a4 hn) b i'' hsb
          | incomplete => rw [hdb] at hb; exact absurd hb (by simp [SAgree])
          | stray => rw [hdb] at hb; exact absurd hb (by simp [SAgree])
    · rw [if_neg hd]
      refine ⟨pending i', ?_, Or.inr ⟨rfl, a2, a4 hn⟩⟩
      simp only [nextCmd, a1]
      cases hv : (parseLine l).1 <;> simp only [lineCmd]
      have : ¬ ((dataGate s && !qq.openFails) = true) := fun e => hd ⟨hv, e⟩
      rw [if_neg this]

theorem runIOFuel_eq (cfg : Cfg) (qq : QQ) : ∀ (n : Nat) (s : Sess) (i : ISt), IWF i → 0 ∉ i.rs →
    runIOFuel cfg qq n s i = runFuel cfg qq n s (pending i)
  | 0, _, _, _, _ => rfl
  | n + 1, s, i, h, hn => by
    simp only [runIOFuel, runFuel]
    have hs := nextCmdIO_spec cfg qq s i h hn
    cases hx : nextCmdIO qq s i with
    | none => rw [hx] at hs; simp only at hs; rw [hs]
    | some x =>
      obtain ⟨c, i'⟩ := x
      rw [hx] at hs
      obtain ⟨r, e, hr⟩ := hs
      rw [e]
      simp only
      by_cases hh : (sstep cfg s c).2.halt = true
      · rw [if_pos hh, if_pos hh]
      · rw [if_neg hh, if_neg hh]
        rcases hr with hr | ⟨rfl, w, z⟩
        · exact absurd hr hh
        · rw [runIOFuel_eq cfg qq n _ i' w z]

/-- the session over a buffered descriptor, for every buffer size and every read script without a failing
read, is the session on the concatenation of the reads -/
theorem runIO_eq (cfg : Cfg) (qq : QQ) (i : ISt) (h : IWF i) (hn : 0 ∉ i.rs) : runIO cfg qq i = run cfg qq (pending i) :=
  runIOFuel_eq cfg qq _ {} i h hn

end Nq.Lemmas.SmtpCmd
