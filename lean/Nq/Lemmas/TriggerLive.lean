/-
  Lemmas for the bounded-steps liveness of the trigger protocol (property C16, `C16_bounded`):
  the scan invariant (the open directory stream only holds entries that are still in todo/), and the
  strict decrease of `Trigger.phi` along every step the daemon takes on its own.
-/
import Nq.Trigger

namespace Nq.Trigger

/-- the directory stream of a scan in progress holds distinct entries of todo/ -/
structure ScanInv (s : St) : Prop where
  nodup : s.todo.Nodup
  sub : ∀ rem, s.d = .scanning rem → ∀ x, x ∈ rem → x ∈ s.todo
  rnodup : ∀ rem, s.d = .scanning rem → rem.Nodup

theorem scanInv_of_not_scanning (s : St) (hnd : s.todo.Nodup) (h : ∀ rem, s.d ≠ .scanning rem) : ScanInv s :=
  ⟨hnd, fun rem hd => absurd hd (h rem), fun rem hd => absurd hd (h rem)⟩

theorem scanInv_init : ScanInv {} := scanInv_of_not_scanning _ (by simp) (by intro rem h; cases h)

theorem scanInv_step (s s' : St) (e : Ev) (hi : ScanInv s) (h : accept s e = some s') : ScanInv s' := by
  obtain ⟨hnd, hsub, hrn⟩ := hi
  cases e with
  | iLink n =>
    simp only [accept] at h
    split at h
    · rename_i hg; cases h
      exact ⟨List.nodup_cons.2 ⟨hg.2, hnd⟩, fun rem hd x hx => List.mem_cons_of_mem _ (hsub rem hd x hx), hrn⟩
    · cases h
  | iOpen n ok =>
    simp only [accept] at h
    split at h
    · cases h; cases ok <;> exact ⟨hnd, hsub, hrn⟩
    · cases h
  | iWrite n ok =>
    simp only [accept] at h
    split at h
    · cases h; exact ⟨hnd, hsub, hrn⟩
    · cases h
  | iClose n =>
    simp only [accept] at h
    split at h
    · cases h; exact ⟨hnd, hsub, hrn⟩
    · cases h
  | dClose =>
    simp only [accept] at h
    split at h
    · split at h
      · cases h; exact scanInv_of_not_scanning _ hnd (by intro rem hd; cases hd)
      · cases h
    · split at h
      · cases h; exact scanInv_of_not_scanning _ hnd (by intro rem hd; cases hd)
      · cases h
    · cases h
  | dOpen =>
    simp only [accept] at h
    split at h
    · cases h; exact scanInv_of_not_scanning _ hnd (by intro rem hd; cases hd)
    · cases h
  | dOpendir =>
    simp only [accept] at h
    split at h
    · cases h
      exact ⟨hnd, (by intro rem hd x hx; cases hd; exact hx), (by intro rem hd; cases hd; exact hnd)⟩
    · cases h
  | dSeeNew n =>
    simp only [accept] at h
    split at h
    · rename_i rem hd
      split at h
      · rename_i hg; cases h
        refine ⟨hnd, ?_, ?_⟩
        · intro r hr x hx; cases hr
          rcases List.mem_cons.1 hx with rfl | hx'
          · exact hg.1
          · exact hsub rem hd x hx'
        · intro r hr; cases hr
          exact List.nodup_cons.2 ⟨hg.2, hrn rem hd⟩
      · cases h
    · cases h
  | dRead n =>
    simp only [accept] at h
    split at h
    · rename_i rem hd
      split at h
      · cases h
        refine ⟨hnd.erase n, ?_, ?_⟩
        · intro r hr x hx; cases hr
          have hx' := (List.Nodup.mem_erase_iff (hrn rem hd)).1 hx
          exact (List.mem_erase_of_ne hx'.1).2 (hsub rem hd x hx'.2)
        · intro r hr; cases hr
          exact (hrn rem hd).erase n
      · cases h
    · cases h
  | dEnd =>
    simp only [accept] at h
    split at h
    · split at h
      · cases h; exact scanInv_of_not_scanning _ hnd (by intro rem hd; cases hd)
      · cases h
    · cases h

theorem scanInv_acceptAll (evs : List Ev) : ∀ (s0 s1 : St), ScanInv s0 → acceptAll s0 evs = some s1 → ScanInv s1 := by
  induction evs with
  | nil => intro s0 s1 h0 ha; simp [acceptAll] at ha; subst ha; exact h0
  | cons e es ih =>
    intro s0 s1 h0 ha
    simp only [acceptAll] at ha
    cases h1 : accept s0 e with
    | none => simp [h1] at ha
    | some s2 => simp [h1] at ha; exact ih s2 s1 (scanInv_step s0 s2 e h0 h1) ha

/-! ### what a daemon step leaves alone -/

/-- a step of the daemon never adds to todo/ and never moves an injector -/
theorem daemon_step_frame (boot : Bool) (s s' : St) (e : Ev) (hd : dAllowed boot s e = true)
    (h : accept s e = some s') : (∀ x, x ∈ s'.todo → x ∈ s.todo) ∧ s'.pc = s.pc := by
  cases e with
  | iLink n => simp [dAllowed] at hd
  | iOpen n ok => simp [dAllowed] at hd
  | iWrite n ok => simp [dAllowed] at hd
  | iClose n => simp [dAllowed] at hd
  | dClose =>
    simp only [accept] at h
    split at h
    · split at h
      · cases h; exact ⟨fun _ hx => hx, rfl⟩
      · cases h
    · split at h
      · cases h; exact ⟨fun _ hx => hx, rfl⟩
      · cases h
    · cases h
  | dOpen =>
    simp only [accept] at h
    split at h
    · cases h; exact ⟨fun _ hx => hx, rfl⟩
    · cases h
  | dOpendir =>
    simp only [accept] at h
    split at h
    · cases h; exact ⟨fun _ hx => hx, rfl⟩
    · cases h
  | dSeeNew n =>
    simp only [accept] at h
    split at h
    · split at h
      · cases h; exact ⟨fun _ hx => hx, rfl⟩
      · cases h
    · cases h
  | dRead n =>
    simp only [accept] at h
    split at h
    · split at h
      · cases h; exact ⟨fun _ hx => List.mem_of_mem_erase hx, rfl⟩
      · cases h
    · cases h
  | dEnd =>
    simp only [accept] at h
    split at h
    · split at h
      · cases h; exact ⟨fun _ hx => hx, rfl⟩
      · cases h
    · cases h

theorem drun_frame (evs : List Ev) : ∀ (boot : Bool) (s s' : St), drun boot s evs = some s' →
    (∀ x, x ∈ s'.todo → x ∈ s.todo) ∧ s'.pc = s.pc := by
  induction evs with
  | nil => intro boot s s' h; simp [drun] at h; subst h; exact ⟨fun _ hx => hx, rfl⟩
  | cons e es ih =>
    intro boot s s' h
    simp only [drun] at h
    split at h
    · rename_i hd
      cases h1 : accept s e with
      | none => simp [h1] at h
      | some s1 =>
        simp only [h1] at h
        have f1 := daemon_step_frame boot s s1 e hd h1
        have f2 := ih _ s1 s' h
        exact ⟨fun x hx => f1.1 x (f2.1 x hx), by rw [f2.2, f1.2]⟩
    · cases h

/-! ### counting lemmas for the measure -/

theorem filter_length_mono (p q : Nat → Bool) (l : List Nat) (h : ∀ x, x ∈ l → p x = true → q x = true) :
    (l.filter p).length ≤ (l.filter q).length := by
  induction l with
  | nil => simp
  | cons a l ih =>
    have ih' := ih (fun x hx => h x (List.mem_cons_of_mem _ hx))
    have ha := h a List.mem_cons_self
    simp only [List.filter_cons]
    cases hp : p a <;> cases hq : q a <;> simp_all <;> omega

theorem filter_length_lt (p q : Nat → Bool) (l : List Nat) (h : ∀ x, x ∈ l → p x = true → q x = true)
    (m : Nat) (hm : m ∈ l) (hq : q m = true) (hp : p m = false) :
    (l.filter p).length < (l.filter q).length := by
  induction l with
  | nil => cases hm
  | cons a l ih =>
    have hmono := filter_length_mono p q l (fun x hx => h x (List.mem_cons_of_mem _ hx))
    have ha := h a List.mem_cons_self
    simp only [List.filter_cons]
    rcases List.mem_cons.1 hm with rfl | hm'
    · simp [hp, hq]; omega
    · have ih' := ih (fun x hx => h x (List.mem_cons_of_mem _ hx)) hm'
      cases hpa : p a <;> cases hqa : q a <;> simp_all <;> omega

theorem filter_self_contains (l : List Nat) : (l.filter (fun x => !l.contains x)).length = 0 := by
  rw [List.length_eq_zero_iff, List.filter_eq_nil_iff]
  intro a ha; simp [ha]

theorem filter_nil_contains (l : List Nat) : (l.filter (fun x => !([] : List Nat).contains x)) = l := by
  simp

/-! ### the measure decreases -/

theorem phi_pos (boot : Bool) (s : St) (n : Nat) (hn : n ∈ s.todo) : 0 < phi boot s n := by
  have : 0 < s.todo.length := List.length_pos_of_mem hn
  unfold phi
  split <;> omega

theorem phi_le (boot : Bool) (s : St) (n : Nat) : phi boot s n ≤ 2 * s.todo.length + 3 := by
  cases hd : s.d with
  | idle => simp only [phi, hd]; omega
  | closed => simp only [phi, hd]; split <;> omega
  | reopened => simp only [phi, hd]; split <;> omega
  | scanning rem =>
    simp only [phi, hd]
    have := List.length_filter_le (fun x => !rem.contains x) s.todo
    split <;> omega

theorem filter_true_length (l : List Nat) : (l.filter (fun _ => true)).length = l.length := by
  induction l <;> simp_all

theorem phi_step (boot : Bool) (s s' : St) (e : Ev) (n : Nat) (hi : ScanInv s) (hn : n ∈ s.todo)
    (hd : dAllowed boot s e = true) (h : accept s e = some s') (hn' : n ∈ s'.todo) :
    phi (bootAfter boot e) s' n < phi boot s n := by
  have hT : 0 < s.todo.length := List.length_pos_of_mem hn
  cases e with
  | iLink n => simp [dAllowed] at hd
  | iOpen n ok => simp [dAllowed] at hd
  | iWrite n ok => simp [dAllowed] at hd
  | iClose n => simp [dAllowed] at hd
  | dClose =>
    simp only [accept] at h
    split at h
    · rename_i hdd
      split at h
      · cases h; simp [phi, hdd, bootAfter]
      · cases h
    · rename_i hdd
      split at h
      · cases h
        have hb : boot = true := by simpa [dAllowed, hdd] using hd
        simp [phi, hdd, bootAfter, hb]
      · cases h
    · cases h
  | dOpen =>
    simp only [accept] at h
    split at h
    · rename_i hdd; cases h
      simp only [phi, hdd, bootAfter]
      cases boot <;> simp
    · cases h
  | dOpendir =>
    simp only [accept] at h
    split at h
    · rename_i hdd; cases h
      have hc : s.todo.contains n = true := by simpa using hn
      simp only [phi, hdd, bootAfter, hc, if_true, filter_self_contains]
      cases boot <;> simp <;> omega
    · cases h
  | dSeeNew m =>
    simp only [accept] at h
    split at h
    · rename_i rem hdd
      split at h
      · rename_i hg; cases h
        have hlt : (s.todo.filter (fun x => !(m :: rem).contains x)).length <
            (s.todo.filter (fun x => !rem.contains x)).length := by
          apply filter_length_lt _ _ _ _ m hg.1
          · simpa using hg.2
          · simp
          · intro x _ hx
            simp only [List.contains_cons, Bool.not_or, Bool.and_eq_true] at hx
            exact hx.2
        simp only [phi, hdd, bootAfter]
        by_cases hc : rem.contains n = true
        · have hc' : (m :: rem).contains n = true := by
            simp only [List.contains_cons, Bool.or_eq_true]; exact Or.inr hc
          simp only [hc, hc', if_true]; omega
        · simp only [hc, Bool.false_eq_true, if_false]
          split <;> omega
      · cases h
    · cases h
  | dRead m =>
    simp only [accept] at h
    split at h
    · rename_i rem hdd
      split at h
      · rename_i hg; cases h
        have hmt : m ∈ s.todo := hi.sub rem hdd m hg
        have hlen : (s.todo.erase m).length + 1 = s.todo.length := by
          rw [List.length_erase_of_mem hmt]; omega
        have hne : n ≠ m := by
          intro he; subst he
          exact (List.Nodup.not_mem_erase hi.nodup) hn'
        have hle : ((s.todo.erase m).filter (fun x => !(rem.erase m).contains x)).length ≤
            (s.todo.filter (fun x => !rem.contains x)).length := by
          refine Nat.le_trans (filter_length_mono _ (fun x => !rem.contains x) _ ?_) ?_
          · intro x hx hp
            have hxm : x ≠ m := by
              intro he; subst he
              exact (List.Nodup.not_mem_erase hi.nodup) hx
            simp only [Bool.not_eq_true', List.contains_eq_mem, decide_eq_false_iff_not] at hp ⊢
            intro hxr; exact hp ((List.mem_erase_of_ne hxm).2 hxr)
          · exact ((List.erase_sublist).filter _).length_le
        simp only [phi, hdd, bootAfter]
        by_cases hc : rem.contains n = true
        · have hc' : (rem.erase m).contains n = true := by
            simp only [List.contains_eq_mem, decide_eq_true_eq] at hc ⊢
            exact (List.mem_erase_of_ne hne).2 hc
          simp only [hc, hc', if_true]; omega
        · have hc' : ¬ (rem.erase m).contains n = true := by
            simp only [List.contains_eq_mem, decide_eq_true_eq] at hc ⊢
            exact fun hx => hc (List.mem_of_mem_erase hx)
          simp only [hc, hc', if_false]; omega
      · cases h
    · cases h
  | dEnd =>
    simp only [accept] at h
    split at h
    · rename_i rem hdd
      split at h
      · rename_i hr; cases h; subst hr
        have := filter_true_length s.todo
        simp [phi, hdd]; omega
      · cases h
    · cases h

/-- every run of the daemon on its own that has not yet processed `n` is shorter than the measure -/
theorem drun_short (n : Nat) (evs : List Ev) : ∀ (boot : Bool) (s s' : St), ScanInv s → n ∈ s.todo →
    drun boot s evs = some s' → n ∈ s'.todo → evs.length < phi boot s n := by
  induction evs with
  | nil => intro boot s s' _ hn _ _; exact phi_pos boot s n hn
  | cons e es ih =>
    intro boot s s' hi hn h hn'
    simp only [drun] at h
    split at h
    · rename_i hd
      cases h1 : accept s e with
      | none => simp [h1] at h
      | some s1 =>
        simp only [h1] at h
        have hn1 : n ∈ s1.todo := (drun_frame es _ s1 s' h).1 n hn'
        have := phi_step boot s s1 e n hi hn hd h1 hn1
        have := ih _ s1 s' (scanInv_step s s1 e hi h1) hn1 h hn'
        simp only [List.length_cons]; omega
    · cases h

end Nq.Trigger
