/-
  Line-level shape of what the outbound encoder transmits: CR LF-terminated, dot-stuffed,
  LF-free lines followed by exactly one lone-dot line.
-/
import Nq.SmtpOut
import Nq.Spec.Wire

namespace Nq.Lemmas
open Nq Nq.SmtpOut Nq.Wire

theorem splitGo_push (cur w : Bytes) (c : Byte) (h : c ≠ LF) :
    splitGo cur (c :: w) = splitGo (c :: cur) w := by
  simp [splitGo, h]

theorem splitGo_crlf (cur w : Bytes) :
    splitGo cur (CR :: LF :: w) = consLine cur.reverse (splitGo [] w) := by
  rw [splitGo_push cur _ CR (by decide)]
  simp [splitGo]

/-- a complete transmitted line that is acceptable before the terminator -/
def Good (l : Bytes) : Prop := stuffedLine l = true ∧ LF ∉ l

/-- a non-empty line prefix that stays `Good` however it is extended by non-LF bytes -/
def GoodPre : Bytes → Prop
  | [] => False
  | [c] => c ≠ DOT ∧ c ≠ LF
  | c :: d :: r => (c = DOT → d = DOT) ∧ LF ∉ c :: d :: r

theorem GoodPre.good : ∀ {p : Bytes}, GoodPre p → Good p
  | [], h => by simp [GoodPre] at h
  | [c], h => by
    obtain ⟨h1, h2⟩ := h
    simp [Good, stuffedLine, h1, Ne.symm h2]
  | c :: d :: r, h => by
    obtain ⟨h1, h2⟩ := h
    refine ⟨?_, h2⟩
    by_cases hc : c = DOT
    · simp [stuffedLine, hc, h1 hc]
    · simp [stuffedLine, hc]

theorem GoodPre.snoc : ∀ {p : Bytes} {c : Byte}, GoodPre p → c ≠ LF → GoodPre (p ++ [c])
  | [], _, h, _ => by simp [GoodPre] at h
  | [a], c, h, hc => by
    obtain ⟨h1, h2⟩ := h
    simp [GoodPre, h1, Ne.symm h2, Ne.symm hc]
  | a :: b :: r, c, h, hc => by
    obtain ⟨h1, h2⟩ := h
    simp only [List.cons_append, GoodPre]
    refine ⟨h1, ?_⟩
    simp only [List.mem_cons, List.mem_append, List.mem_nil_iff, or_false] at h2 ⊢
    rintro (h | h | h | h)
    · exact h2 (Or.inl h)
    · exact h2 (Or.inr (Or.inl h))
    · exact h2 (Or.inr (Or.inr h))
    · exact hc h.symm

theorem good_nil : Good [] := by simp [Good, stuffedLine]

/-- what the encoder state knows about the current (reversed) line -/
def RInv : RSt → Bytes → Prop
  | .top, cur => cur = []
  | .mid, cur => GoodPre cur.reverse
  | .cr, cur => cur = [] ∨ GoodPre cur.reverse

theorem RInv.good_line {es : RSt} {cur : Bytes} (h : RInv es cur) : Good cur.reverse := by
  cases es
  · simp [RInv] at h; subst h; exact good_nil
  · exact GoodPre.good h
  · rcases h with h | h
    · subst h; exact good_nil
    · exact GoodPre.good h

theorem wire_lines : ∀ (m : Bytes) (es : RSt) (cur e : Bytes), rrun es m = some e → RInv es cur →
    ∃ ls, splitGo cur e = (ls ++ [[DOT]], []) ∧ ∀ l ∈ ls, Good l := by
  intro m
  induction m with
  | nil =>
    intro es cur e hr hinv
    cases es
    · simp [rrun, rfinish] at hr; subst hr
      simp [RInv] at hinv; subst hinv
      refine ⟨[], ?_, by simp⟩
      rw [splitGo_push _ _ DOT (by decide), splitGo_crlf]
      simp [splitGo, consLine]
    · simp [rrun, rfinish] at hr
    · simp [rrun, rfinish] at hr; subst hr
      refine ⟨[cur.reverse], ?_, ?_⟩
      · rw [splitGo_crlf, splitGo_push _ _ DOT (by decide), splitGo_crlf]
        simp [splitGo, consLine]
      · intro l hl; simp at hl; subst hl; exact hinv.good_line
  | cons x m ih =>
    intro es cur e hr hinv
    simp only [rrun] at hr
    cases hr' : rrun (rstep es x).1 m with
    | none => simp [hr'] at hr
    | some e' =>
      simp [hr'] at hr
      subst hr
      by_cases h1 : x = LF
      · -- a line ends
        subst h1
        have hs : rstep es LF = (.top, [CR, LF]) := by cases es <;> simp [rstep]
        rw [hs] at hr' ⊢
        obtain ⟨ls, h1, h2⟩ := ih .top [] e' hr' (by simp [RInv])
        refine ⟨cur.reverse :: ls, ?_, ?_⟩
        · show splitGo cur (CR :: LF :: e') = _
          rw [splitGo_crlf, h1]; simp [consLine]
        · intro l hl
          rcases List.mem_cons.1 hl with rfl | hl
          · exact hinv.good_line
          · exact h2 l hl
      · by_cases h2 : x = CR
        · subst h2
          cases es
          · simp [rstep, CR, LF] at hr' ⊢
            exact ih .cr cur e' hr' (by simp [RInv] at hinv; simp [RInv, hinv])
          · simp [rstep, CR, LF] at hr' ⊢
            exact ih .cr cur e' hr' (Or.inr hinv)
          · simp [rstep, CR, LF, DOT] at hr' ⊢
            obtain ⟨ls, h1, h2⟩ := ih .mid [CR] e' hr' (by simp [RInv, GoodPre, CR, DOT, LF])
            refine ⟨cur.reverse :: ls, ?_, ?_⟩
            · show splitGo cur (CR :: LF :: CR :: e') = _
              rw [splitGo_crlf, splitGo_push _ _ CR (by decide), h1]; simp [consLine]
            · intro l hl
              rcases List.mem_cons.1 hl with rfl | hl
              · exact hinv.good_line
              · exact h2 l hl
        · by_cases h3 : x = DOT
          · subst h3
            cases es
            · simp [rstep, CR, LF, DOT] at hr' ⊢
              simp [RInv] at hinv; subst hinv
              obtain ⟨ls, h1, h2⟩ := ih .mid [DOT, DOT] e' hr' (by simp [RInv, GoodPre, DOT, LF])
              refine ⟨ls, ?_, h2⟩
              show splitGo [] (DOT :: DOT :: e') = _
              rw [splitGo_push _ _ DOT (by decide), splitGo_push _ _ DOT (by decide), h1]
            · simp [rstep, CR, LF, DOT] at hr' ⊢
              obtain ⟨ls, h1, h2⟩ := ih .mid (DOT :: cur) e' hr'
                (by simp only [RInv, List.reverse_cons]; exact GoodPre.snoc hinv (by decide))
              refine ⟨ls, ?_, h2⟩
              show splitGo cur (DOT :: e') = _
              rw [splitGo_push _ _ DOT (by decide), h1]
            · simp [rstep, CR, LF, DOT] at hr' ⊢
              obtain ⟨ls, h1, h2⟩ := ih .mid [DOT, DOT] e' hr' (by simp [RInv, GoodPre, DOT, LF])
              refine ⟨cur.reverse :: ls, ?_, ?_⟩
              · show splitGo cur (CR :: LF :: DOT :: DOT :: e') = _
                rw [splitGo_crlf, splitGo_push _ _ DOT (by decide), splitGo_push _ _ DOT (by decide), h1]
                simp [consLine]
              · intro l hl
                rcases List.mem_cons.1 hl with rfl | hl
                · exact hinv.good_line
                · exact h2 l hl
          · -- an ordinary byte
            cases es
            · simp [rstep, h1, h2, h3] at hr' ⊢
              simp [RInv] at hinv; subst hinv
              obtain ⟨ls, h1', h2'⟩ := ih .mid [x] e' hr' (by simp [RInv, GoodPre, h1, h3])
              refine ⟨ls, ?_, h2'⟩
              rw [splitGo_push _ _ x h1, h1']
            · simp [rstep, h1, h2, h3] at hr' ⊢
              obtain ⟨ls, h1', h2'⟩ := ih .mid (x :: cur) e' hr'
                (by simp only [RInv, List.reverse_cons]; exact GoodPre.snoc hinv h1)
              refine ⟨ls, ?_, h2'⟩
              rw [splitGo_push _ _ x h1, h1']
            · simp [rstep, h1, h2, h3] at hr' ⊢
              obtain ⟨ls, h1', h2'⟩ := ih .mid [x] e' hr' (by simp [RInv, GoodPre, h1, h3])
              refine ⟨cur.reverse :: ls, ?_, ?_⟩
              · show splitGo cur (CR :: LF :: x :: e') = _
                rw [splitGo_crlf, splitGo_push _ _ x h1, h1']; simp [consLine]
              · intro l hl
                rcases List.mem_cons.1 hl with rfl | hl
                · exact hinv.good_line
                · exact h2' l hl

/-- no bare LF is ever transmitted -/
theorem wire_nolf : ∀ (m : Bytes) (es : RSt) (prev : Byte) (e : Bytes), rrun es m = some e →
    noBareLFGo prev e = true := by
  intro m
  induction m with
  | nil =>
    intro es prev e hr
    cases es <;> simp [rrun, rfinish] at hr <;> subst hr <;> simp [noBareLFGo, CR, LF, DOT]
  | cons x m ih =>
    intro es prev e hr
    simp only [rrun] at hr
    cases hr' : rrun (rstep es x).1 m with
    | none => simp [hr'] at hr
    | some e' =>
      simp [hr'] at hr
      subst hr
      by_cases h1 : x = LF
      · subst h1
        have hs : rstep es LF = (.top, [CR, LF]) := by cases es <;> simp [rstep]
        rw [hs] at hr' ⊢
        simp [noBareLFGo, CR, LF, ih _ _ _ hr']
      · by_cases h2 : x = CR
        · subst h2
          cases es <;> simp [rstep, CR, LF, DOT] at hr' ⊢ <;>
            simp [noBareLFGo, CR, LF, ih _ _ _ hr']
        · by_cases h3 : x = DOT
          · subst h3
            cases es <;> simp [rstep, CR, LF, DOT] at hr' ⊢ <;>
              simp [noBareLFGo, CR, LF, DOT, ih _ _ _ hr']
          · cases es <;> simp [rstep, h1, h2, h3] at hr' ⊢ <;>
              simp [noBareLFGo, CR, LF, h1, ih _ _ _ hr']

end Nq.Lemmas
