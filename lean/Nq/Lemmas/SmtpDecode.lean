/-
  The five-state decoder of qmail-smtpd `blast()` equals the line-based reference decoder.
-/
import Nq.Lemmas.SmtpSim

namespace Nq.Lemmas
open Nq Nq.SmtpIn

/-- shape of `takeLine` on an input of at least two bytes -/
theorem takeLine_cons2 (c d : Byte) (rest2 : Bytes) :
    takeLine (c :: d :: rest2) =
      if c = CR ∧ d = LF then some ([], rest2)
      else match takeLine (d :: rest2) with
        | some (l, r) => some (c :: l, r)
        | none => none := by
  conv => lhs; unfold takeLine
  rfl

/-! one-step rewriting lemmas for `drun` -/
theorem drun_lf (s : DSt) (inp : Bytes) (h : s = .s0 ∨ s = .s1 ∨ s = .s2) :
    drun s (LF :: inp) = .stray := by
  rcases h with rfl | rfl | rfl <;> simp [drun, dstep]
theorem drun_s0_cr (inp : Bytes) : drun .s0 (CR :: inp) = drun .s4 inp := by
  simp [drun, dstep, CR, LF]
theorem drun_s1_cr (inp : Bytes) : drun .s1 (CR :: inp) = drun .s4 inp := by
  simp [drun, dstep, CR, LF, DOT]
theorem drun_s2_cr (inp : Bytes) : drun .s2 (CR :: inp) = drun .s3 inp := by
  simp [drun, dstep, CR, LF]
theorem drun_s1_dot (inp : Bytes) : drun .s1 (DOT :: inp) = drun .s2 inp := by
  simp [drun, dstep, CR, LF, DOT]
theorem drun_s0_o (c : Byte) (inp : Bytes) (h1 : c ≠ LF) (h2 : c ≠ CR) :
    drun .s0 (c :: inp) = emit [c] (drun .s0 inp) := by
  simp [drun, dstep, h1, h2]
theorem drun_s1_o (c : Byte) (inp : Bytes) (h1 : c ≠ LF) (h2 : c ≠ CR) (h3 : c ≠ DOT) :
    drun .s1 (c :: inp) = emit [c] (drun .s0 inp) := by
  simp [drun, dstep, h1, h2, h3]
theorem drun_s2_o (c : Byte) (inp : Bytes) (h1 : c ≠ LF) (h2 : c ≠ CR) :
    drun .s2 (c :: inp) = emit [c] (drun .s0 inp) := by
  simp [drun, dstep, h1, h2]
theorem drun_s4_lf (inp : Bytes) : drun .s4 (LF :: inp) = emit [LF] (drun .s1 inp) := by
  simp [drun, dstep]
theorem drun_s3_lf (inp : Bytes) : drun .s3 (LF :: inp) = .accepted [] inp := by
  simp [drun, dstep]
theorem drun_s4_cr (inp : Bytes) : drun .s4 (CR :: inp) = emit [CR] (drun .s4 inp) := by
  simp [drun, dstep, CR, LF]
theorem drun_s4_o (c : Byte) (inp : Bytes) (h1 : c ≠ LF) (h2 : c ≠ CR) :
    drun .s4 (c :: inp) = emit [CR, c] (drun .s0 inp) := by
  simp [drun, dstep, h1, h2]
theorem s3_eq_s4 (c : Byte) (inp : Bytes) (h : c ≠ LF) :
    drun .s3 (c :: inp) = drun .s4 (c :: inp) := by
  by_cases h2 : c = CR
  · subst h2; simp [drun, dstep, CR, LF]
  · simp [drun, dstep, h, h2]

theorem emit_ite (a : Bytes) (p : Prop) [Decidable p] (x : DRes) :
    emit a (if p then .stray else x) = if p then .stray else emit a x := by
  split <;> simp [emit]
theorem emit_ite' (a : Bytes) (p : Prop) [Decidable p] :
    emit a (if p then .stray else .incomplete) = if p then .stray else .incomplete := by
  split <;> simp [emit]

theorem mem_cons_ne {c : Byte} {l : Bytes} (h : c ≠ LF) : (LF ∈ c :: l) = (LF ∈ l) := by
  simp [List.mem_cons, Ne.symm h]

/-- mid-line states on an input whose first CR LF ends line `l` -/
theorem line_mid : ∀ (inp l rest : Bytes), takeLine inp = some (l, rest) →
    drun .s0 inp = (if LF ∈ l then .stray else emit (l ++ [LF]) (drun .s1 rest)) ∧
    (inp.head? ≠ some LF →
      drun .s4 inp = (if LF ∈ l then .stray else emit (CR :: l ++ [LF]) (drun .s1 rest)))
  | [], _, _, h => by simp [takeLine] at h
  | [_], _, _, h => by simp [takeLine] at h
  | c :: d :: rest2, l, rest, h => by
    rw [takeLine_cons2] at h
    by_cases hcr : c = CR ∧ d = LF
    · obtain ⟨rfl, rfl⟩ := hcr
      simp at h
      obtain ⟨rfl, rfl⟩ := h
      simp [drun_s0_cr, drun_s4_lf, drun_s4_cr]
    · simp only [hcr, if_false] at h
      cases h2 : takeLine (d :: rest2) with
      | none => simp [h2] at h
      | some p =>
        obtain ⟨l', r'⟩ := p
        simp [h2] at h
        obtain ⟨rfl, rfl⟩ := h
        have ih := line_mid (d :: rest2) l' r' h2
        by_cases h1 : c = LF
        · subst h1
          simp [drun_lf]
        · by_cases h3 : c = CR
          · subst h3
            have hd : d ≠ LF := by simpa using hcr
            have ih2 := ih.2 (by simp [hd])
            rw [drun_s0_cr, drun_s4_cr, ih2]
            simp only [mem_cons_ne h1, emit_ite]
            simp
          · rw [drun_s0_o c _ h1 h3, drun_s4_o c _ h1 h3, ih.1]
            simp only [mem_cons_ne h1, emit_ite, emit_ite]
            simp

theorem line_s2 : ∀ (inp l rest : Bytes), takeLine inp = some (l, rest) →
    drun .s2 inp = (if LF ∈ l then .stray else if l = [] then .accepted [] rest
                    else emit (l ++ [LF]) (drun .s1 rest))
  | [], _, _, h => by simp [takeLine] at h
  | [_], _, _, h => by simp [takeLine] at h
  | c :: d :: rest2, l, rest, h => by
    rw [takeLine_cons2] at h
    by_cases hcr : c = CR ∧ d = LF
    · obtain ⟨rfl, rfl⟩ := hcr
      simp at h
      obtain ⟨rfl, rfl⟩ := h
      simp [drun_s2_cr, drun_s3_lf]
    · simp only [hcr, if_false] at h
      cases h2 : takeLine (d :: rest2) with
      | none => simp [h2] at h
      | some p =>
        obtain ⟨l', r'⟩ := p
        simp [h2] at h
        obtain ⟨rfl, rfl⟩ := h
        have ih := line_mid (d :: rest2) l' r' h2
        by_cases h1 : c = LF
        · subst h1
          simp [drun_lf]
        · by_cases h3 : c = CR
          · subst h3
            have hd : d ≠ LF := by simpa using hcr
            have ih2 := ih.2 (by simp [hd])
            rw [drun_s2_cr, s3_eq_s4 d rest2 hd, ih2]
            simp only [mem_cons_ne h1]
            simp
          · rw [drun_s2_o c _ h1 h3, ih.1]
            simp only [mem_cons_ne h1, emit_ite]
            simp

theorem line_s1 : ∀ (inp l rest : Bytes), takeLine inp = some (l, rest) →
    drun .s1 inp = (if LF ∈ l then .stray else if l = [DOT] then .accepted [] rest
                    else emit (unstuff l ++ [LF]) (drun .s1 rest))
  | [], _, _, h => by simp [takeLine] at h
  | [_], _, _, h => by simp [takeLine] at h
  | c :: d :: rest2, l, rest, h => by
    rw [takeLine_cons2] at h
    by_cases hcr : c = CR ∧ d = LF
    · obtain ⟨rfl, rfl⟩ := hcr
      simp at h
      obtain ⟨rfl, rfl⟩ := h
      simp [drun_s1_cr, drun_s4_lf, unstuff]
    · simp only [hcr, if_false] at h
      cases h2 : takeLine (d :: rest2) with
      | none => simp [h2] at h
      | some p =>
        obtain ⟨l', r'⟩ := p
        simp [h2] at h
        obtain ⟨rfl, rfl⟩ := h
        have ih := line_mid (d :: rest2) l' r' h2
        by_cases h1 : c = LF
        · subst h1
          simp [drun_lf]
        · by_cases h3 : c = CR
          · subst h3
            have hd : d ≠ LF := by simpa using hcr
            have ih2 := ih.2 (by simp [hd])
            rw [drun_s1_cr, ih2]
            simp only [mem_cons_ne h1]
            simp [unstuff, CR, DOT]
          · by_cases h4 : c = DOT
            · subst h4
              rw [drun_s1_dot, line_s2 (d :: rest2) l' r' h2]
              simp only [mem_cons_ne h1]
              simp [unstuff]
            · rw [drun_s1_o c _ h1 h3 h4, ih.1]
              simp only [mem_cons_ne h1, emit_ite]
              simp [unstuff, h4]

/-- no CR LF in the remaining input -/
theorem noline_mid : ∀ (inp : Bytes), takeLine inp = none →
    drun .s0 inp = (if LF ∈ inp then .stray else .incomplete) ∧
    (inp.head? ≠ some LF → drun .s4 inp = (if LF ∈ inp then .stray else .incomplete))
  | [], _ => by simp [drun]
  | [c], _ => by
    by_cases h1 : c = LF
    · subst h1; simp [drun_lf]
    · by_cases h3 : c = CR
      · subst h3; rw [drun_s0_cr, drun_s4_cr]; simp [drun, emit, CR, LF]
      · rw [drun_s0_o c _ h1 h3, drun_s4_o c _ h1 h3]; simp [drun, emit, Ne.symm h1]
  | c :: d :: rest2, h => by
    rw [takeLine_cons2] at h
    by_cases hcr : c = CR ∧ d = LF
    · simp [hcr] at h
    · simp only [hcr, if_false] at h
      cases h2 : takeLine (d :: rest2) with
      | some p => simp [h2] at h
      | none =>
        have ih := noline_mid (d :: rest2) h2
        by_cases h1 : c = LF
        · subst h1
          simp [drun_lf]
        · by_cases h3 : c = CR
          · subst h3
            have hd : d ≠ LF := by simpa using hcr
            have ih2 := ih.2 (by simp [hd])
            rw [drun_s0_cr, drun_s4_cr, ih2]
            simp only [mem_cons_ne h1, emit_ite']
            simp
          · rw [drun_s0_o c _ h1 h3, drun_s4_o c _ h1 h3, ih.1]
            simp only [mem_cons_ne h1, emit_ite']
            simp

theorem noline_s2 : ∀ (inp : Bytes), takeLine inp = none →
    drun .s2 inp = (if LF ∈ inp then .stray else .incomplete)
  | [], _ => by simp [drun]
  | [c], _ => by
    by_cases h1 : c = LF
    · subst h1; simp [drun_lf]
    · by_cases h3 : c = CR
      · subst h3; rw [drun_s2_cr]; simp [drun, CR, LF]
      · rw [drun_s2_o c _ h1 h3]; simp [drun, emit, Ne.symm h1]
  | c :: d :: rest2, h => by
    rw [takeLine_cons2] at h
    by_cases hcr : c = CR ∧ d = LF
    · simp [hcr] at h
    · simp only [hcr, if_false] at h
      cases h2 : takeLine (d :: rest2) with
      | some p => simp [h2] at h
      | none =>
        have ih := noline_mid (d :: rest2) h2
        by_cases h1 : c = LF
        · subst h1
          simp [drun_lf]
        · by_cases h3 : c = CR
          · subst h3
            have hd : d ≠ LF := by simpa using hcr
            have ih2 := ih.2 (by simp [hd])
            rw [drun_s2_cr, s3_eq_s4 d rest2 hd, ih2]
            simp only [mem_cons_ne h1]
          · rw [drun_s2_o c _ h1 h3, ih.1]
            simp only [mem_cons_ne h1, emit_ite']

theorem noline_s1 : ∀ (inp : Bytes), takeLine inp = none →
    drun .s1 inp = (if LF ∈ inp then .stray else .incomplete)
  | [], _ => by simp [drun]
  | [c], _ => by
    by_cases h1 : c = LF
    · subst h1; simp [drun_lf]
    · by_cases h3 : c = CR
      · subst h3; rw [drun_s1_cr]; simp [drun, CR, LF]
      · by_cases h4 : c = DOT
        · subst h4; rw [drun_s1_dot]; simp [drun, DOT, LF]
        · rw [drun_s1_o c _ h1 h3 h4]; simp [drun, emit, Ne.symm h1]
  | c :: d :: rest2, h => by
    rw [takeLine_cons2] at h
    by_cases hcr : c = CR ∧ d = LF
    · simp [hcr] at h
    · simp only [hcr, if_false] at h
      cases h2 : takeLine (d :: rest2) with
      | some p => simp [h2] at h
      | none =>
        have ih := noline_mid (d :: rest2) h2
        by_cases h1 : c = LF
        · subst h1
          simp [drun_lf]
        · by_cases h3 : c = CR
          · subst h3
            have hd : d ≠ LF := by simpa using hcr
            have ih2 := ih.2 (by simp [hd])
            rw [drun_s1_cr, ih2]
            simp only [mem_cons_ne h1]
          · by_cases h4 : c = DOT
            · subst h4
              rw [drun_s1_dot, noline_s2 (d :: rest2) h2]
              simp only [mem_cons_ne h1]
            · rw [drun_s1_o c _ h1 h3 h4, ih.1]
              simp only [mem_cons_ne h1, emit_ite']

/-- the automaton is the reference decoder -/
theorem dblast_eq_rfcDecode (inp : Bytes) : dblast inp = rfcDecode inp := by
  unfold dblast
  generalize hn : inp.length = n
  induction n using Nat.strongRecOn generalizing inp with
  | ind n ih =>
    rw [rfcDecode]
    split
    · rename_i h; exact noline_s1 inp h
    · rename_i l rest h
      rw [line_s1 inp l rest h]
      have := takeLine_length inp l rest h
      rw [ih rest.length (by omega) rest rfl]

end Nq.Lemmas
