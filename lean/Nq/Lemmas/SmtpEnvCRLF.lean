/- where an adjacent CR LF can occur in a mangled address (helper lemmas for `C06_envelope_crlf`) -/
import Nq.Lemmas.SmtpEnv
namespace Nq.Lemmas
open Nq Nq.SmtpEnv

theorem hasCRLF_append (x y : Bytes) :
    hasCRLF (x ++ y) = (hasCRLF x || hasCRLF y || (x.getLast? == some CR && y.head? == some LF)) := by
  induction x with
  | nil => cases y <;> simp [hasCRLF]
  | cons c x ih =>
    cases x with
    | nil =>
      cases y with
      | nil => simp [hasCRLF]
      | cons d y => simp [hasCRLF]; cases hasCRLF (d :: y) <;> simp
    | cons d x =>
      simp only [List.cons_append, hasCRLF] at ih ⊢
      rw [ih]
      simp [List.getLast?_cons_cons, Bool.or_assoc]

theorem hasCRLF_of_no_cr {b : Bytes} (h : CR ∉ b) : hasCRLF b = false := by
  induction b with
  | nil => rfl
  | cons c b ih =>
    cases b with
    | nil => rfl
    | cons d b =>
      have hc : c ≠ CR := fun e => h (by simp [e])
      have hb : CR ∉ d :: b := fun e => h (List.mem_cons_of_mem _ e)
      simp [hasCRLF, ih hb, hc]

theorem head_escape (m : Bytes) : (escape m).head? ≠ some LF := by
  cases m with
  | nil => simp [escape]
  | cons c m =>
    by_cases hc : c = CR ∨ c = LF ∨ c = DQ ∨ c = BSL
    · simp only [escape]; rw [if_pos hc]; simp [BSL, LF]
    · have : c ≠ LF := fun e => hc (Or.inr (Or.inl e))
      simp only [escape]; rw [if_neg hc]; simp [this]

theorem hasCRLF_escape (m : Bytes) : hasCRLF (escape m) = false := by
  induction m with
  | nil => rfl
  | cons c m ih =>
    have hh := head_escape m
    have hf : ((escape m).head? == some LF) = false := by simpa using hh
    simp only [escape]
    rw [hasCRLF_append, ih, hf]
    by_cases hc : c = CR ∨ c = LF ∨ c = DQ ∨ c = BSL
    · rw [if_pos hc]; simp [hasCRLF, BSL, CR]
    · rw [if_neg hc]; simp [hasCRLF]

theorem okByte_cr : okByte CR = false := by decide

theorem hasCRLF_quote_append (b t : Bytes) (ht : t.head? ≠ some LF) :
    hasCRLF (quote b ++ t) = hasCRLF t := by
  have ht' : (t.head? == some LF) = false := by simpa using ht
  unfold quote
  by_cases hq : quoteNeed b = true
  · simp only [hq, if_true]
    have e : DQ :: (escape b ++ [DQ]) ++ t = [DQ] ++ (escape b ++ ([DQ] ++ t)) := by simp
    rw [e, hasCRLF_append, hasCRLF_append, hasCRLF_append, hasCRLF_escape]
    simp [hasCRLF, ht', DQ, CR, LF]
  · rw [if_neg hq]
    have hall : b.all okByte = true := by
      simp only [quoteNeed, Bool.or_eq_true, not_or, Bool.not_eq_true', Bool.not_eq_false] at hq
      simpa using hq.1.1.1.2
    have hcr : CR ∉ b := by
      intro hm
      have := List.all_eq_true.mp hall CR hm
      rw [okByte_cr] at this
      cases this
    rw [hasCRLF_append, hasCRLF_of_no_cr hcr, ht']
    simp

/-- where an RFC 5321 peer would see a line end inside the mangled address -/
theorem hasCRLF_mangle (a : Bytes) :
    hasCRLF (mangle a) = (match lastAt a with | none => hasCRLF a | some (_, h) => hasCRLF h) := by
  unfold mangle
  cases e : lastAt a with
  | none => rfl
  | some p =>
    obtain ⟨b, h⟩ := p
    simp only
    rw [hasCRLF_quote_append b (AT :: h) (by simp [AT, LF])]
    cases h with
    | nil => rfl
    | cons d h => simp [hasCRLF, AT, CR]

end Nq.Lemmas
