/-
  C17 lemmas: the tokenizer on an arbitrary legal rendering of a token list (atoms, quoted strings and
  domain literals with quoted-pairs, nested comments, white space / folds between tokens).
-/
import Nq.Lemmas.C17Quote
import Nq.Spec.Lex822

namespace Nq.Lemmas.C17
set_option maxRecDepth 20000
open Nq Nq.Token822 Nq.Spec.Lex822

/-! ### the tokenizer as a transducer: state and tokens after a prefix -/

def plex : PSt → Bytes → PSt × List Tok
  | s, [] => (s, [])
  | s, c :: r => ((plex (pstep s c).1 r).1, (pstep s c).2 ++ (plex (pstep s c).1 r).2)

theorem plex_nil (s : PSt) : plex s [] = (s, []) := rfl

theorem plex_cons (s : PSt) (c : Byte) (r : Bytes) :
    plex s (c :: r) = ((plex (pstep s c).1 r).1, (pstep s c).2 ++ (plex (pstep s c).1 r).2) := rfl

theorem plex_append (s : PSt) (a b : Bytes) :
    plex s (a ++ b) = ((plex (plex s a).1 b).1, (plex s a).2 ++ (plex (plex s a).1 b).2) := by
  induction a generalizing s with
  | nil => simp [plex]
  | cons c a ih => simp [plex, ih, List.append_assoc]

theorem prun_plex (s : PSt) (a b : Bytes) :
    prun s (a ++ b) = match prun (plex s a).1 b with
      | some ts => some ((plex s a).2 ++ ts)
      | none => none := by
  induction a generalizing s with
  | nil => simp [plex]; cases prun s b <;> rfl
  | cons c a ih =>
    rw [List.cons_append, prun_cons, ih, plex_cons]
    cases prun (plex (pstep s c).1 a).1 b <;> simp

/-- the token still being collected at a token boundary -/
def flushSt : PSt → List Tok
  | .atom acc false => [atomTok acc]
  | _ => []

/-- at a token boundary: top level, or inside an atom (no pending backslash) -/
def Boundary (s : PSt) : Prop := s = .top ∨ ∃ acc, s = .atom acc false

/-! ### table facts (decided over the 256 bytes / the generated tables) -/

def atomByteFacts (c : Byte) : Bool :=
  !atomByte c ||
    ((specialTok c).isNone && !isWs c && c != RPAR && c != RBRK && c != LPAR && c != DQ && c != LBRK
      && c != BSL && atomok c && !atomBad c)

theorem atomByteFacts_all : ∀ c, atomByteFacts c = true := forall_byte atomByteFacts (by decide)

theorem atomByte_facts {c : Byte} (h : atomByte c = true) :
    specialTok c = none ∧ isWs c = false ∧ c ≠ RPAR ∧ c ≠ RBRK ∧ c ≠ LPAR ∧ c ≠ DQ ∧ c ≠ LBRK ∧
    c ≠ BSL ∧ atomok c = true ∧ atomBad c = false := by
  have := atomByteFacts_all c
  simp only [atomByteFacts, h, Bool.not_true, Bool.false_or] at this
  simp only [Bool.and_eq_true, Option.isNone_iff_eq_none, Bool.not_eq_true', bne_iff_ne, ne_eq] at this
  obtain ⟨⟨⟨⟨⟨⟨⟨⟨⟨h1, h2⟩, h3⟩, h4⟩, h5⟩, h6⟩, h7⟩, h8⟩, h9⟩, h10⟩ := this
  exact ⟨h1, h2, h3, h4, h5, h6, h7, h8, h9, h10⟩

/-- the opening delimiters end an atom -/
theorem delim_not_atomok : atomok DQ = false ∧ atomok LBRK = false ∧ atomok LPAR = false := by decide

/-- a single-character token: what the outer switch does with it -/
theorem stepTop_special {c : Byte} {t : Tok} (h : specialTok c = some t) : stepTop c = (.top, [t]) := by
  simp [stepTop, h]

theorem special_atomok_false {c : Byte} (h : (specialTok c).isSome = true) : atomok c = false := by
  have := special_not_atomok c
  simpa [h] using this

theorem ws_atomok_false {c : Byte} (h : isWs c = true) : atomok c = false := by
  have := ws_facts c
  simp only [h, Bool.not_true, Bool.false_or, Bool.and_eq_true, Bool.not_eq_true'] at this
  exact this.2

theorem stepTop_ws {c : Byte} (h : isWs c = true) : stepTop c = (.top, []) := by
  have := ws_facts c
  simp only [h, Bool.not_true, Bool.false_or, Bool.and_eq_true, Option.isNone_iff_eq_none] at this
  simp [stepTop, this.1, h]

theorem stepTop_lpar : stepTop LPAR = (.comment 0 [] false, []) := by decide

/-- `token822_unparse` puts a backslash before each of the five delimiters the tokenizer looks for -/
theorem unparseEsc_delims :
    Gen.unparseEsc.contains DQ = true ∧ Gen.unparseEsc.contains BSL = true ∧ Gen.unparseEsc.contains RBRK = true ∧
    Gen.unparseEsc.contains LPAR = true ∧ Gen.unparseEsc.contains RPAR = true := by decide

theorem special_canon :
    specialTok 60 = some .left ∧ specialTok 62 = some .right ∧ specialTok 64 = some .at ∧ specialTok 44 = some .comma ∧
    specialTok 59 = some .semi ∧ specialTok 58 = some .colon ∧ specialTok 46 = some .dot := by decide

/-! ### one token -/

/-- white space at top level -/
theorem plex_ws (ws : Bytes) (h : ws.all isWs = true) : plex .top ws = (.top, []) := by
  induction ws with
  | nil => rfl
  | cons c ws ih =>
    simp only [List.all_cons, Bool.and_eq_true] at h
    rw [plex_cons]
    simp only [pstep, stepTop_ws h.1, ih h.2, List.append_nil]

/-- a byte that ends an atom, read at a token boundary: the pending atom is emitted, then the byte is
read at top level -/
theorem plex_boundary {s : PSt} (hs : Boundary s) {c : Byte} (hc : atomok c = false) (r : Bytes) :
    plex s (c :: r) = ((plex .top (c :: r)).1, flushSt s ++ (plex .top (c :: r)).2) := by
  rcases hs with rfl | ⟨acc, rfl⟩
  · simp [flushSt]
  · rw [plex_cons, pstep_atom_stop acc hc, plex_cons]
    simp [pstep, flushSt]

/-- inside an atom -/
theorem plex_atom (s : Bytes) (h : s.all atomByte = true) (acc : Bytes) :
    plex (.atom acc false) s = (.atom (acc ++ s) false, []) := by
  induction s generalizing acc with
  | nil => simp [plex]
  | cons c s ih =>
    simp only [List.all_cons, Bool.and_eq_true] at h
    obtain ⟨_, _, _, _, _, _, _, h8, h9, _⟩ := atomByte_facts h.1
    rw [plex_cons]
    have : pstep (.atom acc false) c = (.atom (acc ++ [c]) false, []) := by simp [pstep, h8, h9]
    rw [this]
    simp [ih h.2]

theorem stepTop_atomByte {c : Byte} (h : atomByte c = true) : stepTop c = (.atom [c] false, []) := by
  obtain ⟨h1, h2, h3, h4, h5, h6, h7, h8, _, _⟩ := atomByte_facts h
  simp [stepTop, h1, h2, h3, h4, h5, h6, h7, h8]

theorem atomTok_atomByte (s : Bytes) (h : s.all atomByte = true) : atomTok s = .atom s := by
  have : s.any atomBad = false := by
    rw [List.any_eq_false]
    intro c hc
    have := (atomByte_facts (List.all_eq_true.mp h c hc)).2.2.2.2.2.2.2.2.2
    simp [this]
  simp [atomTok, this]

/-- body of a quoted string, any mixture of plain bytes and quoted-pairs -/
theorem plex_quote (ps : List (Byte × Bool)) (h : ps.all (fun p => p.2 || (p.1 != DQ && p.1 != BSL)) = true) (acc : Bytes) :
    plex (.quote acc false) (encQP ps ++ [DQ]) = (.top, [.quote (acc ++ ps.map (·.1))]) := by
  induction ps generalizing acc with
  | nil => simp [encQP, plex, pstep]
  | cons p ps ih =>
    obtain ⟨c, e⟩ := p
    simp only [List.all_cons, Bool.and_eq_true] at h
    cases e with
    | true =>
      simp only [encQP, List.cons_append]
      rw [plex_cons]
      have h1 : pstep (.quote acc false) BSL = (.quote acc true, []) := by simp [pstep, DQ, BSL]
      rw [h1, plex_cons]
      have h2 : pstep (.quote acc true) c = (.quote (acc ++ [c]) false, []) := by simp [pstep]
      rw [h2, ih h.2]
      simp
    | false =>
      have hc := h.1
      simp only [Bool.false_or, Bool.and_eq_true, bne_iff_ne, ne_eq] at hc
      simp only [encQP, List.cons_append]
      rw [plex_cons]
      have h1 : pstep (.quote acc false) c = (.quote (acc ++ [c]) false, []) := by simp [pstep, hc.1, hc.2]
      rw [h1, ih h.2]
      simp

theorem plex_lit (ps : List (Byte × Bool)) (h : ps.all (fun p => p.2 || (p.1 != RBRK && p.1 != BSL)) = true) (acc : Bytes) :
    plex (.lit acc false) (encQP ps ++ [RBRK]) = (.top, [.literal (acc ++ ps.map (·.1))]) := by
  induction ps generalizing acc with
  | nil => simp [encQP, plex, pstep]
  | cons p ps ih =>
    obtain ⟨c, e⟩ := p
    simp only [List.all_cons, Bool.and_eq_true] at h
    cases e with
    | true =>
      simp only [encQP, List.cons_append]
      rw [plex_cons]
      have h1 : pstep (.lit acc false) BSL = (.lit acc true, []) := by simp [pstep, RBRK, BSL]
      rw [h1, plex_cons]
      have h2 : pstep (.lit acc true) c = (.lit (acc ++ [c]) false, []) := by simp [pstep]
      rw [h2, ih h.2]
      simp
    | false =>
      have hc := h.1
      simp only [Bool.false_or, Bool.and_eq_true, bne_iff_ne, ne_eq] at hc
      simp only [encQP, List.cons_append]
      rw [plex_cons]
      have h1 : pstep (.lit acc false) c = (.lit (acc ++ [c]) false, []) := by simp [pstep, hc.1, hc.2]
      rw [h1, ih h.2]
      simp

/-- body of a comment with balanced inner parentheses, from nesting level `l` down to the closing one -/
theorem plex_comment (els : List CEl) (h : els.all plainOkC = true) :
    ∀ (l : Nat) (acc : Bytes), balC l els = some 0 →
      plex (.comment l acc false) (encC els ++ [RPAR]) = (.top, [.comment (acc ++ contentC els)]) := by
  induction els with
  | nil =>
    intro l acc hb
    simp only [balC, Option.some.injEq] at hb
    subst hb
    simp [encC, contentC, plex, pstep, LPAR, RPAR]
  | cons el els ih =>
    intro l acc hb
    simp only [List.all_cons, Bool.and_eq_true] at h
    cases el with
    | ch c e =>
      simp only [balC] at hb
      cases e with
      | true =>
        simp only [encC, contentC, List.cons_append]
        rw [plex_cons]
        have h1 : pstep (.comment l acc false) BSL = (.comment l acc true, []) := by simp [pstep, LPAR, RPAR, BSL]
        rw [h1, plex_cons]
        have h2 : pstep (.comment l acc true) c = (.comment l (acc ++ [c]) false, []) := by simp [pstep]
        rw [h2, ih h.2 l _ hb]
        simp
      | false =>
        have hc := h.1
        simp only [plainOkC, Bool.and_eq_true, bne_iff_ne, ne_eq] at hc
        simp only [encC, contentC, List.cons_append]
        rw [plex_cons]
        have h1 : pstep (.comment l acc false) c = (.comment l (acc ++ [c]) false, []) := by
          simp [pstep, hc.1.1, hc.1.2, hc.2]
        rw [h1, ih h.2 l _ hb]
        simp
    | op =>
      simp only [balC] at hb
      simp only [encC, contentC, List.cons_append]
      rw [plex_cons]
      have h1 : pstep (.comment l acc false) LPAR = (.comment (l + 1) acc false, []) := by simp [pstep]
      rw [h1, ih h.2 (l + 1) _ hb]
      simp
    | cl =>
      cases l with
      | zero => simp [balC] at hb
      | succ l =>
        simp only [balC] at hb
        simp only [encC, contentC, List.cons_append]
        rw [plex_cons]
        have h1 : pstep (.comment (l + 1) acc false) RPAR = (.comment l acc false, []) := by simp [pstep, LPAR, RPAR]
        rw [h1, ih h.2 l _ hb]
        simp

/-- state after a token's text read from top level, and what has been emitted by then -/
def endSt : CTok → PSt
  | .atom s => .atom s false
  | _ => .top

def emitted : CTok → List Tok
  | .atom _ => []
  | k => [k.tok]

theorem plex_text (k : CTok) (hk : k.ok = true) : plex .top k.text = (endSt k, emitted k) := by
  cases k with
  | special c =>
    simp only [CTok.ok] at hk
    obtain ⟨t, ht⟩ := Option.isSome_iff_exists.mp hk
    simp [CTok.text, plex, pstep, stepTop_special ht, endSt, emitted, CTok.tok, ht]
  | atom s =>
    simp only [CTok.ok, Bool.and_eq_true, Bool.not_eq_true', List.isEmpty_eq_false_iff] at hk
    obtain ⟨hne, hall⟩ := hk
    cases s with
    | nil => exact absurd rfl hne
    | cons c s =>
      simp only [List.all_cons, Bool.and_eq_true] at hall
      simp only [CTok.text]
      rw [plex_cons]
      simp only [pstep, stepTop_atomByte hall.1, plex_atom s hall.2 [c]]
      simp [endSt, emitted]
  | quote ps =>
    simp only [CTok.ok] at hk
    simp only [CTok.text]
    rw [plex_cons]
    simp only [pstep, stepTop_dq, plex_quote ps hk []]
    simp [endSt, emitted, CTok.tok]
  | literal ps =>
    simp only [CTok.ok] at hk
    simp only [CTok.text]
    rw [plex_cons]
    simp only [pstep, stepTop_lbrk, plex_lit ps hk []]
    simp [endSt, emitted, CTok.tok]
  | comment els =>
    simp only [CTok.ok, Bool.and_eq_true, beq_iff_eq] at hk
    simp only [CTok.text]
    rw [plex_cons]
    simp only [pstep, stepTop_lpar, plex_comment els hk.1 0 [] hk.2]
    simp [endSt, emitted, CTok.tok]

theorem endSt_boundary (k : CTok) : Boundary (endSt k) := by
  cases k <;> simp [endSt, Boundary]

/-- the token is complete once the next boundary is crossed -/
theorem emitted_flush (k : CTok) (hk : k.ok = true) : emitted k ++ flushSt (endSt k) = [k.tok] := by
  cases k with
  | atom s =>
    simp only [CTok.ok, Bool.and_eq_true] at hk
    simp [emitted, endSt, flushSt, CTok.tok, atomTok_atomByte s hk.2]
  | _ => simp [emitted, endSt, flushSt]

/-- the first byte of a token's text ends an atom, unless the token is an atom -/
theorem text_head (k : CTok) (hk : k.ok = true) (hna : k.isAtom = false) :
    ∃ c r, k.text = c :: r ∧ atomok c = false := by
  cases k with
  | special c => exact ⟨c, [], rfl, special_atomok_false hk⟩
  | atom s => simp [CTok.isAtom] at hna
  | quote ps => exact ⟨DQ, _, rfl, delim_not_atomok.1⟩
  | literal ps => exact ⟨LBRK, _, rfl, delim_not_atomok.2.1⟩
  | comment els => exact ⟨LPAR, _, rfl, delim_not_atomok.2.2⟩

/-- **one separator and one token, from a token boundary**: unless an atom directly follows an atom, the
pending atom (if any) is emitted, the separator vanishes, and the token is read as from top level -/
theorem plex_item {s : PSt} (hs : Boundary s) (ws : Bytes) (k : CTok) (hws : ws.all isWs = true) (hk : k.ok = true)
    (hsep : ¬ (s ≠ .top ∧ k.isAtom = true ∧ ws = [])) :
    plex s (ws ++ k.text) = (endSt k, flushSt s ++ emitted k) := by
  have htop : plex .top (ws ++ k.text) = (endSt k, emitted k) := by
    rw [plex_append, plex_ws ws hws, plex_text k hk]; simp
  by_cases hstop : s = .top
  · subst hstop; simp [htop, flushSt]
  · -- the first byte of ws ++ text ends the pending atom
    have hhead : ∃ c r, ws ++ k.text = c :: r ∧ atomok c = false := by
      cases ws with
      | nil =>
        have hna : k.isAtom = false := by
          cases hka : k.isAtom with
          | false => rfl
          | true => exact absurd ⟨hstop, hka, rfl⟩ hsep
        simpa using text_head k hk hna
      | cons c ws =>
        simp only [List.all_cons, Bool.and_eq_true] at hws
        exact ⟨c, ws ++ k.text, rfl, ws_atomok_false hws.1⟩
    obtain ⟨c, r, hcr, hc⟩ := hhead
    rw [hcr, plex_boundary hs hc r, ← hcr, htop]

/-- end of input at a token boundary after trailing white space -/
theorem prun_trailing {s : PSt} (hs : Boundary s) (tr : Bytes) (h : tr.all isWs = true) :
    prun s tr = some (flushSt s) := by
  cases tr with
  | nil =>
    rcases hs with rfl | ⟨acc, rfl⟩ <;> simp [prun, pfinish, flushSt]
  | cons c tr =>
    simp only [List.all_cons, Bool.and_eq_true] at h
    have h0 := prun_plex s (c :: tr) []
    simp only [List.append_nil] at h0
    rw [h0, plex_boundary hs (ws_atomok_false h.1) tr, plex_ws (c :: tr) (by simp [h.1, h.2])]
    simp [prun, pfinish]

/-- **the tokenizer on a legal rendering**, from any token boundary -/
theorem prun_render (items : List (Bytes × CTok)) (tr : Bytes) (htr : tr.all isWs = true) :
    ∀ (s : PSt), Boundary s → (items.all (fun p => p.2.ok) = true) →
      sepsOk (decide (s ≠ .top)) items = true →
      prun s (render items tr) = some (flushSt s ++ items.map (fun p => p.2.tok)) := by
  induction items with
  | nil =>
    intro s hs _ _
    simp [render, prun_trailing hs tr htr]
  | cons it items ih =>
    intro s hs hok hsep
    obtain ⟨ws, k⟩ := it
    simp only [List.all_cons, Bool.and_eq_true] at hok
    simp only [sepsOk, Bool.and_eq_true, Bool.not_eq_true'] at hsep
    obtain ⟨⟨hws, hadj⟩, hrest⟩ := hsep
    have hcond : ¬ (s ≠ .top ∧ k.isAtom = true ∧ ws = []) := by
      rintro ⟨h1, h2, h3⟩
      simp [h1, h2, h3] at hadj
    have hitem := plex_item hs ws k hws hok.1 hcond
    have e : render ((ws, k) :: items) tr = (ws ++ k.text) ++ render items tr := by simp [render]
    rw [e, prun_plex, hitem]
    have hdec : decide (endSt k ≠ .top) = k.isAtom := by
      cases k <;> simp [endSt, CTok.isAtom]
    have := ih (endSt k) (endSt_boundary k) hok.2 (by rw [hdec]; exact hrest)
    simp only [this]
    have hf := emitted_flush k hok.1
    simp only [List.map_cons, List.append_assoc]
    rw [← List.append_assoc (emitted k), hf]
    simp

end Nq.Lemmas.C17
