/- Lemmas for C20 (b): substdio buffer bounds and stream laws. Core Lean only. -/
import Nq.Substdio

namespace Nq.Lemmas.C20
open Nq Nq.Substdio

/-! ## output -/

/-- what op took is a prefix of what it was offered; on success it is everything -/
theorem allwrite_spec (ws : List Nat) (b : Bytes) :
    (∃ t, b = (allwrite ws b).2.1 ++ t) ∧ ((allwrite ws b).2.2 = true → (allwrite ws b).2.1 = b) := by
  induction ws generalizing b with
  | nil => cases b <;> simp [allwrite]
  | cons w ws ih =>
    cases b with
    | nil => simp [allwrite]
    | cons c b =>
      cases w with
      | zero => simp [allwrite]
      | succ k =>
        simp only [allwrite]
        by_cases hl : (c :: b).length ≤ k + 1
        · rw [if_pos hl]; simp
        · rw [if_neg hl]
          obtain ⟨⟨t, ht⟩, h2⟩ := ih ((c :: b).drop (k + 1))
          refine ⟨⟨t, ?_⟩, ?_⟩
          · simp only [List.append_assoc]
            rw [← ht, List.take_append_drop]
          · intro hs
            simp only at hs ⊢
            rw [h2 hs, List.take_append_drop]

theorem flush_spec (s : OSt) (h : OWF s) :
    OWF (flush s).1 ∧ (flush s).1.cp = s.cp ∧ (flush s).1.n = s.n ∧
    ((flush s).2 = true → (flush s).1.out ++ (flush s).1.buf = s.out ++ s.buf) := by
  unfold flush
  obtain ⟨h1, h2, h3, h4⟩ := h
  by_cases hp : s.p = 0
  · rw [if_pos hp]; exact ⟨⟨h1, h2, h3, h4⟩, rfl, rfl, fun _ => rfl⟩
  · rw [if_neg hp]
    refine ⟨⟨by simp, by simp, h3, h4⟩, rfl, rfl, ?_⟩
    intro hs
    simp only at hs ⊢
    rw [(allwrite_spec s.ws s.buf).2 hs]; simp

theorem flush_p (s : OSt) : (flush s).1.p = 0 := by
  unfold flush
  by_cases hp : s.p = 0
  · rw [if_pos hp]; exact hp
  · rw [if_neg hp]

theorem copyIn_spec (s : OSt) (d : Bytes) (h : OWF s) (hc : cpIn s) (hfit : s.p + d.length ≤ s.n) :
    OWF (copyIn s d) ∧ cpIn (copyIn s d) ∧ (copyIn s d).n = s.n ∧
    (copyIn s d).out ++ (copyIn s d).buf = s.out ++ s.buf ++ d := by
  obtain ⟨h1, h2, h3, h4⟩ := h
  unfold copyIn
  refine ⟨⟨hfit, by simp [h2], h3, h4⟩, ?_, rfl, by simp⟩
  intro c hcm
  simp only [List.mem_cons] at hcm
  rcases hcm with hcm | hcm
  · subst hcm; exact hfit
  · exact hc c hcm

theorem usub32_le (a b : Nat) (h : b ≤ a) : usub32 a b = a - b := by
  unfold usub32; rw [if_pos h]

theorem bputLoop_spec (fuel : Nat) (s : OSt) (d : Bytes) (h : OWF s) (hc : cpIn s) :
    OWF (bputLoop fuel s d).1 ∧ cpIn (bputLoop fuel s d).1 ∧ (bputLoop fuel s d).1.n = s.n ∧
    ((bputLoop fuel s d).2 = true →
      (bputLoop fuel s d).1.out ++ (bputLoop fuel s d).1.buf = s.out ++ s.buf ++ d) := by
  induction fuel generalizing s d with
  | zero => simp [bputLoop]; exact ⟨h, hc⟩
  | succ fuel ih =>
    simp only [bputLoop]
    have hsub := usub32_le s.n s.p h.1
    by_cases hl : d.length > usub32 s.n s.p
    · rw [if_pos hl]
      rw [hsub] at hl ⊢
      have hfit : s.p + (d.take (s.n - s.p)).length ≤ s.n := by
        rw [List.length_take]; have := h.1; omega
      obtain ⟨c1, c2, c3, c4⟩ := copyIn_spec s (d.take (s.n - s.p)) h hc hfit
      obtain ⟨f1, f2, f3, f4⟩ := flush_spec _ c1
      have fc : cpIn (flush (copyIn s (List.take (s.n - s.p) d))).1 := by
        intro c hcm; rw [f2] at hcm; rw [f3]; exact c2 c hcm
      by_cases hr : (flush (copyIn s (List.take (s.n - s.p) d))).2 = true
      · rw [if_pos hr]
        obtain ⟨i1, i2, i3, i4⟩ := ih _ (d.drop (s.n - s.p)) f1 fc
        refine ⟨i1, i2, by rw [i3, f3, c3], ?_⟩
        intro hs
        rw [i4 hs, f4 hr, c4]
        simp only [List.append_assoc, List.take_append_drop]
      · rw [if_neg hr]
        exact ⟨f1, fc, by rw [f3, c3], fun hc => by simp at hc⟩
    · rw [if_neg hl]
      rw [hsub] at hl
      have hfit : s.p + d.length ≤ s.n := by have := h.1; omega
      obtain ⟨c1, c2, c3, c4⟩ := copyIn_spec s d h hc hfit
      exact ⟨c1, c2, c3, fun _ => c4⟩

theorem putLoop_spec (fuel n : Nat) (s : OSt) (d : Bytes) (h : OWF s) (hc : cpIn s) (hb : s.buf = []) :
    OWF (putLoop fuel n s d).1 ∧ cpIn (putLoop fuel n s d).1 ∧ (putLoop fuel n s d).1.n = s.n ∧
    (putLoop fuel n s d).1.p = s.p ∧ (putLoop fuel n s d).1.buf = [] ∧
    ((putLoop fuel n s d).2.2 = true →
      (putLoop fuel n s d).2.1.length ≤ s.n ∧
      (putLoop fuel n s d).1.out ++ (putLoop fuel n s d).2.1 = s.out ++ d) := by
  induction fuel generalizing n s d with
  | zero => simp [putLoop]; exact ⟨h, hc, hb⟩
  | succ fuel ih =>
    simp only [putLoop]
    by_cases hl : d.length > s.n
    · rw [if_pos hl]
      generalize hn' : (if n > d.length then d.length else n) = n'
      obtain ⟨⟨t, ht⟩, a2⟩ := allwrite_spec s.ws (d.take n')
      have hw : OWF { s with out := s.out ++ (allwrite s.ws (d.take n')).2.1, ws := (allwrite s.ws (d.take n')).1 } := h
      have hcw : cpIn { s with out := s.out ++ (allwrite s.ws (d.take n')).2.1, ws := (allwrite s.ws (d.take n')).1 } := hc
      by_cases hr : (allwrite s.ws (d.take n')).2.2 = true
      · rw [if_pos hr]
        obtain ⟨i1, i2, i3, i4, i5, i6⟩ := ih n' _ (d.drop n') hw hcw hb
        refine ⟨i1, i2, i3, i4, i5, ?_⟩
        intro hs
        obtain ⟨j1, j2⟩ := i6 hs
        refine ⟨j1, ?_⟩
        rw [j2, a2 hr]
        simp only [List.append_assoc, List.take_append_drop]
      · rw [if_neg hr]
        exact ⟨hw, hcw, rfl, rfl, hb, fun hc => by simp at hc⟩
    · rw [if_neg hl]
      exact ⟨h, hc, rfl, rfl, hb, fun _ => ⟨by simp only; omega, rfl⟩⟩

theorem put_spec (s : OSt) (d : Bytes) (h : OWF s) (hc : cpIn s) :
    OWF (put s d).1 ∧ cpIn (put s d).1 ∧ (put s d).1.n = s.n ∧
    ((put s d).2 = true → (put s d).1.out ++ (put s d).1.buf = s.out ++ s.buf ++ d) := by
  unfold put
  have hsub := usub32_le s.n s.p h.1
  by_cases hl : d.length > usub32 s.n s.p
  · rw [if_pos hl]
    obtain ⟨f1, f2, f3, f4⟩ := flush_spec s h
    have fp := flush_p s
    have fc : cpIn (flush s).1 := by intro c hcm; rw [f2] at hcm; rw [f3]; exact hc c hcm
    have fb : (flush s).1.buf = [] := by
      have := f1.2.1; rw [fp] at this; exact List.eq_nil_of_length_eq_zero this
    by_cases hr : (flush s).2 = true
    · rw [if_pos hr]
      generalize (if s.n < OUTSIZE then OUTSIZE else s.n) = n0
      obtain ⟨i1, i2, i3, i4, i5, i6⟩ := putLoop_spec (d.length + 1) n0 _ d f1 fc fb
      by_cases hr2 : (putLoop (d.length + 1) n0 (flush s).1 d).2.2 = true
      · rw [if_pos hr2]
        obtain ⟨j1, j2⟩ := i6 hr2
        have hfit : (putLoop (d.length + 1) n0 (flush s).1 d).1.p + (putLoop (d.length + 1) n0 (flush s).1 d).2.1.length ≤
            (putLoop (d.length + 1) n0 (flush s).1 d).1.n := by rw [i4, fp, i3]; omega
        obtain ⟨c1, c2, c3, c4⟩ := copyIn_spec _ _ i1 i2 hfit
        refine ⟨c1, c2, by rw [c3, i3, f3], ?_⟩
        intro _
        rw [c4, i5, List.append_nil, j2]
        have := f4 hr
        rw [fb, List.append_nil] at this
        rw [this]
      · rw [if_neg hr2]
        exact ⟨i1, i2, by rw [i3, f3], fun hc => by simp at hc⟩
    · rw [if_neg hr]
      exact ⟨f1, fc, f3, fun hc => by simp at hc⟩
  · rw [if_neg hl]
    rw [hsub] at hl
    have hfit : s.p + d.length ≤ s.n := by have := h.1; omega
    obtain ⟨c1, c2, c3, c4⟩ := copyIn_spec s d h hc hfit
    exact ⟨c1, c2, c3, fun _ => c4⟩

theorem bput_spec (s : OSt) (d : Bytes) (h : OWF s) (hc : cpIn s) :
    OWF (bput s d).1 ∧ cpIn (bput s d).1 ∧ (bput s d).1.n = s.n ∧
    ((bput s d).2 = true → (bput s d).1.out ++ (bput s d).1.buf = s.out ++ s.buf ++ d) :=
  bputLoop_spec _ s d h hc

theorem putflush_spec (s : OSt) (d : Bytes) (h : OWF s) (hc : cpIn s) :
    OWF (putflush s d).1 ∧ cpIn (putflush s d).1 ∧ (putflush s d).1.n = s.n ∧
    ((putflush s d).2 = true → (putflush s d).1.out ++ (putflush s d).1.buf = s.out ++ s.buf ++ d) := by
  unfold putflush
  obtain ⟨f1, f2, f3, f4⟩ := flush_spec s h
  have fp := flush_p s
  have fc : cpIn (flush s).1 := by intro c hcm; rw [f2] at hcm; rw [f3]; exact hc c hcm
  have fb : (flush s).1.buf = [] := by
    have := f1.2.1; rw [fp] at this; exact List.eq_nil_of_length_eq_zero this
  by_cases hr : (flush s).2 = true
  · rw [if_pos hr]
    refine ⟨f1, fc, f3, ?_⟩
    intro hs
    simp only at hs ⊢
    rw [(allwrite_spec _ d).2 hs, fb, List.append_nil]
    have := f4 hr
    rw [fb, List.append_nil] at this
    rw [this]
  · rw [if_neg hr]
    exact ⟨f1, fc, f3, fun hc => by simp at hc⟩

theorem oapply_spec (s : OSt) (o : OOp) (h : OWF s) (hc : cpIn s) :
    OWF (oapply s o).1 ∧ cpIn (oapply s o).1 ∧ (oapply s o).1.n = s.n ∧
    ((oapply s o).2 = true → (oapply s o).1.out ++ (oapply s o).1.buf = s.out ++ s.buf ++
      (match o with | .put d => d | .bput d => d | .flush => [] | .putflush d => d)) := by
  cases o with
  | put d => exact put_spec s d h hc
  | bput d => exact bput_spec s d h hc
  | putflush d => exact putflush_spec s d h hc
  | flush =>
    obtain ⟨f1, f2, f3, f4⟩ := flush_spec s h
    refine ⟨f1, ?_, f3, ?_⟩
    · intro c hcm; simp only [oapply] at hcm ⊢; rw [f2] at hcm; rw [f3]; exact hc c hcm
    · intro hs; simp only [oapply] at hs ⊢; rw [f4 hs]; simp

/-! ## input -/

/-- what `oneread` returns is a non-empty prefix of the source, at most `len` bytes; otherwise the source is untouched -/
theorem oneread_spec (src : Bytes) (rs : List Nat) (len : Nat) :
    match (oneread src rs len).1 with
    | .got b => b ≠ [] ∧ b.length ≤ len ∧ b ++ (oneread src rs len).2.1 = src
    | .eof => (oneread src rs len).2.1 = src ∧ (len = 0 ∨ src = [])
    | .err => (oneread src rs len).2.1 = src := by
  unfold oneread
  cases rs with
  | nil =>
    simp only
    by_cases hm : min len src.length = 0
    · rw [if_pos hm]; simp only
      refine ⟨trivial, ?_⟩
      rcases Nat.min_eq_zero_iff.mp hm with h | h
      · exact Or.inl h
      · exact Or.inr (List.eq_nil_of_length_eq_zero h)
    · rw [if_neg hm]; simp only
      refine ⟨?_, ?_, List.take_append_drop _ _⟩
      · intro hc
        have := congrArg List.length hc
        simp only [List.length_take, List.length_nil] at this
        omega
      · simp only [List.length_take]; omega
  | cons w rs =>
    cases w with
    | zero => simp
    | succ k =>
      simp only
      by_cases hm : min (min (k + 1) len) src.length = 0
      · rw [if_pos hm]; simp only
        refine ⟨trivial, ?_⟩
        rcases Nat.min_eq_zero_iff.mp hm with h | h
        · rcases Nat.min_eq_zero_iff.mp h with h | h
          · omega
          · exact Or.inl h
        · exact Or.inr (List.eq_nil_of_length_eq_zero h)
      · rw [if_neg hm]; simp only
        refine ⟨?_, ?_, List.take_append_drop _ _⟩
        · intro hc
          have := congrArg List.length hc
          simp only [List.length_take, List.length_nil] at this
          omega
        · simp only [List.length_take]; omega

/-- result classes of an input operation, with what each guarantees about the stream -/
def IPost (s s' : ISt) : Prop :=
  IWF s' ∧ s'.size = s.size ∧ (icpIn s → icpIn s')

theorem feed_spec (s : ISt) (h : IWF s) :
    IPost s (feed s).1 ∧ (feed s).1.data ++ (feed s).1.src = s.data ++ s.src ∧
    (match (feed s).2 with
     | .got b => b = (feed s).1.data ∧ b ≠ []
     | .eof => (feed s).1.p = 0 ∧ ((feed s).1.n = 0 ∨ (feed s).1.src = [])
     | .err => True) := by
  obtain ⟨h1, h2⟩ := h
  unfold feed
  by_cases hp : s.p ≠ 0
  · rw [if_pos hp]
    refine ⟨⟨⟨h1, h2⟩, rfl, fun x => x⟩, rfl, rfl, ?_⟩
    intro hc; rw [hc] at h2; simp at h2; exact hp h2.symm
  · rw [if_neg hp]
    have hp0 : s.p = 0 := by omega
    have hd : s.data = [] := List.eq_nil_of_length_eq_zero (by omega)
    have sp := oneread_spec s.src s.rs s.n
    generalize oneread s.src s.rs s.n = r at sp
    obtain ⟨rr, src', rs'⟩ := r
    cases rr with
    | err =>
      simp only at sp ⊢
      refine ⟨⟨⟨h1, h2⟩, rfl, ?_⟩, by rw [sp], trivial⟩
      intro hc c hcm; simp only [List.mem_cons] at hcm
      rcases hcm with hcm | hcm
      · subst hcm; simp only; omega
      · exact hc c hcm
    | eof =>
      simp only at sp ⊢
      refine ⟨⟨⟨h1, h2⟩, rfl, ?_⟩, by rw [sp.1], hp0, ?_⟩
      · intro hc c hcm; simp only [List.mem_cons] at hcm
        rcases hcm with hcm | hcm
        · subst hcm; simp only; omega
        · exact hc c hcm
      · rcases sp.2 with q | q
        · exact Or.inl q
        · exact Or.inr (by rw [sp.1]; exact q)
    | got b =>
      simp only at sp ⊢
      obtain ⟨b1, b2, b3⟩ := sp
      refine ⟨⟨⟨by simp only; omega, by trivial⟩, by trivial, ?_⟩, by rw [hd, ← b3]; simp, by trivial, b1⟩
      intro hc c hcm; simp only [List.mem_cons] at hcm
      rcases hcm with hcm | hcm | hcm
      · subst hcm; simp only; omega
      · subst hcm; simp only; omega
      · exact hc c hcm

theorem getthis_spec (s : ISt) (len : Nat) (h : IWF s) :
    IPost s (getthis s len).1 ∧ (getthis s len).2.length ≤ len ∧
    (getthis s len).2 ++ (getthis s len).1.data = s.data ∧ (getthis s len).1.src = s.src ∧
    (0 < s.p → 0 < len → (getthis s len).2 ≠ []) := by
  obtain ⟨h1, h2⟩ := h
  unfold getthis
  simp only
  generalize hr : (if s.p > len then len else s.p) = r
  have hrl : r ≤ len ∧ r ≤ s.p ∧ (0 < s.p → 0 < len → 0 < r) := by
    by_cases c : s.p > len
    · rw [if_pos c] at hr; omega
    · rw [if_neg c] at hr; omega
  refine ⟨⟨⟨by simp only; omega, by simp only [List.length_drop]; omega⟩, by trivial, ?_⟩, ?_, List.take_append_drop _ _, by trivial, ?_⟩
  · intro hc c hcm; simp only [List.mem_cons] at hcm
    rcases hcm with hcm | hcm
    · subst hcm; simp only; omega
    · exact hc c hcm
  · simp only [List.length_take]; omega
  · intro q1 q2 hc
    have := congrArg List.length hc
    simp only [List.length_take, List.length_nil] at this
    have := hrl.2.2 q1 q2
    omega

/-- `substdio_get`: at most `len` bytes, in stream order, nothing lost or invented -/
theorem get_spec (s : ISt) (len : Nat) (h : IWF s) :
    IPost s (get s len).1 ∧
    (match (get s len).2 with
     | .got b => b.length ≤ len ∧ b ++ ((get s len).1.data ++ (get s len).1.src) = s.data ++ s.src ∧ (0 < len → b ≠ [])
     | .eof => (get s len).1.data ++ (get s len).1.src = s.data ++ s.src ∧ (get s len).1.p = 0 ∧
               (0 < len → (get s len).1.src = [])
     | .err => (get s len).1.data ++ (get s len).1.src = s.data ++ s.src) := by
  unfold Substdio.get
  by_cases hp : s.p > 0
  · rw [if_pos hp]
    obtain ⟨g1, g2, g3, g4, g5⟩ := getthis_spec s len h
    simp only
    refine ⟨g1, g2, ?_, fun hl => g5 hp hl⟩
    rw [g4, ← List.append_assoc, g3]
  · rw [if_neg hp]
    have hp0 : s.p = 0 := by omega
    have hd : s.data = [] := List.eq_nil_of_length_eq_zero (by have := h.2; omega)
    by_cases hn : s.n ≤ len
    · rw [if_pos hn]
      have sp := oneread_spec s.src s.rs len
      generalize oneread s.src s.rs len = r at sp
      obtain ⟨rr, src', rs'⟩ := r
      have hI : IPost s { s with src := src', rs := rs' } := ⟨h, rfl, fun x => x⟩
      cases rr with
      | err => simp only at sp ⊢; exact ⟨hI, by rw [sp]⟩
      | eof =>
        simp only at sp ⊢
        refine ⟨hI, by rw [sp.1], hp0, ?_⟩
        intro hl; rcases sp.2 with q | q
        · omega
        · rw [sp.1]; exact q
      | got b =>
        simp only at sp ⊢
        exact ⟨hI, sp.2.1, by rw [hd, ← sp.2.2]; simp, fun _ => sp.1⟩
    · rw [if_neg hn]
      obtain ⟨⟨f1, f2, f3⟩, f4, f5⟩ := feed_spec s h
      generalize feed s = fr at f1 f2 f3 f4 f5
      obtain ⟨s', rr⟩ := fr
      cases rr with
      | err => simp only at f1 f2 f3 f4 ⊢; exact ⟨⟨f1, f2, f3⟩, f4⟩
      | eof =>
        simp only at f1 f2 f3 f4 f5 ⊢
        refine ⟨⟨f1, f2, f3⟩, f4, f5.1, ?_⟩
        intro hl
        rcases f5.2 with q | q
        · have := f1.1; rw [f2] at this; have := h.1; omega
        · exact q
      | got b =>
        simp only at f1 f2 f3 f4 f5 ⊢
        obtain ⟨g1, g2, g3, g4, g5⟩ := getthis_spec s' len f1
        have hp' : 0 < s'.p := by
          have := f1.2; rw [← f5.1] at this
          have : b.length ≠ 0 := fun hc => f5.2 (List.eq_nil_of_length_eq_zero hc)
          omega
        refine ⟨⟨g1.1, by rw [g1.2.1, f2], fun hc => g1.2.2 (f3 hc)⟩, g2, ?_, fun hl => g5 hp' hl⟩
        rw [g4, ← List.append_assoc, g3, f4]

/-- successive gets return the source bytes in order, for every chunking of the reads -/
theorem drain_spec (fuel : Nat) (s : ISt) (len : Nat) (h : IWF s) :
    IWF (drain fuel s len).1 ∧ (icpIn s → icpIn (drain fuel s len).1) ∧
    (drain fuel s len).2.1.flatten ++ ((drain fuel s len).1.data ++ (drain fuel s len).1.src) = s.data ++ s.src ∧
    (∀ b ∈ (drain fuel s len).2.1, b.length ≤ len) ∧
    ((drain fuel s len).2.2 = true → 0 < len → (drain fuel s len).2.1.flatten = s.data ++ s.src) := by
  induction fuel generalizing s with
  | zero => simp only [drain]; exact ⟨h, fun x => x, by simp, by simp, by simp⟩
  | succ fuel ih =>
    simp only [drain]
    obtain ⟨⟨g1, g2, g3⟩, g4⟩ := get_spec s len h
    generalize Substdio.get s len = gr at g1 g2 g3 g4
    obtain ⟨s', rr⟩ := gr
    cases rr with
    | err => simp only at g1 g3 g4 ⊢; exact ⟨g1, g3, by simpa using g4, by simp, by simp⟩
    | eof =>
      simp only at g1 g3 g4 ⊢
      refine ⟨g1, g3, by simpa using g4.1, by simp, ?_⟩
      intro _ hl
      have hd : s'.data = [] := List.eq_nil_of_length_eq_zero (by have := g1.2; have := g4.2.1; omega)
      have := g4.1; rw [hd, g4.2.2 hl] at this
      simp at this ⊢; exact this
    | got b =>
      simp only at g1 g3 g4 ⊢
      obtain ⟨i1, i2, i3, i4, i5⟩ := ih s' g1
      refine ⟨i1, fun hc => i2 (g3 hc), ?_, ?_, ?_⟩
      · simp only [List.flatten_cons, List.append_assoc]
        rw [i3, g4.2.1]
      · intro x hx; simp only [List.mem_cons] at hx
        rcases hx with hx | hx
        · subst hx; exact g4.1
        · exact i4 x hx
      · intro hs hl
        simp only [List.flatten_cons]
        rw [i5 hs hl, g4.2.1]

end Nq.Lemmas.C20
