/-
  Invariants of the fine-grained daemon histories `Nq.SchedPass.pstep` (passes that are not atomic):
  well-formedness `WFp`, and the back-off obligation `Owed` across clock ticks, work on either channel,
  reports, TERM, exit and restart.  Core Lean only.
-/
import Nq.Lemmas.SchedHist
import Nq.SchedPass
import Nq.Spec.SchedHist

namespace Nq.Lemmas.SchedPass
open Nq Nq.Sched Nq.SchedHist Nq.SchedPass Nq.Spec.SchedHist Nq.Lemmas.Sched Nq.Lemmas.SchedHist

/-! ### accessors -/

@[simp] theorem setJobs_same (s : PSt) (c : Chan) (l : List OJob) : (s.setJobs c l).jobs c = l := by cases c <;> rfl
theorem setJobs_other (s : PSt) (c c' : Chan) (l : List OJob) (h : c' ≠ c) : (s.setJobs c l).jobs c' = s.jobs c' := by
  cases c <;> cases c' <;> first | rfl | exact absurd rfl h
@[simp] theorem setJobs_h (s : PSt) (c : Chan) (l : List OJob) : (s.setJobs c l).h = s.h := by cases c <;> rfl
@[simp] theorem setJobs_up (s : PSt) (c : Chan) (l : List OJob) : (s.setJobs c l).up = s.up := by cases c <;> rfl
@[simp] theorem setJobs_exit (s : PSt) (c : Chan) (l : List OJob) : (s.setJobs c l).exitasap = s.exitasap := by cases c <;> rfl
@[simp] theorem setH_h (s : PSt) (h : HSt) : (s.setH h).h = h := rfl
@[simp] theorem setH_jobs (s : PSt) (h : HSt) (c : Chan) : (s.setH h).jobs c = s.jobs c := by cases c <;> rfl
@[simp] theorem setH_up (s : PSt) (h : HSt) : (s.setH h).up = s.up := rfl
@[simp] theorem setH_exit (s : PSt) (h : HSt) : (s.setH h).exitasap = s.exitasap := rfl

/-! ### the job lists -/

theorem mem_updJob {l : List OJob} {j x : OJob} (h : x ∈ updJob l j) : x = j ∨ (x ∈ l ∧ x.id ≠ j.id) := by
  unfold updJob at h
  obtain ⟨y, hy, hxy⟩ := List.mem_map.mp h
  by_cases hid : y.id = j.id
  · left; simp [hid] at hxy; exact hxy.symm
  · right
    have : (y.id == j.id) = false := by simpa using hid
    simp [this] at hxy; subst hxy; exact ⟨hy, hid⟩

theorem updJob_ids (l : List OJob) (j : OJob) : (updJob l j).map (·.id) = l.map (·.id) := by
  unfold updJob
  induction l with
  | nil => rfl
  | cons x r ih =>
    simp only [List.map_cons]
    rw [ih]
    by_cases hid : x.id = j.id
    · simp [hid]
    · have : (x.id == j.id) = false := by simpa using hid
      simp [this]

theorem mem_delJob {l : List OJob} {i : Nat} {x : OJob} : x ∈ delJob l i ↔ x ∈ l ∧ x.id ≠ i := by
  unfold delJob; simp

theorem delJob_nodup {l : List OJob} (i : Nat) (h : (l.map (·.id)).Nodup) : ((delJob l i).map (·.id)).Nodup := by
  unfold delJob
  exact List.Nodup.sublist (List.Sublist.map _ List.filter_sublist) h

theorem find_job_mem {l : List OJob} {p : OJob → Bool} {j : OJob} (h : l.find? p = some j) : j ∈ l ∧ p j = true :=
  ⟨List.mem_of_find?_eq_some h, List.find?_some h⟩

/-! ### well-formedness -/

/-- consistency of a fine-grained daemon state: the queue side is well-formed (`WF`); the message of an open job is
not on its channel heap, has its channel file, and the job's retry time is `nextretry` of the time it was opened;
at most one job per (message, channel); a job is referenced by its pass or by a delivery in flight. -/
structure WFp (s : PSt) : Prop where
  wf : WF s.h
  jobNotQ : ∀ c, ∀ j ∈ s.jobs c, j.id ∉ ids (s.h.q c)
  jobNodup : ∀ c, ((s.jobs c).map (·.id)).Nodup
  jobFile : ∀ c, ∀ j ∈ s.jobs c, ∃ m, s.h.find j.id = some m ∧ (m.recs c).isSome = true ∧
    j.job.retry = nextretry j.opened m.birth c
  jobLive : ∀ c, ∀ j ∈ s.jobs c, j.scanning = true ∨ j.inflight ≠ []

theorem wfp_init (h : HSt) (hwf : WF h) (e : Bool) (u : Bool) : WFp { h := h, j0 := [], j1 := [], exitasap := e, up := u } := by
  refine ⟨hwf, ?_, ?_, ?_, ?_⟩
  · intro c j hj; cases c <;> cases hj
  · intro c; cases c <;> exact List.nodup_nil
  · intro c j hj; cases c <;> cases hj
  · intro c j hj; cases c <;> cases hj

/-- the state changes only in `clock` -/
theorem wfp_tick {s : PSt} (hw : WFp s) (t : Int) : WFp (s.setH { s.h with clock := t }) := by
  refine ⟨wf_clock hw.wf t, ?_, ?_, ?_, ?_⟩
  · intro c j hj; rw [setH_jobs] at hj
    have := hw.jobNotQ c j hj
    cases c <;> exact this
  · intro c; rw [setH_jobs]; exact hw.jobNodup c
  · intro c j hj; rw [setH_jobs] at hj; exact hw.jobFile c j hj
  · intro c j hj; rw [setH_jobs] at hj; exact hw.jobLive c j hj

theorem wfp_term {s : PSt} (hw : WFp s) : WFp { s with exitasap := true } := by
  refine ⟨hw.wf, ?_, ?_, ?_, ?_⟩
  · intro c j hj; exact hw.jobNotQ c j (by cases c <;> exact hj)
  · intro c; have := hw.jobNodup c; cases c <;> exact this
  · intro c j hj; exact hw.jobFile c j (by cases c <;> exact hj)
  · intro c j hj; exact hw.jobLive c j (by cases c <;> exact hj)

/-- replacing a job by one with the same identity -/
theorem wfp_updJob {s : PSt} (hw : WFp s) (c : Chan) {j j' : OJob} (hj : j ∈ s.jobs c)
    (hid : j'.id = j.id) (hjob : j'.job = j.job) (hop : j'.opened = j.opened)
    (hlive : j'.scanning = true ∨ j'.inflight ≠ []) : WFp (s.setJobs c (updJob (s.jobs c) j')) := by
  have hmem : ∀ c', ∀ x ∈ (s.setJobs c (updJob (s.jobs c) j')).jobs c', (x = j' ∧ c' = c) ∨ x ∈ s.jobs c' := by
    intro c' x hx
    by_cases hc : c' = c
    · subst hc; rw [setJobs_same] at hx
      rcases mem_updJob hx with h | h
      · exact Or.inl ⟨h, rfl⟩
      · exact Or.inr h.1
    · rw [setJobs_other _ _ _ _ hc] at hx; exact Or.inr hx
  refine ⟨by rw [setJobs_h]; exact hw.wf, ?_, ?_, ?_, ?_⟩
  · intro c' x hx; rw [setJobs_h]
    rcases hmem c' x hx with ⟨h, hc⟩ | h
    · subst h; subst hc; rw [hid]; exact hw.jobNotQ _ j hj
    · exact hw.jobNotQ c' x h
  · intro c'
    by_cases hc : c' = c
    · subst hc; rw [setJobs_same, updJob_ids]; exact hw.jobNodup _
    · rw [setJobs_other _ _ _ _ hc]; exact hw.jobNodup c'
  · intro c' x hx; rw [setJobs_h]
    rcases hmem c' x hx with ⟨h, hc⟩ | h
    · subst h; subst hc; rw [hid, hjob, hop]; exact hw.jobFile _ j hj
    · exact hw.jobFile c' x h
  · intro c' x hx
    rcases hmem c' x hx with ⟨h, hc⟩ | h
    · subst h; exact hlive
    · exact hw.jobLive c' x h

/-! ### job_close -/

theorem closeH_cases (h : HSt) (c : Chan) (j : OJob) (m : Msg) :
    (j.deferred ≠ 0 ∧ closeH h c j m = (mkSt h c ((h.q c).insert { dt := j.job.retry, id := j.id }) h.done).update m) ∨
    (j.deferred = 0 ∧ ∃ d', (d' = h.done ∨ d' = h.done.insert { dt := h.clock, id := j.id }) ∧
      closeH h c j m = (mkSt h c (h.q c) d').update (m.setRecs c none)) := by
  unfold closeH
  rcases closeF_cases j.job j.id j.deferred true (statOf m (other c)) h.clock (h.q c) h.done with
    ⟨hr, hd, (⟨hn, hc⟩ | ⟨_, hu, _⟩)⟩ | ⟨hn, _, hr, hc, hd⟩
  · left; refine ⟨hn, ?_⟩
    simp only [hr, hd, hc, Bool.false_eq_true, if_false]; rfl
  · cases hu
  · right; refine ⟨hn, ?_⟩
    rcases hd with ⟨_, hd⟩ | ⟨_, hd⟩
    · exact ⟨h.done, Or.inl rfl, by simp only [hr, hc, hd, if_true]; rfl⟩
    · exact ⟨_, Or.inr rfl, by simp only [hr, hc, hd, if_true]; rfl⟩

/-- `find` after one record was replaced -/
theorem find_update (h : HSt) (m' m0 : Msg) (hm : h.find m'.id = some m0) (i : Nat) :
    (h.update m').find i = if i = m'.id then some m' else h.find i := by
  by_cases hi : i = m'.id
  · rw [if_pos hi, hi]; exact find_update_self h m' m0 hm
  · rw [if_neg hi]; exact find_update_other h m' i hi

/-- what a state change that keeps every message's identity, birth and channel files (except possibly the file
`(i0, c0)`) does to the jobs' file facts -/
theorem jobFile_frame {s : PSt} (hw : WFp s) (h' : HSt) (i0 : Nat) (c0 : Chan)
    (hfind : ∀ i m, s.h.find i = some m → ∃ m', h'.find i = some m' ∧ m'.birth = m.birth ∧
      ∀ c, (i = i0 ∧ c = c0) ∨ (m'.recs c).isSome = (m.recs c).isSome)
    (c : Chan) (x : OJob) (hx : x ∈ s.jobs c) (hne : ¬ (x.id = i0 ∧ c = c0)) :
    ∃ m, h'.find x.id = some m ∧ (m.recs c).isSome = true ∧ x.job.retry = nextretry x.opened m.birth c := by
  obtain ⟨m, hm, hr, hret⟩ := hw.jobFile c x hx
  obtain ⟨m', hm', hb, hrc⟩ := hfind x.id m hm
  refine ⟨m', hm', ?_, by rw [hb]; exact hret⟩
  rcases hrc c with h | h
  · exact absurd h hne
  · rw [h]; exact hr

theorem wfp_closeSt {s : PSt} (hw : WFp s) (c : Chan) {j j' : OJob} (hj : j ∈ s.jobs c)
    (hid : j'.id = j.id) (hjob : j'.job = j.job) : WFp (closeSt s c j') := by
  obtain ⟨m, hm, hrec, hret⟩ := hw.jobFile c j hj
  have hmid : m.id = j.id := (find_some hm).2
  have hnq := hw.jobNotQ c j hj
  have hcl : closeSt s c j' = (s.setJobs c (delJob (s.jobs c) j.id)).setH (closeH s.h c j' m) := by
    unfold closeSt; rw [hid, hm]
  rw [hcl]
  -- the jobs that remain
  have hrem : ∀ c', ∀ x ∈ ((s.setJobs c (delJob (s.jobs c) j.id)).setH (closeH s.h c j' m)).jobs c',
      x ∈ s.jobs c' ∧ ¬ (x.id = j.id ∧ c' = c) := by
    intro c' x hx
    rw [setH_jobs] at hx
    by_cases hc : c' = c
    · subst hc; rw [setJobs_same] at hx
      obtain ⟨h1, h2⟩ := mem_delJob.mp hx
      exact ⟨h1, fun h => h2 h.1⟩
    · rw [setJobs_other _ _ _ _ hc] at hx; exact ⟨hx, fun h => hc h.2⟩
  have hnodup : ∀ c', ((((s.setJobs c (delJob (s.jobs c) j.id)).setH (closeH s.h c j' m)).jobs c').map (·.id)).Nodup := by
    intro c'
    rw [setH_jobs]
    by_cases hc : c' = c
    · subst hc; rw [setJobs_same]; exact delJob_nodup _ (hw.jobNodup _)
    · rw [setJobs_other _ _ _ _ hc]; exact hw.jobNodup c'
  -- an entry of another channel heap with the message's id: its file exists
  have hother : ∀ c', c' ≠ c → m.id ∈ ids (s.h.q c') → (m.recs c').isSome = true := by
    intro c' _ hmem
    obtain ⟨e, he, hei⟩ := List.mem_map.mp hmem
    obtain ⟨m2, hm2, hr2⟩ := hw.wf.hasFile c' e he
    rw [hei, hmid, hm] at hm2; cases hm2; exact hr2
  rcases closeH_cases s.h c j' m with ⟨hdef, hH⟩ | ⟨hdef, d', hd', hH⟩
  · -- recipients left: back into the channel heap at `retry`
    rw [hH]
    have hheap := insert_spec (s.h.q c) { dt := j'.job.retry, id := j'.id } (hw.wf.heap c)
    have hids := ids_insert (s.h.q c) { dt := j'.job.retry, id := j'.id } (hw.wf.heap c)
    have hwf1 : WF (mkSt s.h c ((s.h.q c).insert { dt := j'.job.retry, id := j'.id }) s.h.done) := by
      refine wf_mkSt hw.wf c _ _ hheap.1 hw.wf.heapDone ?_ ?_
      · refine hids.nodup_iff.mpr (List.nodup_cons.mpr ⟨?_, hw.wf.nodupQ c⟩)
        show j'.id ∉ ids (s.h.q c)
        rw [hid]; exact hnq
      · intro e he
        rcases (mem_insert _ _ _ (hw.wf.heap c)).mp he with h | h
        · subst h; exact ⟨m, by show s.h.find j'.id = some m; rw [hid]; exact hm, hrec⟩
        · exact hw.wf.hasFile c e h
    have hfm : (mkSt s.h c ((s.h.q c).insert { dt := j'.job.retry, id := j'.id }) s.h.done).find m.id = some m := by
      rw [mkSt_find, hmid]; exact hm
    have hwf2 : WF ((mkSt s.h c ((s.h.q c).insert { dt := j'.job.retry, id := j'.id }) s.h.done).update m) := by
      refine wf_update hwf1 m m hfm ?_
      intro c' hmem
      by_cases hc : c' = c
      · subst hc; exact hrec
      · rw [mkSt_q_other _ _ _ _ _ hc] at hmem; exact hother c' hc hmem
    have hfind : ∀ i, ((mkSt s.h c ((s.h.q c).insert { dt := j'.job.retry, id := j'.id }) s.h.done).update m).find i = s.h.find i := by
      intro i
      rw [find_update _ m m hfm i, mkSt_find]
      by_cases hi : i = m.id
      · rw [if_pos hi, hi, hmid]; exact hm.symm
      · rw [if_neg hi]
    refine ⟨by rw [setH_h]; exact hwf2, ?_, hnodup, ?_, ?_⟩
    · intro c' x hx
      obtain ⟨hx1, hx2⟩ := hrem c' x hx
      rw [setH_h, update_q]
      by_cases hc : c' = c
      · subst hc; rw [mkSt_q_same]
        intro hmem
        rcases List.mem_cons.mp (hids.mem_iff.mp hmem) with h | h
        · exact hx2 ⟨by rw [h]; exact hid, rfl⟩
        · exact hw.jobNotQ _ x hx1 h
      · rw [mkSt_q_other _ _ _ _ _ hc]; exact hw.jobNotQ c' x hx1
    · intro c' x hx
      obtain ⟨hx1, _⟩ := hrem c' x hx
      rw [setH_h, hfind]; exact hw.jobFile c' x hx1
    · intro c' x hx; exact hw.jobLive c' x (hrem c' x hx).1
  · -- every recipient done: the channel file is removed
    rw [hH]
    have hd'heap : Heap d' := by
      rcases hd' with h | h
      · rw [h]; exact hw.wf.heapDone
      · rw [h]; exact (insert_spec _ _ hw.wf.heapDone).1
    have hwf1 : WF (mkSt s.h c (s.h.q c) d') :=
      wf_mkSt hw.wf c _ _ (hw.wf.heap c) hd'heap (hw.wf.nodupQ c) (hw.wf.hasFile c)
    have hfm : (mkSt s.h c (s.h.q c) d').find (m.setRecs c none).id = some m := by
      rw [mkSt_find, setRecs_id, hmid]; exact hm
    have hwf2 : WF ((mkSt s.h c (s.h.q c) d').update (m.setRecs c none)) := by
      refine wf_update hwf1 m (m.setRecs c none) hfm ?_
      intro c' hmem
      rw [setRecs_id] at hmem
      by_cases hc : c' = c
      · subst hc; rw [mkSt_q_same, hmid] at hmem; exact absurd hmem hnq
      · rw [mkSt_q_other _ _ _ _ _ hc] at hmem
        rw [setRecs_other _ _ _ _ hc]; exact hother c' hc hmem
    refine ⟨by rw [setH_h]; exact hwf2, ?_, hnodup, ?_, ?_⟩
    · intro c' x hx
      obtain ⟨hx1, _⟩ := hrem c' x hx
      rw [setH_h, update_q]
      by_cases hc : c' = c
      · subst hc; rw [mkSt_q_same]; exact hw.jobNotQ _ x hx1
      · rw [mkSt_q_other _ _ _ _ _ hc]; exact hw.jobNotQ c' x hx1
    · intro c' x hx
      obtain ⟨hx1, hx2⟩ := hrem c' x hx
      rw [setH_h]
      refine jobFile_frame hw _ j.id c ?_ c' x hx1 hx2
      intro i mi hmi
      rw [find_update _ _ m hfm i, mkSt_find, setRecs_id]
      by_cases hi : i = m.id
      · rw [if_pos hi]
        rw [hi, hmid, hm] at hmi; cases hmi
        refine ⟨_, rfl, by rw [setRecs_birth], fun c2 => ?_⟩
        by_cases hc2 : c2 = c
        · left; exact ⟨by rw [hi]; exact hmid, hc2⟩
        · right; rw [setRecs_other _ _ _ _ hc2]
      · rw [if_neg hi]; exact ⟨mi, hmi, rfl, fun _ => Or.inr rfl⟩
    · intro c' x hx; exact hw.jobLive c' x (hrem c' x hx).1

/-- store the changed job, `job_close` if nothing refers to it any more -/
theorem wfp_settle {s : PSt} (hw : WFp s) (c : Chan) {j j' : OJob} (hj : j ∈ s.jobs c)
    (hid : j'.id = j.id) (hjob : j'.job = j.job) (hop : j'.opened = j.opened) : WFp (settle s c j') := by
  unfold settle
  by_cases hdone : (!j'.scanning && j'.inflight.isEmpty) = true
  · rw [if_pos hdone]; exact wfp_closeSt hw c hj hid hjob
  · rw [if_neg hdone]
    refine wfp_updJob hw c hj hid hjob hop ?_
    cases hs : j'.scanning with
    | true => exact Or.inl rfl
    | false =>
      right
      intro he
      apply hdone
      simp [hs, he]

/-! ### the steps -/

theorem ids_sub_of_perm {q q' : PQ} {pe : Elt} (hperm : q.toList.Perm (pe :: q'.toList)) {i : Nat} (hi : i ∈ ids q') :
    i ∈ ids q := by
  obtain ⟨e, he, hei⟩ := List.mem_map.mp hi
  exact List.mem_map.mpr ⟨e, hperm.mem_iff.mpr (List.mem_cons_of_mem _ he), hei⟩

theorem openSt_cases (s : PSt) (c : Chan) :
    openSt s c = s ∨
    (s.up = true ∧ s.exitasap = false ∧ ∃ pe q' m, passStart s.h.clock true (s.h.q c) = some (pe, q') ∧
      s.h.find pe.id = some m ∧
      openSt s c = (s.setJobs c ({ id := pe.id, job := jobOpen s.h.clock s.h.lifetime m.birth c, opened := s.h.clock } :: s.jobs c)).setH
        (s.h.setQ c q')) := by
  unfold openSt
  by_cases hg : (!s.up || s.exitasap || (s.jobs c).any (·.scanning)) = true
  · left; rw [if_pos hg]
  · rw [if_neg hg]
    have hup : s.up = true := by
      cases h : s.up with
      | true => rfl
      | false => exfalso; apply hg; simp [h]
    have hex : s.exitasap = false := by
      cases h : s.exitasap with
      | false => rfl
      | true => exfalso; apply hg; simp [h]
    cases hp : passStart s.h.clock true (s.h.q c) with
    | none => left; rfl
    | some rr =>
      obtain ⟨pe, q'⟩ := rr
      cases hm : s.h.find pe.id with
      | none => left; simp only [hm]
      | some m => right; exact ⟨hup, hex, pe, q', m, rfl, hm, by simp only [hm]⟩

theorem wfp_openSt {s : PSt} (hw : WFp s) (c : Chan) : WFp (openSt s c) := by
  rcases openSt_cases s c with h | ⟨_, _, pe, q', m0, hp, hm0, h⟩
  · rw [h]; exact hw
  · rw [h]
    obtain ⟨hdue, hmin, hperm, hh', hmem, hnot, hnd, m, recs, hm, hr⟩ := start_facts hw.wf hp
    rw [hm0] at hm; cases hm
    have hpid : pe.id ∈ ids (s.h.q c) := List.mem_map_of_mem hmem
    have hwf1 : WF (s.h.setQ c q') := by
      rw [setQ_eq_mkSt]
      refine wf_mkSt hw.wf c q' s.h.done hh' hw.wf.heapDone hnd ?_
      intro e he
      exact hw.wf.hasFile c e (hperm.mem_iff.mpr (List.mem_cons_of_mem _ he))
    refine ⟨by rw [setH_h]; exact hwf1, ?_, ?_, ?_, ?_⟩
    · intro c' x hx
      rw [setH_h]; rw [setH_jobs] at hx
      by_cases hc : c' = c
      · subst hc; rw [setJobs_same] at hx; rw [setQ_q_same]
        rcases List.mem_cons.mp hx with hx | hx
        · subst hx; exact hnot
        · exact fun hi => hw.jobNotQ _ x hx (ids_sub_of_perm hperm hi)
      · rw [setJobs_other _ _ _ _ hc] at hx; rw [setQ_q_other _ _ _ _ hc]; exact hw.jobNotQ c' x hx
    · intro c'
      rw [setH_jobs]
      by_cases hc : c' = c
      · subst hc; rw [setJobs_same]
        simp only [List.map_cons]
        refine List.nodup_cons.mpr ⟨?_, hw.jobNodup _⟩
        intro hi
        obtain ⟨x, hx, hxi⟩ := List.mem_map.mp hi
        exact hw.jobNotQ _ x hx (by rw [hxi]; exact hpid)
      · rw [setJobs_other _ _ _ _ hc]; exact hw.jobNodup c'
    · intro c' x hx
      rw [setH_h, setQ_find]; rw [setH_jobs] at hx
      by_cases hc : c' = c
      · subst hc; rw [setJobs_same] at hx
        rcases List.mem_cons.mp hx with hx | hx
        · subst hx; exact ⟨m0, hm0, by rw [hr]; rfl, rfl⟩
        · exact hw.jobFile _ x hx
      · rw [setJobs_other _ _ _ _ hc] at hx; exact hw.jobFile c' x hx
    · intro c' x hx
      rw [setH_jobs] at hx
      by_cases hc : c' = c
      · subst hc; rw [setJobs_same] at hx
        rcases List.mem_cons.mp hx with hx | hx
        · subst hx; exact Or.inl rfl
        · exact hw.jobLive _ x hx
      · rw [setJobs_other _ _ _ _ hc] at hx; exact hw.jobLive c' x hx

theorem advance_id (j : OJob) (recs : List Bool) : (advance j recs).id = j.id := by
  unfold advance; split; rfl; split <;> rfl
theorem advance_job (j : OJob) (recs : List Bool) : (advance j recs).job = j.job := by
  unfold advance; split; rfl; split <;> rfl
theorem advance_opened (j : OJob) (recs : List Bool) : (advance j recs).opened = j.opened := by
  unfold advance; split; rfl; split <;> rfl
theorem advance_deferred (j : OJob) (recs : List Bool) : (advance j recs).deferred = j.deferred := by
  unfold advance; split; rfl; split <;> rfl

theorem nextSt_cases (s : PSt) (c : Chan) :
    nextSt s c = s ∨ (s.up = true ∧ ∃ j recs, j ∈ s.jobs c ∧ nextSt s c = settle s c (advance j recs)) := by
  unfold nextSt
  by_cases hg : (!s.up || s.exitasap) = true
  · left; rw [if_pos hg]
  · rw [if_neg hg]
    have hup : s.up = true := by
      cases h : s.up with
      | true => rfl
      | false => exfalso; apply hg; simp [h]
    cases hj : (s.jobs c).find? (·.scanning) with
    | none => left; rfl
    | some j =>
      cases hr : (s.h.find j.id).bind (·.recs c) with
      | none => left; simp only [hr]
      | some recs => right; exact ⟨hup, j, recs, (find_job_mem hj).1, by simp only [hr]⟩

theorem wfp_nextSt {s : PSt} (hw : WFp s) (c : Chan) : WFp (nextSt s c) := by
  rcases nextSt_cases s c with h | ⟨_, j, recs, hj, h⟩
  · rw [h]; exact hw
  · rw [h]; exact wfp_settle hw c hj (advance_id j recs) (advance_job j recs) (advance_opened j recs)

/-- a record of message `m` on channel `c` is marked done on disk -/
theorem wfp_mark {s : PSt} (hw : WFp s) (c : Chan) {m : Msg} (hm : s.h.find m.id = some m) (f : List Bool → List Bool) :
    WFp (s.setH (s.h.update (m.setRecs c ((m.recs c).map f)))) := by
  have hsome : ∀ c', ((m.setRecs c ((m.recs c).map f)).recs c').isSome = (m.recs c').isSome := by
    intro c'
    by_cases hc : c' = c
    · subst hc; rw [setRecs_same]; cases m.recs c' <;> rfl
    · rw [setRecs_other _ _ _ _ hc]
  have hfm : s.h.find (m.setRecs c ((m.recs c).map f)).id = some m := by rw [setRecs_id]; exact hm
  refine ⟨?_, ?_, ?_, ?_, ?_⟩
  · rw [setH_h]
    refine wf_update hw.wf m _ hfm ?_
    intro c' hmem
    rw [setRecs_id] at hmem
    obtain ⟨e, he, hei⟩ := List.mem_map.mp hmem
    obtain ⟨m2, hm2, hr2⟩ := hw.wf.hasFile c' e he
    rw [hei, hm] at hm2; cases hm2
    rw [hsome]; exact hr2
  · intro c' x hx; rw [setH_h, update_q]; rw [setH_jobs] at hx; exact hw.jobNotQ c' x hx
  · intro c'; rw [setH_jobs]; exact hw.jobNodup c'
  · intro c' x hx
    rw [setH_jobs] at hx; rw [setH_h]
    obtain ⟨mx, hmx, hrx, hretx⟩ := hw.jobFile c' x hx
    rw [find_update _ _ m hfm, setRecs_id]
    by_cases hi : x.id = m.id
    · rw [if_pos hi]
      rw [hi, hm] at hmx; cases hmx
      exact ⟨_, rfl, by rw [hsome]; exact hrx, by rw [setRecs_birth]; exact hretx⟩
    · rw [if_neg hi]; exact ⟨mx, hmx, hrx, hretx⟩
  · intro c' x hx; rw [setH_jobs] at hx; exact hw.jobLive c' x hx

theorem reportSt_cases (s : PSt) (c : Chan) (i pos : Nat) (letter : Byte) :
    reportSt s c i pos letter = s ∨
    (s.up = true ∧ ∃ j m, j ∈ s.jobs c ∧ j.id = i ∧ s.h.find i = some m ∧
      (((report j.job.dying letter (str "report\n")).staysTodo = true ∧
        reportSt s c i pos letter = settle s c { j with inflight := j.inflight.erase pos, deferred := j.deferred + 1 }) ∨
       ((report j.job.dying letter (str "report\n")).staysTodo = false ∧
        reportSt s c i pos letter =
          settle (s.setH (s.h.update (m.setRecs c ((m.recs c).map fun r => r.set pos false)))) c
            { j with inflight := j.inflight.erase pos }))) := by
  unfold reportSt
  by_cases hg : (!s.up) = true
  · left; rw [if_pos hg]
  · rw [if_neg hg]
    have hup : s.up = true := by
      cases h : s.up with
      | true => rfl
      | false => exfalso; apply hg; simp [h]
    cases hj : s.job? c i with
    | none => left; rfl
    | some j =>
      have hjm := find_job_mem (show (s.jobs c).find? (·.id == i) = some j from hj)
      have hji : j.id = i := by simpa using hjm.2
      simp only
      by_cases hc : (!j.inflight.contains pos) = true
      · left; rw [if_pos hc]
      · rw [if_neg hc]
        cases hm : s.h.find i with
        | none => left; rfl
        | some m =>
          right
          refine ⟨hup, j, m, hjm.1, hji, rfl, ?_⟩
          simp only
          by_cases hs : (report j.job.dying letter (str "report\n")).staysTodo = true
          · left; exact ⟨hs, by rw [if_pos hs]⟩
          · right
            have hs' : (report j.job.dying letter (str "report\n")).staysTodo = false := by simpa using hs
            exact ⟨hs', by rw [if_neg hs]⟩

theorem wfp_reportSt {s : PSt} (hw : WFp s) (c : Chan) (i pos : Nat) (letter : Byte) : WFp (reportSt s c i pos letter) := by
  rcases reportSt_cases s c i pos letter with h | ⟨_, j, m, hj, hji, hm, ⟨_, h⟩ | ⟨_, h⟩⟩
  · rw [h]; exact hw
  · rw [h]; exact wfp_settle hw c hj rfl rfl rfl
  · rw [h]
    have hmid : m.id = i := (find_some hm).2
    have hw1 := wfp_mark hw c (m := m) (by rw [hmid]; exact hm) (fun r => r.set pos false)
    exact wfp_settle hw1 c (j := j) (by rw [setH_jobs]; exact hj) rfl rfl rfl

theorem wf_finWrite1 {h : HSt} (hwf : WF h) (c : Chan) (e : Elt) : WF (finWrite1 c h e) := by
  unfold finWrite1
  cases hm : h.find e.id with
  | none => exact hwf
  | some m =>
    simp only
    have hmid : m.id = e.id := (find_some hm).2
    refine wf_update hwf m _ (by rw [setMt_id, hmid]; exact hm) ?_
    intro c' hmem
    rw [setMt_id] at hmem
    obtain ⟨x, hx, hxi⟩ := List.mem_map.mp hmem
    obtain ⟨m2, hm2, hr2⟩ := hwf.hasFile c' x hx
    rw [hxi, hmid, hm] at hm2; cases hm2
    rw [setMt_recs]; exact hr2

theorem wf_cutWrite {h : HSt} (hwf : WF h) (c : Chan) (j : OJob) : WF (cutWrite c h j) := by
  unfold cutWrite; split
  · exact wf_finWrite1 hwf c _
  · exact hwf

theorem wf_foldl_cutWrite (c : Chan) : ∀ (l : List OJob) {h : HSt}, WF h → WF (l.foldl (cutWrite c) h) := by
  intro l
  induction l with
  | nil => intro h hwf; exact hwf
  | cons x r ih => intro h hwf; exact ih (wf_cutWrite hwf c x)

theorem pfinSt_cases (persist : Bool) (s : PSt) :
    pfinSt persist s = s ∨
    (s.up = true ∧ s.exitasap = true ∧ nothingInFlight s = true ∧
      pfinSt persist s = { h := if persist then s.j1.foldl (cutWrite .rem) (s.j0.foldl (cutWrite .loc) (finSt s.h)) else finSt s.h,
                           j0 := [], j1 := [], exitasap := true, up := false }) := by
  unfold pfinSt
  by_cases hg : (!s.up || !s.exitasap || !nothingInFlight s) = true
  · left; rw [if_pos hg]
  · right; rw [if_neg hg]
    refine ⟨?_, ?_, ?_, rfl⟩
    · cases h : s.up with
      | true => rfl
      | false => exfalso; apply hg; simp [h]
    · cases h : s.exitasap with
      | true => rfl
      | false => exfalso; apply hg; simp [h]
    · cases h : nothingInFlight s with
      | true => rfl
      | false => exfalso; apply hg; simp [h]

theorem wfp_pfinSt {s : PSt} (hw : WFp s) (persist : Bool) : WFp (pfinSt persist s) := by
  rcases pfinSt_cases persist s with h | ⟨_, _, _, h⟩
  · rw [h]; exact hw
  · rw [h]
    apply wfp_init
    cases persist with
    | false => exact wf_finSt hw.wf
    | true => exact wf_foldl_cutWrite .rem _ (wf_foldl_cutWrite .loc _ (wf_finSt hw.wf))

theorem wfp_ploadSt {s : PSt} (hw : WFp s) : WFp (ploadSt s) := by
  unfold ploadSt; split
  · exact hw
  · exact wfp_init _ (wf_loadSt hw.wf.nodupMsgs) _ _

/-- `WFp` is an invariant of every quiet step (clock ticks, TERM, exit, restart, and the three kinds of pass work on
either channel) -/
theorem wfp_pstep {s : PSt} (hw : WFp s) (persist : Bool) (x : PStep) (hq : x.quiet = true) : WFp (pstep persist s x) := by
  cases x with
  | mk => cases hq
  | alrm => cases hq
  | tick d => exact wfp_tick hw _
  | term => exact wfp_term hw
  | fin => exact wfp_pfinSt hw persist
  | load => exact wfp_ploadSt hw
  | «open» c => exact wfp_openSt hw c
  | next c => exact wfp_nextSt hw c
  | report c i pos letter => exact wfp_reportSt hw c i pos letter

/-! ### the back-off obligation -/

/-- message `i` owes the back-off time `r` on channel `c`: the clock has reached `r`, or every trace of the message on
that channel lies at or after `r` — every heap entry, every open job (which moreover has a deferred recipient, so
that job_close will put it back at its retry time), the persisted mtime while no process runs — and, while a
process runs and the channel file exists, there is such a trace. -/
def OwedP (i : Nat) (c : Chan) (r : Int) (s : PSt) : Prop :=
  r ≤ s.h.clock ∨
  ((∀ e ∈ (s.h.q c).toList, e.id = i → r ≤ e.dt) ∧
   (∀ j ∈ s.jobs c, j.id = i → r ≤ j.job.retry ∧ 0 < j.deferred) ∧
   (s.up = false → ∀ m, s.h.find i = some m → (m.recs c).isSome = true → r ≤ m.mt c) ∧
   (s.up = true → ∀ m, s.h.find i = some m → (m.recs c).isSome = true → i ∈ ids (s.h.q c) ∨ ∃ j ∈ s.jobs c, j.id = i))

theorem tick_q (s : PSt) (t : Int) (c : Chan) : (s.setH { s.h with clock := t }).h.q c = s.h.q c := by cases c <;> rfl

theorem owed_tick {i : Nat} {c : Chan} {r : Int} {s : PSt} (ho : OwedP i c r s) (d : Nat) :
    OwedP i c r (s.setH { s.h with clock := s.h.clock + d }) := by
  rcases ho with h | ⟨h1, h2, h3, h4⟩
  · left; show r ≤ s.h.clock + d; omega
  · right
    refine ⟨by rw [tick_q]; exact h1, by rw [setH_jobs]; exact h2, h3, ?_⟩
    intro hup m hm hr
    rw [tick_q, setH_jobs]; exact h4 hup m hm hr

theorem owed_term {i : Nat} {c : Chan} {r : Int} {s : PSt} (ho : OwedP i c r s) : OwedP i c r { s with exitasap := true } := by
  rcases ho with h | ⟨h1, h2, h3, h4⟩
  · exact Or.inl h
  · right
    refine ⟨h1, ?_, h3, ?_⟩
    · intro j hj; exact h2 j (by cases c <;> exact hj)
    · intro hup m hm hr
      rcases h4 hup m hm hr with h | ⟨j, hj, hji⟩
      · exact Or.inl h
      · exact Or.inr ⟨j, by cases c <;> exact hj, hji⟩

theorem owed_openSt {i : Nat} {c : Chan} {r : Int} {s : PSt} (hw : WFp s) (ho : OwedP i c r s) (c' : Chan) :
    OwedP i c r (openSt s c') := by
  rcases openSt_cases s c' with h | ⟨hup, _, pe, q', m0, hp, hm0, h⟩
  · rw [h]; exact ho
  · rw [h]
    rcases ho with hcl | ⟨h1, h2, h3, h4⟩
    · left; rw [setH_h, setQ_clock]; exact hcl
    · obtain ⟨hdue, _, hperm, _, hmem, _, _, _⟩ := start_facts hw.wf hp
      by_cases hc : c = c'
      · subst hc
        by_cases hpi : pe.id = i
        · left; rw [setH_h, setQ_clock]
          have := h1 pe hmem hpi; omega
        · right
          refine ⟨?_, ?_, ?_, ?_⟩
          · intro e he hei
            rw [setH_h, setQ_q_same] at he
            exact h1 e (hperm.mem_iff.mpr (List.mem_cons_of_mem _ he)) hei
          · intro j hj hji
            rw [setH_jobs, setJobs_same] at hj
            rcases List.mem_cons.mp hj with hj | hj
            · subst hj; exact absurd hji hpi
            · exact h2 j hj hji
          · intro hdown; rw [setH_up, setJobs_up, hup] at hdown; cases hdown
          · intro _ m hm hr
            rw [setH_h, setQ_find] at hm
            rw [setH_h, setQ_q_same, setH_jobs, setJobs_same]
            rcases h4 hup m hm hr with hq | ⟨j, hj, hji⟩
            · left
              obtain ⟨e, he, hei⟩ := List.mem_map.mp hq
              rcases List.mem_cons.mp (hperm.mem_iff.mp he) with hep | hep
              · subst hep; exact absurd hei hpi
              · exact List.mem_map.mpr ⟨e, hep, hei⟩
            · exact Or.inr ⟨j, List.mem_cons_of_mem _ hj, hji⟩
      · right
        have hc' : c ≠ c' := hc
        refine ⟨?_, ?_, ?_, ?_⟩
        · rw [setH_h, setQ_q_other _ _ _ _ hc']; exact h1
        · rw [setH_jobs, setJobs_other _ _ _ _ hc']; exact h2
        · intro hdown; rw [setH_up, setJobs_up, hup] at hdown; cases hdown
        · intro _ m hm hr
          rw [setH_h, setQ_find] at hm
          rw [setH_h, setQ_q_other _ _ _ _ hc', setH_jobs, setJobs_other _ _ _ _ hc']
          exact h4 hup m hm hr

theorem updJob_has {l : List OJob} {j' : OJob} {i : Nat} (h : ∃ x ∈ l, x.id = i) : ∃ y ∈ updJob l j', y.id = i := by
  obtain ⟨x, hx, hxi⟩ := h
  have : i ∈ (updJob l j').map (·.id) := by rw [updJob_ids]; exact List.mem_map.mpr ⟨x, hx, hxi⟩
  obtain ⟨y, hy, hyi⟩ := List.mem_map.mp this
  exact ⟨y, hy, hyi⟩

/-- `find` after `job_close` put the message back into its channel heap -/
theorem closeH_find_kept {h : HSt} {c : Chan} {j' : OJob} {m : Msg} (hm : h.find m.id = some m) (i : Nat) :
    ((mkSt h c ((h.q c).insert { dt := j'.job.retry, id := j'.id }) h.done).update m).find i = h.find i := by
  rw [find_update _ m m (by rw [mkSt_find]; exact hm) i, mkSt_find]
  by_cases hi : i = m.id
  · rw [if_pos hi, hi]; exact hm.symm
  · rw [if_neg hi]

theorem owed_settle {i : Nat} {c : Chan} {r : Int} {s : PSt} (hw : WFp s) (hup : s.up = true) (ho : OwedP i c r s)
    (c' : Chan) {j j' : OJob} (hj : j ∈ s.jobs c') (hid : j'.id = j.id) (hjob : j'.job = j.job)
    (hdef : j.deferred ≤ j'.deferred) : OwedP i c r (settle s c' j') := by
  unfold settle
  by_cases hdone : (!j'.scanning && j'.inflight.isEmpty) = true
  · -- job_close
    rw [if_pos hdone]
    obtain ⟨m, hm, hrec, _⟩ := hw.jobFile c' j hj
    have hmid : m.id = j.id := (find_some hm).2
    have hcl : closeSt s c' j' = (s.setJobs c' (delJob (s.jobs c') j.id)).setH (closeH s.h c' j' m) := by
      unfold closeSt; rw [hid, hm]
    rw [hcl]
    rcases ho with hclk | ⟨h1, h2, h3, h4⟩
    · left
      rw [setH_h]
      rcases closeH_cases s.h c' j' m with ⟨_, hH⟩ | ⟨_, d', _, hH⟩ <;> rw [hH, update_clock, mkSt_clock] <;> exact hclk
    · right
      rcases closeH_cases s.h c' j' m with ⟨hd, hH⟩ | ⟨hd, d', _, hH⟩
      · -- recipients left: back into the heap at retry
        have hfind := fun i => closeH_find_kept (h := s.h) (c := c') (j' := j') (m := m) (by rw [hmid]; exact hm) i
        by_cases hc : c = c'
        · subst hc
          refine ⟨?_, ?_, ?_, ?_⟩
          · intro e he hei
            rw [setH_h, hH, update_q, mkSt_q_same] at he
            rcases (mem_insert _ _ _ (hw.wf.heap c)).mp he with hee | hee
            · subst hee
              have := h2 j hj (by rw [← hid]; exact hei)
              show r ≤ j'.job.retry
              rw [hjob]; exact this.1
            · exact h1 e hee hei
          · intro x hx hxi
            rw [setH_jobs, setJobs_same] at hx
            exact h2 x (mem_delJob.mp hx).1 hxi
          · intro hdown; rw [setH_up, setJobs_up, hup] at hdown; cases hdown
          · intro _ m1 hm1 hr1
            rw [setH_h, hH, hfind] at hm1
            rw [setH_h, hH, update_q, mkSt_q_same, setH_jobs, setJobs_same]
            by_cases hij : i = j.id
            · left
              refine (ids_insert _ _ (hw.wf.heap c)).mem_iff.mpr (List.mem_cons.mpr (Or.inl ?_))
              show i = j'.id
              rw [hid]; exact hij
            · rcases h4 hup m1 hm1 hr1 with hq | ⟨x, hx, hxi⟩
              · left; exact (ids_insert _ _ (hw.wf.heap c)).mem_iff.mpr (List.mem_cons_of_mem _ hq)
              · right; exact ⟨x, mem_delJob.mpr ⟨hx, by rw [hxi]; exact hij⟩, hxi⟩
        · have hc' : c ≠ c' := hc
          refine ⟨?_, ?_, ?_, ?_⟩
          · rw [setH_h, hH, update_q, mkSt_q_other _ _ _ _ _ hc']; exact h1
          · rw [setH_jobs, setJobs_other _ _ _ _ hc']; exact h2
          · intro hdown; rw [setH_up, setJobs_up, hup] at hdown; cases hdown
          · intro _ m1 hm1 hr1
            rw [setH_h, hH, hfind] at hm1
            rw [setH_h, hH, update_q, mkSt_q_other _ _ _ _ _ hc', setH_jobs, setJobs_other _ _ _ _ hc']
            exact h4 hup m1 hm1 hr1
      · -- every recipient done: the channel file is removed
        have hfm : (mkSt s.h c' (s.h.q c') d').find (m.setRecs c' none).id = some m := by
          rw [mkSt_find, setRecs_id, hmid]; exact hm
        by_cases hc : c = c'
        · subst hc
          refine ⟨?_, ?_, ?_, ?_⟩
          · rw [setH_h, hH, update_q, mkSt_q_same]; exact h1
          · intro x hx hxi
            rw [setH_jobs, setJobs_same] at hx
            exact h2 x (mem_delJob.mp hx).1 hxi
          · intro hdown; rw [setH_up, setJobs_up, hup] at hdown; cases hdown
          · intro _ m1 hm1 hr1
            rw [setH_h, hH, find_update _ _ m hfm, mkSt_find, setRecs_id] at hm1
            rw [setH_h, hH, update_q, mkSt_q_same, setH_jobs, setJobs_same]
            by_cases hi : i = m.id
            · rw [if_pos hi] at hm1; cases hm1
              rw [setRecs_same] at hr1; cases hr1
            · rw [if_neg hi] at hm1
              rcases h4 hup m1 hm1 hr1 with hq | ⟨x, hx, hxi⟩
              · exact Or.inl hq
              · right; exact ⟨x, mem_delJob.mpr ⟨hx, by rw [hxi, ← hmid]; exact hi⟩, hxi⟩
        · have hc' : c ≠ c' := hc
          refine ⟨?_, ?_, ?_, ?_⟩
          · rw [setH_h, hH, update_q, mkSt_q_other _ _ _ _ _ hc']; exact h1
          · rw [setH_jobs, setJobs_other _ _ _ _ hc']; exact h2
          · intro hdown; rw [setH_up, setJobs_up, hup] at hdown; cases hdown
          · intro _ m1 hm1 hr1
            rw [setH_h, hH, find_update _ _ m hfm, mkSt_find, setRecs_id] at hm1
            rw [setH_h, hH, update_q, mkSt_q_other _ _ _ _ _ hc', setH_jobs, setJobs_other _ _ _ _ hc']
            by_cases hi : i = m.id
            · rw [if_pos hi] at hm1; cases hm1
              rw [setRecs_other _ _ _ _ hc'] at hr1
              exact h4 hup m (by rw [hi]; rw [hmid]; exact hm) hr1
            · rw [if_neg hi] at hm1; exact h4 hup m1 hm1 hr1
  · -- the job stays open
    rw [if_neg hdone]
    rcases ho with hclk | ⟨h1, h2, h3, h4⟩
    · left; rw [setJobs_h]; exact hclk
    · right
      by_cases hc : c = c'
      · subst hc
        refine ⟨by rw [setJobs_h]; exact h1, ?_, ?_, ?_⟩
        · intro x hx hxi
          rw [setJobs_same] at hx
          rcases mem_updJob hx with hxe | ⟨hxl, _⟩
          · subst hxe
            obtain ⟨a, b⟩ := h2 j hj (by rw [← hid]; exact hxi)
            exact ⟨by rw [hjob]; exact a, by omega⟩
          · exact h2 x hxl hxi
        · intro hdown; rw [setJobs_up, hup] at hdown; cases hdown
        · intro _ m1 hm1 hr1
          rw [setJobs_h] at hm1
          rw [setJobs_h, setJobs_same]
          rcases h4 hup m1 hm1 hr1 with hq | hjx
          · exact Or.inl hq
          · exact Or.inr (updJob_has hjx)
      · have hc' : c ≠ c' := hc
        refine ⟨by rw [setJobs_h]; exact h1, by rw [setJobs_other _ _ _ _ hc']; exact h2, ?_, ?_⟩
        · intro hdown; rw [setJobs_up, hup] at hdown; cases hdown
        · intro _ m1 hm1 hr1
          rw [setJobs_h] at hm1
          rw [setJobs_h, setJobs_other _ _ _ _ hc']
          exact h4 hup m1 hm1 hr1

theorem owed_nextSt {i : Nat} {c : Chan} {r : Int} {s : PSt} (hw : WFp s) (ho : OwedP i c r s) (c' : Chan) :
    OwedP i c r (nextSt s c') := by
  rcases nextSt_cases s c' with h | ⟨hup, j, recs, hj, h⟩
  · rw [h]; exact ho
  · rw [h]
    exact owed_settle hw hup ho c' hj (advance_id j recs) (advance_job j recs) (by rw [advance_deferred]; exact Nat.le_refl _)

theorem owed_mark {i : Nat} {c : Chan} {r : Int} {s : PSt} (ho : OwedP i c r s) (c' : Chan) {m : Msg}
    (hm : s.h.find m.id = some m) (f : List Bool → List Bool) :
    OwedP i c r (s.setH (s.h.update (m.setRecs c' ((m.recs c').map f)))) := by
  have hsome : ∀ c2, ((m.setRecs c' ((m.recs c').map f)).recs c2).isSome = (m.recs c2).isSome := by
    intro c2
    by_cases hc : c2 = c'
    · subst hc; rw [setRecs_same]; cases m.recs c2 <;> rfl
    · rw [setRecs_other _ _ _ _ hc]
  have hfm : s.h.find (m.setRecs c' ((m.recs c').map f)).id = some m := by rw [setRecs_id]; exact hm
  have hback : ∀ m1, (s.h.update (m.setRecs c' ((m.recs c').map f))).find i = some m1 → (m1.recs c).isSome = true →
      ∃ m0, s.h.find i = some m0 ∧ (m0.recs c).isSome = true ∧ m1.mt c = m0.mt c := by
    intro m1 hm1 hr1
    rw [find_update _ _ m hfm, setRecs_id] at hm1
    by_cases hi : i = m.id
    · rw [if_pos hi] at hm1; cases hm1
      exact ⟨m, by rw [hi]; exact hm, by rw [← hsome]; exact hr1, by rw [setRecs_mt]⟩
    · rw [if_neg hi] at hm1; exact ⟨m1, hm1, hr1, rfl⟩
  rcases ho with hclk | ⟨h1, h2, h3, h4⟩
  · left; rw [setH_h, update_clock]; exact hclk
  · right
    refine ⟨by rw [setH_h, update_q]; exact h1, by rw [setH_jobs]; exact h2, ?_, ?_⟩
    · intro hdown m1 hm1 hr1
      rw [setH_h] at hm1
      obtain ⟨m0, hm0, hr0, hmt⟩ := hback m1 hm1 hr1
      rw [hmt]; exact h3 hdown m0 hm0 hr0
    · intro hup' m1 hm1 hr1
      rw [setH_h] at hm1
      obtain ⟨m0, hm0, hr0, _⟩ := hback m1 hm1 hr1
      rw [setH_h, update_q, setH_jobs]; exact h4 hup' m0 hm0 hr0

theorem owed_reportSt {i : Nat} {c : Chan} {r : Int} {s : PSt} (hw : WFp s) (ho : OwedP i c r s)
    (c' : Chan) (i' pos : Nat) (letter : Byte) : OwedP i c r (reportSt s c' i' pos letter) := by
  rcases reportSt_cases s c' i' pos letter with h | ⟨hup, j, m, hj, hji, hm, ⟨_, h⟩ | ⟨_, h⟩⟩
  · rw [h]; exact ho
  · rw [h]; exact owed_settle hw hup ho c' hj rfl rfl (Nat.le_succ _)
  · rw [h]
    have hmid : m.id = i' := (find_some hm).2
    have hm' : s.h.find m.id = some m := by rw [hmid]; exact hm
    have hw1 := wfp_mark hw c' hm' (fun r => r.set pos false)
    have ho1 := owed_mark ho c' hm' (fun r => r.set pos false)
    exact owed_settle hw1 (by rw [setH_up]; exact hup) ho1 c' (j := j) (by rw [setH_jobs]; exact hj) rfl rfl (Nat.le_refl _)

/-! ### exit and restart -/

/-- what the `pass_finish()` writes for the jobs `l` of channel `c` do to the record of message `i` -/
def cutMt (c : Chan) (l : List OJob) (i : Nat) (m : Msg) : Msg :=
  l.foldl (fun m j => if (j.scanning && decide (0 < j.deferred)) = true ∧ i = j.id then m.setMt c j.job.retry else m) m

theorem cutWrite_find (c : Chan) (h : HSt) (j : OJob) (i : Nat) :
    (cutWrite c h j).find i =
      (h.find i).map (fun m => if (j.scanning && decide (0 < j.deferred)) = true ∧ i = j.id then m.setMt c j.job.retry else m) := by
  unfold cutWrite
  by_cases hq : (j.scanning && decide (0 < j.deferred)) = true
  · rw [if_pos hq, finWrite1_find]
    cases h.find i with
    | none => rfl
    | some m =>
      simp only [Option.map_some]
      by_cases hi : i = j.id
      · rw [if_pos hi, if_pos ⟨hq, hi⟩]
      · rw [if_neg hi, if_neg (fun h => hi h.2)]
  · rw [if_neg hq]
    cases h.find i with
    | none => rfl
    | some m => simp only [Option.map_some]; rw [if_neg (fun h => hq h.1)]

theorem foldl_cutWrite_find (c : Chan) : ∀ (l : List OJob) (h : HSt) (i : Nat),
    (l.foldl (cutWrite c) h).find i = (h.find i).map (cutMt c l i) := by
  intro l
  induction l with
  | nil => intro h i; show h.find i = (h.find i).map (fun m => m); cases h.find i <;> rfl
  | cons x r ih =>
    intro h i
    show (r.foldl (cutWrite c) (cutWrite c h x)).find i = _
    rw [ih, cutWrite_find]
    cases h.find i <;> rfl

theorem cutWrite_frame (c : Chan) (h : HSt) (j : OJob) :
    (cutWrite c h j).q0 = h.q0 ∧ (cutWrite c h j).q1 = h.q1 ∧ (cutWrite c h j).clock = h.clock := by
  unfold cutWrite; split
  · obtain ⟨a, b, _, d, _⟩ := finWrite1_frame c h { dt := j.job.retry, id := j.id }; exact ⟨a, b, d⟩
  · exact ⟨rfl, rfl, rfl⟩

theorem foldl_cutWrite_frame (c : Chan) : ∀ (l : List OJob) (h : HSt),
    (l.foldl (cutWrite c) h).q0 = h.q0 ∧ (l.foldl (cutWrite c) h).q1 = h.q1 ∧ (l.foldl (cutWrite c) h).clock = h.clock := by
  intro l
  induction l with
  | nil => intro h; exact ⟨rfl, rfl, rfl⟩
  | cons x r ih =>
    intro h
    obtain ⟨a1, a2, a3⟩ := ih (cutWrite c h x)
    obtain ⟨b1, b2, b3⟩ := cutWrite_frame c h x
    exact ⟨a1.trans b1, a2.trans b2, a3.trans b3⟩

theorem cutMt_spec (c : Chan) (i : Nat) : ∀ (l : List OJob) (m : Msg),
    (∀ c', (cutMt c l i m).recs c' = m.recs c') ∧ (∀ c', c' ≠ c → (cutMt c l i m).mt c' = m.mt c') ∧
    ((cutMt c l i m).mt c = m.mt c ∨ ∃ j ∈ l, j.id = i ∧ (cutMt c l i m).mt c = j.job.retry) ∧
    ((∃ j ∈ l, j.id = i ∧ j.scanning = true ∧ 0 < j.deferred) → ∃ j ∈ l, j.id = i ∧ (cutMt c l i m).mt c = j.job.retry) := by
  intro l
  induction l with
  | nil =>
    intro m
    exact ⟨fun _ => rfl, fun _ _ => rfl, Or.inl rfl, fun ⟨j, hj, _⟩ => by cases hj⟩
  | cons x r ih =>
    intro m
    by_cases hq : (x.scanning && decide (0 < x.deferred)) = true ∧ i = x.id
    · have hstep : cutMt c (x :: r) i m = cutMt c r i (m.setMt c x.job.retry) := by
        unfold cutMt; rw [List.foldl_cons]; simp only [if_pos hq]
      rw [hstep]
      obtain ⟨p1, p2, p3, _⟩ := ih (m.setMt c x.job.retry)
      have hfin : ∃ j ∈ x :: r, j.id = i ∧ (cutMt c r i (m.setMt c x.job.retry)).mt c = j.job.retry := by
        rcases p3 with h | ⟨j, hj, hji, hjr⟩
        · exact ⟨x, List.mem_cons_self, hq.2.symm, by rw [h, setMt_same]⟩
        · exact ⟨j, List.mem_cons_of_mem _ hj, hji, hjr⟩
      refine ⟨fun c' => by rw [p1, setMt_recs], fun c' hc => by rw [p2 c' hc, setMt_other _ _ _ _ hc], Or.inr hfin, fun _ => hfin⟩
    · have hstep : cutMt c (x :: r) i m = cutMt c r i m := by
        unfold cutMt; rw [List.foldl_cons]; simp only [if_neg hq]
      rw [hstep]
      obtain ⟨p1, p2, p3, p4⟩ := ih m
      refine ⟨p1, p2, ?_, ?_⟩
      · rcases p3 with h | ⟨j, hj, hji, hjr⟩
        · exact Or.inl h
        · exact Or.inr ⟨j, List.mem_cons_of_mem _ hj, hji, hjr⟩
      · rintro ⟨j, hj, hji, hjs, hjd⟩
        rcases List.mem_cons.mp hj with hjx | hjr
        · subst hjx
          exfalso; apply hq
          exact ⟨by simp [hjs, hjd], hji.symm⟩
        · obtain ⟨j', hj', hji', hjr'⟩ := p4 ⟨j, hjr, hji, hjs, hjd⟩
          exact ⟨j', List.mem_cons_of_mem _ hj', hji', hjr'⟩

theorem cut_mt_ge (c : Chan) (l : List OJob) (i : Nat) (m : Msg) (r : Int)
    (hU : ∀ j ∈ l, j.id = i → r ≤ j.job.retry ∧ 0 < j.deferred) (hlive : ∀ j ∈ l, j.scanning = true)
    (hbase : r ≤ m.mt c ∨ ∃ j ∈ l, j.id = i) : r ≤ (cutMt c l i m).mt c := by
  obtain ⟨_, _, p3, p4⟩ := cutMt_spec c i l m
  rcases hbase with h | ⟨j, hj, hji⟩
  · rcases p3 with h3 | ⟨j, hj, hji, hjr⟩
    · rw [h3]; exact h
    · rw [hjr]; exact (hU j hj hji).1
  · obtain ⟨j', hj', hji', hjr'⟩ := p4 ⟨j, hj, hji, hlive j hj, (hU j hj hji).2⟩
    rw [hjr']; exact (hU j' hj' hji').1

theorem inflight_of_nothing {s : PSt} (h : nothingInFlight s = true) (c : Chan) : ∀ j ∈ s.jobs c, j.inflight = [] := by
  unfold nothingInFlight at h
  simp only [Bool.and_eq_true, List.all_eq_true, List.isEmpty_iff] at h
  intro j hj
  cases c
  · exact h.1 j hj
  · exact h.2 j hj

theorem lit_jobs (h : HSt) (e u : Bool) (c : Chan) : ({ h := h, j0 := [], j1 := [], exitasap := e, up := u } : PSt).jobs c = [] := by
  cases c <;> rfl

/-- the exit of the daemon keeps the obligation: with the repaired exit always; with the exit as it was, provided no job
of the message is open on that channel when the daemon exits (its pass was not cut short by TERM) -/
theorem owed_pfinSt {i : Nat} {c : Chan} {r : Int} {s : PSt} (hw : WFp s) (ho : OwedP i c r s) (persist : Bool)
    (hcut : persist = true ∨ s.job? c i = none) : OwedP i c r (pfinSt persist s) := by
  rcases pfinSt_cases persist s with h | ⟨hup, _, hnf, h⟩
  · rw [h]; exact ho
  · rw [h]
    obtain ⟨hq0, hq1, _, hclk, _, _, hfind⟩ := finSt_spec hw.wf
    rcases ho with hc | ⟨h1, h2, _, h4⟩
    · left
      show r ≤ (if persist then s.j1.foldl (cutWrite .rem) (s.j0.foldl (cutWrite .loc) (finSt s.h)) else finSt s.h).clock
      cases persist with
      | false => simp only [Bool.false_eq_true, if_false]; rw [hclk]; exact hc
      | true =>
        simp only [if_true]
        rw [(foldl_cutWrite_frame .rem _ _).2.2, (foldl_cutWrite_frame .loc _ _).2.2, hclk]; exact hc
    · right
      have hqe : ∀ c', ((if persist then s.j1.foldl (cutWrite .rem) (s.j0.foldl (cutWrite .loc) (finSt s.h)) else finSt s.h).q c').toList = [] := by
        intro c'
        cases persist with
        | false =>
          simp only [Bool.false_eq_true, if_false]
          cases c'
          · rw [show (finSt s.h).q .loc = (finSt s.h).q0 from rfl, hq0]
          · rw [show (finSt s.h).q .rem = (finSt s.h).q1 from rfl, hq1]
        | true =>
          simp only [if_true]
          obtain ⟨a0, a1, _⟩ := foldl_cutWrite_frame .rem s.j1 (s.j0.foldl (cutWrite .loc) (finSt s.h))
          obtain ⟨b0, b1, _⟩ := foldl_cutWrite_frame .loc s.j0 (finSt s.h)
          cases c'
          · show (List.foldl (cutWrite .rem) _ s.j1).q0.toList = []; rw [a0, b0, hq0]
          · show (List.foldl (cutWrite .rem) _ s.j1).q1.toList = []; rw [a1, b1, hq1]
      refine ⟨?_, ?_, ?_, ?_⟩
      · intro e he; rw [hqe c] at he; cases he
      · intro j hj; rw [lit_jobs] at hj; cases hj
      · intro _ m' hm' hr'
        obtain ⟨g, hg, hgp⟩ := hfind i
        -- the record before the exit
        cases hm : s.h.find i with
        | none =>
          exfalso
          cases persist with
          | false => simp only [Bool.false_eq_true, if_false] at hm'; rw [hg, hm] at hm'; cases hm'
          | true =>
            simp only [if_true] at hm'
            rw [foldl_cutWrite_find, foldl_cutWrite_find, hg, hm] at hm'; cases hm'
        | some m =>
          obtain ⟨_, _, g3, g4⟩ := hgp m
          have hbase : (m.recs c).isSome = true → r ≤ (g m).mt c ∨ ∃ j ∈ s.jobs c, j.id = i := by
            intro hfile
            rcases h4 hup m hm hfile with hq | hj
            · left
              obtain ⟨e, he, hei⟩ := List.mem_map.mp hq
              rw [(g4 c).1 e he hei]; exact h1 e he hei
            · exact Or.inr hj
          cases persist with
          | false =>
            simp only [Bool.false_eq_true, if_false] at hm' hr'
            rw [hg, hm] at hm'; cases hm'
            rw [g3 c] at hr'
            rcases hbase hr' with hb | ⟨j, hj, hji⟩
            · exact hb
            · exfalso
              rcases hcut with hp | hnone
              · cases hp
              · have := List.find?_eq_none.mp hnone j hj
                simp [hji] at this
          | true =>
            simp only [if_true] at hm' hr'
            rw [foldl_cutWrite_find, foldl_cutWrite_find, hg, hm] at hm'
            simp only [Option.map_some] at hm'
            cases hm'
            obtain ⟨a1, a2, _, _⟩ := cutMt_spec .rem i s.j1 (cutMt .loc s.j0 i (g m))
            obtain ⟨b1, b2, _, _⟩ := cutMt_spec .loc i s.j0 (g m)
            rw [a1, b1, g3 c] at hr'
            have hlive : ∀ c', ∀ j ∈ s.jobs c', j.scanning = true := by
              intro c' j hj
              rcases hw.jobLive c' j hj with hs | hs
              · exact hs
              · exact absurd (inflight_of_nothing hnf c' j hj) hs
            cases c with
            | loc =>
              rw [a2 .loc (by decide)]
              exact cut_mt_ge .loc s.j0 i (g m) r h2 (hlive .loc) (hbase hr')
            | rem =>
              refine cut_mt_ge .rem s.j1 i _ r h2 (hlive .rem) ?_
              rw [b2 .rem (by decide)]; exact hbase hr'
      · intro hu; cases hu

theorem owed_ploadSt {i : Nat} {c : Chan} {r : Int} {s : PSt} (hw : WFp s) (ho : OwedP i c r s) : OwedP i c r (ploadSt s) := by
  unfold ploadSt
  by_cases hup : s.up = true
  · rw [if_pos hup]; exact ho
  · rw [if_neg hup]
    have hdown : s.up = false := by simpa using hup
    rcases ho with hc | ⟨_, _, h3, _⟩
    · exact Or.inl hc
    · right
      refine ⟨?_, ?_, ?_, ?_⟩
      · intro e he hei
        obtain ⟨m, hm, hr, hem⟩ := (mem_loadSt_q s.h c e).mp he
        have hf := find_of_mem hw.wf.nodupMsgs hm
        have hmi : m.id = i := by rw [← hei, hem]
        rw [hem]
        exact h3 hdown m (by rw [← hmi]; exact hf) hr
      · intro j hj; rw [lit_jobs] at hj; cases hj
      · intro hu; cases hu
      · intro _ m hm hr
        left
        have hm' : s.h.find i = some m := hm
        refine List.mem_map.mpr ⟨{ dt := m.mt c, id := m.id }, (mem_loadSt_q s.h c _).mpr ⟨m, (find_some hm').1, hr, rfl⟩, (find_some hm').2⟩

/-! ### histories -/

theorem owed_pstep {i : Nat} {c : Chan} {r : Int} {s : PSt} (hw : WFp s) (ho : OwedP i c r s) (persist : Bool) (x : PStep)
    (hq : x.quiet = true) (hcut : persist = true ∨ NoCutAt i c s x) :
    OwedP i c r (pstep persist s x) := by
  cases x with
  | mk => cases hq
  | alrm => cases hq
  | tick d => exact owed_tick ho d
  | term => exact owed_term ho
  | fin => exact owed_pfinSt hw ho persist hcut
  | load => exact owed_ploadSt hw ho
  | «open» c' => exact owed_openSt hw ho c'
  | next c' => exact owed_nextSt hw ho c'
  | report c' i' pos letter => exact owed_reportSt hw ho c' i' pos letter

theorem owed_prun {i : Nat} {c : Chan} {r : Int} (persist : Bool) : ∀ (l : List PStep) (s : PSt), WFp s → OwedP i c r s →
    allQuiet l → (persist = true ∨ NoCut persist i c s l) →
    WFp (prun persist s l) ∧ OwedP i c r (prun persist s l) := by
  intro l
  induction l with
  | nil => intro s hw ho _ _; exact ⟨hw, ho⟩
  | cons x rest ih =>
    intro s hw ho hq hcut
    have hqx : x.quiet = true := hq x List.mem_cons_self
    have hcx : persist = true ∨ NoCutAt i c s x := by
      rcases hcut with h | h
      · exact Or.inl h
      · exact Or.inr h.1
    have hcr : persist = true ∨ NoCut persist i c (pstep persist s x) rest := by
      rcases hcut with h | h
      · exact Or.inl h
      · exact Or.inr h.2
    exact ih (pstep persist s x) (wfp_pstep hw persist x hqx) (owed_pstep hw ho persist x hqx hcx)
      (fun y hy => hq y (List.mem_cons_of_mem _ hy)) hcr

theorem wfp_prun (persist : Bool) : ∀ (l : List PStep) (s : PSt), WFp s → allQuiet l → WFp (prun persist s l) := by
  intro l
  induction l with
  | nil => intro s hw _; exact hw
  | cons x rest ih =>
    intro s hw hq
    exact ih (pstep persist s x) (wfp_pstep hw persist x (hq x List.mem_cons_self)) (fun y hy => hq y (List.mem_cons_of_mem _ hy))

/-- the report that leaves a record 'T' -/
theorem reportSt_stay {s : PSt} {c : Chan} {i pos : Nat} {letter : Byte} {j : OJob} {m : Msg}
    (hup : s.up = true) (hj : s.job? c i = some j) (hin : j.inflight.contains pos = true) (hm : s.h.find i = some m)
    (hstay : (report j.job.dying letter (str "report\n")).staysTodo = true) :
    reportSt s c i pos letter = settle s c { j with inflight := j.inflight.erase pos, deferred := j.deferred + 1 } := by
  unfold reportSt
  simp only [hup, Bool.not_true, Bool.false_eq_true, if_false, hj, hin, hm, hstay, if_true]

/-- the obligation is established by a report that leaves the record 'T' (deferral, or a mangled report) -/
theorem owed_init_report {s : PSt} (hw : WFp s) {c : Chan} {i pos : Nat} {letter : Byte} {j : OJob} {m : Msg}
    (hup : s.up = true) (hj : s.job? c i = some j) (hin : j.inflight.contains pos = true) (hm : s.h.find i = some m)
    (hstay : (report j.job.dying letter (str "report\n")).staysTodo = true) :
    OwedP i c j.job.retry (reportSt s c i pos letter) := by
  rw [reportSt_stay hup hj hin hm hstay]
  have hjm := find_job_mem (show (s.jobs c).find? (·.id == i) = some j from hj)
  have hji : j.id = i := by simpa using hjm.2
  have hnq := hw.jobNotQ c j hjm.1
  have hnoent : ∀ e ∈ (s.h.q c).toList, e.id = i → False := by
    intro e he hei; exact hnq (by rw [hji, ← hei]; exact List.mem_map_of_mem he)
  right
  unfold settle
  by_cases hdone : (!({ j with inflight := j.inflight.erase pos, deferred := j.deferred + 1 } : OJob).scanning &&
      ({ j with inflight := j.inflight.erase pos, deferred := j.deferred + 1 } : OJob).inflight.isEmpty) = true
  · rw [if_pos hdone]
    have hmid : m.id = j.id := by rw [hji]; exact (find_some hm).2
    have hm' : s.h.find j.id = some m := by rw [hji]; exact hm
    have hcl : closeSt s c { j with inflight := j.inflight.erase pos, deferred := j.deferred + 1 } =
        (s.setJobs c (delJob (s.jobs c) j.id)).setH (closeH s.h c { j with inflight := j.inflight.erase pos, deferred := j.deferred + 1 } m) := by
      unfold closeSt; simp only [hm']
    rw [hcl]
    rcases closeH_cases s.h c { j with inflight := j.inflight.erase pos, deferred := j.deferred + 1 } m with ⟨_, hH⟩ | ⟨hd, _⟩
    · have hfind := fun i' => closeH_find_kept (h := s.h) (c := c)
        (j' := { j with inflight := j.inflight.erase pos, deferred := j.deferred + 1 }) (m := m) (by rw [hmid]; exact hm') i'
      refine ⟨?_, ?_, ?_, ?_⟩
      · intro e he hei
        rw [setH_h, hH, update_q, mkSt_q_same] at he
        rcases (mem_insert _ _ _ (hw.wf.heap c)).mp he with hee | hee
        · subst hee; exact Int.le_refl _
        · exact absurd (hnoent e hee hei) id
      · intro x hx hxi
        rw [setH_jobs, setJobs_same] at hx
        exact absurd (hxi.trans hji.symm) (mem_delJob.mp hx).2
      · intro hdown; rw [setH_up, setJobs_up, hup] at hdown; cases hdown
      · intro _ _ _ _
        left
        rw [setH_h, hH, update_q, mkSt_q_same]
        exact (ids_insert _ _ (hw.wf.heap c)).mem_iff.mpr (List.mem_cons.mpr (Or.inl hji.symm))
    · exact absurd hd (Nat.succ_ne_zero _)
  · rw [if_neg hdone]
    refine ⟨?_, ?_, ?_, ?_⟩
    · intro e he hei; rw [setJobs_h] at he; exact absurd (hnoent e he hei) id
    · intro x hx hxi
      rw [setJobs_same] at hx
      rcases mem_updJob hx with hxe | ⟨_, hne⟩
      · subst hxe; exact ⟨Int.le_refl _, Nat.succ_pos _⟩
      · exact absurd (hxi.trans hji.symm) hne
    · intro hdown; rw [setJobs_up, hup] at hdown; cases hdown
    · intro _ _ _ _
      right
      rw [setJobs_same]
      exact updJob_has ⟨j, hjm.1, hji⟩

/-- the message `pass_dochan(c)` starts now -/
theorem startedP_some {s : PSt} {c : Chan} {pe : Elt} (h : startedP s c = some pe) :
    s.up = true ∧ ∃ q', passStart s.h.clock true (s.h.q c) = some (pe, q') := by
  unfold startedP at h
  by_cases hg : (!s.up || s.exitasap || (s.jobs c).any (·.scanning)) = true
  · rw [if_pos hg] at h; cases h
  · rw [if_neg hg] at h
    refine ⟨?_, ?_⟩
    · cases hu : s.up with
      | true => rfl
      | false => exfalso; apply hg; simp [hu]
    · cases hp : passStart s.h.clock true (s.h.q c) with
      | none => rw [hp] at h; cases h
      | some rr =>
        obtain ⟨pe', q'⟩ := rr
        rw [hp] at h
        simp only [Option.map_some] at h
        cases h; exact ⟨q', rfl⟩

/-- an obligation that holds when the message is started again: the clock has reached it -/
theorem owed_started {s : PSt} (hw : WFp s) {i : Nat} {c : Chan} {r : Int} (ho : OwedP i c r s) {pe : Elt}
    (hst : startedP s c = some pe) (hpe : pe.id = i) : r ≤ s.h.clock := by
  obtain ⟨_, q', hp⟩ := startedP_some hst
  obtain ⟨hdue, _, _, _, hmem, _⟩ := start_facts hw.wf hp
  rcases ho with h | ⟨h1, _, _, _⟩
  · exact h
  · have := h1 pe hmem hpe; omega

end Nq.Lemmas.SchedPass
