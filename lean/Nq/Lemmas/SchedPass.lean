/-
  Invariants of the fine-grained daemon histories `Nq.SchedPass.pstep` (passes that are not atomic):
  well-formedness `WFp`, and the back-off obligation `Owed` across clock ticks, work on either channel,
  reports, TERM, exit and restart.  Core Lean only.
-/
import Nq.Lemmas.SchedHist
import Nq.SchedPass
import Nq.Spec.SchedHist

namespace Nq.Lemmas.SchedPass
open Nq Nq.Sched Nq.SchedHist Nq.SchedPass Nq.Spec.SchedHist Nq.Lemmas.Sched Nq.Lemmas.SchedHist

/-! ### accessors -/

@[simp] theorem setJobs_same (s : PSt) (c : Chan) (l : List OJob) : (s.setJobs c l).jobs c = l := by cases c <;> rfl
theorem setJobs_other (s : PSt) (c c' : Chan) (l : List OJob) (h : c' ≠ c) : (s.setJobs c l).jobs c' = s.jobs c' := by
  cases c <;> cases c' <;> first | rfl | exact absurd rfl h
@[simp] theorem setJobs_h (s : PSt) (c : Chan) (l : List OJob) : (s.setJobs c l).h = s.h := by cases c <;> rfl
@[simp] theorem setJobs_up (s : PSt) (c : Chan) (l : List OJob) : (s.setJobs c l).up = s.up := by cases c <;> rfl
@[simp] theorem setJobs_exit (s : PSt) (c : Chan) (l : List OJob) : (s.setJobs c l).exitasap = s.exitasap := by cases c <;> rfl
@[simp] theorem setH_h (s : PSt) (h : HSt) : (s.setH h).h = h := rfl
@[simp] theorem setH_jobs (s : PSt) (h : HSt) (c : Chan) : (s.setH h).jobs c = s.jobs c := by cases c <;> rfl
@[simp] theorem setH_up (s : PSt) (h : HSt) : (s.setH h).up = s.up := rfl
@[simp] theorem setH_exit (s : PSt) (h : HSt) : (s.setH h).exitasap = s.exitasap := rfl

/-! ### the job lists -/

theorem mem_updJob {l : List OJob} {j x : OJob} (h : x ∈ updJob l j) : x = j ∨ (x ∈ l ∧ x.id ≠ j.id) := by
  unfold updJob at h
  obtain ⟨y, hy, hxy⟩ := List.mem_map.mp h
  by_cases hid : y.id = j.id
  · left; simp [hid] at hxy; exact hxy.symm
  · right
    have : (y.id == j.id) = false := by simpa using hid
    simp [this] at hxy; subst hxy; exact ⟨hy, hid⟩

theorem updJob_ids (l : List OJob) (j : OJob) : (updJob l j).map (·.id) = l.map (·.id) := by
  unfold updJob
  induction l with
  | nil => rfl
  | cons x r ih =>
    simp only [List.map_cons]
    rw [ih]
    by_cases hid : x.id = j.id
    · simp [hid]
    · have : (x.id == j.id) = false := by simpa using hid
      simp [this]

theorem mem_delJob {l : List OJob} {i : Nat} {x : OJob} : x ∈ delJob l i ↔ x ∈ l ∧ x.id ≠ i := by
  unfold delJob; simp

theorem delJob_nodup {l : List OJob} (i : Nat) (h : (l.map (·.id)).Nodup) : ((delJob l i).map (·.id)).Nodup := by
  unfold delJob
  exact List.Nodup.sublist (List.Sublist.map _ List.filter_sublist) h

theorem find_job_mem {l : List OJob} {p : OJob → Bool} {j : OJob} (h : l.find? p = some j) : j ∈ l ∧ p j = true :=
  ⟨List.mem_of_find?_eq_some h, List.find?_some h⟩

/-! ### well-formedness -/

/-- consistency of a fine-grained daemon state: the queue side is well-formed (`WF`); the message of an open job is
not on its channel heap, has its channel file, and the job's retry time is `nextretry` of the time it was opened;
at most one job per (message, channel); a job is referenced by its pass or by a delivery in flight. -/
structure WFp (s : PSt) : Prop where
  wf : WF s.h
  jobNotQ : ∀ c, ∀ j ∈ s.jobs c, j.id ∉ ids (s.h.q c)
  jobNodup : ∀ c, ((s.jobs c).map (·.id)).Nodup
  jobFile : ∀ c, ∀ j ∈ s.jobs c, ∃ m, s.h.find j.id = some m ∧ (m.recs c).isSome = true ∧
    j.job.retry = nextretry j.opened m.birth c
  jobLive : ∀ c, ∀ j ∈ s.jobs c, j.scanning = true ∨ j.inflight ≠ []

theorem wfp_init (h : HSt) (hwf : WF h) (e : Bool) (u : Bool) : WFp { h := h, j0 := [], j1 := [], exitasap := e, up := u } := by
  refine ⟨hwf, ?_, ?_, ?_, ?_⟩
  · intro c j hj; cases c <;> cases hj
  · intro c; cases c <;> exact List.nodup_nil
  · intro c j hj; cases c <;> cases hj
  · intro c j hj; cases c <;> cases hj

/-- the state changes only in `clock` -/
theorem wfp_tick {s : PSt} (hw : WFp s) (t : Int) : WFp (s.setH { s.h with clock := t }) := by
  refine ⟨wf_clock hw.wf t, ?_, ?_, ?_, ?_⟩
  · intro c j hj; rw [setH_jobs] at hj
    have := hw.jobNotQ c j hj
    cases c <;> exact this
  · intro c; rw [setH_jobs]; exact hw.jobNodup c
  · intro c j hj; rw [setH_jobs] at hj; exact hw.jobFile c j hj
  · intro c j hj; rw [setH_jobs] at hj; exact hw.jobLive c j hj

theorem wfp_term {s : PSt} (hw : WFp s) : WFp { s with exitasap := true } := by
  refine ⟨hw.wf, ?_, ?_, ?_, ?_⟩
  · intro c j hj; exact hw.jobNotQ c j (by cases c <;> exact hj)
  · intro c; have := hw.jobNodup c; cases c <;> exact this
  · intro c j hj; exact hw.jobFile c j (by cases c <;> exact hj)
  · intro c j hj; exact hw.jobLive c j (by cases c <;> exact hj)

/-- replacing a job by one with the same identity -/
theorem wfp_updJob {s : PSt} (hw : WFp s) (c : Chan) {j j' : OJob} (hj : j ∈ s.jobs c)
    (hid : j'.id = j.id) (hjob : j'.job = j.job) (hop : j'.opened = j.opened)
    (hlive : j'.scanning = true ∨ j'.inflight ≠ []) : WFp (s.setJobs c (updJob (s.jobs c) j')) := by
  have hmem : ∀ c', ∀ x ∈ (s.setJobs c (updJob (s.jobs c) j')).jobs c', (x = j' ∧ c' = c) ∨ x ∈ s.jobs c' := by
    intro c' x hx
    by_cases hc : c' = c
    · subst hc; rw [setJobs_same] at hx
      rcases mem_updJob hx with h | h
      · exact Or.inl ⟨h, rfl⟩
      · exact Or.inr h.1
    · rw [setJobs_other _ _ _ _ hc] at hx; exact Or.inr hx
  refine ⟨by rw [setJobs_h]; exact hw.wf, ?_, ?_, ?_, ?_⟩
  · intro c' x hx; rw [setJobs_h]
    rcases hmem c' x hx with ⟨h, hc⟩ | h
    · subst h; subst hc; rw [hid]; exact hw.jobNotQ _ j hj
    · exact hw.jobNotQ c' x h
  · intro c'
    by_cases hc : c' = c
    · subst hc; rw [setJobs_same, updJob_ids]; exact hw.jobNodup _
    · rw [setJobs_other _ _ _ _ hc]; exact hw.jobNodup c'
  · intro c' x hx; rw [setJobs_h]
    rcases hmem c' x hx with ⟨h, hc⟩ | h
    · subst h; subst hc; rw [hid, hjob, hop]; exact hw.jobFile _ j hj
    · exact hw.jobFile c' x h
  · intro c' x hx
    rcases hmem c' x hx with ⟨h, hc⟩ | h
    · subst h; exact hlive
    · exact hw.jobLive c' x h

/-! ### job_close -/

theorem closeH_cases (h : HSt) (c : Chan) (j : OJob) (m : Msg) :
    (j.deferred ≠ 0 ∧ closeH h c j m = (mkSt h c ((h.q c).insert { dt := j.job.retry, id := j.id }) h.done).update m) ∨
    (j.deferred = 0 ∧ ∃ d', (d' = h.done ∨ d' = h.done.insert { dt := h.clock, id := j.id }) ∧
      closeH h c j m = (mkSt h c (h.q c) d').update (m.setRecs c none)) := by
  unfold closeH
  rcases closeF_cases j.job j.id j.deferred true (statOf m (other c)) h.clock (h.q c) h.done with
    ⟨hr, hd, (⟨hn, hc⟩ | ⟨_, hu, _⟩)⟩ | ⟨hn, _, hr, hc, hd⟩
  · left; refine ⟨hn, ?_⟩
    simp only [hr, hd, hc, Bool.false_eq_true, if_false]; rfl
  · cases hu
  · right; refine ⟨hn, ?_⟩
    rcases hd with ⟨_, hd⟩ | ⟨_, hd⟩
    · exact ⟨h.done, Or.inl rfl, by simp only [hr, hc, hd, if_true]; rfl⟩
    · exact ⟨_, Or.inr rfl, by simp only [hr, hc, hd, if_true]; rfl⟩

end Nq.Lemmas.SchedPass
