/-
  Invariants of the fine-grained daemon histories `Nq.SchedPass.pstep` (passes that are not atomic):
  well-formedness `WFp`, and the back-off obligation `Owed` across clock ticks, work on either channel,
  reports, TERM, exit and restart.  Core Lean only.
-/
import Nq.Lemmas.SchedHist
import Nq.SchedPass
import Nq.Spec.SchedHist

namespace Nq.Lemmas.SchedPass
open Nq Nq.Sched Nq.SchedHist Nq.SchedPass Nq.Spec.SchedHist Nq.Lemmas.Sched Nq.Lemmas.SchedHist

/-! ### accessors -/

@[simp] theorem setJobs_same (s : PSt) (c : Chan) (l : List OJob) : (s.setJobs c l).jobs c = l := by cases c <;> rfl
theorem setJobs_other (s : PSt) (c c' : Chan) (l : List OJob) (h : c' ≠ c) : (s.setJobs c l).jobs c' = s.jobs c' := by
  cases c <;> cases c' <;> first | rfl | exact absurd rfl h
@[simp] theorem setJobs_h (s : PSt) (c : Chan) (l : List OJob) : (s.setJobs c l).h = s.h := by cases c <;> rfl
@[simp] theorem setJobs_up (s : PSt) (c : Chan) (l : List OJob) : (s.setJobs c l).up = s.up := by cases c <;> rfl
@[simp] theorem setJobs_exit (s : PSt) (c : Chan) (l : List OJob) : (s.setJobs c l).exitasap = s.exitasap := by cases c <;> rfl
@[simp] theorem setH_h (s : PSt) (h : HSt) : (s.setH h).h = h := rfl
@[simp] theorem setH_jobs (s : PSt) (h : HSt) (c : Chan) : (s.setH h).jobs c = s.jobs c := by cases c <;> rfl
@[simp] theorem setH_up (s : PSt) (h : HSt) : (s.setH h).up = s.up := rfl
@[simp] theorem setH_exit (s : PSt) (h : HSt) : (s.setH h).exitasap = s.exitasap := rfl

/-! ### the job lists -/

theorem mem_updJob {l : List OJob} {j x : OJob} (h : x ∈ updJob l j) : x = j ∨ (x ∈ l ∧ x.id ≠ j.id) := by
  unfold updJob at h
  obtain ⟨y, hy, hxy⟩ := List.mem_map.mp h
  by_cases hid : y.id = j.id
  · left; simp [hid] at hxy; exact hxy.symm
  · right
    have : (y.id == j.id) = false := by simpa using hid
    simp [this] at hxy; subst hxy; exact ⟨hy, hid⟩

theorem updJob_ids (l : List OJob) (j : OJob) : (updJob l j).map (·.id) = l.map (·.id) := by
  unfold updJob
  induction l with
  | nil => rfl
  | cons x r ih =>
    simp only [List.map_cons]
    rw [ih]
    by_cases hid : x.id = j.id
    · simp [hid]
    · have : (x.id == j.id) = false := by simpa using hid
      simp [this]

theorem mem_delJob {l : List OJob} {i : Nat} {x : OJob} : x ∈ delJob l i ↔ x ∈ l ∧ x.id ≠ i := by
  unfold delJob; simp

theorem delJob_nodup {l : List OJob} (i : Nat) (h : (l.map (·.id)).Nodup) : ((delJob l i).map (·.id)).Nodup := by
  unfold delJob
  exact List.Nodup.sublist (List.Sublist.map _ List.filter_sublist) h

theorem find_job_mem {l : List OJob} {p : OJob → Bool} {j : OJob} (h : l.find? p = some j) : j ∈ l ∧ p j = true :=
  ⟨List.mem_of_find?_eq_some h, List.find?_some h⟩

/-! ### well-formedness -/

/-- consistency of a fine-grained daemon state: the queue side is well-formed (`WF`); the message of an open job is
not on its channel heap, has its channel file, and the job's retry time is `nextretry` of the time it was opened;
at most one job per (message, channel); a job is referenced by its pass or by a delivery in flight. -/
structure WFp (s : PSt) : Prop where
  wf : WF s.h
  jobNotQ : ∀ c, ∀ j ∈ s.jobs c, j.id ∉ ids (s.h.q c)
  jobNodup : ∀ c, ((s.jobs c).map (·.id)).Nodup
  jobFile : ∀ c, ∀ j ∈ s.jobs c, ∃ m, s.h.find j.id = some m ∧ (m.recs c).isSome = true ∧
    j.job.retry = nextretry j.opened m.birth c
  jobLive : ∀ c, ∀ j ∈ s.jobs c, j.scanning = true ∨ j.inflight ≠ []

theorem wfp_init (h : HSt) (hwf : WF h) (e : Bool) (u : Bool) : WFp { h := h, j0 := [], j1 := [], exitasap := e, up := u } := by
  refine ⟨hwf, ?_, ?_, ?_, ?_⟩
  · intro c j hj; cases c <;> cases hj
  · intro c; cases c <;> exact List.nodup_nil
  · intro c j hj; cases c <;> cases hj
  · intro c j hj; cases c <;> cases hj

/-- the state changes only in `clock` -/
theorem wfp_tick {s : PSt} (hw : WFp s) (t : Int) : WFp (s.setH { s.h with clock := t }) := by
  refine ⟨wf_clock hw.wf t, ?_, ?_, ?_, ?_⟩
  · intro c j hj; rw [setH_jobs] at hj
    have := hw.jobNotQ c j hj
    cases c <;> exact this
  · intro c; rw [setH_jobs]; exact hw.jobNodup c
  · intro c j hj; rw [setH_jobs] at hj; exact hw.jobFile c j hj
  · intro c j hj; rw [setH_jobs] at hj; exact hw.jobLive c j hj

theorem wfp_term {s : PSt} (hw : WFp s) : WFp { s with exitasap := true } := by
  refine ⟨hw.wf, ?_, ?_, ?_, ?_⟩
  · intro c j hj; exact hw.jobNotQ c j (by cases c <;> exact hj)
  · intro c; have := hw.jobNodup c; cases c <;> exact this
  · intro c j hj; exact hw.jobFile c j (by cases c <;> exact hj)
  · intro c j hj; exact hw.jobLive c j (by cases c <;> exact hj)

/-- replacing a job by one with the same identity -/
theorem wfp_updJob {s : PSt} (hw : WFp s) (c : Chan) {j j' : OJob} (hj : j ∈ s.jobs c)
    (hid : j'.id = j.id) (hjob : j'.job = j.job) (hop : j'.opened = j.opened)
    (hlive : j'.scanning = true ∨ j'.inflight ≠ []) : WFp (s.setJobs c (updJob (s.jobs c) j')) := by
  have hmem : ∀ c', ∀ x ∈ (s.setJobs c (updJob (s.jobs c) j')).jobs c', (x = j' ∧ c' = c) ∨ x ∈ s.jobs c' := by
    intro c' x hx
    by_cases hc : c' = c
    · subst hc; rw [setJobs_same] at hx
      rcases mem_updJob hx with h | h
      · exact Or.inl ⟨h, rfl⟩
      · exact Or.inr h.1
    · rw [setJobs_other _ _ _ _ hc] at hx; exact Or.inr hx
  refine ⟨by rw [setJobs_h]; exact hw.wf, ?_, ?_, ?_, ?_⟩
  · intro c' x hx; rw [setJobs_h]
    rcases hmem c' x hx with ⟨h, hc⟩ | h
    · subst h; subst hc; rw [hid]; exact hw.jobNotQ _ j hj
    · exact hw.jobNotQ c' x h
  · intro c'
    by_cases hc : c' = c
    · subst hc; rw [setJobs_same, updJob_ids]; exact hw.jobNodup _
    · rw [setJobs_other _ _ _ _ hc]; exact hw.jobNodup c'
  · intro c' x hx; rw [setJobs_h]
    rcases hmem c' x hx with ⟨h, hc⟩ | h
    · subst h; subst hc; rw [hid, hjob, hop]; exact hw.jobFile _ j hj
    · exact hw.jobFile c' x h
  · intro c' x hx
    rcases hmem c' x hx with ⟨h, hc⟩ | h
    · subst h; exact hlive
    · exact hw.jobLive c' x h

/-! ### job_close -/

theorem closeH_cases (h : HSt) (c : Chan) (j : OJob) (m : Msg) :
    (j.deferred ≠ 0 ∧ closeH h c j m = (mkSt h c ((h.q c).insert { dt := j.job.retry, id := j.id }) h.done).update m) ∨
    (j.deferred = 0 ∧ ∃ d', (d' = h.done ∨ d' = h.done.insert { dt := h.clock, id := j.id }) ∧
      closeH h c j m = (mkSt h c (h.q c) d').update (m.setRecs c none)) := by
  unfold closeH
  rcases closeF_cases j.job j.id j.deferred true (statOf m (other c)) h.clock (h.q c) h.done with
    ⟨hr, hd, (⟨hn, hc⟩ | ⟨_, hu, _⟩)⟩ | ⟨hn, _, hr, hc, hd⟩
  · left; refine ⟨hn, ?_⟩
    simp only [hr, hd, hc, Bool.false_eq_true, if_false]; rfl
  · cases hu
  · right; refine ⟨hn, ?_⟩
    rcases hd with ⟨_, hd⟩ | ⟨_, hd⟩
    · exact ⟨h.done, Or.inl rfl, by simp only [hr, hc, hd, if_true]; rfl⟩
    · exact ⟨_, Or.inr rfl, by simp only [hr, hc, hd, if_true]; rfl⟩

/-- `find` after one record was replaced -/
theorem find_update (h : HSt) (m' m0 : Msg) (hm : h.find m'.id = some m0) (i : Nat) :
    (h.update m').find i = if i = m'.id then some m' else h.find i := by
  by_cases hi : i = m'.id
  · rw [if_pos hi, hi]; exact find_update_self h m' m0 hm
  · rw [if_neg hi]; exact find_update_other h m' i hi

/-- what a state change that keeps every message's identity, birth and channel files (except possibly the file
`(i0, c0)`) does to the jobs' file facts -/
theorem jobFile_frame {s : PSt} (hw : WFp s) (h' : HSt) (i0 : Nat) (c0 : Chan)
    (hfind : ∀ i m, s.h.find i = some m → ∃ m', h'.find i = some m' ∧ m'.birth = m.birth ∧
      ∀ c, (i = i0 ∧ c = c0) ∨ (m'.recs c).isSome = (m.recs c).isSome)
    (c : Chan) (x : OJob) (hx : x ∈ s.jobs c) (hne : ¬ (x.id = i0 ∧ c = c0)) :
    ∃ m, h'.find x.id = some m ∧ (m.recs c).isSome = true ∧ x.job.retry = nextretry x.opened m.birth c := by
  obtain ⟨m, hm, hr, hret⟩ := hw.jobFile c x hx
  obtain ⟨m', hm', hb, hrc⟩ := hfind x.id m hm
  refine ⟨m', hm', ?_, by rw [hb]; exact hret⟩
  rcases hrc c with h | h
  · exact absurd h hne
  · rw [h]; exact hr

theorem wfp_closeSt {s : PSt} (hw : WFp s) (c : Chan) {j j' : OJob} (hj : j ∈ s.jobs c)
    (hid : j'.id = j.id) (hjob : j'.job = j.job) : WFp (closeSt s c j') := by
  obtain ⟨m, hm, hrec, hret⟩ := hw.jobFile c j hj
  have hmid : m.id = j.id := (find_some hm).2
  have hnq := hw.jobNotQ c j hj
  have hcl : closeSt s c j' = (s.setJobs c (delJob (s.jobs c) j.id)).setH (closeH s.h c j' m) := by
    unfold closeSt; rw [hid, hm]
  rw [hcl]
  -- the jobs that remain
  have hrem : ∀ c', ∀ x ∈ ((s.setJobs c (delJob (s.jobs c) j.id)).setH (closeH s.h c j' m)).jobs c',
      x ∈ s.jobs c' ∧ ¬ (x.id = j.id ∧ c' = c) := by
    intro c' x hx
    rw [setH_jobs] at hx
    by_cases hc : c' = c
    · subst hc; rw [setJobs_same] at hx
      obtain ⟨h1, h2⟩ := mem_delJob.mp hx
      exact ⟨h1, fun h => h2 h.1⟩
    · rw [setJobs_other _ _ _ _ hc] at hx; exact ⟨hx, fun h => hc h.2⟩
  have hnodup : ∀ c', ((((s.setJobs c (delJob (s.jobs c) j.id)).setH (closeH s.h c j' m)).jobs c').map (·.id)).Nodup := by
    intro c'
    rw [setH_jobs]
    by_cases hc : c' = c
    · subst hc; rw [setJobs_same]; exact delJob_nodup _ (hw.jobNodup _)
    · rw [setJobs_other _ _ _ _ hc]; exact hw.jobNodup c'
  -- an entry of another channel heap with the message's id: its file exists
  have hother : ∀ c', c' ≠ c → m.id ∈ ids (s.h.q c') → (m.recs c').isSome = true := by
    intro c' _ hmem
    obtain ⟨e, he, hei⟩ := List.mem_map.mp hmem
    obtain ⟨m2, hm2, hr2⟩ := hw.wf.hasFile c' e he
    rw [hei, hm] at hm2; cases hm2; exact hr2
  rcases closeH_cases s.h c j' m with ⟨hdef, hH⟩ | ⟨hdef, d', hd', hH⟩
  · -- recipients left: back into the channel heap at `retry`
    rw [hH]
    have hheap := insert_spec (s.h.q c) { dt := j'.job.retry, id := j'.id } (hw.wf.heap c)
    have hids := ids_insert (s.h.q c) { dt := j'.job.retry, id := j'.id } (hw.wf.heap c)
    have hwf1 : WF (mkSt s.h c ((s.h.q c).insert { dt := j'.job.retry, id := j'.id }) s.h.done) := by
      refine wf_mkSt hw.wf c _ _ hheap.1 hw.wf.heapDone ?_ ?_
      · refine hids.nodup_iff.mpr (List.nodup_cons.mpr ⟨?_, hw.wf.nodupQ c⟩)
        show j'.id ∉ ids (s.h.q c)
        rw [hid]; exact hnq
      · intro e he
        rcases (mem_insert _ _ _ (hw.wf.heap c)).mp he with h | h
        · subst h; exact ⟨m, by show s.h.find j'.id = some m; rw [hid]; exact hm, hrec⟩
        · exact hw.wf.hasFile c e h
    have hfm : (mkSt s.h c ((s.h.q c).insert { dt := j'.job.retry, id := j'.id }) s.h.done).find m.id = some m := by
      rw [mkSt_find, hmid]; exact hm
    have hwf2 : WF ((mkSt s.h c ((s.h.q c).insert { dt := j'.job.retry, id := j'.id }) s.h.done).update m) := by
      refine wf_update hwf1 m m hfm ?_
      intro c' hmem
      by_cases hc : c' = c
      · subst hc; exact hrec
      · rw [mkSt_q_other _ _ _ _ _ hc] at hmem; exact hother c' hc hmem
    have hfind : ∀ i, ((mkSt s.h c ((s.h.q c).insert { dt := j'.job.retry, id := j'.id }) s.h.done).update m).find i = s.h.find i := by
      intro i
      rw [find_update _ m m hfm i, mkSt_find]
      by_cases hi : i = m.id
      · rw [if_pos hi, hi, hmid]; exact hm.symm
      · rw [if_neg hi]
    refine ⟨by rw [setH_h]; exact hwf2, ?_, hnodup, ?_, ?_⟩
    · intro c' x hx
      obtain ⟨hx1, hx2⟩ := hrem c' x hx
      rw [setH_h, update_q]
      by_cases hc : c' = c
      · subst hc; rw [mkSt_q_same]
        intro hmem
        rcases List.mem_cons.mp (hids.mem_iff.mp hmem) with h | h
        · exact hx2 ⟨by rw [h]; exact hid, rfl⟩
        · exact hw.jobNotQ _ x hx1 h
      · rw [mkSt_q_other _ _ _ _ _ hc]; exact hw.jobNotQ c' x hx1
    · intro c' x hx
      obtain ⟨hx1, _⟩ := hrem c' x hx
      rw [setH_h, hfind]; exact hw.jobFile c' x hx1
    · intro c' x hx; exact hw.jobLive c' x (hrem c' x hx).1
  · -- every recipient done: the channel file is removed
    rw [hH]
    have hd'heap : Heap d' := by
      rcases hd' with h | h
      · rw [h]; exact hw.wf.heapDone
      · rw [h]; exact (insert_spec _ _ hw.wf.heapDone).1
    have hwf1 : WF (mkSt s.h c (s.h.q c) d') :=
      wf_mkSt hw.wf c _ _ (hw.wf.heap c) hd'heap (hw.wf.nodupQ c) (hw.wf.hasFile c)
    have hfm : (mkSt s.h c (s.h.q c) d').find (m.setRecs c none).id = some m := by
      rw [mkSt_find, setRecs_id, hmid]; exact hm
    have hwf2 : WF ((mkSt s.h c (s.h.q c) d').update (m.setRecs c none)) := by
      refine wf_update hwf1 m (m.setRecs c none) hfm ?_
      intro c' hmem
      rw [setRecs_id] at hmem
      by_cases hc : c' = c
      · subst hc; rw [mkSt_q_same, hmid] at hmem; exact absurd hmem hnq
      · rw [mkSt_q_other _ _ _ _ _ hc] at hmem
        rw [setRecs_other _ _ _ _ hc]; exact hother c' hc hmem
    refine ⟨by rw [setH_h]; exact hwf2, ?_, hnodup, ?_, ?_⟩
    · intro c' x hx
      obtain ⟨hx1, _⟩ := hrem c' x hx
      rw [setH_h, update_q]
      by_cases hc : c' = c
      · subst hc; rw [mkSt_q_same]; exact hw.jobNotQ _ x hx1
      · rw [mkSt_q_other _ _ _ _ _ hc]; exact hw.jobNotQ c' x hx1
    · intro c' x hx
      obtain ⟨hx1, hx2⟩ := hrem c' x hx
      rw [setH_h]
      refine jobFile_frame hw _ j.id c ?_ c' x hx1 hx2
      intro i mi hmi
      rw [find_update _ _ m hfm i, mkSt_find, setRecs_id]
      by_cases hi : i = m.id
      · rw [if_pos hi]
        rw [hi, hm] at hmi; cases hmi
        refine ⟨_, rfl, by rw [setRecs_birth], fun c2 => ?_⟩
        by_cases hc2 : c2 = c
        · left; exact ⟨by rw [hi]; exact hmid, hc2⟩
        · right; rw [setRecs_other _ _ _ _ hc2]
      · rw [if_neg hi]; exact ⟨mi, hmi, rfl, fun _ => Or.inr rfl⟩
    · intro c' x hx; exact hw.jobLive c' x (hrem c' x hx).1

/-- store the changed job, `job_close` if nothing refers to it any more -/
theorem wfp_settle {s : PSt} (hw : WFp s) (c : Chan) {j j' : OJob} (hj : j ∈ s.jobs c)
    (hid : j'.id = j.id) (hjob : j'.job = j.job) (hop : j'.opened = j.opened) : WFp (settle s c j') := by
  unfold settle
  by_cases hdone : (!j'.scanning && j'.inflight.isEmpty) = true
  · rw [if_pos hdone]; exact wfp_closeSt hw c hj hid hjob
  · rw [if_neg hdone]
    refine wfp_updJob hw c hj hid hjob hop ?_
    cases hs : j'.scanning with
    | true => exact Or.inl rfl
    | false =>
      right
      intro he
      apply hdone
      simp [hs, he]

end Nq.Lemmas.SchedPass
