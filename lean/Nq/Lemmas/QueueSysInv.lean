/-
  Invariant of Nq.QueueSys (DESIGN.md Appendix B) and its preservation by every event.
-/
import Nq.QueueSys

namespace Nq.QueueSys

/-! ### control points -/

def IPc.num : IPc → Option Nat
  | .opened _ n | .linked _ n | .s2 _ n | .s3 _ n | .clean1 _ n => some n
  | _ => none

def IPc.t0 : IPc → Nat
  | .started t | .opened t _ | .linked t _ | .s2 t _ | .s3 t _ | .clean1 t _ => t
  | _ => 0

/-- the files of its number that exist while an injector is at this control point -/
def IPc.flags : IPc → Flags
  | .linked _ _ | .s2 _ _ | .clean1 _ _ => { mess := true }
  | .s3 _ _ => { mess := true, intd := true }
  | _ => {}

def IPc.holdsPid : IPc → Bool
  | .opened _ _ | .linked _ _ => true
  | _ => false

/-- no running qmail-queue is working on number n -/
def noLiveOwner (s : St) (n : Nat) : Prop :=
  ∀ i, (s.inj i).num = some n → s.alive (s.inj i).t0 = false

def ModeInv (s : St) : Prop :=
  match s.mode with
  | .none => True
  | .inTodo n mi => s.up = true ∧ (s.fl n).mess = true ∧ (s.fl n).todo = true ∧ (s.fl n).bounce = false ∧ (mi = true → (s.fl n).info = true)
  | .todoC1 n => s.up = true ∧ (s.fl n).mess = true ∧ (s.fl n).todo = true ∧ (s.fl n).bounce = false ∧ (s.fl n).info = true
  | .todoC2 n => s.up = true ∧ (s.fl n).mess = true ∧ (s.fl n).todo = true ∧ (s.fl n).bounce = false ∧ (s.fl n).info = true ∧ (s.fl n).intd = false
  | .todoC3 n => s.up = true ∧ (s.fl n).mess = true ∧ (s.fl n).info = true ∧ (s.fl n).todo = false ∧ (s.fl n).intd = false
  | .foopC1 n => s.up = true ∧ (s.fl n).mess = true ∧ (s.fl n).todo = false ∧ (s.fl n).info = false ∧ noLiveOwner s n
  | .foopC2 n => s.up = true ∧ s.fl n = { mess := true } ∧ noLiveOwner s n
  | .foopC3 _ => s.up = true

structure KnowInv (s : St) : Prop where
  infoPres : s.k.infoPres = true → (s.fl s.k.cur).info = true
  infoAbs : s.k.infoAbs = true → (s.fl s.k.cur).info = false
  locAbs : s.k.locAbs = true → (s.fl s.k.cur).loc = false
  remAbs : s.k.remAbs = true → (s.fl s.k.cur).rem = false
  bounceAbs : s.k.bounceAbs = true → (s.fl s.k.cur).bounce = false
  todoAbs : s.k.todoAbs = true → ((s.fl s.k.cur).info = true ∨ s.stale s.k.cur = true) → (s.fl s.k.cur).todo = false
  messPres : s.k.messPres = true → s.stale s.k.cur = true → (s.fl s.k.cur).mess = true
  unlinkedInfo : s.k.unlinkedInfo = true → s.fl s.k.cur = { mess := true } ∧ noLiveOwner s s.k.cur

structure Inv (s : St) : Prop where
  doc : ∀ n, (s.fl n).documented = true
  ino : ∀ n, (s.fl n).mess = true → s.messIno n = n
  started : ∀ i, (s.inj i).t0 ≤ s.now
  own : ∀ i n, (s.inj i).num = some n → s.alive (s.inj i).t0 = true →
        s.fl n = (s.inj i).flags ∧ (s.inj i).t0 ≤ s.atime n ∧ ((s.inj i).holdsPid = true → s.pidf n = true)
  distinct : ∀ i j n, i ≠ j → (s.inj i).num = some n → (s.inj j).num = some n →
        s.alive (s.inj i).t0 = true → s.alive (s.inj j).t0 = true → False
  known : ∀ n, s.known n = true →
        s.up = true ∧ (s.fl n).mess = true ∧ (s.fl n).info = true ∧ (s.fl n).todo = false ∧ (s.fl n).intd = false
  mode : ModeInv s
  kn : KnowInv s
  quiet : s.mode ≠ .none → s.k = { cur := s.k.cur }

/-! ### flag-pattern facts (the INTERNALS.md table) -/

theorem Flags.ext' {a b : Flags} (h1 : a.mess = b.mess) (h2 : a.intd = b.intd) (h3 : a.todo = b.todo)
    (h4 : a.info = b.info) (h5 : a.loc = b.loc) (h6 : a.rem = b.rem) (h7 : a.bounce = b.bounce) : a = b := by
  cases a; cases b; simp_all

theorem doc_nomess {f : Flags} (h : f.documented = true) (hm : f.mess = false) : f = {} := by
  obtain ⟨a, b, c, d, e, g, k⟩ := f
  simp only at hm; subst hm
  cases b <;> cases c <;> cases d <;> cases e <;> cases g <;> cases k <;>
    simp_all [Flags.documented, Flags.isS1, Flags.isS2, Flags.isS3, Flags.isS4, Flags.isS5]

theorem doc_s5 {f : Flags} (h : f.documented = true) (hi : f.info = true) (ht : f.todo = false) :
    f.mess = true ∧ f.intd = false := by
  obtain ⟨a, b, c, d, e, g, k⟩ := f
  simp only at hi ht; subst hi ht
  cases a <;> cases b <;> simp_all [Flags.documented, Flags.isS1, Flags.isS2, Flags.isS3, Flags.isS4, Flags.isS5]

theorem doc_s23 {f : Flags} (h : f.documented = true) (hm : f.mess = true) (hi : f.info = false) (ht : f.todo = false) :
    f.loc = false ∧ f.rem = false ∧ f.bounce = false := by
  obtain ⟨a, b, c, d, e, g, k⟩ := f
  simp only at hm hi ht; subst hm hi ht
  cases b <;> cases e <;> cases g <;> cases k <;> simp_all [Flags.documented, Flags.isS1, Flags.isS2, Flags.isS3, Flags.isS4, Flags.isS5]

theorem doc_s4 {f : Flags} (hm : f.mess = true) (ht : f.todo = true) (hb : f.bounce = false) : f.documented = true := by
  simp [Flags.documented, Flags.isS4, hm, ht, hb]

theorem doc_s5' {f : Flags} (hm : f.mess = true) (hi : f.info = true) (ht : f.todo = false) (hd : f.intd = false) :
    f.documented = true := by
  simp [Flags.documented, Flags.isS5, hm, ht, hi, hd]

@[simp] theorem doc_empty : ({} : Flags).documented = true := by decide
@[simp] theorem doc_m : ({ mess := true } : Flags).documented = true := by decide
@[simp] theorem doc_mi : ({ mess := true, intd := true } : Flags).documented = true := by decide

/-! ### state update facts -/

@[simp] theorem setF_fl_same (s : St) (n : Nat) (x : File) (b : Bool) : (s.setF n x b).fl n = (s.fl n).set x b := by
  simp [St.setF]
theorem setF_fl_other (s : St) (n m : Nat) (x : File) (b : Bool) (h : m ≠ n) : (s.setF n x b).fl m = s.fl m := by
  simp [St.setF, upd, h]
@[simp] theorem setF_inj (s : St) (n : Nat) (x : File) (b : Bool) : (s.setF n x b).inj = s.inj := rfl
@[simp] theorem setF_now (s : St) (n : Nat) (x : File) (b : Bool) : (s.setF n x b).now = s.now := rfl
@[simp] theorem setF_pidf (s : St) (n : Nat) (x : File) (b : Bool) : (s.setF n x b).pidf = s.pidf := rfl
@[simp] theorem setF_atime (s : St) (n : Nat) (x : File) (b : Bool) : (s.setF n x b).atime = s.atime := rfl
@[simp] theorem setF_messIno (s : St) (n : Nat) (x : File) (b : Bool) : (s.setF n x b).messIno = s.messIno := rfl
@[simp] theorem setF_up (s : St) (n : Nat) (x : File) (b : Bool) : (s.setF n x b).up = s.up := rfl
@[simp] theorem setF_mode (s : St) (n : Nat) (x : File) (b : Bool) : (s.setF n x b).mode = s.mode := rfl
@[simp] theorem setF_k (s : St) (n : Nat) (x : File) (b : Bool) : (s.setF n x b).k = s.k := rfl
@[simp] theorem setF_known (s : St) (n : Nat) (x : File) (b : Bool) : (s.setF n x b).known = s.known := rfl

end Nq.QueueSys

namespace Nq.QueueSys

theorem death_lt_oss : DEATH < OSSIFIED := by decide

theorem alive_not_stale (s : St) (t0 n : Nat) (ha : s.alive t0 = true) (ht : t0 ≤ s.atime n) : s.stale n = false := by
  have := death_lt_oss
  simp [St.alive, St.stale] at *
  omega

/-- a live owner's number carries none of todo, info, local, remote, bounce -/
theorem owner_flags (s : St) (h : Inv s) (i n : Nat) (hn : (s.inj i).num = some n) (ha : s.alive (s.inj i).t0 = true) :
    (s.fl n).todo = false ∧ (s.fl n).info = false ∧ (s.fl n).loc = false ∧ (s.fl n).rem = false ∧ (s.fl n).bounce = false ∧
    s.stale n = false := by
  obtain ⟨hf, ht, _⟩ := h.own i n hn ha
  refine ⟨?_, ?_, ?_, ?_, ?_, alive_not_stale s _ n ha ht⟩ <;>
  · rw [hf]; cases hpc : s.inj i <;> simp [IPc.flags]


theorem noLiveOwner_of (s : St) (h : Inv s) (n : Nat)
    (hf : (s.fl n).todo = true ∨ (s.fl n).info = true ∨ s.stale n = true) : noLiveOwner s n := by
  intro i hn
  cases ha : s.alive (s.inj i).t0 with
  | false => rfl
  | true =>
    have := owner_flags s h i n hn ha
    rcases hf with hf | hf | hf <;> simp_all

theorem KnowInv.reset (s : St) (c : Nat) (hk : s.k = { cur := c }) : KnowInv s := by
  constructor <;> simp [hk]

/-- a live owner contradicts every non-trivial daemon mode on its number -/
theorem mode_not_owner (s : St) (h : Inv s) (i n : Nat) (hn : (s.inj i).num = some n) (ha : s.alive (s.inj i).t0 = true) :
    match s.mode with
    | .none | .foopC3 _ => True
    | .inTodo m _ | .todoC1 m | .todoC2 m | .todoC3 m | .foopC1 m | .foopC2 m => m ≠ n := by
  have hof := owner_flags s h i n hn ha
  have hm := h.mode
  unfold ModeInv at hm
  split <;> first | trivial | (intro e; subst e; simp_all [noLiveOwner]) | skip
  all_goals
    intro e; subst e
    simp_all [noLiveOwner]
    try exact absurd (hm.2.2 i hn) (by simp [ha])


/-- every non-trivial daemon mode on `n` has mess/n -/
theorem mode_mess (s : St) (h : Inv s) :
    match s.mode with
    | .none | .foopC3 _ => True
    | .inTodo m _ | .todoC1 m | .todoC2 m | .todoC3 m | .foopC1 m | .foopC2 m => (s.fl m).mess = true := by
  have hm := h.mode
  unfold ModeInv at hm
  split <;> simp_all

/-- One step of a live qmail-queue instance `i0` on its number `n0` (or acquiring the fresh number `n0`). -/
theorem inv_injector (s s' : St) (h : Inv s) (i0 n0 : Nat)
    (hup : s'.up = s.up) (hmode : s'.mode = s.mode) (hk : s'.k = s.k) (hknown : s'.known = s.known) (hnow : s'.now = s.now)
    (hfl : ∀ m, m ≠ n0 → s'.fl m = s.fl m) (hpidf : ∀ m, m ≠ n0 → s'.pidf m = s.pidf m)
    (hat : ∀ m, m ≠ n0 → s'.atime m = s.atime m) (hmi : ∀ m, m ≠ n0 → s'.messIno m = s.messIno m)
    (hinj : ∀ j, j ≠ i0 → s'.inj j = s.inj j)
    (hal : s.alive (s.inj i0).t0 = true)
    (hsrc : (s.inj i0).num = some n0 ∨ ((s.inj i0).num = none ∧ (s.fl n0).mess = false ∧ s.pidf n0 = false))
    (hF : (s'.fl n0).info = false ∧ (s'.fl n0).loc = false ∧ (s'.fl n0).rem = false ∧ (s'.fl n0).bounce = false)
    (hdoc : (s'.fl n0).documented = true)
    (hmino : (s'.fl n0).mess = true → s'.messIno n0 = n0)
    (hat0 : (s.inj i0).t0 ≤ s'.atime n0)
    (hpc : s'.inj i0 = .fin ∨ ((s'.inj i0).num = some n0 ∧ (s'.inj i0).t0 = (s.inj i0).t0 ∧
            s'.fl n0 = (s'.inj i0).flags ∧ ((s'.inj i0).holdsPid = true → s'.pidf n0 = true))) : Inv s' := by
  have halive : ∀ t, s'.alive t = s.alive t := by intro t; simp [St.alive, hnow]
  -- no other live instance has anything to do with n0
  have hother : ∀ j, j ≠ i0 → (s.inj j).num = some n0 → s.alive (s.inj j).t0 = true → False := by
    intro j hj hn ha
    rcases hsrc with hs | ⟨_, hm, hp⟩
    · exact h.distinct j i0 n0 hj hn hs ha hal
    · obtain ⟨hf, _, hpid⟩ := h.own j n0 hn ha
      cases hpc' : s.inj j <;> simp_all [IPc.num, IPc.flags, IPc.holdsPid]
  have hnum' : (s'.inj i0).num = some n0 ∨ (s'.inj i0).num = none := by
    rcases hpc with hp | hp
    · right; simp [hp, IPc.num]
    · left; exact hp.1
  have hstale' : s'.stale n0 = false := by
    have := death_lt_oss
    simp [St.alive, St.stale, hnow] at *
    omega
  -- the daemon is not busy with n0
  have hmode_ne : match s.mode with
      | .none | .foopC3 _ => True
      | .inTodo m _ | .todoC1 m | .todoC2 m | .todoC3 m | .foopC1 m | .foopC2 m => m ≠ n0 := by
    rcases hsrc with hs | ⟨_, hm, _⟩
    · exact mode_not_owner s h i0 n0 hs hal
    · have := mode_mess s h
      split <;> simp_all <;> (intro e; subst e; simp_all)
  have hnlo : ∀ n, n ≠ n0 → noLiveOwner s n → noLiveOwner s' n := by
    intro n hn hno j hj
    by_cases hji : j = i0
    · subst hji; rcases hnum' with h1 | h1 <;> simp_all
    · rw [hinj j hji] at hj ⊢; rw [halive]; exact hno j hj
  constructor
  · intro n; by_cases hn : n = n0
    · subst hn; exact hdoc
    · rw [hfl n hn]; exact h.doc n
  · intro n; by_cases hn : n = n0
    · subst hn; exact hmino
    · rw [hfl n hn, hmi n hn]; exact h.ino n
  · intro j; rw [hnow]; by_cases hj : j = i0
    · subst hj; rcases hpc with hp | hp
      · simp [hp, IPc.t0]
      · rw [hp.2.1]; exact h.started j
    · rw [hinj j hj]; exact h.started j
  · intro j n hn ha; rw [halive] at ha
    by_cases hj : j = i0
    · subst hj
      rcases hpc with hp | hp
      · simp [hp, IPc.num] at hn
      · have : n = n0 := by have := hp.1; simp_all
        subst this
        refine ⟨hp.2.2.1, ?_, hp.2.2.2⟩
        rw [hp.2.1]; exact hat0
    · rw [hinj j hj] at hn ha ⊢
      by_cases hnn : n = n0
      · subst hnn; exact (hother j hj hn ha).elim
      · rw [hfl n hnn, hat n hnn, hpidf n hnn]; exact h.own j n hn ha
  · intro a b n hab hna hnb haa hab'
    rw [halive] at haa hab'
    by_cases ha0 : a = i0
    · subst ha0
      have hb0 : b ≠ a := fun e => hab e.symm
      rw [hinj b hb0] at hnb hab'
      have : n = n0 := by rcases hnum' with h1 | h1 <;> simp_all
      subst this
      exact hother b hb0 hnb hab'
    · rw [hinj a ha0] at hna haa
      by_cases hb0 : b = i0
      · subst hb0
        have : n = n0 := by rcases hnum' with h1 | h1 <;> simp_all
        subst this
        exact hother a ha0 hna haa
      · rw [hinj b hb0] at hnb hab'
        exact h.distinct a b n hab hna hnb haa hab'
  · intro n hkn; rw [hknown] at hkn; rw [hup]
    have hk' := h.known n hkn
    by_cases hn : n = n0
    · subst hn
      rcases hsrc with hs | ⟨_, hm, _⟩
      · have := owner_flags s h i0 n hs hal; simp_all
      · simp_all
    · rw [hfl n hn]; exact hk'
  · have hm := h.mode
    unfold ModeInv at hm ⊢
    rw [hmode, hup]
    split <;> simp_all
    all_goals first
      | (rw [hfl _ hmode_ne]; exact hm)
      | skip
    done
  · have hkn := h.kn
    by_cases hc : s.k.cur = n0
    · have hsinfo : (s.fl n0).info = false := by
        rcases hsrc with hs | ⟨_, hm, _⟩
        · exact (owner_flags s h i0 n0 hs hal).2.1
        · rw [doc_nomess (h.doc n0) hm]
      have hnou : s.k.unlinkedInfo = true → False := by
        intro hu
        have := hkn.unlinkedInfo hu
        rw [hc] at this
        rcases hsrc with hs | ⟨_, hm, _⟩
        · have := this.2 i0 hs; simp_all
        · simp_all
      constructor <;> rw [hk, hc]
      · intro hp; have := hkn.infoPres hp; simp_all
      · intro _; exact hF.1
      · intro _; exact hF.2.1
      · intro _; exact hF.2.2.1
      · intro _; exact hF.2.2.2
      · intro _ hp; simp_all
      · intro _ hp; simp_all
      · intro hu; exact (hnou hu).elim
    · constructor <;> rw [hk] <;> (try rw [hfl _ hc]) <;> (try simp only [St.stale, hat _ hc, hnow])
      · exact hkn.infoPres
      · exact hkn.infoAbs
      · exact hkn.locAbs
      · exact hkn.remAbs
      · exact hkn.bounceAbs
      · exact hkn.todoAbs
      · exact hkn.messPres
      · intro hu; exact ⟨(hkn.unlinkedInfo hu).1, hnlo _ hc (hkn.unlinkedInfo hu).2⟩
  · rw [hmode, hk]; exact h.quiet


/-! ### injector events -/

theorem inv_iOpenPid (s s' : St) (h : Inv s) (i n : Nat) (ha : accept s (.iOpenPid i n) = some s') : Inv s' := by
  simp only [accept] at ha
  split at ha
  next t0 hpc =>
    split at ha
    next hg =>
      obtain ⟨hal, hp, hm⟩ := hg
      cases ha
      have hst := h.started i
      have hfl0 : s.fl n = {} := doc_nomess (h.doc n) hm
      apply inv_injector s _ h i n <;> simp [hpc, IPc.t0, IPc.num, IPc.flags, IPc.holdsPid, hal, hm, hp, hfl0]
      · intro m hm; simp [upd, hm]
      · intro m hm; simp [upd, hm]
      · intro j hj; simp [upd, hj]
      · simpa [hpc, IPc.t0] using hst
    next => cases ha
  all_goals cases ha


set_option linter.unusedSimpArgs false

/-- facts about a live injector at a control point that owns `n` -/
theorem own_at (s : St) (h : Inv s) (i n : Nat) (hn : (s.inj i).num = some n) (hal : s.alive (s.inj i).t0 = true) :
    s.fl n = (s.inj i).flags ∧ (s.inj i).t0 ≤ s.atime n ∧ ((s.inj i).holdsPid = true → s.pidf n = true) :=
  h.own i n hn hal

theorem inv_iLinkMess (s s' : St) (h : Inv s) (i m : Nat) (ha : accept s (.iLinkMess i m) = some s') : Inv s' := by
  simp only [accept] at ha
  split at ha
  next t0 n hpc =>
    split at ha
    next hg =>
      obtain ⟨hal, rfl, hp, hm⟩ := hg
      cases ha
      have hal' : s.alive (s.inj i).t0 = true := by simpa [hpc, IPc.t0] using hal
      obtain ⟨hf, hat, _⟩ := own_at s h i m (by simp [hpc, IPc.num]) hal'
      simp only [hpc, IPc.flags, IPc.t0] at hf hat
      apply inv_injector s _ h i m <;> simp [hpc, IPc.t0, IPc.num, IPc.flags, IPc.holdsPid, hal, hp, hf, Flags.set, hat]
      · intro k hk; simp [St.setF, upd, hk]
      · intro k hk; simp [upd, hk]
      · intro j hj; simp [upd, hj]
    next => cases ha
  all_goals cases ha

theorem inv_iUnlinkPid (s s' : St) (h : Inv s) (i : Nat) (ha : accept s (.iUnlinkPid i) = some s') : Inv s' := by
  simp only [accept] at ha
  split at ha
  next t0 n hpc =>
    split at ha
    next hg =>
      obtain ⟨hal, hp⟩ := hg
      cases ha
      have hal' : s.alive (s.inj i).t0 = true := by simpa [hpc, IPc.t0] using hal
      obtain ⟨hf, hat, _⟩ := own_at s h i n (by simp [hpc, IPc.num]) hal'
      simp only [hpc, IPc.flags, IPc.t0] at hf hat
      have hi := h.ino n (by simp [hf])
      apply inv_injector s _ h i n <;> simp [hpc, IPc.t0, IPc.num, IPc.flags, IPc.holdsPid, hal, hp, hf, Flags.set, hat, hi]
      · intro k hk; simp [upd, hk]
      · intro j hj; simp [upd, hj]
    next => cases ha
  all_goals cases ha

theorem inv_iCreatIntd (s s' : St) (h : Inv s) (i m : Nat) (ha : accept s (.iCreatIntd i m) = some s') : Inv s' := by
  simp only [accept] at ha
  split at ha
  next t0 n hpc =>
    split at ha
    next hg =>
      obtain ⟨hal, rfl, hp⟩ := hg
      cases ha
      have hal' : s.alive (s.inj i).t0 = true := by simpa [hpc, IPc.t0] using hal
      obtain ⟨hf, hat, _⟩ := own_at s h i m (by simp [hpc, IPc.num]) hal'
      simp only [hpc, IPc.flags, IPc.t0] at hf hat
      have hi := h.ino m (by simp [hf])
      apply inv_injector s _ h i m <;> simp [hpc, IPc.t0, IPc.num, IPc.flags, IPc.holdsPid, hal, hp, hf, Flags.set, hat, hi]
      · intro k hk; simp [St.setF, upd, hk]
      · intro j hj; simp [upd, hj]
    next => cases ha
  all_goals cases ha

theorem inv_iLinkTodo (s s' : St) (h : Inv s) (i m : Nat) (ha : accept s (.iLinkTodo i m) = some s') : Inv s' := by
  simp only [accept] at ha
  split at ha
  next t0 n hpc =>
    split at ha
    next hg =>
      obtain ⟨hal, rfl, hp, _⟩ := hg
      cases ha
      have hal' : s.alive (s.inj i).t0 = true := by simpa [hpc, IPc.t0] using hal
      obtain ⟨hf, hat, _⟩ := own_at s h i m (by simp [hpc, IPc.num]) hal'
      simp only [hpc, IPc.flags, IPc.t0] at hf hat
      have hi := h.ino m (by simp [hf])
      apply inv_injector s _ h i m <;> simp [hpc, IPc.t0, IPc.num, IPc.flags, IPc.holdsPid, hal, hp, hf, Flags.set, hat, hi]
      · intro k hk; simp [St.setF, upd, hk]
      · intro j hj; simp [upd, hj]
      · decide
    next => cases ha
  all_goals cases ha

theorem inv_iUnIntd (s s' : St) (h : Inv s) (i m : Nat) (ha : accept s (.iUnIntd i m) = some s') : Inv s' := by
  simp only [accept] at ha
  split at ha
  next t0 n hpc =>
    split at ha
    next hg =>
      obtain ⟨hal, rfl, hp⟩ := hg
      cases ha
      have hal' : s.alive (s.inj i).t0 = true := by simpa [hpc, IPc.t0] using hal
      obtain ⟨hf, hat, _⟩ := own_at s h i m (by simp [hpc, IPc.num]) hal'
      simp only [hpc, IPc.flags, IPc.t0] at hf hat
      have hi := h.ino m (by simp [hf])
      apply inv_injector s _ h i m <;> simp [hpc, IPc.t0, IPc.num, IPc.flags, IPc.holdsPid, hal, hp, hf, Flags.set, hat, hi]
      · intro k hk; simp [St.setF, upd, hk]
      · intro j hj; simp [upd, hj]
    next => cases ha
  all_goals cases ha

theorem inv_iUnMess (s s' : St) (h : Inv s) (i m : Nat) (ha : accept s (.iUnMess i m) = some s') : Inv s' := by
  simp only [accept] at ha
  split at ha
  next t0 n hpc =>
    split at ha
    next hg =>
      obtain ⟨hal, rfl, hp⟩ := hg
      cases ha
      have hal' : s.alive (s.inj i).t0 = true := by simpa [hpc, IPc.t0] using hal
      obtain ⟨hf, hat, _⟩ := own_at s h i m (by simp [hpc, IPc.num]) hal'
      simp only [hpc, IPc.flags, IPc.t0] at hf hat
      apply inv_injector s _ h i m <;> simp [hpc, IPc.t0, IPc.num, IPc.flags, IPc.holdsPid, hal, hp, hf, Flags.set, hat]
      · intro k hk; simp [St.setF, upd, hk]
      · intro j hj; simp [upd, hj]
    next => cases ha
  next t0 n hpc =>
    split at ha
    next hg =>
      obtain ⟨hal, rfl, hp⟩ := hg
      cases ha
      have hal' : s.alive (s.inj i).t0 = true := by simpa [hpc, IPc.t0] using hal
      obtain ⟨hf, hat, _⟩ := own_at s h i m (by simp [hpc, IPc.num]) hal'
      simp only [hpc, IPc.flags, IPc.t0] at hf hat
      apply inv_injector s _ h i m <;> simp [hpc, IPc.t0, IPc.num, IPc.flags, IPc.holdsPid, hal, hp, hf, Flags.set, hat]
      · intro k hk; simp [St.setF, upd, hk]
      · intro j hj; simp [upd, hj]
    next => cases ha
  all_goals cases ha


/-! ### events that only retire an instance, move the clock, or start/stop processes -/

theorem inv_inj_drop (s : St) (h : Inv s) (i : Nat) (pc' : IPc) (hn : pc'.num = none) (ht : pc'.t0 ≤ s.now) :
    Inv { s with inj := upd s.inj i pc' } := by
  have hnlo : ∀ n, noLiveOwner s n → noLiveOwner { s with inj := upd s.inj i pc' } n := by
    intro n hno j hj
    by_cases hji : j = i
    · subst hji; simp [upd, hn] at hj
    · simp only [upd, hji, if_false] at hj ⊢; exact hno j hj
  constructor
  · exact h.doc
  · exact h.ino
  · intro j; by_cases hj : j = i
    · subst hj; simpa [upd] using ht
    · simpa [upd, hj] using h.started j
  · intro j n hjn hal
    by_cases hj : j = i
    · subst hj; simp [upd, hn] at hjn
    · simp only [upd, hj, if_false] at hjn hal ⊢; exact h.own j n hjn hal
  · intro a b n hab hna hnb haa hbb
    by_cases ha : a = i
    · subst ha; simp [upd, hn] at hna
    · by_cases hb : b = i
      · subst hb; simp [upd, hn] at hnb
      · simp only [upd, ha, hb, if_false] at hna hnb haa hbb; exact h.distinct a b n hab hna hnb haa hbb
  · exact h.known
  · have hm := h.mode
    unfold ModeInv at hm ⊢
    simp only
    split <;> simp_all
  · have hk := h.kn
    constructor
    · exact hk.infoPres
    · exact hk.infoAbs
    · exact hk.locAbs
    · exact hk.remAbs
    · exact hk.bounceAbs
    · exact hk.todoAbs
    · exact hk.messPres
    · intro hu; exact ⟨(hk.unlinkedInfo hu).1, hnlo _ (hk.unlinkedInfo hu).2⟩
  · exact h.quiet

theorem inv_iStart (s s' : St) (h : Inv s) (i d : Nat) (ha : accept s (.iStart i d) = some s') : Inv s' := by
  simp only [accept] at ha
  split at ha
  · cases ha; exact inv_inj_drop s h i _ (by simp [IPc.num]) (by simp [IPc.t0])
  · cases ha

theorem inv_iDie (s s' : St) (h : Inv s) (i : Nat) (ha : accept s (.iDie i) = some s') : Inv s' := by
  simp only [accept] at ha
  cases ha; exact inv_inj_drop s h i _ (by simp [IPc.num]) (by simp [IPc.t0])

theorem inv_tick (s s' : St) (h : Inv s) (t : Nat) (ha : accept s (.tick t) = some s') : Inv s' := by
  simp only [accept] at ha
  split at ha
  next hle =>
    cases ha
    have hal : ∀ t0, ({ s with now := t, k := { cur := s.k.cur } } : St).alive t0 = true → s.alive t0 = true := by
      intro t0; simp [St.alive]; omega
    have hnlo : ∀ n, noLiveOwner s n → noLiveOwner { s with now := t, k := { cur := s.k.cur } } n := by
      intro n hno j hj
      have := hno j hj
      cases hx : ({ s with now := t, k := { cur := s.k.cur } } : St).alive (s.inj j).t0 with
      | false => rfl
      | true => have := hal _ hx; simp_all
    constructor
    · exact h.doc
    · exact h.ino
    · intro j; have := h.started j; simp only; omega
    · intro j n hjn hx; exact h.own j n hjn (hal _ hx)
    · intro a b n hab hna hnb haa hbb; exact h.distinct a b n hab hna hnb (hal _ haa) (hal _ hbb)
    · exact h.known
    · have hm := h.mode
      unfold ModeInv at hm ⊢
      simp only
      split <;> simp_all
    · exact KnowInv.reset _ s.k.cur rfl
    · intro _; rfl
  · cases ha

theorem inv_crash (s s' : St) (h : Inv s) (ha : accept s .crash = some s') : Inv s' := by
  simp only [accept] at ha
  cases ha
  have hnum : ∀ i, (crashPc (s.inj i)).num = none := by intro i; cases s.inj i <;> simp [crashPc, IPc.num]
  have ht0 : ∀ i, (crashPc (s.inj i)).t0 = 0 := by intro i; cases s.inj i <;> simp [crashPc, IPc.t0]
  constructor
  · exact h.doc
  · exact h.ino
  · intro i; simp [ht0]
  · intro i n hn; simp [hnum] at hn
  · intro a b n _ hn; simp [hnum] at hn
  · intro n hk; simp at hk
  · simp [ModeInv]
  · exact KnowInv.reset _ 0 rfl
  · intro hm; simp at hm

theorem inv_dStartStop (s : St) (h : Inv s) (u : Bool) :
    Inv { s with up := u, mode := .none, k := {}, known := fun _ => false } := by
  constructor
  · exact h.doc
  · exact h.ino
  · exact h.started
  · exact h.own
  · exact h.distinct
  · intro n hk; simp at hk
  · simp [ModeInv]
  · exact KnowInv.reset _ 0 rfl
  · intro hm; simp at hm

theorem inv_cUnlinkPid (s s' : St) (h : Inv s) (n : Nat) (ha : accept s (.cUnlinkPid n) = some s') : Inv s' := by
  simp only [accept] at ha
  split at ha
  next hg =>
    obtain ⟨_, hst⟩ := hg
    cases ha
    have hnlo : ∀ m, noLiveOwner s m → noLiveOwner { s with pidf := upd s.pidf n false } m := fun m hno => hno
    constructor
    · exact h.doc
    · exact h.ino
    · exact h.started
    · intro j m hjm hal
      obtain ⟨hf, hat, hp⟩ := h.own j m hjm hal
      refine ⟨hf, hat, ?_⟩
      intro hh
      by_cases hmn : m = n
      · subst hmn
        have := alive_not_stale s _ m hal hat
        simp_all
      · simpa [upd, hmn] using hp hh
    · exact h.distinct
    · exact h.known
    · have hm := h.mode
      unfold ModeInv at hm ⊢
      simp only
      split <;> simp_all
    · have hk := h.kn
      constructor
      · exact hk.infoPres
      · exact hk.infoAbs
      · exact hk.locAbs
      · exact hk.remAbs
      · exact hk.bounceAbs
      · exact hk.todoAbs
      · exact hk.messPres
      · exact hk.unlinkedInfo
    · exact h.quiet
  · cases ha


/-! ### daemon events -/

/-- One step of qmail-send / qmail-clean on message `n0`: the instance-independent clauses. -/
theorem inv_daemon (s s' : St) (h : Inv s) (n0 : Nat)
    (hfl : ∀ m, m ≠ n0 → s'.fl m = s.fl m)
    (hinj : s'.inj = s.inj) (hpidf : s'.pidf = s.pidf) (hat : s'.atime = s.atime) (hmi : s'.messIno = s.messIno)
    (hnow : s'.now = s.now)
    (hdoc : (s'.fl n0).documented = true)
    (hmess : (s'.fl n0).mess = true → (s.fl n0).mess = true)
    (hown : s'.fl n0 = s.fl n0 ∨ noLiveOwner s n0)
    (hknown : ∀ n, s'.known n = true →
        s'.up = true ∧ (s'.fl n).mess = true ∧ (s'.fl n).info = true ∧ (s'.fl n).todo = false ∧ (s'.fl n).intd = false)
    (hmode : ModeInv s') (hkn : KnowInv s') (hq : s'.mode ≠ .none → s'.k = { cur := s'.k.cur }) : Inv s' := by
  have halive : ∀ t, s'.alive t = s.alive t := by intro t; simp [St.alive, hnow]
  constructor
  · intro n; by_cases hn : n = n0
    · subst hn; exact hdoc
    · rw [hfl n hn]; exact h.doc n
  · intro n; rw [hmi]; by_cases hn : n = n0
    · subst hn; intro hm; exact h.ino n (hmess hm)
    · rw [hfl n hn]; exact h.ino n
  · intro i; rw [hinj, hnow]; exact h.started i
  · intro i n hn hal
    rw [hinj] at hn hal ⊢; rw [halive] at hal; rw [hpidf, hat]
    have ho := h.own i n hn hal
    by_cases hnn : n = n0
    · subst hnn
      rcases hown with he | hno
      · rw [he]; exact ho
      · have := hno i hn; simp_all
    · rw [hfl n hnn]; exact ho
  · intro a b n hab hna hnb haa hbb
    rw [hinj] at hna hnb haa hbb; rw [halive] at haa hbb
    exact h.distinct a b n hab hna hnb haa hbb
  · exact hknown
  · exact hmode
  · exact hkn
  · exact hq

theorem noLiveOwner_congr (s s' : St) (hinj : s'.inj = s.inj) (hnow : s'.now = s.now) (n : Nat) :
    noLiveOwner s' n ↔ noLiveOwner s n := by
  simp [noLiveOwner, St.alive, hinj, hnow]

theorem KnowInv.at_ (s : St) (n : Nat) (hk : KnowInv s) : KnowInv { s with k := s.k.at n } := by
  unfold Know.at
  split
  · exact hk
  · exact KnowInv.reset _ n rfl

theorem Know.at_cur (k : Know) (n : Nat) : (k.at n).cur = n := by
  unfold Know.at; split <;> simp_all

theorem Know.see_cur (k : Know) (f : File) (p : Bool) : (k.see f p).cur = k.cur := by
  unfold Know.see; split <;> rfl

theorem KnowInv.see (s : St) (f : File) (p : Bool) (hk : KnowInv s) (hg : (s.fl s.k.cur).get f = p) :
    KnowInv { s with k := s.k.see f p } := by
  obtain ⟨h1, h2, h3, h4, h5, h6, h7, h8⟩ := hk
  cases f <;> cases p <;> simp only [Flags.get] at hg <;> simp only [Know.see] <;>
    first
    | exact ⟨h1, h2, h3, h4, h5, h6, h7, h8⟩
    | (constructor <;> dsimp only <;> first | assumption | (intros; first | assumption | simp_all))


theorem doc_todo {f : Flags} (h : f.documented = true) (ht : f.todo = true) : f.mess = true ∧ f.bounce = false := by
  obtain ⟨a, b, c, d, e, g, k⟩ := f
  simp only at ht; subst ht
  cases a <;> cases k <;> simp_all [Flags.documented, Flags.isS1, Flags.isS2, Flags.isS3, Flags.isS4, Flags.isS5]

theorem inv_obs (s : St) (h : Inv s) (n : Nat) (f : File) (p : Bool) (hup : s.up = true) (hg : (s.fl n).get f = p) :
    Inv { s with mode := .none, k := (s.k.at n).see f p,
                 known := upd s.known n (s.known n || (((s.k.at n).see f p).infoPres && ((s.k.at n).see f p).todoAbs)) } := by
  have hkn : KnowInv { s with k := (s.k.at n).see f p } := by
    have h1 := KnowInv.at_ s n h.kn
    have := KnowInv.see { s with k := s.k.at n } f p h1 (by simpa [Know.at_cur] using hg)
    exact this
  have hcur : ((s.k.at n).see f p).cur = n := by rw [Know.see_cur, Know.at_cur]
  apply inv_daemon s _ h n <;> try simp
  · exact h.doc n
  · intro m hm
    by_cases hmn : m = n
    · subst hmn
      simp only [upd_same, Bool.or_eq_true, Bool.and_eq_true] at hm
      rcases hm with hm | ⟨hi, ht⟩
      · exact h.known m hm
      · have hinfo := hkn.infoPres hi
        have htodo := hkn.todoAbs ht (Or.inl hinfo)
        simp only [hcur] at hinfo htodo
        have := doc_s5 (h.doc m) hinfo htodo
        exact ⟨hup, this.1, hinfo, htodo, this.2⟩
    · rw [upd_other _ _ _ _ hmn] at hm; exact h.known m hm
  · simp [ModeInv]
  · obtain ⟨h1, h2, h3, h4, h5, h6, h7, h8⟩ := hkn
    exact ⟨h1, h2, h3, h4, h5, h6, h7, h8⟩

theorem mode_none_of (m : DMode) (h1 : m.cleaning = false) (h2 : ∀ a b, m ≠ .inTodo a b) : m = .none := by
  cases m <;> simp_all [DMode.cleaning]

theorem inv_dObs (s s' : St) (h : Inv s) (n : Nat) (f : File) (p : Bool) (ha : accept s (.dObs n f p) = some s') : Inv s' := by
  simp only [accept] at ha
  split at ha
  next hg =>
    obtain ⟨hup, hcl, hfp⟩ := hg
    split at ha
    next m mi hmode =>
      split at ha
      · cases ha; exact h
      · cases ha; exact inv_obs s h n f p hup hfp
    next hno =>
      have hmn : s.mode = .none := mode_none_of _ hcl (fun a b e => hno a b e)
      cases ha
      have := inv_obs s h n f p hup hfp
      rw [← hmn] at this
      exact this
  · cases ha

theorem inv_dOpenTodo (s s' : St) (h : Inv s) (n : Nat) (ha : accept s (.dOpenTodo n) = some s') : Inv s' := by
  simp only [accept] at ha
  split at ha
  next hg =>
    obtain ⟨hup, hcl, ht⟩ := hg
    cases ha
    have hd := doc_todo (h.doc n) ht
    apply inv_daemon s _ h n <;> try simp
    · exact h.doc n
    · exact h.known
    · simp [ModeInv, hup, ht, hd]
    · exact KnowInv.reset _ n rfl
  · cases ha


theorem setF_other_fl (s : St) (n : Nat) (x : File) (b : Bool) : ∀ m, m ≠ n → (s.setF n x b).fl m = s.fl m :=
  fun m hm => setF_fl_other s n m x b hm

/-- todo_do: (re)moving info/local/remote of a message that has todo/n -/
theorem inv_inTodo_set (s : St) (h : Inv s) (n : Nat) (x : File) (b mi mi' : Bool) (hmode : s.mode = .inTodo n mi)
    (hx : x = .loc ∨ x = .rem ∨ x = .info) (hmi' : mi' = true → ((s.fl n).set x b).info = true) :
    Inv { (s.setF n x b) with mode := .inTodo n mi' } := by
  have hm := h.mode
  rw [ModeInv, hmode] at hm
  obtain ⟨hup, hmess, htodo, hb, _⟩ := hm
  have hq := h.quiet (by rw [hmode]; simp)
  have hset : ((s.fl n).set x b).mess = true ∧ ((s.fl n).set x b).todo = true ∧ ((s.fl n).set x b).bounce = false := by
    rcases hx with rfl | rfl | rfl <;> simp [Flags.set, hmess, htodo, hb]
  apply inv_daemon s _ h n <;> try simp
  · intro m hmn; exact setF_fl_other s n m x b hmn
  · exact doc_s4 hset.1 hset.2.1 hset.2.2
  · intro _; exact hmess
  · right; exact noLiveOwner_of s h n (Or.inl htodo)
  · intro m hk
    have hkm := h.known m hk
    by_cases hmn : m = n
    · subst hmn; simp_all
    · rw [setF_fl_other s n m x b hmn]; exact hkm
  · simp only [ModeInv, setF_fl_same, setF_up]
    exact ⟨hup, hset.1, hset.2.1, hset.2.2, hmi'⟩
  · exact KnowInv.reset _ s.k.cur hq
  · exact hq

/-- delivery phase: a change to local/remote/bounce of a preprocessed message -/
theorem inv_s5_set (s : St) (h : Inv s) (n : Nat) (x : File) (b : Bool) (k' : Know)
    (hmode : s.mode = .none) (hup : s.up = true)
    (hcore : (s.fl n).mess = true ∧ (s.fl n).info = true ∧ (s.fl n).todo = false ∧ (s.fl n).intd = false)
    (hx : x = .loc ∨ x = .rem ∨ x = .bounce)
    (hk' : KnowInv { (s.setF n x b) with k := k' }) :
    Inv { (s.setF n x b) with k := k' } := by
  have hset : ((s.fl n).set x b).mess = true ∧ ((s.fl n).set x b).info = true ∧ ((s.fl n).set x b).todo = false ∧
      ((s.fl n).set x b).intd = false := by
    rcases hx with rfl | rfl | rfl <;> simpa [Flags.set] using hcore
  apply inv_daemon s _ h n <;> try simp
  · intro m hmn; exact setF_fl_other s n m x b hmn
  · exact doc_s5' hset.1 hset.2.1 hset.2.2.1 hset.2.2.2
  · intro _; exact hcore.1
  · right; exact noLiveOwner_of s h n (Or.inr (Or.inl hcore.2.1))
  · intro m hk
    have hkm := h.known m hk
    by_cases hmn : m = n
    · subst hmn; rw [setF_fl_same]; exact ⟨hup, hset⟩
    · rw [setF_fl_other s n m x b hmn]; exact hkm
  · simp [ModeInv, hmode]
  · exact hk'
  · intro hm; exact absurd hmode hm

/-- knowledge about `n` stays valid when one of local/remote/bounce of `n` changes and the matching bit is adjusted -/
theorem KnowInv.s5_set (s : St) (h : Inv s) (n : Nat) (x : File) (b : Bool) (k' : Know)
    (hinfo : (s.fl n).info = true)
    (hx : x = .loc ∨ x = .rem ∨ x = .bounce)
    (hcur : k'.cur = n)
    (h1 : k'.infoPres = (s.k.at n).infoPres) (h2 : k'.infoAbs = (s.k.at n).infoAbs)
    (h3 : k'.locAbs = true → (x = .loc ∧ b = false) ∨ (x ≠ .loc ∧ (s.k.at n).locAbs = true))
    (h4 : k'.remAbs = true → (x = .rem ∧ b = false) ∨ (x ≠ .rem ∧ (s.k.at n).remAbs = true))
    (h5 : k'.bounceAbs = true → (x = .bounce ∧ b = false) ∨ (x ≠ .bounce ∧ (s.k.at n).bounceAbs = true))
    (h6 : k'.todoAbs = (s.k.at n).todoAbs) (h7 : k'.messPres = (s.k.at n).messPres)
    (h8 : k'.unlinkedInfo = (s.k.at n).unlinkedInfo) :
    KnowInv { (s.setF n x b) with k := k' } := by
  have h0 := KnowInv.at_ s n h.kn
  have hc : (s.k.at n).cur = n := Know.at_cur _ _
  obtain ⟨g1, g2, g3, g4, g5, g6, g7, g8⟩ := h0
  simp only [hc] at g1 g2 g3 g4 g5 g6 g7 g8
  have hst : ∀ m, ({ (s.setF n x b) with k := k' } : St).stale m = s.stale m := fun m => rfl
  constructor <;> simp only [hcur, setF_fl_same, hst]
  · rw [h1]; intro hp; rcases hx with rfl | rfl | rfl <;> simpa [Flags.set] using g1 hp
  · rw [h2]; intro hp; rcases hx with rfl | rfl | rfl <;> simpa [Flags.set] using g2 hp
  · intro hp; rcases h3 hp with ⟨rfl, rfl⟩ | ⟨hne, hh⟩
    · simp [Flags.set]
    · rcases hx with rfl | rfl | rfl <;> simp_all [Flags.set]
  · intro hp; rcases h4 hp with ⟨rfl, rfl⟩ | ⟨hne, hh⟩
    · simp [Flags.set]
    · rcases hx with rfl | rfl | rfl <;> simp_all [Flags.set]
  · intro hp; rcases h5 hp with ⟨rfl, rfl⟩ | ⟨hne, hh⟩
    · simp [Flags.set]
    · rcases hx with rfl | rfl | rfl <;> simp_all [Flags.set]
  · rw [h6]; intro hp hq
    have : (s.fl n).todo = false := g6 hp (Or.inl hinfo)
    rcases hx with rfl | rfl | rfl <;> simpa [Flags.set] using this
  · rw [h7]; intro hp hq
    have := g7 hp hq
    rcases hx with rfl | rfl | rfl <;> simpa [Flags.set] using this
  · rw [h8]; intro hp
    have := (g8 hp).1
    rw [this] at hinfo; simp at hinfo

theorem setF_mode_eq (s : St) (n : Nat) (x : File) (b : Bool) (md : DMode) (h : s.mode = md) :
    s.setF n x b = { (s.setF n x b) with mode := md } := by
  cases s; simp_all [St.setF]

theorem inv_dUnlink (s s' : St) (h : Inv s) (n : Nat) (f : File) (ha : accept s (.dUnlink n f) = some s') : Inv s' := by
  simp only [accept] at ha
  split at ha
  next hg =>
    obtain ⟨hup, hfp⟩ := hg
    split at ha
    · split at ha
      next hm hmn =>
        subst hmn; cases ha
        rw [setF_mode_eq s _ File.loc false _ hm]
        exact inv_inTodo_set s h _ .loc false false false hm (by simp) (by simp)
      · cases ha
    · split at ha
      next hm hmn =>
        subst hmn; cases ha
        rw [setF_mode_eq s _ File.rem false _ hm]
        exact inv_inTodo_set s h _ .rem false false false hm (by simp) (by simp)
      · cases ha
    · split at ha
      next hm hmn =>
        subst hmn; cases ha
        rw [setF_mode_eq s _ File.info false _ hm]
        exact inv_inTodo_set s h _ .info false false false hm (by simp) (by simp)
      · cases ha
    · -- delivery phase: unlink local/n
      next hm =>
      split at ha
      next hk =>
        cases ha
        obtain ⟨_, hmess, hinfo, htodo, hintd⟩ := h.known _ hk
        apply inv_s5_set s h _ .loc false _ hm hup ⟨hmess, hinfo, htodo, hintd⟩ (by simp)
        apply KnowInv.s5_set s h _ .loc false _ hinfo (by simp) <;> simp [Know.at_cur]
      · cases ha
    · next hm =>
      split at ha
      next hk =>
        cases ha
        obtain ⟨_, hmess, hinfo, htodo, hintd⟩ := h.known _ hk
        apply inv_s5_set s h _ .rem false _ hm hup ⟨hmess, hinfo, htodo, hintd⟩ (by simp)
        apply KnowInv.s5_set s h _ .rem false _ hinfo (by simp) <;> simp [Know.at_cur]
      · cases ha
    · -- messdone / injectbounce: unlink bounce/n
      next hm =>
      split at ha
      next hg2 =>
        obtain ⟨hcur, hl, hr, ht, hi⟩ := hg2
        cases ha
        have hinfo := h.kn.infoPres hi
        have htodo := h.kn.todoAbs ht (Or.inl hinfo)
        rw [hcur] at hinfo htodo
        have hd := doc_s5 (h.doc _) hinfo htodo
        apply inv_s5_set s h _ .bounce false _ hm hup ⟨hd.1, hinfo, htodo, hd.2⟩ (by simp)
        have hat : s.k.at n = s.k := by simp [Know.at, hcur]
        apply KnowInv.s5_set s h _ .bounce false _ hinfo (by simp) <;> simp [hat, hcur]
      · cases ha
    · -- messdone: unlink info/n
      next hm =>
      split at ha
      next hg2 =>
        obtain ⟨hcur, hl, hr, ht, hi, hb⟩ := hg2
        cases ha
        have hinfo := h.kn.infoPres hi
        have htodo := h.kn.todoAbs ht (Or.inl hinfo)
        have hloc := h.kn.locAbs hl
        have hrem := h.kn.remAbs hr
        have hbo := h.kn.bounceAbs hb
        rw [hcur] at hinfo htodo hloc hrem hbo
        have hd := doc_s5 (h.doc _) hinfo htodo
        have hfl' : (s.fl n).set .info false = { mess := true } :=
          Flags.ext' (by simp [Flags.set, hd.1]) (by simp [Flags.set, hd.2]) (by simp [Flags.set, htodo])
            (by simp [Flags.set]) (by simp [Flags.set, hloc]) (by simp [Flags.set, hrem]) (by simp [Flags.set, hbo])
        have hnlo := noLiveOwner_of s h n (Or.inr (Or.inl hinfo))
        apply inv_daemon s _ h n <;> try simp
        · intro m hmn; exact setF_fl_other s n m .info false hmn
        · rw [hfl']; decide
        · intro _; exact hd.1
        · right; exact hnlo
        · intro m hk
          by_cases hmn : m = n
          · subst hmn; simp at hk
          · rw [upd_other _ _ _ _ hmn] at hk
            rw [setF_fl_other s n m .info false hmn]; exact h.known m hk
        · simp [ModeInv, hm]
        · constructor <;> simp only [hcur, setF_fl_same, hfl']
          · simp
          · simp
          · simp
          · simp
          · simp
          · simp
          · simp
          · intro _; exact ⟨trivial, hnlo⟩
        · exact hm
      · cases ha
    · cases ha
  · cases ha


theorem inv_dCreat (s s' : St) (h : Inv s) (n : Nat) (f : File) (ha : accept s (.dCreat n f) = some s') : Inv s' := by
  simp only [accept] at ha
  split at ha
  next hup =>
    split at ha
    · next hm =>
      split at ha
      next hg =>
        obtain ⟨rfl, hi⟩ := hg; cases ha
        exact inv_inTodo_set s h _ .info true false true hm (by simp) (by simp [Flags.set])
      · cases ha
    · next hm =>
      split at ha
      next hg =>
        obtain ⟨rfl, hi⟩ := hg; cases ha
        have hmi := h.mode; rw [ModeInv, hm] at hmi
        rw [setF_mode_eq s _ File.loc true _ hm]
        exact inv_inTodo_set s h _ .loc true true true hm (by simp) (by simpa [Flags.set] using hmi.2.2.2.2)
      · cases ha
    · next hm =>
      split at ha
      next hg =>
        obtain ⟨rfl, hi⟩ := hg; cases ha
        have hmi := h.mode; rw [ModeInv, hm] at hmi
        rw [setF_mode_eq s _ File.rem true _ hm]
        exact inv_inTodo_set s h _ .rem true true true hm (by simp) (by simpa [Flags.set] using hmi.2.2.2.2)
      · cases ha
    · next hm =>
      split at ha
      next hk =>
        cases ha
        obtain ⟨_, hmess, hinfo, htodo, hintd⟩ := h.known _ hk
        apply inv_s5_set s h _ .bounce true _ hm hup ⟨hmess, hinfo, htodo, hintd⟩ (by simp)
        apply KnowInv.s5_set s h _ .bounce true _ hinfo (by simp) <;> simp [Know.at_cur]
      · cases ha
    · cases ha
  · cases ha

theorem inv_dReq (s s' : St) (h : Inv s) (b : Bool) (n : Nat) (ha : accept s (.dReq b n) = some s') : Inv s' := by
  cases b
  · -- "foop/n"
    simp only [accept] at ha
    split at ha
    next hm =>
      split at ha
      next hg =>
        obtain ⟨hup, hcur, hc⟩ := hg
        cases ha
        have hkn := h.kn
        have hfacts : (s.fl n).mess = true ∧ (s.fl n).todo = false ∧ (s.fl n).info = false ∧ noLiveOwner s n := by
          rcases hc with hu | ⟨hmp, hia, hta, hst⟩
          · have := hkn.unlinkedInfo hu
            rw [hcur] at this
            rw [this.1]; exact ⟨rfl, rfl, rfl, this.2⟩
          · have h1 := hkn.messPres hmp; have h2 := hkn.infoAbs hia; have h3 := hkn.todoAbs hta
            rw [hcur] at h1 h2 h3
            exact ⟨h1 hst, h3 (Or.inr hst), h2, noLiveOwner_of s h n (Or.inr (Or.inr hst))⟩
        apply inv_daemon s _ h n <;> try simp
        · exact h.doc n
        · exact h.known
        · simp only [ModeInv]
          exact ⟨hup, hfacts.1, hfacts.2.1, hfacts.2.2.1, hfacts.2.2.2⟩
        · exact KnowInv.reset _ n rfl
      · cases ha
    all_goals cases ha
  · -- "todo/n"
    simp only [accept] at ha
    split at ha
    next m hm =>
      split at ha
      next hg =>
        obtain ⟨rfl, hup⟩ := hg
        cases ha
        have hmi := h.mode; rw [ModeInv, hm] at hmi
        apply inv_daemon s _ h m <;> try simp
        · exact h.doc m
        · exact h.known
        · simp only [ModeInv]
          exact ⟨hmi.1, hmi.2.1, hmi.2.2.1, hmi.2.2.2.1, hmi.2.2.2.2 rfl⟩
        · exact KnowInv.reset _ m rfl
      · cases ha
    all_goals cases ha


/-- qmail-clean's unlinks: the clauses shared by the four cases -/
theorem inv_clean_set (s : St) (h : Inv s) (n : Nat) (x : File) (md' : DMode)
    (hcl : s.mode ≠ .none)
    (hno : noLiveOwner s n)
    (hmess : ((s.fl n).set x false).mess = true → (s.fl n).mess = true)
    (hdoc : ((s.fl n).set x false).documented = true)
    (hnk : s.known n = false)
    (hmode : ModeInv { (s.setF n x false) with mode := md' }) :
    Inv { (s.setF n x false) with mode := md' } := by
  have hq := h.quiet hcl
  apply inv_daemon s _ h n <;> try simp
  · intro m hmn; exact setF_fl_other s n m x false hmn
  · exact hdoc
  · exact hmess
  · right; exact hno
  · intro m hk
    by_cases hmn : m = n
    · subst hmn; simp [hnk] at hk
    · rw [setF_fl_other s n m x false hmn]; exact h.known m hk
  · exact hmode
  · exact KnowInv.reset _ s.k.cur hq
  · intro _; exact hq

theorem inv_cUnlink (s s' : St) (h : Inv s) (n : Nat) (f : File) (ok : Bool) (ha : accept s (.cUnlink n f ok) = some s') : Inv s' := by
  simp only [accept] at ha
  split at ha
  · next m hm =>
    split at ha
    next hg =>
      obtain ⟨rfl, _⟩ := hg; cases ha
      have hmi := h.mode; rw [ModeInv, hm] at hmi
      obtain ⟨hup, hmess, htodo, hb, hinfo⟩ := hmi
      have hnk : s.known m = false := by
        cases hk : s.known m with
        | false => rfl
        | true => have := h.known m hk; simp_all
      apply inv_clean_set s h m .intd _ (by rw [hm]; simp) (noLiveOwner_of s h m (Or.inl htodo)) (by simp [Flags.set])
        (doc_s4 (by simpa [Flags.set] using hmess) (by simpa [Flags.set] using htodo) (by simpa [Flags.set] using hb)) hnk
      simp [ModeInv, Flags.set, hup, hmess, htodo, hb, hinfo]
    · cases ha
  · next m hm =>
    split at ha
    next hg =>
      obtain ⟨rfl, _⟩ := hg; cases ha
      have hmi := h.mode; rw [ModeInv, hm] at hmi
      obtain ⟨hup, hmess, htodo, hb, hinfo, hintd⟩ := hmi
      have hnk : s.known m = false := by
        cases hk : s.known m with
        | false => rfl
        | true => have := h.known m hk; simp_all
      apply inv_clean_set s h m .todo _ (by rw [hm]; simp) (noLiveOwner_of s h m (Or.inl htodo)) (by simp [Flags.set])
        (doc_s5' (by simpa [Flags.set] using hmess) (by simpa [Flags.set] using hinfo) (by simp [Flags.set])
          (by simpa [Flags.set] using hintd)) hnk
      simp [ModeInv, Flags.set, hup, hmess, hinfo, hintd]
    · cases ha
  · next m hm =>
    split at ha
    next hg =>
      obtain ⟨rfl, _⟩ := hg; cases ha
      have hmi := h.mode; rw [ModeInv, hm] at hmi
      obtain ⟨hup, hmess, htodo, hinfo, hno⟩ := hmi
      have hnk : s.known m = false := by
        cases hk : s.known m with
        | false => rfl
        | true => have := h.known m hk; simp_all
      have h23 := doc_s23 (h.doc m) hmess hinfo htodo
      have hfl' : (s.fl m).set .intd false = { mess := true } :=
        Flags.ext' (by simp [Flags.set, hmess]) (by simp [Flags.set]) (by simp [Flags.set, htodo])
          (by simp [Flags.set, hinfo]) (by simp [Flags.set, h23.1]) (by simp [Flags.set, h23.2.1]) (by simp [Flags.set, h23.2.2])
      apply inv_clean_set s h m .intd _ (by rw [hm]; simp) hno (by simp [Flags.set]) (by rw [hfl']; decide) hnk
      simp only [ModeInv, setF_fl_same, setF_up, hfl']
      exact ⟨hup, trivial, (noLiveOwner_congr s _ rfl rfl m).2 hno⟩
    · cases ha
  · next m hm =>
    split at ha
    next hg =>
      obtain ⟨rfl, _⟩ := hg; cases ha
      have hmi := h.mode; rw [ModeInv, hm] at hmi
      obtain ⟨hup, hfl, hno⟩ := hmi
      have hnk : s.known m = false := by
        cases hk : s.known m with
        | false => rfl
        | true => have := h.known m hk; rw [hfl] at this; simp at this
      apply inv_clean_set s h m .mess _ (by rw [hm]; simp) hno (by simp [Flags.set]) (by rw [hfl]; decide) hnk
      simp [ModeInv, hup]
    · cases ha
  · cases ha

theorem inv_cDone (s s' : St) (h : Inv s) (plus : Bool) (ha : accept s (.cDone plus) = some s') : Inv s' := by
  simp only [accept] at ha
  have hfin : ∀ (kn' : Nat → Bool), s.mode ≠ .none →
      (∀ n, kn' n = true → s.up = true ∧ (s.fl n).mess = true ∧ (s.fl n).info = true ∧ (s.fl n).todo = false ∧ (s.fl n).intd = false) →
      Inv { s with mode := .none, known := kn' } := by
    intro kn' hne hk
    have hq := h.quiet hne
    apply inv_daemon s _ h 0 <;> try simp
    · exact h.doc 0
    · exact hk
    · simp [ModeInv]
    · exact KnowInv.reset _ s.k.cur hq
  have hsame : { s with mode := DMode.none } = { s with mode := DMode.none, known := s.known } := rfl
  split at ha
  · next n hm =>
    cases ha
    apply hfin _ (by rw [hm]; simp)
    intro m hk
    by_cases hmn : m = n
    · subst hmn
      have hmi := h.mode; rw [ModeInv, hm] at hmi
      exact hmi
    · rw [upd_other _ _ _ _ hmn] at hk; exact h.known m hk
  · next hm => cases ha; rw [hsame]; exact hfin _ (by rw [hm]; simp) h.known
  · next hm => split at ha
               · cases ha; rw [hsame]; exact hfin _ (by rw [hm]; simp) h.known
               · cases ha
  · next hm => split at ha
               · cases ha; rw [hsame]; exact hfin _ (by rw [hm]; simp) h.known
               · cases ha
  · next hm => split at ha
               · cases ha; rw [hsame]; exact hfin _ (by rw [hm]; simp) h.known
               · cases ha
  · next hm => split at ha
               · cases ha; rw [hsame]; exact hfin _ (by rw [hm]; simp) h.known
               · cases ha
  · cases ha

/-! ### the invariant holds in every reachable state -/

theorem inv_init : Inv {} := by
  constructor
  · intro n; exact doc_empty
  · intro n hm; simp at hm
  · intro i; simp [IPc.t0]
  · intro i n hn; simp [IPc.num] at hn
  · intro a b n _ hn; simp [IPc.num] at hn
  · intro n hk; simp at hk
  · simp [ModeInv]
  · exact KnowInv.reset _ 0 rfl
  · intro hm; simp at hm

theorem inv_step (s s' : St) (e : Ev) (h : Inv s) (ha : accept s e = some s') : Inv s' := by
  cases e with
  | tick t => exact inv_tick s s' h t ha
  | iStart i d => exact inv_iStart s s' h i d ha
  | iOpenPid i n => exact inv_iOpenPid s s' h i n ha
  | iLinkMess i m => exact inv_iLinkMess s s' h i m ha
  | iUnlinkPid i => exact inv_iUnlinkPid s s' h i ha
  | iCreatIntd i m => exact inv_iCreatIntd s s' h i m ha
  | iLinkTodo i m => exact inv_iLinkTodo s s' h i m ha
  | iUnIntd i m => exact inv_iUnIntd s s' h i m ha
  | iUnMess i m => exact inv_iUnMess s s' h i m ha
  | iDie i => exact inv_iDie s s' h i ha
  | dStart =>
    simp only [accept] at ha
    split at ha
    · cases ha; exact inv_dStartStop s h true
    · cases ha
  | dRefused =>
    simp only [accept] at ha
    split at ha
    · cases ha; exact h
    · cases ha
  | dDie =>
    simp only [accept] at ha
    split at ha
    · cases ha; exact inv_dStartStop s h false
    · cases ha
  | dObs n f p => exact inv_dObs s s' h n f p ha
  | dOpenTodo n => exact inv_dOpenTodo s s' h n ha
  | dAbortTodo =>
    simp only [accept] at ha
    split at ha
    · cases ha
      have hk := h.kn
      apply inv_daemon s _ h 0 <;> try simp
      · exact h.doc 0
      · exact h.known
      · simp [ModeInv]
      · exact ⟨hk.infoPres, hk.infoAbs, hk.locAbs, hk.remAbs, hk.bounceAbs, hk.todoAbs, hk.messPres, hk.unlinkedInfo⟩
    · cases ha
  | dUnlink n f => exact inv_dUnlink s s' h n f ha
  | dCreat n f => exact inv_dCreat s s' h n f ha
  | dReq b n => exact inv_dReq s s' h b n ha
  | cUnlink n f ok => exact inv_cUnlink s s' h n f ok ha
  | cDone plus => exact inv_cDone s s' h plus ha
  | cUnlinkPid n => exact inv_cUnlinkPid s s' h n ha
  | crash => exact inv_crash s s' h ha

theorem inv_acceptAll (s s' : St) (es : List Ev) (h : Inv s) (ha : acceptAll s es = some s') : Inv s' := by
  induction es generalizing s with
  | nil => simp [acceptAll] at ha; subst ha; exact h
  | cons e es ih =>
    simp only [acceptAll] at ha
    split at ha
    next s1 h1 => exact ih s1 (inv_step s s1 e h h1) ha
    · cases ha

end Nq.QueueSys
