/-
  Lemmas for C14 at daemon level: the history invariant `GInv` of the ghost layer
  `Nq.BounceDaemon` over the monitor `Nq.Daemon`, preserved by every accepted event; the
  characterisation of `last` on traces; `isInfix` facts; the bridge lemmas between
  `Nq.Bounce.inject` and the monitor's guards.
-/
import Nq.BounceDaemon
import Nq.Lemmas.DaemonMain

namespace Nq.Lemmas.BD
open Nq Nq.Daemon Nq.BounceDaemon

/-! ### `isInfix` -/

theorem isInfix_iff (pat : Bytes) : ∀ (s : Bytes), isInfix pat s = true ↔ ∃ a b, s = a ++ pat ++ b
  | [] => by
    simp only [isInfix]
    constructor
    · intro h; exact ⟨[], [], by simp at h; simp [h]⟩
    · rintro ⟨a, b, h⟩
      have : pat = [] := by
        cases pat with
        | nil => rfl
        | cons c t => cases a <;> simp at h
      simp [this]
  | c :: t => by
    simp only [isInfix, Bool.or_eq_true, List.isPrefixOf_iff_prefix, isInfix_iff pat t]
    constructor
    · rintro (⟨b, hb⟩ | ⟨a, b, h⟩)
      · exact ⟨[], b, by simp [hb]⟩
      · exact ⟨c :: a, b, by simp [h]⟩
    · rintro ⟨a, b, h⟩
      cases a with
      | nil => left; exact ⟨b, by simpa using h.symm⟩
      | cons a0 a' =>
        right
        simp only [List.cons_append, List.cons.injEq] at h
        exact ⟨a', b, h.2⟩

theorem isInfix_mid (a pat b : Bytes) : isInfix pat (a ++ pat ++ b) = true := (isInfix_iff pat _).2 ⟨a, b, rfl⟩

theorem isInfix_trans (a b c : Bytes) (h1 : isInfix a b = true) (h2 : isInfix b c = true) : isInfix a c = true := by
  obtain ⟨p, q, rfl⟩ := (isInfix_iff a b).1 h1
  obtain ⟨r, t, rfl⟩ := (isInfix_iff _ c).1 h2
  exact (isInfix_iff a _).2 ⟨r ++ p, q ++ t, by simp⟩

theorem isInfix_fileOf (parts : List Bytes) (p : Bytes) (h : p ∈ parts) : isInfix p (fileOf parts) = true := by
  have h' : p ∈ parts.reverse := List.mem_reverse.2 h
  obtain ⟨u, v, huv⟩ := List.append_of_mem h'
  exact (isInfix_iff p _).2 ⟨u.flatten, v.flatten, by simp [fileOf, huv]⟩

theorem isInfix_append_right (p a b : Bytes) (h : isInfix p a = true) : isInfix p (a ++ b) = true := by
  obtain ⟨u, v, rfl⟩ := (isInfix_iff p a).1 h
  exact (isInfix_iff p _).2 ⟨u, v ++ b, by simp⟩

theorem isInfix_self_right (a p : Bytes) : isInfix p (a ++ p) = true :=
  (isInfix_iff p _).2 ⟨a, [], by simp⟩

/-! ### the part of a message's state the bounce record depends on -/

structure BV where
  todo : Bool
  accepted : Option (Bytes × List Bytes)
  info : Option Bytes
  bounce : Option Bytes
  noted : List (Ch × Nat)
  inFile : List (Ch × Nat)
  bounced : List (Ch × Nat)
  discarded : Bool
  lost : Bool
  lastInject : Bool
  lostRecs : List (Ch × Nat)

def bv (ms : MsgSt) : BV :=
  { todo := ms.todo.isSome, accepted := ms.accepted, info := ms.info, bounce := ms.bounce, noted := ms.noted, inFile := ms.inFile,
    bounced := ms.bounced, discarded := ms.discarded, lost := ms.lost, lastInject := ms.lastInject,
    lostRecs := ms.lostRecs }

/-- well-formedness of one recorded injection -/
structure SentOK (cfg : Cfg) (v : BV) (x : Sent) : Prop where
  inf : isInfix x.file x.body = true
  env : x.env = bounceEnvelope cfg x.sender
  notdb : x.sender ≠ Bounce.DBSENDER
  len : x.paras.length = x.parts.length
  sender : ∀ info, v.info = some info → x.sender = senderOf info
  acc : ∀ sd r, v.accepted = some (sd, r) → x.sender = sd
  intact : v.lost = false → x.parts ≠ [] ∧ x.file = fileOf x.parts
  /-- per record: the text appended for a record that is not among the crash-lost ones is in the file that was injected -/
  kept : ∀ pr ∈ List.zip x.paras x.parts, pr.1 ∉ v.lostRecs → isInfix pr.2 x.file = true

/-- the history invariant of one message -/
structure GMInv (cfg : Cfg) (v : BV) (gm : GMsg) : Prop where
  /-- while `todo/<m>` exists there is no bounce record and no history -/
  t0 : v.todo = true → v.bounce = none ∧ v.noted = [] ∧ v.inFile = [] ∧ v.bounced = [] ∧ v.lastInject = false ∧ gm = {}
  /-- every appended paragraph is in the file, in a committed bounce, or was discarded — counted with multiplicity -/
  c1 : ∀ x, v.noted.count x = v.inFile.count x + v.bounced.count x + gm.dropped.count x
  /-- the monitor's `bounced` is exactly what the committed injections carried -/
  c2 : v.bounced = (gm.committed.map (·.paras)).flatten
  c3 : gm.parts.length = v.inFile.length
  /-- unless a machine crash intervened, the file is the concatenation of the appended texts -/
  c4 : v.lost = false → v.bounce = (if gm.parts = [] then none else some (fileOf gm.parts))
  /-- `lastInject` on an existing file: the recorded last injection is of exactly this file -/
  c5 : v.lastInject = true → v.bounce ≠ none →
        ∃ x, gm.last = some x ∧ v.bounce = some x.file ∧ x.paras = v.inFile ∧ x.parts = gm.parts
  c5a : ∀ x, gm.last = some x → x ∈ gm.attempts
  c6 : ∀ x ∈ gm.attempts, SentOK cfg v x
  c6a : ∀ x ∈ gm.committed, x ∈ gm.attempts
  c8 : gm.dropped ≠ [] → v.discarded = true
  /-- per record: the text appended for a record of the current file that is not among the crash-lost ones is in the file -/
  p1 : ∀ pr ∈ List.zip v.inFile gm.parts, pr.1 ∉ v.lostRecs → isInfix pr.2 (v.bounce.getD []) = true

def GInv (cfg : Cfg) (s : St) (g : Ghost) : Prop := ∀ k, GMInv cfg (bv (s.msg k)) (g k)

theorem gminv_empty (cfg : Cfg) (v : BV) (hb : v.bounce = none) (h1 : v.noted = []) (h2 : v.inFile = [])
    (h3 : v.bounced = []) (h4 : v.lastInject = false) : GMInv cfg v {} := by
  constructor
  · intro _; exact ⟨hb, h1, h2, h3, h4, rfl⟩
  · intro x; simp [h1, h2, h3]
  · simp [h3]
  · simp [h2]
  · intro _; simp [hb]
  · intro h; rw [h4] at h; cases h
  · intro x h; cases h
  · intro x h; cases h
  · intro x h; cases h
  · intro h; exact absurd rfl h
  · intro pr hpr; simp [h2] at hpr

theorem ginv_init (cfg : Cfg) : GInv cfg ginit.1 ginit.2 := by
  intro k
  have : (({} : St).msg k) = {} := by simp [St.msg, tabGet]
  show GMInv cfg (bv (({} : St).msg k)) {}
  rw [this]
  exact gminv_empty cfg _ rfl rfl rfl rfl rfl

/-- events in the `todo/<m>` context may rewrite `info/<m>` freely -/
theorem gminv_todo_ctx (cfg : Cfg) (v v' : BV) (gm : GMsg) (h : GMInv cfg v gm) (ht : v.todo = true)
    (_e0 : v'.todo = v.todo) (e1 : v'.bounce = v.bounce) (e2 : v'.noted = v.noted) (e3 : v'.inFile = v.inFile)
    (e4 : v'.bounced = v.bounced) (e5 : v'.lastInject = v.lastInject) : GMInv cfg v' gm := by
  obtain ⟨a, b, c, d, e, f⟩ := h.t0 ht
  subst f
  exact gminv_empty cfg v' (by rw [e1]; exact a) (by rw [e2]; exact b) (by rw [e3]; exact c) (by rw [e4]; exact d)
    (by rw [e5]; exact e)

theorem gset_apply (g : Ghost) (m : Nat) (v : GMsg) (k : Nat) : gset g m v k = if k = m then v else g k := rfl

/-- one message (and its history) updated -/
theorem ginv_upd (cfg : Cfg) (s s' : St) (g g' : Ghost) (m : Nat) (ms' : MsgSt) (gm' : GMsg)
    (hmsg : ∀ k, s'.msg k = if k = m then ms' else s.msg k) (hg : ∀ k, g' k = if k = m then gm' else g k)
    (hinv : GInv cfg s g) (hm : GMInv cfg (bv ms') gm') : GInv cfg s' g' := by
  intro k
  rw [hmsg k, hg k]
  by_cases hk : k = m
  · simp only [hk, if_true]; exact hm
  · simp only [hk, if_false]; exact hinv k

/-- one message updated in a way the bounce record does not see -/
theorem ginv_frame (cfg : Cfg) (s s' : St) (g : Ghost) (m : Nat) (ms' : MsgSt)
    (hmsg : ∀ k, s'.msg k = if k = m then ms' else s.msg k)
    (hinv : GInv cfg s g) (hbv : bv ms' = bv (s.msg m)) : GInv cfg s' g := by
  intro k
  rw [hmsg k]
  by_cases hk : k = m
  · simp only [hk, if_true]; rw [hbv]; exact hinv m
  · simp only [hk, if_false]; exact hinv k

theorem ginv_same (cfg : Cfg) (s s' : St) (g : Ghost) (hmsg : ∀ k, bv (s'.msg k) = bv (s.msg k))
    (hinv : GInv cfg s g) : GInv cfg s' g := by
  intro k; rw [hmsg k]; exact hinv k

/-- a `todo`-context update -/
theorem ginv_todo (cfg : Cfg) (s s' : St) (g : Ghost) (m : Nat) (ms' : MsgSt)
    (hmsg : ∀ k, s'.msg k = if k = m then ms' else s.msg k)
    (hinv : GInv cfg s g) (ht : (s.msg m).todo.isSome = true)
    (e0 : ms'.todo.isSome = (s.msg m).todo.isSome) (e1 : ms'.bounce = (s.msg m).bounce) (e2 : ms'.noted = (s.msg m).noted)
    (e3 : ms'.inFile = (s.msg m).inFile) (e4 : ms'.bounced = (s.msg m).bounced)
    (e5 : ms'.lastInject = (s.msg m).lastInject) : GInv cfg s' g := by
  intro k
  rw [hmsg k]
  by_cases hk : k = m
  · simp only [hk, if_true]
    exact gminv_todo_ctx cfg (bv (s.msg m)) (bv ms') (g m) (hinv m) ht e0 e1 e2 e3 e4 e5
  · simp only [hk, if_false]; exact hinv k

theorem bv_setChan (ms : MsgSt) (c : Ch) (v : Option (List Rec)) : bv (ms.setChan c v) = bv ms := by
  cases c <;> rfl
theorem bv_setChanSynced (ms : MsgSt) (c : Ch) (v : Bool) : bv (ms.setChanSynced c v) = bv ms := by
  cases c <;> rfl

/-! ### reports do not touch the bounce record -/

theorem bv_handleReport (cfg : Cfg) (s : St) (c : Ch) (rep : Bytes) (k : Nat) :
    bv ((handleReport cfg s c rep).msg k) = bv (s.msg k) := by
  simp only [handleReport]
  split
  · rfl
  · rename_i sl _
    split
    · rfl
    · split
      · simp only [St.msg, St.upd, tabGet_set]
        split
        · rename_i hk; subst hk; rfl
        · rfl
      · split
        · rfl
        · split
          · rfl
          · rfl

theorem msg_setDline (s : St) (c : Ch) (v : Bytes × Nat) (k : Nat) : (s.setDline c v).msg k = s.msg k := by
  cases c <;> rfl

theorem bv_feedReports (cfg : Cfg) (c : Ch) : ∀ (bs : Bytes) (s : St) (k : Nat),
    bv ((feedReports cfg s c bs).msg k) = bv (s.msg k)
  | [], s, k => by simp [feedReports]
  | b :: bs, s, k => by
    simp only [feedReports]
    split
    · rw [bv_feedReports cfg c bs, bv_handleReport, msg_setDline]
    · rw [bv_feedReports cfg c bs, msg_setDline]

/-! ### per-event preservation (on the bounce view) -/

theorem sentOK_mono (cfg : Cfg) (v v' : BV) (x : Sent) (h : SentOK cfg v x)
    (hinfo : v'.info = v.info ∨ v'.info = none) (hlost : v'.lost = false → v.lost = false)
    (hacc : v'.accepted = v.accepted := by rfl)
    (hlr : ∀ r, r ∈ v.lostRecs → r ∈ v'.lostRecs := by intro r h; exact h) : SentOK cfg v' x := by
  refine ⟨h.inf, h.env, h.notdb, h.len, ?_, fun sd r ha => h.acc sd r (by rw [← hacc]; exact ha), fun hl => h.intact (hlost hl),
    fun pr hpr hn => h.kept pr hpr (fun hm => hn (hlr _ hm))⟩
  intro info hi
  rcases hinfo with e | e
  · exact h.sender info (by rw [← e]; exact hi)
  · rw [e] at hi; cases hi

theorem fileOf_cons (bs : Bytes) (parts : List Bytes) : fileOf (bs :: parts) = fileOf parts ++ bs := by
  simp [fileOf]

theorem gminv_append (cfg : Cfg) (v : BV) (gm : GMsg) (a : Ch × Nat) (bs : Bytes) (h : GMInv cfg v gm)
    (ht : v.todo = false) :
    GMInv cfg { v with bounce := some (v.bounce.getD [] ++ bs), noted := a :: v.noted, inFile := a :: v.inFile, lastInject := false }
      { gm with parts := bs :: gm.parts, last := none } := by
  constructor
  · intro h'; simp [ht] at h'
  · intro x
    have := h.c1 x
    simp only [List.count_cons]
    omega
  · exact h.c2
  · simp [h.c3]
  · intro hl
    have h4 := h.c4 hl
    simp only [List.cons_ne_nil, if_false]
    rw [fileOf_cons]
    by_cases hp : gm.parts = []
    · simp [hp] at h4; simp [h4, hp, fileOf]
    · simp [hp] at h4; simp [h4]
  · intro h'; simp at h'
  · intro x h'; simp at h'
  · intro x hx; exact sentOK_mono cfg v _ x (h.c6 x hx) (Or.inl rfl) (fun hl => hl)
  · exact h.c6a
  · exact h.c8
  · intro pr hpr hn
    simp only [List.zip_cons_cons, List.mem_cons] at hpr
    simp only [Option.getD_some]
    rcases hpr with rfl | hpr
    · exact isInfix_self_right _ _
    · exact isInfix_append_right _ _ _ (h.p1 pr hpr hn)

theorem gminv_inject_fail (cfg : Cfg) (v : BV) (gm : GMsg) (h : GMInv cfg v gm) (ht : v.todo = false) :
    GMInv cfg { v with lastInject := false } { gm with last := none } := by
  constructor
  · intro h'; simp [ht] at h'
  · exact h.c1
  · exact h.c2
  · exact h.c3
  · exact h.c4
  · intro h'; simp at h'
  · intro x h'; simp at h'
  · intro x hx; exact sentOK_mono cfg v _ x (h.c6 x hx) (Or.inl rfl) (fun hl => hl)
  · exact h.c6a
  · exact h.c8
  · exact h.p1

theorem gminv_inject_ok (cfg : Cfg) (v : BV) (gm : GMsg) (info file env body : Bytes) (h : GMInv cfg v gm)
    (ht : v.todo = false) (hi : v.info = some info) (hb : v.bounce = some file)
    (hdb : senderOf info ≠ Bounce.DBSENDER) (hinf : isInfix file body = true) (henv : env = bounceEnvelope cfg (senderOf info))
    (hacc : ∀ sd r, v.accepted = some (sd, r) → senderOf info = sd) :
    GMInv cfg { v with lastInject := true }
      { gm with last := some ⟨senderOf (v.info.getD []), env, body, v.bounce.getD [], v.inFile, gm.parts⟩,
                attempts := ⟨senderOf (v.info.getD []), env, body, v.bounce.getD [], v.inFile, gm.parts⟩ :: gm.attempts } := by
  have hsnt : SentOK cfg v ⟨senderOf (v.info.getD []), env, body, v.bounce.getD [], v.inFile, gm.parts⟩ := by
    refine ⟨by simp [hb, hinf], by simp [hi, henv], by simp [hi, hdb], by simp [h.c3], ?_, ?_, ?_, ?_⟩
    · intro info' hi'; rw [hi] at hi'; cases hi'; simp [hi]
    · intro sd r ha; simp only [hi, Option.getD_some]; exact hacc sd r ha
    · intro hl
      have h4 := h.c4 hl
      rw [hb] at h4
      by_cases hp : gm.parts = []
      · simp [hp] at h4
      · simp [hp] at h4; exact ⟨hp, by simp [hb, h4]⟩
    · exact h.p1
  constructor
  · intro h'; simp [ht] at h'
  · exact h.c1
  · exact h.c2
  · exact h.c3
  · exact h.c4
  · intro _ _; exact ⟨_, rfl, by simp [hb], rfl, rfl⟩
  · intro x hx; simp only [Option.some.injEq] at hx; subst hx; exact List.mem_cons_self
  · intro x hx
    rcases List.mem_cons.1 hx with rfl | hx
    · exact sentOK_mono cfg v _ _ hsnt (Or.inl rfl) (fun hl => hl)
    · exact sentOK_mono cfg v _ x (h.c6 x hx) (Or.inl rfl) (fun hl => hl)
  · intro x hx; exact List.mem_cons_of_mem _ (h.c6a x hx)
  · exact h.c8
  · exact h.p1

theorem gminv_unlink_discard (cfg : Cfg) (v : BV) (gm : GMsg) (h : GMInv cfg v gm) (ht : v.todo = false) :
    GMInv cfg { v with bounce := none, inFile := [], discarded := true }
      { gm with parts := [], last := none, dropped := v.inFile ++ gm.dropped } := by
  constructor
  · intro h'; simp [ht] at h'
  · intro x
    have := h.c1 x
    simp only [List.count_append, List.count_nil]
    omega
  · exact h.c2
  · rfl
  · intro _; rfl
  · intro _ h'; exact absurd rfl h'
  · intro x h'; simp at h'
  · intro x hx; exact sentOK_mono cfg v _ x (h.c6 x hx) (Or.inl rfl) (fun hl => hl)
  · exact h.c6a
  · intro _; rfl
  · intro pr hpr; simp at hpr

theorem gminv_unlink_ok (cfg : Cfg) (v : BV) (gm : GMsg) (h : GMInv cfg v gm) (ht : v.todo = false)
    (hl : v.lastInject = true) (hb : v.bounce ≠ none) :
    GMInv cfg { v with bounce := none, bounced := v.inFile ++ v.bounced, inFile := [] }
      { gm with parts := [], last := none, committed := gm.last.toList ++ gm.committed } := by
  obtain ⟨x, hx, _, hp, _⟩ := h.c5 hl hb
  constructor
  · intro h'; simp [ht] at h'
  · intro y
    have := h.c1 y
    simp only [List.count_append, List.count_nil]
    omega
  · simp [hx, hp, h.c2]
  · rfl
  · intro _; rfl
  · intro _ h'; exact absurd rfl h'
  · intro y h'; simp at h'
  · intro y hy; exact sentOK_mono cfg v _ y (h.c6 y hy) (Or.inl rfl) (fun hl => hl)
  · intro y hy
    simp only [hx, Option.toList, List.cons_append, List.nil_append, List.mem_cons] at hy
    rcases hy with rfl | hy
    · exact h.c5a _ hx
    · exact h.c6a y hy
  · exact h.c8
  · intro pr hpr; simp at hpr

theorem gminv_crash (cfg : Cfg) (v : BV) (gm : GMsg) (content : Bytes) (h : GMInv cfg v gm) (ht : v.todo = false) :
    GMInv cfg { v with bounce := some content, lost := true, lastInject := false,
                       lostRecs := (if (v.bounce.getD []).isPrefixOf content then [] else v.inFile) ++ v.lostRecs }
      { gm with last := none } := by
  constructor
  · intro h'; simp [ht] at h'
  · exact h.c1
  · exact h.c2
  · exact h.c3
  · intro h'; simp at h'
  · intro h'; simp at h'
  · intro x h'; simp at h'
  · intro x hx
    exact sentOK_mono cfg v _ x (h.c6 x hx) (Or.inl rfl) (fun hl => by simp at hl) rfl
      (fun r hr => List.mem_append_right _ hr)
  · exact h.c6a
  · exact h.c8
  · intro pr hpr hn
    simp only [Option.getD_some]
    by_cases hp : (v.bounce.getD []).isPrefixOf content = true
    · simp only [hp, if_true, List.nil_append] at hn
      obtain ⟨rest, hrest⟩ := List.isPrefixOf_iff_prefix.1 hp
      rw [← hrest]
      exact isInfix_append_right _ _ _ (h.p1 pr hpr hn)
    · exfalso
      simp only [hp, if_false] at hn
      exact hn (List.mem_append_left _ (List.of_mem_zip hpr).1)

theorem gminv_info_none (cfg : Cfg) (v : BV) (gm : GMsg) (h : GMInv cfg v gm) :
    GMInv cfg { v with info := none } gm := by
  constructor
  · exact h.t0
  · exact h.c1
  · exact h.c2
  · exact h.c3
  · exact h.c4
  · exact h.c5
  · exact h.c5a
  · intro x hx; exact sentOK_mono cfg v _ x (h.c6 x hx) (Or.inr rfl) (fun hl => hl)
  · exact h.c6a
  · exact h.c8
  · exact h.p1

theorem gminv_todo_done (cfg : Cfg) (v : BV) (gm : GMsg) (h : GMInv cfg v gm) (ht : v.todo = true) :
    GMInv cfg { v with todo := false, noted := [], inFile := [], bounced := [] } gm := by
  obtain ⟨a, _, _, _, e, f⟩ := h.t0 ht
  subst f
  exact gminv_empty cfg _ a rfl rfl rfl e

/-! ### every accepted event preserves the history invariant -/

theorem senderOf_info (sender : Bytes) : senderOf (70 :: sender ++ [0]) = sender := by
  simp [senderOf]

theorem msg_upd_tab (s s1 : St) (m : Nat) (ms' : MsgSt) (h : s1.tab = tabSet s.tab m ms') (k : Nat) :
    s1.msg k = if k = m then ms' else s.msg k := by
  simp [St.msg, h, tabGet_set]

theorem same_g (g : Ghost) (m : Nat) (k : Nat) : g k = if k = m then g m else g k := by
  split
  · rename_i h; subst h; rfl
  · rfl

theorem todo_false_of_isNone (ms : MsgSt) (h : ms.todo.isNone = true) : (bv ms).todo = false := by
  show ms.todo.isSome = false
  cases ht : ms.todo with
  | none => rfl
  | some x => simp [ht] at h

theorem gstep_inv_core (cfg : Cfg) (s s' : St) (g : Ghost) (e : Ev) (hI : Nq.Lemmas.DI.Inv cfg s) (hG : GInv cfg s g)
    (hacc : acceptCore cfg s e = some s') : GInv cfg s' (gstep s g e) := by
  cases e with
  | tick t =>
    simp only [acceptCore] at hacc
    split at hacc
    · cases hacc; exact ginv_same cfg s _ g (fun _ => rfl) hG
    · cases hacc
  | restart =>
    simp only [acceptCore] at hacc
    cases hacc; exact ginv_same cfg s _ g (fun _ => rfl) hG
  | utimes m c t =>
    simp only [acceptCore] at hacc
    split at hacc
    · cases hacc; exact hG
    · cases hacc
  | cleanResp b =>
    simp only [acceptCore] at hacc
    split at hacc
    · cases hacc; exact ginv_same cfg s _ g (fun _ => rfl) hG
    · cases hacc
  | rbytes c bs =>
    simp only [acceptCore] at hacc
    split at hacc
    · cases hacc
    · cases hacc
      exact ginv_same cfg s _ g (fun k => by rw [bv_feedReports]; rfl) hG
  | cmd c delnum m pos recip =>
    simp only [acceptCore] at hacc
    split at hacc
    · cases hacc
    · split at hacc
      · cases hacc
      · split at hacc
        · cases hacc
        · split at hacc
          · cases hacc; exact ginv_same cfg s _ g (fun _ => rfl) hG
          · cases hacc
  | creatInfo m =>
    simp only [acceptCore] at hacc
    split at hacc
    · rename_i hg; cases hacc
      exact ginv_todo cfg s _ g m _ (msg_upd_tab s _ m _ rfl) hG hg.2.1 rfl rfl rfl rfl rfl rfl
    · cases hacc
  | writeInfo m bs =>
    simp only [acceptCore] at hacc
    split at hacc
    · split at hacc
      · rename_i hg; cases hacc
        exact ginv_todo cfg s _ g m _ (msg_upd_tab s _ m _ rfl) hG hg.2 rfl rfl rfl rfl rfl rfl
      · cases hacc
    · cases hacc
  | fsyncInfo m =>
    simp only [acceptCore] at hacc
    split at hacc
    · rename_i hg; cases hacc
      exact ginv_todo cfg s _ g m _ (msg_upd_tab s _ m _ rfl) hG hg.2.1 rfl rfl rfl rfl rfl rfl
    · cases hacc
  | creatChan m c =>
    simp only [acceptCore] at hacc
    split at hacc
    · rename_i hg; cases hacc
      exact ginv_frame cfg s _ g m _ (msg_upd_tab s _ m _ rfl) hG (by rw [bv_setChanSynced, bv_setChan])
    · cases hacc
  | writeChan m c bs =>
    simp only [acceptCore] at hacc
    split at hacc
    · split at hacc
      · cases hacc
        exact ginv_frame cfg s _ g m _ (msg_upd_tab s _ m _ rfl) hG (by rw [bv_setChanSynced, bv_setChan])
      · cases hacc
    · cases hacc
  | fsyncChan m c =>
    simp only [acceptCore] at hacc
    split at hacc
    · cases hacc
      exact ginv_frame cfg s _ g m _ (msg_upd_tab s _ m _ rfl) hG (by rw [bv_setChanSynced])
    · cases hacc
  | crashTodoFiles m =>
    simp only [acceptCore] at hacc
    split at hacc
    · rename_i hg; cases hacc
      exact ginv_todo cfg s _ g m _ (msg_upd_tab s _ m _ rfl) hG hg.2.2.2 rfl rfl rfl rfl rfl rfl
    · cases hacc
  | unlinkChan m c =>
    simp only [acceptCore] at hacc
    split at hacc
    · cases hacc
    · split at hacc
      · cases hacc
      · split at hacc
        · cases hacc
          exact ginv_frame cfg s _ g m _ (msg_upd_tab s _ m _ rfl) hG (by rw [bv_setChan])
        · split at hacc
          · cases hacc
            exact ginv_frame cfg s _ g m _ (msg_upd_tab s _ m _ rfl) hG (by rw [bv_setChan])
          · cases hacc
  | unlinkInfo m =>
    simp only [acceptCore] at hacc
    split at hacc
    · cases hacc
    · split at hacc
      · rename_i ht; cases hacc
        exact ginv_todo cfg s _ g m _ (msg_upd_tab s _ m _ rfl) hG ht rfl rfl rfl rfl rfl rfl
      · split at hacc
        · cases hacc
          exact ginv_upd cfg s _ g g m _ (g m) (msg_upd_tab s _ m _ rfl) (same_g g m) hG
            (gminv_info_none cfg _ _ (hG m))
        · cases hacc
  | markD m c pos =>
    simp only [acceptCore] at hacc
    split at hacc
    · cases hacc
    · split at hacc
      · cases hacc
      · split at hacc
        · cases hacc
        · split at hacc
          · cases hacc
            exact ginv_frame cfg s _ g m _ (msg_upd_tab s _ m _ rfl) hG (by rw [bv_setChan])
          · cases hacc
  | crashMarks m c marks =>
    simp only [acceptCore] at hacc
    split at hacc
    · cases hacc
    · split at hacc
      · cases hacc
        exact ginv_frame cfg s _ g m _ (msg_upd_tab s _ m _ rfl) hG (by rw [bv_setChan])
      · cases hacc
  | cUnlinkIntd m =>
    simp only [acceptCore] at hacc
    split at hacc
    · split at hacc
      · cases hacc; exact ginv_frame cfg s _ g m _ (msg_upd_tab s _ m _ rfl) hG rfl
      · cases hacc
    · split at hacc
      · cases hacc; exact ginv_frame cfg s _ g m _ (msg_upd_tab s _ m _ rfl) hG rfl
      · cases hacc
    · cases hacc
  | cUnlinkMess m =>
    simp only [acceptCore] at hacc
    split at hacc
    · split at hacc
      · cases hacc; exact ginv_frame cfg s _ g m _ (msg_upd_tab s _ m _ rfl) hG rfl
      · cases hacc
    · cases hacc
  | cleanReq bs =>
    simp only [acceptCore] at hacc
    split at hacc
    · cases hacc
    · split at hacc
      · cases hacc
      · split at hacc
        · split at hacc
          · cases hacc
          · split at hacc
            · cases hacc; exact ginv_same cfg s _ g (fun _ => rfl) hG
            · cases hacc
        · split at hacc
          · split at hacc
            · cases hacc; exact ginv_same cfg s _ g (fun _ => rfl) hG
            · cases hacc
          · cases hacc
  | cUnlinkTodo m =>
    simp only [acceptCore] at hacc
    split at hacc
    · rename_i k hcl
      split at hacc
      · rename_i hk; subst hk; cases hacc
        obtain ⟨sd, rc, htd, _⟩ := hI.ready k hcl
        have ht : (bv (s.msg k)).todo = true := by show (s.msg k).todo.isSome = true; rw [htd]; rfl
        exact ginv_upd cfg s _ g g k _ (g k) (msg_upd_tab s _ k _ rfl) (same_g g k) hG
          (gminv_todo_done cfg _ _ (hG k) ht)
      · cases hacc
    · cases hacc
  | newmsg m sender rcpts =>
    simp only [acceptCore] at hacc
    split at hacc
    · cases hacc
      exact ginv_upd cfg s _ g _ m _ {} (msg_upd_tab s _ m _ rfl) (fun _ => rfl) hG
        (gminv_empty cfg _ rfl rfl rfl rfl rfl)
    · cases hacc
  | appendBounce m bs =>
    simp only [acceptCore] at hacc
    split at hacc
    · cases hacc
    · split at hacc
      · cases hacc
      · rename_i n _
        split at hacc
        · rename_i hg; cases hacc
          exact ginv_upd cfg s _ g _ m _ _ (msg_upd_tab s _ m _ rfl) (fun _ => rfl) hG
            (gminv_append cfg _ _ (n.c, n.idx) bs (hG m) (todo_false_of_isNone _ hg.1))
        · cases hacc
  | crashBounce m content =>
    simp only [acceptCore] at hacc
    split at hacc
    · rename_i hg; cases hacc
      have ht : (bv (s.msg m)).todo = false := by
        cases htd : (bv (s.msg m)).todo with
        | false => rfl
        | true =>
          have hb := ((hG m).t0 htd).1
          have hb' : (s.msg m).bounce = none := hb
          have htd' : (s.msg m).todo.isSome = true := htd
          rcases hg.2.2.2 with h1 | h1
          · rw [hb'] at h1; simp at h1
          · have := h1.1
            cases hx : (s.msg m).todo with
            | none => rw [hx] at htd'; simp at htd'
            | some x => rw [hx] at this; simp at this
      exact ginv_upd cfg s _ g _ m _ _ (msg_upd_tab s _ m _ rfl) (fun _ => rfl) hG
        (gminv_crash cfg _ _ content (hG m) ht)
    · cases hacc
  | bounceInject m ok env body =>
    simp only [acceptCore] at hacc
    split at hacc
    · cases hacc
    · split at hacc
      · rename_i info file hinfo hfile
        split at hacc
        · rename_i hg; cases hacc
          have ht := todo_false_of_isNone _ hg.1
          cases ok with
          | false =>
            exact ginv_upd cfg s _ g _ m _ _ (msg_upd_tab s _ m _ rfl) (fun _ => rfl) hG
              (gminv_inject_fail cfg _ _ (hG m) ht)
          | true =>
            have h5 := hg.2.2.2.2 rfl
            have htn : (s.msg m).todo = none := by
              cases hx : (s.msg m).todo with
              | none => rfl
              | some x => have := hg.1; rw [hx] at this; simp at this
            have hacc : ∀ sd r, (bv (s.msg m)).accepted = some (sd, r) → senderOf info = sd := by
              intro sd r ha
              have := (hI.msgs m).i1 htn sd r info ha hinfo
              rw [this]; exact senderOf_info sd
            exact ginv_upd cfg s _ g _ m _ _ (msg_upd_tab s _ m _ rfl) (fun _ => rfl) hG
              (gminv_inject_ok cfg _ _ info file env body (hG m) ht hinfo hfile hg.2.2.2.1 h5.1 h5.2 hacc)
        · cases hacc
      · cases hacc
  | unlinkBounce m =>
    simp only [acceptCore] at hacc
    split at hacc
    · cases hacc
    · split at hacc
      · rename_i info file hinfo hfile
        split at hacc
        · rename_i hg
          have ht := todo_false_of_isNone _ hg.1
          have hsd : senderOf ((s.msg m).info.getD []) = (info.drop 1).dropLast := by rw [hinfo]; rfl
          split at hacc
          · rename_i hdb; cases hacc
            have : gstep s g (.unlinkBounce m) = gset g m { g m with parts := [], last := none, dropped := (s.msg m).inFile ++ (g m).dropped } := by
              simp only [gstep]; rw [if_pos (by rw [hsd]; exact hdb)]
            rw [this]
            exact ginv_upd cfg s _ g _ m _ _ (msg_upd_tab s _ m _ rfl) (fun _ => rfl) hG
              (gminv_unlink_discard cfg _ _ (hG m) ht)
          · rename_i hdb
            split at hacc
            · rename_i hl; cases hacc
              have : gstep s g (.unlinkBounce m) = gset g m { g m with parts := [], last := none, committed := (g m).last.toList ++ (g m).committed } := by
                simp only [gstep]; rw [if_neg (by rw [hsd]; exact hdb)]
              rw [this]
              exact ginv_upd cfg s _ g _ m _ _ (msg_upd_tab s _ m _ rfl) (fun _ => rfl) hG
                (gminv_unlink_ok cfg _ _ (hG m) ht hl (by show (s.msg m).bounce ≠ none; rw [hfile]; simp))
            · cases hacc
        · cases hacc
      · cases hacc

/-- the history step reads the files only: it does not see the crash mode -/
theorem gstep_before (s : St) (g : Ghost) (e : Ev) : gstep (s.before e) g e = gstep s g e := by
  unfold St.before
  split
  · rfl
  · cases e <;> rfl

theorem gstep_inv (cfg : Cfg) (s s' : St) (g : Ghost) (e : Ev) (hI : Nq.Lemmas.DI.Inv cfg s) (hG : GInv cfg s g)
    (hacc : accept cfg s e = some s') : GInv cfg s' (gstep s g e) := by
  rw [← gstep_before]
  exact gstep_inv_core cfg (s.before e) s' g e (Nq.Lemmas.DI.inv_before cfg s e hI)
    (ginv_same cfg s _ g (fun k => by rw [St.before_msg]) hG) hacc

/-! ### reachability -/

/-- reachable, with its history, from the empty queue -/
def GReach (cfg : Cfg) (s : St) (g : Ghost) : Prop := ∃ evs, gacceptAll cfg ginit evs = some (s, g)

theorem gacceptAll_base (cfg : Cfg) : ∀ (evs : List Ev) (s : St) (g : Ghost) (s' : St) (g' : Ghost),
    gacceptAll cfg (s, g) evs = some (s', g') → acceptAll cfg s evs = some s'
  | [], s, g, s', g', h => by simp [gacceptAll] at h; simp [acceptAll, h.1]
  | e :: es, s, g, s', g', h => by
    simp only [gacceptAll, gaccept] at h
    simp only [acceptAll]
    cases ha : accept cfg s e with
    | none => simp [ha] at h
    | some s1 => simp only [ha] at h ⊢; exact gacceptAll_base cfg es s1 _ s' g' h

/-- the history layer refuses nothing: every accepted sequence has a history -/
theorem gacceptAll_total (cfg : Cfg) : ∀ (evs : List Ev) (s : St) (g : Ghost) (s' : St),
    acceptAll cfg s evs = some s' → ∃ g', gacceptAll cfg (s, g) evs = some (s', g')
  | [], s, g, s', h => by simp [acceptAll] at h; exact ⟨g, by simp [gacceptAll, h]⟩
  | e :: es, s, g, s', h => by
    simp only [acceptAll] at h
    cases ha : accept cfg s e with
    | none => simp [ha] at h
    | some s1 =>
      simp only [ha] at h
      obtain ⟨g', hg⟩ := gacceptAll_total cfg es s1 (gstep s g e) s' h
      exact ⟨g', by simp only [gacceptAll, gaccept, ha]; exact hg⟩

theorem gacceptAll_inv (cfg : Cfg) : ∀ (evs : List Ev) (s : St) (g : Ghost) (s' : St) (g' : Ghost),
    Nq.Lemmas.DI.Inv cfg s → GInv cfg s g → gacceptAll cfg (s, g) evs = some (s', g') →
    Nq.Lemmas.DI.Inv cfg s' ∧ GInv cfg s' g'
  | [], s, g, s', g', hI, hG, h => by
    simp [gacceptAll] at h; obtain ⟨rfl, rfl⟩ := h; exact ⟨hI, hG⟩
  | e :: es, s, g, s', g', hI, hG, h => by
    simp only [gacceptAll, gaccept] at h
    cases ha : accept cfg s e with
    | none => simp [ha] at h
    | some s1 =>
      simp only [ha] at h
      exact gacceptAll_inv cfg es s1 _ s' g' (Nq.Lemmas.DI.step_inv cfg s s1 e hI ha) (gstep_inv cfg s s1 g e hI hG ha) h

theorem greach_inv (cfg : Cfg) (s : St) (g : Ghost) (h : GReach cfg s g) : Nq.Lemmas.DI.Inv cfg s ∧ GInv cfg s g := by
  obtain ⟨evs, h⟩ := h
  exact gacceptAll_inv cfg evs _ _ s g (Nq.Lemmas.DI.inv_init cfg) (ginv_init cfg) h

/-! ### what `last = some x` means on the trace -/

theorem gstep_other (s : St) (g : Ghost) (e : Ev) (m : Nat) (h : bounceEvent m e = false) : gstep s g e m = g m := by
  cases e <;> simp only [gstep] <;> try rfl
  all_goals
    simp only [bounceEvent, beq_eq_false_iff_ne, ne_eq] at h
    first
      | (split <;> (simp only [gset]; rw [if_neg (fun hh => h (Eq.symm hh))]))
      | (simp only [gset]; rw [if_neg (fun hh => h (Eq.symm hh))])

theorem gstep_last (s : St) (g : Ghost) (e : Ev) (m : Nat) (x : Sent) (hb : bounceEvent m e = true)
    (hl : (gstep s g e m).last = some x) :
    e = .bounceInject m true x.env x.body ∧ x.file = (s.msg m).bounce.getD [] ∧ x.paras = (s.msg m).inFile := by
  cases e <;> simp only [bounceEvent, beq_iff_eq] at hb <;> try (exact absurd hb (by simp))
  all_goals subst hb
  all_goals simp only [gstep] at hl
  case newmsg => simp [gset] at hl
  case appendBounce => simp [gset] at hl
  case crashBounce => simp [gset] at hl
  case unlinkBounce => split at hl <;> simp [gset] at hl
  case bounceInject k ok env body =>
    cases ok with
    | false => simp [gset] at hl
    | true => simp [gset] at hl; subst hl; exact ⟨rfl, rfl, rfl⟩

theorem last_trace (cfg : Cfg) (m : Nat) (x : Sent) : ∀ (evs : List Ev) (s0 : St) (g0 : Ghost) (s : St) (g : Ghost),
    gacceptAll cfg (s0, g0) evs = some (s, g) → (g m).last = some x →
    ((g0 m).last = some x ∧ evs.all (fun e => !bounceEvent m e) = true) ∨
    ∃ pre post s1 g1, evs = pre ++ Ev.bounceInject m true x.env x.body :: post ∧
      gacceptAll cfg (s0, g0) pre = some (s1, g1) ∧ (accept cfg s1 (Ev.bounceInject m true x.env x.body)).isSome = true ∧
      x.file = (s1.msg m).bounce.getD [] ∧ x.paras = (s1.msg m).inFile ∧
      post.all (fun e => !bounceEvent m e) = true
  | [], s0, g0, s, g, h, hl => by
    simp [gacceptAll] at h; obtain ⟨rfl, rfl⟩ := h
    exact Or.inl ⟨hl, rfl⟩
  | e :: es, s0, g0, s, g, h, hl => by
    simp only [gacceptAll, gaccept] at h
    cases ha : accept cfg s0 e with
    | none => simp [ha] at h
    | some s1 =>
      simp only [ha] at h
      rcases last_trace cfg m x es s1 (gstep s0 g0 e) s g h hl with ⟨h1, h2⟩ | ⟨pre, post, s2, g2, h1, h2, h2a, h3, h4, h5⟩
      · cases hb : bounceEvent m e with
        | false =>
          left
          rw [gstep_other s0 g0 e m hb] at h1
          exact ⟨h1, by simp [hb, h2]⟩
        | true =>
          right
          obtain ⟨he, hf, hp⟩ := gstep_last s0 g0 e m x hb h1
          exact ⟨[], es, s0, g0, by simp [he], by simp [gacceptAll], by rw [← he, ha]; rfl, hf, hp, h2⟩
      · right
        refine ⟨e :: pre, post, s2, g2, by simp [h1], ?_, h2a, h3, h4, h5⟩
        simp only [gacceptAll, gaccept, ha]; exact h2

/-- an accepted injection found `bounce/<m>` -/
theorem inject_bounce_some (cfg : Cfg) (s : St) (m : Nat) (ok : Bool) (env body : Bytes)
    (h : (accept cfg s (.bounceInject m ok env body)).isSome = true) : ∃ f, (s.msg m).bounce = some f := by
  refine (?_ : ∀ t : St, (acceptCore cfg t (.bounceInject m ok env body)).isSome = true → ∃ f, (t.msg m).bounce = some f) s.calm h
  clear h s
  intro s h
  simp only [acceptCore] at h
  split at h
  · cases h
  · split at h
    · rename_i file _ hfile; exact ⟨file, hfile⟩
    · cases h

/-! ### bridge between `Nq.Bounce.inject` and the monitor's guards -/

theorem verp_cond (s : Bytes) :
    Bounce.VERPSUF.isSuffixOf s = true ↔ (s.length ≥ 4 ∧ (s.drop (s.length - 4) == [45, 64, 91, 93]) = true) := by
  rw [List.isSuffixOf_iff_suffix]
  constructor
  · intro h
    have hl := h.length_le
    have hd := List.suffix_iff_eq_drop.1 h
    simp only [Bounce.VERPSUF, List.length_cons, List.length_nil] at hl hd
    exact ⟨hl, by rw [← hd]; rfl⟩
  · rintro ⟨_, hd⟩
    have : s.drop (s.length - 4) = Bounce.VERPSUF := by simpa [Bounce.VERPSUF] using hd
    rw [← this]; exact List.drop_suffix _ _

/-- the monitor's `bounceEnvelope` in terms of C14's `verpBase` -/
theorem bounceEnvelope_eq (cfg : Cfg) (sender : Bytes) :
    bounceEnvelope cfg sender =
      if (Bounce.verpBase sender).isEmpty then [70, 35, 64, 91, 93, 0, 84] ++ cfg.doublebounceto ++ [0]
      else [70, 0, 84] ++ Bounce.verpBase sender ++ [0] := by
  simp only [bounceEnvelope, Bounce.verpBase]
  by_cases h : Bounce.VERPSUF.isSuffixOf sender = true
  · have h' := (verp_cond sender).1 h
    simp only [h, if_true]
    rw [if_pos h']
  · have h' : ¬ (sender.length ≥ 4 ∧ (sender.drop (sender.length - 4) == [45, 64, 91, 93]) = true) := fun hh => h ((verp_cond sender).2 hh)
    simp only [h]
    rw [if_neg h']
    simp

theorem verpBase_db : Bounce.verpBase Bounce.DBSENDER = Bounce.DBSENDER := by decide

/-- **What `injectbounce` queues passes the monitor's guard**: for every configuration, date line,
bounce file, message and sender, the notice `bounceOf` builds contains the bounce file, its envelope
is the one `bounceEnvelope` demands, and the sender is not `#@[]`. -/
theorem bounceOf_guard (dcfg : Cfg) (bcfg : Bounce.Cfg) (hdb : dcfg.doublebounceto = bcfg.doublebounceto)
    (date bf sender mess : Bytes) (rc : List Bytes) (q : Bounce.Msg)
    (h : Bounce.bounceOf bcfg date bf { sender := sender, rcpts := rc, body := mess } = some q) :
    sender ≠ Bounce.DBSENDER ∧ isInfix bf q.body = true ∧ envBytes q = bounceEnvelope dcfg sender := by
  simp only [Bounce.bounceOf, Bounce.decideBounce] at h
  by_cases h1 : Bounce.verpBase sender = Bounce.DBSENDER
  · simp [h1] at h
  · have hne : sender ≠ Bounce.DBSENDER := by
      intro he; rw [he] at h1; exact h1 verpBase_db
    by_cases h2 : (Bounce.verpBase sender).isEmpty = true
    · simp only [h1, if_false, h2, if_true, Option.some.injEq] at h
      subst h
      refine ⟨hne, isInfix_mid _ _ _, ?_⟩
      rw [bounceEnvelope_eq, if_pos h2, hdb]
      simp [envBytes, Bounce.DBSENDER]
    · have h2' : (Bounce.verpBase sender).isEmpty = false := by simpa using h2
      simp only [h1, if_false, h2', Bool.false_eq_true, Option.some.injEq] at h
      subst h
      refine ⟨hne, isInfix_mid _ _ _, ?_⟩
      rw [bounceEnvelope_eq, if_neg h2]
      simp [envBytes]

theorem injectGuard_iff (cfg : Cfg) (sender file env body : Bytes) :
    injectGuard cfg sender file env body = true ↔
      (sender ≠ [35, 64, 91, 93] ∧ (isInfix file body = true ∧ env = bounceEnvelope cfg sender)) := by
  simp [injectGuard, Bounce.DBSENDER, and_assoc]

/-- the monitor state in which qmail-send calls `injectbounce(m)`: preprocessing done, both channel
files gone, `info/<m>` holds the envelope sender, `bounce/<m>` exists -/
structure InjReady (s : St) (m : Nat) (sender bf : Bytes) : Prop where
  clean : s.clean = none
  todo : (s.msg m).todo = none
  loc : (s.msg m).loc = none
  rem : (s.msg m).rem = none
  info : (s.msg m).info = some (70 :: sender ++ [0])
  bounce : (s.msg m).bounce = some bf

theorem acc_inject (cfg : Cfg) (s : St) (m : Nat) (sender bf env body : Bytes) (ok : Bool) (h : InjReady s m sender bf)
    (hne : sender ≠ Bounce.DBSENDER) (hg : ok = true → (isInfix bf body = true ∧ env = bounceEnvelope cfg sender)) :
    ∃ s', accept cfg s (.bounceInject m ok env body) = some s' ∧ InjReady s' m sender bf ∧ (s'.msg m).lastInject = ok := by
  have hne' : ¬ sender = [35, 64, 91, 93] := hne
  refine (?_ : ∀ t : St, InjReady t m sender bf → ∃ s', acceptCore cfg t (.bounceInject m ok env body) = some s' ∧
      InjReady s' m sender bf ∧ (s'.msg m).lastInject = ok) s.calm ⟨h.clean, h.todo, h.loc, h.rem, h.info, h.bounce⟩
  clear h s
  intro s h
  simp only [acceptCore, h.clean, h.info, h.bounce, h.todo, h.loc, h.rem]
  have hsd : ((70 :: sender ++ [0] : Bytes).drop 1).dropLast = sender := by simp
  simp only [hsd]
  rw [if_neg (by simp)]
  rw [if_pos ⟨rfl, rfl, rfl, hne', hg⟩]
  refine ⟨_, rfl, ⟨h.clean, ?_, ?_, ?_, ?_, ?_⟩, ?_⟩ <;> rw [St.msg_upd] <;> simp [h.todo, h.loc, h.rem, h.info, h.bounce]

theorem acc_unlink_ok (cfg : Cfg) (s : St) (m : Nat) (sender bf : Bytes) (h : InjReady s m sender bf)
    (hne : sender ≠ Bounce.DBSENDER) (hl : (s.msg m).lastInject = true) :
    ∃ s', accept cfg s (.unlinkBounce m) = some s' ∧ (s'.msg m).bounce = none := by
  have hne' : ¬ sender = [35, 64, 91, 93] := hne
  refine (?_ : ∀ t : St, InjReady t m sender bf → (t.msg m).lastInject = true →
      ∃ s', acceptCore cfg t (.unlinkBounce m) = some s' ∧ (s'.msg m).bounce = none)
    s.calm ⟨h.clean, h.todo, h.loc, h.rem, h.info, h.bounce⟩ hl
  clear h hl s
  intro s h hl
  simp only [acceptCore, h.clean, h.info, h.bounce, h.todo, h.loc, h.rem]
  have hsd : ((70 :: sender ++ [0] : Bytes).drop 1).dropLast = sender := by simp
  simp only [hsd]
  rw [if_neg (by simp), if_pos ⟨rfl, rfl, rfl⟩, if_neg hne', if_pos hl]
  exact ⟨_, rfl, by rw [St.msg_upd]; simp⟩

theorem acc_unlink_discard (cfg : Cfg) (s : St) (m : Nat) (bf : Bytes) (h : InjReady s m Bounce.DBSENDER bf) :
    ∃ s', accept cfg s (.unlinkBounce m) = some s' ∧ (s'.msg m).bounce = none := by
  refine (?_ : ∀ t : St, InjReady t m Bounce.DBSENDER bf →
      ∃ s', acceptCore cfg t (.unlinkBounce m) = some s' ∧ (s'.msg m).bounce = none)
    s.calm ⟨h.clean, h.todo, h.loc, h.rem, h.info, h.bounce⟩
  clear h s
  intro s h
  simp only [acceptCore, h.clean, h.info, h.bounce, h.todo, h.loc, h.rem]
  have hsd : ((70 :: Bounce.DBSENDER ++ [0] : Bytes).drop 1).dropLast = Bounce.DBSENDER := by simp
  simp only [hsd]
  rw [if_pos (show Bounce.DBSENDER = [35, 64, 91, 93] from rfl)]
  exact ⟨_, rfl, by rw [St.msg_upd]; simp⟩

theorem bounceOf_none (bcfg : Bounce.Cfg) (date bf sender mess : Bytes) (rc : List Bytes) :
    Bounce.bounceOf bcfg date bf { sender := sender, rcpts := rc, body := mess } = none ↔
      Bounce.decideBounce sender = .discard := by
  simp only [Bounce.bounceOf]
  cases Bounce.decideBounce sender <;> simp

theorem decide_discard (sender : Bytes) : Bounce.decideBounce sender = .discard ↔ Bounce.verpBase sender = Bounce.DBSENDER := by
  simp only [Bounce.decideBounce]
  by_cases h : Bounce.verpBase sender = Bounce.DBSENDER
  · simp [h]
  · simp only [h, if_false]
    split <;> simp

/-- **Every behaviour of `injectbounce` is accepted by the monitor** (all ten fault points, all
sender forms except the one documented below): the events of the call are accepted from every state
in which qmail-send makes the call, and afterwards the monitor's `bounce/<m>` is the model's. -/
theorem inject_accepted (dcfg : Cfg) (bcfg : Bounce.Cfg) (hdb : dcfg.doublebounceto = bcfg.doublebounceto)
    (date : Bytes) (m qp : Nat) (f : Bounce.Fault) (sender bf mess : Bytes) (s : St) (h : InjReady s m sender bf)
    (hv : Bounce.verpBase sender = Bounce.DBSENDER → sender = Bounce.DBSENDER) :
    ∃ s', acceptAll dcfg s (injectEvents m f sender (some bf) (Bounce.inject bcfg date m qp f sender (some bf) mess)) = some s' ∧
      (s'.msg m).bounce = (Bounce.inject bcfg date m qp f sender (some bf) mess).bounce := by
  cases hq : Bounce.bounceOf bcfg date bf { sender := sender, rcpts := [], body := mess } with
  | none =>
    have hd := (bounceOf_none bcfg date bf sender mess []).1 hq
    have hs : sender = Bounce.DBSENDER := hv ((decide_discard sender).1 hd)
    subst hs
    obtain ⟨s2, a2, b2⟩ := acc_unlink_discard dcfg s m bf h
    cases f <;> simp [Bounce.inject, injectEvents, closeFails, hq, hd, acceptAll, h.bounce, a2, b2]
  | some q =>
    obtain ⟨hne, hinf, henv⟩ := bounceOf_guard dcfg bcfg hdb date bf sender mess [] q hq
    have hd : Bounce.decideBounce sender ≠ .discard := by
      intro hh; rw [(bounceOf_none bcfg date bf sender mess []).2 hh] at hq; cases hq
    obtain ⟨s1, a1, r1, l1⟩ := acc_inject dcfg s m sender bf (envBytes q) q.body true h hne (fun _ => ⟨hinf, henv⟩)
    obtain ⟨s0, a0, r0, _⟩ := acc_inject dcfg s m sender bf [] [] false h hne (fun hh => by cases hh)
    obtain ⟨s2, a2, b2⟩ := acc_unlink_ok dcfg s1 m sender bf r1 hne l1
    cases f <;> simp [Bounce.inject, injectEvents, closeFails, hq, hd, acceptAll, h.bounce, a1, a0, a2, b2, r1.bounce, r0.bounce]

end Nq.Lemmas.BD
