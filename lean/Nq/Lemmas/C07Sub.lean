/-
  Lemmas about the substdio / struct qmail model (Nq/QmailC.lean):
  what has been written is always a prefix of what was put; a failing operation loses something;
  a succeeding one loses nothing.
-/
import Nq.QmailC

namespace Nq.QmailC
open Nq

/-- everything handed to the substdio that is not known to be lost: written ++ buffered -/
def Sub.all (s : Sub) : Bytes := s.out ++ s.buf

theorem Sub.wr_cap (s : Sub) (bs : Bytes) : (s.wr bs).1.cap = s.cap := by
  unfold Sub.wr; split <;> rfl

theorem Sub.wr_buf (s : Sub) (bs : Bytes) : (s.wr bs).1.buf = s.buf := by
  unfold Sub.wr; split <;> rfl

theorem Sub.wr_ok (s : Sub) (bs : Bytes) (h : (s.wr bs).2 = true) : (s.wr bs).1.out = s.out ++ bs := by
  unfold Sub.wr at h ⊢; split <;> simp_all

theorem Sub.wr_fail (s : Sub) (bs : Bytes) (h : (s.wr bs).2 = false) : (s.wr bs).1.out = s.out := by
  unfold Sub.wr at h ⊢; split <;> simp_all

theorem Sub.flush_prefix (s : Sub) : (s.flush).1.all <+: s.all := by
  unfold Sub.flush Sub.all
  split
  · exact List.prefix_refl _
  · cases h : (Sub.wr { s with buf := [] } s.buf).2
    · rw [Sub.wr_fail _ _ h, Sub.wr_buf]; simp
    · rw [Sub.wr_ok _ _ h, Sub.wr_buf]; simp

theorem Sub.flush_ok (s : Sub) (h : (s.flush).2 = true) : (s.flush).1.out = s.all ∧ (s.flush).1.buf = [] := by
  unfold Sub.flush Sub.all at *
  split
  · rename_i he; simp at he; simp [he]
  · rename_i he
    simp only [he] at h
    rw [Sub.wr_ok _ _ (by simpa using h), Sub.wr_buf]; simp

theorem Sub.flush_fail (s : Sub) (h : (s.flush).2 = false) : (s.flush).1.out.length < s.all.length ∧ (s.flush).1.buf = [] := by
  unfold Sub.flush Sub.all at *
  split
  · rename_i he; simp [he] at h
  · rename_i he
    simp only [he] at h
    rw [Sub.wr_fail _ _ (by simpa using h), Sub.wr_buf]
    simp at he ⊢
    exact List.length_pos_iff.mpr he

theorem Sub.flush_cap (s : Sub) : (s.flush).1.cap = s.cap := by
  unfold Sub.flush; split
  · rfl
  · rw [Sub.wr_cap]

/-- the direct-write loop: buffer untouched; written ++ remainder is a prefix of before ++ data; equality iff ok -/
theorem Sub.direct_spec : ∀ (fuel : Nat) (s : Sub) (bs : Bytes),
    (Sub.direct fuel s bs).s.buf = s.buf ∧ (Sub.direct fuel s bs).s.cap = s.cap ∧
    ((Sub.direct fuel s bs).ok = true → (Sub.direct fuel s bs).s.out ++ (Sub.direct fuel s bs).rest = s.out ++ bs) ∧
    ((Sub.direct fuel s bs).ok = false →
        (Sub.direct fuel s bs).s.out <+: s.out ++ bs ∧ (Sub.direct fuel s bs).s.out.length < (s.out ++ bs).length)
  | 0, s, bs => by simp [Sub.direct]
  | fuel + 1, s, bs => by
    unfold Sub.direct
    split
    · rename_i hlen
      simp only []
      cases hw : (s.wr (List.take (min (max s.cap Nq.Gen.C07.substdioOutsize) bs.length) bs)).2
      · simp only [Bool.false_eq_true, ↓reduceIte]
        rw [Sub.wr_buf, Sub.wr_cap, Sub.wr_fail _ _ hw]
        refine ⟨rfl, rfl, by simp, fun _ => ⟨by simp, ?_⟩⟩
        simp; omega
      · simp only [↓reduceIte]
        have ih := Sub.direct_spec fuel (s.wr (List.take (min (max s.cap Nq.Gen.C07.substdioOutsize) bs.length) bs)).1
          (List.drop (min (max s.cap Nq.Gen.C07.substdioOutsize) bs.length) bs)
        rw [Sub.wr_buf, Sub.wr_cap, Sub.wr_ok _ _ hw] at ih
        obtain ⟨h1, h2, h3, h4⟩ := ih
        refine ⟨h1, h2, ?_, ?_⟩
        · intro hk; rw [h3 hk]; simp [List.append_assoc]
        · intro hk
          have := h4 hk
          simpa [List.append_assoc] using this
    · simp

theorem Sub.put_ok (s : Sub) (bs : Bytes) (h : (s.put bs).2 = true) : (s.put bs).1.all = s.all ++ bs := by
  unfold Sub.put at h ⊢
  split
  · rename_i hl
    simp only [hl, ↓reduceIte] at h
    cases hf : (s.flush).2
    · simp [hf] at h
    · simp only [hf, ↓reduceIte] at h ⊢
      have hd := Sub.direct_spec bs.length (s.flush).1 bs
      have hfo := Sub.flush_ok s hf
      cases hk : (Sub.direct bs.length (s.flush).1 bs).ok
      · simp [hk] at h
      · simp only [hk, ↓reduceIte]
        unfold Sub.all
        simp only []
        rw [hd.1, hfo.2]
        have := hd.2.2.1 hk
        rw [hfo.1] at this
        simp only [List.nil_append]
        rw [this]; rfl
  · unfold Sub.all; simp [List.append_assoc]

theorem Sub.put_fail (s : Sub) (bs : Bytes) (h : (s.put bs).2 = false) :
    (s.put bs).1.all <+: s.all ++ bs ∧ (s.put bs).1.all.length < (s.all ++ bs).length := by
  unfold Sub.put at h ⊢
  split
  · rename_i hl
    simp only [hl, ↓reduceIte] at h
    cases hf : (s.flush).2
    · simp only [hf, Bool.false_eq_true, ↓reduceIte]
      have hff := Sub.flush_fail s hf
      have hp := Sub.flush_prefix s
      unfold Sub.all at hp hff ⊢
      rw [hff.2] at hp ⊢
      simp only [List.append_nil] at hp ⊢
      exact ⟨List.IsPrefix.trans hp (List.prefix_append _ _), by simp at hff ⊢; omega⟩
    · simp only [hf, ↓reduceIte] at h ⊢
      have hd := Sub.direct_spec bs.length (s.flush).1 bs
      have hfo := Sub.flush_ok s hf
      cases hk : (Sub.direct bs.length (s.flush).1 bs).ok
      · simp only [Bool.false_eq_true, ↓reduceIte]
        have := hd.2.2.2 hk
        rw [hfo.1] at this
        unfold Sub.all at this ⊢
        rw [hd.1, hfo.2]
        simpa [List.append_assoc] using this
      · simp [hk] at h
  · rename_i hl; simp [hl] at h

theorem Sub.put_prefix (s : Sub) (bs : Bytes) : (s.put bs).1.all <+: s.all ++ bs := by
  cases h : (s.put bs).2
  · exact (Sub.put_fail s bs h).1
  · rw [Sub.put_ok s bs h]; exact List.prefix_refl _

end Nq.QmailC
