/-
  Session-level lemmas for qmail-qmtpd (`Qmtp.session` / `Qmtp.run`, Nq/Netstring.lean):

    S1  the records a connection produces (`Sess.msgs`) form a `Chain`: message k is `msg cfg` of what message k-1
        left unread, on a fresh qmail.c state whose write-fault counter is what message k-1 left; with the fuel
        `run` uses the chain always ends in a record inside which the daemon exits;
    S2  what the client has received when the daemon exits is a prefix of the replies of the COMPLETELY READ
        messages, in order (nothing of the last, unfinished record);
    S3  cut inside message k+1: behind `k` complete messages a truncated message k+1 is the last record, it has no
        complete envelope, the records before it are exactly those of the k complete messages, and the client has
        seen at most their replies.
-/
import Nq.Netstring
import Nq.Lemmas.C07Daemons

namespace Nq.Lemmas.C07Session
open Nq Nq.QmailC Nq.Netstring

/-! ## 0. the reply buffer: what reached the descriptor is a prefix of what was put

  `out.all <+: X` alone is not an inductive invariant (after a failed flush the buffer is thrown away and later puts
  are appended to a shorter string).  The invariant is: either nothing was lost so far, or the descriptor is dead
  (`wleft = some 0`, every later write fails) and what it received is a prefix. -/

def SInv (s : Sub) (X : Bytes) : Prop := s.all = X ∨ (s.wleft = some 0 ∧ s.out <+: X)

theorem SInv.out {s : Sub} {X : Bytes} (h : SInv s X) : s.out <+: X := by
  rcases h with h | h
  · rw [← h]; exact List.prefix_append _ _
  · exact h.2

theorem wr_dead (s : Sub) (bs : Bytes) (h : s.wleft = some 0) : s.wr bs = (s, false) := by
  unfold Sub.wr; rw [h]

theorem wr_fail_dead (s : Sub) (bs : Bytes) (h : (s.wr bs).2 = false) : (s.wr bs).1.wleft = some 0 := by
  unfold Sub.wr at h ⊢; split <;> simp_all

theorem flush_dead (s : Sub) (h : s.wleft = some 0) : (s.flush).1.wleft = some 0 ∧ (s.flush).1.out = s.out := by
  unfold Sub.flush
  split
  · exact ⟨h, rfl⟩
  · rw [wr_dead _ _ (by exact h)]; exact ⟨h, rfl⟩

theorem flush_fail_dead (s : Sub) (h : (s.flush).2 = false) : (s.flush).1.wleft = some 0 := by
  unfold Sub.flush at h ⊢
  split
  · rename_i he; simp [he] at h
  · rename_i he; simp only [he] at h; exact wr_fail_dead _ _ (by simpa using h)

theorem direct_dead : ∀ (fuel : Nat) (s : Sub) (bs : Bytes), s.wleft = some 0 →
    (Sub.direct fuel s bs).s = s
  | 0, s, bs, _ => rfl
  | fuel + 1, s, bs, h => by
    unfold Sub.direct
    split
    · simp only [wr_dead _ _ h]; simp
    · rfl

theorem direct_fail_dead : ∀ (fuel : Nat) (s : Sub) (bs : Bytes), (Sub.direct fuel s bs).ok = false →
    (Sub.direct fuel s bs).s.wleft = some 0
  | 0, s, bs, h => by simp [Sub.direct] at h
  | fuel + 1, s, bs, h => by
    unfold Sub.direct at h ⊢
    split
    · rename_i hl
      simp only [hl, ↓reduceIte] at h
      cases hw : (s.wr (List.take (min (max s.cap Nq.Gen.C07.substdioOutsize) bs.length) bs)).2
      · simp only [hw, Bool.false_eq_true, ↓reduceIte]
        exact wr_fail_dead _ _ hw
      · simp only [hw, ↓reduceIte] at h ⊢
        exact direct_fail_dead fuel _ _ h
    · rename_i hl; simp [hl] at h

theorem put_dead (s : Sub) (bs : Bytes) (h : s.wleft = some 0) :
    (s.put bs).1.wleft = some 0 ∧ (s.put bs).1.out = s.out := by
  unfold Sub.put
  split
  · have hf := flush_dead s h
    cases hf2 : (s.flush).2
    · simpa [hf2] using hf
    · simp only [hf2, ↓reduceIte]
      have hd := direct_dead bs.length (s.flush).1 bs hf.1
      cases hk : (Sub.direct bs.length (s.flush).1 bs).ok
      · simp only [Bool.false_eq_true, ↓reduceIte]; rw [hd]; exact hf
      · simp only [↓reduceIte]; rw [hd]; exact hf
  · exact ⟨h, rfl⟩

theorem put_fail_dead (s : Sub) (bs : Bytes) (h : (s.put bs).2 = false) : (s.put bs).1.wleft = some 0 := by
  unfold Sub.put at h ⊢
  split
  · rename_i hl
    simp only [hl, ↓reduceIte] at h
    cases hf : (s.flush).2
    · simp only [hf, Bool.false_eq_true, ↓reduceIte]; exact flush_fail_dead s hf
    · simp only [hf, ↓reduceIte] at h ⊢
      cases hk : (Sub.direct bs.length (s.flush).1 bs).ok
      · simp only [Bool.false_eq_true, ↓reduceIte]; exact direct_fail_dead _ _ _ hk
      · simp [hk] at h
  · rename_i hl; simp [hl] at h

theorem SInv.flush {s : Sub} {X : Bytes} (h : SInv s X) : SInv (s.flush).1 X := by
  rcases h with h | h
  · cases hf : (s.flush).2
    · right
      refine ⟨flush_fail_dead s hf, ?_⟩
      have := Sub.flush_prefix s
      rw [h] at this
      exact List.IsPrefix.trans (List.prefix_append _ _) this
    · left
      have := Sub.flush_ok s hf
      unfold Sub.all at h ⊢
      rw [this.1, this.2]; simpa [Sub.all] using h
  · right
    have := flush_dead s h.1
    exact ⟨this.1, this.2 ▸ h.2⟩

theorem SInv.put {s : Sub} {X : Bytes} (h : SInv s X) (bs : Bytes) : SInv (s.put bs).1 (X ++ bs) := by
  rcases h with h | h
  · cases hp : (s.put bs).2
    · right
      refine ⟨put_fail_dead s bs hp, ?_⟩
      have := Sub.put_prefix s bs
      rw [h] at this
      exact List.IsPrefix.trans (List.prefix_append _ _) this
    · left; rw [Sub.put_ok s bs hp, h]
  · right
    have := put_dead s bs h.1
    exact ⟨this.1, this.2 ▸ List.IsPrefix.trans h.2 (List.prefix_append _ _)⟩

theorem SInv.putAll : ∀ (l : List Bytes) {s : Sub} {X : Bytes}, SInv s X → SInv (Qmtp.putAll s l) (X ++ l.flatten)
  | [], s, X, h => by simpa [Qmtp.putAll] using h
  | b :: l, s, X, h => by
    have := SInv.putAll l (h.put b)
    simpa [Qmtp.putAll, List.append_assoc] using this

/-! ## 1. a completely read message consumes at least one byte; the empty input is EOF -/

theorem getlen_lt (max : Nat) : ∀ (p : Bytes) (acc n : Nat) (r : Bytes),
    Netstring.getlen max acc p = .ok n r → r.length < p.length
  | [], _, _, _, h => by simp [Netstring.getlen] at h
  | c :: p, acc, n, r, h => by
    simp only [Netstring.getlen] at h
    split at h
    · simp at h; simp [h.2]
    · split at h
      · simp at h
      · split at h
        · simp at h
        · have := getlen_lt max p _ n r h
          simp only [List.length_cons]; omega

theorem getcomma_lt (p : Bytes) (u : Unit) (r : Bytes) (h : Netstring.getcomma p = .ok u r) :
    r.length < p.length := by
  cases p with
  | nil => simp [Netstring.getcomma] at h
  | cons c p =>
    simp only [Netstring.getcomma] at h
    split at h
    · simp at h; simp [h]
    · simp at h

theorem getbytes_le (n : Nat) (p a r : Bytes) (h : getbytes n p = .ok a r) : r.length ≤ p.length := by
  unfold getbytes at h
  split at h
  · simp at h
  · simp at h; rw [← h.2]; simp

theorem unixBody_le (len : Nat) (p r : Bytes) (h : (Qmtp.unixBody len p).rest = some r) : r.length ≤ p.length := by
  rw [(Qmtp.unixBody_stored len p r h).2]; simp

theorem dosBody_le : ∀ (len : Nat) (pend : Bool) (bto : Nat) (p r : Bytes),
    (Qmtp.dosBody len pend bto p).rest = some r → r.length ≤ p.length
  | 0, _, _, p, r, h => by simp [Qmtp.dosBody] at h; simp [h]
  | _ + 1, _, _, [], r, h => by simp [Qmtp.dosBody] at h
  | len + 1, false, bto, c :: p, r, h => by
    rw [Qmtp.dosBody_false] at h
    have : r.length ≤ p.length := by
      split at h
      · exact dosBody_le len true bto p r h
      · rw [Qmtp.pre_rest] at h; exact dosBody_le len false _ p r h
    simp only [List.length_cons]; omega
  | len + 1, true, bto, c :: p, r, h => by
    rw [Qmtp.dosBody_true] at h
    have : r.length ≤ p.length := by
      split at h
      · rw [Qmtp.pre_rest] at h; exact dosBody_le len false _ p r h
      · split at h
        · rw [Qmtp.pre_rest] at h; exact dosBody_le len true _ p r h
        · rw [Qmtp.pre_rest] at h; exact dosBody_le len false _ p r h
    simp only [List.length_cons]; omega

theorem rcptLen_le (max : Nat) : ∀ (p : Bytes) (big acc : Nat) (v : Nat × Nat) (r : Bytes),
    Qmtp.rcptLen max big acc p = .ok v r → r.length ≤ p.length
  | [], big, acc, v, r, h => by cases big <;> simp [Qmtp.rcptLen] at h
  | c :: p, 0, acc, v, r, h => by simp [Qmtp.rcptLen] at h
  | c :: p, big + 1, acc, v, r, h => by
    simp only [Qmtp.rcptLen] at h
    split at h
    · simp at h; simp [h.2]
    · split at h
      · simp at h
      · split at h
        · simp at h
        · have := rcptLen_le max p big _ v r h
          simp only [List.length_cons]; omega

theorem rcptLoop_le (cfg : Qmtp.Cfg) : ∀ (fuel big : Nat) (p : Bytes), (Qmtp.rcptLoop cfg fuel big p).stop = none →
    (Qmtp.rcptLoop cfg fuel big p).rest.length ≤ p.length
  | 0, _, _, h => by simp [Qmtp.rcptLoop] at h
  | fuel + 1, 0, p, _ => by simp [Qmtp.rcptLoop]
  | fuel + 1, big + 1, p, h => by
    simp only [Qmtp.rcptLoop] at h ⊢
    cases h1 : Qmtp.rcptLen Nq.Gen.C07.qmtpLenMax (big + 1) 0 p with
    | stop e r => simp [h1] at h
    | ok v r1 =>
      obtain ⟨len, big1⟩ := v
      simp only [h1] at h ⊢
      have l1 := rcptLen_le _ p _ _ _ r1 h1
      split
      · rename_i hl; simp [hl] at h
      · rename_i hl
        simp only [hl, ↓reduceIte] at h
        cases h2 : getbytes len r1 with
        | stop e r => simp [h2] at h
        | ok a r2 =>
          simp only [h2] at h ⊢
          have l2 := getbytes_le len r1 a r2 h2
          cases h3 : Netstring.getcomma r2 with
          | stop e r => simp [h3] at h
          | ok u r3 =>
            simp only [h3] at h ⊢
            rw [Qmtp.RL.pre_stop] at h
            have l3 := getcomma_lt r2 u r3 h3
            have ih := rcptLoop_le cfg fuel _ r3 h
            show (Qmtp.rcptLoop cfg fuel (big1 - (len + 1)) r3).rest.length ≤ p.length
            omega

/-- a completely read message consumes at least one byte (`getlen` eats at least the colon) -/
theorem msg_consumes (cfg : Qmtp.Cfg) (inp : Bytes) (h : (Qmtp.msg cfg inp).stop = none) :
    (Qmtp.msg cfg inp).rest.length < inp.length := by
  unfold Qmtp.msg at h ⊢
  cases h1 : Netstring.getlen Nq.Gen.C07.qmtpLenMax 0 inp with
  | stop e r => simp [h1] at h
  | ok len r0 =>
    simp only [h1] at h ⊢
    have l1 := getlen_lt _ inp 0 len r0 h1
    by_cases hl : len = 0
    · simp [hl] at h
    · simp only [hl, ↓reduceIte] at h ⊢
      cases r0 with
      | nil => simp at h
      | cons c r1 =>
        simp only at h ⊢
        by_cases hc : c ≠ LF ∧ c ≠ CR
        · simp [hc] at h
        · simp only [hc, ↓reduceIte] at h ⊢
          have hbody : ∀ r2, (if c = CR then Qmtp.dosBody (len - 1) false (if cfg.databytes = 0 then 0 else cfg.databytes + 1) r1
              else BodyRes.pre (if c = LF ∧ cfg.databytes ≠ 0 ∧ len - 1 > cfg.databytes then [QOp.fail] else [])
                (Qmtp.unixBody (len - 1) r1)).rest = some r2 → r2.length ≤ r1.length := by
            intro r2 hr
            split at hr
            · exact dosBody_le _ _ _ _ _ hr
            · rw [Qmtp.pre_rest] at hr; exact unixBody_le _ _ _ hr
          generalize (if c = CR then Qmtp.dosBody (len - 1) false (if cfg.databytes = 0 then 0 else cfg.databytes + 1) r1
              else BodyRes.pre (if c = LF ∧ cfg.databytes ≠ 0 ∧ len - 1 > cfg.databytes then [QOp.fail] else [])
                (Qmtp.unixBody (len - 1) r1)) = b at h hbody ⊢
          cases h2 : b.rest with
          | none => simp [h2] at h
          | some r2 =>
            simp only [h2] at h ⊢
            have l2 := hbody r2 h2
            cases h3 : Netstring.getcomma r2 with
            | stop e r => simp [h3] at h
            | ok u3 r3 =>
              simp only [h3] at h ⊢
              have l3 := getcomma_lt r2 u3 r3 h3
              cases h4 : Netstring.getlen Nq.Gen.C07.qmtpLenMax 0 r3 with
              | stop e r => simp [h4] at h
              | ok slen r4 =>
                simp only [h4] at h ⊢
                have l4 := getlen_lt _ r3 0 slen r4 h4
                cases h5 : getbytes slen r4 with
                | stop e r => simp [h5] at h
                | ok sraw r5 =>
                  simp only [h5] at h ⊢
                  have l5 := getbytes_le slen r4 sraw r5 h5
                  cases h6 : Netstring.getcomma r5 with
                  | stop e r => simp [h6] at h
                  | ok u6 r6 =>
                    simp only [h6] at h ⊢
                    have l6 := getcomma_lt r5 u6 r6 h6
                    cases h7 : Netstring.getlen Nq.Gen.C07.qmtpLenMax 0 r6 with
                    | stop e r => simp [h7] at h
                    | ok biglen r7 =>
                      simp only [h7] at h ⊢
                      have l7 := getlen_lt _ r6 0 biglen r7 h7
                      cases h8 : (Qmtp.rcptLoop cfg (r7.length + 1) biglen r7).stop with
                      | some e => simp [h8] at h
                      | none =>
                        simp only [h8] at h ⊢
                        have l8 := rcptLoop_le cfg _ _ _ h8
                        cases h9 : Netstring.getcomma (Qmtp.rcptLoop cfg (r7.length + 1) biglen r7).rest with
                        | stop e r => simp [h9] at h
                        | ok u9 r8 =>
                          simp only []
                          have l9 := getcomma_lt _ u9 r8 h9
                          simp only [List.length_cons] at l1
                          omega

/-- on the empty input the daemon exits (EOF in the first `getlen`) -/
theorem msg_nil (cfg : Qmtp.Cfg) : (Qmtp.msg cfg []).stop = some .eof := by
  simp [Qmtp.msg, Netstring.getlen]

/-! ## 2. the records of a connection (S1) -/

/-- `Sess.msgs` as a function of the input alone (the reply buffer, the refill positions and the accumulator play
    no role) -/
def recs (cfg : Qmtp.Cfg) : Nat → Bytes → Option Nat → List QEnd → List Nat → List Qmtp.Done
  | 0, _, _, _, _ => []
  | fuel + 1, inp, w, ends, pids =>
    match (Qmtp.msg cfg inp).stop with
    | some _ => [⟨Qmtp.msg cfg inp, (QQ.opened w).run (Qmtp.msg cfg inp).ops, []⟩]
    | none =>
      ⟨Qmtp.msg cfg inp, (QQ.opened w).run (Qmtp.msg cfg inp).ops,
        Qmtp.result (Qmtp.msg cfg inp) (((QQ.opened w).run (Qmtp.msg cfg inp).ops).verdict (ends.headD {})) cfg.now (pids.headD 0)⟩ ::
      recs cfg fuel (Qmtp.msg cfg inp).rest ((QQ.opened w).run (Qmtp.msg cfg inp).ops).ss.wleft
        (if ends.length > 1 then ends.tail else ends) pids.tail

/-- one step of `session`, with the refill arithmetic hidden: the reply buffer is flushed or not -/
theorem session_step (cfg : Qmtp.Cfg) (total fuel start : Nat) (inp : Bytes) (out : Sub) (w : Option Nat)
    (ends : List QEnd) (pids : List Nat) (acc : List Qmtp.Done) :
    ∃ out1 : Sub, (out1 = out.flush.1 ∨ out1 = out) ∧
      Qmtp.session cfg total (fuel + 1) start inp out w ends pids acc =
        match (Qmtp.msg cfg inp).stop with
        | some ex => ⟨out1.out, ex, (⟨Qmtp.msg cfg inp, (QQ.opened w).run (Qmtp.msg cfg inp).ops, []⟩ :: acc).reverse⟩
        | none =>
          Qmtp.session cfg total fuel (start + (inp.length - (Qmtp.msg cfg inp).rest.length)) (Qmtp.msg cfg inp).rest
            (Qmtp.putAll out1 (Qmtp.replies (Qmtp.msg cfg inp) (Qmtp.result (Qmtp.msg cfg inp)
              (((QQ.opened w).run (Qmtp.msg cfg inp).ops).verdict (ends.headD {})) cfg.now (pids.headD 0))))
            ((QQ.opened w).run (Qmtp.msg cfg inp).ops).ss.wleft (if ends.length > 1 then ends.tail else ends) pids.tail
            (⟨Qmtp.msg cfg inp, (QQ.opened w).run (Qmtp.msg cfg inp).ops, Qmtp.result (Qmtp.msg cfg inp)
              (((QQ.opened w).run (Qmtp.msg cfg inp).ops).verdict (ends.headD {})) cfg.now (pids.headD 0)⟩ :: acc) := by
  rw [Qmtp.session]
  simp only []
  refine ⟨_, ?_, rfl⟩
  have hite : ∀ (c : Prop) [Decidable c] (a b : Sub), (if c then a else b) = a ∨ (if c then a else b) = b := by
    intro c _ a b; split <;> simp
  exact hite _ _ _

theorem session_msgs (cfg : Qmtp.Cfg) (total : Nat) : ∀ (fuel start : Nat) (inp : Bytes) (out : Sub) (w : Option Nat)
    (ends : List QEnd) (pids : List Nat) (acc : List Qmtp.Done),
    (Qmtp.session cfg total fuel start inp out w ends pids acc).msgs = acc.reverse ++ recs cfg fuel inp w ends pids
  | 0, _, _, _, _, _, _, _ => by simp [Qmtp.session, recs]
  | fuel + 1, start, inp, out, w, ends, pids, acc => by
    obtain ⟨out1, -, he⟩ := session_step cfg total fuel start inp out w ends pids acc
    rw [he, recs]
    cases hst : (Qmtp.msg cfg inp).stop with
    | some ex => simp
    | none =>
      simp only []
      rw [session_msgs cfg total fuel]
      simp

/-- the records a connection produces: message k is `msg cfg` of what message k-1 left unread, run on a fresh qmail.c
    state whose write-fault counter is what message k-1 left; every record but the last is a completely read message
    with the status string computed from ITS verdict; the last record is a message inside which the daemon exits
    (or the list ends because the fuel ran out) -/
inductive Chain (cfg : Qmtp.Cfg) : Bytes → Option Nat → List QEnd → List Nat → List Qmtp.Done → Prop
  | nil (inp w ends pids) : Chain cfg inp w ends pids []          -- only reachable when the fuel is exhausted
  | last (inp w ends pids) (h : (Qmtp.msg cfg inp).stop ≠ none) :
      Chain cfg inp w ends pids [⟨Qmtp.msg cfg inp, (QQ.opened w).run (Qmtp.msg cfg inp).ops, []⟩]
  | cons (inp w ends pids rest) (h : (Qmtp.msg cfg inp).stop = none)
      (t : Chain cfg (Qmtp.msg cfg inp).rest ((QQ.opened w).run (Qmtp.msg cfg inp).ops).ss.wleft
        (if ends.length > 1 then ends.tail else ends) pids.tail rest) :
      Chain cfg inp w ends pids (⟨Qmtp.msg cfg inp, (QQ.opened w).run (Qmtp.msg cfg inp).ops,
        Qmtp.result (Qmtp.msg cfg inp) (((QQ.opened w).run (Qmtp.msg cfg inp).ops).verdict (ends.headD {})) cfg.now
          (pids.headD 0)⟩ :: rest)

theorem recs_chain (cfg : Qmtp.Cfg) : ∀ (fuel : Nat) (inp : Bytes) (w : Option Nat) (ends : List QEnd) (pids : List Nat),
    Chain cfg inp w ends pids (recs cfg fuel inp w ends pids)
  | 0, inp, w, ends, pids => Chain.nil inp w ends pids
  | fuel + 1, inp, w, ends, pids => by
    rw [recs]
    cases hst : (Qmtp.msg cfg inp).stop with
    | some ex => exact Chain.last inp w ends pids (by simp [hst])
    | none => exact Chain.cons inp w ends pids _ hst (recs_chain cfg fuel _ _ _ _)

/-- **S1.** -/
theorem session_chain (cfg : Qmtp.Cfg) (total fuel start : Nat) (inp : Bytes) (out : Sub) (w : Option Nat)
    (ends : List QEnd) (pids : List Nat) (acc : List Qmtp.Done) :
    ∃ l, (Qmtp.session cfg total fuel start inp out w ends pids acc).msgs = acc.reverse ++ l ∧
      Chain cfg inp w ends pids l :=
  ⟨_, session_msgs cfg total fuel start inp out w ends pids acc, recs_chain cfg fuel inp w ends pids⟩

theorem run_msgs (cfg : Qmtp.Cfg) (w : Option Nat) (ends : List QEnd) (pids : List Nat) (inp : Bytes) :
    (Qmtp.run cfg w ends pids inp).msgs = recs cfg (inp.length + 1) inp w ends pids := by
  unfold Qmtp.run; rw [session_msgs]; simp

theorem run_chain (cfg : Qmtp.Cfg) (w : Option Nat) (ends : List QEnd) (pids : List Nat) (inp : Bytes) :
    Chain cfg inp w ends pids (Qmtp.run cfg w ends pids inp).msgs := by
  rw [run_msgs]; exact recs_chain cfg _ inp w ends pids

/-- with more fuel than input bytes the connection ends inside a message (never by running out of fuel): the last
    record is the message inside which the daemon exits, with that exit; all records before it are complete -/
theorem session_last (cfg : Qmtp.Cfg) (total : Nat) : ∀ (fuel start : Nat) (inp : Bytes) (out : Sub) (w : Option Nat)
    (ends : List QEnd) (pids : List Nat) (acc : List Qmtp.Done), inp.length < fuel →
    ∃ init d, recs cfg fuel inp w ends pids = init ++ [d] ∧ (∀ x ∈ init, x.m.stop = none) ∧
      d.m.stop = some (Qmtp.session cfg total fuel start inp out w ends pids acc).exit ∧ d.res = [] ∧
      ∃ w' inp', d.m = Qmtp.msg cfg inp' ∧ d.q = (QQ.opened w').run d.m.ops
  | 0, _, _, _, _, _, _, _, h => by omega
  | fuel + 1, start, inp, out, w, ends, pids, acc, h => by
    obtain ⟨out1, -, he⟩ := session_step cfg total fuel start inp out w ends pids acc
    rw [he, recs]
    cases hst : (Qmtp.msg cfg inp).stop with
    | some ex => exact ⟨[], _, rfl, by simp, hst, rfl, w, inp, rfl, rfl⟩
    | none =>
      simp only []
      have hl := msg_consumes cfg inp hst
      obtain ⟨init, d, h1, h2, h3, h4⟩ := session_last cfg total fuel (start + (inp.length - (Qmtp.msg cfg inp).rest.length))
        (Qmtp.msg cfg inp).rest (Qmtp.putAll out1 (Qmtp.replies (Qmtp.msg cfg inp) (Qmtp.result (Qmtp.msg cfg inp)
              (((QQ.opened w).run (Qmtp.msg cfg inp).ops).verdict (ends.headD {})) cfg.now (pids.headD 0))))
        ((QQ.opened w).run (Qmtp.msg cfg inp).ops).ss.wleft (if ends.length > 1 then ends.tail else ends) pids.tail
        (⟨Qmtp.msg cfg inp, (QQ.opened w).run (Qmtp.msg cfg inp).ops, Qmtp.result (Qmtp.msg cfg inp)
              (((QQ.opened w).run (Qmtp.msg cfg inp).ops).verdict (ends.headD {})) cfg.now (pids.headD 0)⟩ :: acc) (by omega)
      refine ⟨_ :: init, d, by rw [h1]; rfl, ?_, h3, h4⟩
      intro x hx
      rcases List.mem_cons.mp hx with hx | hx
      · rw [hx]; exact hst
      · exact h2 x hx

/-- **S1, end of the chain.**  The records of `run` are: complete messages, then one message inside which the daemon
    exits — and the exit status of the connection is the exit of that message. -/
theorem run_chain_nonempty (cfg : Qmtp.Cfg) (w : Option Nat) (ends : List QEnd) (pids : List Nat) (inp : Bytes) :
    ∃ init d, (Qmtp.run cfg w ends pids inp).msgs = init ++ [d] ∧ (∀ x ∈ init, x.m.stop = none) ∧
      d.m.stop ≠ none ∧ d.m.stop = some (Qmtp.run cfg w ends pids inp).exit ∧ d.res = [] ∧
      ∃ w' inp', d.m = Qmtp.msg cfg inp' ∧ d.q = (QQ.opened w').run d.m.ops := by
  rw [run_msgs]
  unfold Qmtp.run
  obtain ⟨init, d, h1, h2, h3, h4⟩ := session_last cfg inp.length (inp.length + 1) 0 inp
    { cap := Nq.Gen.C07.qmtpOutBuf } w ends pids [] (by omega)
  exact ⟨init, d, h1, h2, by rw [h3]; simp, h3, h4⟩

/-- the last record of every connection: the daemon exits inside it, and — whatever write-fault counter the earlier
    messages left — what the queue program finds on descriptor 1 is not a complete envelope -/
theorem run_last_stopped (cfg : Qmtp.Cfg) (w : Option Nat) (ends : List QEnd) (pids : List Nat) (inp : Bytes) :
    ∃ init d, (Qmtp.run cfg w ends pids inp).msgs = init ++ [d] ∧ (∀ x ∈ init, x.m.stop = none) ∧
      d.m.stop ≠ none ∧ envComplete d.q.envPipe = false := by
  obtain ⟨init, d, h1, h2, h3, -, -, w', inp', h5, h6⟩ := run_chain_nonempty cfg w ends pids inp
  refine ⟨init, d, h1, h2, h3, ?_⟩
  rw [h6, h5]
  exact QQ.no_close_no_envelope w' _ (Qmtp.msg_stopped cfg _ (h5 ▸ h3))

/-! ## 3. what the client has received (S2) -/

/-- the reply bytes of the completely read messages among `l`, in order -/
def acked (l : List Qmtp.Done) : Bytes :=
  ((l.filter (fun d => d.m.stop.isNone)).map (fun d => (Qmtp.replies d.m d.res).flatten)).flatten

theorem acked_append (a b : List Qmtp.Done) : acked (a ++ b) = acked a ++ acked b := by
  simp [acked, List.filter_append]

theorem acked_complete (l : List Qmtp.Done) (h : ∀ x ∈ l, x.m.stop = none) :
    acked l = (l.map (fun d => (Qmtp.replies d.m d.res).flatten)).flatten := by
  unfold acked
  rw [List.filter_eq_self.mpr]
  intro x hx; simp [h x hx]

theorem acked_stopped (d : Qmtp.Done) (h : d.m.stop ≠ none) : acked [d] = [] := by
  cases hs : d.m.stop with
  | none => exact absurd hs h
  | some e => simp [acked, hs]

theorem acked_cons_complete (d : Qmtp.Done) (l : List Qmtp.Done) (h : d.m.stop = none) :
    acked (d :: l) = (Qmtp.replies d.m d.res).flatten ++ acked l := by
  simp [acked, h]

theorem session_out (cfg : Qmtp.Cfg) (total : Nat) : ∀ (fuel start : Nat) (inp : Bytes) (out : Sub) (w : Option Nat)
    (ends : List QEnd) (pids : List Nat) (acc : List Qmtp.Done) (X : Bytes), SInv out X →
    (Qmtp.session cfg total fuel start inp out w ends pids acc).out <+: X ++ acked (recs cfg fuel inp w ends pids)
  | 0, _, _, _, _, _, _, _, X, h => by simpa [Qmtp.session, recs, acked] using h.out
  | fuel + 1, start, inp, out, w, ends, pids, acc, X, h => by
    obtain ⟨out1, ho, he⟩ := session_step cfg total fuel start inp out w ends pids acc
    have h1 : SInv out1 X := by
      rcases ho with ho | ho
      · rw [ho]; exact h.flush
      · rw [ho]; exact h
    rw [he, recs]
    cases hst : (Qmtp.msg cfg inp).stop with
    | some ex =>
      simp only []
      rw [acked_stopped _ (by simp [hst]), List.append_nil]
      exact h1.out
    | none =>
      simp only []
      have h2 := SInv.putAll (Qmtp.replies (Qmtp.msg cfg inp) (Qmtp.result (Qmtp.msg cfg inp)
              (((QQ.opened w).run (Qmtp.msg cfg inp).ops).verdict (ends.headD {})) cfg.now (pids.headD 0))) h1
      have ih := session_out cfg total fuel (start + (inp.length - (Qmtp.msg cfg inp).rest.length))
        (Qmtp.msg cfg inp).rest _ ((QQ.opened w).run (Qmtp.msg cfg inp).ops).ss.wleft
        (if ends.length > 1 then ends.tail else ends) pids.tail
        (⟨Qmtp.msg cfg inp, (QQ.opened w).run (Qmtp.msg cfg inp).ops, Qmtp.result (Qmtp.msg cfg inp)
              (((QQ.opened w).run (Qmtp.msg cfg inp).ops).verdict (ends.headD {})) cfg.now (pids.headD 0)⟩ :: acc) _ h2
      rw [acked_cons_complete _ _ hst, ← List.append_assoc]
      exact ih

/-- **S2 (session).**  Whatever the state of the reply buffer: what the descriptor has received at the end is a prefix of
    (everything handed to the buffer before) ++ (the replies of the completely read messages of this part of the
    connection, in order). -/
theorem session_out_prefix (cfg : Qmtp.Cfg) (total fuel start : Nat) (inp : Bytes) (out : Sub) (w : Option Nat)
    (ends : List QEnd) (pids : List Nat) (acc : List Qmtp.Done) :
    ∃ l, (Qmtp.session cfg total fuel start inp out w ends pids acc).msgs = acc.reverse ++ l ∧
      Chain cfg inp w ends pids l ∧
      (Qmtp.session cfg total fuel start inp out w ends pids acc).out <+: out.all ++ acked l :=
  ⟨_, session_msgs cfg total fuel start inp out w ends pids acc, recs_chain cfg fuel inp w ends pids,
    session_out cfg total fuel start inp out w ends pids acc _ (Or.inl rfl)⟩

/-- **S2.**  What the client has received when the daemon exits is a prefix of the replies of the completely read
    messages (nothing of the last record, inside which the daemon exits). -/
theorem run_out_acked (cfg : Qmtp.Cfg) (w : Option Nat) (ends : List QEnd) (pids : List Nat) (inp : Bytes) :
    (Qmtp.run cfg w ends pids inp).out <+: acked (Qmtp.run cfg w ends pids inp).msgs := by
  rw [run_msgs]
  unfold Qmtp.run
  have := session_out cfg inp.length (inp.length + 1) 0 inp { cap := Nq.Gen.C07.qmtpOutBuf } w ends pids [] []
    (Or.inl rfl)
  simpa using this

/-- S2 with the records spelled out: `msgs = init ++ [d]`, the client has a prefix of the replies of `init` -/
theorem run_out_init (cfg : Qmtp.Cfg) (w : Option Nat) (ends : List QEnd) (pids : List Nat) (inp : Bytes) :
    ∃ init d, (Qmtp.run cfg w ends pids inp).msgs = init ++ [d] ∧ (∀ x ∈ init, x.m.stop = none) ∧
      d.m.stop ≠ none ∧
      (Qmtp.run cfg w ends pids inp).out <+: (init.map (fun d => (Qmtp.replies d.m d.res).flatten)).flatten := by
  obtain ⟨init, d, h1, h2, h3, -, -, -⟩ := run_chain_nonempty cfg w ends pids inp
  refine ⟨init, d, h1, h2, h3, ?_⟩
  have := run_out_acked cfg w ends pids inp
  rw [h1, acked_append, acked_stopped d h3, List.append_nil, acked_complete init h2] at this
  exact this

/-- S2 in the weak form (all records, including the unfinished one) -/
theorem run_out_prefix (cfg : Qmtp.Cfg) (w : Option Nat) (ends : List QEnd) (pids : List Nat) (inp : Bytes) :
    (Qmtp.run cfg w ends pids inp).out <+:
      ((Qmtp.run cfg w ends pids inp).msgs.map (fun d => (Qmtp.replies d.m d.res).flatten)).flatten := by
  obtain ⟨init, d, h1, -, -, h4⟩ := run_out_init cfg w ends pids inp
  rw [h1, List.map_append, List.flatten_append]
  exact List.IsPrefix.trans h4 (List.prefix_append _ _)

/-! ## 4. the cut inside a later message (S3) -/

/-- `p` is exactly `k` complete messages, one after the other, nothing left over -/
inductive Complete (cfg : Qmtp.Cfg) : Nat → Bytes → Prop
  | zero : Complete cfg 0 []
  | succ {k : Nat} {m1 p : Bytes} (h : (Qmtp.msg cfg m1).stop = none) (hr : (Qmtp.msg cfg m1).rest = [])
      (t : Complete cfg k p) : Complete cfg (k + 1) (m1 ++ p)

/-- the same record when `t` follows on the connection: only the unread remainder differs -/
def addRest (t : Bytes) (d : Qmtp.Done) : Qmtp.Done := { d with m := { d.m with rest := d.m.rest ++ t } }

theorem addRest_nil (d : Qmtp.Done) : addRest [] d = d := by
  obtain ⟨m, q, res⟩ := d
  cases m
  simp [addRest]

theorem map_addRest_nil (l : List Qmtp.Done) : l.map (addRest []) = l := by
  induction l with
  | nil => rfl
  | cons d l ih => rw [List.map_cons, ih, addRest_nil]

theorem acked_map_addRest (t : Bytes) : ∀ (l : List Qmtp.Done), acked (l.map (addRest t)) = acked l
  | [] => rfl
  | d :: l => by
    have ih := acked_map_addRest t l
    rw [List.map_cons, ← List.singleton_append, acked_append, ih, ← List.singleton_append (l := l), acked_append]
    congr 1
    cases hs : d.m.stop <;> simp [acked, addRest, hs, Qmtp.replies]

theorem Complete.le_length {cfg : Qmtp.Cfg} {k : Nat} {p : Bytes} (h : Complete cfg k p) : k ≤ p.length := by
  induction h with
  | zero => simp
  | succ h _ _ ih =>
    have := msg_consumes cfg _ h
    simp only [List.length_append]; omega

theorem recs_stopped (cfg : Qmtp.Cfg) (f : Nat) (inp : Bytes) (w : Option Nat) (ends : List QEnd) (pids : List Nat)
    (hs : (Qmtp.msg cfg inp).stop ≠ none) :
    recs cfg (f + 1) inp w ends pids = [⟨Qmtp.msg cfg inp, (QQ.opened w).run (Qmtp.msg cfg inp).ops, []⟩] := by
  rw [recs]
  cases hst : (Qmtp.msg cfg inp).stop with
  | none => exact absurd hst hs
  | some ex => rfl

theorem recs_complete_head (cfg : Qmtp.Cfg) (f : Nat) (inp : Bytes) (w : Option Nat) (ends : List QEnd) (pids : List Nat)
    (h : (Qmtp.msg cfg inp).stop = none) :
    recs cfg (f + 1) inp w ends pids =
      ⟨Qmtp.msg cfg inp, (QQ.opened w).run (Qmtp.msg cfg inp).ops,
        Qmtp.result (Qmtp.msg cfg inp) (((QQ.opened w).run (Qmtp.msg cfg inp).ops).verdict (ends.headD {})) cfg.now
          (pids.headD 0)⟩ ::
      recs cfg f (Qmtp.msg cfg inp).rest ((QQ.opened w).run (Qmtp.msg cfg inp).ops).ss.wleft
        (if ends.length > 1 then ends.tail else ends) pids.tail := by
  rw [recs]; simp only [h]

/-- the first record when a complete message `m1` is followed by `t` (`chain_append`, as an equation on `recs`) -/
theorem recs_succ_complete (cfg : Qmtp.Cfg) (fuel : Nat) (m1 t : Bytes) (w : Option Nat) (ends : List QEnd)
    (pids : List Nat) (h : (Qmtp.msg cfg m1).stop = none) (hr : (Qmtp.msg cfg m1).rest = []) :
    recs cfg (fuel + 1) (m1 ++ t) w ends pids =
      ⟨{ Qmtp.msg cfg m1 with rest := t }, (QQ.opened w).run (Qmtp.msg cfg m1).ops,
        Qmtp.result (Qmtp.msg cfg m1) (((QQ.opened w).run (Qmtp.msg cfg m1).ops).verdict (ends.headD {})) cfg.now
          (pids.headD 0)⟩ ::
      recs cfg fuel t ((QQ.opened w).run (Qmtp.msg cfg m1).ops).ss.wleft
        (if ends.length > 1 then ends.tail else ends) pids.tail := by
  have e := Qmtp.msg_ext cfg m1 t h
  rw [hr, List.nil_append] at e
  rw [recs, e]
  simp only [h]
  rfl

/-- `Chain` on `m1 ++ t` for a complete first message `m1` -/
theorem chain_append (cfg : Qmtp.Cfg) (m1 t : Bytes) (w : Option Nat) (ends : List QEnd) (pids : List Nat)
    (l : List Qmtp.Done) (h : (Qmtp.msg cfg m1).stop = none) (hr : (Qmtp.msg cfg m1).rest = [])
    (hl : Chain cfg t ((QQ.opened w).run (Qmtp.msg cfg m1).ops).ss.wleft
      (if ends.length > 1 then ends.tail else ends) pids.tail l) :
    Chain cfg (m1 ++ t) w ends pids
      (⟨{ Qmtp.msg cfg m1 with rest := t }, (QQ.opened w).run (Qmtp.msg cfg m1).ops,
        Qmtp.result (Qmtp.msg cfg m1) (((QQ.opened w).run (Qmtp.msg cfg m1).ops).verdict (ends.headD {})) cfg.now
          (pids.headD 0)⟩ :: l) := by
  have e := Qmtp.msg_ext cfg m1 t h
  rw [hr, List.nil_append] at e
  have := Chain.cons (m1 ++ t) w ends pids l (by rw [e]; exact h) (by rw [e]; exact hl)
  rw [e] at this
  exact this

/-- behind `k` complete messages: the first `k` records do not depend on what follows (but for the unread remainder),
    and what follows is processed from a state (`w'`, `ends'`, `pids'`) that depends on the `k` messages only -/
theorem recs_append (cfg : Qmtp.Cfg) {k : Nat} {p : Bytes} (hp : Complete cfg k p) :
    ∀ (w : Option Nat) (ends : List QEnd) (pids : List Nat),
    (recs cfg k p w ends pids).length = k ∧ (∀ x ∈ recs cfg k p w ends pids, x.m.stop = none) ∧
    ∃ (w' : Option Nat) (ends' : List QEnd) (pids' : List Nat), ∀ (f : Nat) (t : Bytes),
      recs cfg (k + f) (p ++ t) w ends pids =
        (recs cfg k p w ends pids).map (addRest t) ++ recs cfg f t w' ends' pids' := by
  induction hp with
  | zero =>
    intro w ends pids
    exact ⟨rfl, by simp [recs], w, ends, pids, by intro f t; simp [recs]⟩
  | @succ k m1 p h hr _ ih =>
    intro w ends pids
    obtain ⟨i1, i2, w', ends', pids', i3⟩ := ih ((QQ.opened w).run (Qmtp.msg cfg m1).ops).ss.wleft
      (if ends.length > 1 then ends.tail else ends) pids.tail
    rw [recs_succ_complete cfg k m1 p w ends pids h hr]
    refine ⟨by simp [i1], ?_, w', ends', pids', ?_⟩
    · intro x hx
      rcases List.mem_cons.mp hx with hx | hx
      · rw [hx]; exact h
      · exact i2 x hx
    · intro f t
      have e1 : k + 1 + f = (k + f) + 1 := by omega
      rw [e1, List.append_assoc, recs_succ_complete cfg (k + f) m1 (p ++ t) w ends pids h hr, i3 f t]
      simp [addRest]

/-- the records of the `k` complete messages `p`, read off the connection that consists of just them -/
theorem run_complete_take (cfg : Qmtp.Cfg) {k : Nat} {p : Bytes} (hp : Complete cfg k p) (w : Option Nat)
    (ends : List QEnd) (pids : List Nat) :
    (Qmtp.run cfg w ends pids p).msgs.take k = recs cfg k p w ends pids := by
  obtain ⟨i1, -, w', ends', pids', i3⟩ := recs_append cfg hp w ends pids
  have hk := hp.le_length
  have := i3 (p.length + 1 - k) []
  rw [List.append_nil, map_addRest_nil, show k + (p.length + 1 - k) = p.length + 1 by omega] at this
  rw [run_msgs, this, List.take_left' i1]

/-- **S3, cut inside message k+1.**  Let `p` be `k` complete messages and `inp'` start with a message that is complete
    after `n = |inp'| - |rest|` bytes.  If the client sends `p` and then only the first `j < n` bytes of `inp'`:
    the records are those of the `k` complete messages (exactly the records of the connection `p`, but for the unread
    remainder) followed by ONE last record `d` = the truncated message, inside which the daemon exits; `d` ran on
    the write-fault counter `w'` the `k` messages left — the same on which the complete message `k+1` runs in the uncut
    connection `p ++ inp'` —, what the queue program finds on descriptor 1 is not a complete envelope; and the client
    has received at most (a prefix of) the replies of the `k` complete messages. -/
theorem run_cut_later (cfg : Qmtp.Cfg) (w : Option Nat) (ends : List QEnd) (pids : List Nat) {k : Nat} {p : Bytes}
    (hp : Complete cfg k p) (inp' : Bytes) (h : (Qmtp.msg cfg inp').stop = none) (j : Nat)
    (hj : j < inp'.length - (Qmtp.msg cfg inp').rest.length) :
    ((Qmtp.run cfg w ends pids p).msgs.take k).length = k ∧
    (∀ x ∈ (Qmtp.run cfg w ends pids p).msgs.take k, x.m.stop = none) ∧
    ∃ (w' : Option Nat) (d : Qmtp.Done),
      (Qmtp.run cfg w ends pids (p ++ inp'.take j)).msgs =
        ((Qmtp.run cfg w ends pids p).msgs.take k).map (addRest (inp'.take j)) ++ [d] ∧
      d.m = Qmtp.msg cfg (inp'.take j) ∧ d.m.stop ≠ none ∧ d.res = [] ∧
      d.q = (QQ.opened w').run d.m.ops ∧ envComplete d.q.envPipe = false ∧
      d.m.stop = some (Qmtp.run cfg w ends pids (p ++ inp'.take j)).exit ∧
      (Qmtp.run cfg w ends pids (p ++ inp'.take j)).out <+:
        (((Qmtp.run cfg w ends pids p).msgs.take k).map (fun d => (Qmtp.replies d.m d.res).flatten)).flatten ∧
      ∃ (d' : Qmtp.Done) (tl : List Qmtp.Done),
        (Qmtp.run cfg w ends pids (p ++ inp')).msgs =
          ((Qmtp.run cfg w ends pids p).msgs.take k).map (addRest inp') ++ d' :: tl ∧
        d'.m = Qmtp.msg cfg inp' ∧ d'.q = (QQ.opened w').run (Qmtp.msg cfg inp').ops := by
  rw [run_complete_take cfg hp]
  obtain ⟨i1, i2, w', ends', pids', i3⟩ := recs_append cfg hp w ends pids
  have hk := hp.le_length
  have hs := Qmtp.msg_prefix cfg inp' h j hj
  have hm : (Qmtp.run cfg w ends pids (p ++ inp'.take j)).msgs =
      (recs cfg k p w ends pids).map (addRest (inp'.take j)) ++
        [⟨Qmtp.msg cfg (inp'.take j), (QQ.opened w').run (Qmtp.msg cfg (inp'.take j)).ops, []⟩] := by
    have := i3 ((p ++ inp'.take j).length - k + 1) (inp'.take j)
    rw [recs_stopped cfg _ _ w' ends' pids' hs] at this
    rw [run_msgs, ← this]
    congr 1
    simp only [List.length_append] at hk ⊢; omega
  refine ⟨i1, i2, w', ⟨Qmtp.msg cfg (inp'.take j), (QQ.opened w').run (Qmtp.msg cfg (inp'.take j)).ops, []⟩, hm, rfl, hs,
    rfl, rfl, QQ.no_close_no_envelope w' _ (Qmtp.msg_stopped cfg _ hs), ?_, ?_, ?_⟩
  · obtain ⟨init0, d0, g1, -, -, g4, -, -⟩ := run_chain_nonempty cfg w ends pids (p ++ inp'.take j)
    rw [hm] at g1
    have := (List.append_inj' g1 rfl).2
    simp only [List.cons.injEq, and_true] at this
    rw [this]; exact g4
  · have := run_out_acked cfg w ends pids (p ++ inp'.take j)
    rw [hm, acked_append, acked_stopped _ hs, List.append_nil, acked_map_addRest, acked_complete _ i2] at this
    exact this
  · have := i3 ((p ++ inp').length - k + 1) inp'
    rw [recs_complete_head cfg _ _ w' ends' pids' h] at this
    have e : (Qmtp.run cfg w ends pids (p ++ inp')).msgs = recs cfg (k + ((p ++ inp').length - k + 1)) (p ++ inp') w ends pids := by
      rw [run_msgs]
      congr 1
      simp only [List.length_append] at hk ⊢; omega
    rw [this] at e
    exact ⟨_, _, e, rfl, rfl⟩

end Nq.Lemmas.C07Session
