/-
  C17 table lemmas: facts about the character tables regenerated from quote.c / token822.c
  (`Nq.Gen.quoteOk`, `atomNotOk`, `atomcheck*`, `specials`), each decided over all 256 byte values.
  These are the "parser and quoter agree on the interface" obligations: if a table changes in the
  source, the generated file changes and these `decide`s are re-run.
-/
import Nq.Quote
import Nq.Token822
import Nq.SmtpAddr

namespace Nq.Lemmas.C17
set_option maxRecDepth 20000
open Nq Nq.Quote Nq.Token822

/-- a Boolean predicate that holds for the 256 byte values holds for every byte -/
theorem forall_byte (P : UInt8 → Bool)
    (h : (List.range 256).all (fun n => P (UInt8.ofNat n)) = true) (c : UInt8) : P c = true := by
  have hc : c.toNat ∈ List.range 256 := by
    simp only [List.mem_range]; exact c.toNat_lt
  have := List.all_eq_true.mp h c.toNat hc
  simpa using this

/-- what a byte that `quote_need` lets through unquoted (other than '.') is for the tokenizer:
not a single-character token, not white space, not a delimiter, an atom byte, and not one that
`atomcheck` objects to; nor is it one of the bytes `addrparse` treats specially -/
def plainFacts (c : Byte) : Bool :=
  !(okChar c && c != DOT) ||
    ((specialTok c).isNone && !isWs c && c != RPAR && c != RBRK && c != LPAR && c != Token822.DQ && c != LBRK
      && c != Token822.BSL && atomok c && !atomBad c && c != 62 && c != AT && c != LF)

theorem plainFacts_all : ∀ c, plainFacts c = true :=
  forall_byte plainFacts (by decide)

/-- the single-character tokens, spelled out -/
def specialSpec (c : Byte) : Option Tok :=
  if c = 46 then some .dot else if c = 44 then some .comma else if c = 64 then some .at
  else if c = 60 then some .left else if c = 62 then some .right else if c = 58 then some .colon
  else if c = 59 then some .semi else none

theorem specialTok_eq : ∀ c, (specialTok c == specialSpec c) = true :=
  forall_byte (fun c => specialTok c == specialSpec c) (by decide)

/-- every single-character token byte ends an atom -/
theorem special_not_atomok : ∀ c, (!(specialTok c).isSome || !atomok c) = true :=
  forall_byte (fun c => !(specialTok c).isSome || !atomok c) (by decide)

/-- '.' and '@' are tokens; '@' is never left unquoted by `quote_need` -/
theorem dot_at_facts :
    specialTok DOT = some .dot ∧ specialTok AT = some .at ∧ atomok DOT = false ∧ atomok AT = false ∧
    okChar AT = false ∧ okChar DOT = true := by decide

/-- the bytes `doit()` escapes are exactly CR LF `"` `\` -/
theorem quoteEsc_spec : ∀ c, (Gen.quoteEsc.contains c == (c == CR || c == LF || c == Quote.DQ || c == Quote.BSL)) = true :=
  forall_byte (fun c => Gen.quoteEsc.contains c == (c == CR || c == LF || c == Quote.DQ || c == Quote.BSL)) (by decide)

/-- white space (SP TAB CR LF) is no token and ends an atom -/
theorem ws_facts : ∀ c, (!isWs c || ((specialTok c).isNone && !atomok c)) = true :=
  forall_byte (fun c => !isWs c || ((specialTok c).isNone && !atomok c)) (by decide)

theorem stepTop_dq : stepTop Token822.DQ = (.quote [] false, []) := by decide
theorem stepTop_lbrk : stepTop LBRK = (.lit [] false, []) := by decide
theorem stepTop_at : stepTop AT = (.top, [.at]) := by decide
theorem stepTop_dot : stepTop DOT = (.top, [.dot]) := by decide

end Nq.Lemmas.C17
