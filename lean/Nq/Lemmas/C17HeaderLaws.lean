/-
  Lemmas for C17 (session 4), part 2: the laws of the declarative description `Nq.Spec.HeaderBody`
  (concatenation, shape of the fields, maximality).
-/
import Nq.Lemmas.C17HeaderBody

namespace Nq.Lemmas.C17HB
open Nq Nq.Inject Nq.Spec.HeaderBody

/-! ### partition -/

theorem hdr_rest (ls : List Bytes) : hdr ls ++ rest ls = ls := by
  cases ls with
  | nil => rfl
  | cons l r =>
    by_cases hs : isStart l = true
    · simp [hdr, rest, hs, List.takeWhile_append_dropWhile]
    · simp [hdr, rest, hs]

theorem groups_flatten (ls : List Bytes) : (groups ls).flatten = ls := by
  induction ls with
  | nil => rfl
  | cons l r ih =>
    rw [groups]
    cases hg : groups r with
    | nil => rw [hg] at ih; simp at ih; simp [← ih]
    | cons g gs =>
      rw [hg] at ih
      simp only []
      split
      · split <;> simp [← ih]
      · simp [← ih]

/-- nothing lost, nothing reordered: the groups of the header followed by the rest are the lines -/
theorem groups_hdr_rest (ls : List Bytes) : (groups (hdr ls)).flatten ++ rest ls = ls := by
  rw [groups_flatten, hdr_rest]

theorem head_dropWhile_false {α} (p : α → Bool) (l : List α) (x : α) (h : (l.dropWhile p).head? = some x) : p x = false := by
  induction l with
  | nil => simp at h
  | cons a l ih =>
    simp only [List.dropWhile_cons] at h
    split at h
    · exact ih h
    · rename_i ha
      simp only [List.head?_cons, Option.some.injEq] at h
      subst h
      simpa using ha

/-- maximality: the line after the header is no field start, and it is a continuation line only when
there is no header at all -/
theorem rest_head (ls : List Bytes) (x : Bytes) (h : (rest ls).head? = some x) :
    isStart x = false ∧ (isCont x = true → hdr ls = []) := by
  cases ls with
  | nil => simp [rest] at h
  | cons l r =>
    by_cases hs : isStart l = true
    · simp only [rest, hs, if_true] at h
      have := head_dropWhile_false _ _ _ h
      simp only [isHdrLine, Bool.or_eq_false_iff] at this
      exact ⟨this.1, fun hc => by rw [this.2] at hc; simp at hc⟩
    · have hs' : isStart l = false := by simpa using hs
      simp only [rest, hs', Bool.false_eq_true, if_false, List.head?_cons, Option.some.injEq] at h
      subst h
      exact ⟨by simpa using hs, fun _ => by simp [hdr, hs]⟩

/-! ### unfolding along "one field, then the remainder", as an induction principle -/

theorem hdr_unfold (nl : Bytes) (r : List Bytes) (hs : isStart nl = true) :
    groups (hdr (nl :: r)) = (nl :: r.takeWhile isCont) :: groups (hdr (r.dropWhile isCont)) := by
  have tw := takeWhile_hdr r
  simp only [hdr, hs, if_true, tw.1]
  exact groups_field nl _ _ (fun c hc => mem_takeWhile_true isCont _ c hc) (hdr_head_not_cont _)

theorem groups_hdr_ind (Q : Bytes → Prop) (P : List (List Bytes) → Prop) (h0 : P [])
    (hstep : ∀ nl cs G, isStart nl = true → Q nl → (∀ c ∈ cs, isCont c = true ∧ Q c) → P G → P ((nl :: cs) :: G)) :
    ∀ n (ls : List Bytes), ls.length ≤ n → (∀ l ∈ ls, Q l) → P (groups (hdr ls)) := by
  intro n
  induction n with
  | zero =>
    intro ls hl _
    have : ls = [] := List.eq_nil_of_length_eq_zero (by omega)
    subst this
    exact h0
  | succ n ih =>
    intro ls hl hq
    cases ls with
    | nil => exact h0
    | cons nl r =>
      by_cases hs : isStart nl = true
      · rw [hdr_unfold nl r hs]
        apply hstep nl _ _ hs (hq nl List.mem_cons_self)
        · intro c hc
          exact ⟨mem_takeWhile_true isCont _ c hc, hq c (List.mem_cons_of_mem _ ((List.takeWhile_sublist _).subset hc))⟩
        · apply ih
          · have := dropWhile_length_le isCont r
            simp only [List.length_cons] at hl
            omega
          · intro l h
            exact hq l (List.mem_cons_of_mem _ ((List.dropWhile_sublist _).subset h))
      · simp only [hdr, hs]
        exact h0

/-- every group of the header is a field start followed by continuation lines only -/
theorem groups_shape (ls : List Bytes) :
    ∀ g ∈ groups (hdr ls), ∃ s cs, g = s :: cs ∧ isStart s = true ∧ ∀ c ∈ cs, isCont c = true := by
  apply groups_hdr_ind (fun _ => True) (fun G => ∀ g ∈ G, ∃ s cs, g = s :: cs ∧ isStart s = true ∧ ∀ c ∈ cs, isCont c = true)
    (by simp) ?_ ls.length ls (Nat.le_refl _) (fun _ _ => trivial)
  intro nl cs G hs _ hcs hG g hg
  simp only [List.mem_cons] at hg
  rcases hg with hg | hg
  · exact ⟨nl, cs, hg, hs, fun c hc => (hcs c hc).1⟩
  · exact hG g hg

/-! ### field texts -/

theorem mbox_bytes : mboxName = [77, 66, 79, 88, 45, 76, 105, 110, 101, 58, 32] := by decide +kernel
theorem from_bytes : str "From " = [70, 114, 111, 109, 32] := by decide +kernel

theorem hfieldValid_mbox (x : Bytes) : hfieldValid (mboxName ++ x) = true := by
  rw [mbox_bytes]
  simp [hfieldValid, List.takeWhile]
  decide

theorem takeWhile_append_mem (a b : Bytes) (h : (58 : Byte) ∈ a) :
    (a ++ b).takeWhile (· ≠ 58) = a.takeWhile (· ≠ 58) := by
  induction a with
  | nil => simp at h
  | cons c a ih =>
    by_cases hc : c = 58
    · simp [List.takeWhile_cons, hc]
    · have : (58 : Byte) ∈ a := by
        simp only [List.mem_cons] at h
        rcases h with h | h
        · exact absurd h.symm hc
        · exact h
      have e := ih this
      simp only [List.cons_append, List.takeWhile_cons, hc, ne_eq, not_false_eq_true, decide_true, if_true]
      rw [e]

theorem hfieldValid_append (a b : Bytes) (h : hfieldValid a = true) : hfieldValid (a ++ b) = true := by
  unfold hfieldValid at h ⊢
  by_cases hc : a.contains 58 = true
  · have hm : (58 : Byte) ∈ a := by simpa using hc
    have hc2 : (a ++ b).contains 58 = true := by simp [hm]
    simp only [hc, hc2, Bool.not_true, Bool.false_eq_true, if_false] at h ⊢
    rw [takeWhile_append_mem a b hm]
    exact h
  · simp at h
    exact absurd (by simp [h.1]) hc

/-! ### logical lines -/

theorem logicalLine_line (b t : Bytes) (hb : LF ∉ b) :
    logicalLine (b ++ LF :: t) =
      (match t with | [] => true | d :: _ => (d == SP || d == TAB) && logicalLine t) := by
  induction b with
  | nil =>
    cases t with
    | nil => simp [logicalLine]
    | cons d t' => simp [logicalLine]
  | cons c b ih =>
    have hc : c ≠ LF := fun h => hb (by simp [h])
    have hb' : LF ∉ b := fun h => hb (List.mem_cons_of_mem _ h)
    have := ih hb'
    cases b with
    | nil =>
      simp only [List.nil_append, List.cons_append] at this ⊢
      rw [logicalLine, this]
      simp [hc]
    | cons d b' =>
      simp only [List.cons_append] at this ⊢
      rw [logicalLine, this]
      simp [hc]

theorem logicalLine_prefix (p x : Bytes) (hp : LF ∉ p) (hx : x ≠ []) : logicalLine (p ++ x) = logicalLine x := by
  induction p with
  | nil => rfl
  | cons c p ih =>
    have hc : c ≠ LF := fun h => hp (by simp [h])
    have hp' : LF ∉ p := fun h => hp (List.mem_cons_of_mem _ h)
    have := ih hp'
    cases hpx : p ++ x with
    | nil => simp at hpx; exact absurd hpx.2 hx
    | cons d r =>
      rw [List.cons_append, hpx, logicalLine, ← hpx, this]
      simp [hc]

theorem line_shape (l : Bytes) (h : isLine l = true) : ∃ b, l = b ++ [LF] ∧ LF ∉ b := by
  unfold isLine at h
  simp only [Bool.and_eq_true, beq_iff_eq, Bool.not_eq_true', List.contains_eq_mem, decide_eq_false_iff_not] at h
  refine ⟨l.dropLast, ?_, h.2⟩
  have hne : l ≠ [] := by intro h0; rw [h0] at h; simp at h
  have := List.dropLast_concat_getLast hne
  rw [List.getLast?_eq_some_getLast hne] at h
  simp only [Option.some.injEq] at h
  rw [h.1] at this
  exact this.symm

/-- a line followed by continuation lines is one logical line -/
theorem logicalLine_group (l : Bytes) (cs : List Bytes) (hl : isLine l = true)
    (hcs : ∀ c ∈ cs, isCont c = true ∧ isLine c = true) : logicalLine (l ++ cs.flatten) = true := by
  induction cs generalizing l with
  | nil =>
    obtain ⟨b, rfl, hb⟩ := line_shape l hl
    simp only [List.flatten_nil, List.append_nil]
    have := logicalLine_line b [] hb
    simpa using this
  | cons c cs ih =>
    obtain ⟨b, rfl, hb⟩ := line_shape l hl
    have hc := hcs c List.mem_cons_self
    have h2 := ih c hc.2 (fun c' hc' => hcs c' (List.mem_cons_of_mem _ hc'))
    simp only [List.flatten_cons, List.append_assoc, List.singleton_append]
    rw [logicalLine_line b _ hb]
    obtain ⟨b', hb', _⟩ := line_shape c hc.2
    cases c with
    | nil => simp at hb'
    | cons d c' =>
      simp only [List.cons_append]
      have hd : (d == SP || d == TAB) = true := by simpa [isCont] using hc.1
      rw [hd]
      simpa using h2


theorem fields_ok (ls : List Bytes) (hl : ∀ l ∈ ls, isLine l = true) :
    ∀ g ∈ groups (hdr ls), hfieldValid (fieldOf g) = true ∧ logicalLine (fieldOf g) = true := by
  apply groups_hdr_ind (fun l => isLine l = true)
    (fun G => ∀ g ∈ G, hfieldValid (fieldOf g) = true ∧ logicalLine (fieldOf g) = true)
    (by simp) ?_ ls.length ls (Nat.le_refl _) hl
  intro nl cs G hs hq hcs hG g hg
  simp only [List.mem_cons] at hg
  rcases hg with hg | hg
  · subst hg
    have hgrp := logicalLine_group nl cs hq hcs
    by_cases hf : isFromLine nl = true
    · simp only [fieldOf, hf, if_true]
      refine ⟨hfieldValid_mbox _, ?_⟩
      rw [logicalLine_prefix _ _ (by rw [mbox_bytes]; decide) ?_]
      · exact hgrp
      · obtain ⟨b, hb, _⟩ := line_shape nl hq
        rw [hb]; simp
    · have hf' : isFromLine nl = false := by simpa using hf
      have hv : hfieldValid nl = true := by simpa [isStart, hf'] using hs
      simp only [fieldOf, hf', Bool.false_eq_true, if_false, List.nil_append]
      exact ⟨hfieldValid_append _ _ hv, hgrp⟩
  · exact hG g hg

/-- what "one logical line" means, declaratively: the text ends in LF and every LF that is not the last byte
is followed by SP or TAB -/
theorem logicalLine_lf : ∀ (f : Bytes), logicalLine f = true →
    f.getLast? = some LF ∧
    ∀ pre post, f = pre ++ LF :: post → post = [] ∨ post.head? = some SP ∨ post.head? = some TAB
  | [], h => by simp [logicalLine] at h
  | [c], h => by
    simp only [logicalLine, beq_iff_eq] at h
    subst h
    refine ⟨rfl, ?_⟩
    intro pre post e
    cases pre with
    | nil => simp at e; exact Or.inl e
    | cons x pre' => simp at e
  | c :: d :: r, h => by
    simp only [logicalLine, Bool.and_eq_true, Bool.or_eq_true, bne_iff_ne, ne_eq, beq_iff_eq] at h
    obtain ⟨ih1, ih2⟩ := logicalLine_lf (d :: r) h.2
    refine ⟨by rw [List.getLast?_cons_cons]; exact ih1, ?_⟩
    intro pre post e
    cases pre with
    | nil =>
      simp only [List.nil_append, List.cons.injEq] at e
      obtain ⟨hc, hp⟩ := e
      subst hp
      right
      rcases h.1 with (h1 | h1) | h1
      · exact absurd hc h1
      · left; simp [h1]
      · right; simp [h1]
    | cons x pre' =>
      simp only [List.cons_append, List.cons.injEq] at e
      exact ih2 pre' post e.2

/-! ### the concatenation law, executable form -/

theorem isPrefixOf_self_append (a b : Bytes) : a.isPrefixOf (a ++ b) = true := by
  induction a with
  | nil => simp
  | cons c a ih => simp [ih]

theorem fromLine_append (s t : Bytes) (h : isFromLine s = true) : isFromLine (s ++ t) = true := by
  unfold isFromLine at h ⊢
  rw [List.isPrefixOf_iff_prefix] at h ⊢
  exact List.IsPrefix.trans h (List.prefix_append s t)

theorem fromLine_head (s : Bytes) (h : isFromLine s = true) : ∃ t, s = 70 :: t := by
  unfold isFromLine at h
  rw [from_bytes, List.isPrefixOf_iff_prefix] at h
  obtain ⟨t, ht⟩ := h
  exact ⟨_, ht.symm⟩

theorem consume_groups (G : List (List Bytes)) (hG : ∀ g ∈ G, ∃ s cs, g = s :: cs) (rem : Bytes) :
    consume ((G.map List.flatten).flatten ++ rem) (G.map fieldOf) = some rem := by
  induction G with
  | nil => simp [consume]
  | cons g G ih =>
    obtain ⟨s, cs, rfl⟩ := hG g List.mem_cons_self
    have ih' := ih (fun g hg => hG g (List.mem_cons_of_mem _ hg))
    simp only [List.map_cons, List.flatten_cons, List.append_assoc]
    generalize hX : (G.map List.flatten).flatten ++ rem = X at ih' ⊢
    by_cases hf : isFromLine s = true
    · obtain ⟨t, ht⟩ := fromLine_head s hf
      have hfield : fieldOf (s :: cs) = mboxName ++ (s ++ cs.flatten) := by simp [fieldOf, hf]
      have hnp : (fieldOf (s :: cs)).isPrefixOf (s ++ (cs.flatten ++ X)) = false := by
        rw [hfield, mbox_bytes, ht]
        simp [List.isPrefixOf]
      have hun : unalter (fieldOf (s :: cs)) = s ++ cs.flatten := by
        unfold unalter
        rw [hfield]
        have h1 : mboxName.isPrefixOf (mboxName ++ (s ++ cs.flatten)) = true := isPrefixOf_self_append _ _
        have h2 : (mboxName ++ (s ++ cs.flatten)).drop mboxName.length = s ++ cs.flatten := List.drop_left
        simp only [h1, h2, fromLine_append s _ hf, Bool.and_self, if_true]
      rw [consume, hnp, hun]
      have h3 : (s ++ cs.flatten).isPrefixOf (s ++ (cs.flatten ++ X)) = true := by
        rw [← List.append_assoc]; exact isPrefixOf_self_append _ _
      have h4 : (s ++ (cs.flatten ++ X)).drop (s ++ cs.flatten).length = X := by
        rw [← List.append_assoc]; exact List.drop_left
      simp only [h3, h4, Bool.false_eq_true, if_false, if_true]
      exact ih'
    · have hf' : isFromLine s = false := by simpa using hf
      have hfield : fieldOf (s :: cs) = s ++ cs.flatten := by simp [fieldOf, hf']
      have h3 : (s ++ cs.flatten).isPrefixOf (s ++ (cs.flatten ++ X)) = true := by
        rw [← List.append_assoc]; exact isPrefixOf_self_append _ _
      have h4 : (s ++ (cs.flatten ++ X)).drop (s ++ cs.flatten).length = X := by
        rw [← List.append_assoc]; exact List.drop_left
      rw [consume, hfield]
      simp only [h3, h4, if_true]
      exact ih'

/-- the byte-level concatenation law of the description -/
theorem spec_concat (inp : Bytes) :
    ((groups (hdr (linesOf inp))).map List.flatten).flatten ++ (rest (linesOf inp)).flatten = norm inp := by
  rw [← linesOf_flatten]
  conv => rhs; rw [← groups_hdr_rest (linesOf inp)]
  simp [List.flatten_flatten]

theorem bodyOf_flatten (r : List Bytes) (hr : ∀ l ∈ r, isLine l = true) :
    (bodyOf r).flatten =
      (if r.flatten.isEmpty || r.flatten.head? == some LF then r.flatten else LF :: r.flatten) := by
  cases r with
  | nil => simp [bodyOf]
  | cons l r' =>
    obtain ⟨b, hb, hnb⟩ := line_shape l (hr l List.mem_cons_self)
    subst hb
    unfold bodyOf
    cases b with
    | nil => simp
    | cons c b' =>
      have hc : c ≠ LF := fun h => hnb (by simp [h])
      simp [hc]

theorem spec_reassembles (inp : Bytes) : reassembles inp (specFields inp) (specBody inp) = true := by
  unfold reassembles specFields specBody
  rw [← spec_concat inp, consume_groups _ (fun g hg => by
    obtain ⟨s, cs, h, _⟩ := groups_shape _ g hg; exact ⟨s, cs, h⟩)]
  simp only []
  rw [bodyOf_flatten _ (fun l hl => linesOf_isLine inp l (by
    have := groups_hdr_rest (linesOf inp)
    rw [← this]; exact List.mem_append_right _ hl))]
  split <;> simp

end Nq.Lemmas.C17HB
