/- Lemmas for C20 (e): the cdb reader (Nq.Users.cdbSeek, the model of cdb_seek.c tied by C11's and C20's harnesses)
   only ever reports data whose record header and key were read from inside the file. Core Lean only. -/
import Nq.Users

namespace Nq.Lemmas.C20
open Nq Nq.Users

theorem read8_in (f : Bytes) (o : Nat) (r : Nat × Nat) (h : read8 f o = some r) : o + 8 ≤ f.length := by
  unfold read8 at h
  split at h
  · rename_i a b c d a' b' c' d' rest heq
    have := congrArg List.length heq
    simp only [List.length_drop, List.length_cons] at this
    omega
  · cases h

theorem matchAt_in (f : Bytes) (fuel off : Nat) (key : Bytes) (hf : key.length < fuel)
    (h : matchAt f fuel off key = .yes) : key = [] ∨ off + key.length ≤ f.length := by
  induction fuel generalizing off key with
  | zero => omega
  | succ fuel ih =>
    unfold matchAt at h
    by_cases hk : key.isEmpty = true
    · left; exact List.isEmpty_iff.mp hk
    · right
      rw [if_neg hk] at h
      simp only at h
      have hne : key ≠ [] := fun e => hk (by rw [e]; rfl)
      have hpos : 0 < key.length := List.length_pos_iff.mpr hne
      by_cases hc : ((f.drop off).take (min 32 key.length)).length = min 32 key.length
      · rw [if_pos hc] at h
        by_cases he : ((f.drop off).take (min 32 key.length) == key.take (min 32 key.length)) = true
        · rw [if_pos he] at h
          have hl : (key.drop (min 32 key.length)).length < fuel := by
            simp only [List.length_drop]; omega
          have := ih (off + min 32 key.length) (key.drop (min 32 key.length)) hl h
          simp only [List.length_take, List.length_drop] at hc
          rcases this with e | e
          · have := congrArg List.length e
            simp only [List.length_drop, List.length_nil] at this
            omega
          · simp only [List.length_drop] at e; omega
        · rw [if_neg he] at h; cases h
      · rw [if_neg hc] at h; cases h

theorem probe_in (f key : Bytes) (h pos lenhash fuel h2 dpos dlen : Nat)
    (hr : probe f key h pos lenhash fuel h2 = .found dpos dlen) :
    dpos ≤ f.length ∧ key.length + 8 ≤ dpos := by
  induction fuel generalizing h2 with
  | zero => simp [probe] at hr
  | succ fuel ih =>
    unfold probe at hr
    split at hr
    · cases hr
    · rename_i sh poskd hread
      simp only at hr
      by_cases hz : poskd = 0
      · rw [if_pos hz] at hr; cases hr
      · rw [if_neg hz] at hr
        by_cases hs : sh = h
        · rw [if_pos hs] at hr
          split at hr
          · cases hr
          · rename_i kl dl hread2
            have hin := read8_in f poskd _ hread2
            by_cases hk : kl = key.length
            · rw [if_pos hk] at hr
              split at hr
              · cases hr
              · rename_i hm
                cases hr
                rcases matchAt_in f (key.length + 1) (poskd + 8) key (by omega) hm with e | e
                · rw [e]; simp; omega
                · omega
              · exact ih _ hr
            · rw [if_neg hk] at hr; exact ih _ hr
        · rw [if_neg hs] at hr; exact ih _ hr

/-- cdb_seek reports a record only after reading its 8-byte header and its whole key from inside the file -/
theorem cdbSeek_in (f key : Bytes) (dpos dlen : Nat) (h : cdbSeek f key = .found dpos dlen) :
    dpos ≤ f.length ∧ key.length + 8 ≤ dpos := by
  unfold cdbSeek at h
  simp only [] at h
  cases hr : read8 f (8 * ((hashKey key).toNat % 256)) with
  | none => rw [hr] at h; cases h
  | some pl =>
    obtain ⟨pos, lenhash⟩ := pl
    rw [hr] at h
    simp only at h
    by_cases hz : lenhash = 0
    · rw [if_pos hz] at h; cases h
    · rw [if_neg hz] at h; exact probe_in _ _ _ _ _ _ _ _ _ h

end Nq.Lemmas.C20
