/-
  C17 lemmas: the tokenizer run on what the quoting functions write (header side).
-/
import Nq.Lemmas.C17Tables
import Nq.Spec.Addr

namespace Nq.Lemmas.C17
open Nq Nq.Quote Nq.Token822 Nq.Spec.Addr

theorem prun_cons (s : PSt) (c : Byte) (r : Bytes) :
    prun s (c :: r) = match prun (pstep s c).1 r with
      | some ts => some ((pstep s c).2 ++ ts)
      | none => none := rfl

/-- unquoted-safe byte other than '.' -/
def plainByte (c : Byte) : Bool := okChar c && c != DOT

theorem plain_facts {c : Byte} (h : plainByte c = true) :
    specialTok c = none ∧ isWs c = false ∧ c ≠ RPAR ∧ c ≠ RBRK ∧ c ≠ LPAR ∧ c ≠ Token822.DQ ∧ c ≠ LBRK ∧
    c ≠ Token822.BSL ∧ atomok c = true ∧ atomBad c = false ∧ c ≠ 62 ∧ c ≠ AT ∧ c ≠ LF := by
  have := plainFacts_all c
  simp only [plainByte] at h
  simp only [plainFacts, h, Bool.not_true, Bool.false_or] at this
  simp only [Bool.and_eq_true, Option.isNone_iff_eq_none, Bool.not_eq_true', bne_iff_ne, ne_eq] at this
  obtain ⟨⟨⟨⟨⟨⟨⟨⟨⟨⟨⟨⟨h1, h2⟩, h3⟩, h4⟩, h5⟩, h6⟩, h7⟩, h8⟩, h9⟩, h10⟩, h11⟩, h12⟩, h13⟩ := this
  exact ⟨h1, h2, h3, h4, h5, h6, h7, h8, h9, h10, h11, h12, h13⟩

theorem stepTop_plain {c : Byte} (h : plainByte c = true) : stepTop c = (.atom [c] false, []) := by
  obtain ⟨h1, h2, h3, h4, h5, h6, h7, h8, _, _, _, _, _⟩ := plain_facts h
  simp [stepTop, h1, h2, h3, h4, h5, h6, h7, h8]

theorem pstep_atom_plain {c : Byte} (acc : Bytes) (h : plainByte c = true) :
    pstep (.atom acc false) c = (.atom (acc ++ [c]) false, []) := by
  obtain ⟨_, _, _, _, _, _, _, h8, h9, _, _, _, _⟩ := plain_facts h
  simp [pstep, h8, h9]

theorem atomTok_clean (acc : Bytes) (h : acc.all plainByte = true) : atomTok acc = .atom acc := by
  have : acc.any atomBad = false := by
    rw [List.any_eq_false]
    intro c hc
    have := (plain_facts (List.all_eq_true.mp h c hc)).2.2.2.2.2.2.2.2.2.1
    simp [this]
  simp [atomTok, this]

theorem pstep_atom_stop {c : Byte} (acc : Bytes) (h : atomok c = false) :
    pstep (.atom acc false) c = ((stepTop c).1, atomTok acc :: (stepTop c).2) := by
  simp [pstep, h]

/-- **the tokenizer on a run of unquoted-safe bytes** followed by `rest` (empty, or starting with a byte
that ends an atom): the tokens are `dotAtoms` of the run, then those of `rest` -/
theorem plain_run (s : Bytes) (hs : s.all okChar = true) (rest : Bytes) (ts : List Tok)
    (hrest : rest = [] ∨ ∃ c r, rest = c :: r ∧ atomok c = false)
    (hts : prun .top rest = some ts) :
    prun .top (s ++ rest) = some (dotAtomsAux s [] ++ ts) ∧
    ∀ cur, cur ≠ [] → cur.all plainByte = true →
      prun (.atom cur false) (s ++ rest) = some (dotAtomsAux s cur ++ ts) := by
  induction s with
  | nil =>
    refine ⟨by simp [dotAtomsAux, hts], ?_⟩
    intro cur hne hcur
    have hd : dotAtomsAux [] cur = [.atom cur] := by
      cases cur with
      | nil => exact absurd rfl hne
      | cons x xs => simp [dotAtomsAux]
    rw [hd]
    rcases hrest with rfl | ⟨c, r, rfl, hc⟩
    · simp [prun, pfinish] at hts ⊢
      subst hts
      simp [atomTok_clean cur hcur]
    · rw [List.nil_append, prun_cons, pstep_atom_stop cur hc]
      rw [prun_cons] at hts
      simp only [pstep] at hts
      cases hp : prun (stepTop c).1 r with
      | none => simp [hp] at hts
      | some t =>
        simp only [hp] at hts ⊢
        simp only [Option.some.injEq] at hts
        subst hts
        simp [atomTok_clean cur hcur]
  | cons c s ih =>
    have hc : okChar c = true := by simp at hs; exact hs.1
    have hs' : s.all okChar = true := by simp at hs ⊢; exact hs.2
    obtain ⟨ih1, ih2⟩ := ih hs'
    by_cases hd : c = DOT
    · subst hd
      refine ⟨?_, ?_⟩
      · rw [List.cons_append, prun_cons]
        simp only [pstep, stepTop_dot, ih1]
        simp [dotAtomsAux]
      · intro cur hne hcur
        rw [List.cons_append, prun_cons, pstep_atom_stop cur dot_at_facts.2.2.1]
        simp only [stepTop_dot, ih1]
        have : cur.isEmpty = false := by cases cur <;> simp_all
        simp [dotAtomsAux, this, atomTok_clean cur hcur]
    · have hp : plainByte c = true := by simp [plainByte, hc, hd]
      refine ⟨?_, ?_⟩
      · rw [List.cons_append, prun_cons]
        simp only [pstep, stepTop_plain hp]
        rw [ih2 [c] (by simp) (by simp [hp])]
        simp [dotAtomsAux, hd]
      · intro cur hne hcur
        rw [List.cons_append, prun_cons, pstep_atom_plain cur hp]
        simp only []
        rw [ih2 (cur ++ [c]) (by simp) (by simp [hcur, hp])]
        simp [dotAtomsAux, hd]


theorem unquote_append (a b : List Tok) : unquote (a ++ b) = unquote a ++ unquote b := by
  induction a with
  | nil => simp [unquote]
  | cons t a ih => simp [unquote, ih]

theorem unquote_dotAtomsAux (s cur : Bytes) : unquote (dotAtomsAux s cur) = cur ++ s := by
  induction s generalizing cur with
  | nil => cases cur <;> simp [dotAtomsAux, unquote, unqTok]
  | cons c s ih =>
    by_cases hd : c = DOT
    · subst hd
      cases cur <;> simp [dotAtomsAux, unquote, unqTok, ih, unquote_append]
    · simp [dotAtomsAux, hd, ih]

theorem dotAtomsAux_domainTok (s cur : Bytes) : (dotAtomsAux s cur).all isDomainTok = true := by
  induction s generalizing cur with
  | nil => cases cur <;> simp [dotAtomsAux, isDomainTok]
  | cons c s ih =>
    by_cases hd : c = DOT
    · subst hd
      cases cur <;> simp [dotAtomsAux, isDomainTok, ih]
    · simp [dotAtomsAux, hd, ih]

theorem dotAtomsAux_noAt (s cur : Bytes) : ∀ t ∈ dotAtomsAux s cur, t ≠ Tok.at := by
  intro t ht h
  have := List.all_eq_true.mp (dotAtomsAux_domainTok s cur) t ht
  subst h
  simp [isDomainTok] at this

/-! ### quoted strings and domain literals -/

theorem escByte_cases (c : Byte) :
    (escByte c = [Quote.BSL, c] ∧ (c = CR ∨ c = LF ∨ c = Quote.DQ ∨ c = Quote.BSL)) ∨
    (escByte c = [c] ∧ c ≠ CR ∧ c ≠ LF ∧ c ≠ Quote.DQ ∧ c ≠ Quote.BSL) := by
  have h := quoteEsc_spec c
  simp only [beq_iff_eq] at h
  unfold escByte
  rw [h]
  by_cases h1 : c = CR
  · left; simp [h1]
  · by_cases h2 : c = LF
    · left; simp [h2]
    · by_cases h3 : c = Quote.DQ
      · left; simp [h3]
      · by_cases h4 : c = Quote.BSL
        · left; simp [h4]
        · right; simp [h1, h2, h3, h4]

/-- the tokenizer inside a quoted string written by `doit()` -/
theorem quote_run (l acc rest : Bytes) :
    prun (.quote acc false) (escape l ++ Token822.DQ :: rest) =
      match prun .top rest with
      | some ts => some (Tok.quote (acc ++ l) :: ts)
      | none => none := by
  induction l generalizing acc with
  | nil =>
    simp only [escape, List.nil_append, List.append_nil]
    rw [prun_cons]
    simp [pstep]
  | cons c l ih =>
    rcases escByte_cases c with ⟨he, _⟩ | ⟨he, _, _, h3, h4⟩
    · simp only [escape, he, List.cons_append, List.nil_append]
      have h1 : pstep (.quote acc false) Quote.BSL = (.quote acc true, []) := by
        simp [pstep, Quote.BSL, Token822.DQ, Token822.BSL]
      have h2 : pstep (.quote acc true) c = (.quote (acc ++ [c]) false, []) := by simp [pstep]
      rw [prun_cons, h1]
      simp only []
      rw [prun_cons, h2]
      simp only []
      rw [ih (acc ++ [c])]
      cases prun .top rest <;> simp
    · simp only [escape, he, List.cons_append, List.nil_append]
      have h1 : pstep (.quote acc false) c = (.quote (acc ++ [c]) false, []) := by
        have h3' : c ≠ Token822.DQ := h3
        have h4' : c ≠ Token822.BSL := h4
        simp [pstep, h3', h4']
      rw [prun_cons, h1]
      simp only []
      rw [ih (acc ++ [c])]
      cases prun .top rest <;> simp

/-- the tokenizer inside a domain literal without `]` and backslash -/
theorem lit_run (l acc rest : Bytes) (hl : l.all (fun c => c != 93 && c != 92 && c != 64) = true) :
    prun (.lit acc false) (l ++ RBRK :: rest) =
      match prun .top rest with
      | some ts => some (Tok.literal (acc ++ l) :: ts)
      | none => none := by
  induction l generalizing acc with
  | nil =>
    simp only [List.nil_append, List.append_nil]
    rw [prun_cons]
    simp [pstep]
  | cons c l ih =>
    simp only [List.all_cons, Bool.and_eq_true, bne_iff_ne, ne_eq] at hl
    obtain ⟨⟨⟨h1, h2⟩, _⟩, hl'⟩ := hl
    have hs : pstep (.lit acc false) c = (.lit (acc ++ [c]) false, []) := by
      have h1' : c ≠ RBRK := h1
      have h2' : c ≠ Token822.BSL := h2
      simp [pstep, h1', h2']
    rw [List.cons_append, prun_cons, hs]
    simp only []
    rw [ih (acc ++ [c]) (by simpa using hl')]
    cases prun .top rest <;> simp

/-! ### quote2 splits where the address was put together -/

theorem splitLast_none (c : Byte) (d : Bytes) (h : c ∉ d) : splitLast c d = none := by
  induction d with
  | nil => rfl
  | cons x d ih =>
    have hx : x ≠ c := fun e => h (by simp [e])
    have hd : c ∉ d := fun e => h (by simp [e])
    simp [splitLast, ih hd, hx]

theorem splitLast_append (c : Byte) (l d : Bytes) (h : c ∉ d) :
    splitLast c (l ++ c :: d) = some (l, c :: d) := by
  induction l with
  | nil => simp [splitLast, splitLast_none c d h]
  | cons x l ih => simp [splitLast, ih]

theorem quote2_split (l d : Bytes) (h : AT ∉ d) : quote2 (l ++ AT :: d) = quote l ++ AT :: d := by
  unfold quote2
  cases hl : l ++ AT :: d with
  | nil => simp at hl
  | cons x xs => rw [← hl]; simp [splitLast_append AT l d h]

/-! ### the shape of an unquoted local part -/

def goodDots (s cur : Bytes) : Prop :=
  (cur ≠ [] ∨ s.head? ≠ some DOT) ∧ (cur ++ s ≠ []) ∧ (cur ++ s).getLast? ≠ some DOT ∧ hasDotDot s = false

theorem hasDotDot_tail (c : Byte) (s : Bytes) (h : hasDotDot (c :: s) = false) : hasDotDot s = false := by
  cases s with
  | nil => rfl
  | cons b s => simp [hasDotDot] at h ⊢; exact h.2

theorem dotAtoms_shape (s cur : Bytes) (h : goodDots s cur) : isDotAtomToks (dotAtomsAux s cur) = true := by
  induction s generalizing cur with
  | nil =>
    obtain ⟨_, h2, _, _⟩ := h
    cases cur with
    | nil => simp at h2
    | cons x xs => simp [dotAtomsAux, isDotAtomToks]
  | cons c s ih =>
    obtain ⟨h1, h2, h3, h4⟩ := h
    by_cases hd : c = DOT
    · subst hd
      have hcur : cur ≠ [] := by
        rcases h1 with h1 | h1
        · exact h1
        · simp at h1
      have hs : s ≠ [] := by
        intro e; subst e
        simp at h3
      have hg : goodDots s [] := by
        refine ⟨Or.inr ?_, by simpa using hs, ?_, hasDotDot_tail _ _ h4⟩
        · cases s with
          | nil => simp
          | cons b s => simp [hasDotDot] at h4; simpa using h4.1
        · have : (cur ++ DOT :: s).getLast? = s.getLast? := by
            cases s with
            | nil => exact absurd rfl hs
            | cons b s =>
              simp only [List.getLast?_append, List.getLast?_cons_cons]
              cases hx : (b :: s).getLast? with
              | none => simp at hx
              | some x => simp
          rw [this] at h3
          simpa using h3
      have := ih [] hg
      cases cur with
      | nil => exact absurd rfl hcur
      | cons x xs => simpa [dotAtomsAux, isDotAtomToks] using this
    · have hg : goodDots s (cur ++ [c]) := by
        refine ⟨Or.inl (by simp), by simp, ?_, hasDotDot_tail _ _ h4⟩
        simpa using h3
      simpa [dotAtomsAux, hd] using ih (cur ++ [c]) hg

theorem goodDots_of_noNeed (l : Bytes) (h : quoteNeed l = false) : goodDots l [] ∧ l.all okChar = true := by
  simp only [quoteNeed, Bool.or_eq_false_iff, Bool.not_eq_false', beq_eq_false_iff_ne, ne_eq] at h
  obtain ⟨⟨⟨⟨h1, h2⟩, h3⟩, h4⟩, h5⟩ := h
  refine ⟨⟨Or.inr h3, ?_, by simpa using h4, h5⟩, h2⟩
  cases l <;> simp_all

theorem isLocalToks_of_dotAtom (loc : List Tok) (h : isDotAtomToks loc = true) : isLocalToks loc = true := by
  unfold isLocalToks
  split
  · rfl
  · exact h

theorem splitAtTok_append (a b : List Tok) (h : ∀ t ∈ a, t ≠ Tok.at) : splitAtTok (a ++ .at :: b) = some (a, b) := by
  induction a with
  | nil => simp [splitAtTok]
  | cons t a ih =>
    have ht : t ≠ .at := h t (by simp)
    have := ih (fun t' ht' => h t' (by simp [ht']))
    simp [splitAtTok, ht, this]

/-! ### domains -/

theorem getLast_split (r : Bytes) (h : r.getLast? = some 93) : r = r.dropLast ++ [93] := by
  have hne : r ≠ [] := by intro e; subst e; simp at h
  have h2 := List.dropLast_concat_getLast hne
  rw [List.getLast?_eq_some_getLast hne] at h
  simp only [Option.some.injEq] at h
  rw [h] at h2
  exact h2.symm

theorem at_not_in_sane (d : Bytes) (hd : saneDomain d = true) : AT ∉ d := by
  simp only [saneDomain, Bool.or_eq_true] at hd
  rcases hd with hd | hd
  · intro hmem
    have := List.all_eq_true.mp hd AT hmem
    simp [dot_at_facts.2.2.2.2.1] at this
  · unfold isDomainLiteral at hd
    split at hd
    · rename_i r
      simp only [Bool.and_eq_true, beq_iff_eq] at hd
      obtain ⟨h1, h2⟩ := hd
      have hr : r = r.dropLast ++ [93] := getLast_split r h1
      intro hmem
      rw [hr] at hmem
      simp only [List.mem_cons, List.mem_append, List.not_mem_nil, or_false] at hmem
      rcases hmem with hmem | hmem | hmem
      · simp [AT] at hmem
      · have := List.all_eq_true.mp h2 AT hmem
        simp [AT] at this
      · simp [AT] at hmem
    · simp at hd

theorem domain_run (d : Bytes) (hd : saneDomain d = true) :
    ∃ dts, prun .top d = some dts ∧ unquote dts = d ∧ dts.all isDomainTok = true := by
  simp only [saneDomain, Bool.or_eq_true] at hd
  rcases hd with hd | hd
  · have := (plain_run d hd [] [] (Or.inl rfl) (by simp [prun, pfinish])).1
    simp only [List.append_nil] at this
    exact ⟨_, this, by simpa using unquote_dotAtomsAux d [], dotAtomsAux_domainTok d []⟩
  · unfold isDomainLiteral at hd
    split at hd
    · rename_i r
      simp only [Bool.and_eq_true, beq_iff_eq] at hd
      obtain ⟨h1, h2⟩ := hd
      have hr : r = r.dropLast ++ [93] := getLast_split r h1
      refine ⟨[.literal r.dropLast], ?_, ?_, by simp [isDomainTok]⟩
      · rw [hr]
        have e : (91 : Byte) :: (r.dropLast ++ [93]) = LBRK :: (r.dropLast ++ RBRK :: []) := rfl
        rw [List.dropLast_concat, e, prun_cons]
        simp only [pstep, stepTop_lbrk]
        rw [lit_run r.dropLast [] [] h2]
        simp [prun, pfinish]
      · conv => rhs; rw [hr]
        simp [unquote, unqTok, LBRK, RBRK]
    · simp at hd

/-- **header round trip, core form** -/
theorem header_roundtrip_core (l d : Bytes) (hd : saneDomain d = true) :
    ∃ ts, parse (quote2 (l ++ AT :: d)) = some ts ∧ unquote ts = l ++ AT :: d ∧ mailboxShape ts = true := by
  obtain ⟨dts, hd1, hd2, hd3⟩ := domain_run d hd
  have hat : prun .top (AT :: d) = some (.at :: dts) := by
    rw [prun_cons]; simp only [pstep, stepTop_at, hd1]; simp
  rw [quote2_split l d (at_not_in_sane d hd)]
  unfold parse quote
  by_cases hn : quoteNeed l = true
  · simp only [hn, if_true]
    refine ⟨.quote l :: .at :: dts, ?_, ?_, ?_⟩
    · have e : doit l ++ AT :: d = Token822.DQ :: (escape l ++ Token822.DQ :: (AT :: d)) := by
        simp [doit, Quote.DQ, Token822.DQ]
      rw [e, prun_cons]
      simp only [pstep, stepTop_dq]
      rw [quote_run l [] (AT :: d), hat]
      simp
    · simp [unquote, unqTok, hd2]
    · simp [mailboxShape, splitAtTok, isLocalToks, hd3]
  · have hn' : quoteNeed l = false := by simpa using hn
    obtain ⟨hg, hok⟩ := goodDots_of_noNeed l hn'
    simp only [hn', Bool.false_eq_true, if_false]
    refine ⟨dotAtomsAux l [] ++ .at :: dts, ?_, ?_, ?_⟩
    · exact (plain_run l hok (AT :: d) (.at :: dts) (Or.inr ⟨AT, d, rfl, dot_at_facts.2.2.2.1⟩) hat).1
    · rw [unquote_append, unquote_dotAtomsAux]
      simp [unquote, unqTok, hd2]
    · simp only [mailboxShape, splitAtTok_append _ _ (dotAtomsAux_noAt l [])]
      simp [isLocalToks_of_dotAtom _ (dotAtoms_shape l [] hg), hd3]

end Nq.Lemmas.C17
