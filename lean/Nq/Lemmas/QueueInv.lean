/-
  The inductive invariant of the qmail-queue acceptor, coupling each control point of `main` to
  the state of the queue entry it is building.
-/
import Nq.QueueInject

namespace Nq.Lemmas.QI
open Nq Nq.QueueInject

/-- which of the four names exist -/
def N (fs : FS) (pid mess intd todo : Bool) : Prop :=
  fs.pidName = pid ∧ fs.messName = mess ∧ fs.intdName = intd ∧ fs.todoName = todo

/-- the message file is complete and synced -/
def Complete (p : Params) (fs : FS) : Prop := fs.messF = { cur := p.received ++ p.msg, synced := true }

/-- the envelope file is complete and synced, and the envelope was well-formed -/
def EnvOk (p : Params) (s : St) (fs : FS) : Prop :=
  (scan (p.env.take s.envRead)).1 = .done ∧
  fs.intdF = { cur := p.hdr ++ (scan (p.env.take s.envRead)).2, synced := true }

/-- states in which the entry is not visible and only collectable leftovers exist -/
def Leftover (fs : FS) : Prop :=
  fs.todoName = false ∧ (fs.intdName = true → fs.messName = true) ∧ (fs.pidName = true → fs.intdName = false)

def Queued (p : Params) (s : St) (fs : FS) : Prop := N fs false true true true ∧ Complete p fs ∧ EnvOk p s fs

/-- the shape of the names of one entry at any instant: the complete entry, or a leftover the
daemon collects -/
def Names (fs : FS) : Prop :=
  (fs.todoName = true → fs.intdName = true ∧ fs.messName = true ∧ fs.pidName = false) ∧
  (fs.intdName = true → fs.messName = true) ∧ (fs.pidName = true → fs.intdName = false)

/-- what is known when the process is stopped at an arbitrary point by a signal handler (which does
not clean up): if the entry is visible it is complete and durable; the names are collectable -/
def Weak (p : Params) (s : St) (fs : FS) : Prop := (fs.todoName = true → Queued p s fs) ∧ Names fs

def QInv (p : Params) (s : St) (fs : FS) : Prop :=
  match s.pc with
  | .start => N fs false false false false ∧ s.madeMess = false ∧ s.madeIntd = false ∧ s.messW = [] ∧ s.intdW = []
  | .pidOpen _ => N fs false false false false ∧ s.madeMess = false ∧ s.madeIntd = false ∧ s.messW = [] ∧ s.intdW = []
  | .fstat => N fs true false false false ∧ s.madeMess = false ∧ s.madeIntd = false ∧ s.messW = [] ∧ s.intdW = [] ∧ fs.messF.cur = []
  | .linkMess => N fs true false false false ∧ s.madeMess = false ∧ s.madeIntd = false ∧ s.messW = [] ∧ s.intdW = [] ∧ fs.messF.cur = []
  | .unlinkPid => N fs true true false false ∧ s.madeMess = false ∧ s.madeIntd = false ∧ s.messW = [] ∧ s.intdW = [] ∧ fs.messF.cur = []
  | .messCopy => N fs false true false false ∧ s.madeMess = true ∧ s.madeIntd = false ∧ s.intdW = [] ∧ fs.messF.cur = s.messW
  | .intdOpen => N fs false true false false ∧ s.madeMess = true ∧ s.madeIntd = false ∧ s.intdW = [] ∧ Complete p fs
  | .envCopy => N fs false true true false ∧ s.madeMess = true ∧ s.madeIntd = true ∧ Complete p fs ∧ fs.intdF.cur = s.intdW
  | .linkTodo => N fs false true true false ∧ Complete p fs ∧ EnvOk p s fs
  | .trig => Queued p s fs
  | .trigW => Queued p s fs
  | .trigC => Queued p s fs
  | .clIntdTrunc c => c ≠ 0 ∧ N fs false true fs.intdName false ∧ s.madeMess = true
  | .clIntdUnlink c => c ≠ 0 ∧ N fs false true fs.intdName false ∧ s.madeMess = true
  | .clMessTrunc c => c ≠ 0 ∧ N fs false fs.messName false false
  | .clMessUnlink c => c ≠ 0 ∧ N fs false fs.messName false false
  | .dying c => if c = 0 then Queued p s fs else Leftover fs
  | .exited c => if c = 0 then Queued p s fs else if c = 52 ∨ c = 81 then Weak p s fs else Leftover fs
  | .handler c => (c = 52 ∨ c = 81) ∧ Weak p s fs

/-- in every control point: the entry is visible only when it is complete and durable -/
theorem inv_todo (p : Params) (s : St) (fs : FS) (h : QInv p s fs) (ht : fs.todoName = true) :
    Queued p s fs := by
  unfold QInv at h
  split at h <;> try (simp [N, ht] at h)
  all_goals first
    | exact h
    | exact h.2.1 ht
    | (split at h
       · exact h
       · split at h
         · exact h.1 ht
         · simp [Leftover, ht] at h)
    | (split at h
       · exact h
       · simp [Leftover, ht] at h)

/-- in every control point the set of names is one of the documented leftovers or the queued state -/
theorem inv_names (p : Params) (s : St) (fs : FS) (h : QInv p s fs) : Names fs := by
  unfold QInv at h
  unfold Names
  split at h <;> simp only [N, Queued, Leftover, Weak, Names] at h <;> (try split at h) <;> (try split at h) <;> simp_all

theorem weak_of_inv (p : Params) (s : St) (fs : FS) (h : QInv p s fs) : Weak p s fs :=
  ⟨inv_todo p s fs h, inv_names p s fs h⟩

theorem weak_of_leftover (p : Params) (s : St) (fs : FS) (h : Leftover fs) : Weak p s fs := by
  obtain ⟨a, b, c⟩ := h
  exact ⟨fun ht => by simp [a] at ht, fun ht => by simp [a] at ht, b, c⟩

theorem inv_init (p : Params) : QInv p {} {} := by simp [QInv, N]

theorem cleanupFrom_inv (p : Params) (s : St) (fs : FS) (c : Nat) (hc : c ≠ 0)
    (h1 : fs.pidName = false) (h2 : fs.todoName = false) (h3 : fs.messName = true)
    (h4 : s.madeMess = true) (h5 : s.madeIntd = false → fs.intdName = false) :
    QInv p (cleanupFrom s c) fs := by
  unfold cleanupFrom
  by_cases hi : s.madeIntd = true
  · simp [hi, QInv, N, hc, h1, h2, h3, h4]
  · have hi' : s.madeIntd = false := by simpa using hi
    simp [hi', h4, QInv, N, hc, h1, h2, h5 hi']

theorem step_inv (p : Params) (s s' : St) (fs : FS) (e : Ev)
    (hinv : QInv p s fs) (hacc : accept p s e = some s') : QInv p s' (apply fs e) := by
  cases e with
  | alarm n =>
    simp only [accept] at hacc
    split at hacc
    · rename_i h; cases hacc
      simp [QInv, h.1] at hinv ⊢
      simpa [apply] using hinv
    · cases hacc
  | openPid seq ok =>
    simp only [accept] at hacc
    split at hacc
    · rename_i k hpc
      simp [QInv, hpc] at hinv
      obtain ⟨⟨a, b, c, d⟩, e, f, g, h⟩ := hinv
      split at hacc
      · cases hacc
      · split at hacc
        · rename_i hok; cases hacc; subst hok
          simp [QInv, apply, N, b, c, d, e, f, g, h]
        · rename_i hok
          have hok' : ok = false := by simpa using hok
          subst hok'
          split at hacc
          · cases hacc; simp [QInv, apply, N, a, b, c, d, e, f, g, h]
          · cases hacc
            simp [QInv, apply, Leftover, a, b, c, d]
    · cases hacc
  | fstatPid ok =>
    simp only [accept] at hacc
    split at hacc
    · rename_i hpc; cases hacc
      simp [QInv, hpc] at hinv
      obtain ⟨⟨a, b, c, d⟩, e, f, g, h, i⟩ := hinv
      cases ok <;> simp [QInv, apply, N, Leftover, a, b, c, d, e, f, g, h, i]
    · cases hacc
  | linkMess ok =>
    simp only [accept] at hacc
    split at hacc
    · rename_i hpc; cases hacc
      simp [QInv, hpc] at hinv
      obtain ⟨⟨a, b, c, d⟩, e, f, g, h, i⟩ := hinv
      cases ok <;> simp [QInv, apply, N, Leftover, a, b, c, d, e, f, g, h, i]
    · cases hacc
  | unlinkPid ok =>
    simp only [accept] at hacc
    split at hacc
    · rename_i hpc; cases hacc
      simp [QInv, hpc] at hinv
      obtain ⟨⟨a, b, c, d⟩, e, f, g, h, i⟩ := hinv
      cases ok <;> simp [QInv, apply, N, Leftover, a, b, c, d, e, f, g, h, i]
    · cases hacc
  | read fd n =>
    simp only [accept] at hacc
    split at hacc
    · split at hacc
      · rename_i h; cases hacc
        simp [QInv, h.1] at hinv ⊢
        simpa [apply] using hinv
      · cases hacc
    · split at hacc
      · split at hacc
        · rename_i h
          split at hacc
          · split at hacc
            · cases hacc
            · cases hacc
            · cases hacc
            · cases hacc
              simp [QInv, h.1] at hinv
              obtain ⟨⟨a, b, c, d⟩, e, f, _, _⟩ := hinv
              exact cleanupFrom_inv p s _ 54 (by decide) (by simpa [apply] using a) (by simpa [apply] using d)
                (by simpa [apply] using b) e (by simp [f])
          · cases hacc
            simp [QInv, h.1] at hinv ⊢
            simpa [apply] using hinv
        · cases hacc
      · cases hacc
  | readErr fd intr =>
    simp only [accept] at hacc
    split at hacc
    · rename_i h; cases hacc
      simp [QInv, h.2.1] at hinv
      obtain ⟨⟨a, b, c, d⟩, e, f, _, _⟩ := hinv
      cases intr
      · exact cleanupFrom_inv p s _ 54 (by decide) (by simpa [apply] using a) (by simpa [apply] using d)
          (by simpa [apply] using b) e (by intro _; simpa [apply] using c)
      · simp [QInv, h.2.1, apply, N, *]
    · split at hacc
      · rename_i h; cases hacc
        simp [QInv, h.2] at hinv
        obtain ⟨⟨a, b, c, d⟩, e, f, g, i⟩ := hinv
        cases intr
        · exact cleanupFrom_inv p s _ 54 (by decide) (by simpa [apply] using a) (by simpa [apply] using d)
            (by simpa [apply] using b) e (by simp [f])
        · simp [QInv, h.2, apply, N, *]
      · cases hacc
  | write f bs =>
    cases f with
    | mess =>
      simp only [accept] at hacc
      split at hacc
      · rename_i h; cases hacc
        simp [QInv, h.1] at hinv ⊢
        obtain ⟨⟨a, b, c, d⟩, e, f, g, i⟩ := hinv
        simp [apply, N, a, b, c, d, e, f, g, i]
      · cases hacc
    | intd =>
      simp only [accept] at hacc
      split at hacc
      · rename_i h; cases hacc
        simp [QInv, h.1] at hinv ⊢
        obtain ⟨⟨a, b, c, d⟩, e, f, g, i⟩ := hinv
        simp [apply, N, Complete, a, b, c, d, e, f, i] at g ⊢
        exact g
      · cases hacc
  | writeErr f intr =>
    cases f with
    | mess =>
      simp only [accept] at hacc
      split at hacc
      · rename_i h; cases hacc
        simp [QInv, h] at hinv
        obtain ⟨⟨a, b, c, d⟩, e, f, _, _⟩ := hinv
        cases intr
        · exact cleanupFrom_inv p s _ 53 (by decide) (by simpa [apply] using a) (by simpa [apply] using d)
            (by simpa [apply] using b) e (by intro _; simpa [apply] using c)
        · simp [QInv, h, apply, N, *]
      · cases hacc
    | intd =>
      simp only [accept] at hacc
      split at hacc
      · rename_i h; cases hacc
        simp [QInv, h] at hinv
        obtain ⟨⟨a, b, c, d⟩, e, f, g, i⟩ := hinv
        cases intr
        · exact cleanupFrom_inv p s _ 53 (by decide) (by simpa [apply] using a) (by simpa [apply] using d)
            (by simpa [apply] using b) e (by simp [f])
        · simp [QInv, h, apply, N, *]
      · cases hacc
  | fsync f ok =>
    cases f with
    | mess =>
      simp only [accept] at hacc
      split at hacc
      · rename_i h; cases hacc
        simp [QInv, h.1] at hinv
        obtain ⟨⟨a, b, c, d⟩, e, f, g, i⟩ := hinv
        cases ok
        · exact cleanupFrom_inv p s _ 53 (by decide) (by simpa [apply] using a) (by simpa [apply] using d)
            (by simpa [apply] using b) e (by intro _; simpa [apply] using c)
        · simp [QInv, apply, N, Complete, a, b, c, d, e, f, g]
          cases hm : fs.messF with
          | mk cur synced => simp [hm] at i; simp [i, h.2.2]
      · cases hacc
    | intd =>
      simp only [accept] at hacc
      split at hacc
      · rename_i h; cases hacc
        simp [QInv, h.1] at hinv
        obtain ⟨⟨a, b, c, d⟩, e, f, g, i⟩ := hinv
        cases ok
        · exact cleanupFrom_inv p s _ 53 (by decide) (by simpa [apply] using a) (by simpa [apply] using d)
            (by simpa [apply] using b) e (by simp [f])
        · simp [QInv, apply, N, Complete, EnvOk, a, b, c, d] at g ⊢
          refine ⟨g, h.2.1, ?_⟩
          cases hm : fs.intdF with
          | mk cur synced => simp [hm] at i; simp [i, h.2.2]
      · cases hacc
  | openIntd ok =>
    simp only [accept] at hacc
    split at hacc
    · rename_i hpc; cases hacc
      simp [QInv, hpc] at hinv
      obtain ⟨⟨a, b, c, d⟩, e, f, g, h⟩ := hinv
      cases ok <;> simp [QInv, apply, N, Leftover, Complete, a, b, c, d, e, f, g] at h ⊢ <;> exact h
    · cases hacc
  | linkTodo ok =>
    simp only [accept] at hacc
    split at hacc
    · rename_i hpc; cases hacc
      simp [QInv, hpc] at hinv
      obtain ⟨⟨a, b, c, d⟩, e, f⟩ := hinv
      cases ok
      · simp [QInv, apply, Leftover, a, b, c, d]
      · simp [QInv, apply, Queued, N, Complete, EnvOk, a, b, c, d] at e f ⊢
        exact ⟨e, f⟩
    · cases hacc
  | trigOpen ok =>
    simp only [accept] at hacc
    split at hacc
    · rename_i hpc; cases hacc
      simp [QInv, hpc] at hinv
      cases ok <;> simpa [QInv, apply, Queued, EnvOk] using hinv
    · cases hacc
  | trigWrite =>
    simp only [accept] at hacc
    split at hacc
    · rename_i hpc; cases hacc
      simp [QInv, hpc] at hinv
      simpa [QInv, apply, Queued, EnvOk] using hinv
    · cases hacc
  | trigClose =>
    simp only [accept] at hacc
    split at hacc
    · rename_i hpc; cases hacc
      simp [QInv, hpc] at hinv
      simpa [QInv, apply, Queued, EnvOk] using hinv
    · cases hacc
  | ftrunc f ok =>
    cases f with
    | mess =>
      simp only [accept] at hacc
      split at hacc
      · rename_i c hpc; cases hacc
        simp [QInv, hpc] at hinv
        obtain ⟨hc, a, b, c', d⟩ := hinv
        cases ok <;> simp [QInv, apply, N, hc, a, b, c', d]
      · cases hacc
    | intd =>
      simp only [accept] at hacc
      split at hacc
      · rename_i c hpc; cases hacc
        simp [QInv, hpc] at hinv
        obtain ⟨hc, ⟨a, b, c', d⟩, e⟩ := hinv
        cases ok <;> simp [QInv, apply, N, hc, a, b, d, e]
      · cases hacc
  | unlinkF f ok =>
    cases f with
    | mess =>
      simp only [accept] at hacc
      split at hacc
      · rename_i c hpc; cases hacc
        simp [QInv, hpc] at hinv
        obtain ⟨hc, a, b, c', d⟩ := hinv
        cases ok <;> simp [QInv, apply, Leftover, hc, a, b, c', d]
      · cases hacc
    | intd =>
      simp only [accept] at hacc
      split at hacc
      · rename_i c hpc; cases hacc
        simp [QInv, hpc] at hinv
        obtain ⟨hc, ⟨a, b, c', d⟩, e⟩ := hinv
        cases ok
        · simp [QInv, apply, Leftover, hc, a, b, d]
        · simp [e, QInv, apply, N, hc, a, b, d]
      · cases hacc
  | signal g =>
    have hw := weak_of_inv p s fs hinv
    simp only [accept] at hacc
    split at hacc
    · cases hacc
    · cases hacc
    · cases hacc
    · cases hacc
      have hg : sigCode g = 52 ∨ sigCode g = 81 := by cases g <;> simp [sigCode]
      simp only [QInv, apply]
      exact ⟨hg, by simpa [Weak, Queued, EnvOk] using hw⟩
  | exit code =>
    simp only [accept] at hacc
    split at hacc
    · -- `die(c)` after `cleanup()` or from a failing call
      rename_i c hpc
      split at hacc
      · rename_i hcode; cases hacc; subst hcode
        simp only [QInv, hpc] at hinv
        simp only [QInv, apply]
        by_cases h0 : code = 0
        · simp only [h0, if_true] at hinv ⊢
          simpa [Queued, EnvOk] using hinv
        · simp only [h0, if_false] at hinv ⊢
          split
          · have := weak_of_leftover p s fs hinv
            simpa [Weak, Queued, EnvOk] using this
          · exact hinv
      · cases hacc
    · -- the signal handlers
      rename_i c hpc
      split at hacc
      · rename_i hcode; cases hacc; subst hcode
        simp only [QInv, hpc] at hinv
        obtain ⟨hc, hw⟩ := hinv
        have h0 : code ≠ 0 := by omega
        simp only [QInv, apply, h0, hc, if_true, if_false]
        simpa [Weak, Queued, EnvOk] using hw
      · cases hacc
    · -- 61 / 62 / 51 before `alarm`
      rename_i hpc
      simp [QInv, hpc] at hinv
      obtain ⟨⟨a, b, c, d⟩, _⟩ := hinv
      split at hacc
      · rename_i hcode; cases hacc
        have h0 : code ≠ 0 := by omega
        have h1 : ¬ (code = 52 ∨ code = 81) := by omega
        simp [QInv, apply, Leftover, a, b, c, d, h0, h1]
      · cases hacc
    · -- 51 in `pidopen`
      rename_i k hpc
      simp [QInv, hpc] at hinv
      obtain ⟨⟨a, b, c, d⟩, _⟩ := hinv
      split at hacc
      · cases hacc
        simp [QInv, apply, Leftover, a, b, c, d]
      · cases hacc
    · -- 51 in `fnnum`: the pid file stays
      rename_i hpc
      simp [QInv, hpc] at hinv
      obtain ⟨⟨a, b, c, d⟩, _⟩ := hinv
      split at hacc
      · rename_i hcode; cases hacc
        simp [QInv, apply, Leftover, a, b, c, d]
      · cases hacc
    · rename_i hpc
      simp [QInv, hpc] at hinv
      obtain ⟨⟨a, b, c, d⟩, _⟩ := hinv
      split at hacc
      · split at hacc
        · rename_i hcode; cases hacc
          simp [QInv, apply, Leftover, a, b, c, d]
        · cases hacc
      · split at hacc
        · rename_i hcode; cases hacc
          simp [QInv, apply, Leftover, a, b, c, d]
        · cases hacc
      · cases hacc
    · cases hacc

end Nq.Lemmas.QI

namespace Nq.Lemmas.QI
open Nq Nq.QueueInject

/-- joint run of acceptor and file system -/
theorem run_inv (p : Params) : ∀ (evs : List Ev) (s s' : St) (fs : FS),
    QInv p s fs → acceptAll p s evs = some s' → QInv p s' (applyAll fs evs)
  | [], s, s', fs, h, ha => by simp [acceptAll] at ha; subst ha; simpa [applyAll] using h
  | e :: es, s, s', fs, h, ha => by
    simp only [acceptAll] at ha
    cases h1 : accept p s e with
    | none => simp [h1] at ha
    | some s1 =>
      simp [h1] at ha
      exact run_inv p es s1 s' (apply fs e) (step_inv p s s1 fs e h h1) ha

/-- every prefix of an accepted trace is accepted -/
theorem accept_prefix (p : Params) : ∀ (evs : List Ev) (k : Nat) (s s' : St),
    acceptAll p s evs = some s' → ∃ s'', acceptAll p s (evs.take k) = some s''
  | [], k, s, s', h => ⟨s, by simp [acceptAll]⟩
  | e :: es, 0, s, s', h => ⟨s, by simp [acceptAll]⟩
  | e :: es, k + 1, s, s', h => by
    simp only [acceptAll] at h
    cases h1 : accept p s e with
    | none => simp [h1] at h
    | some s1 =>
      simp [h1] at h
      obtain ⟨s'', hs⟩ := accept_prefix p es k s1 s' h
      exact ⟨s'', by simp [acceptAll, h1, hs]⟩

/-! ### scanner facts -/

theorem scanFrom_terminal (addr : Nat) (s : SSt) (w : Bytes) (h : s = .done ∨ s = .bad ∨ s = .long) :
    scanFrom addr s w = (s, []) := by
  induction w with
  | nil => simp [scanFrom]
  | cons c w ih => rcases h with rfl | rfl | rfl <;> simp [scanFrom, sstep, ih]

theorem scanFrom_append (addr : Nat) : ∀ (a b : Bytes) (s : SSt),
    scanFrom addr s (a ++ b) =
      ((scanFrom addr (scanFrom addr s a).1 b).1, (scanFrom addr s a).2 ++ (scanFrom addr (scanFrom addr s a).1 b).2)
  | [], b, s => by simp [scanFrom]
  | c :: a, b, s => by
    simp only [List.cons_append, scanFrom]
    rw [scanFrom_append addr a b]
    simp

/-- a verdict reached on a prefix of the envelope stream is the verdict on the whole stream -/
theorem scan_take (env : Bytes) (k : Nat) (h : (scan (env.take k)).1 = .done ∨ (scan (env.take k)).1 = .bad ∨ (scan (env.take k)).1 = .long) :
    scan env = scan (env.take k) := by
  have : env = env.take k ++ env.drop k := (List.take_append_drop k env).symm
  conv => lhs; rw [this]
  unfold scan at *
  rw [scanFrom_append, scanFrom_terminal _ _ _ h]
  simp

end Nq.Lemmas.QI

namespace Nq.Lemmas.QI
open Nq Nq.QueueInject

/-- exit codes 91 and 11 are produced only by the envelope scanner's verdict -/
def CodeInv (p : Params) (s : St) : Prop :=
  match s.pc with
  | .dying c => c ≠ 91 ∧ c ≠ 11
  | .clIntdTrunc c => c ≠ 91 ∧ c ≠ 11
  | .clIntdUnlink c => c ≠ 91 ∧ c ≠ 11
  | .clMessTrunc c => c ≠ 91 ∧ c ≠ 11
  | .clMessUnlink c => c ≠ 91 ∧ c ≠ 11
  | .handler c => c ≠ 91 ∧ c ≠ 11
  | .exited c => (c = 91 → (scan (p.env.take s.envRead)).1 = .bad) ∧ (c = 11 → (scan (p.env.take s.envRead)).1 = .long)
  | _ => True

theorem cleanupFrom_code (p : Params) (s : St) (c : Nat) (h1 : c ≠ 91) (h2 : c ≠ 11) : CodeInv p (cleanupFrom s c) := by
  unfold cleanupFrom
  split
  · simp [CodeInv, h1, h2]
  · split <;> simp [CodeInv, h1, h2]

theorem step_code (p : Params) (s s' : St) (e : Ev) (hinv : CodeInv p s) (hacc : accept p s e = some s') :
    CodeInv p s' := by
  cases e with
  | write f bs => cases f <;> simp only [accept] at hacc <;> split at hacc <;> simp_all [CodeInv]
                  all_goals (subst hacc; simp_all [CodeInv])
  | writeErr f intr =>
    cases f <;> simp only [accept] at hacc <;> split at hacc <;> try (cases hacc)
    all_goals (cases intr <;> first | exact cleanupFrom_code p s 53 (by decide) (by decide) | simp_all [CodeInv])
  | fsync f ok =>
    cases f <;> simp only [accept] at hacc <;> split at hacc <;> try (cases hacc)
    all_goals (cases ok <;> first | exact cleanupFrom_code p s 53 (by decide) (by decide) | simp_all [CodeInv])
  | ftrunc f ok => cases f <;> simp only [accept] at hacc <;> split at hacc <;> simp_all [CodeInv]
                   all_goals (subst hacc; simp_all [CodeInv])
  | unlinkF f ok =>
    cases f with
    | mess =>
      simp only [accept] at hacc
      split at hacc
      · rename_i c hpc; cases hacc
        simp [CodeInv, hpc] at hinv
        simp [CodeInv, hinv]
      · cases hacc
    | intd =>
      simp only [accept] at hacc
      split at hacc
      · rename_i c hpc; cases hacc
        simp [CodeInv, hpc] at hinv
        cases ok
        · simp [CodeInv, hinv]
        · by_cases hm : s.madeMess = true <;> simp [CodeInv, hm, hinv]
      · cases hacc
  | read fd n =>
    simp only [accept] at hacc
    split at hacc
    · split at hacc <;> simp_all [CodeInv]
      subst hacc; simp_all [CodeInv]
    · split at hacc
      · split at hacc
        · split at hacc
          · split at hacc <;> try (cases hacc)
            exact cleanupFrom_code p s 54 (by decide) (by decide)
          · cases hacc; simp_all [CodeInv]
        · cases hacc
      · cases hacc
  | readErr fd intr =>
    simp only [accept] at hacc
    split at hacc
    · cases hacc; cases intr <;> first | exact cleanupFrom_code p s 54 (by decide) (by decide) | simp_all [CodeInv]
    · split at hacc
      · cases hacc; cases intr <;> first | exact cleanupFrom_code p s 54 (by decide) (by decide) | simp_all [CodeInv]
      · cases hacc
  | signal g =>
    simp only [accept] at hacc
    split at hacc <;> cases hacc
    cases g <;> simp [CodeInv, sigCode]
  | exit code =>
    simp only [accept] at hacc
    split at hacc
    · rename_i c hpc
      split at hacc
      · cases hacc; simp_all [CodeInv]
      · cases hacc
    · rename_i c hpc
      split at hacc
      · cases hacc; simp_all [CodeInv]
      · cases hacc
    · split at hacc
      · rename_i hcode; cases hacc
        simp only [CodeInv]; omega
      · cases hacc
    · split at hacc
      · cases hacc; simp [CodeInv]
      · cases hacc
    · split at hacc
      · rename_i hcode; cases hacc; simp [CodeInv]
      · cases hacc
    · split at hacc
      · split at hacc <;> try (cases hacc)
        simp_all [CodeInv]
      · split at hacc <;> try (cases hacc)
        simp_all [CodeInv]
      · cases hacc
    · cases hacc
  | openPid seq ok =>
    simp only [accept] at hacc
    split at hacc
    · split at hacc <;> try (cases hacc)
      split at hacc
      · cases hacc; simp_all [CodeInv]
      · split at hacc <;> cases hacc <;> simp_all [CodeInv]
    · cases hacc
  | alarm n => simp only [accept] at hacc; split at hacc <;> cases hacc; simp_all [CodeInv]
  | fstatPid ok => simp only [accept] at hacc; split at hacc <;> cases hacc; cases ok <;> simp_all [CodeInv]
  | linkMess ok => simp only [accept] at hacc; split at hacc <;> cases hacc; cases ok <;> simp_all [CodeInv]
  | unlinkPid ok => simp only [accept] at hacc; split at hacc <;> cases hacc; cases ok <;> simp_all [CodeInv]
  | openIntd ok => simp only [accept] at hacc; split at hacc <;> cases hacc; cases ok <;> simp_all [CodeInv]
  | linkTodo ok => simp only [accept] at hacc; split at hacc <;> cases hacc; cases ok <;> simp_all [CodeInv]
  | trigOpen ok => simp only [accept] at hacc; split at hacc <;> cases hacc; cases ok <;> simp_all [CodeInv]
  | trigWrite => simp only [accept] at hacc; split at hacc <;> cases hacc; simp_all [CodeInv]
  | trigClose => simp only [accept] at hacc; split at hacc <;> cases hacc; simp_all [CodeInv]

theorem run_code (p : Params) : ∀ (evs : List Ev) (s s' : St),
    CodeInv p s → acceptAll p s evs = some s' → CodeInv p s'
  | [], s, s', h, ha => by simp [acceptAll] at ha; subst ha; exact h
  | e :: es, s, s', h, ha => by
    simp only [acceptAll] at ha
    cases h1 : accept p s e with
    | none => simp [h1] at ha
    | some s1 =>
      simp [h1] at ha
      exact run_code p es s1 s' (step_code p s s1 e h h1) ha

end Nq.Lemmas.QI

namespace Nq.Lemmas.QI
open Nq Nq.QueueInject

/-! ### The forward direction: without a failing call the exit code is the documented verdict -/

/-- in a run without `Faulty` events: once the envelope has been judged, the code the program is
going to exit with is the documented one for the WHOLE envelope stream supplied -/
def FwdInv (p : Params) (s : St) : Prop :=
  match s.pc with
  | .linkTodo => (scan p.env).1 = .done
  | .trig => (scan p.env).1 = .done
  | .trigW => (scan p.env).1 = .done
  | .trigC => (scan p.env).1 = .done
  | .clIntdTrunc c => c = docCode (scan p.env).1
  | .clIntdUnlink c => c = docCode (scan p.env).1
  | .clMessTrunc c => c = docCode (scan p.env).1
  | .clMessUnlink c => c = docCode (scan p.env).1
  | .dying c => c = docCode (scan p.env).1
  | .exited c => c = docCode (scan p.env).1
  | .handler _ => False
  | _ => True

theorem cleanupFrom_fwd (p : Params) (s : St) (c : Nat) (h : c = docCode (scan p.env).1) : FwdInv p (cleanupFrom s c) := by
  unfold cleanupFrom
  split
  · simpa [FwdInv] using h
  · split <;> simpa [FwdInv] using h

theorem step_fwd (p : Params) (s s' : St) (e : Ev) (hinv : FwdInv p s) (hf : Faulty e = false)
    (hacc : accept p s e = some s') : FwdInv p s' := by
  cases e with
  | alarm n => simp only [accept] at hacc; split at hacc <;> cases hacc; simp [FwdInv]
  | openPid seq ok =>
    simp only [accept] at hacc
    split at hacc
    · rename_i k hpc
      split at hacc
      · cases hacc
      · rename_i hseq
        split at hacc
        · cases hacc; simp [FwdInv]
        · rename_i hok
          split at hacc
          · cases hacc; simp [FwdInv]
          · rename_i hk
            have hseq' : seq = k := by simpa using hseq
            have : (9 ≤ seq) := by omega
            simp [Faulty, hok, this] at hf
    · cases hacc
  | fstatPid ok =>
    simp only [accept] at hacc; split at hacc <;> cases hacc
    cases ok <;> simp_all [FwdInv, Faulty]
  | linkMess ok =>
    simp only [accept] at hacc; split at hacc <;> cases hacc
    cases ok <;> simp_all [FwdInv, Faulty]
  | unlinkPid ok =>
    simp only [accept] at hacc; split at hacc <;> cases hacc
    cases ok <;> simp_all [FwdInv, Faulty]
  | read fd n =>
    simp only [accept] at hacc
    split at hacc
    · split at hacc
      · rename_i h; cases hacc; simp [FwdInv, h.1]
      · cases hacc
    · split at hacc
      · split at hacc
        · rename_i h
          split at hacc
          · rename_i hn
            have hlen : s.envRead = p.env.length := h.2.2 hn
            have htake : p.env.take s.envRead = p.env := by rw [hlen]; exact List.take_length
            rw [htake] at hacc
            split at hacc
            · cases hacc
            · cases hacc
            · cases hacc
            · rename_i hnd hnb hnl
              cases hacc
              apply cleanupFrom_fwd
              cases hs : (scan p.env).1 <;> simp_all [docCode]
          · cases hacc; simp [FwdInv, h.1]
        · cases hacc
      · cases hacc
  | readErr fd intr =>
    have hi : intr = true := by simpa [Faulty] using hf
    subst hi
    simp only [accept] at hacc
    split at hacc
    · cases hacc; exact hinv
    · split at hacc
      · cases hacc; exact hinv
      · cases hacc
  | write f bs =>
    cases f <;> simp only [accept] at hacc <;> split at hacc <;> cases hacc <;> rename_i h <;> simp [FwdInv, h.1]
  | writeErr f intr =>
    have hi : intr = true := by simpa [Faulty] using hf
    subst hi
    cases f <;> simp only [accept] at hacc <;> split at hacc <;> cases hacc <;> exact hinv
  | fsync f ok =>
    have hi : ok = true := by simpa [Faulty] using hf
    subst hi
    cases f with
    | mess => simp only [accept] at hacc; split at hacc <;> cases hacc; simp [FwdInv]
    | intd =>
      simp only [accept] at hacc
      split at hacc
      · rename_i h; cases hacc
        simp only [FwdInv, if_true]
        rw [scan_take p.env s.envRead (Or.inl h.2.1)]; exact h.2.1
      · cases hacc
  | openIntd ok =>
    simp only [accept] at hacc; split at hacc <;> cases hacc
    cases ok <;> simp_all [FwdInv, Faulty]
  | linkTodo ok =>
    have hi : ok = true := by simpa [Faulty] using hf
    subst hi
    simp only [accept] at hacc
    split at hacc
    · rename_i hpc; cases hacc
      simpa [FwdInv, hpc] using hinv
    · cases hacc
  | trigOpen ok =>
    simp only [accept] at hacc
    split at hacc
    · rename_i hpc; cases hacc
      have hd : (scan p.env).1 = .done := by simpa [FwdInv, hpc] using hinv
      cases ok <;> simp [FwdInv, hd, docCode]
    · cases hacc
  | trigWrite =>
    simp only [accept] at hacc
    split at hacc
    · rename_i hpc; cases hacc
      simpa [FwdInv, hpc] using hinv
    · cases hacc
  | trigClose =>
    simp only [accept] at hacc
    split at hacc
    · rename_i hpc; cases hacc
      have hd : (scan p.env).1 = .done := by simpa [FwdInv, hpc] using hinv
      simp [FwdInv, hd, docCode]
    · cases hacc
  | ftrunc f ok =>
    cases f <;> simp only [accept] at hacc <;> split at hacc <;> (try cases hacc) <;> rename_i c hpc <;>
      simpa [FwdInv, hpc] using hinv
  | unlinkF f ok =>
    cases f with
    | mess =>
      simp only [accept] at hacc
      split at hacc
      · rename_i c hpc; cases hacc
        simpa [FwdInv, hpc] using hinv
      · cases hacc
    | intd =>
      simp only [accept] at hacc
      split at hacc
      · rename_i c hpc; cases hacc
        have hc : c = docCode (scan p.env).1 := by simpa [FwdInv, hpc] using hinv
        cases ok
        · simpa [FwdInv] using hc
        · by_cases hm : s.madeMess = true <;> simpa [FwdInv, hm] using hc
      · cases hacc
  | signal g => simp [Faulty] at hf
  | exit code =>
    simp only [accept] at hacc
    split at hacc
    · rename_i c hpc
      split at hacc
      · rename_i hcode; cases hacc; subst hcode
        simpa [FwdInv, hpc] using hinv
      · cases hacc
    · rename_i c hpc
      simp [FwdInv, hpc] at hinv
    · split at hacc
      · rename_i hcode
        simp [Faulty] at hf
        omega
      · cases hacc
    · split at hacc
      · rename_i hcode
        simp [Faulty, hcode.2] at hf
      · cases hacc
    · split at hacc
      · rename_i hcode
        simp [Faulty, hcode] at hf
      · cases hacc
    · split at hacc
      · rename_i hb
        split at hacc <;> cases hacc
        simp only [FwdInv]
        rw [scan_take p.env s.envRead (Or.inr (Or.inl hb)), hb]; rfl
      · rename_i hl
        split at hacc <;> cases hacc
        simp only [FwdInv]
        rw [scan_take p.env s.envRead (Or.inr (Or.inr hl)), hl]; rfl
      · cases hacc
    · cases hacc

theorem run_fwd (p : Params) : ∀ (evs : List Ev) (s s' : St),
    FwdInv p s → (∀ e ∈ evs, Faulty e = false) → acceptAll p s evs = some s' → FwdInv p s'
  | [], s, s', h, _, ha => by simp [acceptAll] at ha; subst ha; exact h
  | e :: es, s, s', h, hf, ha => by
    simp only [acceptAll] at ha
    cases h1 : accept p s e with
    | none => simp [h1] at ha
    | some s1 =>
      simp [h1] at ha
      exact run_fwd p es s1 s' (step_fwd p s s1 e h (hf e (by simp)) h1) (fun x hx => hf x (by simp [hx])) ha

theorem acceptAll_append (p : Params) : ∀ (a b : List Ev) (s s' : St), acceptAll p s (a ++ b) = some s' →
    ∃ s1, acceptAll p s a = some s1 ∧ acceptAll p s1 b = some s'
  | [], b, s, s', h => ⟨s, by simp [acceptAll], by simpa using h⟩
  | e :: a, b, s, s', h => by
    simp only [List.cons_append, acceptAll] at h
    cases h1 : accept p s e with
    | none => simp [h1] at h
    | some s0 =>
      simp only [h1] at h
      obtain ⟨s1, ha, hb⟩ := acceptAll_append p a b s0 s' h
      exact ⟨s1, by simp [acceptAll, h1, ha], hb⟩

/-- nothing is accepted after `_exit` -/
theorem accept_exited (p : Params) (s : St) (c : Nat) (h : s.pc = .exited c) (e : Ev) : accept p s e = none := by
  cases e with
  | write f bs => cases f <;> simp [accept, h]
  | writeErr f i => cases f <;> simp [accept, h]
  | fsync f ok => cases f <;> simp [accept, h]
  | ftrunc f ok => cases f <;> simp [accept, h]
  | unlinkF f ok => cases f <;> simp [accept, h]
  | read fd n => simp [accept, h]
  | _ => simp [accept, h]

/-- the entry can become visible only through a successful `link(intd/<n>, todo/<n>)` -/
theorem todo_needs_link : ∀ (evs : List Ev) (fs : FS), (applyAll fs evs).todoName = true →
    fs.todoName = true ∨ Ev.linkTodo true ∈ evs
  | [], fs, h => Or.inl (by simpa [applyAll] using h)
  | e :: es, fs, h => by
    simp only [applyAll] at h
    rcases todo_needs_link es (apply fs e) h with h1 | h1
    · by_cases he : e = .linkTodo true
      · right; simp [he]
      · left
        cases e with
        | openPid seq ok => cases ok <;> simpa [apply] using h1
        | linkMess ok => cases ok <;> simpa [apply] using h1
        | unlinkPid ok => cases ok <;> simpa [apply] using h1
        | write f bs => cases f <;> simpa [apply] using h1
        | fsync f ok => cases f <;> cases ok <;> simpa [apply] using h1
        | openIntd ok => cases ok <;> simpa [apply] using h1
        | linkTodo ok => cases ok <;> simp_all [apply]
        | ftrunc f ok => cases f <;> cases ok <;> simpa [apply] using h1
        | unlinkF f ok => cases f <;> cases ok <;> simpa [apply] using h1
        | _ => simpa [apply] using h1
    · right; simp [h1]

end Nq.Lemmas.QI
