/-
  Nq.Lemmas.Pop3Fmt — byte-level facts about `str` literals and `fmtNat` used by the
  POP3 reply formatting proofs: `fmtNat` is the usual decimal rendering (digits only,
  non-empty, `decVal` inverts it, injective), and the fixed `-ERR` message texts are the
  expected explicit byte lists and contain no LF.
  Core Lean only.
-/
import Nq.Basic

namespace Nq.Lemmas.Pop3Fmt
open Nq

/-! ### `ByteArray.toList` of a list-built byte array -/

theorem len_eq (bs : ByteArray) : bs.data.toList.length = bs.size := by
  cases bs; rfl

theorem loop_eq (bs : ByteArray) : ∀ (k i : Nat) (r : List UInt8), bs.size - i = k →
    ByteArray.toList.loop bs i r = r.reverse ++ bs.data.toList.drop i := by
  intro k
  induction k with
  | zero =>
    intro i r h
    rw [ByteArray.toList.loop]
    have : ¬ i < bs.size := by omega
    rw [if_neg this]
    have : bs.data.toList.length ≤ i := by
      have := len_eq bs
      omega
    rw [List.drop_eq_nil_of_le this]; simp
  | succ k ih =>
    intro i r h
    rw [ByteArray.toList.loop]
    have hi : i < bs.size := by omega
    rw [if_pos hi, ih (i+1) _ (by omega)]
    have hl : i < bs.data.toList.length := by
      have := len_eq bs
      omega
    rw [List.drop_eq_getElem_cons hl]
    simp [ByteArray.get!, hi]

theorem toByteArray_toList (l : List UInt8) : l.toByteArray.toList = l := by
  rw [ByteArray.toList, loop_eq _ _ 0 [] rfl]
  simp [List.data_toByteArray]

theorem str_ofList (cs : List Char) : str (String.ofList cs) = cs.flatMap String.utf8EncodeChar := by
  unfold str
  rw [show (String.ofList cs).toUTF8 = (String.ofList cs).toByteArray from rfl,
    String.toByteArray_ofList]
  exact toByteArray_toList _

theorem fmtNat_eq (n : Nat) : fmtNat n = (Nat.toDigits 10 n).flatMap String.utf8EncodeChar := by
  rw [← str_ofList]; rfl

theorem fmtNat_lt10 (d : Nat) (h : d < 10) : fmtNat d = [UInt8.ofNat (48 + d)] := by
  rw [fmtNat_eq, Nat.toDigits_of_lt_base h]
  have : d = 0 ∨ d = 1 ∨ d = 2 ∨ d = 3 ∨ d = 4 ∨ d = 5 ∨ d = 6 ∨ d = 7 ∨ d = 8 ∨ d = 9 := by omega
  rcases this with rfl|rfl|rfl|rfl|rfl|rfl|rfl|rfl|rfl|rfl <;> decide

theorem fmtNat_step (n : Nat) (h : 10 ≤ n) : fmtNat n = fmtNat (n / 10) ++ fmtNat (n % 10) := by
  rw [fmtNat_eq, fmtNat_eq, fmtNat_eq, ← List.flatMap_append,
    Nat.toDigits_append_toDigits (by omega) (by omega) (Nat.mod_lt _ (by omega))]
  congr 2
  omega

theorem fmtNat_digits (n : Nat) : ∀ c ∈ fmtNat n, isDigit c = true := by
  induction n using Nat.strongRecOn with
  | _ n ih =>
    by_cases h : n < 10
    · rw [fmtNat_lt10 n h]
      intro c hc
      rw [List.mem_singleton] at hc
      subst hc
      have : n = 0 ∨ n = 1 ∨ n = 2 ∨ n = 3 ∨ n = 4 ∨ n = 5 ∨ n = 6 ∨ n = 7 ∨ n = 8 ∨ n = 9 := by omega
      rcases this with rfl|rfl|rfl|rfl|rfl|rfl|rfl|rfl|rfl|rfl <;> decide
    · rw [fmtNat_step n (by omega)]
      intro c hc
      rw [List.mem_append] at hc
      rcases hc with hc | hc
      · exact ih (n / 10) (by omega) c hc
      · exact ih (n % 10) (by omega) c hc

theorem fmtNat_ne_nil (n : Nat) : fmtNat n ≠ [] := by
  induction n using Nat.strongRecOn with
  | _ n ih =>
    by_cases h : n < 10
    · rw [fmtNat_lt10 n h]; exact List.cons_ne_nil _ _
    · rw [fmtNat_step n (by omega)]
      intro hc
      rw [List.append_eq_nil_iff] at hc
      exact ih (n / 10) (by omega) hc.1

theorem decVal_append_singleton (a : Bytes) (x : Byte) :
    decVal (a ++ [x]) = decVal a * 10 + (x.toNat - 48) := by
  unfold decVal
  rw [List.foldl_append]; rfl

theorem decVal_foldl_acc (b : Bytes) : ∀ acc : Nat,
    b.foldl (fun acc d => acc * 10 + (d.toNat - 48)) acc = acc * 10 ^ b.length + decVal b := by
  induction b with
  | nil => intro acc; simp [decVal]
  | cons x b ih =>
    intro acc
    unfold decVal
    rw [List.foldl_cons, List.foldl_cons, ih, ih (0 * 10 + (x.toNat - 48)), List.length_cons,
      Nat.pow_succ, Nat.add_mul, Nat.add_mul]
    simp only [Nat.zero_mul, Nat.zero_add, Nat.mul_assoc, Nat.add_assoc, Nat.mul_comm 10]

/-- general form: appending digit strings shifts the left value by the right length -/
theorem decVal_append (a b : Bytes) :
    decVal (a ++ b) = decVal a * 10 ^ b.length + decVal b := by
  unfold decVal
  rw [List.foldl_append, decVal_foldl_acc]
  rfl

theorem decVal_fmtNat (n : Nat) : decVal (fmtNat n) = n := by
  induction n using Nat.strongRecOn with
  | _ n ih =>
    by_cases h : n < 10
    · rw [fmtNat_lt10 n h]
      have : n = 0 ∨ n = 1 ∨ n = 2 ∨ n = 3 ∨ n = 4 ∨ n = 5 ∨ n = 6 ∨ n = 7 ∨ n = 8 ∨ n = 9 := by omega
      rcases this with rfl|rfl|rfl|rfl|rfl|rfl|rfl|rfl|rfl|rfl <;> decide
    · rw [fmtNat_step n (by omega), fmtNat_lt10 (n % 10) (by omega), decVal_append_singleton,
        ih (n / 10) (by omega)]
      have h2 : (UInt8.ofNat (48 + n % 10)).toNat = 48 + n % 10 := by
        rw [UInt8.toNat_ofNat']
        omega
      rw [h2]; omega

theorem fmtNat_inj (a b : Nat) (h : fmtNat a = fmtNat b) : a = b := by
  rw [← decVal_fmtNat a, ← decVal_fmtNat b, h]

/-! ### the fixed POP3 message texts -/

theorem str_syntax : str "syntax error" =
    [115, 121, 110, 116, 97, 120, 32, 101, 114, 114, 111, 114] := by
  rw [show "syntax error" = String.ofList
    ['s', 'y', 'n', 't', 'a', 'x', ' ', 'e', 'r', 'r', 'o', 'r'] from rfl, str_ofList]
  decide

theorem str_counted : str "messages are counted from 1" =
    [109, 101, 115, 115, 97, 103, 101, 115, 32, 97, 114, 101, 32, 99, 111, 117, 110, 116, 101, 100, 32, 102, 114, 111, 109, 32, 49] := by
  rw [show "messages are counted from 1" = String.ofList
    ['m', 'e', 's', 's', 'a', 'g', 'e', 's', ' ', 'a', 'r', 'e', ' ', 'c', 'o', 'u', 'n', 't', 'e', 'd', ' ', 'f', 'r', 'o', 'm', ' ', '1'] from rfl, str_ofList]
  decide

theorem str_notmany : str "not that many messages" =
    [110, 111, 116, 32, 116, 104, 97, 116, 32, 109, 97, 110, 121, 32, 109, 101, 115, 115, 97, 103, 101, 115] := by
  rw [show "not that many messages" = String.ofList
    ['n', 'o', 't', ' ', 't', 'h', 'a', 't', ' ', 'm', 'a', 'n', 'y', ' ', 'm', 'e', 's', 's', 'a', 'g', 'e', 's'] from rfl, str_ofList]
  decide

theorem str_deleted : str "already deleted" =
    [97, 108, 114, 101, 97, 100, 121, 32, 100, 101, 108, 101, 116, 101, 100] := by
  rw [show "already deleted" = String.ofList
    ['a', 'l', 'r', 'e', 'a', 'd', 'y', ' ', 'd', 'e', 'l', 'e', 't', 'e', 'd'] from rfl, str_ofList]
  decide

theorem str_unlink : str "unable to unlink all deleted messages" =
    [117, 110, 97, 98, 108, 101, 32, 116, 111, 32, 117, 110, 108, 105, 110, 107, 32, 97, 108, 108, 32, 100, 101, 108, 101, 116, 101, 100, 32, 109, 101, 115, 115, 97, 103, 101, 115] := by
  rw [show "unable to unlink all deleted messages" = String.ofList
    ['u', 'n', 'a', 'b', 'l', 'e', ' ', 't', 'o', ' ', 'u', 'n', 'l', 'i', 'n', 'k', ' ', 'a', 'l', 'l', ' ', 'd', 'e', 'l', 'e', 't', 'e', 'd', ' ', 'm', 'e', 's', 's', 'a', 'g', 'e', 's'] from rfl, str_ofList]
  decide

theorem str_open : str "unable to open that message" =
    [117, 110, 97, 98, 108, 101, 32, 116, 111, 32, 111, 112, 101, 110, 32, 116, 104, 97, 116, 32, 109, 101, 115, 115, 97, 103, 101] := by
  rw [show "unable to open that message" = String.ofList
    ['u', 'n', 'a', 'b', 'l', 'e', ' ', 't', 'o', ' ', 'o', 'p', 'e', 'n', ' ', 't', 'h', 'a', 't', ' ', 'm', 'e', 's', 's', 'a', 'g', 'e'] from rfl, str_ofList]
  decide

theorem str_unimpl : str "unimplemented" =
    [117, 110, 105, 109, 112, 108, 101, 109, 101, 110, 116, 101, 100] := by
  rw [show "unimplemented" = String.ofList
    ['u', 'n', 'i', 'm', 'p', 'l', 'e', 'm', 'e', 'n', 't', 'e', 'd'] from rfl, str_ofList]
  decide

theorem str_nohome : str "this user has no $HOME/Maildir" =
    [116, 104, 105, 115, 32, 117, 115, 101, 114, 32, 104, 97, 115, 32, 110, 111, 32, 36, 72, 79, 77, 69, 47, 77, 97, 105, 108, 100, 105, 114] := by
  rw [show "this user has no $HOME/Maildir" = String.ofList
    ['t', 'h', 'i', 's', ' ', 'u', 's', 'e', 'r', ' ', 'h', 'a', 's', ' ', 'n', 'o', ' ', '$', 'H', 'O', 'M', 'E', '/', 'M', 'a', 'i', 'l', 'd', 'i', 'r'] from rfl, str_ofList]
  decide

theorem str_userfirst : str "USER first" =
    [85, 83, 69, 82, 32, 102, 105, 114, 115, 116] := by
  rw [show "USER first" = String.ofList
    ['U', 'S', 'E', 'R', ' ', 'f', 'i', 'r', 's', 't'] from rfl, str_ofList]
  decide

theorem str_authfirst : str "authorization first" =
    [97, 117, 116, 104, 111, 114, 105, 122, 97, 116, 105, 111, 110, 32, 102, 105, 114, 115, 116] := by
  rw [show "authorization first" = String.ofList
    ['a', 'u', 't', 'h', 'o', 'r', 'i', 'z', 'a', 't', 'i', 'o', 'n', ' ', 'f', 'i', 'r', 's', 't'] from rfl, str_ofList]
  decide

theorem str_aack : str "aack, child crashed" =
    [97, 97, 99, 107, 44, 32, 99, 104, 105, 108, 100, 32, 99, 114, 97, 115, 104, 101, 100] := by
  rw [show "aack, child crashed" = String.ofList
    ['a', 'a', 'c', 'k', ',', ' ', 'c', 'h', 'i', 'l', 'd', ' ', 'c', 'r', 'a', 's', 'h', 'e', 'd'] from rfl, str_ofList]
  decide

theorem str_authfailed : str "authorization failed" =
    [97, 117, 116, 104, 111, 114, 105, 122, 97, 116, 105, 111, 110, 32, 102, 97, 105, 108, 101, 100] := by
  rw [show "authorization failed" = String.ofList
    ['a', 'u', 't', 'h', 'o', 'r', 'i', 'z', 'a', 't', 'i', 'o', 'n', ' ', 'f', 'a', 'i', 'l', 'e', 'd'] from rfl, str_ofList]
  decide

theorem noLF_syntax : LF ∉ str "syntax error" := by
  rw [str_syntax]; decide

theorem noLF_counted : LF ∉ str "messages are counted from 1" := by
  rw [str_counted]; decide

theorem noLF_notmany : LF ∉ str "not that many messages" := by
  rw [str_notmany]; decide

theorem noLF_deleted : LF ∉ str "already deleted" := by
  rw [str_deleted]; decide

theorem noLF_unlink : LF ∉ str "unable to unlink all deleted messages" := by
  rw [str_unlink]; decide

theorem noLF_open : LF ∉ str "unable to open that message" := by
  rw [str_open]; decide

theorem noLF_unimpl : LF ∉ str "unimplemented" := by
  rw [str_unimpl]; decide

theorem noLF_nohome : LF ∉ str "this user has no $HOME/Maildir" := by
  rw [str_nohome]; decide

theorem noLF_userfirst : LF ∉ str "USER first" := by
  rw [str_userfirst]; decide

theorem noLF_authfirst : LF ∉ str "authorization first" := by
  rw [str_authfirst]; decide

theorem noLF_aack : LF ∉ str "aack, child crashed" := by
  rw [str_aack]; decide

theorem noLF_authfailed : LF ∉ str "authorization failed" := by
  rw [str_authfailed]; decide

theorem msg_noLF (t : String) (h : t ∈ ["syntax error", "messages are counted from 1", "not that many messages", "already deleted", "unable to unlink all deleted messages", "unable to open that message", "unimplemented", "this user has no $HOME/Maildir", "USER first", "authorization first", "aack, child crashed", "authorization failed"]) : LF ∉ str t := by
  simp only [List.mem_cons, List.not_mem_nil, or_false] at h
  rcases h with rfl|rfl|rfl|rfl|rfl|rfl|rfl|rfl|rfl|rfl|rfl|rfl
  · exact noLF_syntax
  · exact noLF_counted
  · exact noLF_notmany
  · exact noLF_deleted
  · exact noLF_unlink
  · exact noLF_open
  · exact noLF_unimpl
  · exact noLF_nohome
  · exact noLF_userfirst
  · exact noLF_authfirst
  · exact noLF_aack
  · exact noLF_authfailed

end Nq.Lemmas.Pop3Fmt
