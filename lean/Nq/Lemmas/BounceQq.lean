/-
  Helper lemmas for `Nq.BounceQq` (C14, session 4): the sticky error flag of qmail.c under injectbounce()'s calls.
-/
import Nq.BounceQq
import Nq.Lemmas.BounceDaemon

namespace Nq.Lemmas.BounceQq
open Nq Nq.Bounce Nq.BounceQq

theorem qput_err (q : Qq) (b : Bytes) (h : q.flagerr = true) : qput q b = q := by
  simp [qput, h]

theorem step_err (q : Qq) (c : Call) (h : q.flagerr = true) :
    (step q c).flagerr = true ∧ (step q c).msg = q.msg ∧ (step q c).env = q.env := by
  cases c <;> simp [step, qput, h]

theorem run_err (cs : List Call) : ∀ (q : Qq), q.flagerr = true →
    (run q cs).flagerr = true ∧ (run q cs).msg = q.msg ∧ (run q cs).env = q.env := by
  induction cs with
  | nil => intro q h; simp [run, h]
  | cons c cs ih =>
    intro q h
    obtain ⟨h1, h2, h3⟩ := step_err q c h
    obtain ⟨i1, i2, i3⟩ := ih (step q c) h1
    refine ⟨?_, ?_, ?_⟩
    · simpa [run] using i1
    · rw [← h2]; simpa [run] using i2
    · rw [← h3]; simpa [run] using i3

theorem run_append (q : Qq) (a b : List Call) : run q (a ++ b) = run (run q a) b := by
  simp [run, List.foldl_append]

theorem run_cons (q : Qq) (c : Call) (cs : List Call) : run q (c :: cs) = run (step q c) cs := rfl

/-- after a qmail_fail() nothing more reaches either pipe and the flag stays up -/
theorem run_fail (q : Qq) (a b : List Call) :
    (run q (a ++ .fail :: b)).flagerr = true ∧ (run q (a ++ .fail :: b)).msg = (run q a).msg
      ∧ (run q (a ++ .fail :: b)).env = (run q a).env := by
  rw [run_append, run_cons]
  have := run_err b (step (run q a) .fail) (by simp [step])
  simpa [step] using this

theorem trailer_split (single : Bool) (base mess : Bytes) :
    trailer single base mess = trailer single base [] ++ mess := by
  simp [trailer, List.append_assoc]

/-- `bounceOf` through `parts` -/
theorem bounceOf_parts (cfg : Cfg) (date bf sender mess : Bytes) :
    bounceOf cfg date bf { sender := sender, rcpts := [], body := mess }
      = (parts cfg date sender).map fun p =>
          { sender := p.2.2.1, rcpts := [p.2.2.2], body := p.1 ++ bf ++ p.2.1 ++ mess } := by
  unfold bounceOf parts
  cases decideBounce sender <;> simp [trailer_split _ _ mess, List.append_assoc]

/-- the stream state after the copy of one file, from a state with the flag down and still on the message pipe -/
theorem run_copy_ok (q : Qq) (file : Bytes) (h : q.flagerr = false) (he : q.onEnv = false) :
    run q (copyCalls file .ok) = { q with msg := q.msg ++ file } := by
  simp [copyCalls, run, step, qput, h, he]

theorem copy_fail_mem (file : Bytes) (f : RF) (h : f ≠ .ok) : Call.fail ∈ copyCalls file f := by
  cases f <;> simp [copyCalls] at h ⊢

theorem copy_ok_nomem (file : Bytes) : Call.fail ∉ copyCalls file .ok := by
  simp [copyCalls]

/-- with the flag down and on the message pipe: a list of `put`s then `fail`s writes only a prefix of … (used pointwise below) -/
theorem run_puts_msg (q : Qq) (b : Bytes) (h : q.flagerr = false) (he : q.onEnv = false) :
    run q [.put b] = { q with msg := q.msg ++ b } := by
  simp [run, step, qput, h, he]

/-- bytes of the notice that reach the message pipe -/
def sentMsg (pre bf mid mess : Bytes) : RF → RF → Bytes
  | .openFail, _ => pre
  | .readFail k, _ => pre ++ bf.take k
  | .ok, .openFail => pre ++ bf ++ mid
  | .ok, .readFail k => pre ++ bf ++ mid ++ mess.take k
  | .ok, .ok => pre ++ bf ++ mid ++ mess

def faulty (fb fm : RF) : Bool := fb != .ok || fm != .ok

/-- closed form of `injectQq` -/
theorem injectQq_eq (cfg : Cfg) (date sender bf mess : Bytes) (fb fm : RF) (exit : Nat) (crashed : Bool) :
    injectQq cfg date sender bf mess fb fm exit crashed
      = (parts cfg date sender).map fun p =>
          ({ flagerr := faulty fb fm, onEnv := true, msg := sentMsg p.1 bf p.2.1 mess fb fm,
             env := if faulty fb fm then [] else fullEnv p.2.2.1 p.2.2.2 },
           !crashed && exit == 0 && !faulty fb fm) := by
  unfold injectQq injectCalls
  cases parts cfg date sender with
  | none => rfl
  | some p =>
    obtain ⟨pre, mid, f, t⟩ := p
    cases fb <;> cases fm <;>
      simp [copyCalls, run, step, qput, close, sentMsg, faulty, fullEnv, List.append_assoc]

theorem sentMsg_prefix (pre bf mid mess : Bytes) (fb fm : RF) :
    sentMsg pre bf mid mess fb fm <+: pre ++ bf ++ mid ++ mess := by
  cases fb <;> cases fm <;> simp only [sentMsg, List.append_assoc]
  all_goals first
    | exact List.prefix_refl _
    | exact List.prefix_append _ _
    | exact (List.prefix_append_right_inj _).2 ((List.take_prefix _ _).trans (List.prefix_append _ _))
    | exact (List.prefix_append_right_inj _).2 ((List.prefix_append_right_inj _).2 (List.prefix_append _ _))
    | exact (List.prefix_append_right_inj _).2 ((List.prefix_append_right_inj _).2 ((List.prefix_append_right_inj _).2 (List.take_prefix _ _)))


theorem isSuffixB_append (x mess : Bytes) : isSuffixB mess (x ++ mess) = true := by
  simp [isSuffixB, List.reverse_append]

theorem queuedOK_fullEnv (f t : Bytes) : queuedOK 0 false (fullEnv f t) = true := by
  have h : fullEnv f t = (70 :: f ++ [0] ++ 84 :: t) ++ [0, 0] := by simp [fullEnv, List.append_assoc]
  have hl : (fullEnv f t).length - 2 = (70 :: f ++ [0] ++ 84 :: t).length := by rw [h]; simp; omega
  have hd : (fullEnv f t).drop ((fullEnv f t).length - 2) = [0, 0] := by
    rw [hl, h]; exact List.drop_left' rfl
  have h3 : (fullEnv f t).length ≥ 3 := by rw [h]; simp; omega
  simp only [queuedOK, hd]
  simp [fullEnv]
  omega

end Nq.Lemmas.BounceQq

