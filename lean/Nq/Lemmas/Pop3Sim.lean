/-
  Lemmas added after the statement audit of C19: msgno() against the unbounded decimal value,
  the TOP limit (saturation included) against `topLines`, and qmail-popup at the level of main()
  (from the input bytes to descriptor 3).  Core Lean only.
-/
import Nq.Lemmas.Pop3Stat
import Nq.Lemmas.Pop3Blast
import Nq.Lemmas.Pop3Fmt
import Nq.Spec.Pop3Ref
namespace Nq.Lemmas.Pop3
open Nq Nq.Pop3 Nq.Pop3Ref

theorem drop_takeWhile_length {α} (p : α → Bool) (l : List α) : l.drop (l.takeWhile p).length = l.dropWhile p := by
  induction l with
  | nil => rfl
  | cons c l ih =>
    by_cases h : p c = true
    · simp [List.takeWhile_cons, List.dropWhile_cons, h, ih]
    · simp [List.takeWhile_cons, List.dropWhile_cons, h]

/-- does the argument end after its leading digit run, or go on with a space? -/
def endsOk (arg : Bytes) : Bool :=
  match arg.dropWhile isDigit with
  | [] => true
  | c :: _ => c == SP

/-- msgno() in terms of the unbounded decimal value of the leading digit run -/
def msgnoSpec (s : Sess) (arg : Bytes) : MsgNo :=
  let ds := arg.takeWhile isDigit
  if ds = [] ∨ endsOk arg = false then .err (errLine "syntax error")
  else if decVal ds = 0 then .err (errLine "messages are counted from 1")
  else if decVal ds > s.msgs.length ∨ decVal ds > INT_MAX then .err (errLine "not that many messages")
  else match s.msgs[decVal ds - 1]? with
    | some m => if m.del then .err (errLine "already deleted") else .ok (decVal ds - 1)
    | none => .err (errLine "not that many messages")

theorem junkAfter_eq (arg : Bytes) : junkAfter arg (arg.takeWhile isDigit).length = !endsOk arg := by
  have hs : Gen.Pop3Tab.msgnoStrict = true := rfl
  unfold junkAfter junkAfterWith endsOk
  rw [hs, drop_takeWhile_length]
  cases arg.dropWhile isDigit with
  | nil => rfl
  | cons c t => simp [bne]

theorem scan_sat (arg : Bytes) :
    scanUlong arg = (min (decVal (arg.takeWhile isDigit)) (U64 - 1), (arg.takeWhile isDigit).length) := by
  have hs : Gen.Pop3Tab.scanSaturates = true := rfl
  unfold scanUlong scanWith
  simp only [hs, if_true]

theorem msgno_eq_spec (s : Sess) (arg : Bytes) : msgno s arg = msgnoSpec s arg := by
  unfold msgno msgnoSpec
  rw [scan_sat]
  simp only [junkAfter_eq]
  generalize endsOk arg = eo
  generalize arg.takeWhile isDigit = ds
  by_cases h0 : ds = [] ∨ eo = false
  · have : ds.length = 0 ∨ (!eo) = true := by
      rcases h0 with h | h
      · left; simp [h]
      · right; simp [h]
    rw [if_pos this, if_pos h0]
  have h0' : ¬ (ds.length = 0 ∨ (!eo) = true) := by
    intro h; apply h0
    rcases h with h | h
    · left; simpa using h
    · right; simpa using h
  rw [if_neg h0', if_neg h0]
  by_cases hbig : decVal ds ≥ U64
  · have e : min (decVal ds) (U64 - 1) = U64 - 1 := Nat.min_eq_right (by unfold U64 at *; omega)
    rw [e]
    have c1 : ¬ (U64 - 1 = 0) := by unfold U64; omega
    have c2 : U64 - 1 - 1 ≥ s.msgs.length ∨ U64 - 1 - 1 ≥ INT_MAX := by right; unfold U64 INT_MAX; omega
    have c3 : ¬ (decVal ds = 0) := by unfold U64 at hbig; omega
    have c4 : decVal ds > s.msgs.length ∨ decVal ds > INT_MAX := by right; unfold U64 at hbig; unfold INT_MAX; omega
    simp only [c1, c2, c3, c4, if_true, if_false]
  · have e : min (decVal ds) (U64 - 1) = decVal ds := Nat.min_eq_left (by unfold U64 at *; omega)
    rw [e]
    by_cases h1 : decVal ds = 0
    · simp [h1]
    simp only [h1, if_false]
    have : (decVal ds - 1 ≥ s.msgs.length ∨ decVal ds - 1 ≥ INT_MAX) ↔ (decVal ds > s.msgs.length ∨ decVal ds > INT_MAX) := by
      unfold INT_MAX; omega
    by_cases hc : decVal ds > s.msgs.length ∨ decVal ds > INT_MAX
    · rw [if_pos (this.mpr hc), if_pos hc]
    · rw [if_neg (fun h => hc (this.mp h)), if_neg hc]
      cases s.msgs[decVal ds - 1]? <;> rfl

/-! ### TOP: the limit, saturation included -/

/-- the optional second number of TOP (unbounded) -/
def topCount (arg : Bytes) : Option Nat :=
  let a2 := (arg.dropWhile isDigit).dropWhile (· = SP)
  if a2.takeWhile isDigit = [] then none else some (decVal (a2.takeWhile isDigit))

theorem topLimit_spec (arg : Bytes) :
    topLimit arg = match topCount arg with
      | none => 0
      | some k => if k < U64 - 1 then k + 1 else 0 := by
  unfold topLimit topCount
  rw [scan_sat arg]
  simp only [drop_takeWhile_length]
  rw [scan_sat]
  simp only
  generalize ((arg.dropWhile isDigit).dropWhile (fun x => decide (x = SP))).takeWhile isDigit = ds
  by_cases h0 : ds = []
  · simp [h0]
  have h0' : ds.length ≠ 0 := by simpa using h0
  simp only [h0, h0', if_false, ne_eq, not_false_eq_true, if_true]
  by_cases hk : decVal ds < U64 - 1
  · rw [if_pos hk, Nat.min_eq_left (by omega)]
    exact Nat.mod_eq_of_lt (by omega)
  · rw [if_neg hk, Nat.min_eq_right (by omega)]
    unfold U64; rfl

theorem topLines_all (n : Nat) : ∀ ls : List Bytes, ls.length ≤ n → topLines n ls = ls := by
  intro ls
  induction ls with
  | nil => intro _; rfl
  | cons l ls ih =>
    intro h
    simp only [List.length_cons] at h
    by_cases hl : l = []
    · simp [topLines, hl, List.take_of_length_le (show ls.length ≤ n by omega)]
    · simp [topLines, hl, ih (by omega)]

theorem lines_length (m : Bytes) : (lines m).length ≤ m.length := by
  induction m with
  | nil => simp [lines]
  | cons c m ih =>
    by_cases hc : c = LF
    · simp [lines, hc]; exact ih
    · simp only [lines, hc, if_false]
      cases h : lines m with
      | nil => simp
      | cons l ls => rw [h] at ih; simp at ih ⊢; omega

/-- what a client decodes from the payload of an accepted RETR/TOP, for every argument: the first
`k` body lines if a second number `k` (of any size) is given, the whole message otherwise.
(`data.length < 2^64 - 1`: a file has fewer bytes than an unsigned long can count.) -/
theorem top_decoded (arg data rest : Bytes) (h : data.length < U64 - 1) :
    popDecode (blast (topLimit arg) data ++ rest) =
      some ((match topCount arg with
             | none => lines data
             | some k => topLines k (lines data)) ++ [[]], rest) := by
  have whole : popDecode (blast 0 data ++ rest) = some (lines data ++ [[]], rest) := by
    unfold popDecode blast
    rw [blastLoop_eq_lines, getlns_nil_lines]
    exact decode_all (lines data) true rest (lines_noLF data)
  rw [topLimit_spec]
  cases hc : topCount arg with
  | none => exact whole
  | some k =>
    simp only
    by_cases hk : k < U64 - 1
    · rw [if_pos hk]
      unfold popDecode blast
      rw [blastLoop_eq_lines, getlns_nil_lines]
      exact decode_top (lines data) k rest (lines_noLF data)
    · rw [if_neg hk, whole, topLines_all k (lines data) (by have := lines_length data; omega)]

/-- TOP uses the limit of its second number … -/
theorem limitFor_top (verb arg : Bytes) (h : verbIs vTop verb = true) : limitFor verb arg = topLimit arg := by
  simp [limitFor, limitWith, h]

/-- … RETR never limits (the source gives RETR its own handler: `Gen.Pop3Tab.retrWhole`, regenerated from
qmail-pop3d.c on every run; this proof fails if RETR goes back to sharing pop3_top() with TOP) -/
theorem limitFor_retr (verb arg : Bytes) (h : verbIs vTop verb = false) : limitFor verb arg = 0 := by
  have hr : Gen.Pop3Tab.retrWhole = true := rfl
  simp [limitFor, limitWith, h, hr]

theorem retr_decoded (data rest : Bytes) : popDecode (blast 0 data ++ rest) = some (lines data ++ [[]], rest) := by
  unfold popDecode blast
  rw [blastLoop_eq_lines, getlns_nil_lines]
  exact decode_all (lines data) true rest (lines_noLF data)

/-! ### qmail-popup: main() from the input bytes to descriptor 3 -/

open Nq.Pop3.Popup in
/-- what commands() of qmail-popup does with one complete line (without its LF) -/
def pstepLine (r : Popup.PRun) (line : Bytes) : Popup.PRun :=
  match r.act with
  | .cont =>
    { s := (Popup.pexec r.s (parseLine line).1 (parseLine line).2).1, cmd := [],
      out := r.out ++ (Popup.pexec r.s (parseLine line).1 (parseLine line).2).2.1,
      act := (Popup.pexec r.s (parseLine line).1 (parseLine line).2).2.2 }
  | _ => r

theorem pfeed_noLF (line : Bytes) : ∀ r : Popup.PRun, r.act = .cont → LF ∉ line →
    line.foldl Popup.pfeedByte r = { r with cmd := line.reverse ++ r.cmd } := by
  induction line with
  | nil => intro r _ _; rfl
  | cons c line ih =>
    intro r hx hl
    have hc : c ≠ LF := fun e => hl (by simp [e])
    have hl' : LF ∉ line := fun e => hl (by simp [e])
    rw [List.foldl_cons]
    have h1 : Popup.pfeedByte r c = { r with cmd := c :: r.cmd } := by
      unfold Popup.pfeedByte; simp [hx, hc]
    rw [h1, ih _ (by simpa using hx) hl']
    simp

theorem pfeed_line (r : Popup.PRun) (line : Bytes) (ha : r.act = .cont) (hc : r.cmd = []) (hl : LF ∉ line) :
    (line ++ [LF]).foldl Popup.pfeedByte r = pstepLine r line := by
  rw [List.foldl_append, pfeed_noLF line r ha hl]
  simp only [List.foldl_cons, List.foldl_nil]
  unfold Popup.pfeedByte
  simp [ha, hc, pstepLine]

theorem pfeed_auth (b : Bytes) : ∀ (r : Popup.PRun) (a : Popup.Auth), r.act = .auth a → b.foldl Popup.pfeedByte r = r := by
  induction b with
  | nil => intro r a _; rfl
  | cons c b ih =>
    intro r a h
    rw [List.foldl_cons]
    have : Popup.pfeedByte r c = r := by unfold Popup.pfeedByte; simp [h]
    rw [this]; exact ih r a h

/-- a verb of the tables written in any case contains no space, NUL or LF -/
theorem verb_clean (v t : Bytes) (h : lower v = t) (ht : ∀ c ∈ t, 97 ≤ c ∧ c ≤ 122) :
    ∀ c ∈ v, c ≠ SP ∧ c ≠ NUL ∧ c ≠ LF := by
  intro c hc
  have hm : lowerByte c ∈ t := by rw [← h]; exact List.mem_map_of_mem hc
  have hb := ht _ hm
  refine ⟨?_, ?_, ?_⟩ <;> (intro e; rw [e] at hb; revert hb; decide)

/-- the line `verb SP^k arg CR` is dispatched as (verb, arg) — whatever `arg` ends in -/
theorem parse_cr (verb arg : Bytes) (k : Nat)
    (hv : ∀ c ∈ verb, c ≠ SP ∧ c ≠ NUL) (ha : ∀ c ∈ arg, c ≠ NUL) (hh : arg.head? ≠ some SP)
    (hk : arg ≠ [] → k ≠ 0) :
    parseLine (verb ++ (List.replicate k SP ++ arg) ++ [CR]) = (verb, arg) := by
  have hb := parse_body verb arg k hv ha hh hk
  unfold parseLine
  simp only [List.getLast?_concat, List.dropLast_concat, if_true]
  exact hb

theorem line_noLF (v a : Bytes) (k : Nat) (hv : ∀ c ∈ v, c ≠ SP ∧ c ≠ NUL ∧ c ≠ LF) (ha : ∀ c ∈ a, c ≠ NUL ∧ c ≠ LF) :
    LF ∉ v ++ (List.replicate k SP ++ a) ++ [CR] := by
  intro h
  simp only [List.mem_append, List.mem_replicate, List.mem_singleton] at h
  rcases h with (h | h | h) | h
  · exact (hv _ h).2.2 rfl
  · exact absurd h.2 (by decide)
  · exact (ha _ h).2 rfl
  · exact absurd h (by decide)

def childMsg : Popup.Child → Bytes
  | .crashed => errLine "aack, child crashed"
  | .exited 0 => []
  | .exited _ => errLine "authorization failed"

theorem pfinish_auth (pid now : Nat) (host : Bytes) (child : Popup.Child) (r : Popup.PRun) (a : Popup.Auth)
    (h : r.act = .auth a) :
    Popup.pfinish pid now host child r = { out := r.out ++ childMsg child, fd3 := some (Popup.fd3 pid now host a), code := 1 } := by
  unfold Popup.pfinish
  rw [h]
  simp only [Popup.PResult.mk.injEq, and_true, List.append_cancel_left_eq]
  cases child with
  | crashed => rfl
  | exited c => cases c <;> rfl

theorem pmain_userpass (pid now : Nat) (host : Bytes) (child : Popup.Child) (v1 v2 u p tail : Bytes) (k1 k2 : Nat)
    (h1 : verbIs vUser v1 = true) (h2 : verbIs vPass v2 = true) (hk1 : k1 ≠ 0) (hk2 : k2 ≠ 0)
    (hu : ∀ c ∈ u, c ≠ NUL ∧ c ≠ LF) (hu0 : u ≠ []) (hus : u.head? ≠ some SP)
    (hp : ∀ c ∈ p, c ≠ NUL ∧ c ≠ LF) (hp0 : p ≠ []) (hps : p.head? ≠ some SP) :
    Popup.pmain pid now host child
        (v1 ++ (List.replicate k1 SP ++ u) ++ [CR] ++ [LF] ++ (v2 ++ (List.replicate k2 SP ++ p) ++ [CR] ++ [LF] ++ tail)) =
      { out := Popup.greeting pid now host ++ okLine ++ childMsg child,
        fd3 := some (u ++ [NUL] ++ p ++ [NUL] ++ [60] ++ Popup.unique pid now ++ host ++ [62, NUL]), code := 1 } := by
  have l1 : lower v1 = vUser := by simpa [verbIs] using h1
  have l2 : lower v2 = vPass := by simpa [verbIs] using h2
  have c1 := verb_clean v1 vUser l1 (by decide)
  have c2 := verb_clean v2 vPass l2 (by decide)
  have p1 := parse_cr v1 u k1 (fun c hc => ⟨(c1 c hc).1, (c1 c hc).2.1⟩) (fun c hc => (hu c hc).1) hus (fun _ => hk1)
  have p2 := parse_cr v2 p k2 (fun c hc => ⟨(c2 c hc).1, (c2 c hc).2.1⟩) (fun c hc => (hp c hc).1) hps (fun _ => hk2)
  unfold Popup.pmain
  rw [List.foldl_append, pfeed_line _ _ rfl rfl (line_noLF v1 u k1 c1 hu)]
  have s1 : pstepLine { out := Popup.greeting pid now host } (v1 ++ (List.replicate k1 SP ++ u) ++ [CR]) =
      { s := { seenuser := true, username := u }, cmd := [], out := Popup.greeting pid now host ++ okLine, act := .cont } := by
    unfold pstepLine
    simp only [p1]
    simp [Popup.pexec, verbIs, l1, hu0]
  rw [s1, List.foldl_append, pfeed_line _ _ rfl rfl (line_noLF v2 p k2 c2 hp)]
  have s2 : pstepLine { s := { seenuser := true, username := u }, cmd := [], out := Popup.greeting pid now host ++ okLine, act := .cont }
        (v2 ++ (List.replicate k2 SP ++ p) ++ [CR]) =
      { s := { seenuser := true, username := u }, cmd := [], out := Popup.greeting pid now host ++ okLine, act := .auth ⟨u, p⟩ } := by
    unfold pstepLine
    simp only [p2]
    simp [Popup.pexec, verbIs, l2, hp0, vUser, vPass]
  rw [s2, pfeed_auth tail _ ⟨u, p⟩ rfl, pfinish_auth pid now host child _ ⟨u, p⟩ rfl]
  simp [Popup.fd3]

theorem pmain_apop (pid now : Nat) (host : Bytes) (child : Popup.Child) (v name digest tail : Bytes) (k : Nat)
    (h : verbIs vApop v = true) (hk : k ≠ 0)
    (hn : ∀ c ∈ name, c ≠ NUL ∧ c ≠ LF ∧ c ≠ SP) (hn0 : name ≠ [])
    (hd : ∀ c ∈ digest, c ≠ NUL ∧ c ≠ LF) :
    Popup.pmain pid now host child (v ++ (List.replicate k SP ++ (name ++ SP :: digest)) ++ [CR] ++ [LF] ++ tail) =
      { out := Popup.greeting pid now host ++ childMsg child,
        fd3 := some (name ++ [NUL] ++ digest ++ [NUL] ++ [60] ++ Popup.unique pid now ++ host ++ [62, NUL]), code := 1 } := by
  have l : lower v = vApop := by simpa [verbIs] using h
  have c1 := verb_clean v vApop l (by decide)
  have ha : ∀ c ∈ name ++ SP :: digest, c ≠ NUL ∧ c ≠ LF := by
    intro c hc
    simp only [List.mem_append, List.mem_cons] at hc
    rcases hc with hc | hc | hc
    · exact ⟨(hn c hc).1, (hn c hc).2.1⟩
    · rw [hc]; decide
    · exact hd c hc
  have hhead : (name ++ SP :: digest).head? ≠ some SP := by
    cases name with
    | nil => exact absurd rfl hn0
    | cons c t =>
      simp only [List.cons_append, List.head?_cons, ne_eq, Option.some.injEq]
      exact (hn c (by simp)).2.2
  have p1 := parse_cr v (name ++ SP :: digest) k (fun c hc => ⟨(c1 c hc).1, (c1 c hc).2.1⟩) (fun c hc => (ha c hc).1) hhead (fun _ => hk)
  have hall : ∀ a ∈ name, (fun x : Byte => decide (x ≠ SP)) a = true := by
    intro a ha'; simpa using (hn a ha').2.2
  have ht := takeWhile_stop (fun x : Byte => decide (x ≠ SP)) name digest SP hall (by simp)
  have hdw := dropWhile_stop (fun x : Byte => decide (x ≠ SP)) name digest SP hall (by simp)
  unfold Popup.pmain
  rw [List.foldl_append, pfeed_line _ _ rfl rfl (line_noLF v _ k c1 ha)]
  have s1 : pstepLine { out := Popup.greeting pid now host } (v ++ (List.replicate k SP ++ (name ++ SP :: digest)) ++ [CR]) =
      { s := {}, cmd := [], out := Popup.greeting pid now host, act := .auth ⟨name, digest⟩ } := by
    unfold pstepLine
    simp only [p1]
    unfold Popup.pexec
    simp only [verbIs, l]
    rw [ht, hdw]
    simp [vUser, vPass, vApop]
  rw [s1, pfeed_auth tail _ ⟨name, digest⟩ rfl, pfinish_auth pid now host child _ ⟨name, digest⟩ rfl]
  simp [Popup.fd3]

end Nq.Lemmas.Pop3
