/- Nq.Lemmas.SmtpFlush — every event list of `cmdsEv` is disciplined; what `disciplinedB` means. -/
import Nq.SmtpFlush

namespace Nq.SmtpFlush
open Nq Nq.Substdio Nq.SmtpIO Nq.SmtpCmdIO

theorem disc_append : ∀ (a b : List FEv) (out : Nat),
    disciplinedB out (a ++ b) = (disciplinedB out a && disciplinedB (outAfter out a) b) := by
  intro a
  induction a with
  | nil => intro b out; simp [disciplinedB, outAfter]
  | cons e a ih =>
    intro b out
    cases e <;> simp [disciplinedB, outAfter, ih, Bool.and_assoc]

theorem outAfter_append : ∀ (a b : List FEv) (out : Nat), outAfter out (a ++ b) = outAfter (outAfter out a) b := by
  intro a
  induction a with
  | nil => intro b out; rfl
  | cons e a ih => intro b out; cases e <;> simp [outAfter, ih]

/-- a piece of the run that starts with `o` outstanding bytes is fine and leaves `o'` -/
def Piece (o : Nat) (evs : List FEv) (o' : Nat) : Prop := disciplinedB o evs = true ∧ outAfter o evs = o'

theorem Piece.append {o o' o'' : Nat} {a b : List FEv} (ha : Piece o a o') (hb : Piece o' b o'') : Piece o (a ++ b) o'' := by
  obtain ⟨a1, a2⟩ := ha; obtain ⟨b1, b2⟩ := hb
  exact ⟨by rw [disc_append, a1, a2, b1]; rfl, by rw [outAfter_append, a2, b2]⟩

theorem Piece.nil (o : Nat) : Piece o [] o := ⟨rfl, rfl⟩

theorem piece_flush (pend : Nat) : Piece pend (flushO pend) 0 := by
  unfold flushO
  by_cases h : pend = 0
  · subst h; exact ⟨rfl, rfl⟩
  · rw [if_neg h]; exact ⟨by simp [disciplinedB], by simp [outAfter]⟩

theorem piece_gen_put (size pend n : Nat) : Piece pend (.gen n :: (putO size pend n).1) (putO size pend n).2 := by
  unfold putO
  by_cases h1 : n > size - pend
  · rw [if_pos h1]
    by_cases h2 : n > size
    · rw [if_pos h2]
      unfold flushO
      by_cases h : pend = 0
      · subst h; simp [Piece, disciplinedB, outAfter]
      · rw [if_neg h]; simp [Piece, disciplinedB, outAfter]
    · rw [if_neg h2]
      unfold flushO
      by_cases h : pend = 0
      · subst h; simp [Piece, disciplinedB, outAfter]
      · rw [if_neg h]; simp [Piece, disciplinedB, outAfter]
  · rw [if_neg h1]; simp [Piece, disciplinedB, outAfter]

theorem piece_read (s : ISt) (pend : Nat) : Piece pend (readEv s pend).2.1 (readEv s pend).2.2 := by
  unfold readEv
  by_cases h : s.p = 0
  · rw [if_pos h]
    exact (piece_flush pend).append ⟨rfl, rfl⟩
  · rw [if_neg h]; exact Piece.nil pend

theorem piece_getLine : ∀ (fuel : Nat) (s : ISt) (pend : Nat),
    Piece pend (getLineEv fuel s pend).2.1 (getLineEv fuel s pend).2.2 := by
  intro fuel
  induction fuel with
  | zero => intro s pend; exact Piece.nil pend
  | succ fuel ih =>
    intro s pend
    have hr := piece_read s pend
    rw [getLineEv]
    generalize readEv s pend = q at hr
    obtain ⟨⟨s', g⟩, evs, pend'⟩ := q
    cases g with
    | byte c =>
      simp only
      by_cases hc : c = LF
      · rw [if_pos hc]; exact hr
      · rw [if_neg hc]; exact hr.append (ih s' pend')
    | eof => exact hr
    | err => exact hr

theorem piece_cmd (o i : Nat) : Piece o [FEv.cmd i] o := ⟨rfl, rfl⟩
theorem piece_fl : Piece 0 [FEv.fl] 0 := ⟨rfl, rfl⟩

theorem disc_of_piece {o o' : Nat} {a b : List FEv} (ha : Piece o a o') (hb : disciplinedB o' b = true) :
    disciplinedB o (a ++ b) = true := by
  rw [disc_append, ha.1, ha.2, hb]; rfl

theorem disc_cmdsEvFuel {σ : Type} (table : List Bytes) (flags : Nat → Bool) (h : Handler σ) (size : Nat) :
    ∀ (fuel : Nat) (st : σ) (s : ISt) (pend : Nat), disciplinedB pend (cmdsEvFuel table flags h size fuel st s pend) = true := by
  intro fuel
  induction fuel with
  | zero => intro st s pend; rfl
  | succ fuel ih =>
    intro st s pend
    have hl := piece_getLine ((pending s).length + 1) s pend
    rw [cmdsEvFuel]
    generalize getLineEv ((pending s).length + 1) s pend = q at hl
    obtain ⟨res, evs, pend'⟩ := q
    have hl' : Piece pend evs pend' := hl
    cases res with
    | line l s' =>
      simp only
      generalize h st (callOf table l) = r
      generalize (callOf table l).1 = ci
      have hp := piece_gen_put size pend' r.2.1
      generalize putO size pend' r.2.1 = pq at hp
      split
      · have := ((hl'.append hp).append (piece_flush _)).1
        simpa [List.append_assoc] using this
      · split
        · have h3 := (((hl'.append hp).append (piece_cmd pq.2 ci)).append (piece_flush _)).append piece_fl
          have := disc_of_piece h3 (ih r.1 s' 0)
          simpa [List.append_assoc] using this
        · have h1 := (hl'.append hp).append (piece_cmd pq.2 ci)
          have := disc_of_piece h1 (ih r.1 s' pq.2)
          simpa [List.append_assoc] using this
    | eof s' => exact hl'.1
    | err s' => exact hl'.1

theorem disc_cmdsEv {σ : Type} (table : List Bytes) (flags : Nat → Bool) (h : Handler σ) (size : Nat) (st : σ) (s : ISt) (banner : Nat) :
    disciplinedB 0 (cmdsEv table flags h size st s banner) = true := by
  unfold cmdsEv
  have hp := piece_gen_put size 0 banner
  have := disc_cmdsEvFuel table flags h size ((pending s).length + 1) st s (putO size 0 banner).2
  have h4 := disc_of_piece hp this
  simpa using h4

/-- what `disciplinedB` says, declaratively: before every read and after every flush callback, everything generated
so far (plus what was outstanding at the start) has been written; no write ever runs ahead of what was generated. -/
theorem disc_meaning : ∀ (pre : List FEv) (out : Nat) (e : FEv) (post : List FEv),
    disciplinedB out (pre ++ e :: post) = true →
    written pre ≤ out + generated pre ∧ ((e = .rd ∨ e = .fl) → written pre = out + generated pre) := by
  intro pre
  induction pre with
  | nil =>
    intro out e post h
    refine ⟨by simp [written], ?_⟩
    rintro (rfl | rfl) <;> simp [disciplinedB] at h <;> simp [written, generated, h.1]
  | cons x pre ih =>
    intro out e post h
    cases x with
    | gen n =>
      have := ih (out + n) e post (by simpa [disciplinedB] using h)
      simp only [written, generated]; constructor
      · omega
      · intro he; have := this.2 he; omega
    | wr n =>
      simp [disciplinedB] at h
      have := ih (out - n) e post h.2
      simp only [written, generated]; constructor
      · omega
      · intro he; have := this.2 he; omega
    | rd =>
      simp [disciplinedB] at h
      have := ih 0 e post h.2
      simp only [written, generated]; constructor
      · omega
      · intro he; have := this.2 he; omega
    | fl =>
      simp [disciplinedB] at h
      have := ih 0 e post h.2
      simp only [written, generated]; constructor
      · omega
      · intro he; have := this.2 he; omega
    | cmd i =>
      have := ih out e post (by simpa [disciplinedB] using h)
      simp only [written, generated]; exact this

end Nq.SmtpFlush
