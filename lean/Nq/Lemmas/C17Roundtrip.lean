/-
  C17 lemmas: the header round trip carried through `token822_addrlist` (one plain mailbox), dot-atom hosts as
  token lists (what `quote2`+`token822_parse` make of a command-line recipient or a control value), and the
  bundle of configuration hypotheses of the rewriting theorems.
-/
import Nq.Lemmas.C17Rewrite
namespace Nq.Lemmas.C17
open Nq Nq.Quote Nq.Token822 Nq.Inject Nq.Spec.Addr Nq.Spec.Lex822

/-! ### `sepOk` of a reversed list, read forwards -/

/-- `sepOk true l.reverse`, read left to right: words and `@`/`.` only, a word is never followed by a word -/
def fwdOk : List Tok → Bool
  | [] => true
  | t :: r => (if isWordTok t then (match r with | [] => true | u :: _ => !isWordTok u) else isSepTok t) && fwdOk r

def endB : Bool → List Tok → Bool
  | w, [] => w
  | _, t :: r => endB (!isWordTok t) r

theorem sepOk_snoc (l : List Tok) (t : Tok) : ∀ w, sepOk w (l ++ [t]) = (sepOk w l && (if isWordTok t then endB w l else isSepTok t)) := by
  induction l with
  | nil => intro w; by_cases h : isWordTok t = true <;> simp [sepOk, endB, h]
  | cons u l ih =>
    intro w
    by_cases hu : isWordTok u = true
    · simp [sepOk, endB, hu, ih, Bool.and_assoc]
    · simp [sepOk, endB, hu, ih, Bool.and_assoc]

theorem endB_snoc (l : List Tok) (t : Tok) : ∀ w, endB w (l ++ [t]) = !isWordTok t := by
  induction l with
  | nil => intro w; rfl
  | cons u l ih => intro w; simp [endB, ih]

theorem sepOk_reverse (l : List Tok) (h : fwdOk l = true) : sepOk true l.reverse = true := by
  induction l with
  | nil => rfl
  | cons t r ih =>
    simp only [fwdOk, Bool.and_eq_true] at h
    rw [List.reverse_cons, sepOk_snoc, ih h.2]
    cases r with
    | nil => simpa [endB] using h.1
    | cons u r' =>
      rw [List.reverse_cons, endB_snoc]
      simpa using h.1

theorem fwdOk_dotAtoms (s : Bytes) (tail : List Tok) (ht : fwdOk tail = true)
    (hh : ∀ u r, tail = u :: r → isWordTok u = false) :
    ∀ cur, fwdOk (dotAtomsAux s cur ++ tail) = true := by
  induction s with
  | nil =>
    intro cur
    cases cur with
    | nil => simpa [dotAtomsAux] using ht
    | cons x xs =>
      cases tail with
      | nil => simp [dotAtomsAux, fwdOk, isWordTok]
      | cons u r =>
        have hw := hh u r rfl
        have ha : isWordTok (Tok.atom (x :: xs)) = true := rfl
        have e : dotAtomsAux [] (x :: xs) ++ u :: r = Tok.atom (x :: xs) :: u :: r := by simp [dotAtomsAux]
        have e2 : fwdOk (Tok.atom (x :: xs) :: u :: r) = ((!isWordTok u) && fwdOk (u :: r)) := by
          simp [fwdOk, ha]
        rw [e, e2, hw, ht]; rfl
  | cons c s ih =>
    intro cur
    by_cases hd : c = DOT
    · subst hd
      cases cur with
      | nil => simpa [dotAtomsAux, fwdOk, isWordTok, isSepTok] using ih []
      | cons x xs => simpa [dotAtomsAux, fwdOk, isWordTok, isSepTok] using ih []
    · simpa [dotAtomsAux, hd] using ih (cur ++ [c])

/-! ### dot-atom hosts -/

theorem plainByte_atomByte {c : Byte} (h : plainByte c = true) : atomByte c = true := by
  obtain ⟨_, _, _, _, _, _, _, _, h9, h10, _, _, _⟩ := plain_facts h
  simp [atomByte, h9, h10]

theorem dotAtomsAux_hostTok (s : Bytes) (hs : s.all okChar = true) :
    ∀ cur, cur.all plainByte = true → (dotAtomsAux s cur).all hostTok = true := by
  induction s with
  | nil =>
    intro cur hc
    cases cur with
    | nil => simp [dotAtomsAux]
    | cons x xs =>
      have : (x :: xs).all atomByte = true := by
        rw [List.all_eq_true] at hc ⊢
        intro y hy; exact plainByte_atomByte (hc y hy)
      simp only [dotAtomsAux, List.isEmpty_cons, Bool.false_eq_true, if_false, List.all_cons, List.all_nil, Bool.and_true, hostTok]
      simpa using this
  | cons c s ih =>
    intro cur hc
    simp only [List.all_cons, Bool.and_eq_true] at hs
    by_cases hd : c = DOT
    · subst hd
      have := ih hs.2 [] (by simp)
      cases cur with
      | nil => simpa [dotAtomsAux, hostTok] using this
      | cons x xs =>
        have hx : (x :: xs).all atomByte = true := by
          rw [List.all_eq_true] at hc ⊢
          intro y hy; exact plainByte_atomByte (hc y hy)
        have e : dotAtomsAux (DOT :: s) (x :: xs) = .atom (x :: xs) :: .dot :: dotAtomsAux s [] := by simp [dotAtomsAux]
        have h1 : hostTok (.atom (x :: xs)) = true := by simp only [hostTok]; simpa using hx
        have h2 : hostTok .dot = true := rfl
        rw [e, List.all_cons, List.all_cons, this, h1, h2]; rfl
    · have hp : plainByte c = true := by simp [plainByte, hs.1, hd]
      simpa [dotAtomsAux, hd] using ih hs.2 (cur ++ [c]) (by simp [hc, hp])

/-- a dot-atom string that is not empty and does not end in a dot ends in an atom -/
theorem dotAtomsAux_last (s : Bytes) :
    ∀ cur, cur ++ s ≠ [] → (cur ++ s).getLast? ≠ some DOT → ∃ h0 a, dotAtomsAux s cur = h0 ++ [Tok.atom a] := by
  induction s with
  | nil =>
    intro cur hne _
    cases cur with
    | nil => simp at hne
    | cons x xs => exact ⟨[], x :: xs, by simp [dotAtomsAux]⟩
  | cons c s ih =>
    intro cur hne hl
    by_cases hd : c = DOT
    · subst hd
      have hs : s ≠ [] := by
        intro e; subst e; simp at hl
      have hl' : ([] ++ s).getLast? ≠ some DOT := by
        have : (cur ++ DOT :: s).getLast? = s.getLast? := by
          cases s with
          | nil => exact absurd rfl hs
          | cons b s =>
            simp only [List.getLast?_append, List.getLast?_cons_cons]
            cases hx : (b :: s).getLast? with
            | none => simp at hx
            | some x => simp
        rw [this] at hl; simpa using hl
      obtain ⟨h0, a, e⟩ := ih [] (by simpa using hs) hl'
      refine ⟨(if cur.isEmpty then [Tok.dot] else [.atom cur, .dot]) ++ h0, a, ?_⟩
      simp [dotAtomsAux, e]
    · obtain ⟨h0, a, e⟩ := ih (cur ++ [c]) (by simp) (by simpa using hl)
      exact ⟨h0, a, by simp [dotAtomsAux, hd, e]⟩

/-- **a sane host name** (`ok[]` bytes, non-empty, not ending in a dot) **is tokenized as a dot-atom ending in an atom** -/
theorem host_tokens (d : Bytes) (hd : d.all okChar = true) (hne : d ≠ []) (hl : d.getLast? ≠ some DOT) :
    ∃ h0 s, dotAtomsAux d [] = h0 ++ [Tok.atom s] ∧ (h0 ++ [Tok.atom s]).all hostTok = true ∧ unquote (h0 ++ [Tok.atom s]) = d := by
  obtain ⟨h0, s, e⟩ := dotAtomsAux_last d [] (by simpa using hne) (by simpa using hl)
  refine ⟨h0, s, e, ?_, ?_⟩
  · rw [← e]; exact dotAtomsAux_hostTok d hd [] (by simp)
  · rw [← e]; simpa using unquote_dotAtomsAux d []

/-! ### the header round trip, with the token facts `token822_addrlist` needs -/

theorem domain_run2 (d : Bytes) (hd : saneDomain d = true) :
    ∃ dts, prun .top d = some dts ∧ unquote dts = d ∧ dts.all isDomainTok = true ∧ fwdOk dts = true := by
  simp only [saneDomain, Bool.or_eq_true] at hd
  rcases hd with hd | hd
  · have := (plain_run d hd [] [] (Or.inl rfl) (by simp [prun, pfinish])).1
    simp only [List.append_nil] at this
    refine ⟨_, this, by simpa using unquote_dotAtomsAux d [], dotAtomsAux_domainTok d [], ?_⟩
    simpa using fwdOk_dotAtoms d [] rfl (by simp) []
  · obtain ⟨dts, h1, h2, h3⟩ := domain_run d (by simp [saneDomain, hd])
    unfold isDomainLiteral at hd
    split at hd
    · rename_i r
      simp only [Bool.and_eq_true, beq_iff_eq] at hd
      obtain ⟨g1, g2⟩ := hd
      have hr : r = r.dropLast ++ [93] := getLast_split r g1
      refine ⟨[.literal r.dropLast], ?_, ?_, by simp [isDomainTok], by simp [fwdOk, isWordTok]⟩
      · rw [hr]
        have e : (91 : Byte) :: (r.dropLast ++ [93]) = LBRK :: (r.dropLast ++ RBRK :: []) := rfl
        rw [List.dropLast_concat, e, prun_cons]
        simp only [pstep, stepTop_lbrk]
        rw [lit_run r.dropLast [] [] g2]
        simp [prun, pfinish]
      · conv => rhs; rw [hr]
        simp [unquote, unqTok, LBRK, RBRK]
    · simp at hd

/-- **header round trip, full form**: additionally the tokens are one plain mailbox for `token822_addrlist`
(`sepOk` of the reversed list, non-empty) -/
theorem header_roundtrip_full (l d : Bytes) (hd : saneDomain d = true) :
    ∃ ts, parse (quote2 (l ++ AT :: d)) = some ts ∧ unquote ts = l ++ AT :: d ∧ mailboxShape ts = true ∧
      ts ≠ [] ∧ sepOk true ts.reverse = true := by
  obtain ⟨dts, hd1, hd2, hd3, hd4⟩ := domain_run2 d hd
  have hat : prun .top (AT :: d) = some (.at :: dts) := by
    rw [prun_cons]; simp only [pstep, stepTop_at, hd1]; simp
  have hfat : fwdOk (Tok.at :: dts) = true := by simp [fwdOk, isWordTok, isSepTok, hd4]
  rw [quote2_split l d (at_not_in_sane d hd)]
  unfold parse quote
  by_cases hn : quoteNeed l = true
  · simp only [hn, if_true]
    refine ⟨.quote l :: .at :: dts, ?_, ?_, ?_, by simp, ?_⟩
    · have e : doit l ++ AT :: d = Token822.DQ :: (escape l ++ Token822.DQ :: (AT :: d)) := by
        simp [doit, Quote.DQ, Token822.DQ]
      rw [e, prun_cons]
      simp only [pstep, stepTop_dq]
      rw [quote_run l [] (AT :: d), hat]
      simp
    · simp [unquote, unqTok, hd2]
    · simp [mailboxShape, splitAtTok, isLocalToks, hd3]
    · apply sepOk_reverse
      simp [fwdOk, isWordTok, isSepTok, hd4]
  · have hn' : quoteNeed l = false := by simpa using hn
    obtain ⟨hg, hok⟩ := goodDots_of_noNeed l hn'
    simp only [hn', Bool.false_eq_true, if_false]
    refine ⟨dotAtomsAux l [] ++ .at :: dts, ?_, ?_, ?_, by simp, ?_⟩
    · exact (plain_run l hok (AT :: d) (.at :: dts) (Or.inr ⟨AT, d, rfl, dot_at_facts.2.2.2.1⟩) hat).1
    · rw [unquote_append, unquote_dotAtomsAux]
      simp [unquote, unqTok, hd2]
    · simp only [mailboxShape, splitAtTok_append _ _ (dotAtomsAux_noAt l [])]
      simp [isLocalToks_of_dotAtom _ (dotAtoms_shape l [] hg), hd3]
    · apply sepOk_reverse
      exact fwdOk_dotAtoms l _ hfat (by simp [isWordTok]) []

/-- what `quote2` + `token822_parse` make of `local@host` for a sane dot-atom host: local tokens (one quoted
string, or a dot-atom), `@`, the host's dot-atom tokens ending in an atom -/
theorem arg_tokens (l d : Bytes) (hd : d.all okChar = true) (hne : d ≠ []) (hl : d.getLast? ≠ some DOT) :
    ∃ ls h0 s, parse (quote2 (l ++ AT :: d)) = some (ls ++ .at :: (h0 ++ [Tok.atom s])) ∧ unquote ls = l ∧ ls ≠ [] ∧
      ls.head? ≠ some .at ∧ (h0 ++ [Tok.atom s]).all hostTok = true ∧ unquote (h0 ++ [Tok.atom s]) = d := by
  obtain ⟨h0, s, e, hh, hu⟩ := host_tokens d hd hne hl
  have hd1 : prun .top d = some (h0 ++ [Tok.atom s]) := by
    have := (plain_run d hd [] [] (Or.inl rfl) (by simp [prun, pfinish])).1
    simpa [e] using this
  have hat : prun .top (AT :: d) = some (.at :: (h0 ++ [Tok.atom s])) := by
    rw [prun_cons]; simp only [pstep, stepTop_at, hd1]; simp
  have hsane : saneDomain d = true := by simp [saneDomain, hd]
  rw [quote2_split l d (at_not_in_sane d hsane)]
  unfold parse quote
  by_cases hn : quoteNeed l = true
  · simp only [hn, if_true]
    refine ⟨[.quote l], h0, s, ?_, by simp [unquote, unqTok], by simp, by simp, hh, hu⟩
    have e2 : doit l ++ AT :: d = Token822.DQ :: (escape l ++ Token822.DQ :: (AT :: d)) := by
      simp [doit, Quote.DQ, Token822.DQ]
    rw [e2, prun_cons]
    simp only [pstep, stepTop_dq]
    rw [quote_run l [] (AT :: d), hat]
    simp
  · have hn' : quoteNeed l = false := by simpa using hn
    obtain ⟨hg, hok⟩ := goodDots_of_noNeed l hn'
    simp only [hn', Bool.false_eq_true, if_false]
    have hshape := dotAtoms_shape l [] hg
    refine ⟨dotAtomsAux l [], h0, s, ?_, by simpa using unquote_dotAtomsAux l [], ?_, ?_, hh, hu⟩
    · exact (plain_run l hok (AT :: d) _ (Or.inr ⟨AT, d, rfl, dot_at_facts.2.2.2.1⟩) hat).1
    · intro e0; rw [e0] at hshape; simp [isDotAtomToks] at hshape
    · cases hx : dotAtomsAux l [] with
      | nil => simp
      | cons t r =>
        have := dotAtomsAux_noAt l [] t (by rw [hx]; simp)
        simpa using this

/-! ### configuration hypotheses of the rewriting theorems, bundled -/

/-- the token lists `getcontrols` stores are the tokens of sane control values: `defaultdomain`/`plusdomain`
unquote to `.d` (plusdomain: DOT first, no '@'), `defaulthost` is `@` followed by a dot-atom ending in an atom -/
structure CfgSpec (c : RwCfg) (sp : RwSpec) : Prop where
  dd : unquote c.defaultdomain = DOT :: sp.defaultdomain
  pd : ∃ pt, c.plusdomain = .dot :: pt ∧ (∀ t ∈ pt, t ≠ Tok.at) ∧ unquote c.plusdomain = DOT :: sp.plusdomain
  dh : ∃ d0 s, c.defaulthost = .at :: (d0 ++ [Tok.atom s]) ∧ (d0 ++ [Tok.atom s]).all hostTok = true ∧
        unquote (d0 ++ [Tok.atom s]) = sp.defaulthost

theorem splitAtTok_some : ∀ (m a b : List Tok), splitAtTok m = some (a, b) → m = a ++ .at :: b ∧ Tok.at ∉ a := by
  intro m
  induction m with
  | nil => intro a b h; simp [splitAtTok] at h
  | cons t r ih =>
    intro a b h
    simp only [splitAtTok] at h
    split at h
    · rename_i ht
      simp only [Option.some.injEq, Prod.mk.injEq] at h
      obtain ⟨rfl, rfl⟩ := h
      exact ⟨by simp [ht], by simp⟩
    · rename_i ht
      cases hs : splitAtTok r with
      | none => simp [hs] at h
      | some p =>
        obtain ⟨a', b'⟩ := p
        simp only [hs, Option.some.injEq, Prod.mk.injEq] at h
        obtain ⟨rfl, rfl⟩ := h
        obtain ⟨e1, e2⟩ := ih a' b' hs
        refine ⟨by rw [e1]; simp, ?_⟩
        intro hm
        simp only [List.mem_cons] at hm
        rcases hm with hm | hm
        · exact ht hm.symm
        · exact e2 hm

theorem splitAtTok_none : ∀ (m : List Tok), splitAtTok m = none → Tok.at ∉ m := by
  intro m
  induction m with
  | nil => intro _; simp
  | cons t r ih =>
    intro h
    simp only [splitAtTok] at h
    split at h
    · simp at h
    · rename_i ht
      cases hs : splitAtTok r with
      | none =>
        intro hm
        simp only [List.mem_cons] at hm
        rcases hm with hm | hm
        · exact ht hm.symm
        · exact ih hs hm
      | some p => simp [hs] at h

/-- **the envelope string the documentation prescribes for a mailbox** given as the reversed token list the
callback sees (`host-reversed @ local-reversed`, split at the first `@` from the right end): `local@host` rewritten by
`Spec.Addr.rewriteMailbox` -/
def specString (sp : RwSpec) (m : List Tok) : Bytes :=
  match splitAtTok m with
  | none => rewriteMailbox sp (unquote m.reverse) none
  | some (hr, lr) => rewriteMailbox sp (unquote lr.reverse) (some (unquote hr.reverse))

/-- the mailboxes `specString` is proved for: a lone box name not ending in a dot; or `local@host` with a non-empty
local part that is not a source route and a host that is one domain literal or a dot-atom of legal atoms ending in an atom -/
def specShape (m : List Tok) : Bool :=
  match splitAtTok m with
  | none => !m.isEmpty && m.head? != some .dot
  | some (hr, lr) => !lr.isEmpty && lr.getLast? != some .at &&
      (match hr with
       | [.literal _] => true
       | .atom _ :: _ => hr.all hostTok
       | _ => false)

/-- `rwgeneric` after its first step -/
def rwBody (c : RwCfg) (a1 : List Tok) : List Tok :=
  if a1.isEmpty then a1 else
  let a2 := rwextradot a1
  if a2.isEmpty then a2 else
  let a3 := rwextraat a2
  if a3.isEmpty then a3 else
  rwnodot c (rwplus c (rwnoat c a3))

theorem rwgeneric_body (c : RwCfg) (x : List Tok) (hx : x ≠ []) (hl : ∀ y, x ≠ .literal [] :: .at :: y) :
    rwgeneric c x = rwBody c (rwroute x) := by
  unfold rwgeneric
  split
  · exact absurd rfl hx
  · rename_i y; exact absurd rfl (hl y)
  · rfl

end Nq.Lemmas.C17
