/-
  Helper lemmas for C09 about `rreport` (qmail-rspawn.c `report()`): the scan loop finds the first
  NUL-terminated record starting with K, Z or D; the relayed letter.
-/
import Nq.RspawnReport
import Nq.Spec.RemoteVerdict
namespace Nq.Lemmas.Rspawn
open Nq Nq.RemoteSmtp Nq.RspawnReport Nq.Spec.RemoteVerdict

/-- the scan state that corresponds to a partly read record `cur` (most recent byte first) -/
def stOf (cur : Bytes) : RSc :=
  match cur.reverse with
  | [] => .start
  | c :: _ => if c = cK then .inK else if c = cZ then .inZ else if c = cD then .inD else .skip

/-- `result` as a function of the first K/Z/D record -/
def resultOf : Option Byte → Int
  | some c => if c = cK then 1 else if c = cZ then 0 else -1
  | none => -1

theorem stOf_cons (c : Byte) (cur : Bytes) (h : cur ≠ []) : stOf (c :: cur) = stOf cur := by
  unfold stOf
  have : cur.reverse ≠ [] := by simpa using h
  cases hr : cur.reverse with
  | nil => exact absurd hr this
  | cons x t => simp [hr]

theorem stOf_ne_start (cur : Bytes) (h : cur ≠ []) : stOf cur ≠ .start := by
  unfold stOf
  have : cur.reverse ≠ [] := by simpa using h
  cases hr : cur.reverse with
  | nil => exact absurd hr this
  | cons x t =>
    simp only
    repeat' split
    all_goals simp

theorem firstKZD_cons (r : Bytes) (rs : List Bytes) :
    firstKZD (r :: rs) = if isKZD (headB r) then some (headB r) else firstKZD rs := by
  unfold firstKZD
  by_cases h : isKZD (headB r) = true
  · simp [List.find?, h]
  · simp [List.find?, h]

/-- **the scan loop of `report()` finds the first NUL-terminated record that starts with K, Z or D** -/
theorem scan_records (s : Bytes) : ∀ cur : Bytes, scan (stOf cur) s = resultOf (firstKZD (records cur s)) := by
  induction s with
  | nil => intro cur; cases stOf cur <;> simp [scan, records, firstKZD, resultOf]
  | cons c r ih =>
    intro cur
    by_cases hc : c = NUL
    · subst hc
      simp only [records, if_true, firstKZD_cons]
      cases hr : cur.reverse with
      | nil =>
        have : cur = [] := by simpa using hr
        subst this
        have := ih []
        simp [stOf, scan, headB, isKZD, cK, cZ, cD] at this ⊢
        exact this
      | cons x t =>
        have h0 := ih []
        by_cases hK : x = cK
        · simp [stOf, hr, hK, scan, headB, isKZD, resultOf]
        · by_cases hZ : x = cZ
          · simp [stOf, hr, hZ, scan, headB, isKZD, resultOf, cK, cZ]
          · by_cases hD : x = cD
            · simp [stOf, hr, hD, scan, headB, isKZD, resultOf, cK, cZ, cD]
            · have : isKZD x = false := by simp [isKZD, hK, hZ, hD]
              simp [stOf, hr, hK, hZ, hD, scan, headB, this]
              simpa [stOf] using h0
    · have hrec : records cur (c :: r) = records (c :: cur) r := by simp [records, hc]
      rw [hrec, ← ih (c :: cur)]
      cases hcur : cur with
      | nil =>
        by_cases hK : c = cK
        · simp [stOf, scan, hK, cK, NUL]
        · by_cases hZ : c = cZ
          · simp [stOf, scan, hK, hZ, cK, cZ, NUL]
          · by_cases hD : c = cD
            · simp [stOf, scan, hK, hZ, hD, cK, cZ, cD, NUL]
            · simp [stOf, scan, hc, hK, hZ, hD]
      | cons y t =>
        rw [stOf_cons c (y :: t) (by simp)]
        have hne := stOf_ne_start (y :: t) (by simp)
        cases hst : stOf (y :: t) with
        | start => exact absurd hst hne
        | inK => simp [scan, hc]
        | inZ => simp [scan, hc]
        | inD => simp [scan, hc]
        | skip => simp [scan, hc]


theorem scan_start (s : Bytes) : scan .start s = resultOf (firstKZD (records [] s)) := by
  simpa [stOf] using scan_records s []

theorem resultOf_range (o : Option Byte) : resultOf o = 1 ∨ resultOf o = 0 ∨ resultOf o = -1 := by
  unfold resultOf
  cases o with
  | none => simp
  | some c => by_cases h1 : c = cK <;> by_cases h2 : c = cZ <;> simp [h1, h2, cK, cZ]

theorem orrOf_range (s : Bytes) (v : Int) (h : v = 1 ∨ v = 0 ∨ v = -1) :
    orrOf s v = 1 ∨ orrOf s v = 0 ∨ orrOf s v = -1 := by
  unfold orrOf
  cases s with
  | nil => exact h
  | cons c _ => by_cases h1 : c = lS <;> by_cases h2 : c = lH <;> simp [h1, h2, h, lS, lH]

/-- the letter `report()` prints for a value of `orr` -/
def letterB (v : Int) : Byte := if v = 1 then cK else if v = 0 then cZ else cD

theorem headB_letter (v : Int) (t : Bytes) (h : v = 1 ∨ v = 0 ∨ v = -1) : headB (letterOf v ++ t) = letterB v := by
  rcases h with h | h | h <;> subst h <;> simp [letterOf, letterB, headB]

/-- the normal case of `report()`: exit 0, no crash, some output -/
theorem rreport_normal (wstat : Nat) (s : Bytes) (h1 : wstat % 128 = 0) (h2 : wstat / 256 = 0) (h3 : s ≠ []) :
    rreport wstat s =
      letterOf (orrOf s (scan .start s)) ++ tailOf s (scan .start s) (orrOf s (scan .start s)) := by
  unfold rreport
  simp [h1, h2, h3]

theorem headB_rreport_normal (wstat : Nat) (s : Bytes) (h1 : wstat % 128 = 0) (h2 : wstat / 256 = 0) (h3 : s ≠ []) :
    headB (rreport wstat s) = letterB (orrOf s (resultOf (firstKZD (records [] s)))) := by
  rw [rreport_normal wstat s h1 h2 h3, scan_start]
  exact headB_letter _ _ (orrOf_range _ _ (resultOf_range _))

theorem sound_core (c : Byte) (t : Bytes) (m : Option Byte) (h : letterB (orrOf (c :: t) (resultOf m)) = cK) :
    c ≠ lH ∧ c ≠ lS ∧ m = some cK := by
  by_cases hS : c = lS
  · simp [orrOf, hS, letterB, cK, cZ] at h
  · by_cases hH : c = lH
    · simp [orrOf, hH, letterB, cK, cD, lS, lH] at h
    · refine ⟨hH, hS, ?_⟩
      cases m with
      | none => simp [orrOf, hS, hH, resultOf, letterB, cK, cD] at h
      | some x =>
        by_cases hK : x = cK
        · rw [hK]
        · by_cases hZ : x = cZ
          · simp [orrOf, hS, hH, resultOf, hK, hZ, letterB, cK, cZ, cD] at h
          · simp [orrOf, hS, hH, resultOf, hK, hZ, letterB, cK, cZ, cD] at h

theorem noup_core (c : Byte) (t : Bytes) (m : Option Byte) :
    ((match m with
      | some x => decide (rank (letterB (orrOf (c :: t) (resultOf m))) ≤ rank x) || c == lS
      | none => letterB (orrOf (c :: t) (resultOf m)) != cK) &&
     (c != lH || letterB (orrOf (c :: t) (resultOf m)) == cD) &&
     (c != lS || letterB (orrOf (c :: t) (resultOf m)) != cK)) = true := by
  by_cases hS : c = lS
  · cases m <;> simp [orrOf, hS, letterB, rank, cK, cZ, cD, lS, lH]
  · by_cases hH : c = lH
    · cases m <;> simp [orrOf, hH, letterB, rank, cK, cZ, cD, lS, lH]
    · cases m with
      | none => simp [orrOf, hS, hH, resultOf, letterB, cK, cZ, cD]
      | some x =>
        by_cases hK : x = cK
        · simp [orrOf, hS, hH, resultOf, hK, letterB, rank]
        · by_cases hZ : x = cZ
          · simp [orrOf, hS, hH, resultOf, hK, hZ, letterB, rank, cK, cZ, cD]
          · simp [orrOf, hS, hH, resultOf, hK, hZ, letterB, rank, cK, cZ, cD]

theorem rspawnSound_rreport (wstat : Nat) (s : Bytes) : rspawnSound wstat s (rreport wstat s) = true := by
  unfold rspawnSound
  by_cases h1 : wstat % 128 = 0
  · by_cases h2 : wstat / 256 = 0
    · cases s with
      | nil => simp [rreport, h1, h2]; decide
      | cons c t =>
        rw [headB_rreport_normal wstat (c :: t) h1 h2 (by simp)]
        by_cases hk : letterB (orrOf (c :: t) (resultOf (firstKZD (records [] (c :: t))))) = cK
        · obtain ⟨a1, a2, a3⟩ := sound_core c t _ hk
          simp [hk, h1, h2, headB, a1, a2, a3]
        · simp [hk]
    · by_cases h3 : wstat / 256 = 111
      · simp [rreport, h1, h3]; decide
      · simp [rreport, h1, h2, h3]; decide
  · simp [rreport, h1]; decide

theorem rspawnClasses_rreport (wstat : Nat) (s : Bytes) : rspawnClasses wstat s (rreport wstat s) = true := by
  unfold rspawnClasses
  by_cases h1 : wstat % 128 = 0
  · by_cases h2 : wstat / 256 = 0
    · cases s with
      | nil => simp [rreport, h1, h2]; decide
      | cons c t =>
        rw [headB_rreport_normal wstat (c :: t) h1 h2 (by simp)]
        simp only [h1, h2, ne_eq, not_true_eq_false, if_false, List.isEmpty_cons]
        simp only [show (0 : Nat) ≠ 111 by decide, if_false, Bool.false_eq_true]
        unfold letterB isKZD
        repeat' split
        all_goals decide
    · by_cases h3 : wstat / 256 = 111
      · simp [rreport, h1, h3]; decide
      · simp [rreport, h1, h2, h3]; decide
  · simp [rreport, h1]; decide

theorem noUpgrade_rreport (wstat : Nat) (s : Bytes) (h1 : wstat % 128 = 0) (h2 : wstat / 256 = 0) (h3 : s ≠ []) :
    noUpgrade s (rreport wstat s) = true := by
  unfold noUpgrade
  cases s with
  | nil => exact absurd rfl h3
  | cons c t =>
    simp only [headB_rreport_normal wstat (c :: t) h1 h2 (by simp)]
    have := noup_core c t (firstKZD (records [] (c :: t)))
    cases hm : firstKZD (records [] (c :: t)) with
    | none => rw [hm] at this; simpa [headB] using this
    | some x => rw [hm] at this; simpa [headB] using this

theorem cstr_cons_ne (c : Byte) (r : Bytes) (h : c ≠ NUL) : cstr (c :: r) = c :: cstr r := by simp [cstr, h]

/-- the text part of `report()` consists of bytes of the output only -/
theorem relayWithin_rreport (wstat : Nat) (s : Bytes) (h1 : wstat % 128 = 0) (h2 : wstat / 256 = 0) (h3 : s ≠ []) :
    relayWithin s (rreport wstat s) = true := by
  rw [rreport_normal wstat s h1 h2 h3]
  have hr := orrOf_range s (scan .start s) (by rw [scan_start]; exact resultOf_range _)
  generalize orrOf s (scan .start s) = orr at hr
  generalize scan .start s = result
  have hd : (letterOf orr ++ tailOf s result orr).drop 1 = tailOf s result orr := by
    rcases hr with h | h | h <;> subst h <;> simp [letterOf]
  unfold relayWithin
  simp only [hd]
  cases s with
  | nil => exact absurd rfl h3
  | cons c s1 =>
    simp only [tailOf, List.drop_succ_cons, List.drop_zero]
    cases hn : afterNul s1 with
    | none => simp
    | some rest =>
      simp only
      by_cases hle : result ≤ orr
      · simp only [hle, if_true]
        cases rest with
        | nil => simp
        | cons c' rest' =>
          by_cases hk : c' = cZ ∨ c' = cD ∨ c' = cK
          · have hne : c' ≠ NUL := by rcases hk with h | h | h <;> rw [h] <;> decide
            simp [hk, cstr_cons_ne c' rest' hne]
          · simp [hk]
      · simp [hle]

end Nq.Lemmas.Rspawn
