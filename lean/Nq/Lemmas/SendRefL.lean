/-
  The step-based reference reader `refMarks` (Nq.Spec.TrustBoundary) computes exactly the declarative
  reader `refMarksDecl` (Nq.Spec.ReportRef) on EVERY byte stream.  The only fact about REPORTMAX that
  is used is `2 ≤ REPORTMAX`.
-/
import Nq.Spec.ReportRef
import Nq.Lemmas.SendL

namespace Nq.Lemmas.SendRefL
open Nq Nq.SendReport Nq.Spec.TB

theorem two_le_R : 2 ≤ Nq.Gen.REPORTMAX := by unfold Nq.Gen.REPORTMAX; omega

/-- the buffer update of `refStep` -/
def push (st : RefSt) (ch : Byte) : RefSt :=
  if st.n < Nq.Gen.REPORTMAX then { st with rev := ch :: st.rev, n := st.n + 1 } else st

/-- the reader's state after the bytes `p` of the current line have been read -/
def rd (p : Bytes) (cur : List (Option Slot)) : RefSt :=
  { rev := (p.take Nq.Gen.REPORTMAX).reverse, n := min Nq.Gen.REPORTMAX p.length, slots := cur }

theorem rd_nil (cur : List (Option Slot)) : rd [] cur = { rev := [], n := 0, slots := cur } := by
  simp [rd]

theorem refStep_eq (c : Nat) (jobs : List Job) (st : RefSt) (ch : Byte) :
    refStep c jobs st ch =
      if ch = 0 ∧ (push st ch).n > 1 then
        match (push st ch).slots.getD (((push st ch).rev.reverse.headD 0).toNat) none with
        | none => ({ (push st ch) with rev := [], n := 0 }, [])
        | some sl =>
          ({ rev := [], n := 0,
             slots := (push st ch).slots.set (((push st ch).rev.reverse.headD 0).toNat) none },
           if (push st ch).rev.reverse.getD 1 0 = 75 ∨ (push st ch).rev.reverse.getD 1 0 = 68 ∨
              ((push st ch).rev.reverse.getD 1 0 = 90 ∧
                (jobs.getD sl.j ⟨0, 0, 0, false, false, 0, 0⟩).dying)
           then [entryOf c jobs sl] else [])
      else (push st ch, []) := rfl

theorem push_rd (p : Bytes) (cur : List (Option Slot)) (ch : Byte) :
    push (rd p cur) ch = rd (p ++ [ch]) cur := by
  unfold push rd
  by_cases h : p.length < Nq.Gen.REPORTMAX
  · have h1 : min Nq.Gen.REPORTMAX p.length = p.length := by omega
    have h2 : min Nq.Gen.REPORTMAX (p ++ [ch]).length = p.length + 1 := by
      simp only [List.length_append, List.length_singleton]; omega
    have h3 : p.take Nq.Gen.REPORTMAX = p := List.take_of_length_le (by omega)
    have h4 : (p ++ [ch]).take Nq.Gen.REPORTMAX = p ++ [ch] :=
      List.take_of_length_le (by simp only [List.length_append, List.length_singleton]; omega)
    simp only [h1, h2, h3, h4, h, if_true, List.reverse_append, List.reverse_singleton,
      List.singleton_append]
  · have h1 : min Nq.Gen.REPORTMAX p.length = Nq.Gen.REPORTMAX := by omega
    have h2 : min Nq.Gen.REPORTMAX (p ++ [ch]).length = Nq.Gen.REPORTMAX := by
      simp only [List.length_append, List.length_singleton]; omega
    have h4 : (p ++ [ch]).take Nq.Gen.REPORTMAX = p.take Nq.Gen.REPORTMAX :=
      List.take_append_of_le_length (by omega)
    simp only [h1, h2, h4, Nat.lt_irrefl, if_false]

theorem rd_n_append (p : Bytes) (cur : List (Option Slot)) (ch : Byte) :
    (rd (p ++ [ch]) cur).n = min Nq.Gen.REPORTMAX (p.length + 1) := by
  simp [rd]

/-- a byte that is not NUL, or the first byte of a line (the delivery number, NUL or not), is
only stored -/
theorem refStep_store (c : Nat) (jobs : List Job) (p : Bytes) (cur : List (Option Slot)) (ch : Byte)
    (h : ch ≠ 0 ∨ p = []) :
    refStep c jobs (rd p cur) ch = (rd (p ++ [ch]) cur, []) := by
  rw [refStep_eq, push_rd]
  have : ¬ (ch = 0 ∧ (rd (p ++ [ch]) cur).n > 1) := by
    rintro ⟨h0, hn⟩
    rcases h with h | h
    · exact h h0
    · subst h
      rw [rd_n_append] at hn
      simp at hn
      omega
  rw [if_neg this]

/-- a NUL after the delivery number `d` and the NUL-free text `text` ends the report -/
theorem refStep_end (c : Nat) (jobs : List Job) (d : Byte) (text : Bytes) (cur : List (Option Slot)) :
    refStep c jobs (rd (d :: text) cur) 0 =
      match cur.getD d.toNat none with
      | none => (rd [] cur, [])
      | some sl =>
        (rd [] (cur.set d.toNat none),
         if text.headD 0 = 75 ∨ text.headD 0 = 68 ∨
            (text.headD 0 = 90 ∧ (jobs.getD sl.j ⟨0, 0, 0, false, false, 0, 0⟩).dying)
         then [entryOf c jobs sl] else []) := by
  rw [refStep_eq, push_rd]
  have hR := two_le_R
  obtain ⟨k, hk⟩ : ∃ k, Nq.Gen.REPORTMAX = k + 2 := ⟨Nq.Gen.REPORTMAX - 2, by omega⟩
  have hn : (rd (d :: text ++ [0]) cur).n > 1 := by
    rw [rd_n_append]; simp only [List.length_cons]; omega
  have hs : (rd (d :: text ++ [0]) cur).slots = cur := rfl
  have hdl : (rd (d :: text ++ [0]) cur).rev.reverse = (d :: text ++ [0]).take (k + 2) := by
    simp [rd, hk]
  have hhead : ((d :: text ++ [0]).take (k + 2)).headD 0 = d := by
    simp [List.take_succ_cons]
  have hlet : ((d :: text ++ [0]).take (k + 2)).getD 1 0 = text.headD 0 := by
    cases text with
    | nil => simp [List.take_succ_cons]
    | cons t r => simp [List.take_succ_cons]
  rw [if_pos ⟨rfl, hn⟩, hs, hdl, hhead, hlet]
  cases hg : cur.getD d.toNat none with
  | none => simp [rd_nil]; rfl
  | some sl => simp [rd_nil]

/-! ### whole lines -/

theorem refRun_cons (c : Nat) (jobs : List Job) (st : RefSt) (ch : Byte) (rest : Bytes) :
    refRun c jobs st (ch :: rest) =
      (refStep c jobs st ch).2 ++ refRun c jobs (refStep c jobs st ch).1 rest := rfl

/-- reading a NUL-free text emits nothing -/
theorem refRun_text (c : Nat) (jobs : List Job) (cur : List (Option Slot)) :
    ∀ (text p tail : Bytes), (∀ b ∈ text, b ≠ 0) →
      refRun c jobs (rd p cur) (text ++ tail) = refRun c jobs (rd (p ++ text) cur) tail := by
  intro text
  induction text with
  | nil => intro p tail _; simp
  | cons t r ih =>
    intro p tail h
    have ht : t ≠ 0 := h t (by simp)
    rw [List.cons_append, refRun_cons, refStep_store c jobs p cur t (Or.inl ht)]
    simp only [List.nil_append]
    rw [ih (p ++ [t]) tail (fun b hb => h b (by simp [hb]))]
    simp

/-- (a) one complete report, then the rest of the stream from a fresh line -/
theorem refRun_report (c : Nat) (jobs : List Job) (cur : List (Option Slot)) (d : Byte)
    (text rest : Bytes) (h : ∀ b ∈ text, b ≠ 0) :
    refRun c jobs (rd [] cur) (d :: (text ++ 0 :: rest)) =
      (refStep c jobs (rd (d :: text) cur) 0).2 ++
        refRun c jobs (refStep c jobs (rd (d :: text) cur) 0).1 rest := by
  rw [refRun_cons, refStep_store c jobs [] cur d (Or.inr rfl)]
  simp only [List.nil_append]
  rw [refRun_text c jobs cur text [d] (0 :: rest) h, refRun_cons]
  simp

/-- (b) an unterminated tail emits nothing -/
theorem refRun_tail (c : Nat) (jobs : List Job) (cur : List (Option Slot)) (d : Byte)
    (text : Bytes) (h : ∀ b ∈ text, b ≠ 0) :
    refRun c jobs (rd [] cur) (d :: text) = [] := by
  rw [refRun_cons, refStep_store c jobs [] cur d (Or.inr rfl)]
  simp only [List.nil_append]
  have := refRun_text c jobs cur text [d] [] h
  rw [List.append_nil] at this
  rw [this]
  rfl

/-- (c) a byte list is its longest NUL-free prefix followed by nothing or by a NUL and the rest -/
theorem split_nul (r : Bytes) :
    ∃ text, text = r.takeWhile (· != 0) ∧ (∀ b ∈ text, b ≠ 0) ∧
      ((r.drop text.length = [] ∧ r = text) ∨
       ∃ rest, r.drop text.length = 0 :: rest ∧ r = text ++ 0 :: rest) := by
  induction r with
  | nil => exact ⟨[], by simp⟩
  | cons b r ih =>
    by_cases hb : b = 0
    · subst hb
      exact ⟨[], by simp⟩
    · obtain ⟨text, ht, hfree, hc⟩ := ih
      refine ⟨b :: text, ?_, ?_, ?_⟩
      · simp [hb, ht]
      · intro x hx
        rcases List.mem_cons.mp hx with hx | hx
        · exact hx ▸ hb
        · exact hfree x hx
      · rcases hc with ⟨h1, h2⟩ | ⟨rest, h1, h2⟩
        · left
          exact ⟨by simpa using h1, by rw [← h2]⟩
        · right
          exact ⟨rest, by simpa using h1, by rw [List.cons_append, ← h2]⟩

/-- (d) clearing one entry of the slot table -/
theorem getD_set_none (l : List (Option Slot)) (d e : Nat) :
    (l.set d none).getD e none = if e = d then none else l.getD e none := by
  simp only [List.getD_eq_getElem?_getD, List.getElem?_set]
  by_cases h : d = e
  · subst h
    by_cases h2 : d < l.length <;> simp [h2]
  · have h' : ¬ e = d := fun x => h x.symm
    simp [h, h']

theorem declReports_tail (fuel : Nat) (d : Byte) (r : Bytes)
    (h : r.drop (r.takeWhile (· != 0)).length = []) : declReports (fuel + 1) (d :: r) = [] := by
  simp only [declReports, h]

theorem declReports_report (fuel : Nat) (d : Byte) (r rest : Bytes) (z : Byte)
    (h : r.drop (r.takeWhile (· != 0)).length = z :: rest) :
    declReports (fuel + 1) (d :: r) =
      (d.toNat, (r.takeWhile (· != 0)).headD 0) :: declReports fuel rest := by
  simp only [declReports, h]

/-! ### the two readers agree -/

/-- (e) generalised: the step reader on a fresh line with the mutated table `cur`, where `cur` is
the original table with the delivery numbers in `seen` cleared -/
theorem refRun_eq_decl (c : Nat) (jobs : List Job) (orig : List (Option Slot)) :
    ∀ (fuel : Nat) (s : Bytes) (seen : List Nat) (cur : List (Option Slot)),
      s.length < fuel →
      (∀ e, cur.getD e none = if e ∈ seen then none else orig.getD e none) →
      refRun c jobs (rd [] cur) s = declMarks c jobs orig seen (declReports fuel s) := by
  intro fuel
  induction fuel with
  | zero => intro s seen cur h; omega
  | succ fuel ih =>
    intro s seen cur hlen hinv
    cases s with
    | nil => simp [refRun, declReports, declMarks]
    | cons d r =>
      obtain ⟨text, ht, hfree, ⟨hd, hr⟩ | ⟨rest, hd, hr⟩⟩ := split_nul r
      · rw [declReports_tail fuel d r (ht ▸ hd), hr, refRun_tail c jobs cur d text hfree]
        simp [declMarks]
      · rw [declReports_report fuel d r rest 0 (ht ▸ hd), ← ht]
        subst hr
        rw [refRun_report c jobs cur d text rest hfree, refStep_end]
        have hlen' : rest.length < fuel := by
          simp only [List.length_cons, List.length_append] at hlen; omega
        have hd' := hinv d.toNat
        simp only [declMarks]
        cases hg : cur.getD d.toNat none with
        | none =>
          simp only [List.nil_append]
          rw [ih rest seen cur hlen' hinv]
          by_cases hm : d.toNat ∈ seen
          · simp [hm]
          · rw [hg, if_neg hm] at hd'
            simp only [if_neg hm, ← hd']
        | some sl =>
          have hm : d.toNat ∉ seen := by
            intro hm; rw [hg, if_pos hm] at hd'; cases hd'
          rw [hg, if_neg hm] at hd'
          simp only [if_neg hm, ← hd']
          rw [ih rest (d.toNat :: seen) (cur.set d.toNat none) hlen']
          intro e
          rw [getD_set_none, hinv e]
          by_cases he : e = d.toNat
          · simp [he]
          · simp [he]

theorem refMarks_eq_decl (c : Nat) (jobs : List Job) (slots : List (Option Slot)) (s : Bytes) :
    refMarks c jobs slots s = refMarksDecl c jobs slots s := by
  unfold refMarks refMarksDecl
  rw [← rd_nil]
  exact refRun_eq_decl c jobs slots (s.length + 1) s [] slots (Nat.lt_succ_self _) (by simp)

theorem sendStrict_eq_decl (c : Nat) (jobs : List Job) (slots : List (Option Slot)) (s : Bytes)
    (evs : List Ev) : sendStrict c jobs slots s evs = sendStrictDecl c jobs slots s evs := by
  unfold sendStrict sendStrictDecl
  rw [refMarks_eq_decl]

theorem feed_stream_decl (env : Env) (st : St) (s : Bytes) (h0 : st.drev = []) (h1 : st.dlen = 0) :
    sendStrictDecl env.chan st.jobs st.slots s (feed env st s).2 = true := by
  rw [← sendStrict_eq_decl]
  exact (Nq.Lemmas.SendL.feed_stream env st s h0 h1).1

/-! ### non-vacuity -/

-- delnum 0 / text "Ko"; delnum 0 (a NUL in first position) / empty text; the tail `[1, 90]` is unterminated
example : declReports 9 [0, 75, 111, 0, 0, 0, 1, 90] = [(0, 75), (0, 0)] := by decide
-- a NUL-free stream is no report at all
example : declReports 4 [3, 75, 111] = [] := by decide
-- three reports, delnums 2, 0, 2
example : declReports 10 [2, 90, 0, 0, 68, 120, 0, 2, 75] = [(2, 90), (0, 68)] := by decide
example : declReports 11 [2, 90, 0, 0, 68, 120, 0, 2, 75, 0] = [(2, 90), (0, 68), (2, 75)] := by decide

-- slot 0 in flight (record position 5): the first report for it (`K`) marks; the second report for
-- delivery 0 (`D`) and the report for delivery 1 (not in flight) are ignored
example : (refMarksDecl 0 [⟨7, 1, 1, false, false, 0, 0⟩] [some ⟨0, 1, 5, []⟩]
    [0, 75, 0, 0, 68, 0, 1, 75, 0]).map (·.2) = [5] := by decide
-- a first report `Z` for a message that is not dying decides the delivery without a mark
example : (refMarksDecl 0 [⟨7, 1, 1, false, false, 0, 0⟩] [some ⟨0, 1, 5, []⟩]
    [0, 90, 0, 0, 75, 0]).map (·.2) = [] := by decide
example : (refMarksDecl 0 [⟨7, 1, 1, false, true, 0, 0⟩] [some ⟨0, 1, 5, []⟩]
    [0, 90, 0, 0, 75, 0]).map (·.2) = [5] := by decide

end Nq.Lemmas.SendRefL
