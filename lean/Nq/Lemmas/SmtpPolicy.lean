/-
  Lemmas for C08: the rcpthosts / badmailfrom lookups of the model equal their declarative
  specifications (`MatchSpec`, `BadSender`) and the Boolean checkers used by the oracle.
-/
import Nq.Spec.SmtpPolicy

namespace Nq.Lemmas.Smtp
open Nq Nq.SmtpSession Nq.SmtpPolicy

/-! ### case folding -/

theorem lowerByte_idem (c : UInt8) : lowerByte (lowerByte c) = lowerByte c := by
  unfold lowerByte
  by_cases h : 65 ≤ c ∧ c ≤ 90
  · simp only [h, and_self, if_true]
    have : ¬ (65 ≤ c + 32 ∧ c + 32 ≤ 90) := by
      obtain ⟨h1, h2⟩ := h
      rw [UInt8.le_iff_toNat_le] at h1 h2
      intro ⟨h3, h4⟩
      rw [UInt8.le_iff_toNat_le] at h3 h4
      rw [UInt8.toNat_add] at h4
      simp at h1 h2 h4
      omega
    simp [this]
  · simp [h]

theorem lowerByte_eq_dot (c : UInt8) : lowerByte c = 46 ↔ c = 46 := by
  unfold lowerByte
  by_cases h : 65 ≤ c ∧ c ≤ 90
  · simp only [h, and_self, if_true]
    obtain ⟨h1, h2⟩ := h
    rw [UInt8.le_iff_toNat_le] at h1 h2
    simp at h1 h2
    constructor
    · intro h3
      have := congrArg UInt8.toNat h3
      rw [UInt8.toNat_add] at this
      simp at this
      omega
    · intro h3; subst h3; simp at h1
  · simp [h]

theorem lower_idem (s : Bytes) : lower (lower s) = lower s := by
  simp [lower, List.map_map, Function.comp_def, lowerByte_idem]

theorem lower_append (s t : Bytes) : lower (s ++ t) = lower s ++ lower t := by simp [lower]

theorem lower_length (s : Bytes) : (lower s).length = s.length := by simp [lower]

theorem lower_eq_nil (s : Bytes) : lower s = [] ↔ s = [] := by simp [lower]

theorem lower_head_dot (e : Bytes) : (lower e).head? = some DOT ↔ e.head? = some DOT := by
  cases e with
  | nil => simp [lower]
  | cons c r => simp [lower, DOT, lowerByte_eq_dot]

/-- a suffix of a lower-case string is lower-case -/
theorem lower_of_suffix (s D : Bytes) (h : s <:+ D) (hD : lower D = D) : lower s = s := by
  obtain ⟨t, rfl⟩ := h
  rw [lower_append] at hD
  exact (List.append_inj hD (lower_length t)).2

/-! ### the strings rcpthosts() looks up -/

theorem mem_dotTails (E : Bytes) : ∀ (t : Bytes), E ∈ dotTails t ↔ E.head? = some DOT ∧ E <:+ t
  | [] => by
    simp only [dotTails, List.not_mem_nil, false_iff]
    rintro ⟨h1, h2⟩
    have : E = [] := List.suffix_nil.1 h2
    subst this
    simp at h1
  | c :: r => by
    unfold dotTails
    by_cases hc : c = DOT
    · simp only [hc, if_true, List.mem_cons, mem_dotTails E r, List.suffix_cons_iff]
      constructor
      · rintro (rfl | ⟨h1, h2⟩)
        · exact ⟨by simp, Or.inl rfl⟩
        · exact ⟨h1, Or.inr h2⟩
      · rintro ⟨h1, rfl | h2⟩
        · exact Or.inl rfl
        · exact Or.inr ⟨h1, h2⟩
    · simp only [hc, if_false, mem_dotTails E r, List.suffix_cons_iff]
      constructor
      · rintro ⟨h1, h2⟩
        exact ⟨h1, Or.inr h2⟩
      · rintro ⟨h1, rfl | h2⟩
        · simp at h1; exact absurd h1 hc
        · exact ⟨h1, h2⟩

theorem mem_candidates (E D : Bytes) :
    E ∈ candidates D ↔ D ≠ [] ∧ (E = D ∨ (E.head? = some DOT ∧ E <:+ D)) := by
  cases D with
  | nil => simp [candidates]
  | cons c t =>
    simp only [candidates, List.mem_cons, mem_dotTails, List.suffix_cons_iff, ne_eq, reduceCtorEq, not_false_eq_true,
      true_and]
    constructor
    · rintro (h | ⟨h1, h2⟩)
      · exact Or.inl h
      · exact Or.inr ⟨h1, Or.inr h2⟩
    · rintro (h | ⟨h1, h | h2⟩)
      · exact Or.inl h
      · exact Or.inl h
      · exact Or.inr ⟨h1, h2⟩

theorem candidate_suffix (s D : Bytes) (h : s ∈ candidates D) : s <:+ D := by
  rcases (mem_candidates s D).1 h with ⟨_, rfl | ⟨_, h2⟩⟩
  · exact List.suffix_refl _
  · exact h2

/-- `lower e` is one of the strings looked up for domain `d` exactly when entry `e` covers `d` -/
theorem lower_mem_candidates (e d : Bytes) : lower e ∈ candidates (lower d) ↔ covers e d := by
  rw [mem_candidates, lower_head_dot]
  unfold covers
  simp [lower_eq_nil]

theorem cmLookup_iff (es : List Bytes) (k : Bytes) : cmLookup es k = true ↔ ∃ e ∈ es, lower e = lower k := by
  simp [cmLookup, List.any_eq_true]

theorem coversB_iff (e d : Bytes) : coversB e d = true ↔ covers e d := by
  unfold coversB covers
  simp [List.isSuffixOf_iff_suffix, List.isEmpty_iff]

/-- constmap part of rcpthosts() -/
theorem rh_lookup_iff (rh : List Bytes) (d : Bytes) :
    (candidates (lower d)).any (cmLookup rh) = true ↔ ∃ e ∈ rh, covers e d := by
  simp only [List.any_eq_true, cmLookup_iff]
  constructor
  · rintro ⟨s, hs, e, he, h⟩
    have : lower s = s := lower_of_suffix s _ (candidate_suffix s _ hs) (lower_idem d)
    rw [this] at h
    exact ⟨e, he, (lower_mem_candidates e d).1 (h ▸ hs)⟩
  · rintro ⟨e, he, h⟩
    have hm := (lower_mem_candidates e d).2 h
    exact ⟨lower e, hm, e, he, (lower_idem e).symm⟩

/-- cdb part of rcpthosts(), for lower-case keys -/
theorem more_lookup_iff (ks : List Bytes) (hk : ∀ k ∈ ks, lower k = k) (d : Bytes) :
    (candidates (lower d)).any (fun s => ks.contains s) = true ↔ ∃ e ∈ ks, covers e d := by
  simp only [List.any_eq_true, List.contains_iff_mem]
  constructor
  · rintro ⟨s, hs, hmem⟩
    refine ⟨s, hmem, (lower_mem_candidates s d).1 ?_⟩
    rw [hk s hmem]; exact hs
  · rintro ⟨e, he, h⟩
    have hm := (lower_mem_candidates e d).2 h
    rw [hk e he] at hm
    exact ⟨e, hm, he⟩

theorem match_iff (cfg : Cfg) (hl : MoreLower cfg) (a : Bytes) : rcpthostsMatch cfg a = true ↔ MatchSpec cfg a := by
  unfold rcpthostsMatch MatchSpec domainOf hostEntries
  cases hr : cfg.rh with
  | none => simp
  | some rh =>
    cases hs : splitLastAt a with
    | none => simp
    | some pd =>
      obtain ⟨p, dom⟩ := pd
      cases hm : cfg.more with
      | none =>
        simp only [Bool.or_false, rh_lookup_iff]
        simp
      | some ks =>
        simp only [Bool.or_eq_true, rh_lookup_iff, more_lookup_iff ks (hl ks hm)]
        simp only [reduceCtorEq, Option.map_some, Option.some.injEq, Option.getD_some, List.mem_append, false_or,
          exists_eq_left']
        constructor
        · rintro (⟨e, he, h⟩ | ⟨e, he, h⟩)
          · exact ⟨e, Or.inl he, h⟩
          · exact ⟨e, Or.inr he, h⟩
        · rintro ⟨e, he | he, h⟩
          · exact Or.inl ⟨e, he, h⟩
          · exact Or.inr ⟨e, he, h⟩

theorem matchSpecB_iff (cfg : Cfg) (a : Bytes) : matchSpecB cfg a = true ↔ MatchSpec cfg a := by
  unfold matchSpecB MatchSpec
  cases hr : cfg.rh with
  | none => simp
  | some rh =>
    cases hd : domainOf a with
    | none => simp
    | some d => simp [List.any_eq_true, coversB_iff]

/-! ### badmailfrom -/

theorem bmf_iff (cfg : Cfg) (a : Bytes) : bmfcheck cfg a = true ↔ BadSender cfg a := by
  unfold bmfcheck BadSender domainOf
  cases hb : cfg.bmf with
  | none => simp
  | some es =>
    cases hs : splitLastAt a with
    | none => simp [cmLookup_iff]
    | some pd =>
      obtain ⟨p, d⟩ := pd
      simp only [Bool.or_eq_true, cmLookup_iff, Option.some.injEq, exists_eq_left', Option.map_some]
      constructor
      · rintro (⟨e, he, h⟩ | ⟨e, he, h⟩)
        · exact ⟨e, he, Or.inl h⟩
        · exact ⟨e, he, Or.inr h⟩
      · rintro ⟨e, he, h | h⟩
        · exact Or.inl ⟨e, he, h⟩
        · exact Or.inr ⟨e, he, h⟩

theorem badSenderB_iff (cfg : Cfg) (a : Bytes) : badSenderB cfg a = true ↔ BadSender cfg a := by
  unfold badSenderB BadSender
  cases hb : cfg.bmf with
  | none => simp
  | some es =>
    cases hd : domainOf a with
    | none => simp [List.any_eq_true]
    | some d => simp [List.any_eq_true]

end Nq.Lemmas.Smtp
