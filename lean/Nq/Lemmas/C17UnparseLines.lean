/-
  Lemmas for C17 (session 4): the LINE structure of what `token822_unparse` writes.  If no token holds a LF, every
  LF of the output is a fold `LF SP` (or the final LF): the output is one logical line.
-/
import Nq.Lemmas.C17Unparse
import Nq.Lemmas.C17Hidden

namespace Nq.Lemmas.C17UL
open Nq Nq.Token822 Nq.Lemmas.C17 Nq.Spec.HeaderBody Nq.Spec.Addr Nq.Spec.Hidden Nq.Lemmas.C17Hid

/-- every LF is followed by SP (in particular the text does not end in LF) -/
def lfsp : Bytes → Bool
  | [] => true
  | [c] => c != LF
  | c :: d :: r => (c != LF || d == SP) && lfsp (d :: r)

theorem lfsp_nolf : ∀ (x : Bytes), LF ∉ x → lfsp x = true
  | [], _ => rfl
  | [c], h => by simp only [lfsp, bne_iff_ne, ne_eq]; intro hc; exact h (by simp [hc])
  | c :: d :: r, h => by
    have hc : c ≠ LF := fun hc => h (by simp [hc])
    have := lfsp_nolf (d :: r) (fun hm => h (List.mem_cons_of_mem _ hm))
    simp [lfsp, hc, this]

theorem lfsp_append : ∀ (a b : Bytes), lfsp a = true → lfsp b = true → lfsp (a ++ b) = true
  | [], b, _, hb => hb
  | [c], b, ha, hb => by
    simp only [lfsp, bne_iff_ne, ne_eq] at ha
    cases b with
    | nil => simp [lfsp, ha]
    | cons d r => simp [lfsp, ha, hb]
  | c :: d :: r, b, ha, hb => by
    simp only [lfsp, Bool.and_eq_true] at ha
    have := lfsp_append (d :: r) b ha.2 hb
    simp only [List.cons_append] at this ⊢
    simp [lfsp, ha.1, this]

theorem lfsp_tail (c : Byte) (B : Bytes) (h : lfsp (c :: B) = true) : lfsp B = true := by
  cases B with
  | nil => rfl
  | cons d r => simp only [lfsp, Bool.and_eq_true] at h; exact h.2

/-- deleting a fold keeps the property -/
theorem lfsp_delete : ∀ (A B : Bytes), lfsp (A ++ LF :: SP :: B) = true → lfsp (A ++ B) = true
  | [], B, h => lfsp_tail SP B (lfsp_tail LF _ h)
  | [c], B, h => by
    simp only [List.cons_append, List.nil_append, lfsp, Bool.and_eq_true, Bool.or_eq_true, bne_iff_ne, ne_eq, beq_iff_eq] at h
    have hc : c ≠ LF := by
      rcases h.1 with h1 | h1
      · exact h1
      · exact absurd h1 (by decide)
    have hB : lfsp B = true := lfsp_tail SP B (by
      cases B with
      | nil => rfl
      | cons d r => simpa [lfsp] using h.2.2)
    exact lfsp_append [c] B (by simp [lfsp, hc]) hB
  | c :: d :: r, B, h => by
    simp only [List.cons_append, lfsp, Bool.and_eq_true] at h
    have := lfsp_delete (d :: r) B (by simpa using h.2)
    simp only [List.cons_append] at this ⊢
    simp only [lfsp, Bool.and_eq_true]
    exact ⟨h.1, this⟩

/-- with the final fold turned into the final LF, the text is one logical line -/
theorem lfsp_logical : ∀ (o : Bytes), lfsp (o ++ [LF, SP]) = true → logicalLine (o ++ [LF]) = true
  | [], _ => by decide
  | [c], h => by
    simp only [List.cons_append, List.nil_append, lfsp, Bool.and_eq_true, Bool.or_eq_true, bne_iff_ne, ne_eq, beq_iff_eq] at h
    have hc : c ≠ LF := by
      rcases h.1 with h1 | h1
      · exact h1
      · exact absurd h1 (by decide)
    simp [logicalLine, hc]
  | c :: d :: r, h => by
    simp only [List.cons_append, lfsp, Bool.and_eq_true] at h
    have := lfsp_logical (d :: r) (by simpa using h.2)
    simp only [List.cons_append] at this ⊢
    simp only [logicalLine, Bool.and_eq_true, this, and_true]
    have h1 := h.1
    simp only [Bool.or_eq_true, bne_iff_ne, ne_eq, beq_iff_eq] at h1 ⊢
    rcases h1 with h1 | h1
    · exact Or.inl (Or.inl h1)
    · exact Or.inl (Or.inr h1)

/-! ### the text of a token -/

theorem uesc_nolf (s : Bytes) (h : LF ∉ s) : LF ∉ uesc s := by
  induction s with
  | nil => simp [uesc]
  | cons c s ih =>
    have hc : c ≠ LF := fun hc => h (by simp [hc])
    have hs : LF ∉ s := fun hm => h (List.mem_cons_of_mem _ hm)
    simp only [uesc, List.mem_append, not_or]
    refine ⟨?_, ih hs⟩
    unfold uescByte
    split
    · simp only [List.mem_cons, List.not_mem_nil, or_false, not_or]
      exact ⟨by decide, fun h' => hc h'.symm⟩
    · simp only [List.mem_singleton]
      exact fun h' => hc h'.symm

theorem tokText_nolf (t : Tok) (h : lfFree t = true) : LF ∉ tokText t := by
  cases t with
  | atom s =>
    simp only [lfFree, Bool.not_eq_true', List.contains_eq_mem, decide_eq_false_iff_not] at h
    exact uesc_nolf s h
  | quote s =>
    simp only [lfFree, Bool.not_eq_true', List.contains_eq_mem, decide_eq_false_iff_not] at h
    have := uesc_nolf s h
    simp only [tokText, List.mem_cons, List.mem_append, List.not_mem_nil, or_false, not_or]
    exact ⟨by decide, this, by decide⟩
  | literal s =>
    simp only [lfFree, Bool.not_eq_true', List.contains_eq_mem, decide_eq_false_iff_not] at h
    have := uesc_nolf s h
    simp only [tokText, List.mem_cons, List.mem_append, List.not_mem_nil, or_false, not_or]
    exact ⟨by decide, this, by decide⟩
  | comment s =>
    simp only [lfFree, Bool.not_eq_true', List.contains_eq_mem, decide_eq_false_iff_not] at h
    have := uesc_nolf s h
    simp only [tokText, List.mem_cons, List.mem_append, List.not_mem_nil, or_false, not_or]
    exact ⟨by decide, this, by decide⟩
  | _ => simp [tokText] <;> decide

/-! ### the invariant of the second pass -/

/-- `linee` points at a fold `LF SP` in the output -/
def FoldAt (u : USt) : Prop :=
  ∀ e, u.linee = some e → ∃ A B, u.out = A ++ LF :: SP :: B ∧ A.length = e

def LInv (u : USt) : Prop := lfsp u.out = true ∧ FoldAt u

theorem utext_linv (u : USt) (t : Tok) (ht : lfFree t = true) (h : LInv u) : LInv (utext u t) := by
  obtain ⟨h1, h2⟩ := h
  have htx := lfsp_nolf _ (tokText_nolf t ht)
  constructor
  · simp only [utext]
    split
    · exact lfsp_append _ _ (lfsp_append _ _ h1 (by decide)) htx
    · exact lfsp_append _ _ h1 htx
  · intro e he
    simp only [utext] at he
    obtain ⟨A, B, e1, e2⟩ := h2 e he
    simp only [utext]
    split
    · exact ⟨A, B ++ [SP] ++ tokText t, by rw [e1]; simp, e2⟩
    · exact ⟨A, B ++ tokText t, by rw [e1]; simp, e2⟩

theorem nsuw_linv (n : Nat) (u : USt) (h : LInv u) :
    LInv (nsuw n u) ∧ ∃ o, (nsuw n u).out = o ++ [LF, SP] := by
  obtain ⟨h1, h2⟩ := h
  unfold nsuw
  cases hle : u.linee with
  | none =>
    simp only []
    refine ⟨⟨lfsp_append _ _ h1 (by decide), ?_⟩, u.out, rfl⟩
    intro e he
    simp only [Option.some.injEq] at he
    exact ⟨u.out, [], by simp, he⟩
  | some e =>
    obtain ⟨A, B, e1, e2⟩ := h2 e hle
    simp only []
    split
    · have ht : u.out.take e = A := by rw [e1, ← e2]; simp
      have hd : u.out.drop (e + 2) = B := by
        rw [e1, ← e2]
        have : A ++ LF :: SP :: B = (A ++ [LF, SP]) ++ B := by simp
        rw [this]
        have hl : A.length + 2 = (A ++ [LF, SP]).length := by simp
        rw [hl, List.drop_left]
      simp only [ht, hd]
      have hAB : lfsp (A ++ B) = true := lfsp_delete A B (by rw [← e1]; exact h1)
      refine ⟨⟨lfsp_append _ _ hAB (by decide), ?_⟩, A ++ B, rfl⟩
      intro e' he'
      simp only [Option.some.injEq] at he'
      refine ⟨A ++ B, [], by simp, ?_⟩
      rw [← he', e1]
      simp
      omega
    · refine ⟨⟨lfsp_append _ _ h1 (by decide), ?_⟩, u.out, rfl⟩
      intro e' he'
      simp only [Option.some.injEq] at he'
      exact ⟨u.out, [], by simp, he'⟩

theorem ustep_linv (n : Nat) (u : USt) (t : Tok) (ht : lfFree t = true) (h : LInv u) : LInv (ustep n u t) := by
  rw [ustep_eq]
  split
  · exact (nsuw_linv n _ (utext_linv u t ht h)).1
  · exact utext_linv u t ht h

theorem ufold_linv (n : Nat) (ts : List Tok) (hts : ts.all lfFree = true) :
    ∀ u, LInv u → LInv (ts.foldl (ustep n) u) := by
  induction ts with
  | nil => intro u h; exact h
  | cons t ts ih =>
    intro u h
    simp only [List.all_cons, Bool.and_eq_true] at hts
    exact ih hts.2 _ (ustep_linv n u t hts.1 h)

/-- **the output of `token822_unparse` on LF-free tokens is one logical line** -/
theorem unparse_logical (n : Nat) (ts : List Tok) (hts : ts.all lfFree = true) :
    logicalLine (unparse n ts) = true := by
  have h0 : LInv {} := ⟨rfl, by intro e he; simp at he⟩
  have h1 := ufold_linv n ts hts {} h0
  obtain ⟨⟨h2, _⟩, o, ho⟩ := nsuw_linv n _ h1
  unfold unparse
  rw [ho] at h2 ⊢
  have : (o ++ [LF, SP]).dropLast = o ++ [LF] := by
    have : o ++ [LF, SP] = (o ++ [LF]) ++ [SP] := by simp
    rw [this, List.dropLast_concat]
  rw [this]
  exact lfsp_logical o h2


/-! ### the first line carries the first token's text -/

theorem prefix_of_nolf : ∀ (P Q A R : Bytes), P ++ Q = A ++ LF :: R → LF ∉ P → ∃ A', A = P ++ A'
  | [], _, A, _, _, _ => ⟨A, rfl⟩
  | c :: P, Q, [], R, h, hP => by
    simp only [List.cons_append, List.nil_append, List.cons.injEq] at h
    exact absurd (by simp [h.1]) hP
  | c :: P, Q, a :: A, R, h, hP => by
    simp only [List.cons_append, List.cons.injEq] at h
    obtain ⟨A', hA⟩ := prefix_of_nolf P Q A R h.2 (fun hm => hP (List.mem_cons_of_mem _ hm))
    exact ⟨A', by rw [h.1, hA]; rfl⟩

def HasPrefix (P : Bytes) (u : USt) : Prop := ∃ Q, u.out = P ++ Q

theorem utext_prefix (P : Bytes) (u : USt) (t : Tok) (h : HasPrefix P u) : HasPrefix P (utext u t) := by
  obtain ⟨Q, hQ⟩ := h
  simp only [HasPrefix, utext]
  split
  · exact ⟨Q ++ [SP] ++ tokText t, by rw [hQ]; simp⟩
  · exact ⟨Q ++ tokText t, by rw [hQ]; simp⟩

theorem nsuw_prefix (P : Bytes) (hP : LF ∉ P) (n : Nat) (u : USt) (hf : FoldAt u) (h : HasPrefix P u) :
    HasPrefix P (nsuw n u) := by
  obtain ⟨Q, hQ⟩ := h
  unfold nsuw
  cases hle : u.linee with
  | none => exact ⟨Q ++ [LF, SP], by simp [hQ]⟩
  | some e =>
    obtain ⟨A, B, e1, e2⟩ := hf e hle
    simp only []
    split
    · have ht : u.out.take e = A := by rw [e1, ← e2]; simp
      have hd : u.out.drop (e + 2) = B := by
        rw [e1, ← e2]
        have : A ++ LF :: SP :: B = (A ++ [LF, SP]) ++ B := by simp
        rw [this]
        have hl : A.length + 2 = (A ++ [LF, SP]).length := by simp
        rw [hl, List.drop_left]
      obtain ⟨A', hA⟩ := prefix_of_nolf P Q A (SP :: B) (by rw [← hQ, e1]) hP
      exact ⟨A' ++ B ++ [LF, SP], by simp [ht, hd, hA]⟩
    · exact ⟨Q ++ [LF, SP], by simp [hQ]⟩

theorem ufold_prefix (P : Bytes) (hP : LF ∉ P) (n : Nat) (ts : List Tok) (hts : ts.all lfFree = true) :
    ∀ u, LInv u → HasPrefix P u → HasPrefix P (ts.foldl (ustep n) u) := by
  induction ts with
  | nil => intro u _ h; exact h
  | cons t ts ih =>
    intro u hl hp
    simp only [List.all_cons, Bool.and_eq_true] at hts
    refine ih hts.2 _ (ustep_linv n u t hts.1 hl) ?_
    rw [ustep_eq]
    split
    · exact nsuw_prefix P hP n _ (utext_linv u t hts.1 hl).2 (utext_prefix P u t hp)
    · exact utext_prefix P u t hp

/-- the output for `name : …` begins with the name's text and the colon -/
theorem unparse_prefix (n : Nat) (nm : Bytes) (rest : List Tok) (hnm : LF ∉ nm) (hts : rest.all lfFree = true) :
    ∃ R, unparse n (.atom nm :: .colon :: rest) = uesc nm ++ 58 :: R := by
  have hP : LF ∉ uesc nm ++ [58] := by
    simp only [List.mem_append, List.mem_singleton, not_or]
    exact ⟨uesc_nolf nm hnm, by decide⟩
  have hlf1 : lfFree (.atom nm) = true := by simp [lfFree, hnm]
  have h0 : LInv {} := ⟨rfl, by intro e he; simp at he⟩
  have hl2 : LInv (ustep n (ustep n {} (.atom nm)) .colon) :=
    ustep_linv n _ _ (by decide) (ustep_linv n _ _ hlf1 h0)
  have hp2 : HasPrefix (uesc nm ++ [58]) (ustep n (ustep n {} (.atom nm)) .colon) :=
    ⟨[], by simp [ustep, needspace, isWord, tokText]⟩
  have hl := ufold_linv n rest hts _ hl2
  have hp := ufold_prefix _ hP n rest hts _ hl2 hp2
  obtain ⟨Q, hQ⟩ := nsuw_prefix _ hP n _ hl.2 hp
  obtain ⟨_, o, ho⟩ := nsuw_linv n _ hl
  unfold unparse
  simp only [List.foldl_cons]
  rw [ho] at hQ ⊢
  obtain ⟨A', hA⟩ := prefix_of_nolf _ Q o [SP] hQ.symm hP
  have : (o ++ [LF, SP]).dropLast = o ++ [LF] := by
    have : o ++ [LF, SP] = (o ++ [LF]) ++ [SP] := by simp
    rw [this, List.dropLast_concat]
  rw [this, hA]
  exact ⟨A' ++ [LF], by simp⟩

theorem takeWhile_cut (p : Byte → Bool) (X R : Bytes) (c : Byte) (hc : p c = false) :
    (X ++ c :: R).takeWhile p = (X ++ [c]).takeWhile p := by
  induction X with
  | nil => simp [List.takeWhile_cons, hc]
  | cons x X ih =>
    simp only [List.cons_append, List.takeWhile_cons]
    split
    · rw [ih]
    · rfl

theorem fieldName_cut (X R : Bytes) : fieldName (X ++ 58 :: R) = fieldName (X ++ [58]) := by
  unfold fieldName
  have h1 : (X ++ 58 :: R).contains 58 = true := by simp
  have h2 : (X ++ [58]).contains 58 = true := by simp
  rw [h1, h2, takeWhile_cut _ X R 58 (by decide)]

/-- a logical line `X : …` whose name part `X` holds no LF and is not a hidden name is a safe piece -/
theorem logical_safe (f X R : Bytes) (hl : logicalLine f = true) (hf : f = X ++ 58 :: R) (hX : LF ∉ X)
    (hn : nameIn hiddenFields (X ++ [58]) = false) : pieceSafe f = true := by
  obtain ⟨h1, _⟩ := Nq.Lemmas.C17HB.logicalLine_lf f hl
  obtain ⟨rest, e, hr⟩ := go_logicalLine f [] hl
  unfold pieceSafe
  simp only [Bool.or_eq_true, Bool.and_eq_true, beq_iff_eq, List.all_eq_true]
  right
  refine ⟨h1, ?_⟩
  intro l hlm
  unfold splitLF at hlm
  rw [e] at hlm
  simp only [List.nil_append, List.mem_cons] at hlm
  rcases hlm with hlm | hlm
  · subst hlm
    have : nameIn hiddenFields (f.takeWhile (· ≠ LF)) = false := by
      rw [hf, takeWhile_lf_of_name X R (fun c hc h' => hX (h' ▸ hc))]
      unfold nameIn at hn ⊢
      rw [fieldName_cut]; exact hn
    unfold lineSafe
    rw [this]
    simp
  · unfold lineSafe
    simp [hr l hlm]

/-- **what `token822_unparse` writes for `name : tokens` is a safe piece** when no token holds a LF and the
name's text is not a hidden field name -/
theorem unparse_safe (n : Nat) (nm : Bytes) (rest : List Tok) (hnm : LF ∉ nm) (hts : rest.all lfFree = true)
    (hn : nameIn hiddenFields (uesc nm ++ [58]) = false) :
    pieceSafe (unparse n (.atom nm :: .colon :: rest)) = true := by
  obtain ⟨R, hR⟩ := unparse_prefix n nm rest hnm hts
  have hall : (Tok.atom nm :: Tok.colon :: rest).all lfFree = true := by
    simp [lfFree, hnm, hts]
  exact logical_safe _ (uesc nm) R (unparse_logical n _ hall) hR (uesc_nolf nm hnm) hn


/-! ### from the token-level conditions to safe pieces -/

theorem unparse_safe_pre (pre : Bytes) (hpre : LF ∉ pre) (n : Nat) (ts : List Tok) (h : toksSafe pre ts = true) :
    pieceSafe (pre ++ unparse n ts) = true := by
  unfold toksSafe at h
  split at h
  · rename_i nm rest
    simp only [Bool.and_eq_true, Bool.not_eq_true', List.contains_eq_mem, decide_eq_false_iff_not] at h
    obtain ⟨⟨hnm, hts⟩, hn⟩ := h
    obtain ⟨R, hR⟩ := unparse_prefix n nm rest hnm hts
    have hall : (Tok.atom nm :: Tok.colon :: rest).all lfFree = true := by simp [lfFree, hnm, hts]
    have hl := unparse_logical n _ hall
    have hne : unparse n (Tok.atom nm :: Tok.colon :: rest) ≠ [] := by rw [hR]; simp
    have hl' : logicalLine (pre ++ unparse n (Tok.atom nm :: Tok.colon :: rest)) = true := by
      rw [Nq.Lemmas.C17HB.logicalLine_prefix pre _ hpre hne]; exact hl
    refine logical_safe _ (pre ++ uesc nm) R hl' (by rw [hR]; simp) ?_ (by simpa using hn)
    simp only [List.mem_append, not_or]
    exact ⟨hpre, uesc_nolf nm hnm⟩
  · simp at h

theorem rewriteField_safe (c : Inject.RwCfg) (mayfail : Bool) (h : Bytes) (hv : Inject.hfieldValid h = true)
    (hl : logicalLine h = true) (hn : nameIn hiddenFields h = false) (hok : rewrittenOk c h = true) :
    pieceSafe (Inject.rewriteField c mayfail h).1 = true := by
  unfold rewrittenOk at hok
  unfold Inject.rewriteField
  cases hp : parse h with
  | none => exact verbatim_safe h hv hl hn
  | some ts =>
    simp only [hp] at hok ⊢
    split
    · rename_i hrok
      simp only [hrok, Bool.not_true, Bool.false_or] at hok
      have := unparse_safe_pre [] (by simp) Gen.LINELEN _ hok
      simpa using this
    · exact verbatim_safe h hv hl hn

theorem defaultFrom_eq (e : Inject.Env) (c : Inject.RwCfg) :
    Inject.defaultFrom e c = (defaultFromOut e c).map (unparse Gen.LINELEN) := by
  unfold Inject.defaultFrom defaultFromOut
  simp only []
  generalize parse _ = p
  cases p with
  | none => rfl
  | some ts =>
    simp only []
    split <;> rfl

theorem defaultFrom_safe (e : Inject.Env) (c : Inject.RwCfg) (hok : fromOk e c = true) (t : Bytes)
    (ht : Inject.defaultFrom e c = some t) : pieceSafe t = true ∧ pieceSafe (str "Resent-" ++ t) = true := by
  rw [defaultFrom_eq] at ht
  unfold fromOk at hok
  cases ho : defaultFromOut e c with
  | none => rw [ho] at ht; simp at ht
  | some out =>
    rw [ho] at ht hok
    simp only [Option.map_some, Option.some.injEq] at ht
    simp only [Bool.and_eq_true] at hok
    subst ht
    refine ⟨by simpa using unparse_safe_pre [] (by simp) Gen.LINELEN out hok.1,
      unparse_safe_pre (str "Resent-") (by decide +kernel) Gen.LINELEN out hok.2⟩

end Nq.Lemmas.C17UL
