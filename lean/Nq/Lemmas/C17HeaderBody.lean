/-
  Lemmas for C17 (session 4): `Nq.Inject.headerbody` (model of headerbody.c + getln.c) equals the
  declarative description `Nq.Spec.HeaderBody`, and the laws of that description.
-/
import Nq.Inject
import Nq.Spec.HeaderBody

namespace Nq.Lemmas.C17HB
open Nq Nq.Inject Nq.Spec.HeaderBody

/-! ### lines: the model's left-to-right accumulator = the right-to-left description -/

theorem splitLinesAux_eq (r cur : Bytes) :
    splitLinesAux r cur =
      match linesOf r with
      | [] => if cur.isEmpty then [] else [cur ++ [LF]]
      | l :: ls => (cur ++ l) :: ls := by
  induction r generalizing cur with
  | nil => simp [splitLinesAux, linesOf]
  | cons c r ih =>
    by_cases h : c = LF
    · subst h
      simp only [splitLinesAux, linesOf, if_true]
      rw [ih []]
      cases linesOf r <;> simp
    · simp only [splitLinesAux, linesOf, h, if_false]
      rw [ih (cur ++ [c])]
      cases linesOf r <;> simp

theorem splitLines_eq (inp : Bytes) : splitLines inp = linesOf inp := by
  unfold splitLines
  rw [splitLinesAux_eq]
  cases linesOf inp <;> simp

theorem linesOf_ne_nil (l : Bytes) (h : l ∈ linesOf inp) : l ≠ [] := by
  induction inp generalizing l with
  | nil => simp [linesOf] at h
  | cons c r ih =>
    unfold linesOf at h
    by_cases hc : c = LF
    · simp only [hc, if_true, List.mem_cons] at h
      rcases h with h | h
      · subst h; simp
      · exact ih l h
    · simp only [hc, if_false] at h
      cases hr : linesOf r with
      | nil => simp [hr] at h; subst h; simp
      | cons l0 ls =>
        simp only [hr, List.mem_cons] at h
        rcases h with h | h
        · subst h; simp
        · exact ih l (by rw [hr]; exact List.mem_cons_of_mem _ h)

/-- every line is `b ++ [LF]` with no LF in `b` -/
theorem linesOf_shape (inp : Bytes) : ∀ l ∈ linesOf inp, ∃ b, l = b ++ [LF] ∧ LF ∉ b := by
  induction inp with
  | nil => simp [linesOf]
  | cons c r ih =>
    intro l h
    unfold linesOf at h
    by_cases hc : c = LF
    · simp only [hc, if_true, List.mem_cons] at h
      rcases h with h | h
      · exact ⟨[], by simp [h], by simp⟩
      · exact ih l h
    · simp only [hc, if_false] at h
      cases hr : linesOf r with
      | nil =>
        simp only [hr, List.mem_singleton] at h
        exact ⟨[c], by simp [h], by simp; exact fun h' => hc h'.symm⟩
      | cons l0 ls =>
        simp only [hr, List.mem_cons] at h
        rcases h with h | h
        · obtain ⟨b, hb, hn⟩ := ih l0 (by rw [hr]; exact List.mem_cons_self)
          refine ⟨c :: b, by simp [h, hb], ?_⟩
          simp only [List.mem_cons, not_or]
          exact ⟨fun h' => hc h'.symm, hn⟩
        · exact ih l (by rw [hr]; exact List.mem_cons_of_mem _ h)

theorem isLine_of_shape (b : Bytes) (hn : LF ∉ b) : isLine (b ++ [LF]) = true := by
  simp [isLine, hn]

theorem linesOf_isLine (inp : Bytes) : ∀ l ∈ linesOf inp, isLine l = true := by
  intro l h
  obtain ⟨b, rfl, hn⟩ := linesOf_shape inp l h
  exact isLine_of_shape b hn

/-- concatenating the lines gives the input back, with a final LF supplied if it was missing -/
theorem linesOf_flatten (inp : Bytes) : (linesOf inp).flatten = norm inp := by
  induction inp with
  | nil => simp [linesOf, norm]
  | cons c r ih =>
    unfold linesOf
    by_cases hc : c = LF
    · subst hc
      simp only [if_true, List.flatten_cons, ih]
      unfold norm
      cases r with
      | nil => simp
      | cons d r' => simp [List.getLast?_cons_cons]; split <;> rfl
    · simp only [hc, if_false]
      cases hr : linesOf r with
      | nil =>
        rw [hr] at ih
        have hr0 : r = [] := by
          cases r with
          | nil => rfl
          | cons d r' =>
            exfalso
            unfold norm at ih
            simp only [List.flatten_nil] at ih
            split at ih <;> simp at ih
        subst hr0
        simp [norm, hc]
      | cons l0 ls =>
        rw [hr] at ih
        simp only [List.flatten_cons] at ih ⊢
        rw [List.cons_append, ih]
        unfold norm
        cases r with
        | nil => simp [linesOf] at hr
        | cons d r' => simp [List.getLast?_cons_cons]; split <;> rfl

/-! ### classification facts -/


/-- the name part kept by `hfield_valid` is a prefix of the bytes before the colon -/
theorem strip_prefix (name : Bytes) (q : Byte → Bool) :
    ∃ t, name = (name.reverse.dropWhile q).reverse ++ t := by
  obtain ⟨t, ht⟩ := List.dropWhile_suffix (l := name.reverse) q
  refine ⟨t.reverse, ?_⟩
  have := congrArg List.reverse ht
  simp only [List.reverse_append, List.reverse_reverse] at this
  exact this.symm

theorem hfieldValid_head (c : Byte) (r : Bytes) (h : hfieldValid (c :: r) = true) :
    32 < c.toNat ∧ c.toNat < 127 := by
  unfold hfieldValid at h
  split at h
  · simp at h
  · simp only [Bool.and_eq_true, Bool.not_eq_true', List.isEmpty_eq_false_iff, ne_eq] at h
    obtain ⟨hne, hall⟩ := h
    by_cases hc : c = 58
    · subst hc
      simp at hne
    · have htw : List.takeWhile (fun x => decide (x ≠ 58)) (c :: r) = c :: List.takeWhile (fun x => decide (x ≠ 58)) r := by
        simp [List.takeWhile_cons, hc]
      rw [htw] at hne hall
      obtain ⟨t, ht⟩ := strip_prefix (c :: List.takeWhile (fun x => decide (x ≠ 58)) r) (fun c => decide (c = SP ∨ c = TAB))
      generalize hn : (List.dropWhile (fun c => decide (c = SP ∨ c = TAB)) (c :: List.takeWhile (fun x => decide (x ≠ 58)) r).reverse).reverse = n' at hne hall ht
      cases n' with
      | nil => exact absurd rfl hne
      | cons x xs =>
        simp only [List.cons_append, List.cons.injEq] at ht
        obtain ⟨hx, _⟩ := ht
        subst hx
        simp only [List.all_cons, Bool.and_eq_true, decide_eq_true_eq] at hall
        exact hall.1

theorem start_not_cont (l : Bytes) (h : isStart l = true) : isCont l = false := by
  unfold isStart at h
  cases l with
  | nil => simp [isCont]
  | cons c r =>
    rcases Bool.or_eq_true _ _ |>.mp h with h | h
    · have hF : str "From " = [70, 114, 111, 109, 32] := by decide +kernel
      have : c = 70 := by
        simp only [isFromLine, hF] at h
        simp [List.isPrefixOf] at h
        exact h.1.symm
      subst this
      simp only [isCont, List.head?_cons]
      decide
    · have := hfieldValid_head c r h
      have h1 : c ≠ SP := by intro hh; rw [hh] at this; revert this; decide
      have h2 : c ≠ TAB := by intro hh; rw [hh] at this; revert this; decide
      simp [isCont, h1, h2]

theorem blank_not_start : isStart [LF] = false := by decide +kernel

/-! ### header / rest / groups: unfolding along "one field, then the remainder" -/

theorem takeWhile_hdr (r : List Bytes) :
    r.takeWhile isHdrLine = r.takeWhile isCont ++ hdr (r.dropWhile isCont) ∧
    r.dropWhile isHdrLine = rest (r.dropWhile isCont) := by
  induction r with
  | nil => simp [hdr, rest]
  | cons x r ih =>
    by_cases hx : isCont x = true
    · have : isHdrLine x = true := by simp [isHdrLine, hx]
      simp [List.takeWhile_cons, List.dropWhile_cons, hx, this, ih.1, ih.2]
    · have hx' : isCont x = false := by simpa using hx
      have : isHdrLine x = isStart x := by simp [isHdrLine, hx']
      simp only [List.takeWhile_cons, List.dropWhile_cons, hx', this, Bool.false_eq_true, if_false, List.nil_append, hdr, rest]
      constructor <;> first | trivial | (split <;> rfl)

theorem groups_head (x : Bytes) (t : List Bytes) : ∃ g' gs, groups (x :: t) = (x :: g') :: gs := by
  rw [groups]
  cases hg : groups t with
  | nil => exact ⟨[], [], rfl⟩
  | cons g gs =>
    rcases g with _ | ⟨c, g⟩
    · exact ⟨[], [] :: gs, by simp⟩
    · by_cases hc : isCont c = true
      · exact ⟨c :: g, gs, by simp [hc]⟩
      · exact ⟨[], (c :: g) :: gs, by simp [hc]⟩

/-- a line, its continuation lines, then lines that do not begin with a continuation: one group -/
theorem groups_field (l : Bytes) (cs t : List Bytes) (hcs : ∀ c ∈ cs, isCont c = true)
    (ht : ∀ x, t.head? = some x → isCont x = false) :
    groups (l :: (cs ++ t)) = (l :: cs) :: groups t := by
  induction cs generalizing l with
  | nil =>
    simp only [List.nil_append]
    cases t with
    | nil => simp [groups]
    | cons x t' =>
      obtain ⟨g', gs, hg⟩ := groups_head x t'
      have hx := ht x rfl
      rw [groups, hg]
      simp [hx]
  | cons c cs ih =>
    have h1 := ih c (fun c' hc' => hcs c' (List.mem_cons_of_mem _ hc'))
    rw [List.cons_append, groups, h1]
    simp [hcs c List.mem_cons_self]

theorem hdr_head_not_cont (ls : List Bytes) : ∀ x, (hdr ls).head? = some x → isCont x = false := by
  intro x hx
  cases ls with
  | nil => simp [hdr] at hx
  | cons l r =>
    by_cases hs : isStart l = true
    · simp only [hdr, hs, if_true, List.head?_cons, Option.some.injEq] at hx
      subst hx
      exact start_not_cont _ hs
    · simp [hdr, hs] at hx

/-! ### the model's first loop -/

theorem aux_nil (cur : Option Bytes) (acc : List Bytes) :
    headerbodyAux [] cur acc = { fields := acc ++ cur.toList, body := [] } := by
  rw [headerbodyAux.eq_def]

theorem aux_cons_none (nl : Bytes) (rest : List Bytes) (acc : List Bytes) :
    headerbodyAux (nl :: rest) none acc =
      if nl.length = 1 then { fields := acc, body := nl :: rest }
      else if isFromLine nl then headerbodyAux rest (some (mboxName ++ nl)) acc
      else if hfieldValid nl then headerbodyAux rest (some nl) acc
      else { fields := acc, body := [LF] :: nl :: rest } := by
  rw [headerbodyAux.eq_def]
  rfl

theorem aux_cons_some (nl : Bytes) (rest : List Bytes) (line : Bytes) (acc : List Bytes) :
    headerbodyAux (nl :: rest) (some line) acc =
      if isCont nl then headerbodyAux rest (some (line ++ nl)) acc
      else headerbodyAux (nl :: rest) none (acc ++ [line]) := by
  rw [aux_cons_none, headerbodyAux.eq_def]
  cases nl with
  | nil =>
    have : isCont ([] : Bytes) = false := by decide
    simp only [this, Bool.false_eq_true, if_false]
    rfl
  | cons c r => 
    simp only [isCont, List.head?_cons]
    by_cases h : (c == SP || c == TAB) = true
    · have : (some c == some SP || some c == some TAB) = true := by simpa using h
      simp only [h, this, if_true]
    · have : (some c == some SP || some c == some TAB) = false := by simpa using h
      have h' : (c == SP || c == TAB) = false := by simpa using h
      simp only [h', this, if_false, Bool.false_eq_true]
      rfl

theorem aux_some (ls : List Bytes) (line : Bytes) (acc : List Bytes) :
    headerbodyAux ls (some line) acc =
      headerbodyAux (ls.dropWhile isCont) none (acc ++ [line ++ (ls.takeWhile isCont).flatten]) := by
  induction ls generalizing line with
  | nil => simp [aux_nil]
  | cons nl rest ih =>
    rw [aux_cons_some]
    by_cases hc : isCont nl = true
    · simp only [hc, if_true]
      rw [ih]
      simp [List.takeWhile_cons, List.dropWhile_cons, hc]
    · have hc' : isCont nl = false := by simpa using hc
      simp [List.takeWhile_cons, List.dropWhile_cons, hc']

theorem mem_takeWhile_true {α} (p : α → Bool) (l : List α) (x : α) (h : x ∈ l.takeWhile p) : p x = true := by
  induction l with
  | nil => simp at h
  | cons a l ih =>
    simp only [List.takeWhile_cons] at h
    split at h
    · rename_i ha
      simp only [List.mem_cons] at h
      rcases h with h | h
      · rw [h]; exact ha
      · exact ih h
    · simp at h

theorem dropWhile_length_le {α} (p : α → Bool) (l : List α) : (l.dropWhile p).length ≤ l.length := by
  induction l with
  | nil => simp
  | cons a l ih => simp only [List.dropWhile_cons]; split <;> simp <;> omega

theorem aux_none (n : Nat) : ∀ ls : List Bytes, ls.length ≤ n → (∀ l ∈ ls, isLine l = true) → ∀ acc,
    headerbodyAux ls none acc = { fields := acc ++ (groups (hdr ls)).map fieldOf, body := bodyOf (rest ls) } := by
  induction n with
  | zero =>
    intro ls hl _ acc
    have : ls = [] := List.eq_nil_of_length_eq_zero (by omega)
    subst this
    simp [aux_nil, hdr, groups, rest, bodyOf]
  | succ n ih =>
    intro ls hl hlines acc
    cases ls with
    | nil => simp [aux_nil, hdr, groups, rest, bodyOf]
    | cons nl r =>
      have hr : (r.dropWhile isCont).length ≤ n := by
        have := dropWhile_length_le isCont r
        simp only [List.length_cons] at hl
        omega
      have hrl : ∀ l ∈ r.dropWhile isCont, isLine l = true := fun l h =>
        hlines l (List.mem_cons_of_mem _ ((List.dropWhile_sublist _).subset h))
      have tw := takeWhile_hdr r
      have hfield : isStart nl = true →
          groups (hdr (nl :: r)) = (nl :: r.takeWhile isCont) :: groups (hdr (r.dropWhile isCont)) ∧
          rest (nl :: r) = rest (r.dropWhile isCont) := by
        intro hs
        simp only [hdr, rest, hs, if_true, tw.1, tw.2, and_true]
        exact groups_field nl _ _ (fun c hc => mem_takeWhile_true isCont _ c hc) (hdr_head_not_cont _)
      rw [aux_cons_none]
      by_cases h1 : nl.length = 1
      · have hnl : nl = [LF] := by
          have := hlines nl List.mem_cons_self
          match nl, h1 with
          | [c], _ => simp [isLine] at this; rw [this]
        subst hnl
        simp [hdr, rest, blank_not_start, groups, bodyOf]
      · have hne : nl ≠ [LF] := fun h => h1 (by rw [h]; rfl)
        simp only [h1, if_false]
        by_cases h2 : isFromLine nl = true
        · have hs : isStart nl = true := by simp [isStart, h2]
          obtain ⟨e1, e2⟩ := hfield hs
          simp only [h2, if_true]
          rw [aux_some, ih _ hr hrl, e1, e2]
          simp [fieldOf, h2, mboxName]
        · have h2' : isFromLine nl = false := by simpa using h2
          simp only [h2', Bool.false_eq_true, if_false]
          by_cases h3 : hfieldValid nl = true
          · have hs : isStart nl = true := by simp [isStart, h3]
            obtain ⟨e1, e2⟩ := hfield hs
            simp only [h3, if_true]
            rw [aux_some, ih _ hr hrl, e1, e2]
            simp [fieldOf, h2']
          · have h3' : hfieldValid nl = false := by simpa using h3
            have hs : isStart nl = false := by simp [isStart, h2', h3']
            simp [h3', hdr, rest, hs, groups, bodyOf, hne]

/-- **model = description** -/
theorem headerbody_eq (inp : Bytes) :
    headerbody inp = { fields := specFields inp, body := specBody inp } := by
  unfold headerbody specFields specBody
  rw [splitLines_eq, aux_none _ _ (Nat.le_refl _) (linesOf_isLine inp)]
  simp

end Nq.Lemmas.C17HB
