/-
  Lemmas for the I/O-error extension of C10 (Nq.RewriteIO / Nq.Spec.RouteIO).
-/
import Nq.RewriteIO
import Nq.Spec.RouteIO
import Nq.Lemmas.RewriteDaemon

namespace Nq.Lemmas.RewriteIO
open Nq Nq.Rewrite Nq.Route Nq.Lemmas.RewriteMap Nq.Lemmas.RewriteSpec Nq.Lemmas.RewriteTodo Nq.Lemmas.RewriteCtl
open Nq.Lemmas.RewriteDaemon

/-! ### readers -/

theorem readfileIO_hit (flt : Option RdFault) (f me : Option Bytes) (fm : Bool) (h : fileHits flt f = true) :
    readfileIO flt f me fm = .err := by simp [readfileIO, h]

theorem readfileIO_miss (flt : Option RdFault) (f me : Option Bytes) (fm : Bool) (h : fileHits flt f = false) :
    readfileIO flt f me fm = Rd.ofOpt (readfile f me fm) := by simp [readfileIO, h]

theorem readlineIO_hit (flt : Option RdFault) (f : Option Bytes) (h : lineHits flt f = true) :
    readlineIO flt f = .err := by simp [readlineIO, h]

theorem readlineIO_miss (flt : Option RdFault) (f : Option Bytes) (h : lineHits flt f = false) :
    readlineIO flt f = Rd.ofOpt (readline f) := by simp [readlineIO, h]

/-! ### regetcontrols -/

theorem regetIO_eq (io : IOEnv) (me : Option Bytes) (old : RawCfg) (f : Files) :
    regetIO io me old f = if strikesReread io f then old else reget me old f := by
  unfold regetIO strikesReread reget
  by_cases h0 : io.chdirHome = true
  · simp [h0]
  · have h0' : io.chdirHome = false := by simpa using h0
    by_cases h1 : fileHits io.locals f.locals = true
    · simp [h0', h1, readfileIO_hit]
    · have h1' : fileHits io.locals f.locals = false := by simpa using h1
      rw [readfileIO_miss _ _ _ _ h1']
      by_cases h2 : fileHits io.vdoms f.vdoms = true
      · simp only [h0', h1', h2, readfileIO_hit, Bool.false_or, Bool.or_true, if_true]
        cases readfile f.locals me true <;> simp [Rd.ofOpt]
      · have h2' : fileHits io.vdoms f.vdoms = false := by simpa using h2
        rw [readfileIO_miss _ _ _ _ h2']
        simp only [h0', h1', h2', Bool.or_false]
        cases readfile f.locals me true <;> cases readfile f.vdoms me false <;> simp [Rd.ofOpt]

theorem regetIO_cases (io : IOEnv) (me : Option Bytes) (old : RawCfg) (f : Files) :
    regetIO io me old f = old ∨ regetIO io me old f = reget me old f := by
  rw [regetIO_eq]; split
  · exact Or.inl rfl
  · exact Or.inr rfl

theorem topIO_quiet (d : Daemon) (io : IOEnv) (h : strikesReread io d.files = false) : d.topIO io = d.top := by
  unfold Daemon.topIO Daemon.top
  rw [regetIO_eq, h]; rfl

theorem topIO_struck (d : Daemon) (io : IOEnv) (h : strikesReread io d.files = true) :
    d.topIO io = { d with flagread := false } := by
  unfold Daemon.topIO
  rw [regetIO_eq, h]
  by_cases hf : d.flagread = true
  · simp [hf]
  · have : d.flagread = false := by simpa using hf
    simp [this]
    cases d; simp_all

theorem topIO_idle (d : Daemon) (io : IOEnv) (h : d.flagread = false) : d.topIO io = d := by
  simp [Daemon.topIO, h]

/-! ### getcontrols / start-up -/

theorem getcontrolsIO_eq (io : IOEnv) (f : Files) :
    getcontrolsIO io f =
      if (io.other || io.cmNomem || lineHits io.me f.me || envHits io.env f.env ||
          fileHits io.locals f.locals || fileHits io.ph f.ph || fileHits io.vdoms f.vdoms) = true
      then none else getcontrols f := by
  unfold getcontrolsIO getcontrols
  by_cases hme : lineHits io.me f.me = true
  · simp [readlineIO_hit _ _ hme, hme]
  have hme' : lineHits io.me f.me = false := by simpa using hme
  rw [readlineIO_miss _ _ hme']
  by_cases ho : io.other = true
  · cases readline f.me <;> simp [Rd.ofOpt, ho]
  have ho' : io.other = false := by simpa using ho
  by_cases hc : io.cmNomem = true
  · cases readline f.me <;> simp only [Rd.ofOpt, ho', hc] <;> (repeat' split) <;> simp_all
  have hc' : io.cmNomem = false := by simpa using hc
  by_cases he : envHits io.env f.env = true
  · have : rldefIO io.env f.env ((readline f.me).getD ENVDEFAULT) = none := by
      unfold rldefIO
      unfold envHits at he
      by_cases hl : lineHits io.env f.env = true
      · simp [readlineIO_hit _ _ hl]
      · have hl' : lineHits io.env f.env = false := by simpa using hl
        rw [readlineIO_miss _ _ hl']
        simp only [hl', Bool.false_or, decide_eq_true_eq] at he
        cases hr : readline f.env with
        | none => simp [Rd.ofOpt, he]
        | some l =>
          -- nomem with an existing file hits the line reader
          exfalso
          rw [he] at hl'
          cases hf : f.env with
          | none => rw [hf] at hr; simp [readline] at hr
          | some s => rw [hf] at hl'; simp [lineHits] at hl'
    cases hm : readline f.me <;> simp only [hm, Rd.ofOpt, ho', he, Option.getD] at this ⊢ <;> simp [this]
  have he' : envHits io.env f.env = false := by simpa using he
  have hl' : lineHits io.env f.env = false := by
    unfold envHits at he'; simp only [Bool.or_eq_false_iff] at he'; exact he'.1
  have hnm : io.env ≠ some .nomem := by
    unfold envHits at he'; simp only [Bool.or_eq_false_iff, decide_eq_false_iff_not] at he'; exact he'.2
  have henv : rldefIO io.env f.env ((readline f.me).getD ENVDEFAULT) =
      some (match readline f.env with | some e => e | none => match readline f.me with | some m => m | none => ENVDEFAULT) := by
    unfold rldefIO
    rw [readlineIO_miss _ _ hl']
    cases readline f.env <;> cases readline f.me <;> simp [Rd.ofOpt, hnm]
  by_cases h1 : fileHits io.locals f.locals = true
  · cases hm : readline f.me <;> simp only [hm, Rd.ofOpt, ho', Option.getD] at henv ⊢ <;>
      simp [henv, readfileIO_hit _ _ _ _ h1, h1]
  have h1' : fileHits io.locals f.locals = false := by simpa using h1
  by_cases h2 : fileHits io.ph f.ph = true
  · cases hm : readline f.me <;> simp only [hm, Rd.ofOpt, ho', Option.getD] at henv ⊢ <;>
      simp only [henv, readfileIO_miss _ _ _ _ h1', readfileIO_hit _ _ _ _ h2, h2, hc'] <;>
      (cases readfile f.locals _ true <;> simp [Rd.ofOpt])
  have h2' : fileHits io.ph f.ph = false := by simpa using h2
  by_cases h3 : fileHits io.vdoms f.vdoms = true
  · cases hm : readline f.me <;> simp only [hm, Rd.ofOpt, ho', Option.getD] at henv ⊢ <;>
      simp only [henv, readfileIO_miss _ _ _ _ h1', readfileIO_miss _ _ _ _ h2', readfileIO_hit _ _ _ _ h3, h3, hc'] <;>
      (cases readfile f.locals _ true <;> cases readfile f.ph _ false <;> simp [Rd.ofOpt])
  have h3' : fileHits io.vdoms f.vdoms = false := by simpa using h3
  cases hm : readline f.me <;> simp only [hm, Rd.ofOpt, ho', Option.getD] at henv ⊢ <;>
    simp only [henv, readfileIO_miss _ _ _ _ h1', readfileIO_miss _ _ _ _ h2', readfileIO_miss _ _ _ _ h3', hc',
      hme', he', h1', h2', h3'] <;>
    (cases readfile f.locals _ true <;> cases readfile f.ph _ false <;> cases readfile f.vdoms _ false <;> simp [Rd.ofOpt]) <;>
    (cases readline f.env <;> rfl)

theorem startIO_eq (io : IOEnv) (f : Files) :
    startIO io f = if strikesStart io f then none else start f := by
  unfold startIO strikesStart start
  rw [getcontrolsIO_eq]
  by_cases h0 : io.chdirHome = true
  · simp [h0]
  have h0' : io.chdirHome = false := by simpa using h0
  by_cases hq : io.chdirQueue = true
  · simp only [h0', hq]
    split <;> (try split) <;> simp_all
  have hq' : io.chdirQueue = false := by simpa using hq
  simp only [h0', hq', Bool.false_or]
  generalize (io.other || io.cmNomem || lineHits io.me f.me || envHits io.env f.env ||
          fileHits io.locals f.locals || fileHits io.ph f.ph || fileHits io.vdoms f.vdoms) = b
  cases b <;> simp <;> cases getcontrols f <;> simp

/-! ### the monitor with failing re-reads -/

theorem acceptFAll_ev (es : List Ev) : ∀ d : Daemon, acceptFAll d (es.map .ev) = acceptAll d es := by
  induction es with
  | nil => intro d; rfl
  | cons e es ih =>
    intro d
    simp only [List.map_cons, acceptFAll, acceptAll, acceptF]
    cases accept d e with
    | none => rfl
    | some d' => exact ih d'

theorem acceptFAll_append (a b : List EvF) : ∀ d : Daemon,
    acceptFAll d (a ++ b) = (acceptFAll d a).bind (fun d' => acceptFAll d' b) := by
  induction a with
  | nil => intro d; rfl
  | cons e a ih =>
    intro d
    simp only [List.cons_append, acceptFAll]
    cases acceptF d e with
    | none => rfl
    | some d' => exact ih d'

theorem acceptF_fixed (d d' : Daemon) (e : EvF) (h : acceptF d e = some d') :
    d'.me = d.me ∧ d'.cfg.env = d.cfg.env ∧ d'.cfg.ph = d.cfg.ph := by
  cases e with
  | ev e => exact accept_fixed d d' e h
  | topIO io =>
    simp only [acceptF, Option.some.injEq] at h; subst h
    unfold Daemon.topIO
    split
    · refine ⟨rfl, ?_, ?_⟩ <;>
        (rcases regetIO_cases io d.me d.cfg d.files with h | h <;> simp only [h, reget_env, reget_ph])
    · exact ⟨rfl, rfl, rfl⟩

theorem acceptFAll_fixed (es : List EvF) : ∀ (d dn : Daemon), acceptFAll d es = some dn →
    dn.me = d.me ∧ dn.cfg.env = d.cfg.env ∧ dn.cfg.ph = d.cfg.ph := by
  induction es with
  | nil => intro d dn h; simp only [acceptFAll, Option.some.injEq] at h; subst h; exact ⟨rfl, rfl, rfl⟩
  | cons e es ih =>
    intro d dn h
    simp only [acceptFAll] at h
    cases ha : acceptF d e with
    | none => rw [ha] at h; simp at h
    | some d' =>
      rw [ha] at h
      obtain ⟨a1, a2, a3⟩ := acceptF_fixed d d' e ha
      obtain ⟨b1, b2, b3⟩ := ih d' dn h
      exact ⟨b1.trans a1, b2.trans a2, b3.trans a3⟩

/-- one event, failing re-reads included: the judgement holds and the simulation is preserved -/
theorem sim_stepF (f0 : Files) (d d' : Daemon) (s : SpecD) (e : EvF) (hsim : Sim f0 d s)
    (hroute : noDupKeys s.cfg.vdoms = true → ∀ r, rewrite s.cfg r = routeSpec s.cfg r)
    (ha : acceptF d e = some d') :
    specJudgeF s e = true ∧ ∀ s', specStepF f0 s e = some s' → Sim f0 d' s' := by
  cases e with
  | ev e => exact sim_step f0 d d' s e hsim hroute ha
  | topIO io =>
    simp only [acceptF, Option.some.injEq] at ha; subst ha
    refine ⟨rfl, fun s' hs' => ?_⟩
    simp only [specStepF] at hs'
    by_cases hp : s.pending = true
    · rw [if_pos hp] at hs'
      by_cases hk : strikesReread io s.files = true
      · rw [if_pos hk] at hs'
        simp only [Option.some.injEq] at hs'; subst hs'
        rw [topIO_struck d io (by rw [hsim.files]; exact hk)]
        exact ⟨hsim.me, hsim.me0, hsim.cfg, hsim.files, rfl⟩
      · rw [if_neg hk] at hs'
        have hk' : strikesReread io d.files = false := by rw [hsim.files]; simpa using hk
        rw [topIO_quiet d io hk']
        exact (sim_step f0 d d.top s .top hsim hroute rfl).2 s' hs'
    · rw [if_neg hp] at hs'
      simp only [Option.some.injEq] at hs'; subst hs'
      have hfl : d.flagread = false := by rw [hsim.flag]; simpa using hp
      rw [topIO_idle d io hfl]
      exact hsim

theorem sim_traceF (f0 : Files)
    (hroute : ∀ c : Cfg, noDupKeys c.vdoms = true → ∀ r, rewrite c r = routeSpec c r)
    (es : List EvF) : ∀ (d dn : Daemon) (s : SpecD), Sim f0 d s → acceptFAll d es = some dn →
      specTraceF f0 (some s) es = true := by
  induction es with
  | nil => intro d dn s _ _; rfl
  | cons e es ih =>
    intro d dn s hsim h
    simp only [acceptFAll] at h
    cases ha : acceptF d e with
    | none => rw [ha] at h; simp at h
    | some d' =>
      rw [ha] at h
      obtain ⟨hj, hn⟩ := sim_stepF f0 d d' s e hsim (hroute s.cfg) ha
      simp only [specTraceF, hj, Bool.true_and]
      cases hs : specStepF f0 s e with
      | none => simp [specTraceF]
      | some s' => exact ih d' dn s' (hn s' hs) h

/-! ### one instant -/

theorem reget_tables (me : Option Bytes) (old : RawCfg) (f : Files) :
    reget me old f = old ∨ tablesAt me f = some ((reget me old f).locals, (reget me old f).vdoms) := by
  unfold reget tablesAt
  cases readfile f.locals me true with
  | none => exact Or.inl rfl
  | some l => exact Or.inr rfl

theorem regetIO_tables (io : IOEnv) (me : Option Bytes) (old : RawCfg) (f : Files) :
    regetIO io me old f = old ∨ tablesAt me f = some ((regetIO io me old f).locals, (regetIO io me old f).vdoms) := by
  rcases regetIO_cases io me old f with h | h
  · exact Or.inl h
  · rw [h]; exact reget_tables me old f

theorem start_tables (f0 : Files) (d0 : Daemon) (h : start f0 = some d0) :
    tablesAt d0.me f0 = some (d0.cfg.locals, d0.cfg.vdoms) := by
  unfold start at h
  cases hg : getcontrols f0 with
  | none => rw [hg] at h; simp at h
  | some c =>
    rw [hg] at h; simp only [Option.some.injEq] at h; subst h
    unfold getcontrols at hg
    unfold tablesAt
    dsimp only at hg ⊢
    cases hl : readfile f0.locals (readline f0.me) true with
    | none => rw [hl] at hg; simp at hg
    | some l => rw [hl] at hg; simp only [Option.some.injEq] at hg; subst hg; rfl

/-- the tables in force (`locals` AND `vdoms`) are those read off ONE of the control directories
the daemon has looked at: start-up's, or the one on disk at some loop top with a HUP pending -/
theorem one_instant_all (es : List EvF) : ∀ (d dn : Daemon) (S : List Files),
    (∃ f ∈ S, tablesAt d.me f = some (d.cfg.locals, d.cfg.vdoms)) → acceptFAll d es = some dn →
    ∃ f ∈ S ++ servedAt d.files d.flagread es, tablesAt dn.me f = some (dn.cfg.locals, dn.cfg.vdoms) := by
  induction es with
  | nil =>
    intro d dn S hS h
    simp only [acceptFAll, Option.some.injEq] at h; subst h
    simpa [servedAt] using hS
  | cons e es ih =>
    intro d dn S hS h
    simp only [acceptFAll] at h
    cases ha : acceptF d e with
    | none => rw [ha] at h; simp at h
    | some d' =>
      rw [ha] at h
      replace h : acceptFAll d' es = some dn := h
      -- the generic re-read step
      have topcase : ∀ (c' : RawCfg), (c' = d.cfg ∨ tablesAt d.me d.files = some (c'.locals, c'.vdoms)) →
          d.flagread = true → d' = { d with cfg := c', flagread := false } →
          ∃ f ∈ S ++ (d.files :: servedAt d.files false es), tablesAt dn.me f = some (dn.cfg.locals, dn.cfg.vdoms) := by
        intro c' hc' _ hd'
        have : ∃ f ∈ S ++ [d.files], tablesAt d'.me f = some (d'.cfg.locals, d'.cfg.vdoms) := by
          subst hd'
          rcases hc' with hc' | hc'
          · obtain ⟨f, hf, ht⟩ := hS
            exact ⟨f, by simp [hf], by simpa [hc'] using ht⟩
          · exact ⟨d.files, by simp, hc'⟩
        have r := ih d' dn (S ++ [d.files]) this h
        subst hd'
        simpa [List.append_assoc] using r
      cases e with
      | ev e =>
        cases e with
        | edit f =>
          simp only [acceptF, accept, Option.some.injEq] at ha; subst ha
          have r := ih { d with files := f } dn S hS h
          simpa [servedAt] using r
        | hup =>
          simp only [acceptF, accept, Option.some.injEq] at ha; subst ha
          have r := ih { d with flagread := true } dn S hS h
          simpa [servedAt] using r
        | top =>
          simp only [acceptF, accept, Option.some.injEq] at ha
          by_cases hf : d.flagread = true
          · simp only [servedAt, hf, if_true]
            refine topcase (reget d.me d.cfg d.files) (reget_tables _ _ _) hf ?_
            rw [← ha]; simp [Daemon.top, hf]
          · have hf' : d.flagread = false := by simpa using hf
            rw [top_idle d hf'] at ha; subst ha
            simpa [servedAt, hf'] using ih _ dn S hS h
        | msg todo out =>
          simp only [acceptF, accept] at ha
          split at ha
          · simp only [Option.some.injEq] at ha; subst ha
            simpa [servedAt] using ih _ dn S hS h
          · simp at ha
      | topIO io =>
        simp only [acceptF, Option.some.injEq] at ha
        by_cases hf : d.flagread = true
        · simp only [servedAt, hf, if_true]
          refine topcase (regetIO io d.me d.cfg d.files) (regetIO_tables _ _ _ _) hf ?_
          rw [← ha]; simp [Daemon.topIO, hf]
        · have hf' : d.flagread = false := by simpa using hf
          rw [topIO_idle d io hf'] at ha; subst ha
          simpa [servedAt, hf'] using ih _ dn S hS h

/-! ### one instant, in the documents' terms -/

theorem sim_runF (f0 : Files)
    (hroute : ∀ c : Cfg, noDupKeys c.vdoms = true → ∀ r, rewrite c r = routeSpec c r)
    (es : List EvF) : ∀ (d dn : Daemon) (s sn : SpecD), Sim f0 d s → acceptFAll d es = some dn →
      specRunF f0 s es = some sn → Sim f0 dn sn := by
  induction es with
  | nil =>
    intro d dn s sn hsim h hr
    simp only [acceptFAll, Option.some.injEq] at h; subst h
    simp only [specRunF, Option.some.injEq] at hr; subst hr
    exact hsim
  | cons e es ih =>
    intro d dn s sn hsim h hr
    simp only [acceptFAll] at h
    simp only [specRunF] at hr
    cases ha : acceptF d e with
    | none => rw [ha] at h; simp at h
    | some d' =>
      rw [ha] at h
      cases hs : specStepF f0 s e with
      | none => rw [hs] at hr; simp at hr
      | some s' =>
        rw [hs] at hr
        exact ih d' dn s' sn ((sim_stepF f0 d d' s e hsim (hroute s.cfg) ha).2 s' hs) h hr

theorem specHup_tables (old : Cfg) (f0 f : Files) :
    specHup old f0 f = old ∨
      (specTables f0.me f = some ((specHup old f0 f).locals, (specHup old f0 f).vdoms) ∧
       (specHup old f0 f).env = old.env ∧ (specHup old f0 f).ph = old.ph) := by
  unfold specHup specTables
  cases specLocals { f with me := f0.me } with
  | none => exact Or.inl rfl
  | some l => exact Or.inr ⟨rfl, rfl, rfl⟩

/-- one event of the documented state: envnoathost/percenthack stay, and the two tables are either
the old ones or BOTH those of the directory on disk at a served HUP -/
theorem specStepF_tables (f0 : Files) (s s' : SpecD) (e : EvF) (h : specStepF f0 s e = some s') :
    s'.cfg.env = s.cfg.env ∧ s'.cfg.ph = s.cfg.ph ∧
    ((s'.cfg.locals = s.cfg.locals ∧ s'.cfg.vdoms = s.cfg.vdoms) ∨
     (specTables f0.me s.files = some (s'.cfg.locals, s'.cfg.vdoms) ∧ s.files ∈ servedAt s.files s.pending [e])) ∧
    servedAt s.files s.pending [e] ⊆ [s.files] ∧
    ∀ es, servedAt s.files s.pending (e :: es) = servedAt s.files s.pending [e] ++ servedAt s'.files s'.pending es := by
  have topc : s.pending = true → (if nulFreeB s.files = true then some { s with cfg := specHup s.cfg f0 s.files, pending := false } else none) = some s' →
      s'.cfg.env = s.cfg.env ∧ s'.cfg.ph = s.cfg.ph ∧
      ((s'.cfg.locals = s.cfg.locals ∧ s'.cfg.vdoms = s.cfg.vdoms) ∨
        specTables f0.me s.files = some (s'.cfg.locals, s'.cfg.vdoms)) ∧ s'.files = s.files ∧ s'.pending = false := by
    intro _ h
    split at h
    · simp only [Option.some.injEq] at h; subst h
      rcases specHup_tables s.cfg f0 s.files with hh | ⟨h1, h2, h3⟩
      · rw [hh]; exact ⟨rfl, rfl, Or.inl ⟨rfl, rfl⟩, rfl, rfl⟩
      · exact ⟨h2, h3, Or.inr h1, rfl, rfl⟩
    · simp at h
  cases e with
  | ev e =>
    cases e with
    | edit f =>
      simp only [specStepF, specStep, Option.some.injEq] at h; subst h
      exact ⟨rfl, rfl, Or.inl ⟨rfl, rfl⟩, by simp [servedAt], fun es => by simp [servedAt]⟩
    | hup =>
      simp only [specStepF, specStep, Option.some.injEq] at h; subst h
      exact ⟨rfl, rfl, Or.inl ⟨rfl, rfl⟩, by simp [servedAt], fun es => by simp [servedAt]⟩
    | top =>
      simp only [specStepF, specStep] at h
      by_cases hp : s.pending = true
      · rw [if_pos hp] at h
        obtain ⟨a, b, c, d1, d2⟩ := topc hp h
        refine ⟨a, b, ?_, by simp [servedAt, hp], fun es => by simp [servedAt, hp, d1, d2]⟩
        rcases c with c | c
        · exact Or.inl c
        · exact Or.inr ⟨c, by simp [servedAt, hp]⟩
      · rw [if_neg hp] at h
        simp only [Option.some.injEq] at h; subst h
        have hp' : s.pending = false := by simpa using hp
        exact ⟨rfl, rfl, Or.inl ⟨rfl, rfl⟩, by simp [servedAt, hp'], fun es => by simp [servedAt, hp']⟩
    | msg t o =>
      simp only [specStepF, specStep, Option.some.injEq] at h; subst h
      exact ⟨rfl, rfl, Or.inl ⟨rfl, rfl⟩, by simp [servedAt], fun es => by simp [servedAt]⟩
  | topIO io =>
    simp only [specStepF] at h
    by_cases hp : s.pending = true
    · rw [if_pos hp] at h
      by_cases hk : strikesReread io s.files = true
      · rw [if_pos hk] at h
        simp only [Option.some.injEq] at h; subst h
        exact ⟨rfl, rfl, Or.inl ⟨rfl, rfl⟩, by simp [servedAt, hp], fun es => by simp [servedAt, hp]⟩
      · rw [if_neg hk] at h
        simp only [specStep, if_pos hp] at h
        obtain ⟨a, b, c, d1, d2⟩ := topc hp h
        refine ⟨a, b, ?_, by simp [servedAt, hp], fun es => by simp [servedAt, hp, d1, d2]⟩
        rcases c with c | c
        · exact Or.inl c
        · exact Or.inr ⟨c, by simp [servedAt, hp]⟩
    · rw [if_neg hp] at h
      simp only [Option.some.injEq] at h; subst h
      have hp' : s.pending = false := by simpa using hp
      exact ⟨rfl, rfl, Or.inl ⟨rfl, rfl⟩, by simp [servedAt, hp'], fun es => by simp [servedAt, hp']⟩

/-- along every run of the documented state: envnoathost/percenthack never change and the two tables
are those of ONE directory among start-up's and the ones on disk at the served HUPs -/
theorem spec_one_instant (f0 : Files) (es : List EvF) : ∀ (s sn : SpecD) (S : List Files),
    (∃ f ∈ S, specTables f0.me f = some (s.cfg.locals, s.cfg.vdoms)) → specRunF f0 s es = some sn →
    sn.cfg.env = s.cfg.env ∧ sn.cfg.ph = s.cfg.ph ∧
    ∃ f ∈ S ++ servedAt s.files s.pending es, specTables f0.me f = some (sn.cfg.locals, sn.cfg.vdoms) := by
  induction es with
  | nil =>
    intro s sn S hS h
    simp only [specRunF, Option.some.injEq] at h; subst h
    exact ⟨rfl, rfl, by simpa [servedAt] using hS⟩
  | cons e es ih =>
    intro s sn S hS h
    simp only [specRunF] at h
    cases hs : specStepF f0 s e with
    | none => rw [hs] at h; simp at h
    | some s' =>
      rw [hs] at h
      replace h : specRunF f0 s' es = some sn := h
      obtain ⟨a, b, c, _, e5⟩ := specStepF_tables f0 s s' e hs
      have hS' : ∃ f ∈ S ++ servedAt s.files s.pending [e], specTables f0.me f = some (s'.cfg.locals, s'.cfg.vdoms) := by
        rcases c with ⟨c1, c2⟩ | ⟨c1, c2⟩
        · obtain ⟨f, hf, ht⟩ := hS
          exact ⟨f, List.mem_append_left _ hf, by rw [c1, c2]; exact ht⟩
        · exact ⟨s.files, List.mem_append_right _ c2, c1⟩
      obtain ⟨i1, i2, i3⟩ := ih s' sn _ hS' h
      refine ⟨i1.trans a, i2.trans b, ?_⟩
      rw [e5 es, ← List.append_assoc]
      exact i3

end Nq.Lemmas.RewriteIO
