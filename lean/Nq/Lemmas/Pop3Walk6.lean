import Nq.Lemmas.Pop3Walk5
namespace Nq.Lemmas.Pop3
open Nq Nq.Pop3 Nq.Pop3Ref Nq.Lemmas.Pop3Fmt

/-! ### QUIT: what pop3_quit writes -/

/-- the line pop3_quit writes for a marked message whose file is no longer there -/
def errU : Bytes := errLine "unable to unlink all deleted messages"

/-- maildir names: no two messages share a name, and no message carries the name pop3_quit would
give to another (maildir(5): the part before ":2," is unique) -/
def NamesOk (names : List Bytes) : Prop := names.Nodup ∧ ∀ a ∈ names, ∀ b ∈ names, seenName a ≠ b

theorem NamesOk.tail {a : Bytes} {l : List Bytes} (h : NamesOk (a :: l)) : NamesOk l :=
  ⟨(List.nodup_cons.mp h.1).2, fun x hx y hy => h.2 x (by simp [hx]) y (by simp [hy])⟩

/-- the marked messages whose file is missing (`F` = the maildir pop3_quit starts from) -/
def lostCount (F : Bytes → Option File) (ms : List Msg) : Nat :=
  (ms.filter (fun m => m.del && (F m.fn).isNone)).length

def rep (j : Nat) : Bytes := (List.replicate j errU).flatten

theorem rep_succ (j : Nat) : rep (j + 1) = errU ++ rep j := by simp [rep, List.replicate_succ]

theorem rep_add_one (j : Nat) (out : Bytes) : out ++ errU ++ rep j = out ++ rep (j + 1) := by
  rw [rep_succ]; simp

theorem quit_out : ∀ (ms : List Msg) (fs : FS) (out : Bytes) (F : Bytes → Option File),
    (∀ m ∈ ms, fsFind fs m.fn = F m.fn) → NamesOk (ms.map (·.fn)) →
    (quitLoop ms fs out).2 = out ++ rep (lostCount F ms) := by
  intro ms
  induction ms with
  | nil => intro fs out F _ _; simp [quitLoop, rep, lostCount]
  | cons m ms ih =>
    intro fs out F hF hn
    have hn' : NamesOk (ms.map (·.fn)) := by
      have := hn; simp only [List.map_cons] at this; exact this.tail
    have hnd : ∀ x ∈ ms, x.fn ≠ m.fn := by
      intro x hx e
      have := hn.1; simp only [List.map_cons, List.nodup_cons] at this
      exact this.1 (e ▸ List.mem_map_of_mem hx)
    have hns : ∀ x ∈ ms, x.fn ≠ seenName m.fn := by
      intro x hx e
      exact hn.2 m.fn (by simp) x.fn (by simp [List.mem_map_of_mem hx]) e.symm
    have hm := hF m (by simp)
    unfold quitLoop
    by_cases hd : m.del = true
    · simp only [hd, if_true]
      cases hfm : fsFind fs m.fn with
      | some g =>
        have hc : lostCount F (m :: ms) = lostCount F ms := by
          rw [hfm] at hm
          simp [lostCount, List.filter_cons, hd, ← hm]
        rw [hc]
        apply ih _ _ F _ hn'
        intro x hx
        rw [find_unlink_other fs x.fn m.fn (hnd x hx)]
        exact hF x (by simp [hx])
      | none =>
        have hc : lostCount F (m :: ms) = lostCount F ms + 1 := by
          rw [hfm] at hm
          simp [lostCount, List.filter_cons, hd, ← hm]
        rw [hc, ih fs _ F (fun x hx => hF x (by simp [hx])) hn']
        exact rep_add_one _ _
    · have hc : lostCount F (m :: ms) = lostCount F ms := by
        simp [lostCount, List.filter_cons, hd]
      rw [hc]
      have hd' : m.del = false := by simpa using hd
      simp only [hd', Bool.false_eq_true, if_false]
      split
      · apply ih _ _ F _ hn'
        intro x hx
        rw [show curSl ++ m.fn.drop 4 ++ seenSuffix = seenName m.fn from rfl,
          find_rename_other fs m.fn _ x.fn (hnd x hx) (hns x hx)]
        exact hF x (by simp [hx])
      · exact ih fs out F (fun x hx => hF x (by simp [hx])) hn'

theorem lost_iff (marked : List Nat) (gone : List Bytes) (F : Bytes → Option File) :
    ∀ (ms : List Msg) (k : Nat) (rms : List RMsg), Rel marked k ms rms →
    (∀ r ∈ rms, (F r.path = none ↔ r.path ∈ gone)) →
    (rms.zipIdx k).any (fun (x : RMsg × Nat) => marked.contains x.2 && gone.contains x.1.path) = decide (lostCount F ms ≠ 0) := by
  intro ms
  induction ms with
  | nil => intro k rms h _; cases rms with
    | nil => simp [lostCount]
    | cons _ _ => exact absurd h (by simp [Rel])
  | cons m ms ih =>
    intro k rms h hg
    cases rms with
    | nil => exact absurd h (by simp [Rel])
    | cons r rms =>
      simp only [Rel] at h
      obtain ⟨hp, hs, hd, hrest⟩ := h
      have ih' := ih (k + 1) rms hrest (fun x hx => hg x (by simp [hx]))
      have hgr := hg r (by simp)
      rw [List.zipIdx_cons, List.any_cons, ih']
      by_cases hdel : m.del = true
      · have hmk : k ∈ marked := hd.mp hdel
        by_cases hin : r.path ∈ gone
        · have hF : F m.fn = none := by rw [← hp]; exact hgr.mpr hin
          have : lostCount F (m :: ms) = lostCount F ms + 1 := by simp [lostCount, List.filter_cons, hdel, hF]
          simp [hmk, hin, this]
        · have hF : F m.fn ≠ none := by rw [← hp]; exact fun e => hin (hgr.mp e)
          have : lostCount F (m :: ms) = lostCount F ms := by
            cases hh : F m.fn with
            | none => exact absurd hh hF
            | some _ => simp [lostCount, List.filter_cons, hdel, hh]
          simp [hmk, hin, this]
      · have hk : k ∉ marked := fun hh => hdel (hd.mpr hh)
        have : lostCount F (m :: ms) = lostCount F ms := by simp [lostCount, List.filter_cons, hdel]
        simp [hk, this]

theorem errU_eq : errU = (errSp ++ str "unable to unlink all deleted messages") ++ CR :: LF :: [] := by
  simp [errU, errLine]

theorem readLine_errU (w : Bytes) : readLine (errU ++ w) = some (errSp ++ str "unable to unlink all deleted messages", w) := by
  have : errU ++ w = (errSp ++ str "unable to unlink all deleted messages") ++ CR :: LF :: w := by
    rw [errU_eq]; simp
  rw [this]
  exact readLine_line _ w (mem_app_noLF _ _ (by decide) noLF_unlink)

theorem readLine_okLine (w : Bytes) : readLine (okLine ++ w) = some (okSp, w) := by
  have : okLine ++ w = okSp ++ CR :: LF :: w := by simp [okLine, okSp]
  rw [this]; exact readLine_line okSp w (by decide)

theorem go_rep : ∀ (j f : Nat), j + 2 ≤ f → matchQuit.go f (rep j ++ okLine) = true := by
  intro j
  induction j with
  | zero =>
    intro f hf
    obtain ⟨f', rfl⟩ : ∃ f', f = f' + 2 := ⟨f - 2, by omega⟩
    have : rep 0 ++ okLine = okLine ++ [] := by simp [rep]
    rw [this]
    simp only [matchQuit.go]
    rw [readLine_okLine]
    simp [okLine, isOk, okSp, matchQuit.go]
  | succ j ih =>
    intro f hf
    obtain ⟨f', rfl⟩ : ∃ f', f = f' + 1 := ⟨f - 1, by omega⟩
    have e : rep (j + 1) ++ okLine = errU ++ (rep j ++ okLine) := by rw [rep_succ]; simp
    have hne : (errU ++ (rep j ++ okLine)).isEmpty = false := by simp [errU, errLine, errSp]
    rw [e]
    simp only [matchQuit.go, hne]
    rw [readLine_errU]
    simp [isErr_errSp, ih f' (by omega)]

theorem rep_len (j : Nat) : j ≤ (rep j).length := by
  induction j with
  | zero => simp
  | succ j ih =>
    rw [rep_succ, List.length_append]
    have : 1 ≤ errU.length := by simp [errU, errLine, errSp]
    omega

/-- what pop3_quit writes is accepted by the reference's `matchQuit`: exactly "+OK" when no marked
message has lost its file, otherwise one "-ERR" line per such message and then "+OK" -/
theorem matchQuit_rep (j : Nat) : matchQuit (decide (j = 0)) (rep j ++ okLine) = true := by
  cases j with
  | zero =>
    have : rep 0 ++ okLine = okLine ++ [] := by simp [rep]
    unfold matchQuit
    rw [this, readLine_okLine]
    simp [isOk, okSp]
  | succ j =>
    have e : rep (j + 1) ++ okLine = errU ++ (rep j ++ okLine) := by rw [rep_succ]; simp
    unfold matchQuit
    rw [e, readLine_errU]
    have hl : j + 2 ≤ (rep j ++ okLine).length := by
      have := rep_len j
      simp [okLine]; omega
    have hg := go_rep j _ hl
    simp only [isErr_errSp, Bool.false_eq_true, if_false, Bool.or_true, Bool.true_and, decide_eq_true_eq, Nat.add_eq_zero_iff, Nat.succ_ne_zero, and_false, decide_false]
    exact hg

end Nq.Lemmas.Pop3
