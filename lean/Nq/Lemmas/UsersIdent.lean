/- The composed identity (audit round): the model's record parser against the declarative reading of a nughde record
   (`parseNughde = specRecord`), records built from table fields, and nughde_get / spawn() as a whole against
   "the assignment table, or else the password-file rules" (`specIdentity`, `specChild`), under every fault. -/
import Nq.Users
import Nq.Spec.Users
import Nq.Lemmas.UsersSpawn
import Nq.Lemmas.UsersLookup
import Nq.Lemmas.UsersGetpw
import Nq.Lemmas.UsersNewu

namespace Nq.Lemmas.Users
open Nq Nq.Users Nq.Spec.Users Nq.Gen.Lspawn

/-! ## the record parser: `splitNul` six times = split at every NUL -/

theorem splitNul_none : ∀ x : Bytes, splitNul x = none → splitOn NUL x = [x]
  | [], _ => by simp [splitOn]
  | c :: r, h => by
    by_cases hc : c = NUL
    · simp [splitNul, hc] at h
    · simp only [splitNul, hc, if_false, Option.map_eq_none_iff] at h
      have ih := splitNul_none r h
      obtain ⟨f, fs, h1, h2⟩ := splitOn_cons_ne NUL c r hc
      rw [h2]; rw [ih] at h1
      injection h1 with ha hb
      rw [← ha, ← hb]

theorem splitNul_some : ∀ (x a y : Bytes), splitNul x = some (a, y) → splitOn NUL x = a :: splitOn NUL y
  | [], a, y, h => by simp [splitNul] at h
  | c :: r, a, y, h => by
    by_cases hc : c = NUL
    · subst hc
      simp only [splitNul, if_true, Option.some.injEq, Prod.mk.injEq] at h
      obtain ⟨rfl, rfl⟩ := h
      exact splitOn_cons_eq NUL r
    · simp only [splitNul, hc, if_false] at h
      cases hs : splitNul r with
      | none => rw [hs] at h; simp at h
      | some p =>
        obtain ⟨a', y'⟩ := p
        rw [hs] at h
        simp only [Option.map_some, Option.some.injEq, Prod.mk.injEq] at h
        obtain ⟨rfl, rfl⟩ := h
        have ih := splitNul_some r a' y' hs
        obtain ⟨f, fs, h1, h2⟩ := splitOn_cons_ne NUL c r hc
        rw [h2]; rw [ih] at h1
        injection h1 with ha hb
        rw [← ha, ← hb]

/-! ## scan_ulong (arithmetic modulo 2^64, then the conversion to a 32-bit id) = value of the leading digits mod 2^32 -/

theorem foldl_dec_congr : ∀ (l : Bytes) (x y : Nat), x % 18446744073709551616 = y % 18446744073709551616 →
    l.foldl (fun acc d => acc * 10 + (d.toNat - 48)) x % 18446744073709551616 =
    l.foldl (fun acc d => acc * 10 + (d.toNat - 48)) y % 18446744073709551616
  | [], x, y, h => by simpa using h
  | d :: r, x, y, h => by
    simp only [List.foldl_cons]
    apply foldl_dec_congr r
    omega

theorem scanUlong_spec : ∀ (l : Bytes) (a : Nat),
    scanUlong l a % 18446744073709551616 =
      (l.takeWhile isDigit).foldl (fun acc d => acc * 10 + (d.toNat - 48)) a % 18446744073709551616
  | [], a => by simp [scanUlong]
  | c :: r, a => by
    by_cases hd : isDigit c = true
    · simp only [scanUlong, hd, if_true, List.takeWhile_cons, List.foldl_cons]
      rw [scanUlong_spec r]
      apply foldl_dec_congr
      omega
    · simp [scanUlong, hd]

theorem scanUlong_specNum (b : Bytes) : scanUlong b 0 % 4294967296 = specNum b := by
  have h := scanUlong_spec b 0
  have hd : decVal (b.takeWhile isDigit) =
      (b.takeWhile isDigit).foldl (fun acc d => acc * 10 + (d.toNat - 48)) 0 := rfl
  unfold specNum
  rw [hd]
  generalize List.foldl _ 0 (List.takeWhile isDigit b) = v at h ⊢
  omega

/-- the model's record parser = the declarative reading, for EVERY byte string -/
theorem parseNughde_eq_specRecord (x : Bytes) : parseNughde x = specRecord x := by
  unfold parseNughde specRecord
  cases h1 : splitNul x with
  | none => rw [splitNul_none x h1]
  | some p1 =>
    obtain ⟨u, x1⟩ := p1
    rw [splitNul_some x u x1 h1]
    simp only []
    cases h2 : splitNul x1 with
    | none => rw [splitNul_none x1 h2]
    | some p2 =>
      obtain ⟨ui, x2⟩ := p2
      rw [splitNul_some x1 ui x2 h2]
      simp only []
      cases h3 : splitNul x2 with
      | none => rw [splitNul_none x2 h3]
      | some p3 =>
        obtain ⟨gi, x3⟩ := p3
        rw [splitNul_some x2 gi x3 h3]
        simp only []
        cases h4 : splitNul x3 with
        | none => rw [splitNul_none x3 h4]
        | some p4 =>
          obtain ⟨ho, x4⟩ := p4
          rw [splitNul_some x3 ho x4 h4]
          simp only []
          cases h5 : splitNul x4 with
          | none => rw [splitNul_none x4 h5]
          | some p5 =>
            obtain ⟨da, x5⟩ := p5
            rw [splitNul_some x4 da x5 h5]
            simp only []
            cases h6 : splitNul x5 with
            | none => rw [splitNul_none x5 h6]
            | some p6 =>
              obtain ⟨ex, x6⟩ := p6
              rw [splitNul_some x5 ex x6 h6]
              simp only []
              cases hs : splitOn NUL x6 with
              | nil => exact absurd hs (splitOn_ne_nil NUL x6)
              | cons f fs => simp only [scanUlong_specNum]

/-! ## a record built from fields -/

theorem splitOn_nul_free : ∀ f : Bytes, NUL ∉ f → splitOn NUL f = [f]
  | [], _ => by simp [splitOn]
  | c :: r, h => by
    have hc : c ≠ NUL := fun e => h (by simp [e])
    have ih := splitOn_nul_free r (fun e => h (by simp [e]))
    obtain ⟨f, fs, h1, h2⟩ := splitOn_cons_ne NUL c r hc
    rw [h2]; rw [ih] at h1
    injection h1 with ha hb
    rw [← ha, ← hb]

theorem splitOn_append_nul : ∀ (f y : Bytes), NUL ∉ f → splitOn NUL (f ++ NUL :: y) = f :: splitOn NUL y
  | [], y, _ => by simp [splitOn_cons_eq]
  | c :: r, y, h => by
    have hc : c ≠ NUL := fun e => h (by simp [e])
    have ih := splitOn_append_nul r y (fun e => h (by simp [e]))
    obtain ⟨f, fs, h1, h2⟩ := splitOn_cons_ne NUL c (r ++ NUL :: y) hc
    rw [List.cons_append, h2]; rw [ih] at h1
    injection h1 with ha hb
    rw [← ha, ← hb]

/-- the record `user NUL uid NUL gid NUL home NUL dash NUL ext rest NUL` reads as exactly those fields -/
theorem specRecord_fields (u ui gi ho da ex rest : Bytes)
    (hu : NUL ∉ u) (hui : NUL ∉ ui) (hgi : NUL ∉ gi) (hho : NUL ∉ ho) (hda : NUL ∉ da) (hex : NUL ∉ ex) (hr : NUL ∉ rest) :
    specRecord (joinNul [u, ui, gi, ho, da, ex] ++ rest ++ [NUL]) =
      some ⟨u, specNum ui, specNum gi, ho, da, ex ++ rest⟩ := by
  have hshape : joinNul [u, ui, gi, ho, da, ex] ++ rest ++ [NUL] =
      u ++ NUL :: (ui ++ NUL :: (gi ++ NUL :: (ho ++ NUL :: (da ++ NUL :: ((ex ++ rest) ++ NUL :: []))))) := by
    simp [joinNul, List.append_assoc]
  have hexr : NUL ∉ ex ++ rest := by
    intro h; rcases List.mem_append.mp h with h | h
    · exact hex h
    · exact hr h
  unfold specRecord
  rw [hshape, splitOn_append_nul u _ hu, splitOn_append_nul ui _ hui, splitOn_append_nul gi _ hgi,
    splitOn_append_nul ho _ hho, splitOn_append_nul da _ hda, splitOn_append_nul (ex ++ rest) _ hexr]
  simp [splitOn]

/-- the pieces of a split contain only bytes of the string -/
theorem splitOn_mem (sep : Byte) : ∀ (l : Bytes) (f : Bytes), f ∈ splitOn sep l → ∀ c ∈ f, c ∈ l
  | [], f, hf, c, hc => by
    simp [splitOn] at hf; subst hf; simp at hc
  | x :: r, f, hf, c, hc => by
    by_cases hx : x = sep
    · rw [hx, splitOn_cons_eq] at hf
      rcases List.mem_cons.mp hf with rfl | hf
      · simp at hc
      · exact List.mem_cons_of_mem _ (splitOn_mem sep r f hf c hc)
    · obtain ⟨g, gs, h1, h2⟩ := splitOn_cons_ne sep x r hx
      rw [h2] at hf
      rcases List.mem_cons.mp hf with rfl | hf
      · rcases List.mem_cons.mp hc with rfl | hc
        · simp
        · exact List.mem_cons_of_mem _ (splitOn_mem sep r g (by rw [h1]; simp) c hc)
      · exact List.mem_cons_of_mem _ (splitOn_mem sep r f (by rw [h1]; simp [hf]) c hc)

/-! ## fmt_ulong then scan_ulong: the number qmail-getpw prints is the number qmail-lspawn reads -/

theorem digit_toNat (n : Nat) (h : n < 10) : ((48 + n).toUInt8).toNat - 48 = n := by
  have : (48 + n).toUInt8.toNat = (48 + n) % 256 := by simp [Nat.toUInt8]
  rw [this]; omega

theorem digit_isDigit (n : Nat) (h : n < 10) : isDigit ((48 + n).toUInt8) = true := by
  have h1 : (48 + n).toUInt8.toNat = (48 + n) % 256 := by simp [Nat.toUInt8]
  simp only [isDigit, Bool.and_eq_true, decide_eq_true_eq]
  constructor
  · apply UInt8.le_iff_toNat_le.mpr; rw [h1]; simp; omega
  · apply UInt8.le_iff_toNat_le.mpr; rw [h1]; simp; omega

theorem fmtDecAux_spec : ∀ (fuel n : Nat) (acc : Bytes), n < fuel →
    ∃ ds : Bytes, fmtDecAux fuel n acc = ds ++ acc ∧ (∀ d ∈ ds, isDigit d = true) ∧
      ∀ a, ds.foldl (fun acc d => acc * 10 + (d.toNat - 48)) a = a * 10 ^ ds.length + n
  | 0, n, acc, h => by omega
  | fuel + 1, n, acc, h => by
    by_cases hn : n < 10
    · refine ⟨[(48 + n).toUInt8], by rw [fmtDecAux, if_pos hn]; rfl, ?_, ?_⟩
      · intro d hd; rw [List.mem_singleton] at hd; subst hd; exact digit_isDigit n hn
      · intro a
        simp only [List.foldl_cons, List.foldl_nil, List.length_singleton, Nat.pow_one]
        rw [digit_toNat n hn]
    · obtain ⟨ds, h1, h2, h3⟩ := fmtDecAux_spec fuel (n / 10) ((48 + n % 10).toUInt8 :: acc) (by omega)
      refine ⟨ds ++ [(48 + n % 10).toUInt8], ?_, ?_, ?_⟩
      · rw [fmtDecAux, if_neg hn, h1]
        simp only [List.append_assoc, List.cons_append, List.nil_append]
      · intro d hd
        rcases List.mem_append.mp hd with hd | hd
        · exact h2 d hd
        · rw [List.mem_singleton] at hd; subst hd; exact digit_isDigit _ (by omega)
      · intro a
        rw [List.foldl_append, h3 a]
        simp only [List.foldl_cons, List.foldl_nil, List.length_append, List.length_cons, List.length_nil]
        rw [digit_toNat _ (by omega), Nat.pow_succ, ← Nat.mul_assoc]
        generalize a * 10 ^ ds.length = X
        omega

theorem takeWhile_all (p : Byte → Bool) : ∀ l : Bytes, (∀ d ∈ l, p d = true) → l.takeWhile p = l
  | [], _ => rfl
  | c :: r, h => by
    rw [List.takeWhile_cons, if_pos (h c (by simp)), takeWhile_all p r (fun d hd => h d (by simp [hd]))]

theorem fmtDec_spec (n : Nat) : (∀ d ∈ fmtDec n, isDigit d = true) ∧ decVal ((fmtDec n).takeWhile isDigit) = n := by
  obtain ⟨ds, h1, h2, h3⟩ := fmtDecAux_spec (n + 1) n [] (by omega)
  have he : fmtDec n = ds := by unfold fmtDec; rw [h1]; simp
  rw [he]
  refine ⟨h2, ?_⟩
  rw [takeWhile_all isDigit ds h2]
  have := h3 0
  simpa [decVal] using this

theorem fmtDec_nul (n : Nat) : NUL ∉ fmtDec n := by
  intro h
  have := (fmtDec_spec n).1 NUL h
  simp [isDigit] at this

/-! ## nughde_get as a whole: the table's answer, or else qmail-getpw's -/

theorem specGetpw_exit (db : PwDb) (loc : Bytes) (c : Nat) (h : specGetpw db loc = .exit c) :
    c = QLX_SYS ∨ c = QLX_NFS ∨ c = QLX_NOALIAS := by
  unfold specGetpw at h
  split at h
  · simp at h
  · simp at h; simp [← h]
  · simp at h; simp [← h]
  · split at h
    · split at h
      · simp at h; simp [← h]
      · simp at h
    · simp at h; simp [← h]

theorem getpwChild_none (env : Env) (loc : Bytes) :
    getpwChild env .none loc = (gpwEvents env loc, getpwMain env.pw loc) := by
  simp [getpwChild, gpwEvents, getpwPath]

/-- nughde_get when no call fails -/
theorem nughdeGet_none (env : Env) (loc : Bytes) :
    nughdeGet env .none loc =
      match nughdeCdb env.cdb loc with
      | .hit x => ([], .hit x)
      | .exit c => ([], .exit c)
      | .miss =>
        match specGetpw env.pw loc with
        | .out b => (gpwEvents env loc, .hit b)
        | .exit c => (gpwEvents env loc, .exit c) := by
  unfold nughdeGet
  simp only [reduceCtorEq, if_false]
  cases nughdeCdb env.cdb loc with
  | hit x => rfl
  | exit c => rfl
  | miss =>
    simp only [getpwChild_none, getpwMain_eq_spec]
    cases hs : specGetpw env.pw loc with
    | out b => rfl
    | exit c =>
      have hc : c ≠ 0 := by
        rcases specGetpw_exit _ _ _ hs with rfl | rfl | rfl <;> decide
      simp [hc]

/-- the record / the failure the tables dictate, as nughde_get's result -/
def wantRes (env : Env) (loc : Bytes) : Want → List Ev × NgRes
  | .table r => ([], .hit r)
  | .passwd r => (gpwEvents env loc, .hit r)
  | .fail c => (gpwEvents env loc, .exit c)

theorem wantRes_fst (env : Env) (loc : Bytes) (w : Want) : (wantRes env loc w).1 = w.events env loc := by
  cases w <;> rfl

theorem nughdeGet_identity (env : Env) (tbl : Option (List Asg)) (loc : Bytes)
    (hcdb : nughdeCdb env.cdb loc = match tbl.bind (fun t => specLookup t loc) with
      | some r => .hit r
      | none => .miss) :
    nughdeGet env .none loc = wantRes env loc (specIdentity tbl env.pw loc) := by
  rw [nughdeGet_none, hcdb]
  unfold specIdentity
  cases tbl.bind (fun t => specLookup t loc) with
  | some r => rfl
  | none =>
    simp only []
    cases specGetpw env.pw loc <;> rfl

/-- a single failing call either leaves nughde_get's result as it is or turns it into one of four exits -/
theorem nughdeGet_fault (env : Env) (flt : Fault) (loc : Bytes) :
    nughdeGet env flt loc = nughdeGet env .none loc ∨
    ∃ evs c, nughdeGet env flt loc = (evs, .exit c) ∧
      (c = QLX_CDB ∨ c = QLX_SYS ∨ c = QLX_USAGE ∨ c = QLX_EXECPW) := by
  unfold nughdeGet
  cases nughdeCdb env.cdb loc <;> cases flt <;>
    simp [getpwChild, QLX_USAGE, QLX_EXECPW, QLX_CDB, QLX_SYS] <;>
    first
      | exact ⟨_, _, ⟨rfl, rfl⟩, by simp⟩
      | exact Or.inr ⟨_, _, ⟨rfl, rfl⟩, by simp⟩

/-- every exit code nughde_get can produce -/
theorem nughdeGet_exit_codes (env : Env) (flt : Fault) (loc : Bytes) (evs : List Ev) (c : Nat)
    (h : nughdeGet env flt loc = (evs, .exit c)) :
    c ∈ [QLX_CDB, QLX_SYS, QLX_USAGE, QLX_EXECPW, QLX_NFS, QLX_NOALIAS] := by
  rcases nughdeGet_fault env flt loc with he | ⟨evs', c', he, hc⟩
  · rw [he, nughdeGet_none] at h
    split at h
    · simp at h
    · rename_i c' hx
      simp only [Prod.mk.injEq, NgRes.exit.injEq] at h
      have := nughdeCdb_exit _ _ _ hx
      simp [← h.2, this]
    · split at h
      · simp at h
      · rename_i c' hs
        simp only [Prod.mk.injEq, NgRes.exit.injEq] at h
        rcases specGetpw_exit _ _ _ hs with h' | h' | h' <;> simp [← h.2, h']
  · rw [he] at h
    simp only [Prod.mk.injEq, NgRes.exit.injEq] at h
    rcases hc with h' | h' | h' | h' <;> simp [← h.2, h']

/-! ## spawn() as a whole -/

/-- the exits of the tail of spawn() -/
theorem dropAndExec_exit (env : Env) (flt : Fault) (id : Ident) (loc dom sender : Bytes) (c : Nat)
    (h : (dropAndExec env flt id loc dom sender).2 = .exit c) :
    c = QLX_USAGE ∨ c = QLX_ROOT ∨ (c = QLX_EXECHARD ∧ flt = .execHard) ∨ c = QLX_EXECSOFT := by
  unfold dropAndExec at h
  split at h
  · simp at h; simp [← h]
  · split at h
    · simp at h; simp [← h]
    · split at h
      · simp at h; simp [← h]
      · simp only at h
        split at h
        · simp at h; simp [← h]
        · split at h
          · rename_i hf; simp at h; simp [← h, hf]
          · split at h
            · simp at h; simp [← h]
            · simp at h

/-- **every** way the delivery child can end without running qmail-local: exit 0 for the null recipient only,
    QLX_EXECHARD only when execv itself failed permanently, otherwise one of eight deferral codes -/
theorem spawnChild_exit (env : Env) (flt : Fault) (sender loc dom : Bytes) (c : Nat)
    (h : (spawnChild env flt sender loc dom).2 = .exit c) :
    (c = 0 ∧ loc = []) ∨ (c = QLX_EXECHARD ∧ flt = .execHard) ∨
    c ∈ [QLX_CDB, QLX_SYS, QLX_USAGE, QLX_EXECPW, QLX_NFS, QLX_NOALIAS, QLX_ROOT, QLX_EXECSOFT] := by
  unfold spawnChild at h
  split at h
  · rename_i he
    simp at h
    left; exact ⟨h.symm, by cases loc <;> simp_all⟩
  · split at h
    · simp at h; simp [← h]
    · split at h
      · rename_i evs c' hg
        simp only [Outcome.exit.injEq] at h
        have := nughdeGet_exit_codes env flt loc evs c' hg
        subst h
        right; right
        simp only [List.mem_cons, List.not_mem_nil, or_false] at this ⊢
        rcases this with h' | h' | h' | h' | h' | h' <;> simp [h']
      · simp at h; simp [← h]
      · split at h
        · simp at h; simp [← h]
        · rename_i id _
          rcases dropAndExec_exit env flt id loc dom sender c h with h' | h' | h' | h'
          · simp [h']
          · simp [h']
          · exact Or.inr (Or.inl h')
          · simp [h']

/-- if the lookup ends in an exit, so does the child, without any exec -/
theorem spawnChild_of_lookup_exit (env : Env) (flt : Fault) (sender loc dom : Bytes) (evs : List Ev) (c : Nat)
    (h : nughdeGet env flt loc = (evs, .exit c)) :
    Quiet (spawnChild env flt sender loc dom).1 ∧
    ∃ c', (spawnChild env flt sender loc dom).2 = .exit c' ∧
      ((c' = 0 ∧ loc = []) ∨ (loc ≠ [] ∧ (c' = c ∨ (c' = QLX_USAGE ∧ flt = .chdir)))) := by
  have hq := nughdeGet_quiet env flt loc
  rw [h] at hq
  have hc : isExecLocal (Ev.chdir env.autoQmail) = false := rfl
  unfold spawnChild
  split
  · rename_i he
    refine ⟨by intro e he'; simp at he', 0, rfl, Or.inl ⟨rfl, by cases loc <;> simp_all⟩⟩
  · rename_i he
    have hne : loc ≠ [] := by intro h0; simp [h0] at he
    split
    · rename_i hf
      exact ⟨quiet_cons hc (by intro e he'; simp at he'), _, rfl, Or.inr ⟨hne, Or.inr ⟨rfl, hf⟩⟩⟩
    · simp only [h]
      exact ⟨quiet_cons hc hq, c, rfl, Or.inr ⟨hne, Or.inl rfl⟩⟩

/-- lookup yields a well-formed record: every exec is guarded to exactly its ids and carries exactly its argv -/
theorem spawnChild_traceOk_hit (env : Env) (flt : Fault) (sender loc dom : Bytes) (evs : List Ev) (x : Bytes) (id : Ident)
    (h : nughdeGet env flt loc = (evs, .hit x)) (hp : parseNughde x = some id) :
    traceOk env id loc dom sender [] (spawnChild env flt sender loc dom).1 = true := by
  have hq := nughdeGet_quiet env flt loc
  rw [h] at hq
  have hc : isExecLocal (Ev.chdir env.autoQmail) = false := rfl
  unfold spawnChild
  split
  · simp [traceOk]
  · split
    · simp [traceOk, execOk]
    · simp only [h, hp]
      have hq2 : Quiet (Ev.chdir env.autoQmail :: (evs ++ [Ev.fdmove 0, Ev.fdmove 1, Ev.fdcopy 2])) :=
        quiet_cons hc (quiet_append hq quiet_fds)
      have := traceOk_quiet env id loc dom sender _ [] (dropAndExec env flt id loc dom sender).1 hq2
      rw [List.cons_append] at this
      rw [this]; exact dropAndExec_traceOk ..

/-- lookup yields a record that is malformed or names uid 0: no exec under any fault -/
theorem spawnChild_noExec_hit (env : Env) (flt : Fault) (sender loc dom : Bytes) (evs : List Ev) (x : Bytes)
    (h : nughdeGet env flt loc = (evs, .hit x))
    (hbad : ∀ id, parseNughde x = some id → id.uid = 0) :
    Quiet (spawnChild env flt sender loc dom).1 ∧ (spawnChild env flt sender loc dom).2 ≠ .exec := by
  have hq := nughdeGet_quiet env flt loc
  rw [h] at hq
  have hc : isExecLocal (Ev.chdir env.autoQmail) = false := rfl
  unfold spawnChild
  split
  · exact ⟨by intro e he'; simp at he', by simp⟩
  · split
    · exact ⟨quiet_cons hc (by intro e he'; simp at he'), by simp⟩
    · simp only [h]
      cases hp : parseNughde x with
      | none => exact ⟨quiet_cons hc hq, by simp⟩
      | some id =>
        obtain ⟨hr1, hr2, _⟩ := dropAndExec_root env flt id loc dom sender (hbad id hp)
        exact ⟨quiet_cons hc (quiet_append (quiet_append hq quiet_fds) hr1), hr2⟩

/-- the complete behaviour without a fault is what the tables dictate -/
theorem spawnChild_none (env : Env) (sender loc dom : Bytes) (hl : loc ≠ []) (w : Want)
    (h : nughdeGet env .none loc = wantRes env loc w) :
    spawnChild env .none sender loc dom = specChild env w sender loc dom := by
  have he : loc.isEmpty = false := by cases loc <;> simp_all
  unfold spawnChild specChild
  simp only [he, Bool.false_eq_true, if_false, reduceCtorEq, h]
  cases w with
  | fail c => rfl
  | table r =>
    simp only [wantRes, Want.events, parseNughde_eq_specRecord]
    cases specRecord r with
    | none => rfl
    | some id =>
      by_cases hu : id.uid = 0
      · simp [dropAndExec, hu]
      · simp [dropAndExec, hu, specArgv_eq]
  | passwd r =>
    simp only [wantRes, Want.events, parseNughde_eq_specRecord]
    cases specRecord r with
    | none => rfl
    | some id =>
      by_cases hu : id.uid = 0
      · simp [dropAndExec, hu]
      · simp [dropAndExec, hu, specArgv_eq]

end Nq.Lemmas.Users
