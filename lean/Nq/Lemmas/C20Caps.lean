/- Lemmas for C20: the netstring length cap of getlen() (models of C07: Nq.Netstring) and the smtptext cap. Core Lean only. -/
import Nq.Netstring
import Nq.RemoteSmtp
import Nq.FixedBuf

namespace Nq.Lemmas.C20
open Nq Nq.FixedBuf

/-- one digit step keeps the accumulator below `10·max + 9` as long as the guard `acc > max` has not fired -/
theorem digit_step (max acc : Nat) (c : Byte) (h1 : ¬ acc > max) (h2 : ¬ (c < 48 ∨ c > 57)) :
    10 * acc + (c.toNat - 48) ≤ max * 10 + 9 := by
  have hc : c.toNat ≤ 57 := by
    have : ¬ c > 57 := fun h => h2 (Or.inr h)
    simpa [UInt8.lt_iff_toNat_lt] using this
  omega

/-- qmail-qmtpd getlen(): whatever the byte stream, a length it returns is at most `10·max + 9` -/
theorem qmtp_getlen_le (max : Nat) (inp : Bytes) (acc v : Nat) (rest : Bytes)
    (ha : acc ≤ max * 10 + 9) (h : Nq.Netstring.getlen max acc inp = .ok v rest) : v ≤ max * 10 + 9 := by
  induction inp generalizing acc with
  | nil => simp [Nq.Netstring.getlen] at h
  | cons c r ih =>
    unfold Nq.Netstring.getlen at h
    by_cases c1 : c = Nq.Netstring.COLON
    · rw [if_pos c1] at h; cases h; exact ha
    · rw [if_neg c1] at h
      by_cases c2 : acc > max
      · rw [if_pos c2] at h; cases h
      · rw [if_neg c2] at h
        by_cases c3 : c < 48 ∨ c > 57
        · rw [if_pos c3] at h; cases h
        · rw [if_neg c3] at h
          exact ih _ (digit_step max acc c c2 c3) h

/-- qmail-qmqpd getlen() (on top of getbyte / bytesleft) -/
theorem qmqp_getlen_le (max : Nat) (bl : Nat) (inp : Bytes) (acc v bl' : Nat) (rest : Bytes)
    (ha : acc ≤ max * 10 + 9) (h : Nq.Netstring.Qmqp.getlen max bl acc inp = .ok (v, bl') rest) : v ≤ max * 10 + 9 := by
  induction bl generalizing acc inp with
  | zero => simp [Nq.Netstring.Qmqp.getlen] at h
  | succ bl ih =>
    cases inp with
    | nil => simp [Nq.Netstring.Qmqp.getlen] at h
    | cons c r =>
      unfold Nq.Netstring.Qmqp.getlen at h
      by_cases c1 : c = Nq.Netstring.COLON
      · rw [if_pos c1] at h; cases h; exact ha
      · rw [if_neg c1] at h
        by_cases c2 : acc > max
        · rw [if_pos c2] at h; cases h
        · rw [if_neg c2] at h
          by_cases c3 : c < 48 ∨ c > 57
          · rw [if_pos c3] at h; cases h
          · rw [if_neg c3] at h
            exact ih _ _ (digit_step max acc c c2 c3) h

/-- the smtptext accumulation never exceeds the cap -/
theorem smtptext_fold_le (cap : Nat) (raw t : Bytes) (h : t.length ≤ cap) :
    (raw.foldl (smtptextStep cap) t).length ≤ cap := by
  induction raw generalizing t with
  | nil => exact h
  | cons c r ih =>
    simp only [List.foldl_cons]
    apply ih
    by_cases c1 : c ≠ CR ∧ t.length < cap
    · have hs : smtptextStep cap t c = t ++ [c] := by unfold smtptextStep; rw [if_pos c1]
      rw [hs]; simp only [List.length_append, List.length_singleton]; omega
    · have hs : smtptextStep cap t c = t := by unfold smtptextStep; rw [if_neg c1]
      rw [hs]; exact h

/-- …and it computes exactly "drop CR, keep the first `cap` bytes" -/
theorem smtptext_fold_eq (cap : Nat) (raw t : Bytes) (h : t.length ≤ cap) :
    raw.foldl (smtptextStep cap) t = (t ++ raw.filter (· ≠ CR)).take cap := by
  induction raw generalizing t with
  | nil => simp [List.take_of_length_le h]
  | cons c r ih =>
    simp only [List.foldl_cons]
    by_cases c1 : c ≠ CR ∧ t.length < cap
    · have hs : smtptextStep cap t c = t ++ [c] := by unfold smtptextStep; rw [if_pos c1]
      rw [hs, ih _ (by simp only [List.length_append, List.length_singleton]; omega)]
      have : (List.filter (fun x => decide (x ≠ CR)) (c :: r)) = c :: List.filter (fun x => decide (x ≠ CR)) r := by
        simp [List.filter_cons, c1.1]
      rw [this]; simp
    · have hs : smtptextStep cap t c = t := by unfold smtptextStep; rw [if_neg c1]
      rw [hs, ih t h]
      by_cases c2 : c = CR
      · have : (List.filter (fun x => decide (x ≠ CR)) (c :: r)) = List.filter (fun x => decide (x ≠ CR)) r := by
          simp [List.filter_cons, c2]
        rw [this]
      · have hl : t.length = cap := by
          have : ¬ t.length < cap := fun hh => c1 ⟨c2, hh⟩
          omega
        rw [List.take_append_of_le_length (by omega), List.take_append_of_le_length (by omega)]

end Nq.Lemmas.C20
