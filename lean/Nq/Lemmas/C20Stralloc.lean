/- Lemmas for C20 (a): gen_alloc / stralloc / quote length arithmetic. Core Lean only. -/
import Nq.Stralloc

namespace Nq.Lemmas.C20
open Nq Nq.Stralloc

/-- close an arithmetic side goal, looking through structure projections if needed -/
macro "bnd" : tactic => `(tactic| first | omega | (simp only []; omega) | (simp; omega) | (simp_all; omega))

/-- what a successful `readyplus_internal` guarantees -/
def RPPost (sz : Nat) (x : GA) (n pluslen : Nat) (o : Out) : Prop :=
  WF sz o.x ∧ o.x.nonnull = true ∧ o.st = [] ∧ o.ub = false ∧
  (x.nonnull = true → n + pluslen ≤ o.x.a ∧ n + pluslen < U32 ∧ o.x.len = x.len) ∧
  (x.nonnull = false → n ≤ o.x.a ∧ o.x.len = 0)

theorem rpi_ok (sz base : Nat) (grant : Nat → Bool) (x : GA) (n pluslen : Nat)
    (hx : WF sz x) (hn : n < U32)
    (h : (readyplusInternal sz base grant x n pluslen).ret = true) :
    RPPost sz x n pluslen (readyplusInternal sz base grant x n pluslen) := by
  unfold readyplusInternal at h ⊢
  unfold RPPost WF at *
  obtain ⟨h1, h2, h3⟩ := hx
  simp only [] at h ⊢
  by_cases hnn : x.nonnull = true
  · rw [if_pos hnn] at h ⊢
    by_cases c1 : n + pluslen ≥ U32
    · rw [if_pos c1] at h; simp at h
    · rw [if_neg c1] at h ⊢
      by_cases c2 : n + pluslen ≤ x.a
      · rw [if_pos c2] at h ⊢
        have := h3 hnn
        simp_all
      · rw [if_neg c2] at h ⊢
        by_cases c3 : n + pluslen + (((n + pluslen) / 8 + base) % U32) ≥ U32
        · rw [if_pos c3] at h; simp at h
        · rw [if_neg c3] at h ⊢
          by_cases c4 : (n + pluslen + (((n + pluslen) / 8 + base) % U32)) * sz ≥ U32
          · rw [if_pos c4] at h; simp at h
          · rw [if_neg c4] at h ⊢
            by_cases c5 : grant ((n + pluslen + (((n + pluslen) / 8 + base) % U32)) * sz) = true
            · rw [if_pos c5] at h ⊢
              have := h3 hnn
              simp_all; omega
            · rw [if_neg c5] at h; simp at h
  · rw [if_neg hnn] at h ⊢
    by_cases c1 : n * sz ≥ U32
    · rw [if_pos c1] at h; simp at h
    · rw [if_neg c1] at h ⊢
      by_cases c5 : grant (n * sz) = true
      · rw [if_pos c5] at h ⊢
        simp_all [U32]
      · rw [if_neg c5] at h; simp at h

/-- a failing `readyplus_internal` leaves a well-formed record, stores nothing, keeps the block -/
theorem rpi_fail (sz base : Nat) (grant : Nat → Bool) (x : GA) (n pluslen : Nat)
    (hx : WF sz x)
    (h : (readyplusInternal sz base grant x n pluslen).ret = false) :
    WF sz (readyplusInternal sz base grant x n pluslen).x ∧
    (readyplusInternal sz base grant x n pluslen).st = [] ∧
    (readyplusInternal sz base grant x n pluslen).x.nonnull = x.nonnull ∧
    (readyplusInternal sz base grant x n pluslen).x.a = x.a ∧
    (readyplusInternal sz base grant x n pluslen).x.cap = x.cap := by
  unfold readyplusInternal at h ⊢
  unfold WF at *
  obtain ⟨h1, h2, h3⟩ := hx
  simp only [] at h ⊢
  by_cases hnn : x.nonnull = true
  · rw [if_pos hnn] at h ⊢
    by_cases c1 : n + pluslen ≥ U32
    · rw [if_pos c1]; exact ⟨⟨h1, h2, h3⟩, rfl, rfl, rfl, rfl⟩
    · rw [if_neg c1] at h ⊢
      by_cases c2 : n + pluslen ≤ x.a
      · rw [if_pos c2] at h; simp at h
      · rw [if_neg c2] at h ⊢
        by_cases c3 : n + pluslen + (((n + pluslen) / 8 + base) % U32) ≥ U32
        · rw [if_pos c3]; exact ⟨⟨h1, h2, h3⟩, rfl, rfl, rfl, rfl⟩
        · rw [if_neg c3] at h ⊢
          by_cases c4 : (n + pluslen + (((n + pluslen) / 8 + base) % U32)) * sz ≥ U32
          · rw [if_pos c4]; exact ⟨⟨h1, h2, h3⟩, rfl, rfl, rfl, rfl⟩
          · rw [if_neg c4] at h ⊢
            by_cases c5 : grant ((n + pluslen + (((n + pluslen) / 8 + base) % U32)) * sz) = true
            · rw [if_pos c5] at h; simp at h
            · rw [if_neg c5]; exact ⟨⟨h1, h2, h3⟩, rfl, rfl, rfl, rfl⟩
  · rw [if_neg hnn] at h ⊢
    have hnn' : x.nonnull = false := by cases hh : x.nonnull <;> simp_all
    by_cases c1 : n * sz ≥ U32
    · rw [if_pos c1]; exact ⟨⟨by simp [U32], h2, fun hc => by simp [hnn'] at hc⟩, rfl, rfl, rfl, rfl⟩
    · rw [if_neg c1] at h ⊢
      by_cases c5 : grant (n * sz) = true
      · rw [if_pos c5] at h; simp at h
      · rw [if_neg c5]; exact ⟨⟨by simp [U32], h2, fun hc => by simp [hnn'] at hc⟩, rfl, rfl, rfl, rfl⟩

/-- the byte count handed to the allocator is the exact, unwrapped `a * sizeof(type)` -/
theorem rpi_req (sz base : Nat) (grant : Nat → Bool) (x : GA) (n pluslen r : Nat)
    (h : (readyplusInternal sz base grant x n pluslen).req = some r) :
    r < U32 ∧ ((readyplusInternal sz base grant x n pluslen).ret = true →
      r = (readyplusInternal sz base grant x n pluslen).x.a * sz ∧
      r = (readyplusInternal sz base grant x n pluslen).x.cap) := by
  unfold readyplusInternal at h ⊢
  simp only [] at h ⊢
  by_cases hnn : x.nonnull = true
  · rw [if_pos hnn] at h ⊢
    by_cases c1 : n + pluslen ≥ U32
    · rw [if_pos c1] at h; simp at h
    · rw [if_neg c1] at h ⊢
      by_cases c2 : n + pluslen ≤ x.a
      · rw [if_pos c2] at h; simp at h
      · rw [if_neg c2] at h ⊢
        by_cases c3 : n + pluslen + (((n + pluslen) / 8 + base) % U32) ≥ U32
        · rw [if_pos c3] at h; simp at h
        · rw [if_neg c3] at h ⊢
          by_cases c4 : (n + pluslen + (((n + pluslen) / 8 + base) % U32)) * sz ≥ U32
          · rw [if_pos c4] at h; simp at h
          · rw [if_neg c4] at h ⊢
            by_cases c5 : grant ((n + pluslen + (((n + pluslen) / 8 + base) % U32)) * sz) = true
            · rw [if_pos c5] at h ⊢
              simp only [Option.some.injEq] at h; subst h
              exact ⟨by omega, fun _ => ⟨rfl, rfl⟩⟩
            · rw [if_neg c5] at h ⊢
              simp only [Option.some.injEq] at h; subst h
              exact ⟨by omega, fun hc => by simp at hc⟩
  · rw [if_neg hnn] at h ⊢
    by_cases c1 : n * sz ≥ U32
    · rw [if_pos c1] at h; simp at h
    · rw [if_neg c1] at h ⊢
      by_cases c5 : grant (n * sz) = true
      · rw [if_pos c5] at h ⊢
        simp only [Option.some.injEq] at h; subst h
        exact ⟨by omega, fun _ => ⟨rfl, rfl⟩⟩
      · rw [if_neg c5] at h ⊢
        simp only [Option.some.injEq] at h; subst h
        exact ⟨by omega, fun hc => by simp at hc⟩

/-- CVE-2005-1513 regime: when `n + pluslen` does not fit 32 bits a non-null record is refused untouched -/
theorem rpi_overflow (sz base : Nat) (grant : Nat → Bool) (x : GA) (n pluslen : Nat)
    (hnn : x.nonnull = true) (h : n + pluslen ≥ U32) :
    readyplusInternal sz base grant x n pluslen = ⟨false, x, none, [], false⟩ := by
  unfold readyplusInternal
  simp [hnn, h]

theorem append_ok (sz base : Nat) (grant : Nat → Bool) (x : GA) (hx : WF sz x)
    (h : (append sz base grant x).ret = true) :
    WF sz (append sz base grant x).x ∧ storesIn (append sz base grant x) ∧
    (append sz base grant x).x.len = (if x.nonnull then x.len else 0) + 1 := by
  unfold append at h ⊢
  by_cases hr : (readyplus sz base grant x 1).ret = true
  · simp only [hr, if_true] at h ⊢
    have hp := rpi_ok sz base grant x 1 x.len hx (by simp [U32]) hr
    unfold RPPost at hp
    obtain ⟨⟨w1, w2, w3⟩, hnn, _, _, p1, p2⟩ := hp
    have w3' := w3 hnn
    unfold readyplus at *
    generalize readyplusInternal sz base grant x 1 x.len = o at *
    by_cases hxn : x.nonnull = true
    · obtain ⟨q1, q2, q3⟩ := p1 hxn
      have e : (o.x.len + 1) % U32 = o.x.len + 1 := Nat.mod_eq_of_lt (by omega)
      refine ⟨⟨by simp only [e]; omega, w2, fun _ => ⟨by simp only [e]; omega, w3'.2⟩⟩, ?_, ?_⟩
      · intro p hp; simp at hp; subst hp; simp only; omega
      · simp only [e, hxn, if_true]; omega
    · have hxn' : x.nonnull = false := by cases hh : x.nonnull <;> simp_all
      obtain ⟨q1, q2⟩ := p2 hxn'
      have e : (o.x.len + 1) % U32 = o.x.len + 1 := Nat.mod_eq_of_lt (by simp [q2, U32])
      refine ⟨⟨by simp only [e, q2]; simp [U32], w2, fun _ => ⟨by simp only [e]; omega, w3'.2⟩⟩, ?_, ?_⟩
      · intro p hp; simp at hp; subst hp; simp only; omega
      · simp only [e, hxn', Bool.false_eq_true, if_false]; omega
  · simp [hr] at h

theorem copyb_ok (grant : Nat → Bool) (x : GA) (n : Nat) (hx : WF 1 x)
    (h : (copyb grant x n).ret = true) :
    WF 1 (copyb grant x n).x ∧ storesIn (copyb grant x n) ∧ (copyb grant x n).x.len = n ∧
    n < (copyb grant x n).x.a := by
  unfold copyb at h ⊢
  by_cases c1 : n + 1 ≥ U32
  · simp [c1] at h
  · simp only [c1, if_false] at h ⊢
    by_cases hr : (ready 1 30 grant x (n + 1)).ret = true
    · simp only [hr, if_true] at h ⊢
      have hp := rpi_ok 1 30 grant x (n + 1) 0 hx (by omega) hr
      unfold RPPost at hp
      obtain ⟨⟨w1, w2, w3⟩, hnn, _, _, p1, p2⟩ := hp
      have w3' := w3 hnn
      unfold ready at *
      generalize readyplusInternal 1 30 grant x (n + 1) 0 = o at *
      have ha : n + 1 ≤ o.x.a := by
        by_cases hxn : x.nonnull = true
        · have := (p1 hxn).1; omega
        · have hxn' : x.nonnull = false := by cases hh : x.nonnull <;> simp_all
          exact (p2 hxn').1
      refine ⟨⟨by bnd, w2, fun _ => ⟨by bnd, w3'.2⟩⟩, ?_, by trivial, by bnd⟩
      intro p hp; simp at hp
      rcases hp with hp | hp <;> subst hp <;> simp only <;> omega
    · simp [hr] at h

theorem catb_ok (grant : Nat → Bool) (x : GA) (n : Nat) (hx : WF 1 x)
    (h : (catb grant x n).ret = true) :
    WF 1 (catb grant x n).x ∧ storesIn (catb grant x n) ∧
    (catb grant x n).x.len = (if x.nonnull then x.len else 0) + n ∧
    (catb grant x n).x.len < (catb grant x n).x.a := by
  unfold catb at h ⊢
  by_cases hxn : x.nonnull = true
  · simp only [hxn, Bool.not_true, Bool.false_eq_true, if_false, if_true] at h ⊢
    by_cases c1 : n + 1 ≥ U32
    · simp [c1] at h
    · simp only [c1, if_false] at h ⊢
      by_cases hr : (readyplus 1 30 grant x (n + 1)).ret = true
      · simp only [hr, if_true] at h ⊢
        have hp := rpi_ok 1 30 grant x (n + 1) x.len hx (by omega) hr
        unfold RPPost at hp
        obtain ⟨⟨w1, w2, w3⟩, hnn, _, _, p1, _⟩ := hp
        have w3' := w3 hnn
        obtain ⟨q1, q2, q3⟩ := p1 hxn
        unfold readyplus at *
        generalize readyplusInternal 1 30 grant x (n + 1) x.len = o at *
        have e : (o.x.len + n) % U32 = o.x.len + n := Nat.mod_eq_of_lt (by omega)
        refine ⟨⟨by simp only [e]; omega, w2, fun _ => ⟨by simp only [e]; omega, w3'.2⟩⟩, ?_, by simp only [e]; omega,
          by simp only [e]; omega⟩
        intro p hp; simp at hp
        rcases hp with hp | hp <;> subst hp <;> simp only [e] <;> omega
      · simp [hr] at h
  · have hxn' : x.nonnull = false := by cases hh : x.nonnull <;> simp_all
    simp only [hxn', Bool.not_false, if_true, Bool.false_eq_true, if_false] at h ⊢
    obtain ⟨a1, a2, a3, a4⟩ := copyb_ok grant x n hx h
    exact ⟨a1, a2, by omega, by omega⟩

/-- the regime of CVE-2005-1513: a length that would wrap is refused and nothing is written -/
theorem catb_overflow (grant : Nat → Bool) (x : GA) (n : Nat) (hnn : x.nonnull = true)
    (h : x.len + n + 1 ≥ U32) : catb grant x n = ⟨false, x, none, [], false⟩ := by
  unfold catb
  simp only [hnn, Bool.not_true, Bool.false_eq_true, if_false]
  by_cases c1 : n + 1 ≥ U32
  · simp [c1]
  · simp only [c1, if_false]
    unfold readyplus
    rw [rpi_overflow 1 30 grant x (n + 1) x.len hnn (by omega)]
    simp

theorem quoteDoit_ok (sc : Bool) (grant : Nat → Bool) (out : GA) (inLen esc : Nat) (hx : WF 1 out) (he : esc ≤ inLen)
    (h : (quoteDoit sc grant out inLen esc).ret = true) :
    WF 1 (quoteDoit sc grant out inLen esc).x ∧ storesIn (quoteDoit sc grant out inLen esc) ∧
    (quoteDoit sc grant out inLen esc).x.len = inLen + esc + 2 ∧
    ((quoteDoit sc grant out inLen esc).ub = true ↔ (sc = true ∧ inLen + esc + 2 > INT_MAX)) := by
  unfold quoteDoit at h ⊢
  by_cases c1 : inLen * 2 ≥ U32
  · simp [c1] at h
  · simp only [c1, if_false] at h ⊢
    by_cases c2 : inLen * 2 + 2 ≥ U32
    · simp [c2] at h
    · simp only [c2, if_false] at h ⊢
      by_cases hr : (ready 1 30 grant out (inLen * 2 + 2)).ret = true
      · simp only [hr, if_true] at h ⊢
        have hp := rpi_ok 1 30 grant out (inLen * 2 + 2) 0 hx (by omega) hr
        unfold RPPost at hp
        obtain ⟨⟨w1, w2, w3⟩, hnn, _, _, p1, p2⟩ := hp
        have w3' := w3 hnn
        unfold ready at *
        generalize readyplusInternal 1 30 grant out (inLen * 2 + 2) 0 = o at *
        have ha : inLen * 2 + 2 ≤ o.x.a := by
          by_cases hxn : out.nonnull = true
          · have := (p1 hxn).1; omega
          · have hxn' : out.nonnull = false := by cases hh : out.nonnull <;> simp_all
            exact (p2 hxn').1
        have e : (inLen + esc + 2) % U32 = inLen + esc + 2 := Nat.mod_eq_of_lt (by omega)
        refine ⟨⟨by simp only [e]; omega, w2, fun _ => ⟨by simp only [e]; omega, w3'.2⟩⟩, ?_, by simp only [e], by simp⟩
        intro p hp; simp at hp; subst hp; simp only; omega
      · simp [hr] at h

/-- a length whose doubled size does not fit 32 bits is refused before anything is touched -/
theorem quoteDoit_refused (sc : Bool) (grant : Nat → Bool) (out : GA) (inLen esc : Nat) (h : inLen * 2 + 2 ≥ U32) :
    quoteDoit sc grant out inLen esc = ⟨false, out, none, [], false⟩ := by
  unfold quoteDoit
  by_cases c1 : inLen * 2 ≥ U32
  · rw [if_pos c1]
  · rw [if_neg c1, if_pos h]

theorem quoteNeedReads_in (n : Nat) : ∀ i ∈ quoteNeedReads n, i < n := by
  intro i hi
  unfold quoteNeedReads at hi
  by_cases c : n = 0
  · rw [if_pos c] at hi; cases hi
  · rw [if_neg c] at hi
    simp only [List.mem_append, List.mem_range, List.mem_cons, List.mem_flatMap, List.not_mem_nil, or_false] at hi
    rcases hi with (hi | hi | hi) | ⟨a, ha, hi | hi⟩ <;> omega

theorem copyb_fail (grant : Nat → Bool) (x : GA) (n : Nat) (hx : WF 1 x)
    (h : (copyb grant x n).ret = false) :
    WF 1 (copyb grant x n).x ∧ storesIn (copyb grant x n) := by
  unfold copyb at h ⊢
  by_cases c1 : n + 1 ≥ U32
  · rw [if_pos c1]; exact ⟨hx, by unfold storesIn; simp⟩
  · rw [if_neg c1] at h ⊢
    by_cases hr : (ready 1 30 grant x (n + 1)).ret = true
    · simp [hr] at h
    · have hr' : (ready 1 30 grant x (n + 1)).ret = false := by simpa using hr
      simp only [hr', Bool.false_eq_true, if_false]
      unfold ready at hr' ⊢
      have := rpi_fail 1 30 grant x (n + 1) 0 hx hr'
      exact ⟨this.1, by unfold storesIn; rw [this.2.1]; simp⟩

theorem catb_fail (grant : Nat → Bool) (x : GA) (n : Nat) (hx : WF 1 x)
    (h : (catb grant x n).ret = false) :
    WF 1 (catb grant x n).x ∧ storesIn (catb grant x n) := by
  unfold catb at h ⊢
  by_cases hxn : x.nonnull = true
  · simp only [hxn, Bool.not_true, Bool.false_eq_true, if_false] at h ⊢
    by_cases c1 : n + 1 ≥ U32
    · rw [if_pos c1]; exact ⟨hx, by unfold storesIn; simp⟩
    · rw [if_neg c1] at h ⊢
      by_cases hr : (readyplus 1 30 grant x (n + 1)).ret = true
      · simp [hr] at h
      · have hr' : (readyplus 1 30 grant x (n + 1)).ret = false := by simpa using hr
        simp only [hr', Bool.false_eq_true, if_false]
        unfold readyplus at hr' ⊢
        have := rpi_fail 1 30 grant x (n + 1) x.len hx hr'
        exact ⟨this.1, by unfold storesIn; rw [this.2.1]; simp⟩
  · have hxn' : x.nonnull = false := by cases hh : x.nonnull <;> simp_all
    simp only [hxn', Bool.not_false, if_true] at h ⊢
    exact copyb_fail grant x n hx h

theorem escCount_le (s : Bytes) : escCount s ≤ s.length := by
  unfold escCount
  exact List.length_filter_le _ _

end Nq.Lemmas.C20
