/-
  Bridge for C12: `Nq.LocalDeliver.datetimeTai` (qmail-local's From_ line / myctime) is, field by field, the same arithmetic
  as `Nq.Datetime.tai` (after unfolding the two definitions are syntactically equal; the record types differ: C12's has no
  `yday`).  So the calendar theorem of `Nq/Lemmas/Datetime.lean` applies to it.  Not part of any check's build (it imports
  C12's model read-only); the lead may use it to unify the two models.
-/
import Nq.LocalDeliver
import Nq.Lemmas.Datetime

namespace Nq.Lemmas.DatetimeC12
open Nq Nq.Datetime

theorem localDeliver_datetimeTai_eq (t : Int) :
    Nq.LocalDeliver.datetimeTai t =
      { hour := (tai t).hour, min := (tai t).min, sec := (tai t).sec, wday := (tai t).wday,
        mday := (tai t).mday, mon := (tai t).mon, year := (tai t).year } := by
  simp only [Nq.LocalDeliver.datetimeTai, tai, vars]

/-- the date qmail-local writes is the Gregorian date of `t` -/
theorem localDeliver_datetimeTai_civil (t : Int) :
    validDate (Nq.LocalDeliver.datetimeTai t).year (Nq.LocalDeliver.datetimeTai t).mon (Nq.LocalDeliver.datetimeTai t).mday ∧
    daysFromCivil (Nq.LocalDeliver.datetimeTai t).year (Nq.LocalDeliver.datetimeTai t).mon (Nq.LocalDeliver.datetimeTai t).mday = t / 86400 ∧
    (Nq.LocalDeliver.datetimeTai t).wday = (t / 86400 + 4) % 7 := by
  rw [localDeliver_datetimeTai_eq]
  obtain ⟨h1, h2, _, _, h5⟩ := Nq.Lemmas.Datetime.tai_civil t
  exact ⟨h1, h2, h5⟩

end Nq.Lemmas.DatetimeC12
