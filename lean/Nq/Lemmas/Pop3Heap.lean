/-
  The heap of prioq.c as used by qmail-pop3d's getlist(): the list model of `Nq.Pop3`
  (`pqInsert`, `pqDelmin`, `pqDrain`) is shown to be the array model of `Nq.Sched` (property C15),
  so that the heap lemmas proved there (`Nq.Lemmas.Sched`: heap order preserved, the root is a
  minimum, insert / delmin are multiset-exact) carry over.  From them: draining a heap built by
  inserts yields a sorted permutation of what was inserted, and `getlist` is a permutation of the
  eligible files sorted by mtime.  Core Lean only.
-/
import Nq.Pop3
import Nq.Lemmas.SchedHeap

namespace Nq.Lemmas.Pop3Heap
open Nq Nq.Pop3

/-! ### the two heap models are the same -/

def toS (e : Elt) : Nq.Sched.Elt := ⟨(e.dt : Int), e.id⟩
def ofS (e : Nq.Sched.Elt) : Elt := ⟨e.dt.toNat, e.id⟩

theorem ofS_toS (e : Elt) : ofS (toS e) = e := by
  cases e; simp [ofS, toS]

theorem map_ofS_toS (l : List Elt) : (l.map toS).map ofS = l := by
  induction l with
  | nil => rfl
  | cons e l ih => simp [ofS_toS] at ih ⊢

def toA (l : List Elt) : Nq.Sched.PQ := (l.map toS).toArray

theorem toA_size (l : List Elt) : (toA l).size = l.length := by simp [toA]

theorem toA_toList (l : List Elt) : (toA l).toList = l.map toS := by simp [toA]

theorem toA_get (l : List Elt) (i : Nat) : (toA l)[i]! = toS (eltAt l i) := by
  simp only [toA, eltAt, Array.getElem!_eq_getD, Array.getD_eq_getD_getElem?, List.getElem?_toArray,
    List.getElem?_map, List.getD_eq_getElem?_getD]
  cases l[i]? with
  | none => rfl
  | some e => rfl

theorem toA_set (l : List Elt) (i : Nat) (v : Elt) : toA (l.set i v) = (toA l).setIfInBounds i (toS v) := by
  apply Array.ext'
  simp [toA, List.map_set]

theorem toS_dt_le (a b : Elt) : (toS a).dt ≤ (toS b).dt ↔ a.dt ≤ b.dt := by
  simp [toS]

theorem sim_siftUp (pe : Elt) : ∀ (f : Nat) (a : List Elt) (j : Nat),
    toA (siftUp f a j pe) = Nq.Sched.siftUp (toS pe) f (toA a) j := by
  intro f
  induction f with
  | zero => intro a j; simp [siftUp, Nq.Sched.siftUp, toA_set]
  | succ f ih =>
    intro a j
    simp only [siftUp, Nq.Sched.siftUp]
    by_cases hj : j = 0
    · subst hj; simp [toA_set]
    · rw [if_neg hj, if_neg hj, toA_get, toS_dt_le]
      by_cases hc : (eltAt a ((j - 1) / 2)).dt ≤ pe.dt
      · rw [if_pos hc, if_pos hc, toA_set]
      · rw [if_neg hc, if_neg hc, ih, toA_set]

theorem sim_siftDown : ∀ (f : Nat) (a : List Elt) (i n : Nat), i < n →
    toA ((siftDown f a i n).1.set (siftDown f a i n).2 (eltAt a n)) = Nq.Sched.siftDown f (toA a) n i := by
  intro f
  induction f with
  | zero => intro a i n _; simp [siftDown, Nq.Sched.siftDown, toA_set, toA_get]
  | succ f ih =>
    intro a i n hin
    simp only [siftDown, Nq.Sched.siftDown]
    by_cases hj : i + i + 2 > n
    · rw [if_pos hj, if_pos hj, toA_set, toA_get]
    · rw [if_neg hj, if_neg hj]
      simp only [toA_get, toS_dt_le]
      generalize hjj : (if (eltAt a (i + i + 2 - 1)).dt ≤ (eltAt a (i + i + 2)).dt then i + i + 2 - 1 else i + i + 2) = j'
      have hj' : j' ≤ n ∧ i < j' := by
        rw [← hjj]; split <;> omega
      by_cases hc : (eltAt a n).dt ≤ (eltAt a j').dt
      · rw [if_pos hc, if_pos hc, toA_set]
      · rw [if_neg hc, if_neg hc]
        have hjn : j' < n := by
          rcases Nat.lt_or_ge j' n with h | h
          · exact h
          · have : j' = n := by omega
            subst this; exact absurd (Nat.le_refl _) hc
        have := ih (a.set i (eltAt a j')) j' n hjn
        have he : eltAt (a.set i (eltAt a j')) n = eltAt a n := by
          simp only [eltAt, List.getD_eq_getElem?_getD]
          rw [List.getElem?_set_ne (by omega)]
        rw [he] at this
        rw [this, toA_set]

/-! ### the amount of fuel does not matter once it suffices -/

theorem sched_siftUp_fuel (pe : Nq.Sched.Elt) : ∀ (f : Nat) (a : Nq.Sched.PQ) (j : Nat), j ≤ f →
    Nq.Sched.siftUp pe (f + 1) a j = Nq.Sched.siftUp pe f a j := by
  intro f
  induction f with
  | zero =>
    intro a j hj
    have : j = 0 := by omega
    subst this; simp [Nq.Sched.siftUp]
  | succ f ih =>
    intro a j hj
    rw [Nq.Sched.siftUp]
    conv => rhs; rw [Nq.Sched.siftUp]
    by_cases hj0 : j = 0
    · simp [hj0]
    · simp only [hj0, if_false]
      split
      · rfl
      · exact ih _ _ (by omega)

theorem sched_siftDown_fuel : ∀ (f : Nat) (a : Nq.Sched.PQ) (n i : Nat), n ≤ i + f →
    Nq.Sched.siftDown (f + 1) a n i = Nq.Sched.siftDown f a n i := by
  intro f
  induction f with
  | zero =>
    intro a n i h
    simp only [Nq.Sched.siftDown]
    rw [if_pos (by omega)]
  | succ f ih =>
    intro a n i h
    rw [Nq.Sched.siftDown]
    conv => rhs; rw [Nq.Sched.siftDown]
    simp only
    split
    · rfl
    · split
      · rfl
      · apply ih
        split <;> omega

/-- `prioq_insert` of the POP3 model is `prioq_insert` of the scheduler model -/
theorem toA_pqInsert (pq : List Elt) (pe : Elt) : toA (pqInsert pq pe) = (toA pq).insert (toS pe) := by
  unfold pqInsert Nq.Sched.PQ.insert
  rw [sim_siftUp, toA_size, sched_siftUp_fuel _ _ _ _ (Nat.le_refl _)]
  congr 1
  simp [toA]

/-- `prioq_delmin` of the POP3 model is `prioq_delmin` of the scheduler model -/
theorem toA_pqDelmin (pq : List Elt) : toA (pqDelmin pq) = (toA pq).delmin := by
  unfold pqDelmin Nq.Sched.PQ.delmin
  rw [toA_size]
  cases hn : pq.length with
  | zero => simp
  | succ n =>
    simp only [Nat.succ_ne_zero, if_false, Nat.add_sub_cancel]
    by_cases h0 : n = 0
    · subst h0
      apply Array.ext'
      simp [siftDown, Nq.Sched.siftDown, toA, hn]
    · have hs := sim_siftDown (n + 2) pq 0 n (by omega)
      rw [sched_siftDown_fuel (n + 1) _ _ _ (by omega), sched_siftDown_fuel n _ _ _ (by omega)] at hs
      rw [← hs]
      apply Array.ext'
      simp only [toA, Array.toList_pop, List.map_take]
      rw [List.dropLast_eq_take]
      simp [hn]

/-! ### heap facts for the list model, from `Nq.Lemmas.Sched` -/

/-- heap order of the list model -/
def HeapL (pq : List Elt) : Prop := Nq.Sched.Heap (toA pq)

theorem heapL_nil : HeapL [] := by
  show Nq.Sched.Heap (toA [])
  exact Nq.Lemmas.Sched.heap_empty

theorem perm_of_map_toS {a b : List Elt} (h : (a.map toS).Perm (b.map toS)) : a.Perm b := by
  have := h.map ofS
  rwa [map_ofS_toS, map_ofS_toS] at this

theorem pqInsert_spec (pq : List Elt) (pe : Elt) (h : HeapL pq) :
    HeapL (pqInsert pq pe) ∧ (pqInsert pq pe).Perm (pe :: pq) := by
  have hs := Nq.Lemmas.Sched.insert_spec (toA pq) (toS pe) h
  rw [← toA_pqInsert] at hs
  refine ⟨hs.1, perm_of_map_toS ?_⟩
  have := hs.2
  rwa [toA_toList, toA_toList] at this

theorem pqDelmin_spec (e : Elt) (t : List Elt) (h : HeapL (e :: t)) :
    HeapL (pqDelmin (e :: t)) ∧ (e :: t).Perm (e :: pqDelmin (e :: t)) ∧
    ∀ x ∈ e :: t, e.dt ≤ x.dt := by
  have hne : (toA (e :: t)).size ≠ 0 := by rw [toA_size]; simp
  have hs := Nq.Lemmas.Sched.delmin_spec (toA (e :: t)) h hne
  rw [← toA_pqDelmin] at hs
  have h0 : (toA (e :: t))[0]! = toS e := by rw [toA_get]; rfl
  refine ⟨hs.1, perm_of_map_toS ?_, ?_⟩
  · have := hs.2
    rw [h0, toA_toList, toA_toList] at this
    simpa using this
  · intro x hx
    have := Nq.Lemmas.Sched.heap_root_le_mem (toA (e :: t)) h (toS x)
      (by rw [toA_toList]; exact List.mem_map_of_mem hx)
    rw [h0] at this
    exact (toS_dt_le e x).mp this

/-- **Draining a heap** (prioq_min / prioq_delmin until it is empty) yields its entries, each once,
in non-decreasing order of `dt`. -/
theorem pqDrain_spec : ∀ (f : Nat) (pq : List Elt), pq.length ≤ f → HeapL pq →
    (pqDrain f pq).Perm pq ∧ (pqDrain f pq).Pairwise (fun a b => a.dt ≤ b.dt) := by
  intro f
  induction f with
  | zero =>
    intro pq hl _
    have : pq = [] := List.eq_nil_of_length_eq_zero (by omega)
    subst this
    simp [pqDrain]
  | succ f ih =>
    intro pq hl h
    cases pq with
    | nil => simp [pqDrain]
    | cons e t =>
      obtain ⟨h1, h2, h3⟩ := pqDelmin_spec e t h
      have hlen : (pqDelmin (e :: t)).length ≤ f := by
        have := h2.length_eq
        simp only [List.length_cons] at this hl
        omega
      obtain ⟨i1, i2⟩ := ih (pqDelmin (e :: t)) hlen h1
      simp only [pqDrain]
      refine ⟨?_, ?_⟩
      · exact ((List.perm_cons e).mpr i1).trans h2.symm
      · rw [List.pairwise_cons]
        refine ⟨?_, i2⟩
        intro x hx
        exact h3 x (h2.symm.subset (List.mem_cons_of_mem _ (i1.subset hx)))

/-- **Heap sort**: draining a heap built by inserts yields a sorted permutation of what was
inserted. -/
theorem insert_drain_sorted (l : List Elt) :
    let pq := l.foldl pqInsert []
    (pqDrain pq.length pq).Perm l ∧ (pqDrain pq.length pq).Pairwise (fun a b => a.dt ≤ b.dt) := by
  have hb : ∀ (l : List Elt) (pq : List Elt), HeapL pq →
      HeapL (l.foldl pqInsert pq) ∧ (l.foldl pqInsert pq).Perm (l ++ pq) := by
    intro l
    induction l with
    | nil => intro pq h; exact ⟨h, List.Perm.refl _⟩
    | cons e l ih =>
      intro pq h
      obtain ⟨a1, a2⟩ := pqInsert_spec pq e h
      obtain ⟨b1, b2⟩ := ih _ a1
      refine ⟨b1, b2.trans ?_⟩
      simp only [List.cons_append]
      exact (List.perm_middle.symm.trans ((List.perm_cons e).mpr (List.Perm.refl _))).symm.symm |>.trans
        (by
          have := (List.perm_append_left_iff l).mpr a2
          exact this.trans List.perm_middle)
  intro pq
  obtain ⟨h1, h2⟩ := hb l [] heapL_nil
  obtain ⟨d1, d2⟩ := pqDrain_spec pq.length pq (Nat.le_refl _) h1
  exact ⟨d1.trans (by simpa using h2), d2⟩

end Nq.Lemmas.Pop3Heap
