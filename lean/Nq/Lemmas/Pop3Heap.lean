/-
  The heap of prioq.c as used by qmail-pop3d's getlist(): the list model of `Nq.Pop3`
  (`pqInsert`, `pqDelmin`, `pqDrain`) is shown to be the array model of `Nq.Sched` (property C15),
  so that the heap lemmas proved there (`Nq.Lemmas.Sched`: heap order preserved, the root is a
  minimum, insert / delmin are multiset-exact) carry over.  From them: draining a heap built by
  inserts yields a sorted permutation of what was inserted, and `getlist` is a permutation of the
  eligible files sorted by mtime.  Core Lean only.
-/
import Nq.Pop3
import Nq.Lemmas.SchedHeap

namespace Nq.Lemmas.Pop3Heap
open Nq Nq.Pop3

/-! ### the two heap models are the same -/

def toS (e : Elt) : Nq.Sched.Elt := ⟨(e.dt : Int), e.id⟩
def ofS (e : Nq.Sched.Elt) : Elt := ⟨e.dt.toNat, e.id⟩

theorem ofS_toS (e : Elt) : ofS (toS e) = e := by
  cases e; simp [ofS, toS]

theorem map_ofS_toS (l : List Elt) : (l.map toS).map ofS = l := by
  have : ofS ∘ toS = id := funext ofS_toS
  rw [List.map_map, this, List.map_id]

def toA (l : List Elt) : Nq.Sched.PQ := (l.map toS).toArray

theorem toA_size (l : List Elt) : (toA l).size = l.length := by simp [toA]

theorem toA_toList (l : List Elt) : (toA l).toList = l.map toS := by simp [toA]

theorem toA_get (l : List Elt) (i : Nat) : (toA l)[i]! = toS (eltAt l i) := by
  simp only [toA, eltAt, Array.getElem!_eq_getD, Array.getD_eq_getD_getElem?, List.getElem?_toArray,
    List.getElem?_map, List.getD_eq_getElem?_getD]
  cases l[i]? with
  | none => rfl
  | some e => rfl

theorem toA_set (l : List Elt) (i : Nat) (v : Elt) : toA (l.set i v) = (toA l).setIfInBounds i (toS v) := by
  apply Array.ext'
  simp [toA, List.map_set]

theorem toS_dt_le (a b : Elt) : (toS a).dt ≤ (toS b).dt ↔ a.dt ≤ b.dt := by
  simp [toS]

theorem sim_siftUp (pe : Elt) : ∀ (f : Nat) (a : List Elt) (j : Nat),
    toA (siftUp f a j pe) = Nq.Sched.siftUp (toS pe) f (toA a) j := by
  intro f
  induction f with
  | zero => intro a j; simp [siftUp, Nq.Sched.siftUp, toA_set]
  | succ f ih =>
    intro a j
    simp only [siftUp, Nq.Sched.siftUp]
    by_cases hj : j = 0
    · subst hj; simp [toA_set]
    · rw [if_neg hj, if_neg hj]
      simp only [toA_get, toS_dt_le]
      by_cases hc : (eltAt a ((j - 1) / 2)).dt ≤ pe.dt
      · rw [if_pos hc, if_pos hc, toA_set]
      · rw [if_neg hc, if_neg hc, ih, toA_set]

theorem sim_siftDown : ∀ (f : Nat) (a : List Elt) (i n : Nat), i < n →
    toA ((siftDown f a i n).1.set (siftDown f a i n).2 (eltAt a n)) = Nq.Sched.siftDown f (toA a) n i := by
  intro f
  induction f with
  | zero => intro a i n _; simp [siftDown, Nq.Sched.siftDown, toA_set, toA_get]
  | succ f ih =>
    intro a i n hin
    simp only [siftDown, Nq.Sched.siftDown]
    by_cases hj : i + i + 2 > n
    · rw [if_pos hj, if_pos hj, toA_set, toA_get]
    · rw [if_neg hj, if_neg hj]
      simp only [toA_get, toS_dt_le]
      generalize hjj : (if (eltAt a (i + i + 2 - 1)).dt ≤ (eltAt a (i + i + 2)).dt then i + i + 2 - 1 else i + i + 2) = j'
      have hj' : j' ≤ n ∧ i < j' := by
        rw [← hjj]; split <;> omega
      by_cases hc : (eltAt a n).dt ≤ (eltAt a j').dt
      · rw [if_pos hc, if_pos hc, toA_set]
      · rw [if_neg hc, if_neg hc]
        have hjn : j' < n := by
          rcases Nat.lt_or_ge j' n with h | h
          · exact h
          · have : j' = n := by omega
            subst this; exact absurd (Nat.le_refl _) hc
        have := ih (a.set i (eltAt a j')) j' n hjn
        have he : eltAt (a.set i (eltAt a j')) n = eltAt a n := by
          simp only [eltAt, List.getD_eq_getElem?_getD]
          rw [List.getElem?_set_ne (by omega)]
        rw [he] at this
        rw [this, toA_set]

/-! ### the amount of fuel does not matter once it suffices -/

theorem sched_siftUp_fuel (pe : Nq.Sched.Elt) : ∀ (f : Nat) (a : Nq.Sched.PQ) (j : Nat), j ≤ f →
    Nq.Sched.siftUp pe (f + 1) a j = Nq.Sched.siftUp pe f a j := by
  intro f
  induction f with
  | zero =>
    intro a j hj
    have : j = 0 := by omega
    subst this; simp [Nq.Sched.siftUp]
  | succ f ih =>
    intro a j hj
    rw [Nq.Sched.siftUp]
    conv => rhs; rw [Nq.Sched.siftUp]
    by_cases hj0 : j = 0
    · simp [hj0]
    · simp only [hj0, if_false]
      split
      · rfl
      · exact ih _ _ (by omega)

theorem sched_siftDown_fuel : ∀ (f : Nat) (a : Nq.Sched.PQ) (n i : Nat), n ≤ i + f →
    Nq.Sched.siftDown (f + 1) a n i = Nq.Sched.siftDown f a n i := by
  intro f
  induction f with
  | zero =>
    intro a n i h
    simp only [Nq.Sched.siftDown]
    rw [if_pos (by omega)]
  | succ f ih =>
    intro a n i h
    rw [Nq.Sched.siftDown]
    conv => rhs; rw [Nq.Sched.siftDown]
    simp only
    by_cases hj : i + i + 2 > n
    · rw [if_pos hj, if_pos hj]
    · rw [if_neg hj, if_neg hj]
      generalize hjj : (if a[i + i + 2 - 1]!.dt ≤ a[i + i + 2]!.dt then i + i + 2 - 1 else i + i + 2) = j'
      have hj' : i < j' := by rw [← hjj]; split <;> omega
      split
      · rfl
      · exact ih _ _ _ (by omega)

theorem siftDown_length : ∀ (f : Nat) (a : List Elt) (i n : Nat), (siftDown f a i n).1.length = a.length := by
  intro f
  induction f with
  | zero => intro a i n; rfl
  | succ f ih =>
    intro a i n
    simp only [siftDown]
    split
    · rfl
    · generalize (if (eltAt a (i + i + 2 - 1)).dt ≤ (eltAt a (i + i + 2)).dt then i + i + 2 - 1 else i + i + 2) = j'
      split
      · rfl
      · rw [ih]; simp

theorem toA_take_pop (l : List Elt) (n : Nat) (h : l.length = n + 1) : toA (l.take n) = (toA l).pop := by
  apply Array.ext'
  simp [toA, List.dropLast_eq_take, h]

/-- `prioq_insert` of the POP3 model is `prioq_insert` of the scheduler model -/
theorem toA_pqInsert (pq : List Elt) (pe : Elt) : toA (pqInsert pq pe) = (toA pq).insert (toS pe) := by
  unfold pqInsert Nq.Sched.PQ.insert
  rw [sim_siftUp, toA_size, sched_siftUp_fuel _ _ _ _ (Nat.le_refl _)]
  congr 1
  simp [toA]

/-- `prioq_delmin` of the POP3 model is `prioq_delmin` of the scheduler model -/
theorem toA_pqDelmin (pq : List Elt) : toA (pqDelmin pq) = (toA pq).delmin := by
  unfold pqDelmin Nq.Sched.PQ.delmin
  rw [toA_size]
  cases hn : pq.length with
  | zero => simp
  | succ n =>
    simp only [Nat.succ_ne_zero, if_false, Nat.add_sub_cancel]
    by_cases h0 : n = 0
    · subst h0
      obtain ⟨x, rfl⟩ := List.length_eq_one_iff.mp hn
      rfl
    · have hs := sim_siftDown (n + 2) pq 0 n (by omega)
      rw [sched_siftDown_fuel (n + 1) _ _ _ (by omega), sched_siftDown_fuel n _ _ _ (by omega)] at hs
      rw [← hs]
      exact toA_take_pop _ n (by rw [List.length_set, siftDown_length, hn])

/-! ### heap facts for the list model, from `Nq.Lemmas.Sched` -/

/-- heap order of the list model -/
def HeapL (pq : List Elt) : Prop := Nq.Sched.Heap (toA pq)

theorem heapL_nil : HeapL [] := by
  show Nq.Sched.Heap (toA [])
  exact Nq.Lemmas.Sched.heap_empty

theorem perm_of_map_toS {a b : List Elt} (h : (a.map toS).Perm (b.map toS)) : a.Perm b := by
  have := h.map ofS
  rwa [map_ofS_toS, map_ofS_toS] at this

theorem pqInsert_spec (pq : List Elt) (pe : Elt) (h : HeapL pq) :
    HeapL (pqInsert pq pe) ∧ (pqInsert pq pe).Perm (pe :: pq) := by
  have hs := Nq.Lemmas.Sched.insert_spec (toA pq) (toS pe) h
  rw [← toA_pqInsert] at hs
  refine ⟨hs.1, perm_of_map_toS ?_⟩
  have := hs.2
  rwa [toA_toList, toA_toList] at this

theorem pqDelmin_spec (e : Elt) (t : List Elt) (h : HeapL (e :: t)) :
    HeapL (pqDelmin (e :: t)) ∧ (e :: t).Perm (e :: pqDelmin (e :: t)) ∧
    ∀ x ∈ e :: t, e.dt ≤ x.dt := by
  have hne : (toA (e :: t)).size ≠ 0 := by rw [toA_size]; simp
  have hs := Nq.Lemmas.Sched.delmin_spec (toA (e :: t)) h hne
  rw [← toA_pqDelmin] at hs
  have h0 : (toA (e :: t))[0]! = toS e := by rw [toA_get]; rfl
  refine ⟨hs.1, perm_of_map_toS ?_, ?_⟩
  · have := hs.2
    rw [h0, toA_toList, toA_toList] at this
    simpa using this
  · intro x hx
    have := Nq.Lemmas.Sched.heap_root_le_mem (toA (e :: t)) h (toS x)
      (by rw [toA_toList]; exact List.mem_map_of_mem hx)
    rw [h0] at this
    exact (toS_dt_le e x).mp this

/-- **Draining a heap** (prioq_min / prioq_delmin until it is empty) yields its entries, each once,
in non-decreasing order of `dt`. -/
theorem pqDrain_spec : ∀ (f : Nat) (pq : List Elt), pq.length ≤ f → HeapL pq →
    (pqDrain f pq).Perm pq ∧ (pqDrain f pq).Pairwise (fun a b => a.dt ≤ b.dt) := by
  intro f
  induction f with
  | zero =>
    intro pq hl _
    have : pq = [] := List.eq_nil_of_length_eq_zero (by omega)
    subst this
    simp [pqDrain]
  | succ f ih =>
    intro pq hl h
    cases pq with
    | nil => simp [pqDrain]
    | cons e t =>
      obtain ⟨h1, h2, h3⟩ := pqDelmin_spec e t h
      have hlen : (pqDelmin (e :: t)).length ≤ f := by
        have := h2.length_eq
        simp only [List.length_cons] at this hl
        omega
      obtain ⟨i1, i2⟩ := ih (pqDelmin (e :: t)) hlen h1
      simp only [pqDrain]
      refine ⟨?_, ?_⟩
      · exact ((List.perm_cons e).mpr i1).trans h2.symm
      · rw [List.pairwise_cons]
        refine ⟨?_, i2⟩
        intro x hx
        exact h3 x (h2.symm.subset (List.mem_cons_of_mem _ (i1.subset hx)))

/-- **Heap sort**: draining a heap built by inserts yields a sorted permutation of what was
inserted. -/
theorem insert_drain_sorted (l : List Elt) :
    let pq := l.foldl pqInsert []
    (pqDrain pq.length pq).Perm l ∧ (pqDrain pq.length pq).Pairwise (fun a b => a.dt ≤ b.dt) := by
  have hb : ∀ (l : List Elt) (pq : List Elt), HeapL pq →
      HeapL (l.foldl pqInsert pq) ∧ (l.foldl pqInsert pq).Perm (l ++ pq) := by
    intro l
    induction l with
    | nil => intro pq h; exact ⟨h, List.Perm.refl _⟩
    | cons e l ih =>
      intro pq h
      obtain ⟨a1, a2⟩ := pqInsert_spec pq e h
      obtain ⟨b1, b2⟩ := ih _ a1
      exact ⟨b1, b2.trans (((List.perm_append_left_iff l).mpr a2).trans List.perm_middle)⟩
  intro pq
  obtain ⟨h1, h2⟩ := hb l [] heapL_nil
  obtain ⟨d1, d2⟩ := pqDrain_spec pq.length pq (Nat.le_refl _) h1
  exact ⟨d1.trans (by simpa using h2), d2⟩

/-! ### maildir_scan and getlist -/

/-- `d->d_name[0] != '.'` -/
def notDot (f : File) : Bool := (baseName f).head? != some DOT

/-- the messages a POP3 session shows: the entries of new/ then cur/ (readdir order) whose name does
not begin with a dot and whose mtime is before the start of the session -/
def eligible (now : Nat) (fs : FS) : List File :=
  ((fs.filter (inDir newSl) ++ fs.filter (inDir curSl)).filter notDot).filter (fun f => decide (f.mtime < now))

/-- the size announced for a path: the length of the file of that name at start-up -/
def sizeAt (fs : FS) (p : Bytes) : Nat := match fsFind fs p with | some f => f.data.length | none => 0

/-- the table entry getlist() makes for a file -/
def startMsg (fs : FS) (f : File) : Msg := { fn := f.path, size := sizeAt fs f.path, del := false }

/-- the heap entries maildir.c append() creates for the non-dot directory entries `nd`, the first of
which is stored at index `k` of `filenames` -/
def entries (now : Nat) : Nat → List File → List Elt
  | _, [] => []
  | k, f :: rest => (if f.mtime < now then [⟨f.mtime, k⟩] else []) ++ entries now (k + 1) rest

theorem entries_append (now : Nat) : ∀ (a b : List File) (k : Nat),
    entries now k (a ++ b) = entries now k a ++ entries now (k + a.length) b := by
  intro a
  induction a with
  | nil => intro b k; simp [entries]
  | cons f a ih =>
    intro b k
    simp only [List.cons_append, entries, ih, List.length_cons, List.append_assoc]
    congr 3
    omega

theorem scanDir_spec (now : Nat) : ∀ (files : List File) (names : List Bytes) (pq : List Elt), HeapL pq →
    (scanDir now files names pq).1 = names ++ (files.filter notDot).map (·.path) ∧
    HeapL (scanDir now files names pq).2 ∧
    (scanDir now files names pq).2.Perm (entries now names.length (files.filter notDot) ++ pq) := by
  intro files
  induction files with
  | nil => intro names pq h; simp [scanDir, entries, h]
  | cons f rest ih =>
    intro names pq h
    by_cases hd : (baseName f).head? = some DOT
    · have hn : notDot f = false := by simp [notDot, hd]
      simp only [scanDir, hd, if_true, List.filter_cons, hn]
      exact ih names pq h
    · have hn : notDot f = true := by simp [notDot, hd]
      simp only [scanDir, hd, if_false, List.filter_cons, hn, if_true]
      by_cases hm : f.mtime < now
      · simp only [hm, if_true]
        obtain ⟨a1, a2⟩ := pqInsert_spec pq ⟨f.mtime, names.length⟩ h
        obtain ⟨b1, b2, b3⟩ := ih (names ++ [f.path]) _ a1
        refine ⟨by rw [b1]; simp, b2, b3.trans ?_⟩
        simp only [entries, hm, if_true, List.length_append, List.length_singleton, List.cons_append,
          List.nil_append]
        exact ((List.perm_append_left_iff _).mpr a2).trans List.perm_middle
      · simp only [hm, if_false]
        obtain ⟨b1, b2, b3⟩ := ih (names ++ [f.path]) pq h
        refine ⟨by rw [b1]; simp, b2, ?_⟩
        simpa [entries, hm] using b3

def dummyFile : File := ⟨[], [], 0, 0⟩

/-- the directory entry a heap entry stands for -/
def fileAt (nd : List File) (e : Elt) : File := nd.getD e.id dummyFile

theorem entries_mem (now : Nat) : ∀ (rest pre : List File) (e : Elt), e ∈ entries now pre.length rest →
    ∃ f, (pre ++ rest)[e.id]? = some f ∧ e.dt = f.mtime := by
  intro rest
  induction rest with
  | nil => intro pre e he; simp [entries] at he
  | cons f rest ih =>
    intro pre e he
    simp only [entries, List.mem_append] at he
    rcases he with he | he
    · by_cases hm : f.mtime < now
      · simp only [hm, if_true, List.mem_singleton] at he
        subst he
        exact ⟨f, by simp, rfl⟩
      · simp [hm] at he
    · have := ih (pre ++ [f]) e (by simpa using he)
      simpa using this

theorem entries_files (now : Nat) : ∀ (rest pre : List File),
    (entries now pre.length rest).map (fileAt (pre ++ rest)) = rest.filter (fun f => decide (f.mtime < now)) := by
  intro rest
  induction rest with
  | nil => intro pre; rfl
  | cons f rest ih =>
    intro pre
    have h := ih (pre ++ [f])
    simp only [List.length_append, List.length_singleton, List.append_assoc, List.singleton_append] at h
    simp only [entries, List.map_append, h, List.filter_cons]
    by_cases hm : f.mtime < now
    · simp [hm, fileAt]
    · simp [hm]

/-- **getlist()**: the message table is made from a permutation of the eligible files that is sorted
by mtime (oldest first; equal mtimes in the order the heap of prioq.c happens to give). -/
theorem getlist_sorted_perm (now : Nat) (fs : FS) :
    ∃ L : List File, L.Perm (eligible now fs) ∧ L.Pairwise (fun a b => a.mtime ≤ b.mtime) ∧
      getlist now fs = L.map (startMsg fs) := by
  obtain ⟨a1, a2, a3⟩ := scanDir_spec now (fs.filter (inDir newSl)) [] [] heapL_nil
  obtain ⟨b1, b2, b3⟩ := scanDir_spec now (fs.filter (inDir curSl)) _ _ a2
  -- the non-dot entries, in the order of `filenames`
  let nd := (fs.filter (inDir newSl) ++ fs.filter (inDir curSl)).filter notDot
  have hnd : nd = (fs.filter (inDir newSl)).filter notDot ++ (fs.filter (inDir curSl)).filter notDot :=
    List.filter_append ..
  have hnames : (scanDir now (fs.filter (inDir curSl)) (scanDir now (fs.filter (inDir newSl)) [] []).1
      (scanDir now (fs.filter (inDir newSl)) [] []).2).1 = nd.map (·.path) := by
    rw [b1, a1, hnd]; simp
  have hheap : (scanDir now (fs.filter (inDir curSl)) (scanDir now (fs.filter (inDir newSl)) [] []).1
      (scanDir now (fs.filter (inDir newSl)) [] []).2).2.Perm (entries now 0 nd) := by
    refine b3.trans ?_
    rw [hnd, entries_append, a1]
    simp only [List.nil_append, List.length_map, List.length_nil, Nat.zero_add] at a3 ⊢
    exact (List.perm_append_comm).trans ((List.perm_append_right_iff _).mpr (by simpa using a3))
  generalize hq : (scanDir now (fs.filter (inDir curSl)) (scanDir now (fs.filter (inDir newSl)) [] []).1
      (scanDir now (fs.filter (inDir newSl)) [] []).2) = r2 at b2 hnames hheap
  obtain ⟨d1, d2⟩ := pqDrain_spec r2.2.length r2.2 (Nat.le_refl _) b2
  have hD : (pqDrain r2.2.length r2.2).Perm (entries now 0 nd) := d1.trans hheap
  have hmem : ∀ e ∈ pqDrain r2.2.length r2.2, ∃ f, nd[e.id]? = some f ∧ e.dt = f.mtime := by
    intro e he
    have := entries_mem now nd [] e (by simpa using hD.subset he)
    simpa using this
  refine ⟨(pqDrain r2.2.length r2.2).map (fileAt nd), ?_, ?_, ?_⟩
  · have := hD.map (fileAt nd)
    have h2 := entries_files now nd []
    simp only [List.length_nil, List.nil_append] at h2
    rw [h2] at this
    exact this
  · rw [List.pairwise_map]
    refine (List.Pairwise.and_mem.mp d2).imp ?_
    intro a b ⟨ha, hb, hab⟩
    obtain ⟨fa, ha1, ha2⟩ := hmem a ha
    obtain ⟨fb, hb1, hb2⟩ := hmem b hb
    have ea : fileAt nd a = fa := by simp [fileAt, List.getD_eq_getElem?_getD, ha1]
    have eb : fileAt nd b = fb := by simp [fileAt, List.getD_eq_getElem?_getD, hb1]
    rw [ea, eb, ← ha2, ← hb2]; exact hab
  · unfold getlist
    simp only [hq, List.map_map]
    apply List.map_congr_left
    intro e he
    obtain ⟨f, h1, _⟩ := hmem e he
    have ef : fileAt nd e = f := by simp [fileAt, List.getD_eq_getElem?_getD, h1]
    have en : r2.1.getD e.id [] = f.path := by
      rw [hnames]; simp [List.getD_eq_getElem?_getD, h1]
    simp only [Function.comp, ef, en, startMsg, sizeAt]
    cases fsFind fs f.path <;> rfl

end Nq.Lemmas.Pop3Heap
