/-
  Lemmas about `Nq.Bounce` (model of qmail-send.c's bounce code) and `Nq.BounceSpec` (paragraph
  reader, governing virtualdomains entry).  Used by `Nq/Props/C14.lean`.
-/
import Nq.Bounce
import Nq.Spec.BounceSpec

namespace Nq.Lemmas.Bounce
open Nq Nq.Bounce Nq.BounceSpec

/-! ### the paragraph reader -/

/-- put a run of bytes in front of the current paragraph -/
def pprep (x : Bytes) : List Bytes → List Bytes
  | [] => [x]
  | p :: ps => (x ++ p) :: ps

theorem pcons_eq_pprep (c : Byte) (l : List Bytes) : pcons c l = pprep [c] l := by
  cases l <;> simp [pcons, pprep]

theorem pprep_nil {l : List Bytes} (h : l ≠ []) : pprep [] l = l := by
  cases l with
  | nil => exact absurd rfl h
  | cons p ps => simp [pprep]

theorem pcons_pprep (c : Byte) (x : Bytes) (l : List Bytes) : pcons c (pprep x l) = pprep (c :: x) l := by
  cases l <;> simp [pcons, pprep]

theorem pprep_ne (x : Bytes) (l : List Bytes) : pprep x l ≠ [] := by
  cases l <;> simp [pprep]

theorem pcons_ne (c : Byte) (l : List Bytes) : pcons c l ≠ [] := by
  cases l <;> simp [pcons]

theorem paras_ne (s : PSt) (t : Bytes) (h : s ≠ .blank) : paras s t ≠ [] := by
  cases t with
  | nil => cases s <;> simp_all [paras]
  | cons c t =>
    cases s with
    | blank => exact absurd rfl h
    | bol => by_cases hc : c = LF <;> simp [paras, hc, pcons_ne]
    | mid => by_cases hc : c = LF <;> simp [paras, hc, pcons_ne]

/-- reading `x` from state `s` never ends the paragraph being read (nor skips a blank line) -/
def inPara : PSt → Bytes → Bool
  | _, [] => true
  | .blank, c :: t => c != LF && inPara .mid t
  | .mid, c :: t => if c = LF then inPara .bol t else inPara .mid t
  | .bol, c :: t => c != LF && inPara .mid t

/-- Reading a run that stays inside the paragraph prepends it to the current paragraph. -/
theorem paras_inPara (x y : Bytes) (s : PSt) (h : inPara s x = true) (hs : s ≠ .blank ∨ x ≠ []) :
    paras s (x ++ y) = pprep x (paras (endSt s x) y) := by
  induction x generalizing s with
  | nil =>
    have hs' : s ≠ .blank := by
      cases hs with
      | inl h => exact h
      | inr h => exact absurd rfl h
    simp [endSt, pprep_nil (paras_ne s y hs')]
  | cons c t ih =>
    cases s with
    | blank =>
      simp only [inPara, Bool.and_eq_true, bne_iff_ne, ne_eq] at h
      have := ih .mid h.2 (Or.inl (by simp))
      simp [paras, endSt, h.1, this, pcons_pprep]
    | bol =>
      simp only [inPara, Bool.and_eq_true, bne_iff_ne, ne_eq] at h
      have := ih .mid h.2 (Or.inl (by simp))
      simp [paras, endSt, h.1, this, pcons_pprep]
    | mid =>
      by_cases hc : c = LF
      · simp only [inPara, hc, if_true] at h
        have := ih .bol h (Or.inl (by simp))
        simp [paras, endSt, hc, this, pcons_pprep]
      · simp only [inPara, hc, if_false] at h
        have := ih .mid h (Or.inl (by simp))
        simp [paras, endSt, hc, this, pcons_pprep]

/-- after a non-empty run inside a paragraph the reader is not in the `blank` state -/
theorem endSt_inPara (x : Bytes) (s : PSt) (h : inPara s x = true) (hx : x ≠ []) : endSt s x ≠ .blank := by
  induction x generalizing s with
  | nil => exact absurd rfl hx
  | cons c t ih =>
    cases t with
    | nil =>
      cases s <;> by_cases hc : c = LF <;> simp_all [inPara, endSt]
    | cons d u =>
      cases s with
      | blank =>
        simp only [inPara, Bool.and_eq_true, bne_iff_ne, ne_eq] at h
        simpa [endSt, h.1] using ih .mid (by simpa [inPara] using h.2) (by simp)
      | bol =>
        simp only [inPara, Bool.and_eq_true, bne_iff_ne, ne_eq] at h
        simpa [endSt, h.1] using ih .mid (by simpa [inPara] using h.2) (by simp)
      | mid =>
        by_cases hc : c = LF
        · simp only [inPara, hc, if_true] at h
          simpa [endSt, hc] using ih .bol h (by simp)
        · simp only [inPara, hc, if_false] at h
          simpa [endSt, hc] using ih .mid h (by simp)

theorem endSt_append (x y : Bytes) (s : PSt) : endSt s (x ++ y) = endSt (endSt s x) y := by
  induction x generalizing s with
  | nil => simp [endSt]
  | cons c t ih => cases s <;> simp [endSt, ih]

/-- after an empty line the reader is between paragraphs, whatever came before -/
theorem endSt_LFLF (x : Bytes) (s : PSt) : endSt s (x ++ [LF, LF]) = .blank := by
  rw [endSt_append]
  cases endSt s x <;> simp [endSt]

/-- a text that ends between paragraphs can be read separately from what follows -/
theorem paras_append_blank (x y : Bytes) (s : PSt) (h : endSt s x = .blank) :
    paras s (x ++ y) = paras s x ++ paras .blank y := by
  induction x generalizing s with
  | nil => simp only [endSt] at h; subst h; simp [paras]
  | cons c t ih =>
    have pc : ∀ (b : Byte) (l1 l2 : List Bytes), l1 ≠ [] → pcons b (l1 ++ l2) = pcons b l1 ++ l2 := by
      intro b l1 l2 hl
      cases l1 with
      | nil => exact absurd rfl hl
      | cons p ps => simp [pcons]
    cases s with
    | blank =>
      by_cases hc : c = LF
      · simp only [endSt, hc, if_true] at h
        simp [paras, hc, ih .blank h]
      · simp only [endSt, hc, if_false] at h
        simp [paras, hc, ih .mid h, pc _ _ _ (paras_ne .mid t (by simp))]
    | bol =>
      by_cases hc : c = LF
      · simp only [endSt, hc, if_true] at h
        simp [paras, hc, ih .blank h]
      · simp only [endSt, hc, if_false] at h
        simp [paras, hc, ih .mid h, pc _ _ _ (paras_ne .mid t (by simp))]
    | mid =>
      by_cases hc : c = LF
      · simp only [endSt, hc, if_true] at h
        simp [paras, hc, ih .bol h, pc _ _ _ (paras_ne .bol t (by simp))]
      · simp only [endSt, hc, if_false] at h
        simp [paras, hc, ih .mid h, pc _ _ _ (paras_ne .mid t (by simp))]

/-! ### the scan of addbounce() -/

theorem scanFrom_snoc (a : Bytes) (l : Byte) (p : Bool) : scanFrom p (a ++ [l]) = squashAll p a ++ [l] := by
  induction a generalizing p with
  | nil => simp [scanFrom, squashAll]
  | cons c t ih =>
    cases t with
    | nil => simp [scanFrom, squashAll]
    | cons d u =>
      have := ih (c == LF)
      simp only [List.cons_append] at this ⊢
      simp [scanFrom, squashAll, this]

/-- the scanned text never leaves its paragraph: no LF directly after an LF survives -/
theorem inPara_squashAll (r : Bytes) :
    (∀ p, inPara .mid (squashAll p r) = true) ∧ inPara .bol (squashAll true r) = true := by
  induction r with
  | nil => simp [squashAll, inPara]
  | cons c t ih =>
    constructor
    · intro p
      by_cases hc : c = LF
      · cases p
        · simp [squashAll, inPara, hc, ih.2]
        · simp [squashAll, inPara, hc, ih.1, SLASH, LF]
      · have hb : (c == LF) = false := by simpa using hc
        simp [squashAll, inPara, hc, hb, ih.1]
    · by_cases hc : c = LF
      · simp [squashAll, inPara, hc, ih.1, SLASH, LF]
      · have hb : (c == LF) = false := by simpa using hc
        simp [squashAll, inPara, hc, hb, ih.1]

theorem squashAll_length (p : Bool) (r : Bytes) : (squashAll p r).length = r.length := by
  induction r generalizing p with
  | nil => simp [squashAll]
  | cons c t ih => simp [squashAll, ih]

theorem squashAll_cons (p : Bool) (c : Byte) (t : Bytes) :
    squashAll p (c :: t) = (if p && c == LF then SLASH else c) :: squashAll (c == LF) t := by
  simp [squashAll]

/-- an LF-free stretch is copied unchanged, and what follows it is scanned as after a non-LF byte -/
theorem squashAll_lffree (c : Byte) (a b : Bytes) (p : Bool) (hc : c ≠ LF) (ha : LF ∉ a) :
    squashAll p (c :: a ++ b) = c :: a ++ squashAll false b := by
  induction a generalizing c p with
  | nil =>
    have hb : (c == LF) = false := by simpa using hc
    simp [squashAll, hc, hb]
  | cons d u ih =>
    have hd : d ≠ LF := fun h => ha (by simp [h])
    have hu : LF ∉ u := fun h => ha (by simp [h])
    have hb : (c == LF) = false := by simpa using hc
    have := ih d (c == LF) hd hu
    simp only [List.cons_append] at this ⊢
    rw [squashAll_cons, this]
    simp [hb]

/-- the scan changes nothing but LF into '/' -/
theorem sanit_squashAll (p : Bool) (r : Bytes) : sanit r (squashAll p r) = true := by
  induction r generalizing p with
  | nil => simp [squashAll, sanit]
  | cons c t ih =>
    by_cases hc : c = LF
    · cases p <;> simp [squashAll, sanit, hc, ih]
    · have hb : (c == LF) = false := by simpa using hc
      simp [squashAll, sanit, hb, ih]

/-- a report without empty lines that does not start with LF is shown verbatim -/
theorem squashAll_id (r : Bytes) (p : Bool) (h1 : hasLFLF r = false) (h2 : p = true → r.head? ≠ some LF) :
    squashAll p r = r := by
  induction r generalizing p with
  | nil => simp [squashAll]
  | cons c t ih =>
    have hpc : (p && c == LF) = false := by
      cases p
      · simp
      · have := h2 rfl
        simpa using this
    have ht : hasLFLF t = false := by
      cases t with
      | nil => simp [hasLFLF]
      | cons d u => simp only [hasLFLF, Bool.or_eq_false_iff] at h1; exact h1.2
    have hh : (c == LF) = true → t.head? ≠ some LF := by
      intro hc
      cases t with
      | nil => simp
      | cons d u =>
        simp only [hasLFLF, Bool.or_eq_false_iff, Bool.and_eq_false_iff] at h1
        have hc' : c = LF := by simpa using hc
        cases h1.1 with
        | inl h => simp [hc'] at h
        | inr h => simpa using h
    simp [squashAll, hpc, ih (c == LF) ht hh]

/-! ### stripvdomprepend(): the loop order is the documented precedence -/

theorem entryFor_eq_cmLookup (es : List (Bytes × Bytes)) (k : Bytes) : entryFor es k = cmLookup es k := by
  unfold entryFor cmLookup
  induction es.reverse with
  | nil => simp [cmLookupRev]
  | cons e r ih =>
    obtain ⟨a, b⟩ := e
    by_cases h : lower a == lower k
    · simp [cmLookupRev, List.find?, h]
    · simp [cmLookupRev, List.find?, h, ih]

theorem dotSuffixes_eq (d : Bytes) :
    dotSuffixes d = (tails d).filter (fun s => s.isEmpty || s.head? == some DOT) := by
  induction d with
  | nil => simp [dotSuffixes, tails]
  | cons c r ih =>
    by_cases hc : c = DOT
    · simp [dotSuffixes, tails, hc, ih]
    · simp [dotSuffixes, tails, hc, ih]

theorem suffixKeys_eq_candidates (d : Bytes) : suffixKeys d = candidates d := by
  cases d with
  | nil => simp [suffixKeys, candidates, tails]
  | cons c r => simp [suffixKeys, candidates, tails, dotSuffixes_eq]

theorem firstHit_eq_governing (es : List (Bytes × Bytes)) (d : Bytes) :
    firstHit es (suffixKeys d) = governing es d := by
  unfold governing
  rw [← suffixKeys_eq_candidates]
  induction suffixKeys d with
  | nil => simp [firstHit]
  | cons k ks ih =>
    simp only [firstHit, List.findSome?, entryFor_eq_cmLookup]
    cases cmLookup es k <;> simp [ih]

theorem domainOf_eq_domainPart (a : Bytes) : domainOf a = domainPart a := by
  unfold domainPart
  induction a with
  | nil => simp [domainOf, tails]
  | cons c r ih =>
    simp only [domainOf, tails, List.reverse_cons, List.find?_append]
    rw [ih]
    cases h : List.find? (fun s => s.head? == some AT) (tails r).reverse with
    | some s => simp
    | none =>
      by_cases hc : c = AT
      · simp [hc]
      · simp [hc]

theorem cmMember_eq_isLocal (ls : List Bytes) (d : Bytes) : cmMember ls d = isLocal ls d := by
  unfold isLocal
  induction ls with
  | nil => simp [cmMember]
  | cons l r ih => simp [cmMember, ih]

theorem userCut_dash (es : List (Bytes × Bytes)) (pre t : Bytes) :
    userCut es (pre, 45 :: t) = match cmLookup es t with
      | some p => if !p.isEmpty && p == pre then some t else none
      | none => none := by
  unfold userCut
  simp only [entryFor_eq_cmLookup]
  cases cmLookup es t <;> rfl

theorem userCut_other (es : List (Bytes × Bytes)) (pre t : Bytes) (c : Byte) (hc : c ≠ 45) :
    userCut es (pre, c :: t) = none := by
  unfold userCut
  split
  · rename_i rest heq
    simp at heq
    exact absurd heq.1 hc
  · rfl

theorem userCut_nil (es : List (Bytes × Bytes)) (pre : Bytes) : userCut es (pre, []) = none := by
  simp [userCut]

/-- the virtual-user loop finds the first cut the spec describes -/
theorem userStripGo_eq (es : List (Bytes × Bytes)) (pre r : Bytes) :
    userStripGo es pre r = ((splits r).map (fun x => (pre ++ x.1, x.2))).findSome? (userCut es) := by
  induction r generalizing pre with
  | nil => simp [userStripGo, splits]
  | cons c t ih =>
    have hmap : (List.map (fun x => (pre ++ x.1, x.2)) (List.map (fun x => (c :: x.1, x.2)) (splits t)))
        = List.map (fun x => ((pre ++ [c]) ++ x.1, x.2)) (splits t) := by
      simp [List.map_map, Function.comp_def]
    simp only [splits, List.map_cons, List.findSome?_cons, List.append_nil, hmap, ← ih (pre ++ [c])]
    by_cases hc : c = DASH
    · subst hc
      have := userCut_dash es pre t
      simp only [DASH] at this ⊢
      rw [this]
      simp only [userStripGo, DASH, if_true]
      cases hl : cmLookup es t with
      | none => rfl
      | some p =>
        by_cases hp : (!p.isEmpty && p == pre) = true
        · simp [hp]
        · have hp' : (!p.isEmpty && p == pre) = false := by simpa using hp
          simp [hp']
    · rw [userCut_other es pre t c hc]
      simp [userStripGo, hc]

/-- dashes are the only places the virtual-user loop looks at -/
theorem userStripGo_skip (es : List (Bytes × Bytes)) (pre p r : Bytes) (h : DASH ∉ p) :
    userStripGo es pre (p ++ r) = userStripGo es (pre ++ p) r := by
  induction p generalizing pre with
  | nil => simp
  | cons c t ih =>
    have hc : c ≠ DASH := fun e => h (by simp [e])
    have ht : DASH ∉ t := fun e => h (by simp [e])
    simp only [List.cons_append, userStripGo, hc, if_false]
    rw [ih (pre ++ [c]) ht]
    simp

theorem userStripGo_eq_userSplit (es : List (Bytes × Bytes)) (recip : Bytes) :
    userStripGo es [] recip = userSplit es recip := by
  rw [userStripGo_eq]
  unfold userSplit
  simp

/-- the loops of `stripvdomprepend` compute the local-channel rule -/
theorem stripvdom_eq_named (t : Tables) (recip : Bytes) :
    stripvdom t recip = namedRecipient true t.locals t.vdoms recip := by
  unfold stripvdom namedRecipient prefixUndone
  rw [domainOf_eq_domainPart]
  simp only [Bool.not_true, Bool.false_eq_true, if_false]
  cases domainPart recip with
  | none => rfl
  | some d =>
    simp only [firstHit_eq_governing, cmMember_eq_isLocal, userStripGo_eq_userSplit]
    split
    · rfl
    · cases userSplit t.vdoms recip with
      | some r => rfl
      | none => cases governing t.vdoms d <;> rfl

/-- what `addbounce` names is what the channel-aware rule demands -/
theorem nameOf_eq_named (t : Tables) (fl : Bool) (recip : Bytes) :
    nameOf t fl recip = namedRecipient fl t.locals t.vdoms recip := by
  cases fl with
  | true => simp only [nameOf, if_true]; exact stripvdom_eq_named t recip
  | false => simp [nameOf, namedRecipient]

/-! ### the literal in-place loop equals the forward pass -/

theorem scanAt_get (s : Bytes) (pos i : Nat) :
    (scanAt s pos)[i]? = if i = pos ∧ s[pos]? = some LF ∧ s[pos - 1]? = some LF then some SLASH else s[i]? := by
  unfold scanAt
  by_cases h : s[pos]? = some LF ∧ s[pos - 1]? = some LF
  · simp only [h, and_self, if_true, and_true]
    rw [List.getElem?_set]
    by_cases hi : pos = i
    · subst hi
      have : pos < s.length := by
        have := h.1
        rcases Nat.lt_or_ge pos s.length with hl | hl
        · exact hl
        · rw [List.getElem?_eq_none hl] at this; cases this
      simp [this]
    · have : ¬ i = pos := fun e => hi e.symm
      simp [hi, this]
  · simp [h]

theorem scanDown_get (n : Nat) (s : Bytes) (i : Nat) :
    (scanDown n s)[i]? =
      if 1 ≤ i ∧ i ≤ n ∧ s[i]? = some LF ∧ s[i - 1]? = some LF then some SLASH else s[i]? := by
  induction n generalizing s with
  | zero =>
    simp only [scanDown]
    have : ¬ (1 ≤ i ∧ i ≤ 0 ∧ s[i]? = some LF ∧ s[i - 1]? = some LF) := by omega
    rw [if_neg this]
  | succ n ih =>
    simp only [scanDown]
    rw [ih]
    by_cases hi : i ≤ n
    · have h1 : ¬ i = n + 1 := by omega
      have h2 : ¬ i - 1 = n + 1 := by omega
      have h3 : i ≤ n + 1 := by omega
      simp [scanAt_get, h1, h2, hi, h3]
    · by_cases he : i = n + 1
      · subst he
        have h1 : ¬ (n + 1 ≤ n) := by omega
        simp [scanAt_get, h1]
      · have h1 : ¬ i ≤ n + 1 := by omega
        simp [scanAt_get, hi, he, h1]

theorem scanFrom_get (p : Bool) (s : Bytes) (i : Nat) :
    (scanFrom p s)[i]? =
      if i + 1 < s.length ∧ s[i]? = some LF ∧ (if i = 0 then p = true else s[i - 1]? = some LF)
      then some SLASH else s[i]? := by
  induction s generalizing p i with
  | nil => simp [scanFrom]
  | cons c t ih =>
    cases t with
    | nil =>
      have : ¬ (i + 1 < 1) := by omega
      simp [scanFrom, this]
    | cons d u =>
      simp only [scanFrom]
      cases i with
      | zero =>
        by_cases hc : c = LF <;> cases p <;> simp [hc]
      | succ j =>
        simp only [List.getElem?_cons_succ]
        rw [ih]
        cases j with
        | zero =>
          by_cases hc : c = LF <;> simp [hc]
        | succ k => simp

theorem scanInPlace_eq (s : Bytes) : scanInPlace s = scanFrom false s := by
  apply List.ext_getElem?
  intro i
  unfold scanInPlace
  rw [scanDown_get, scanFrom_get]
  by_cases h0 : i = 0
  · subst h0; simp
  · have e1 : (1 ≤ i ∧ i ≤ s.length - 2 ∧ s[i]? = some LF ∧ s[i - 1]? = some LF) ↔
        (i + 1 < s.length ∧ s[i]? = some LF ∧ s[i - 1]? = some LF) := by
      constructor
      · intro ⟨_, h2, h3, h4⟩
        have : i < s.length := by
          rcases Nat.lt_or_ge i s.length with hl | hl
          · exact hl
          · rw [List.getElem?_eq_none hl] at h3; cases h3
        exact ⟨by omega, h3, h4⟩
      · intro ⟨h1, h3, h4⟩
        exact ⟨by omega, by omega, h3, h4⟩
    simp only [h0, if_false]
    by_cases hc : (i + 1 < s.length ∧ s[i]? = some LF ∧ s[i - 1]? = some LF)
    · rw [if_pos (e1.mpr hc), if_pos hc]
    · rw [if_neg (fun h => hc (e1.mp h)), if_neg hc]

/-! ### addbounce(): closed form of the text and its paragraph structure -/

/-- the report without one final LF -/
def chomp1 (r : Bytes) : Bytes := if r.getLast? = some LF then r.dropLast else r

/-- the name as it is shown: LF as '_' -/
def shown (name : Bytes) : Bytes := (name).map lf2us

/-- everything `addbounce` writes except the two final LFs, before the scan -/
def rawPara (name report : Bytes) : Bytes :=
  LANGLE :: (shown name ++ [RANGLE, COLON] ++ (if report = [] then [] else LF :: chomp1 report))

theorem getLast_split (r : Bytes) (h : r.getLast? = some LF) : r = r.dropLast ++ [LF] := by
  induction r with
  | nil => simp at h
  | cons c t ih =>
    cases t with
    | nil => simp at h; simp [h]
    | cons d u =>
      have : (d :: u).getLast? = some LF := by simpa [List.getLast?_cons_cons] using h
      have := ih this
      simp only [List.dropLast_cons₂, List.cons_append]
      rw [← this]

theorem lf2us_langle : lf2us LANGLE = LANGLE := by simp [lf2us, LANGLE, LF]

theorem addbounceText_form (name report : Bytes) :
    addbounceNamed name report = squashAll false (rawPara name report) ++ [LF, LF] := by
  have key : ∀ t4, t4 = rawPara name report ++ [LF] →
      scanFrom false t4 ++ [LF] = squashAll false (rawPara name report) ++ [LF, LF] := by
    intro t4 h
    rw [h, scanFrom_snoc]
    simp
  unfold addbounceNamed
  apply key
  by_cases hr : report = []
  · simp [hr, rawPara, shown, lf2us_langle]
  · have he : report.isEmpty = false := by simpa using hr
    by_cases hl : report.getLast? = some LF
    · have hsp := getLast_split report hl
      have hb : (report.getLast? != some LF) = false := by simp [hl]
      simp only [he, hb, rawPara, shown, chomp1, hr, hl, if_true, if_false, Bool.not_false, Bool.true_and,
        Bool.false_eq_true, List.map_cons, List.cons_append, List.append_assoc, lf2us_langle]
      conv => lhs; rw [hsp]
      simp
    · have hb : (report.getLast? != some LF) = true := by simpa using hl
      simp [he, hb, hl, rawPara, shown, chomp1, hr, lf2us_langle]

theorem lf_not_mem_shown (name : Bytes) : LF ∉ shown name := by
  unfold shown
  intro h
  rw [List.mem_map] at h
  obtain ⟨a, _, ha⟩ := h
  unfold lf2us at ha
  by_cases hc : a = LF
  · simp [hc, USCORE, LF] at ha
  · simp [hc] at ha

theorem lf_not_mem_hdr (name : Bytes) : LF ∉ shown name ++ [RANGLE, COLON] := by
  intro h
  rw [List.mem_append] at h
  cases h with
  | inl h => exact lf_not_mem_shown name h
  | inr h => simp [RANGLE, COLON, LF] at h

theorem recipLine_eq (name : Bytes) :
    recipLine (name) = LANGLE :: (shown name ++ [RANGLE, COLON]) ++ [LF] := by
  have : (fun c : Byte => if c = LF then (95 : Byte) else c) = lf2us := by
    funext c; simp [lf2us, USCORE]
  simp [recipLine, shown, this, LANGLE, RANGLE, COLON]

/-- the scanned text for an empty report: just `<recipient>:` -/
theorem scanned_nil (name : Bytes) :
    squashAll false (rawPara name []) = LANGLE :: (shown name ++ [RANGLE, COLON]) := by
  have := squashAll_lffree LANGLE (shown name ++ [RANGLE, COLON]) [] false (by simp [LANGLE, LF]) (lf_not_mem_hdr name)
  simpa [rawPara, squashAll] using this

/-- the scanned text for a non-empty report: recipient line, then the report (minus one final LF)
with every LF that follows an LF shown as '/' -/
theorem scanned_cons (name report : Bytes) (hr : report ≠ []) :
    squashAll false (rawPara name report) = recipLine (name) ++ squashAll true (chomp1 report) := by
  have := squashAll_lffree LANGLE (shown name ++ [RANGLE, COLON]) (LF :: chomp1 report) false (by simp [LANGLE, LF]) (lf_not_mem_hdr name)
  have e : rawPara name report = LANGLE :: (shown name ++ [RANGLE, COLON]) ++ LF :: chomp1 report := by
    simp [rawPara, hr]
  rw [e, this, recipLine_eq, squashAll_cons]
  simp

/-- `addbounce` writes: the recipient line, the report with every LF that follows an LF shown as
'/', and one empty line (two if the report ended in an empty line of its own) -/
theorem addbounceText_shape (name report : Bytes) :
    addbounceNamed name report =
      recipLine (name) ++ squashAll true (chomp1 report)
        ++ (if report = [] then [LF] else [LF, LF]) := by
  rw [addbounceText_form]
  by_cases hr : report = []
  · subst hr
    rw [scanned_nil, recipLine_eq]
    simp [chomp1, squashAll]
  · rw [scanned_cons name report hr]
    simp [hr]

theorem endSt_lffree (a : Bytes) (s : PSt) (hm : LF ∉ a) (hne : a ≠ []) : endSt s a = .mid := by
  induction a generalizing s with
  | nil => exact absurd rfl hne
  | cons c t ih =>
    have hc : c ≠ LF := fun h => hm (by simp [h])
    have ht : LF ∉ t := fun h => hm (by simp [h])
    cases t with
    | nil => cases s <;> simp [endSt, hc]
    | cons d u => cases s <;> simp [endSt, hc, ih .mid ht (by simp)]

/-- the paragraph a reader sees for one `addbounce` call -/
def paraCore (name report : Bytes) : Bytes :=
  if endSt .blank (squashAll false (rawPara name report)) = .bol
  then squashAll false (rawPara name report)
  else squashAll false (rawPara name report) ++ [LF]

theorem inPara_rawPara (name report : Bytes) :
    inPara .blank (squashAll false (rawPara name report)) = true := by
  unfold rawPara
  rw [squashAll_cons]
  simp [inPara, (inPara_squashAll _).1, LANGLE, LF]

theorem scanned_ne (name report : Bytes) :
    squashAll false (rawPara name report) ≠ [] := by
  unfold rawPara; rw [squashAll_cons]; simp

/-- **One call, one paragraph**, whatever follows in the file. -/
theorem paras_addbounceText (name report rest : Bytes) :
    paras .blank (addbounceNamed name report ++ rest) = paraCore name report :: paras .blank rest := by
  rw [addbounceText_form]
  have hin := inPara_rawPara name report
  have hne := scanned_ne name report
  have hend := endSt_inPara _ .blank hin hne
  have := paras_inPara (squashAll false (rawPara name report)) (LF :: LF :: rest) .blank hin (Or.inr hne)
  simp only [List.append_assoc, List.cons_append, List.nil_append]
  rw [this]
  unfold paraCore
  cases h : endSt .blank (squashAll false (rawPara name report)) with
  | blank => exact absurd h hend
  | bol => simp [paras, pprep]
  | mid => simp [paras, pprep, pcons]

theorem paras_bounceFile (es : Tables) (fails : List Fail) (rest : Bytes) :
    paras .blank (bounceFile es fails ++ rest)
      = fails.map (fun f => paraCore (nameOf es f.1 f.2.1) f.2.2) ++ paras .blank rest := by
  induction fails with
  | nil => simp [bounceFile]
  | cons f fs ih =>
    obtain ⟨fl, r, t⟩ := f
    simp only [bounceFile, addbounceText, List.append_assoc, paras_addbounceText, ih, List.map_cons, List.cons_append]

/-- the paragraph is what was written minus the final empty line(s) -/
theorem paraCore_prefix (name report : Bytes) :
    addbounceNamed name report = paraCore name report ++ [LF] ∨
    addbounceNamed name report = paraCore name report ++ [LF, LF] := by
  rw [addbounceText_form]
  unfold paraCore
  by_cases h : endSt .blank (squashAll false (rawPara name report)) = .bol
  · right; simp [h]
  · left; simp [h]

/-- for an empty report the paragraph is the recipient line alone -/
theorem paraCore_nil (name : Bytes) :
    paraCore name [] = recipLine (name) := by
  unfold paraCore
  rw [scanned_nil, recipLine_eq]
  have hm : LF ∉ LANGLE :: (shown name ++ [RANGLE, COLON]) := by
    intro h
    rw [List.mem_cons] at h
    cases h with
    | inl h => simp [LANGLE, LF] at h
    | inr h => exact lf_not_mem_hdr name h
  rw [endSt_lffree _ .blank hm (by simp)]
  simp

/-- the paragraph starts with the recipient line -/
theorem recipLine_prefix_paraCore (name report : Bytes) :
    recipLine (name) <+: paraCore name report := by
  by_cases hr : report = []
  · subst hr; rw [paraCore_nil]; exact List.prefix_refl _
  · unfold paraCore
    rw [scanned_cons name report hr]
    split
    · exact ⟨_, rfl⟩
    · exact ⟨squashAll true (chomp1 report) ++ [LF], by simp⟩

theorem namedInOrder_cores (es : Tables) (fails : List Fail) :
    NamedInOrder es.locals es.vdoms fails (fails.map (fun f => paraCore (nameOf es f.1 f.2.1) f.2.2)) := by
  induction fails with
  | nil => simp [NamedInOrder]
  | cons f fs ih =>
    simp only [List.map_cons, NamedInOrder]
    refine ⟨?_, ih⟩
    rw [← nameOf_eq_named]
    exact recipLine_prefix_paraCore _ f.2.2

theorem paragraphs_bounceFile (es : Tables) (fails : List Fail) :
    paragraphs (bounceFile es fails) = fails.map (fun f => paraCore (nameOf es f.1 f.2.1) f.2.2) := by
  have := paras_bounceFile es fails []
  simpa [paragraphs, paras] using this

/-- the last '@' of `x ++ a` is the last '@' of `a` when `a` has one -/
theorem domainOf_append (x a d : Bytes) (h : domainOf a = some d) : domainOf (x ++ a) = some d := by
  induction x with
  | nil => simpa using h
  | cons c t ih => simp [domainOf, ih]

/-! ### control_readline = the documented first line -/

theorem dropWhile_congr_mem {p q : Byte → Bool} (l : Bytes) (h : ∀ c ∈ l, p c = q c) :
    l.dropWhile p = l.dropWhile q := by
  induction l with
  | nil => rfl
  | cons c t ih =>
    have hc := h c (List.mem_cons_self ..)
    have ht := ih (fun x hx => h x (List.mem_cons_of_mem _ hx))
    simp only [List.dropWhile_cons, hc, ht]

theorem firstLine_eq (f : Bytes) :
    firstLine f = f.takeWhile (· != LF) ++ (if LF ∈ f then [LF] else []) := by
  induction f with
  | nil => simp [firstLine]
  | cons c r ih =>
    by_cases hc : c = LF
    · simp [firstLine, hc]
    · have : (LF = c) = False := by simp; exact fun e => hc e.symm
      simp [firstLine, hc, ih, List.takeWhile_cons, this]

theorem takeWhile_no_lf (f : Bytes) : LF ∉ f.takeWhile (· != LF) := by
  induction f with
  | nil => simp
  | cons c r ih =>
    by_cases hc : c = LF
    · simp [List.takeWhile_cons, hc]
    · have hne : ¬ LF = c := fun e => hc e.symm
      simp [List.takeWhile_cons, hc, hne]
      exact ih

theorem stripTrail_snoc_lf (x : Bytes) : stripTrail (x ++ [LF]) = stripTrail x := by
  simp [stripTrail, isTrailWs]

theorem stripTrail_no_lf (x : Bytes) (h : LF ∉ x) : stripTrail x = rstripBlank x := by
  unfold stripTrail rstripBlank
  congr 1
  apply dropWhile_congr_mem
  intro c hc
  have : c ≠ LF := fun e => h (by rw [← e]; simpa using hc)
  have hb : (c == LF) = false := by simpa using this
  simp [isTrailWs, hb]

/-- `control_readline` on an existing file is the documented "first line, trailing blanks removed" -/
theorem readline_eq_spec (f : Bytes) : readline f = specFirstLine f := by
  unfold readline specFirstLine
  rw [firstLine_eq]
  by_cases h : LF ∈ f
  · simp only [h, if_true, stripTrail_snoc_lf]
    exact stripTrail_no_lf _ (takeWhile_no_lf f)
  · simp only [h, if_false, List.append_nil]
    exact stripTrail_no_lf _ (takeWhile_no_lf f)

end Nq.Lemmas.Bounce
