/-
  Lemmas about `Nq.Bounce` (model of qmail-send.c's bounce code) and `Nq.BounceSpec` (paragraph
  reader, governing virtualdomains entry).  Used by `Nq/Props/C14.lean`.
-/
import Nq.Bounce
import Nq.Spec.BounceSpec

namespace Nq.Lemmas.Bounce
open Nq Nq.Bounce Nq.BounceSpec

/-! ### the paragraph reader -/

/-- put a run of bytes in front of the current paragraph -/
def pprep (x : Bytes) : List Bytes → List Bytes
  | [] => [x]
  | p :: ps => (x ++ p) :: ps

theorem pcons_eq_pprep (c : Byte) (l : List Bytes) : pcons c l = pprep [c] l := by
  cases l <;> simp [pcons, pprep]

theorem pprep_nil {l : List Bytes} (h : l ≠ []) : pprep [] l = l := by
  cases l with
  | nil => exact absurd rfl h
  | cons p ps => simp [pprep]

theorem pcons_pprep (c : Byte) (x : Bytes) (l : List Bytes) : pcons c (pprep x l) = pprep (c :: x) l := by
  cases l <;> simp [pcons, pprep]

theorem pprep_ne (x : Bytes) (l : List Bytes) : pprep x l ≠ [] := by
  cases l <;> simp [pprep]

theorem pcons_ne (c : Byte) (l : List Bytes) : pcons c l ≠ [] := by
  cases l <;> simp [pcons]

theorem paras_ne (s : PSt) (t : Bytes) (h : s ≠ .blank) : paras s t ≠ [] := by
  cases t with
  | nil => cases s <;> simp_all [paras]
  | cons c t =>
    cases s with
    | blank => exact absurd rfl h
    | bol => by_cases hc : c = LF <;> simp [paras, hc, pcons_ne]
    | mid => by_cases hc : c = LF <;> simp [paras, hc, pcons_ne]

/-- reading `x` from state `s` never ends the paragraph being read (nor skips a blank line) -/
def inPara : PSt → Bytes → Bool
  | _, [] => true
  | .blank, c :: t => c != LF && inPara .mid t
  | .mid, c :: t => if c = LF then inPara .bol t else inPara .mid t
  | .bol, c :: t => c != LF && inPara .mid t

/-- Reading a run that stays inside the paragraph prepends it to the current paragraph. -/
theorem paras_inPara (x y : Bytes) (s : PSt) (h : inPara s x = true) (hs : s ≠ .blank ∨ x ≠ []) :
    paras s (x ++ y) = pprep x (paras (endSt s x) y) := by
  induction x generalizing s with
  | nil =>
    have hs' : s ≠ .blank := by
      cases hs with
      | inl h => exact h
      | inr h => exact absurd rfl h
    simp [endSt, pprep_nil (paras_ne s y hs')]
  | cons c t ih =>
    cases s with
    | blank =>
      simp only [inPara, Bool.and_eq_true, bne_iff_ne, ne_eq] at h
      have := ih .mid h.2 (Or.inl (by simp))
      simp [paras, endSt, h.1, this, pcons_pprep]
    | bol =>
      simp only [inPara, Bool.and_eq_true, bne_iff_ne, ne_eq] at h
      have := ih .mid h.2 (Or.inl (by simp))
      simp [paras, endSt, h.1, this, pcons_pprep]
    | mid =>
      by_cases hc : c = LF
      · simp only [inPara, hc, if_true] at h
        have := ih .bol h (Or.inl (by simp))
        simp [paras, endSt, hc, this, pcons_pprep]
      · simp only [inPara, hc, if_false] at h
        have := ih .mid h (Or.inl (by simp))
        simp [paras, endSt, hc, this, pcons_pprep]

/-- after a non-empty run inside a paragraph the reader is not in the `blank` state -/
theorem endSt_inPara (x : Bytes) (s : PSt) (h : inPara s x = true) (hx : x ≠ []) : endSt s x ≠ .blank := by
  induction x generalizing s with
  | nil => exact absurd rfl hx
  | cons c t ih =>
    cases t with
    | nil =>
      cases s <;> by_cases hc : c = LF <;> simp_all [inPara, endSt]
    | cons d u =>
      cases s with
      | blank =>
        simp only [inPara, Bool.and_eq_true, bne_iff_ne, ne_eq] at h
        simpa [endSt, h.1] using ih .mid (by simpa [inPara] using h.2) (by simp)
      | bol =>
        simp only [inPara, Bool.and_eq_true, bne_iff_ne, ne_eq] at h
        simpa [endSt, h.1] using ih .mid (by simpa [inPara] using h.2) (by simp)
      | mid =>
        by_cases hc : c = LF
        · simp only [inPara, hc, if_true] at h
          simpa [endSt, hc] using ih .bol h (by simp)
        · simp only [inPara, hc, if_false] at h
          simpa [endSt, hc] using ih .mid h (by simp)

theorem endSt_append (x y : Bytes) (s : PSt) : endSt s (x ++ y) = endSt (endSt s x) y := by
  induction x generalizing s with
  | nil => simp [endSt]
  | cons c t ih => cases s <;> simp [endSt, ih]

/-- after an empty line the reader is between paragraphs, whatever came before -/
theorem endSt_LFLF (x : Bytes) (s : PSt) : endSt s (x ++ [LF, LF]) = .blank := by
  rw [endSt_append]
  cases endSt s x <;> simp [endSt]

/-- a text that ends between paragraphs can be read separately from what follows -/
theorem paras_append_blank (x y : Bytes) (s : PSt) (h : endSt s x = .blank) :
    paras s (x ++ y) = paras s x ++ paras .blank y := by
  induction x generalizing s with
  | nil => simp only [endSt] at h; subst h; simp [paras]
  | cons c t ih =>
    have pc : ∀ (b : Byte) (l1 l2 : List Bytes), l1 ≠ [] → pcons b (l1 ++ l2) = pcons b l1 ++ l2 := by
      intro b l1 l2 hl
      cases l1 with
      | nil => exact absurd rfl hl
      | cons p ps => simp [pcons]
    cases s with
    | blank =>
      by_cases hc : c = LF
      · simp only [endSt, hc, if_true] at h
        simp [paras, hc, ih .blank h]
      · simp only [endSt, hc, if_false] at h
        simp [paras, hc, ih .mid h, pc _ _ _ (paras_ne .mid t (by simp))]
    | bol =>
      by_cases hc : c = LF
      · simp only [endSt, hc, if_true] at h
        simp [paras, hc, ih .blank h]
      · simp only [endSt, hc, if_false] at h
        simp [paras, hc, ih .mid h, pc _ _ _ (paras_ne .mid t (by simp))]
    | mid =>
      by_cases hc : c = LF
      · simp only [endSt, hc, if_true] at h
        simp [paras, hc, ih .bol h, pc _ _ _ (paras_ne .bol t (by simp))]
      · simp only [endSt, hc, if_false] at h
        simp [paras, hc, ih .mid h, pc _ _ _ (paras_ne .mid t (by simp))]

/-! ### the scan of addbounce() -/

theorem scanFrom_snoc (a : Bytes) (l : Byte) (p : Bool) : scanFrom p (a ++ [l]) = squashAll p a ++ [l] := by
  induction a generalizing p with
  | nil => simp [scanFrom, squashAll]
  | cons c t ih =>
    cases t with
    | nil => simp [scanFrom, squashAll]
    | cons d u =>
      have := ih (c == LF)
      simp only [List.cons_append] at this ⊢
      simp [scanFrom, squashAll, this]

/-- the scanned text never leaves its paragraph: no LF directly after an LF survives -/
theorem inPara_squashAll (r : Bytes) :
    (∀ p, inPara .mid (squashAll p r) = true) ∧ inPara .bol (squashAll true r) = true := by
  induction r with
  | nil => simp [squashAll, inPara]
  | cons c t ih =>
    constructor
    · intro p
      by_cases hc : c = LF
      · cases p
        · simp [squashAll, inPara, hc, ih.2]
        · simp [squashAll, inPara, hc, ih.1, SLASH, LF]
      · have hb : (c == LF) = false := by simpa using hc
        simp [squashAll, inPara, hc, hb, ih.1]
    · by_cases hc : c = LF
      · simp [squashAll, inPara, hc, ih.1, SLASH, LF]
      · have hb : (c == LF) = false := by simpa using hc
        simp [squashAll, inPara, hc, hb, ih.1]

theorem squashAll_length (p : Bool) (r : Bytes) : (squashAll p r).length = r.length := by
  induction r generalizing p with
  | nil => simp [squashAll]
  | cons c t ih => simp [squashAll, ih]

theorem squashAll_cons (p : Bool) (c : Byte) (t : Bytes) :
    squashAll p (c :: t) = (if p && c == LF then SLASH else c) :: squashAll (c == LF) t := by
  simp [squashAll]

/-- an LF-free stretch is copied unchanged, and what follows it is scanned as after a non-LF byte -/
theorem squashAll_lffree (c : Byte) (a b : Bytes) (p : Bool) (hc : c ≠ LF) (ha : LF ∉ a) :
    squashAll p (c :: a ++ b) = c :: a ++ squashAll false b := by
  induction a generalizing c p with
  | nil =>
    have hb : (c == LF) = false := by simpa using hc
    simp [squashAll, hc, hb]
  | cons d u ih =>
    have hd : d ≠ LF := fun h => ha (by simp [h])
    have hu : LF ∉ u := fun h => ha (by simp [h])
    have hb : (c == LF) = false := by simpa using hc
    have := ih d (c == LF) hd hu
    simp only [List.cons_append] at this ⊢
    rw [squashAll_cons, this]
    simp [hb]

/-- the scan changes nothing but LF into '/' -/
theorem sanit_squashAll (p : Bool) (r : Bytes) : sanit r (squashAll p r) = true := by
  induction r generalizing p with
  | nil => simp [squashAll, sanit]
  | cons c t ih =>
    by_cases hc : c = LF
    · cases p <;> simp [squashAll, sanit, hc, ih]
    · have hb : (c == LF) = false := by simpa using hc
      simp [squashAll, sanit, hb, ih]

/-- a report without empty lines that does not start with LF is shown verbatim -/
theorem squashAll_id (r : Bytes) (p : Bool) (h1 : hasLFLF r = false) (h2 : p = true → r.head? ≠ some LF) :
    squashAll p r = r := by
  induction r generalizing p with
  | nil => simp [squashAll]
  | cons c t ih =>
    have hpc : (p && c == LF) = false := by
      cases p
      · simp
      · have := h2 rfl
        simpa using this
    have ht : hasLFLF t = false := by
      cases t with
      | nil => simp [hasLFLF]
      | cons d u => simp only [hasLFLF, Bool.or_eq_false_iff] at h1; exact h1.2
    have hh : (c == LF) = true → t.head? ≠ some LF := by
      intro hc
      cases t with
      | nil => simp
      | cons d u =>
        simp only [hasLFLF, Bool.or_eq_false_iff, Bool.and_eq_false_iff] at h1
        have hc' : c = LF := by simpa using hc
        cases h1.1 with
        | inl h => simp [hc'] at h
        | inr h => simpa using h
    simp [squashAll, hpc, ih (c == LF) ht hh]

/-! ### stripvdomprepend(): the loop order is the documented precedence -/

theorem entryFor_eq_cmLookup (es : List (Bytes × Bytes)) (k : Bytes) : entryFor es k = cmLookup es k := by
  unfold entryFor cmLookup
  induction es.reverse with
  | nil => simp [cmLookupRev]
  | cons e r ih =>
    obtain ⟨a, b⟩ := e
    by_cases h : lower a == lower k
    · simp [cmLookupRev, List.find?, h]
    · simp [cmLookupRev, List.find?, h, ih]

theorem dotSuffixes_eq (d : Bytes) :
    dotSuffixes d = (tails d).filter (fun s => s.isEmpty || s.head? == some DOT) := by
  induction d with
  | nil => simp [dotSuffixes, tails]
  | cons c r ih =>
    by_cases hc : c = DOT
    · simp [dotSuffixes, tails, hc, ih]
    · simp [dotSuffixes, tails, hc, ih]

theorem suffixKeys_eq_candidates (d : Bytes) : suffixKeys d = candidates d := by
  cases d with
  | nil => simp [suffixKeys, candidates, tails]
  | cons c r => simp [suffixKeys, candidates, tails, dotSuffixes_eq]

theorem firstHit_eq_governing (es : List (Bytes × Bytes)) (d : Bytes) :
    firstHit es (suffixKeys d) = governing es d := by
  unfold governing
  rw [← suffixKeys_eq_candidates]
  induction suffixKeys d with
  | nil => simp [firstHit]
  | cons k ks ih =>
    simp only [firstHit, List.findSome?, entryFor_eq_cmLookup]
    cases cmLookup es k <;> simp [ih]

theorem domainOf_eq_domainPart (a : Bytes) : domainOf a = domainPart a := by
  unfold domainPart
  induction a with
  | nil => simp [domainOf, tails]
  | cons c r ih =>
    simp only [domainOf, tails, List.reverse_cons, List.find?_append]
    rw [ih]
    cases h : List.find? (fun s => s.head? == some AT) (tails r).reverse with
    | some s => simp
    | none =>
      by_cases hc : c = AT
      · simp [hc]
      · simp [hc]

theorem stripvdom_eq_named (es : List (Bytes × Bytes)) (recip : Bytes) :
    stripvdom es recip = namedRecipient es recip := by
  unfold stripvdom namedRecipient
  rw [domainOf_eq_domainPart]
  cases domainPart recip with
  | none => rfl
  | some d =>
    simp only [firstHit_eq_governing]
    cases governing es d <;> rfl

/-! ### addbounce(): closed form of the text and its paragraph structure -/

/-- the report without one final LF -/
def chomp1 (r : Bytes) : Bytes := if r.getLast? = some LF then r.dropLast else r

/-- the recipient as it is shown: prefix removed, LF as '_' -/
def shown (es : List (Bytes × Bytes)) (recip : Bytes) : Bytes := (stripvdom es recip).map lf2us

/-- everything `addbounce` writes except the two final LFs, before the scan -/
def rawPara (es : List (Bytes × Bytes)) (recip report : Bytes) : Bytes :=
  LANGLE :: (shown es recip ++ [RANGLE, COLON] ++ (if report = [] then [] else LF :: chomp1 report))

theorem getLast_split (r : Bytes) (h : r.getLast? = some LF) : r = r.dropLast ++ [LF] := by
  induction r with
  | nil => simp at h
  | cons c t ih =>
    cases t with
    | nil => simp at h; simp [h]
    | cons d u =>
      have : (d :: u).getLast? = some LF := by simpa [List.getLast?_cons_cons] using h
      have := ih this
      simp only [List.dropLast_cons₂, List.cons_append]
      rw [← this]

theorem lf2us_langle : lf2us LANGLE = LANGLE := by simp [lf2us, LANGLE, LF]

theorem addbounceText_form (es : List (Bytes × Bytes)) (recip report : Bytes) :
    addbounceText es recip report = squashAll false (rawPara es recip report) ++ [LF, LF] := by
  have key : ∀ t4, t4 = rawPara es recip report ++ [LF] →
      scanFrom false t4 ++ [LF] = squashAll false (rawPara es recip report) ++ [LF, LF] := by
    intro t4 h
    rw [h, scanFrom_snoc]
    simp
  unfold addbounceText
  apply key
  by_cases hr : report = []
  · simp [hr, rawPara, shown, lf2us_langle]
  · have he : report.isEmpty = false := by simpa using hr
    by_cases hl : report.getLast? = some LF
    · have hsp := getLast_split report hl
      have hb : (report.getLast? != some LF) = false := by simp [hl]
      simp only [he, hb, rawPara, shown, chomp1, hr, hl, if_true, if_false, Bool.not_false, Bool.true_and,
        Bool.false_eq_true, List.map_cons, List.cons_append, List.append_assoc, lf2us_langle]
      conv => lhs; rw [hsp]
      simp
    · have hb : (report.getLast? != some LF) = true := by simpa using hl
      simp [he, hb, hl, rawPara, shown, chomp1, hr, lf2us_langle]

theorem lf_not_mem_shown (es : List (Bytes × Bytes)) (recip : Bytes) : LF ∉ shown es recip := by
  unfold shown
  intro h
  rw [List.mem_map] at h
  obtain ⟨a, _, ha⟩ := h
  unfold lf2us at ha
  by_cases hc : a = LF
  · simp [hc, USCORE, LF] at ha
  · simp [hc] at ha

theorem lf_not_mem_hdr (es : List (Bytes × Bytes)) (recip : Bytes) : LF ∉ shown es recip ++ [RANGLE, COLON] := by
  intro h
  rw [List.mem_append] at h
  cases h with
  | inl h => exact lf_not_mem_shown es recip h
  | inr h => simp [RANGLE, COLON, LF] at h

theorem recipLine_eq (es : List (Bytes × Bytes)) (recip : Bytes) :
    recipLine (stripvdom es recip) = LANGLE :: (shown es recip ++ [RANGLE, COLON]) ++ [LF] := by
  have : (fun c : Byte => if c = LF then (95 : Byte) else c) = lf2us := by
    funext c; simp [lf2us, USCORE]
  simp [recipLine, shown, this, LANGLE, RANGLE, COLON]

/-- the scanned text for an empty report: just `<recipient>:` -/
theorem scanned_nil (es : List (Bytes × Bytes)) (recip : Bytes) :
    squashAll false (rawPara es recip []) = LANGLE :: (shown es recip ++ [RANGLE, COLON]) := by
  have := squashAll_lffree LANGLE (shown es recip ++ [RANGLE, COLON]) [] false (by simp [LANGLE, LF]) (lf_not_mem_hdr es recip)
  simpa [rawPara, squashAll] using this

/-- the scanned text for a non-empty report: recipient line, then the report (minus one final LF)
with every LF that follows an LF shown as '/' -/
theorem scanned_cons (es : List (Bytes × Bytes)) (recip report : Bytes) (hr : report ≠ []) :
    squashAll false (rawPara es recip report) = recipLine (stripvdom es recip) ++ squashAll true (chomp1 report) := by
  have := squashAll_lffree LANGLE (shown es recip ++ [RANGLE, COLON]) (LF :: chomp1 report) false (by simp [LANGLE, LF]) (lf_not_mem_hdr es recip)
  have e : rawPara es recip report = LANGLE :: (shown es recip ++ [RANGLE, COLON]) ++ LF :: chomp1 report := by
    simp [rawPara, hr]
  rw [e, this, recipLine_eq, squashAll_cons]
  simp

/-- `addbounce` writes: the recipient line, the report with every LF that follows an LF shown as
'/', and one empty line (two if the report ended in an empty line of its own) -/
theorem addbounceText_shape (es : List (Bytes × Bytes)) (recip report : Bytes) :
    addbounceText es recip report =
      recipLine (stripvdom es recip) ++ squashAll true (chomp1 report)
        ++ (if report = [] then [LF] else [LF, LF]) := by
  rw [addbounceText_form]
  by_cases hr : report = []
  · subst hr
    rw [scanned_nil, recipLine_eq]
    simp [chomp1, squashAll]
  · rw [scanned_cons es recip report hr]
    simp [hr]

theorem endSt_lffree (a : Bytes) (s : PSt) (hm : LF ∉ a) (hne : a ≠ []) : endSt s a = .mid := by
  induction a generalizing s with
  | nil => exact absurd rfl hne
  | cons c t ih =>
    have hc : c ≠ LF := fun h => hm (by simp [h])
    have ht : LF ∉ t := fun h => hm (by simp [h])
    cases t with
    | nil => cases s <;> simp [endSt, hc]
    | cons d u => cases s <;> simp [endSt, hc, ih .mid ht (by simp)]

/-- the paragraph a reader sees for one `addbounce` call -/
def paraCore (es : List (Bytes × Bytes)) (recip report : Bytes) : Bytes :=
  if endSt .blank (squashAll false (rawPara es recip report)) = .bol
  then squashAll false (rawPara es recip report)
  else squashAll false (rawPara es recip report) ++ [LF]

theorem inPara_rawPara (es : List (Bytes × Bytes)) (recip report : Bytes) :
    inPara .blank (squashAll false (rawPara es recip report)) = true := by
  unfold rawPara
  rw [squashAll_cons]
  simp [inPara, (inPara_squashAll _).1, LANGLE, LF]

theorem scanned_ne (es : List (Bytes × Bytes)) (recip report : Bytes) :
    squashAll false (rawPara es recip report) ≠ [] := by
  unfold rawPara; rw [squashAll_cons]; simp

/-- **One call, one paragraph**, whatever follows in the file. -/
theorem paras_addbounceText (es : List (Bytes × Bytes)) (recip report rest : Bytes) :
    paras .blank (addbounceText es recip report ++ rest) = paraCore es recip report :: paras .blank rest := by
  rw [addbounceText_form]
  have hin := inPara_rawPara es recip report
  have hne := scanned_ne es recip report
  have hend := endSt_inPara _ .blank hin hne
  have := paras_inPara (squashAll false (rawPara es recip report)) (LF :: LF :: rest) .blank hin (Or.inr hne)
  simp only [List.append_assoc, List.cons_append, List.nil_append]
  rw [this]
  unfold paraCore
  cases h : endSt .blank (squashAll false (rawPara es recip report)) with
  | blank => exact absurd h hend
  | bol => simp [paras, pprep]
  | mid => simp [paras, pprep, pcons]

theorem paras_bounceFile (es : List (Bytes × Bytes)) (fails : List (Bytes × Bytes)) (rest : Bytes) :
    paras .blank (bounceFile es fails ++ rest) = fails.map (fun f => paraCore es f.1 f.2) ++ paras .blank rest := by
  induction fails with
  | nil => simp [bounceFile]
  | cons f fs ih =>
    obtain ⟨r, t⟩ := f
    simp only [bounceFile, List.append_assoc, paras_addbounceText, ih, List.map_cons, List.cons_append]

/-- the paragraph is what was written minus the final empty line(s) -/
theorem paraCore_prefix (es : List (Bytes × Bytes)) (recip report : Bytes) :
    addbounceText es recip report = paraCore es recip report ++ [LF] ∨
    addbounceText es recip report = paraCore es recip report ++ [LF, LF] := by
  rw [addbounceText_form]
  unfold paraCore
  by_cases h : endSt .blank (squashAll false (rawPara es recip report)) = .bol
  · right; simp [h]
  · left; simp [h]

/-- for an empty report the paragraph is the recipient line alone -/
theorem paraCore_nil (es : List (Bytes × Bytes)) (recip : Bytes) :
    paraCore es recip [] = recipLine (stripvdom es recip) := by
  unfold paraCore
  rw [scanned_nil, recipLine_eq]
  have hm : LF ∉ LANGLE :: (shown es recip ++ [RANGLE, COLON]) := by
    intro h
    rw [List.mem_cons] at h
    cases h with
    | inl h => simp [LANGLE, LF] at h
    | inr h => exact lf_not_mem_hdr es recip h
  rw [endSt_lffree _ .blank hm (by simp)]
  simp

/-- the paragraph starts with the recipient line -/
theorem recipLine_prefix_paraCore (es : List (Bytes × Bytes)) (recip report : Bytes) :
    recipLine (stripvdom es recip) <+: paraCore es recip report := by
  by_cases hr : report = []
  · subst hr; rw [paraCore_nil]; exact List.prefix_refl _
  · unfold paraCore
    rw [scanned_cons es recip report hr]
    split
    · exact ⟨_, rfl⟩
    · exact ⟨squashAll true (chomp1 report) ++ [LF], by simp⟩

/-- the last '@' of `x ++ a` is the last '@' of `a` when `a` has one -/
theorem domainOf_append (x a d : Bytes) (h : domainOf a = some d) : domainOf (x ++ a) = some d := by
  induction x with
  | nil => simpa using h
  | cons c t ih => simp [domainOf, ih]

end Nq.Lemmas.Bounce
