/-
  Framing facts about the reference decoder (hence, by `dblast_eq_rfcDecode`, about the
  qmail-smtpd automaton), and the round trip with a reference conforming sender.
-/
import Nq.Lemmas.SmtpDecode
import Nq.Spec.SmtpRef
import Nq.Spec.Wire

namespace Nq.Lemmas
open Nq Nq.SmtpIn Nq.SmtpRef

theorem takeLine_eq : ∀ (inp l rest : Bytes), takeLine inp = some (l, rest) →
    inp = l ++ CR :: LF :: rest
  | [], _, _, h => by simp [takeLine] at h
  | [_], _, _, h => by simp [takeLine] at h
  | c :: d :: rest2, l, rest, h => by
    rw [takeLine_cons2] at h
    by_cases hcr : c = CR ∧ d = LF
    · obtain ⟨rfl, rfl⟩ := hcr
      simp at h; obtain ⟨rfl, rfl⟩ := h; simp
    · simp only [hcr, if_false] at h
      cases h2 : takeLine (d :: rest2) with
      | none => simp [h2] at h
      | some p =>
        obtain ⟨l', r'⟩ := p
        simp [h2] at h
        obtain ⟨rfl, rfl⟩ := h
        have := takeLine_eq (d :: rest2) l' r' h2
        simp [this]

/-- the first CR LF after an LF-free prefix is where `takeLine` cuts -/
theorem takeLine_append : ∀ (l w : Bytes), LF ∉ l → takeLine (l ++ CR :: LF :: w) = some (l, w)
  | [], w, _ => by simp [takeLine]
  | [c], w, h => by
    have hc : c ≠ LF := fun hc => h (by simp [hc])
    show takeLine (c :: CR :: LF :: w) = _
    rw [takeLine_cons2]
    have : ¬ (c = CR ∧ CR = LF) := by simp [CR, LF]
    simp only [this, if_false]
    have := takeLine_append [] w (by simp)
    simp at this
    simp [this]
  | c :: d :: l, w, h => by
    have hc : c ≠ LF := fun hc => h (by simp [hc])
    have hd : d ≠ LF := fun hd => h (by simp [hd])
    have hl : LF ∉ d :: l := fun hm => h (List.mem_cons_of_mem _ hm)
    show takeLine (c :: d :: (l ++ CR :: LF :: w)) = _
    rw [takeLine_cons2]
    have : ¬ (c = CR ∧ d = LF) := by simp [hd]
    simp only [this, if_false]
    have := takeLine_append (d :: l) w hl
    simp at this
    simp [this]

/-- lines accepted before the terminator: LF-free and not a lone dot -/
def bodyLine (l : Bytes) : Prop := LF ∉ l ∧ l ≠ [DOT]

theorem rfcDecode_framing_mp (inp : Bytes) : ∀ (body rest : Bytes), rfcDecode inp = .accepted body rest →
    ∃ ls : List Bytes, inp = joinWith [CR, LF] ls ++ [DOT, CR, LF] ++ rest ∧ (∀ l ∈ ls, bodyLine l) ∧
      body = joinWith [LF] (ls.map unstuff) := by
  generalize hn : inp.length = n
  induction n using Nat.strongRecOn generalizing inp with
  | ind n ih =>
    intro body rest h
    rw [rfcDecode] at h
    split at h
    · split at h <;> simp at h
    · rename_i l r hl
      have heq := takeLine_eq inp l r hl
      have hlen := takeLine_length inp l r hl
      by_cases h1 : LF ∈ l
      · simp [h1] at h
      · simp only [h1, if_false] at h
        by_cases h2 : l = [DOT]
        · simp [h2] at h
          obtain ⟨rfl, rfl⟩ := h
          exact ⟨[], by simp [joinWith, heq, h2], by simp, by simp [joinWith]⟩
        · simp only [h2, if_false] at h
          cases hr : rfcDecode r with
          | stray => simp [hr, emit] at h
          | incomplete => simp [hr, emit] at h
          | accepted b' r' =>
            simp [hr, emit] at h
            obtain ⟨rfl, rfl⟩ := h
            obtain ⟨ls, e1, e2, e3⟩ := ih r.length (by omega) r rfl b' r' hr
            refine ⟨l :: ls, ?_, ?_, ?_⟩
            · rw [heq, e1]; simp [joinWith]
            · intro x hx
              rcases List.mem_cons.1 hx with rfl | hx
              · exact ⟨h1, h2⟩
              · exact e2 x hx
            · simp [joinWith, e3]

theorem rfcDecode_framing_mpr : ∀ (ls : List Bytes) (rest : Bytes), (∀ l ∈ ls, bodyLine l) →
    rfcDecode (joinWith [CR, LF] ls ++ [DOT, CR, LF] ++ rest) =
      .accepted (joinWith [LF] (ls.map unstuff)) rest
  | [], rest, _ => by
    have : takeLine ([DOT] ++ CR :: LF :: rest) = some ([DOT], rest) :=
      takeLine_append [DOT] rest (by simp [DOT, LF])
    rw [rfcDecode]
    simp only [joinWith, List.nil_append, List.cons_append] at this ⊢
    split
    · rename_i h; rw [this] at h; cases h
    · rename_i l r h
      rw [this] at h; cases h
      simp [DOT, LF, joinWith]
  | l :: ls, rest, hall => by
    have hl := hall l (by simp)
    have hrest := rfcDecode_framing_mpr ls rest (fun x hx => hall x (by simp [hx]))
    have : takeLine (l ++ CR :: LF :: (joinWith [CR, LF] ls ++ [DOT, CR, LF] ++ rest)) =
        some (l, joinWith [CR, LF] ls ++ [DOT, CR, LF] ++ rest) := takeLine_append l _ hl.1
    rw [rfcDecode]
    have hshape : joinWith [CR, LF] (l :: ls) ++ [DOT, CR, LF] ++ rest =
        l ++ CR :: LF :: (joinWith [CR, LF] ls ++ [DOT, CR, LF] ++ rest) := by simp [joinWith]
    split
    · rename_i h; rw [hshape, this] at h; cases h
    · rename_i l' r h
      rw [hshape, this] at h; cases h
      simp only [hl.1, hl.2, if_false]
      rw [hrest]
      simp [emit, joinWith]

/-- no LF inside the joined, CR LF-terminated, LF-free lines is bare -/
theorem noBareLF_join : ∀ (ls : List Bytes) (prev : Byte) (w : Bytes), (∀ l ∈ ls, LF ∉ l) →
    Wire.noBareLFGo prev (joinWith [CR, LF] ls ++ w) = Wire.noBareLFGo LF w ∨ ls = [] := by
  intro ls
  induction ls with
  | nil => intro _ _ _; right; rfl
  | cons l ls ih =>
    intro prev w hall
    left
    have hl : LF ∉ l := hall l (by simp)
    have key : ∀ (l : Bytes) (prev : Byte) (v : Bytes), LF ∉ l →
        Wire.noBareLFGo prev (l ++ CR :: LF :: v) = Wire.noBareLFGo LF v := by
      intro l
      induction l with
      | nil => intro prev v _; simp [Wire.noBareLFGo, CR, LF]
      | cons c l ihl =>
        intro prev v h
        have hc : c ≠ LF := fun hc => h (by simp [hc])
        have hl' : LF ∉ l := fun hm => h (List.mem_cons_of_mem _ hm)
        simp [Wire.noBareLFGo, hc, ihl c v hl']
    have : joinWith [CR, LF] (l :: ls) ++ w = l ++ CR :: LF :: (joinWith [CR, LF] ls ++ w) := by
      simp [joinWith]
    rw [this, key l prev _ hl]
    rcases ih LF w (fun x hx => hall x (by simp [hx])) with h | h
    · exact h
    · subst h; simp [joinWith]

/-! ### Round trip with the reference conforming sender -/

def relE : Bool → DSt → Bool
  | true, .s1 => true
  | false, .s0 => true
  | false, .s4 => true
  | _, _ => false

theorem sim_ref (rest : Bytes) : ∀ (m : Bytes) (atStart : Bool) (ds : DSt),
    relE atStart ds = true → (m = [] → atStart = true) → (m ≠ [] → m.getLast? = some LF) →
    drun ds (encGo atStart m ++ rest) = emit (pend ds ++ m) (.accepted [] rest) := by
  intro m
  induction m with
  | nil =>
    intro atStart ds hrel h1 _
    have := h1 rfl; subst this
    cases ds <;> simp [relE] at hrel
    simp [encGo, drun, dstep, emit, pend, CR, LF, DOT]
  | cons x m ih =>
    intro atStart ds hrel _ hlast
    have hlast' := hlast (by simp)
    have hm1 : m = [] → x = LF := by
      intro hm; subst hm; simpa using hlast'
    have hm2 : m ≠ [] → m.getLast? = some LF := by
      intro hm
      cases m with
      | nil => exact absurd rfl hm
      | cons y m' => simpa [List.getLast?_cons_cons] using hlast'
    by_cases h1 : x = LF
    · subst h1
      have := ih true .s1 (by simp [relE]) (fun _ => rfl) hm2
      cases atStart <;> cases ds <;> simp [relE] at hrel <;>
        simp [encGo, drun, dstep, pend, CR, LF, DOT] at this ⊢ <;> simp [this, emit]
    · have hmne : m ≠ [] := fun hm => h1 (hm1 hm)
      have hstart : m = [] → false = true := fun hm => absurd hm hmne
      by_cases h2 : x = CR
      · subst h2
        have := ih false .s4 (by simp [relE]) hstart hm2
        cases atStart <;> cases ds <;> simp [relE] at hrel <;>
          simp [encGo, drun, dstep, pend, CR, LF, DOT] at this ⊢ <;> simp [this, emit]
      · by_cases h3 : x = DOT
        · subst h3
          have := ih false .s0 (by simp [relE]) hstart hm2
          cases atStart <;> cases ds <;> simp [relE] at hrel <;>
            simp [encGo, drun, dstep, pend, CR, LF, DOT] at this ⊢ <;> simp [this, emit]
        · have := ih false .s0 (by simp [relE]) hstart hm2
          cases atStart <;> cases ds <;> simp [relE] at hrel <;>
            simp [encGo, drun, dstep, pend, h1, h2, h3] at this ⊢ <;> simp [this, emit]

end Nq.Lemmas

namespace Nq.Lemmas
open Nq Nq.SmtpIn Nq.SmtpRef

/-- a LF that follows neither CR nor anything at all ends up inside the line `takeLine` cuts -/
theorem takeLine_bare : ∀ (l post : Bytes), LF ∉ l → l.getLast? ≠ some CR →
    match takeLine (l ++ LF :: post) with
    | none => True
    | some (l', _) => LF ∈ l'
  | [], post, _, _ => by
    cases post with
    | nil => simp [takeLine]
    | cons d p =>
      show match takeLine (LF :: d :: p) with | none => True | some (l', _) => LF ∈ l'
      rw [takeLine_cons2]
      have : ¬ (LF = CR ∧ d = LF) := by simp [CR, LF]
      simp only [this, if_false]
      cases takeLine (d :: p) with
      | none => simp
      | some q => simp
  | [c], post, h, hl => by
    have hc : c ≠ LF := fun hc => h (by simp [hc])
    have hc2 : c ≠ CR := by simpa using hl
    show match takeLine (c :: LF :: post) with | none => True | some (l', _) => LF ∈ l'
    rw [takeLine_cons2]
    simp only [hc2, false_and, ↓reduceIte]
    have ih := takeLine_bare [] post (by simp) (by simp)
    simp only [List.nil_append] at ih
    cases h2 : takeLine (LF :: post) with
    | none => simp
    | some q => rw [h2] at ih; simp at ih ⊢; exact Or.inr ih
  | c :: d :: l2, post, h, hl => by
    have hd : d ≠ LF := fun hd => h (by simp [hd])
    have hl2 : LF ∉ d :: l2 := fun hm => h (List.mem_cons_of_mem _ hm)
    show match takeLine (c :: d :: (l2 ++ LF :: post)) with | none => True | some (l', _) => LF ∈ l'
    rw [takeLine_cons2]
    have : ¬ (c = CR ∧ d = LF) := by simp [hd]
    simp only [this, if_false]
    have ih := takeLine_bare (d :: l2) post hl2 (by simpa [List.getLast?_cons_cons] using hl)
    simp only [List.cons_append] at ih
    cases h2 : takeLine (d :: (l2 ++ LF :: post)) with
    | none => simp
    | some q => rw [h2] at ih; simp at ih ⊢; exact Or.inr ih

/-- decoding resumes after complete body lines -/
theorem rfcDecode_lines : ∀ (ls : List Bytes) (w : Bytes), (∀ l ∈ ls, bodyLine l) →
    rfcDecode (joinWith [CR, LF] ls ++ w) = emit (joinWith [LF] (ls.map unstuff)) (rfcDecode w)
  | [], w, _ => by simp [joinWith]
  | l :: ls, w, hall => by
    have hl := hall l (by simp)
    have ih := rfcDecode_lines ls w (fun x hx => hall x (by simp [hx]))
    have hshape : joinWith [CR, LF] (l :: ls) ++ w = l ++ CR :: LF :: (joinWith [CR, LF] ls ++ w) := by
      simp [joinWith]
    have := takeLine_append l (joinWith [CR, LF] ls ++ w) hl.1
    rw [rfcDecode]
    split
    · rename_i h; rw [hshape, this] at h; cases h
    · rename_i l' r h
      rw [hshape, this] at h; cases h
      simp only [hl.1, hl.2, if_false]
      rw [ih]
      simp [joinWith]

theorem rfcDecode_bare (l post : Bytes) (h1 : LF ∉ l) (h2 : l.getLast? ≠ some CR) :
    rfcDecode (l ++ LF :: post) = .stray := by
  have := takeLine_bare l post h1 h2
  rw [rfcDecode]
  split
  · simp
  · rename_i l' r h
    rw [h] at this
    simp at this
    simp [this]

end Nq.Lemmas
