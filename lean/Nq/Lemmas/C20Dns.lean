/- Lemmas for C20 (d): dns.c record walking stays inside the response. Core Lean only. -/
import Nq.Dns

namespace Nq.Lemmas.C20
open Nq Nq.Dns

theorem find_in (k : Kind) (resp : Bytes) (dn : Nat → Option Nat) (want : Nat) (st : St)
    (hp : st.pos ≤ resp.length) (hdn : DnOk resp dn) :
    StepIn resp (find k true resp dn want st) ∧ (find k true resp dn want st).st.num ≤ st.num ∧
    ((find k true resp dn want st).r ≠ .done → (find k true resp dn want st).st.num < st.num) := by
  unfold find StepIn
  simp only []
  by_cases h0 : st.num = 0
  · rw [if_pos h0]; simp [hp]
  · rw [if_neg h0]
    by_cases h1 : st.pos = resp.length
    · rw [if_pos h1]; simp; omega
    · rw [if_neg h1]
      cases hd : dn st.pos with
      | none => simp; omega
      | some i =>
        have hi := hdn _ _ hd
        simp only
        by_cases h2 : resp.length < st.pos + i + RRFIXED
        · rw [if_pos h2]; simp; omega
        · rw [if_neg h2]
          unfold RRFIXED at h2 ⊢
          by_cases h3 : getshort resp (st.pos + i + 8) > resp.length - (st.pos + i + 10)
          · simp only [Bool.true_and, decide_eq_true_eq]
            rw [if_pos h3]; simp; omega
          · simp only [Bool.true_and, decide_eq_true_eq]
            rw [if_neg h3]
            by_cases h4 : getshort resp (st.pos + i) = want
            · rw [if_pos h4]
              cases k with
              | name =>
                simp only
                cases hd2 : dn (st.pos + i + 10) with
                | none => simp; omega
                | some j => simp; omega
              | ip =>
                simp only
                by_cases h5 : getshort resp (st.pos + i + 8) < 4
                · rw [if_pos h5]; simp; omega
                · rw [if_neg h5]; simp; omega
              | mx =>
                simp only
                by_cases h5 : getshort resp (st.pos + i + 8) < 3
                · rw [if_pos h5]; simp; omega
                · rw [if_neg h5]
                  cases hd2 : dn (st.pos + i + 10 + 2) with
                  | none => simp; omega
                  | some j => simp; omega
            · rw [if_neg h4]; simp; omega

theorem walk_in (k : Kind) (resp : Bytes) (dn : Nat → Option Nat) (want : Nat) (fuel : Nat) (st : St)
    (hp : st.pos ≤ resp.length) (hdn : DnOk resp dn) :
    ∀ s ∈ walk k true resp dn want fuel st, StepIn resp s := by
  induction fuel generalizing st with
  | zero => simp [walk]
  | succ fuel ih =>
    obtain ⟨f1, _, _⟩ := find_in k resp dn want st hp hdn
    simp only [walk]
    generalize find k true resp dn want st = s0 at f1
    intro s hs
    cases hr : s0.r <;> simp only [hr, List.mem_cons, List.mem_singleton, List.not_mem_nil, or_false] at hs
    case soft => subst hs; exact f1
    case done => subst hs; exact f1
    all_goals
      rcases hs with hs | hs
      · subst hs; exact f1
      · exact ih s0.st f1.2.2 s hs

/-- `numanswers + 1` calls always reach the end of the loop (2 or DNS_SOFT) -/
theorem walk_ends (k : Kind) (resp : Bytes) (dn : Nat → Option Nat) (want : Nat) (fuel : Nat) (st : St)
    (hp : st.pos ≤ resp.length) (hdn : DnOk resp dn) (hf : st.num < fuel) :
    ∃ s, (walk k true resp dn want fuel st).getLast? = some s ∧ (s.r = .soft ∨ s.r = .done) := by
  induction fuel generalizing st with
  | zero => omega
  | succ fuel ih =>
    obtain ⟨f1, f2, f3⟩ := find_in k resp dn want st hp hdn
    simp only [walk]
    generalize find k true resp dn want st = s0 at f1 f2 f3
    cases hr : s0.r <;> simp only [hr]
    case soft => exact ⟨s0, by simp, Or.inl hr⟩
    case done => exact ⟨s0, by simp, Or.inr hr⟩
    all_goals
      have hlt : s0.st.num < fuel := by have := f3 (by rw [hr]; simp); omega
      obtain ⟨s, h1, h2⟩ := ih s0.st f1.2.2 hlt
      refine ⟨s, ?_, h2⟩
      rw [List.getLast?_cons, h1]; simp

theorem questions_in (resp : Bytes) (dn : Nat → Option Nat) (n pos : Nat)
    (hp : pos ≤ resp.length) (hdn : DnOk resp dn) :
    (questions resp dn n pos).pos ≤ resp.length ∧ ∀ p ∈ (questions resp dn n pos).dns, p ≤ resp.length := by
  induction n generalizing pos with
  | zero => simp [questions, hp]
  | succ n ih =>
    simp only [questions]
    cases hd : dn pos with
    | none => simp [hp]
    | some i =>
      have hi := hdn _ _ hd
      simp only
      by_cases h2 : resp.length < pos + i + QFIXEDSZ
      · rw [if_pos h2]; simp; omega
      · rw [if_neg h2]
        obtain ⟨i1, i2⟩ := ih (pos + i + QFIXEDSZ) (by omega)
        refine ⟨i1, ?_⟩
        intro p hpm; simp only [List.mem_cons] at hpm
        rcases hpm with hpm | hpm
        · subst hpm; exact hp
        · exact i2 p hpm

end Nq.Lemmas.C20
