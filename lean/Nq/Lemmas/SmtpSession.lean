/-
  Lemmas for C08: the transaction invariant of `Nq.SmtpSession.sstep`, phrased over the observable
  history, and the equivalence between the declarative predicates of `Nq.Spec.SmtpPolicy` and
  their executable checkers.
-/
import Nq.Spec.SmtpPolicy
import Nq.Lemmas.SmtpPolicy

namespace Nq.Lemmas.Smtp
open Nq Nq.SmtpSession Nq.SmtpPolicy

/-! ### lastSeg -/

theorem lastSeg_none {α : Type} (p : α → Bool) : ∀ (l : List α), (∀ x ∈ l, p x = false) → lastSeg p l = none
  | [], _ => rfl
  | x :: r, h => by
    have h1 := lastSeg_none p r (fun y hy => h y (List.mem_cons_of_mem _ hy))
    have h2 : p x = false := h x (List.mem_cons_self ..)
    simp [lastSeg, h1, h2]

theorem lastSeg_found {α : Type} (p : α → Bool) (y : α) (mid : List α) (hy : p y = true)
    (hmid : ∀ x ∈ mid, p x = false) : ∀ (pre : List α), lastSeg p (pre ++ y :: mid) = some (y, mid)
  | [] => by simp [lastSeg, lastSeg_none p mid hmid, hy]
  | x :: pre => by simp [lastSeg, lastSeg_found p y mid hy hmid pre]

theorem lastSeg_none_imp {α : Type} (p : α → Bool) : ∀ (l : List α), lastSeg p l = none → ∀ x ∈ l, p x = false
  | [], _ => by simp
  | x :: r, h => by
    unfold lastSeg at h
    cases h1 : lastSeg p r with
    | some res => simp [h1] at h
    | none =>
      simp [h1] at h
      intro z hz
      rcases List.mem_cons.1 hz with rfl | hz'
      · exact h
      · exact lastSeg_none_imp p r h1 z hz'

theorem lastSeg_spec {α : Type} (p : α → Bool) : ∀ (l : List α) (y : α) (mid : List α), lastSeg p l = some (y, mid) →
    ∃ pre, l = pre ++ y :: mid ∧ p y = true ∧ ∀ x ∈ mid, p x = false
  | [], _, _, h => by simp [lastSeg] at h
  | x :: r, y, mid, h => by
    unfold lastSeg at h
    cases h1 : lastSeg p r with
    | some res =>
      simp [h1] at h
      subst h
      obtain ⟨pre, e, hy, hm⟩ := lastSeg_spec p r _ _ h1
      exact ⟨x :: pre, by simp [e], hy, hm⟩
    | none =>
      simp [h1] at h
      obtain ⟨hp, rfl, rfl⟩ := h
      exact ⟨[], rfl, hp, lastSeg_none_imp p r h1⟩

theorem lastSeg_snoc {α : Type} (p : α → Bool) (x : α) : ∀ (l : List α),
    lastSeg p (l ++ [x]) = if p x then some (x, []) else (lastSeg p l).map (fun r => (r.1, r.2 ++ [x]))
  | [] => by simp [lastSeg]
  | y :: l => by
    simp only [List.cons_append, lastSeg, lastSeg_snoc p x l]
    by_cases hx : p x = true
    · simp [hx]
    · simp [hx]
      cases lastSeg p l with
      | some res => simp
      | none => by_cases hy : p y = true <;> simp [hy]

/-! ### the open transaction: checker = declarative form -/

/-- what a single event contributes when it is the last discarding one -/
def startOf (cfg : Cfg) (x : Ev) : Option (Bytes × List Ev) :=
  match x with
  | (.mail a, oj) => if oj.replies = [.mailok] then (addrparse cfg a).map (fun s => (s, [])) else none
  | _ => none

theorem openTxnB_snoc (cfg : Cfg) (hist : List Ev) (x : Ev) :
    openTxnB cfg (hist ++ [x]) =
      if discards x then startOf cfg x else (openTxnB cfg hist).map (fun r => (r.1, r.2 ++ [x])) := by
  unfold openTxnB
  rw [lastSeg_snoc]
  by_cases hx : discards x = true
  · simp only [hx, if_true]
    obtain ⟨c, o⟩ := x
    cases c <;> simp [startOf]
  · simp only [hx]
    cases h : lastSeg discards hist with
    | none => simp
    | some res =>
      obtain ⟨⟨c, oj⟩, mid⟩ := res
      cases c <;> simp
      by_cases h2 : oj.replies = [.mailok]
      · simp [h2]; cases addrparse cfg _ <;> simp
      · simp [h2]

theorem openTxnB_iff (cfg : Cfg) (hist : List Ev) (snd : Bytes) (mid : List Ev) :
    openTxnB cfg hist = some (snd, mid) ↔ OpenTxn cfg hist snd mid := by
  constructor
  · intro h
    unfold openTxnB at h
    cases h1 : lastSeg discards hist with
    | none => simp [h1] at h
    | some res =>
      obtain ⟨⟨c, oj⟩, mid'⟩ := res
      obtain ⟨pre, e, hy, hm⟩ := lastSeg_spec discards hist _ _ h1
      cases c <;> simp [h1] at h
      rename_i a
      obtain ⟨h2, s, h3, rfl, rfl⟩ := h
      exact ⟨pre, a, oj, e, h2, h3, hm⟩
  · rintro ⟨pre, a, oj, e, h2, h3, hm⟩
    have hd : discards (Cmd.mail a, oj) = true := by simp [discards, h2]
    unfold openTxnB
    rw [e, lastSeg_found discards _ mid hd hm pre]
    simp [h2, h3]

/-! ### the invariant linking the state variables to the observable history -/

def Inv (cfg : Cfg) (hist : List Ev) (s : Sess) : Prop :=
  match openTxnB cfg hist with
  | some (snd, mid) =>
    s.seenmail = true ∧ s.mailfrom = snd ∧ s.rcptto = mid.filterMap (acceptedRcpt cfg) ∧ s.flagbarf = bmfcheck cfg snd
  | none => s.seenmail = false

theorem inv_init (cfg : Cfg) : Inv cfg [] {} := by
  simp [Inv, openTxnB, lastSeg]

theorem inv_step (cfg : Cfg) (hist : List Ev) (s : Sess) (c : Cmd) (h : Inv cfg hist s) :
    Inv cfg (hist ++ [(c, (sstep cfg s c).2)]) (sstep cfg s c).1 := by
  unfold Inv at h ⊢
  rw [openTxnB_snoc]
  cases c with
  | helo => simp [sstep, discards, startOf]
  | ehlo => simp [sstep, discards, startOf]
  | rset => simp [sstep, discards, startOf]
  | help => cases h0 : openTxnB cfg hist <;> simp_all [sstep, discards, acceptedRcpt]
  | noop => cases h0 : openTxnB cfg hist <;> simp_all [sstep, discards, acceptedRcpt]
  | vrfy => cases h0 : openTxnB cfg hist <;> simp_all [sstep, discards, acceptedRcpt]
  | unimpl => cases h0 : openTxnB cfg hist <;> simp_all [sstep, discards, acceptedRcpt]
  | quit => cases h0 : openTxnB cfg hist <;> simp_all [sstep, discards, acceptedRcpt]
  | mail arg =>
    cases ha : addrparse cfg arg with
    | none => cases h0 : openTxnB cfg hist <;> simp_all [sstep, discards, acceptedRcpt]
    | some a => simp [sstep, discards, startOf, ha]
  | rcpt arg =>
    cases h0 : openTxnB cfg hist with
    | none =>
      simp [h0] at h
      simp [sstep, discards, h]
    | some r =>
      obtain ⟨snd, mid⟩ := r
      simp [h0] at h
      obtain ⟨h1, h2, h3, h4⟩ := h
      cases ha : addrparse cfg arg with
      | none => simp [sstep, discards, h1, ha, acceptedRcpt, h2, h3, h4]
      | some a =>
        by_cases hb : s.flagbarf = true
        · simp [sstep, discards, h1, ha, acceptedRcpt, h2, h3, ← h4, hb]
        · cases hr : cfg.relay with
          | some rc => simp [sstep, discards, h1, ha, acceptedRcpt, h2, h3, ← h4, hb, hr, relaySuffix]
          | none =>
            by_cases hm : rcpthostsMatch cfg a = true
            · simp [sstep, discards, h1, ha, acceptedRcpt, h2, h3, ← h4, hb, hr, relaySuffix, hm]
            · simp [sstep, discards, h1, ha, acceptedRcpt, h2, h3, ← h4, hb, hr, relaySuffix, hm]
  | data env =>
    cases h0 : openTxnB cfg hist with
    | none =>
      simp [h0] at h
      simp [sstep, discards, h]
    | some r =>
      obtain ⟨snd, mid⟩ := r
      simp [h0] at h
      obtain ⟨h1, h2, h3, h4⟩ := h
      obtain ⟨sm, fb, mf, rt⟩ := s
      simp only at h1 h2 h3 h4
      subst h1 h2 h3 h4
      by_cases he : (List.filterMap (acceptedRcpt cfg) mid).isEmpty = true
      · simp [sstep, discards, he, acceptedRcpt]
      · by_cases ho : env.openFails = true
        · simp [sstep, discards, he, ho, startOf]
        · cases hb : env.blast <;> simp [sstep, discards, he, ho, hb, startOf, closeReply]

/-- only DATA hands anything to the queue, and only from an open transaction -/
theorem submit_step (cfg : Cfg) (hist : List Ev) (s : Sess) (c : Cmd) (sub : Submit) (h : Inv cfg hist s)
    (hs : (sstep cfg s c).2.submit = some sub) :
    (∃ env, c = .data env) ∧ ∃ mid, openTxnB cfg hist = some (sub.sender, mid) ∧
      sub.rcpts = mid.filterMap (acceptedRcpt cfg) ∧ sub.rcpts ≠ [] := by
  cases c with
  | data env =>
    refine ⟨⟨env, rfl⟩, ?_⟩
    unfold Inv at h
    cases h0 : openTxnB cfg hist with
    | none =>
      simp [h0] at h
      simp [sstep, h] at hs
    | some r =>
      obtain ⟨snd, mid⟩ := r
      simp [h0] at h
      obtain ⟨h1, h2, h3, h4⟩ := h
      obtain ⟨sm, fb, mf, rt⟩ := s
      simp only at h1 h2 h3 h4
      subst h1 h2 h3 h4
      by_cases he : (List.filterMap (acceptedRcpt cfg) mid).isEmpty = true
      · simp [sstep, he] at hs
      · by_cases ho : env.openFails = true
        · simp [sstep, he, ho] at hs
        · cases hb : env.blast <;> simp [sstep, he, ho, hb] at hs
          subst hs
          refine ⟨mid, rfl, rfl, ?_⟩
          simpa using he
  | mail arg => cases ha : addrparse cfg arg <;> simp [sstep, ha] at hs
  | rcpt arg =>
    by_cases h1 : s.seenmail = true
    · cases ha : addrparse cfg arg with
      | none => simp [sstep, h1, ha] at hs
      | some a =>
        by_cases hb : s.flagbarf = true
        · simp [sstep, h1, ha, hb] at hs
        · cases hr : cfg.relay with
          | some rc => simp [sstep, h1, ha, hb, hr] at hs
          | none => by_cases hm : rcpthostsMatch cfg a = true <;> simp [sstep, h1, ha, hb, hr, hm] at hs
    · simp [sstep, h1] at hs
  | _ => simp [sstep] at hs

/-! ### the RCPT gate -/

theorem addrparse_limit (cfg : Cfg) (arg a : Bytes) (h : addrparse cfg arg = some a) : a.length + 1 ≤ addrLimit := by
  unfold addrparse at h
  split at h
  · simp at h
  · simp at h; subst h
    have : Gen.ADDRMAX = addrLimit := rfl
    omega

theorem gate_step (cfg : Cfg) (s : Sess) (arg : Bytes) :
    (sstep cfg s (.rcpt arg)).2.replies = [.rcptok] ↔
      s.seenmail = true ∧ s.flagbarf = false ∧
        ∃ a, addrparse cfg arg = some a ∧ (cfg.relay.isSome = true ∨ rcpthostsMatch cfg a = true) := by
  by_cases h1 : s.seenmail = true
  · cases ha : addrparse cfg arg with
    | none => simp [sstep, h1, ha]
    | some a =>
      by_cases hb : s.flagbarf = true
      · simp [sstep, h1, ha, hb]
      · cases hr : cfg.relay with
        | some rc => simp [sstep, h1, ha, hb, hr]
        | none => by_cases hm : rcpthostsMatch cfg a = true <;> simp [sstep, h1, ha, hb, hr, hm]
  · simp [sstep, h1]

/-- what an accepted RCPT stores -/
theorem gate_stored (cfg : Cfg) (s : Sess) (arg : Bytes) (h : (sstep cfg s (.rcpt arg)).2.replies = [.rcptok]) :
    ∃ a, addrparse cfg arg = some a ∧ (sstep cfg s (.rcpt arg)).1 = { s with rcptto := s.rcptto ++ [a ++ relaySuffix cfg] } := by
  obtain ⟨h1, hb, a, ha, hm⟩ := (gate_step cfg s arg).1 h
  refine ⟨a, ha, ?_⟩
  cases hr : cfg.relay with
  | some rc => simp [sstep, h1, ha, hb, hr, relaySuffix]
  | none =>
    have : rcpthostsMatch cfg a = true := by simpa [hr] using hm
    simp [sstep, h1, ha, hb, hr, relaySuffix, this]

theorem gate_inv (cfg : Cfg) (hl : MoreLower cfg) (hist : List Ev) (s : Sess) (arg : Bytes) (h : Inv cfg hist s) :
    (sstep cfg s (.rcpt arg)).2.replies = [.rcptok] ↔ GateOK cfg hist arg := by
  rw [gate_step]
  unfold Inv at h
  constructor
  · rintro ⟨h1, hb, a, ha, hm⟩
    cases h0 : openTxnB cfg hist with
    | none => simp [h0, h1] at h
    | some r =>
      obtain ⟨snd, mid⟩ := r
      simp [h0] at h
      obtain ⟨_, _, _, h4⟩ := h
      refine ⟨snd, mid, a, (openTxnB_iff cfg hist snd mid).1 h0, ?_, ha, addrparse_limit cfg arg a ha, ?_⟩
      · rw [← bmf_iff, ← h4, hb]; simp
      · rcases hm with hm | hm
        · exact Or.inl hm
        · exact Or.inr ((match_iff cfg hl a).1 hm)
  · rintro ⟨snd, mid, a, ho, hb, ha, _, hm⟩
    have h0 := (openTxnB_iff cfg hist snd mid).2 ho
    simp [h0] at h
    obtain ⟨h1, _, _, h4⟩ := h
    refine ⟨h1, ?_, a, ha, ?_⟩
    · rw [h4]
      cases hq : bmfcheck cfg snd with
      | false => rfl
      | true => exact absurd ((bmf_iff cfg snd).1 hq) hb
    · rcases hm with hm | hm
      · exact Or.inl hm
      · exact Or.inr ((match_iff cfg hl a).2 hm)

/-! ### checkers = declarative predicates -/

theorem submitOKB_iff (cfg : Cfg) (pre : List Ev) (sub : Submit) : submitOKB cfg pre sub = true ↔ SubmitOK cfg pre sub := by
  unfold submitOKB SubmitOK
  constructor
  · intro h
    cases h0 : openTxnB cfg pre with
    | none => simp [h0] at h
    | some r =>
      obtain ⟨snd, mid⟩ := r
      simp [h0] at h
      obtain ⟨⟨rfl, h2⟩, h3⟩ := h
      exact ⟨mid, (openTxnB_iff cfg pre _ mid).1 h0, h2, h3⟩
  · rintro ⟨mid, ho, h2, h3⟩
    have h0 := (openTxnB_iff cfg pre _ mid).2 ho
    simp [h0, ← h2, h3]

theorem gateOKB_iff (cfg : Cfg) (pre : List Ev) (arg : Bytes) : gateOKB cfg pre arg = true ↔ GateOK cfg pre arg := by
  unfold gateOKB GateOK
  constructor
  · intro h
    cases h0 : openTxnB cfg pre with
    | none => simp [h0] at h
    | some r =>
      obtain ⟨snd, mid⟩ := r
      cases ha : addrparse cfg arg with
      | none => simp [h0, ha] at h
      | some adr =>
        simp [h0, ha] at h
        obtain ⟨hb, hlen, hm⟩ := h
        refine ⟨snd, mid, adr, (openTxnB_iff cfg pre snd mid).1 h0, ?_, rfl, hlen, ?_⟩
        · rw [← badSenderB_iff, hb]; simp
        · rcases hm with hm | hm
          · exact Or.inl hm
          · exact Or.inr ((matchSpecB_iff cfg adr).1 hm)
  · rintro ⟨snd, mid, adr, ho, hb, ha, hlen, hm⟩
    have h0 := (openTxnB_iff cfg pre snd mid).2 ho
    have hb' : badSenderB cfg snd = false := by
      cases hq : badSenderB cfg snd with
      | false => rfl
      | true => exact absurd ((badSenderB_iff cfg snd).1 hq) hb
    simp only [h0, ha, hb']
    rcases hm with hm | hm
    · simp [hm, hlen]
    · simp [(matchSpecB_iff cfg adr).2 hm, hlen]

/-! ### lifting to whole sessions -/

theorem trace_split (cfg : Cfg) : ∀ (pre : List Ev) (s : Sess) (hist : List Ev) (cs : List Cmd) (x : Ev) (post : List Ev),
    Inv cfg hist s → trace cfg s cs = pre ++ x :: post →
    ∃ s' c, Inv cfg (hist ++ pre) s' ∧ x = (c, (sstep cfg s' c).2)
  | [], s, hist, cs, x, post, hi, ht => by
    cases cs with
    | nil => simp [trace] at ht
    | cons c cs' =>
      simp only [trace, List.nil_append, List.cons.injEq] at ht
      exact ⟨s, c, by simpa using hi, ht.1.symm⟩
  | y :: pre', s, hist, cs, x, post, hi, ht => by
    cases cs with
    | nil => simp [trace] at ht
    | cons c cs' =>
      simp only [trace, List.cons_append, List.cons.injEq] at ht
      obtain ⟨hy, ht'⟩ := ht
      by_cases hh : (sstep cfg s c).2.halt = true
      · simp [hh] at ht'
      · simp only [hh] at ht'
        have hi' := inv_step cfg hist s c hi
        rw [hy] at hi'
        obtain ⟨s', c', h1, h2⟩ := trace_split cfg pre' _ _ cs' x post hi' (by simpa using ht')
        exact ⟨s', c', by simpa using h1, h2⟩

/-- the oracle accepts every event of the model, whatever precedes it -/
theorem evOKB_step (cfg : Cfg) (hl : MoreLower cfg) (hist : List Ev) (s : Sess) (c : Cmd) (hi : Inv cfg hist s) :
    evOKB cfg hist (c, (sstep cfg s c).2) = true := by
  unfold evOKB
  simp only [Bool.and_eq_true]
  constructor
  · cases hs : (sstep cfg s c).2.submit with
    | none => rfl
    | some sub =>
      obtain ⟨_, mid, h1, h2, h3⟩ := submit_step cfg hist s c sub hi hs
      exact (submitOKB_iff cfg hist sub).2 ⟨mid, (openTxnB_iff cfg hist _ mid).1 h1, h2, h3⟩
  · cases c with
    | rcpt arg =>
      simp only
      have := gate_inv cfg hl hist s arg hi
      rw [← gateOKB_iff] at this
      by_cases hg : gateOKB cfg hist arg = true
      · simp [hg, this.2 hg]
      · have hn : ¬ (sstep cfg s (.rcpt arg)).2.replies = [.rcptok] := fun h => hg (this.1 h)
        simp [hg, hn]
    | _ => rfl

theorem traceBad_none (cfg : Cfg) (hl : MoreLower cfg) : ∀ (cs : List Cmd) (s : Sess) (hist : List Ev) (i : Nat),
    Inv cfg hist s → traceBad cfg hist (trace cfg s cs) i = none
  | [], _, _, _, _ => by simp [trace, traceBad]
  | c :: cs, s, hist, i, hi => by
    simp only [trace, traceBad, evOKB_step cfg hl hist s c hi, if_true]
    by_cases hh : (sstep cfg s c).2.halt = true
    · simp [hh, traceBad]
    · simp only [hh]
      exact traceBad_none cfg hl cs _ _ (i + 1) (inv_step cfg hist s c hi)

/-! ### the byte-level session is a command-level session -/

theorem runFuel_is_trace (cfg : Cfg) (qq : QQ) : ∀ (n : Nat) (s : Sess) (inp : Bytes),
    runFuel cfg qq n s inp = trace cfg s ((runFuel cfg qq n s inp).map Prod.fst)
  | 0, _, _ => by simp [runFuel, trace]
  | n + 1, s, inp => by
    unfold runFuel
    cases h : nextCmd qq s inp with
    | none => simp [trace]
    | some cr =>
      obtain ⟨c, rest⟩ := cr
      simp only
      by_cases hh : (sstep cfg s c).2.halt = true
      · simp [hh, trace]
      · simp only [hh, List.map_cons, trace]
        congr 1
        simpa using runFuel_is_trace cfg qq n (sstep cfg s c).1 rest

end Nq.Lemmas.Smtp
