/-
  Lemmas for C17 (session 4): from "every piece of the header is safe" to "the independent reader finds no
  hidden field name in the message"; a field kept verbatim by qmail-inject is a safe piece.
-/
import Nq.Lemmas.C17HeaderLaws
import Nq.Spec.Hidden

namespace Nq.Lemmas.C17Hid
open Nq Nq.Inject Nq.Spec.Addr Nq.Spec.Hidden Nq.Spec.HeaderBody Nq.Lemmas.C17HB

/-! ### the reader's line splitter on concatenations -/

theorem go_append_lf (p q cur : Bytes) :
    splitLF.go (p ++ LF :: q) cur = splitLF.go (p ++ [LF]) cur ++ splitLF.go q [] := by
  induction p generalizing cur with
  | nil => simp [splitLF.go]
  | cons c p ih =>
    by_cases hc : c = LF
    · subst hc
      simp only [List.cons_append, splitLF.go, if_true, ih, List.cons_append]
    · simp only [List.cons_append, splitLF.go, hc, if_false, ih]

theorem ends_lf (p : Bytes) (h : p.getLast? = some LF) : ∃ x, p = x ++ [LF] := by
  have hne : p ≠ [] := by intro h0; rw [h0] at h; simp at h
  refine ⟨p.dropLast, ?_⟩
  have := List.dropLast_concat_getLast hne
  rw [List.getLast?_eq_some_getLast hne] at h
  simp only [Option.some.injEq] at h
  rw [h] at this
  exact this.symm

theorem splitLF_append (p q : Bytes) (h : p = [] ∨ p.getLast? = some LF) :
    splitLF (p ++ q) = splitLF p ++ splitLF q := by
  rcases h with h | h
  · subst h; simp [splitLF, splitLF.go]
  · obtain ⟨x, rfl⟩ := ends_lf p h
    unfold splitLF
    rw [List.append_assoc, List.singleton_append, go_append_lf]

theorem splitLF_pieces (ps : List Bytes) (q : Bytes) (h : ∀ p ∈ ps, p = [] ∨ p.getLast? = some LF) :
    splitLF (ps.flatten ++ q) = ps.flatMap splitLF ++ splitLF q := by
  induction ps with
  | nil => simp
  | cons p ps ih =>
    simp only [List.flatten_cons, List.append_assoc, List.flatMap_cons]
    rw [splitLF_append p _ (h p List.mem_cons_self), ih (fun p' hp' => h p' (List.mem_cons_of_mem _ hp'))]

theorem splitLF_lf (b : Bytes) : splitLF (LF :: b) = [] :: splitLF b := by
  simp [splitLF, splitLF.go]

/-- the reader's header never extends past an empty line -/
theorem headerLines_sub (L1 L2 : List Bytes) (h2 : L2 = [] ∨ L2.head? = some []) :
    ∀ l ∈ headerLines (L1 ++ L2), l ∈ L1 := by
  induction L1 with
  | nil =>
    intro l hl
    rcases h2 with h2 | h2
    · subst h2; simp [headerLines] at hl
    · cases L2 with
      | nil => simp [headerLines] at hl
      | cons x r =>
        simp only [List.head?_cons, Option.some.injEq] at h2
        subst h2
        simp [headerLines] at hl
  | cons x L1 ih =>
    intro l hl
    simp only [List.cons_append, headerLines] at hl
    split at hl
    · simp at hl
    · split at hl
      · simp only [List.mem_cons] at hl
        rcases hl with hl | hl
        · exact hl ▸ List.mem_cons_self
        · exact List.mem_cons_of_mem _ (ih l hl)
      · split at hl
        · simp only [List.mem_cons] at hl
          rcases hl with hl | hl
          · exact hl ▸ List.mem_cons_self
          · exact List.mem_cons_of_mem _ (ih l hl)
        · simp at hl

/-- **from safe pieces to the reader's verdict**: a message made of safe header pieces followed by nothing
or by a body that begins with an empty line shows no hidden field name -/
theorem fieldNames_safe (ps : List Bytes) (b : Bytes) (hps : ∀ p ∈ ps, pieceSafe p = true)
    (hb : b = [] ∨ ∃ b', b = LF :: b') :
    ∀ n ∈ fieldNames (ps.flatten ++ b), n ∉ hiddenFields := by
  intro n hn
  unfold fieldNames at hn
  have hsplit : splitLF (ps.flatten ++ b) = ps.flatMap splitLF ++ splitLF b := by
    apply splitLF_pieces
    intro p hp
    have := hps p hp
    unfold pieceSafe at this
    simp only [Bool.or_eq_true, List.isEmpty_iff, Bool.and_eq_true, beq_iff_eq] at this
    rcases this with h | h
    · exact Or.inl h
    · exact Or.inr h.1
  rw [hsplit] at hn
  simp only [List.mem_filterMap] at hn
  obtain ⟨l, hl, hln⟩ := hn
  have hl1 : l ∈ ps.flatMap splitLF := by
    apply headerLines_sub _ _ ?_ l hl
    rcases hb with hb | ⟨b', hb⟩
    · subst hb; left; rfl
    · subst hb; right; rw [splitLF_lf]; rfl
  simp only [List.mem_flatMap] at hl1
  obtain ⟨p, hp, hlp⟩ := hl1
  have hsafe := hps p hp
  unfold pieceSafe at hsafe
  simp only [Bool.or_eq_true, List.isEmpty_iff, Bool.and_eq_true] at hsafe
  rcases hsafe with h | h
  · subst h; simp [splitLF, splitLF.go] at hlp
  · have hls := List.all_eq_true.mp h.2 l hlp
    split at hln
    · simp at hln
    · rename_i hc
      unfold lineSafe at hls
      have hc' : isContLine l = false := by simpa [isContLine] using hc
      simp only [hc', Bool.false_or, Bool.not_eq_true', nameIn, hln] at hls
      intro hmem
      have : hiddenFields.contains n = true := by simpa using hmem
      rw [this] at hls
      exact absurd hls (by simp)

/-! ### a field kept verbatim is a safe piece -/

theorem go_lf (r cur : Bytes) : splitLF.go (LF :: r) cur = cur :: splitLF.go r [] := by
  rw [splitLF.go]; simp

theorem go_nlf (c : Byte) (r cur : Bytes) (hc : c ≠ LF) : splitLF.go (c :: r) cur = splitLF.go r (cur ++ [c]) := by
  rw [splitLF.go]; simp [hc]

/-- the reader's lines of one logical line: its first physical line, then continuation lines only -/
theorem go_logicalLine : ∀ (f cur : Bytes), logicalLine f = true →
    ∃ rest, splitLF.go f cur = (cur ++ f.takeWhile (· ≠ LF)) :: rest ∧ ∀ l ∈ rest, isContLine l = true
  | [], _, h => by simp [logicalLine] at h
  | [c], cur, h => by
    simp only [logicalLine, beq_iff_eq] at h
    subst h
    exact ⟨[], by simp [splitLF.go], by simp⟩
  | c :: d :: r, cur, h => by
    simp only [logicalLine, Bool.and_eq_true, Bool.or_eq_true, bne_iff_ne, ne_eq, beq_iff_eq] at h
    by_cases hc : c = LF
    · subst hc
      have hd : d = SP ∨ d = TAB := by
        rcases h.1 with (h1 | h1) | h1
        · exact absurd rfl h1
        · exact Or.inl h1
        · exact Or.inr h1
      obtain ⟨rest, e, hr⟩ := go_logicalLine (d :: r) [] h.2
      refine ⟨(List.takeWhile (· ≠ LF) (d :: r)) :: rest, by rw [go_lf, e]; simp, ?_⟩
      intro l hl
      simp only [List.mem_cons] at hl
      rcases hl with hl | hl
      · subst hl
        have hdl : d ≠ LF := by rcases hd with hd | hd <;> rw [hd] <;> decide
        simp only [List.nil_append, List.takeWhile_cons, hdl, ne_eq, not_false_eq_true, decide_true, if_true, isContLine,
          List.head?_cons]
        rcases hd with hd | hd <;> rw [hd] <;> decide
      · exact hr l hl
    · obtain ⟨rest, e, hr⟩ := go_logicalLine (d :: r) (cur ++ [c]) h.2
      refine ⟨rest, ?_, hr⟩
      rw [go_nlf c _ _ hc, e]
      simp [List.takeWhile_cons, hc]

/-- `hfield_valid` ⇒ the bytes before the first colon are printable or blank: no LF there -/
theorem valid_name_bytes (h : Bytes) (hv : hfieldValid h = true) :
    (58 : Byte) ∈ h ∧ ∀ c ∈ h.takeWhile (· ≠ 58), c ≠ LF := by
  unfold hfieldValid at hv
  split at hv
  · simp at hv
  · rename_i hc
    simp only [Bool.and_eq_true, Bool.not_eq_true', List.isEmpty_eq_false_iff, ne_eq, List.all_eq_true, decide_eq_true_eq] at hv
    refine ⟨by simpa using hc, ?_⟩
    intro c hcm hlf
    subst hlf
    generalize hn : List.takeWhile (fun x => decide (x ≠ 58)) h = name at hv hcm
    have hsplit := List.takeWhile_append_dropWhile (p := fun c => decide (c = SP ∨ c = TAB)) (l := name.reverse)
    have hmem : LF ∈ name.reverse := by simpa using hcm
    rw [← hsplit, List.mem_append] at hmem
    rcases hmem with hm | hm
    · have := mem_takeWhile_true _ _ _ hm
      revert this; decide
    · have := hv.2 LF (by simpa using hm)
      revert this; decide

theorem takeWhile_lf_of_name (name rest : Bytes) (hn : ∀ c ∈ name, c ≠ LF) :
    (name ++ 58 :: rest).takeWhile (· ≠ LF) = name ++ 58 :: rest.takeWhile (· ≠ LF) := by
  induction name with
  | nil => simp [List.takeWhile_cons]; decide
  | cons c name ih =>
    have hc : c ≠ LF := hn c List.mem_cons_self
    simp only [List.cons_append, List.takeWhile_cons, hc, ne_eq, not_false_eq_true, decide_true, if_true]
    rw [ih (fun c' hc' => hn c' (List.mem_cons_of_mem _ hc'))]

theorem takeWhile_colon_of_name (name rest : Bytes) (hn : ∀ c ∈ name, c ≠ 58) :
    (name ++ 58 :: rest).takeWhile (· != 58) = name := by
  induction name with
  | nil => simp [List.takeWhile_cons]
  | cons c name ih =>
    have hc : c ≠ 58 := hn c List.mem_cons_self
    simp only [List.cons_append, List.takeWhile_cons, bne_iff_ne, hc, ne_eq, not_false_eq_true, if_true]
    rw [ih (fun c' hc' => hn c' (List.mem_cons_of_mem _ hc'))]

theorem fieldName_name (name rest : Bytes) (hn : ∀ c ∈ name, c ≠ 58) :
    fieldName (name ++ 58 :: rest) = some (lower ((name.reverse.dropWhile (fun c => c == SP || c == TAB)).reverse)) := by
  unfold fieldName
  have : (name ++ 58 :: rest).contains 58 = true := by simp
  rw [this, takeWhile_colon_of_name name rest hn]
  simp

/-- the first physical line of a valid field has the field's own name -/
theorem firstLine_name (h : Bytes) (hv : hfieldValid h = true) :
    fieldName (h.takeWhile (· ≠ LF)) = fieldName h := by
  obtain ⟨hc, hlf⟩ := valid_name_bytes h hv
  have hsplit : h = h.takeWhile (· ≠ 58) ++ h.dropWhile (· ≠ 58) := (List.takeWhile_append_dropWhile).symm
  generalize hname : h.takeWhile (· ≠ 58) = name at hsplit hlf
  have hn58 : ∀ c ∈ name, c ≠ 58 := by
    intro c hcm
    rw [← hname] at hcm
    have := mem_takeWhile_true _ _ _ hcm
    simpa using this
  have hdrop : ∃ rest, h.dropWhile (· ≠ 58) = 58 :: rest := by
    cases hd : h.dropWhile (· ≠ 58) with
    | nil =>
      rw [hd, List.append_nil] at hsplit
      rw [hsplit] at hc
      exact absurd rfl (hn58 58 hc)
    | cons x rest =>
      have := head_dropWhile_false (fun x => decide (x ≠ 58)) h x (by rw [hd]; rfl)
      have hx : x = 58 := by simpa using this
      exact ⟨rest, by rw [hx]⟩
  obtain ⟨rest, hd⟩ := hdrop
  rw [hd] at hsplit
  rw [hsplit, takeWhile_lf_of_name name rest hlf, fieldName_name name _ hn58, fieldName_name name _ hn58]

theorem verbatim_safe (h : Bytes) (hv : hfieldValid h = true) (hl : logicalLine h = true)
    (hn : nameIn hiddenFields h = false) : pieceSafe h = true := by
  obtain ⟨h1, _⟩ := logicalLine_lf h hl
  obtain ⟨rest, e, hr⟩ := go_logicalLine h [] hl
  unfold pieceSafe
  simp only [Bool.or_eq_true, Bool.and_eq_true, beq_iff_eq, List.all_eq_true]
  right
  refine ⟨h1, ?_⟩
  intro l hlm
  unfold splitLF at hlm
  rw [e] at hlm
  simp only [List.nil_append, List.mem_cons] at hlm
  rcases hlm with hlm | hlm
  · subst hlm
    have : nameIn hiddenFields (h.takeWhile (· ≠ LF)) = nameIn hiddenFields h := by
      unfold nameIn; rw [firstLine_name h hv]
    unfold lineSafe
    rw [this, hn]
    simp
  · unfold lineSafe
    simp [hr l hlm]


theorem bodyOf_head (r : List Bytes) : (bodyOf r).flatten = [] ∨ ∃ b', (bodyOf r).flatten = LF :: b' := by
  cases r with
  | nil => left; rfl
  | cons l r' =>
    right
    by_cases h : l = [LF]
    · subst h; exact ⟨_, by simp [bodyOf]; rfl⟩
    · exact ⟨_, by simp [bodyOf, h]; rfl⟩

theorem cc_safe : pieceSafe (str "Cc: recipient list not shown: ;\n") = true ∧
    pieceSafe (str "Resent-Cc: recipient list not shown: ;\n") = true ∧ pieceSafe [] = true := by
  decide +kernel

end Nq.Lemmas.C17Hid
