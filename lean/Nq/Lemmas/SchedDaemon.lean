/-
  Lemmas about the daemon's use of the heaps (qmail-send.c pass_dochan / pqrun / pqfinish / pqadd) as
  modelled in Nq/Sched.lean.  Core Lean only.
-/
import Nq.Lemmas.SchedHeap

namespace Nq.Lemmas.Sched
open Nq.Sched

/-! ### pass_dochan: which message is started -/

theorem passStart_spec (recent : Int) (ja : Bool) (q q' : PQ) (pe : Elt) (h : Heap q)
    (hs : passStart recent ja q = some (pe, q')) :
    ja = true ∧ pe.dt ≤ recent ∧ (∀ e ∈ q.toList, pe.dt ≤ e.dt) ∧ q.toList.Perm (pe :: q'.toList) ∧ Heap q' := by
  unfold passStart at hs
  cases ja with
  | false => simp at hs
  | true =>
    simp only [Bool.not_true, Bool.false_eq_true, if_false] at hs
    cases hm : q.min with
    | none => rw [hm] at hs; simp at hs
    | some m =>
      rw [hm] at hs
      simp only at hs
      by_cases hd : m.dt > recent
      · rw [if_pos hd] at hs; cases hs
      · rw [if_neg hd] at hs
        have hs' := Option.some.inj hs
        have e1 : m = pe := congrArg Prod.fst hs'
        have e2 : q.delmin = q' := congrArg Prod.snd hs'
        subst e1; subst e2
        obtain ⟨hne, hm0⟩ := min_eq q m hm
        have hsp := delmin_spec q h hne
        refine ⟨rfl, Int.not_lt.mp hd, ?_, ?_, hsp.1⟩
        · intro e he; rw [hm0]; exact heap_root_le_mem q h e he
        · rw [hm0]; exact hsp.2

theorem passStart_prompt (recent : Int) (q : PQ) (h : Heap q) (e : Elt) (he : e ∈ q.toList)
    (hdue : e.dt ≤ recent) : (passStart recent true q).isSome = true := by
  unfold passStart
  simp only [Bool.not_true, Bool.false_eq_true, if_false]
  cases hm : q.min with
  | none =>
    have := min_none q hm
    have : q.toList = [] := by apply List.eq_nil_of_length_eq_zero; simpa using this
    rw [this] at he; cases he
  | some m =>
    simp only
    obtain ⟨_, hm0⟩ := min_eq q m hm
    have := heap_root_le_mem q h e he
    rw [← hm0] at this
    have : ¬ m.dt > recent := Int.not_lt.mpr (Int.le_trans this hdue)
    rw [if_neg this]; rfl

theorem passStart_none_notdue (recent : Int) (q : PQ) (h : Heap q)
    (hs : passStart recent true q = none) : ∀ e ∈ q.toList, recent < e.dt := by
  intro e he
  by_cases hd : e.dt ≤ recent
  · have := passStart_prompt recent q h e he hd
    rw [hs] at this; cases this
  · exact Int.not_le.mp hd

/-- everything that is due is started, earliest-due first, and nothing else -/
theorem drainDue_spec (recent : Int) : ∀ (f : Nat) (q : PQ), Heap q → q.size ≤ f →
    (drainDue recent f q).1.Pairwise (fun a b => a.dt ≤ b.dt) ∧
    q.toList.Perm ((drainDue recent f q).1 ++ (drainDue recent f q).2.toList) ∧
    (∀ e ∈ (drainDue recent f q).1, e.dt ≤ recent) ∧
    (∀ e ∈ (drainDue recent f q).2.toList, recent < e.dt) ∧ Heap (drainDue recent f q).2 := by
  intro f
  induction f with
  | zero =>
    intro q h hs
    have hz : q.size = 0 := by omega
    have : q.toList = [] := by apply List.eq_nil_of_length_eq_zero; simpa using hz
    simp [drainDue, this, h]
  | succ f ih =>
    intro q h hs
    simp only [drainDue]
    cases hp : passStart recent true q with
    | none =>
      simp only
      exact ⟨List.Pairwise.nil, by simp, by simp, passStart_none_notdue recent q h hp, h⟩
    | some r =>
      obtain ⟨pe, q'⟩ := r
      simp only
      obtain ⟨_, hdue, hmin, hperm, hh'⟩ := passStart_spec recent true q q' pe h hp
      have hlen : q'.size ≤ f := by
        have := hperm.length_eq
        simp at this; omega
      obtain ⟨i1, i2, i3, i4, i5⟩ := ih q' hh' hlen
      refine ⟨?_, ?_, ?_, i4, i5⟩
      · refine List.Pairwise.cons ?_ i1
        intro b hb
        apply hmin
        apply (hperm.mem_iff).mpr
        apply List.mem_cons_of_mem
        apply (i2.mem_iff).mpr
        exact List.mem_append_left _ hb
      · exact hperm.trans ((List.perm_cons pe).mpr i2)
      · intro e he
        rcases List.mem_cons.mp he with he | he
        · rw [he]; exact hdue
        · exact i3 e he

/-! ### pqrun (ALRM) -/

theorem pqrun_toList (recent : Int) (q : PQ) :
    (pqrun recent q).toList = q.toList.map fun e => { e with dt := recent } := by
  unfold pqrun; rw [Array.toList_map]

theorem pqrun_get (recent : Int) (q : PQ) (k : Nat) (hk : k < q.size) : (pqrun recent q)[k]!.dt = recent := by
  unfold pqrun
  rw [getElem!_pos _ k (by simpa using hk), Array.getElem_map]

theorem pqrun_heap (recent : Int) (q : PQ) : Heap (pqrun recent q) := by
  intro k hk0 hk
  have hs : (pqrun recent q).size = q.size := by unfold pqrun; simp
  rw [hs] at hk
  rw [pqrun_get recent q k hk, pqrun_get recent q _ (by omega)]
  exact Int.le_refl _

/-! ### pqfinish / pqadd (TERM and restart) -/

theorem pqfinish_perm : ∀ (f : Nat) (q : PQ), Heap q → q.size ≤ f → (pqfinish f q).Perm q.toList := by
  intro f
  induction f with
  | zero =>
    intro q _ hs
    have hz : q.size = 0 := by omega
    have : q.toList = [] := by apply List.eq_nil_of_length_eq_zero; simpa using hz
    simp [pqfinish, this]
  | succ f ih =>
    intro q h hs
    simp only [pqfinish]
    cases hm : q.min with
    | none =>
      have := min_none q hm
      have : q.toList = [] := by apply List.eq_nil_of_length_eq_zero; simpa using this
      simp [this]
    | some m =>
      simp only
      obtain ⟨hne, hm0⟩ := min_eq q m hm
      have hsp := delmin_spec q h hne
      have hlen : q.delmin.size ≤ f := by
        have := hsp.2.length_eq
        simp at this; omega
      rw [hm0]
      exact ((List.perm_cons _).mpr (ih q.delmin hsp.1 hlen)).trans hsp.2.symm

theorem writeAll_other (l : List Elt) : ∀ (m : Mtimes) (i : Nat), i ∉ l.map (·.id) → (m.writeAll l) i = m i := by
  induction l with
  | nil => intro m i _; rfl
  | cons x r ih =>
    intro m i hi
    simp only [List.map_cons, List.mem_cons, not_or] at hi
    show (Mtimes.writeAll (m.write x) r) i = m i
    rw [ih (m.write x) i hi.2]
    simp [Mtimes.write, hi.1]

theorem writeAll_get (l : List Elt) : ∀ (m : Mtimes), (l.map (·.id)).Nodup → ∀ e ∈ l, (m.writeAll l) e.id = some e.dt := by
  induction l with
  | nil => intro m _ e he; cases he
  | cons x r ih =>
    intro m hn e he
    simp only [List.map_cons, List.nodup_cons] at hn
    show (Mtimes.writeAll (m.write x) r) e.id = some e.dt
    rcases List.mem_cons.mp he with he | he
    · subst he
      rw [writeAll_other r (m.write e) e.id hn.1]
      simp [Mtimes.write]
    · exact ih (m.write x) hn.2 e he

theorem filterMap_congr' {α β} (f g : α → Option β) : ∀ (l : List α), (∀ x ∈ l, f x = g x) →
    l.filterMap f = l.filterMap g := by
  intro l
  induction l with
  | nil => intro _; rfl
  | cons x r ih =>
    intro h
    rw [List.filterMap_cons, List.filterMap_cons, h x (List.mem_cons_self ..), ih (fun y hy => h y (List.mem_cons_of_mem _ hy))]

/-- what `pqadd` turns a directory entry into -/
def loadElt (m : Mtimes) (i : Nat) : Option Elt := (m i).map fun t => { dt := t, id := i }

theorem pqaddChan_eq (m : Mtimes) (q : PQ) (i : Nat) :
    pqaddChan m q i = match loadElt m i with | none => q | some e => q.insert e := by
  unfold pqaddChan loadElt
  cases m i <;> rfl

theorem pqstart_from (m : Mtimes) : ∀ (ids : List Nat) (q0 : PQ), Heap q0 →
    Heap (ids.foldl (pqaddChan m) q0) ∧
    (ids.foldl (pqaddChan m) q0).toList.Perm (ids.filterMap (loadElt m) ++ q0.toList) := by
  intro ids
  induction ids with
  | nil => intro q0 h; exact ⟨h, by simp⟩
  | cons i r ih =>
    intro q0 h
    simp only [List.foldl_cons, List.filterMap_cons]
    rw [pqaddChan_eq]
    cases hl : loadElt m i with
    | none => simpa using ih q0 h
    | some e =>
      simp only
      have hi := insert_spec q0 e h
      obtain ⟨i1, i2⟩ := ih (q0.insert e) hi.1
      refine ⟨i1, ?_⟩
      refine i2.trans ?_
      refine (List.Perm.append_left _ hi.2).trans ?_
      simpa using List.perm_middle

theorem restart_perm (q : PQ) (m0 : Mtimes) (ids : List Nat) (h : Heap q)
    (hn : (q.toList.map (·.id)).Nodup) (hids : ids.Perm (q.toList.map (·.id))) :
    Heap (pqstart (m0.writeAll (pqfinish q.size q)) ids) ∧
    (pqstart (m0.writeAll (pqfinish q.size q)) ids).toList.Perm q.toList := by
  have hf := pqfinish_perm q.size q h (Nat.le_refl _)
  have hnl : ((pqfinish q.size q).map (·.id)).Nodup := ((hf.map (·.id)).nodup_iff).mpr hn
  have hget := writeAll_get (pqfinish q.size q) m0 hnl
  obtain ⟨s1, s2⟩ := pqstart_from (m0.writeAll (pqfinish q.size q)) ids #[] heap_empty
  refine ⟨s1, ?_⟩
  unfold pqstart
  refine s2.trans ?_
  simp only [Array.toList_empty, List.append_nil] at *
  have hids' : ids.Perm ((pqfinish q.size q).map (·.id)) := hids.trans (hf.map (·.id)).symm
  refine (hids'.filterMap _).trans ?_
  rw [List.filterMap_map]
  have : List.filterMap (loadElt (m0.writeAll (pqfinish q.size q)) ∘ fun e => e.id) (pqfinish q.size q)
      = List.filterMap some (pqfinish q.size q) := by
    apply filterMap_congr'
    intro e he
    simp only [Function.comp, loadElt, hget e he, Option.map_some]
  rw [this, List.filterMap_some]
  exact hf

end Nq.Lemmas.Sched
