/-
  Lemmas about the session machine of `Nq.Pop3`: the little file-system algebra behind
  pop3_quit, and the invariance of the message table.
-/
import Nq.Pop3

namespace Nq.Lemmas.Pop3
open Nq Nq.Pop3

/-! ### fsFind / fsUnlink / fsRename -/

theorem find_cons (f : File) (fs : FS) (p : Bytes) :
    fsFind (f :: fs) p = if f.path = p then some f else fsFind fs p := by
  simp only [fsFind, List.find?_cons]
  by_cases h : f.path = p
  · simp [h]
  · have hb : (f.path == p) = false := beq_eq_false_iff_ne.mpr h
    rw [hb]; simp [h]

theorem unlink_cons (f : File) (fs : FS) (q : Bytes) :
    fsUnlink (f :: fs) q = if f.path = q then fsUnlink fs q else f :: fsUnlink fs q := by
  simp only [fsUnlink, List.filter_cons]
  by_cases h : f.path = q
  · simp [h]
  · have hb : (f.path != q) = true := bne_iff_ne.mpr h
    rw [hb]; simp [h]

theorem find_unlink_other (fs : FS) (p q : Bytes) (h : p ≠ q) :
    fsFind (fsUnlink fs q) p = fsFind fs p := by
  induction fs with
  | nil => rfl
  | cons f fs ih =>
    rw [unlink_cons, find_cons]
    by_cases h1 : f.path = q
    · have : f.path ≠ p := fun hh => h (hh.symm.trans h1)
      simp only [h1, if_true]
      rw [ih]
      simp [show q ≠ p from fun hh => h hh.symm]
    · simp only [h1, if_false]
      rw [find_cons, ih]

theorem find_unlink_self (fs : FS) (p : Bytes) : fsFind (fsUnlink fs p) p = none := by
  induction fs with
  | nil => rfl
  | cons f fs ih =>
    rw [unlink_cons]
    by_cases h1 : f.path = p
    · simp only [h1, if_true]; exact ih
    · simp only [h1, if_false]
      rw [find_cons]
      simp only [h1, if_false]; exact ih

theorem find_unlink_absent (fs : FS) (p q : Bytes) (h : fsFind fs p = none) :
    fsFind (fsUnlink fs q) p = none := by
  by_cases hpq : p = q
  · subst hpq; exact find_unlink_self fs p
  · rw [find_unlink_other fs p q hpq]; exact h

theorem find_map_rename (fs : FS) (a b p : Bytes) (f : File) (ha : p ≠ a) (hb : p ≠ b) :
    fsFind (fs.map (fun g => if g.path == a then { f with path := b } else g)) p = fsFind fs p := by
  induction fs with
  | nil => rfl
  | cons g fs ih =>
    rw [List.map_cons, find_cons, find_cons, ih]
    by_cases h1 : g.path = a
    · have h2 : g.path ≠ p := fun hh => ha (hh.symm.trans h1)
      have h3 : b ≠ p := fun hh => hb hh.symm
      simp [h1, h3, show a ≠ p from fun hh => ha hh.symm]
    · simp [h1]

theorem find_rename_other (fs : FS) (a b p : Bytes) (ha : p ≠ a) (hb : p ≠ b) :
    fsFind (fsRename fs a b) p = fsFind fs p := by
  unfold fsRename
  cases fsFind fs a with
  | none => rfl
  | some f =>
    by_cases hab : a = b
    · simp [hab]
    · show fsFind (if (a == b) = true then fs else _) p = _
      rw [if_neg (by simpa using hab)]
      rw [find_map_rename _ a b p f ha hb, find_unlink_other fs p b hb]

theorem find_rename_absent (fs : FS) (a b p : Bytes) (h : fsFind fs p = none) (hb : p ≠ b) :
    fsFind (fsRename fs a b) p = none := by
  by_cases ha : p = a
  · subst ha
    simp [fsRename, h]
  · rw [find_rename_other fs a b p ha hb]; exact h

/-- the name pop3_quit gives a message found in new/ -/
def seenName (fn : Bytes) : Bytes := curSl ++ fn.drop 4 ++ seenSuffix

/-- the new name starts with "cur/" -/
theorem seenName_take (fn : Bytes) : (seenName fn).take 4 = curSl := by
  simp [seenName, curSl]

theorem seenName_ne_new (fn p : Bytes) (hp : p.take 4 = newSl) : seenName fn ≠ p := by
  intro h
  have := seenName_take fn
  rw [h, hp] at this
  exact absurd this (by decide)

/-- two messages of new/ with the same new name are the same message -/
theorem seenName_inj (a b : Bytes) (ha : a.take 4 = newSl) (hb : b.take 4 = newSl)
    (h : seenName a = seenName b) : a = b := by
  unfold seenName at h
  have h1 : a.drop 4 = b.drop 4 := by
    have := List.append_cancel_right h
    exact List.append_cancel_left this
  rw [← List.take_append_drop 4 a, ← List.take_append_drop 4 b, ha, hb, h1]

/-- rename(2) of an existing file onto another name: afterwards the target name holds exactly the
old file (same data and times) and the old name is gone -/
theorem find_rename_target (fs : FS) (a b : Bytes) (f : File) (hf : fsFind fs a = some f) (hab : a ≠ b) :
    fsFind (fsRename fs a b) b = some { f with path := b } ∧ fsFind (fsRename fs a b) a = none := by
  have key : ∀ l : FS, fsFind l b = none →
      fsFind (l.map (fun g => if g.path == a then { f with path := b } else g)) b =
        (fsFind l a).map (fun _ => { f with path := b }) ∧
      fsFind (l.map (fun g => if g.path == a then { f with path := b } else g)) a = none := by
    intro l
    induction l with
    | nil => intro _; exact ⟨rfl, rfl⟩
    | cons g l ih =>
      intro hb
      rw [find_cons] at hb
      by_cases hgb : g.path = b
      · simp [hgb] at hb
      · rw [if_neg hgb] at hb
        obtain ⟨ih1, ih2⟩ := ih hb
        rw [List.map_cons, find_cons, find_cons, find_cons, ih1, ih2]
        by_cases hga : g.path = a
        · have hba : b ≠ a := fun e => hab e.symm
          simp [hga, hba]
        · simp [hga, hgb]
  unfold fsRename
  rw [hf]
  show fsFind (if (a == b) = true then fs else _) b = _ ∧ fsFind (if (a == b) = true then fs else _) a = none
  rw [if_neg (by simpa using hab)]
  obtain ⟨k1, k2⟩ := key (fsUnlink fs b) (find_unlink_self fs b)
  refine ⟨?_, k2⟩
  rw [k1, find_unlink_other fs a b hab, hf]
  rfl

/-- a file that is neither a marked message, nor an unmarked message in new/, nor the new name of
an unmarked message of new/, is still there after pop3_quit, unchanged -/
theorem quit_keeps (msgs : List Msg) : ∀ (fs : FS) (out p : Bytes) (f : File),
    fsFind fs p = some f →
    (∀ m ∈ msgs, m.fn = p → m.del = false ∧ (m.fn.take 4 == newSl) = false) →
    (∀ m ∈ msgs, m.del = false → (m.fn.take 4 == newSl) = true → seenName m.fn ≠ p) →
    fsFind (quitLoop msgs fs out).1 p = some f := by
  induction msgs with
  | nil => intro fs out p f h _ _; simpa [quitLoop] using h
  | cons m rest ih =>
    intro fs out p f h h1 h2
    have h1' : ∀ m ∈ rest, m.fn = p → m.del = false ∧ (m.fn.take 4 == newSl) = false :=
      fun x hx => h1 x (by simp [hx])
    have h2' : ∀ m ∈ rest, m.del = false → (m.fn.take 4 == newSl) = true → seenName m.fn ≠ p :=
      fun x hx => h2 x (by simp [hx])
    unfold quitLoop
    by_cases hd : m.del = true
    · have hne : p ≠ m.fn := fun hh => by
        have := (h1 m (by simp) hh.symm).1
        simp [hd] at this
      simp only [hd, if_true]
      cases hfm : fsFind fs m.fn with
      | some g => exact ih _ _ p f (by rw [find_unlink_other fs p m.fn hne]; exact h) h1' h2'
      | none => exact ih _ _ p f h h1' h2'
    · simp only [hd, if_false]
      by_cases hn : (m.fn.take 4 == newSl) = true
      · have hne : p ≠ m.fn := fun hh => by
          have := (h1 m (by simp) hh.symm).2
          simp [hn] at this
        have hnt : p ≠ seenName m.fn := fun hh => h2 m (by simp) (by simpa using hd) hn hh.symm
        simp only [hn, if_true]
        exact ih _ _ p f (by rw [show curSl ++ m.fn.drop 4 ++ seenSuffix = seenName m.fn from rfl,
                                  find_rename_other fs m.fn _ p hne hnt]; exact h) h1' h2'
      · simp only [hn]
        exact ih _ _ p f h h1' h2'

/-- a path that is absent and is nobody's new name stays absent -/
theorem quit_absent (msgs : List Msg) : ∀ (fs : FS) (out p : Bytes),
    fsFind fs p = none → (∀ m ∈ msgs, seenName m.fn ≠ p) →
    fsFind (quitLoop msgs fs out).1 p = none := by
  induction msgs with
  | nil => intro fs out p h _; simpa [quitLoop] using h
  | cons m rest ih =>
    intro fs out p h h2
    have h2' : ∀ m ∈ rest, seenName m.fn ≠ p := fun x hx => h2 x (by simp [hx])
    have hnt : p ≠ seenName m.fn := fun hh => h2 m (by simp) hh.symm
    unfold quitLoop
    by_cases hd : m.del = true
    · simp only [hd, if_true]
      cases hfm : fsFind fs m.fn with
      | some g => exact ih _ _ p (find_unlink_absent fs p m.fn h) h2'
      | none => exact ih _ _ p h h2'
    · simp only [hd, if_false]
      by_cases hn : (m.fn.take 4 == newSl) = true
      · simp only [hn, if_true]
        exact ih _ _ p (find_rename_absent fs m.fn _ p h hnt) h2'
      · simp only [hn]
        exact ih _ _ p h h2'

/-- every marked message is gone after pop3_quit (unless another message is renamed onto it) -/
theorem quit_removes (msgs : List Msg) : ∀ (fs : FS) (out : Bytes) (m : Msg),
    m ∈ msgs → m.del = true → (∀ x ∈ msgs, seenName x.fn ≠ m.fn) →
    fsFind (quitLoop msgs fs out).1 m.fn = none := by
  induction msgs with
  | nil => intro fs out m hm; simp at hm
  | cons x rest ih =>
    intro fs out m hm hd h2
    have h2' : ∀ y ∈ rest, seenName y.fn ≠ m.fn := fun y hy => h2 y (by simp [hy])
    rcases List.mem_cons.mp hm with hx | hx
    · subst hx
      unfold quitLoop
      simp only [hd, if_true]
      cases hfm : fsFind fs m.fn with
      | some g => exact quit_absent rest _ _ m.fn (find_unlink_self fs m.fn) h2'
      | none => exact quit_absent rest _ _ m.fn hfm h2'
    · unfold quitLoop
      split
      · split <;> exact ih _ _ m hx hd h2'
      · split <;> exact ih _ _ m hx hd h2'

/-- **an unmarked message found in new/ is, after pop3_quit, in cur/ under its name plus ":2,"** —
the same file (data, times), and its old name is gone. Message names unique; the new name is not
that of a marked message. -/
theorem quit_renames (msgs : List Msg) : ∀ (fs : FS) (out : Bytes) (m : Msg) (f : File),
    m ∈ msgs → m.del = false → m.fn.take 4 = newSl → fsFind fs m.fn = some f →
    (msgs.map (·.fn)).Nodup → (∀ x ∈ msgs, x.fn = seenName m.fn → x.del = false) →
    fsFind (quitLoop msgs fs out).1 (seenName m.fn) = some { f with path := seenName m.fn } ∧
    fsFind (quitLoop msgs fs out).1 m.fn = none := by
  induction msgs with
  | nil => intro fs out m f hm; simp at hm
  | cons x rest ih =>
    intro fs out m f hm hd hn hf hu h2
    simp only [List.map_cons, List.nodup_cons] at hu
    have h2' : ∀ y ∈ rest, y.fn = seenName m.fn → y.del = false := fun y hy => h2 y (by simp [hy])
    rcases List.mem_cons.mp hm with hx | hx
    · subst hx
      have hnb : (m.fn.take 4 == newSl) = true := by simpa using hn
      have hab : m.fn ≠ seenName m.fn := fun e => seenName_ne_new m.fn m.fn hn e.symm
      obtain ⟨t1, t2⟩ := find_rename_target fs m.fn (seenName m.fn) f hf hab
      unfold quitLoop
      simp only [hd, hnb, if_true, Bool.false_eq_true, if_false]
      refine ⟨?_, ?_⟩
      · apply quit_keeps rest _ _ _ _ t1
        · intro y hy e
          refine ⟨h2' y hy e, ?_⟩
          rw [e, seenName_take]; decide
        · intro y hy yd yn e
          have : y.fn = m.fn := seenName_inj y.fn m.fn (by simpa using yn) hn e
          exact hu.1 (this ▸ List.mem_map_of_mem hy)
      · exact quit_absent rest _ _ m.fn t2 (fun y _ => seenName_ne_new y.fn m.fn hn)
    · have hne : m.fn ≠ x.fn := fun e => hu.1 (e ▸ List.mem_map_of_mem hx)
      have step : ∀ fs' out', fsFind fs' m.fn = some f →
          fsFind (quitLoop rest fs' out').1 (seenName m.fn) = some { f with path := seenName m.fn } ∧
          fsFind (quitLoop rest fs' out').1 m.fn = none :=
        fun fs' out' hf' => ih fs' out' m f hx hd hn hf' hu.2 h2'
      unfold quitLoop
      split
      · split
        · exact step _ _ (by rw [find_unlink_other fs m.fn x.fn hne]; exact hf)
        · exact step _ _ hf
      · split
        · apply step
          rw [show curSl ++ x.fn.drop 4 ++ seenSuffix = seenName x.fn from rfl,
            find_rename_other fs x.fn _ m.fn hne (fun e => seenName_ne_new x.fn m.fn hn e.symm)]
          exact hf
        · exact step _ _ hf

/-! ### the message table -/

/-- what a message number denotes: the file and the size announced for it -/
def ident (m : Msg) : Bytes × Nat := (m.fn, m.size)

theorem setDel_ident (msgs : List Msg) : ∀ i, (setDel msgs i).map ident = msgs.map ident := by
  induction msgs with
  | nil => intro i; rfl
  | cons m rest ih =>
    intro i
    cases i with
    | zero => simp [setDel, ident]
    | succ i => simp [setDel, ih]

theorem unmark_ident (msgs : List Msg) :
    (msgs.map (fun m => { m with del := false })).map ident = msgs.map ident := by
  induction msgs with
  | nil => rfl
  | cons m rest ih => simp_all [ident]

/-! ### helpers of the property theorems -/

/-- One command never changes which file (and which announced size) a message number denotes,
nor how many messages there are. -/
theorem exec_ident (s : Sess) (verb arg : Bytes) :
    (exec s verb arg).1.msgs.map ident = s.msgs.map ident := by
  unfold exec
  repeat' split
  all_goals simp [setDel_ident, unmark_ident, ident]

theorem feedByte_ident (r : Run) (c : Byte) : (feedByte r c).s.msgs.map ident = r.s.msgs.map ident := by
  unfold feedByte
  split
  · rfl
  · split
    · exact exec_ident _ _ _
    · rfl

theorem feedBytes_ident (b : Bytes) : ∀ r : Run, (b.foldl feedByte r).s.msgs.map ident = r.s.msgs.map ident := by
  induction b with
  | nil => intro r; rfl
  | cons c b ih => intro r; rw [List.foldl_cons, ih, feedByte_ident]

/-- **Nothing is unlinked or renamed before QUIT**, and only QUIT ends the session. -/
theorem exec_nonquit (s : Sess) (verb arg : Bytes) (h : verbIs vQuit verb = false) :
    (exec s verb arg).1.fs = s.fs ∧ (exec s verb arg).2.2 = none := by
  unfold exec
  simp only [h]
  repeat' split
  all_goals simp_all

/-- the maildir if only other processes touched it -/
def vanished : List Ev → FS → FS
  | [], fs => fs
  | .data _ :: rest, fs => vanished rest fs
  | .vanish p :: rest, fs => vanished rest (fsUnlink fs p)

theorem feedByte_exit_some (r : Run) (c : Byte) (x : Nat) (h : r.exit = some x) : feedByte r c = r := by
  unfold feedByte; simp [h]

theorem feedBytes_exit_some (b : Bytes) : ∀ (r : Run) (x : Nat), r.exit = some x → b.foldl feedByte r = r := by
  induction b with
  | nil => intro r x _; rfl
  | cons c b ih => intro r x h; rw [List.foldl_cons, feedByte_exit_some r c x h]; exact ih r x h

theorem feedEv_exit_some (e : Ev) (r : Run) (x : Nat) (h : r.exit = some x) : feedEv r e = r := by
  cases e with
  | data b => exact feedBytes_exit_some b r x h
  | vanish p => rw [feedEv_vanish]; simp [h]

theorem feedEvs_exit_some (evs : List Ev) : ∀ (r : Run) (x : Nat), r.exit = some x → evs.foldl feedEv r = r := by
  induction evs with
  | nil => intro r x _; rfl
  | cons e evs ih => intro r x h; rw [List.foldl_cons, feedEv_exit_some e r x h]; exact ih r x h

theorem feedByte_fs (r : Run) (c : Byte) (h : (feedByte r c).exit = none) : (feedByte r c).s.fs = r.s.fs := by
  unfold feedByte at h ⊢
  split
  · rfl
  · split
    · rename_i hc
      by_cases hq : verbIs vQuit (parseLine r.cmd.reverse).1 = true
      · -- QUIT always exits
        exfalso
        simp [hc, exec, hq] at h
        split at h <;> simp_all
      · exact (exec_nonquit _ _ _ (by simpa using hq)).1
    · rfl

theorem feedBytes_fs (b : Bytes) : ∀ r : Run, (b.foldl feedByte r).exit = none → (b.foldl feedByte r).s.fs = r.s.fs := by
  induction b with
  | nil => intro r _; rfl
  | cons c b ih =>
    intro r h
    rw [List.foldl_cons] at h ⊢
    have h1 : (feedByte r c).exit = none := by
      cases hx : (feedByte r c).exit with
      | none => rfl
      | some x => rw [feedBytes_exit_some b _ x hx] at h; rw [hx] at h; exact absurd h (by simp)
    rw [ih _ h, feedByte_fs r c h1]

theorem errLine_take (t : String) : (errLine t).take 5 = errSp := by simp [errLine, errSp]

theorem takeWhile_stop {α} (p : α → Bool) (l r : List α) (x : α) (hl : ∀ a ∈ l, p a = true) (hx : p x = false) :
    (l ++ x :: r).takeWhile p = l := by
  induction l with
  | nil => simp [List.takeWhile_cons, hx]
  | cons c n ih =>
    have hc : p c = true := hl c (by simp)
    simp [List.takeWhile_cons, hc, ih (fun a ha => hl a (by simp [ha]))]

theorem dropWhile_stop {α} (p : α → Bool) (l r : List α) (x : α) (hl : ∀ a ∈ l, p a = true) (hx : p x = false) :
    (l ++ x :: r).dropWhile p = x :: r := by
  induction l with
  | nil => simp [List.dropWhile_cons, hx]
  | cons c n ih =>
    have hc : p c = true := hl c (by simp)
    simp [List.dropWhile_cons, hc, ih (fun a ha => hl a (by simp [ha]))]


end Nq.Lemmas.Pop3
