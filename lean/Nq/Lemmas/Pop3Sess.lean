/-
  Lemmas about the session machine of `Nq.Pop3`: the little file-system algebra behind
  pop3_quit, and the invariance of the message table.
-/
import Nq.Pop3

namespace Nq.Lemmas.Pop3
open Nq Nq.Pop3

/-! ### fsFind / fsUnlink / fsRename -/

theorem find_unlink_other (fs : FS) (p q : Bytes) (h : p ≠ q) :
    fsFind (fsUnlink fs q) p = fsFind fs p := by
  induction fs with
  | nil => rfl
  | cons f fs ih =>
    unfold fsFind fsUnlink at *
    by_cases h1 : f.path = q
    · have : f.path ≠ p := fun hh => h (hh.symm.trans h1)
      simp [List.filter, h1, List.find?, this, ih]
    · by_cases h2 : f.path = p
      · simp [List.filter, h1, List.find?, h2]
      · simp [List.filter, h1, List.find?, h2, ih]

theorem find_unlink_self (fs : FS) (p : Bytes) : fsFind (fsUnlink fs p) p = none := by
  induction fs with
  | nil => rfl
  | cons f fs ih =>
    unfold fsFind fsUnlink at *
    by_cases h1 : f.path = p
    · simp [List.filter, h1, ih]
    · simp [List.filter, h1, List.find?, ih]

theorem find_unlink_absent (fs : FS) (p q : Bytes) (h : fsFind fs p = none) :
    fsFind (fsUnlink fs q) p = none := by
  by_cases hpq : p = q
  · subst hpq; exact find_unlink_self fs p
  · rw [find_unlink_other fs p q hpq]; exact h

theorem find_map_rename (fs : FS) (a b p : Bytes) (f : File) (ha : p ≠ a) (hb : p ≠ b) :
    fsFind (fs.map (fun g => if g.path == a then { f with path := b } else g)) p = fsFind fs p := by
  induction fs with
  | nil => rfl
  | cons g fs ih =>
    unfold fsFind at *
    by_cases h1 : g.path = a
    · have h2 : g.path ≠ p := fun hh => ha (hh.symm.trans h1)
      have h3 : b ≠ p := fun hh => hb hh.symm
      simp [List.find?, h1, h2, h3]
      simpa [h1] using ih
    · by_cases h2 : g.path = p
      · simp [List.find?, h1, h2]
      · simp [List.find?, h1, h2]
        simpa using ih

theorem find_rename_other (fs : FS) (a b p : Bytes) (ha : p ≠ a) (hb : p ≠ b) :
    fsFind (fsRename fs a b) p = fsFind fs p := by
  unfold fsRename
  cases fsFind fs a with
  | none => rfl
  | some f =>
    by_cases hab : a = b
    · simp [hab]
    · simp only [beq_iff_eq, hab, if_false]
      rw [find_map_rename _ a b p f ha hb, find_unlink_other fs p b hb]

theorem find_rename_absent (fs : FS) (a b p : Bytes) (h : fsFind fs p = none) (hb : p ≠ b) :
    fsFind (fsRename fs a b) p = none := by
  by_cases ha : p = a
  · subst ha
    simp [fsRename, h]
  · rw [find_rename_other fs a b p ha hb]; exact h

/-- the name pop3_quit gives a message found in new/ -/
def seenName (fn : Bytes) : Bytes := curSl ++ fn.drop 4 ++ seenSuffix

/-- a file that is neither a marked message, nor an unmarked message in new/, nor the new name of
one, is still there after pop3_quit, unchanged -/
theorem quit_keeps (msgs : List Msg) : ∀ (fs : FS) (out p : Bytes) (f : File),
    fsFind fs p = some f →
    (∀ m ∈ msgs, m.fn = p → m.del = false ∧ (m.fn.take 4 == newSl) = false) →
    (∀ m ∈ msgs, seenName m.fn ≠ p) →
    fsFind (quitLoop msgs fs out).1 p = some f := by
  induction msgs with
  | nil => intro fs out p f h _ _; simpa [quitLoop] using h
  | cons m rest ih =>
    intro fs out p f h h1 h2
    have h1' : ∀ m ∈ rest, m.fn = p → m.del = false ∧ (m.fn.take 4 == newSl) = false :=
      fun x hx => h1 x (by simp [hx])
    have h2' : ∀ m ∈ rest, seenName m.fn ≠ p := fun x hx => h2 x (by simp [hx])
    unfold quitLoop
    by_cases hd : m.del = true
    · have hne : p ≠ m.fn := fun hh => by
        have := (h1 m (by simp) hh.symm).1
        simp [hd] at this
      simp only [hd, if_true]
      cases hfm : fsFind fs m.fn with
      | some g => exact ih _ _ p f (by rw [find_unlink_other fs p m.fn hne]; exact h) h1' h2'
      | none => exact ih _ _ p f h h1' h2'
    · simp only [hd, if_false]
      by_cases hn : (m.fn.take 4 == newSl) = true
      · have hne : p ≠ m.fn := fun hh => by
          have := (h1 m (by simp) hh.symm).2
          simp [hn] at this
        have hnt : p ≠ seenName m.fn := fun hh => h2 m (by simp) hh.symm
        simp only [hn, if_true]
        exact ih _ _ p f (by rw [show curSl ++ m.fn.drop 4 ++ seenSuffix = seenName m.fn from rfl,
                                  find_rename_other fs m.fn _ p hne hnt]; exact h) h1' h2'
      · simp only [hn]
        exact ih _ _ p f h h1' h2'

/-- a path that is absent and is nobody's new name stays absent -/
theorem quit_absent (msgs : List Msg) : ∀ (fs : FS) (out p : Bytes),
    fsFind fs p = none → (∀ m ∈ msgs, seenName m.fn ≠ p) →
    fsFind (quitLoop msgs fs out).1 p = none := by
  induction msgs with
  | nil => intro fs out p h _; simpa [quitLoop] using h
  | cons m rest ih =>
    intro fs out p h h2
    have h2' : ∀ m ∈ rest, seenName m.fn ≠ p := fun x hx => h2 x (by simp [hx])
    have hnt : p ≠ seenName m.fn := fun hh => h2 m (by simp) hh.symm
    unfold quitLoop
    by_cases hd : m.del = true
    · simp only [hd, if_true]
      cases hfm : fsFind fs m.fn with
      | some g => exact ih _ _ p (find_unlink_absent fs p m.fn h) h2'
      | none => exact ih _ _ p h h2'
    · simp only [hd, if_false]
      by_cases hn : (m.fn.take 4 == newSl) = true
      · simp only [hn, if_true]
        exact ih _ _ p (find_rename_absent fs m.fn _ p h hnt) h2'
      · simp only [hn]
        exact ih _ _ p h h2'

/-- every marked message is gone after pop3_quit (unless another message is renamed onto it) -/
theorem quit_removes (msgs : List Msg) : ∀ (fs : FS) (out : Bytes) (m : Msg),
    m ∈ msgs → m.del = true → (∀ x ∈ msgs, seenName x.fn ≠ m.fn) →
    fsFind (quitLoop msgs fs out).1 m.fn = none := by
  induction msgs with
  | nil => intro fs out m hm; simp at hm
  | cons x rest ih =>
    intro fs out m hm hd h2
    have h2' : ∀ y ∈ rest, seenName y.fn ≠ m.fn := fun y hy => h2 y (by simp [hy])
    rcases List.mem_cons.mp hm with hx | hx
    · subst hx
      unfold quitLoop
      simp only [hd, if_true]
      cases hfm : fsFind fs m.fn with
      | some g => exact quit_absent rest _ _ m.fn (find_unlink_self fs m.fn) h2'
      | none => exact quit_absent rest _ _ m.fn hfm h2'
    · unfold quitLoop
      split
      · split <;> exact ih _ _ m hx hd h2'
      · split <;> exact ih _ _ m hx hd h2'

/-! ### the message table -/

/-- what a message number denotes: the file and the size announced for it -/
def ident (m : Msg) : Bytes × Nat := (m.fn, m.size)

theorem setDel_ident (msgs : List Msg) : ∀ i, (setDel msgs i).map ident = msgs.map ident := by
  induction msgs with
  | nil => intro i; rfl
  | cons m rest ih =>
    intro i
    cases i with
    | zero => simp [setDel, ident]
    | succ i => simp [setDel, ih]

theorem unmark_ident (msgs : List Msg) :
    (msgs.map (fun m => { m with del := false })).map ident = msgs.map ident := by
  induction msgs with
  | nil => rfl
  | cons m rest ih => simp [ident] at *; exact ih

end Nq.Lemmas.Pop3
