/-
  C17 lemmas: how the per-field callback results accumulate into qmail-inject's recipient lists over
  the whole header (`doheaderfield` folded over the fields `headerbody` delivers).
-/
import Nq.Inject

namespace Nq.Lemmas.C17
open Nq Nq.Token822 Nq.Inject

/-- what a header field contributes to `hrlist` (`cls = 1`: To, Cc, Bcc, Apparently-To) or to `hrrlist`
(`cls = 2`: Resent-To, Resent-Cc, Resent-Bcc): the unquoted addresses its callback returned -/
def hrContribution (c : RwCfg) (cls : Nat) (h : Bytes) : List Bytes :=
  if (fieldClass (hfieldKnown h)).1 = cls then (rewriteField c true h).2.1.map addrString else []

theorem fieldClass_cases (n : Nat) :
    fieldClass n = (1, true) ∨ fieldClass n = (2, true) ∨ fieldClass n = (3, false) ∨ fieldClass n = (4, false) ∨
    fieldClass n = (0, false) := by
  unfold fieldClass
  split
  · exact Or.inl rfl
  · split
    · exact Or.inr (Or.inl rfl)
    · split
      · exact Or.inr (Or.inr (Or.inl rfl))
      · split
        · exact Or.inr (Or.inr (Or.inr (Or.inl rfl)))
        · exact Or.inr (Or.inr (Or.inr (Or.inr rfl)))

theorem fieldClass_skipped :
    (fieldClass Gen.H_FROM).1 = 4 ∧ (fieldClass Gen.H_MESSAGEID).1 = 0 ∧ (fieldClass Gen.H_RETURNPATH).1 = 3 ∧
    (fieldClass 0).1 = 0 := by decide

theorem setReturn_lists (e : Env) (st : ISt) (got : List (List Tok)) :
    (setReturn e st got).hrlist = st.hrlist ∧ (setReturn e st got).hrrlist = st.hrrlist ∧
    (setReturn e st got).seen = st.seen := by
  unfold setReturn
  split <;> simp

/-- **one field**: the two recipient lists grow by exactly the field's contribution -/
theorem doheaderfield_lists (e : Env) (c : RwCfg) (st : ISt) (h : Bytes) :
    (doheaderfield e c st h).hrlist = st.hrlist ++ (if st.dead.isSome then [] else hrContribution c 1 h) ∧
    (doheaderfield e c st h).hrrlist = st.hrrlist ++ (if st.dead.isSome then [] else hrContribution c 2 h) := by
  obtain ⟨k1, k2, k3, k4⟩ := fieldClass_skipped
  have hsr := setReturn_lists e
  unfold doheaderfield hrContribution
  generalize hfieldKnown h = k
  by_cases hd : st.dead.isSome = true
  · simp [hd]
  · simp only [hd, Bool.false_eq_true, if_false]
    by_cases h1 : (hasFlag e 'f' && decide (k = Gen.H_FROM)) = true
    · rw [if_pos h1]
      have hk : k = Gen.H_FROM := by simp at h1; exact h1.2
      have : (fieldClass k).1 = 4 := by rw [hk]; exact k1
      simp [this]
    · rw [if_neg h1]
      by_cases h2 : (hasFlag e 'i' && decide (k = Gen.H_MESSAGEID)) = true
      · rw [if_pos h2]
        have hk : k = Gen.H_MESSAGEID := by simp at h2; exact h2.2
        have : (fieldClass k).1 = 0 := by rw [hk]; exact k2
        simp [this]
      · rw [if_neg h2]
        by_cases h3 : (hasFlag e 's' && decide (k = Gen.H_RETURNPATH)) = true
        · rw [if_pos h3]
          have hk : k = Gen.H_RETURNPATH := by simp at h3; exact h3.2
          have : (fieldClass k).1 = 3 := by rw [hk]; exact k3
          simp [this]
        · rw [if_neg h3]
          by_cases h4 : (decide (k = 0) && !hfieldValid h) = true
          · rw [if_pos h4]
            have hk : k = 0 := by simp at h4; exact h4.1
            have : (fieldClass k).1 = 0 := by rw [hk]; exact k4
            simp [this]
          · rw [if_neg h4]
            generalize hst1 : (if k ≠ 0 then ({ st with seen := k :: st.seen } : ISt) else st) = st1
            have a1 : st1.hrlist = st.hrlist := by rw [← hst1]; split <;> rfl
            have a2 : st1.hrrlist = st.hrrlist := by rw [← hst1]; split <;> rfl
            clear h1 h2 h3 h4 k1 k2 k3 k4 hd hst1
            rcases fieldClass_cases k with hc | hc | hc | hc | hc <;>
              (simp only [hc]; repeat' split) <;> simp_all

/-- once dead, always dead -/
theorem doheaderfield_dead (e : Env) (c : RwCfg) (st : ISt) (h : Bytes) (hd : (doheaderfield e c st h).dead = none) :
    st.dead = none := by
  cases hs : st.dead with
  | none => rfl
  | some x =>
    have : doheaderfield e c st h = st := by simp [doheaderfield, hs]
    rw [this, hs] at hd
    exact absurd hd (by simp)

/-- **the whole header**: if qmail-inject survives all fields, the recipient lists are the concatenation of
the fields' contributions, in order -/
theorem header_lists (e : Env) (c : RwCfg) (fields : List Bytes) :
    ∀ (st : ISt), (fields.foldl (doheaderfield e c) st).dead = none →
      st.dead = none ∧
      (fields.foldl (doheaderfield e c) st).hrlist = st.hrlist ++ fields.flatMap (hrContribution c 1) ∧
      (fields.foldl (doheaderfield e c) st).hrrlist = st.hrrlist ++ fields.flatMap (hrContribution c 2) := by
  induction fields with
  | nil => intro st hd; exact ⟨hd, by simp, by simp⟩
  | cons h r ih =>
    intro st hd
    simp only [List.foldl_cons] at hd ⊢
    obtain ⟨d1, l1, l2⟩ := ih _ hd
    have d0 := doheaderfield_dead e c st h d1
    obtain ⟨f1, f2⟩ := doheaderfield_lists e c st h
    simp only [d0, Option.isSome_none, Bool.false_eq_true, if_false] at f1 f2
    refine ⟨d0, ?_, ?_⟩
    · rw [l1, f1]; simp
    · rw [l2, f2]; simp

theorem setReturn_dead (e : Env) (st : ISt) (got : List (List Tok)) : (setReturn e st got).dead = st.dead := by
  unfold setReturn
  split <;> simp

/-- `die_*()` always exits 100 -/
theorem doheaderfield_dead_cases (e : Env) (c : RwCfg) (st : ISt) (h : Bytes) :
    (doheaderfield e c st h).dead = st.dead ∨ (doheaderfield e c st h).dead = some 100 := by
  have hsr := setReturn_dead e
  unfold doheaderfield
  generalize hfieldKnown h = k
  by_cases hd : st.dead.isSome = true
  · simp [hd]
  · simp only [hd, Bool.false_eq_true, if_false]
    by_cases h1 : (hasFlag e 'f' && decide (k = Gen.H_FROM)) = true
    · rw [if_pos h1]; exact Or.inl rfl
    · rw [if_neg h1]
      by_cases h2 : (hasFlag e 'i' && decide (k = Gen.H_MESSAGEID)) = true
      · rw [if_pos h2]; exact Or.inl rfl
      · rw [if_neg h2]
        by_cases h3 : (hasFlag e 's' && decide (k = Gen.H_RETURNPATH)) = true
        · rw [if_pos h3]; exact Or.inl rfl
        · rw [if_neg h3]
          by_cases h4 : (decide (k = 0) && !hfieldValid h) = true
          · rw [if_pos h4]; exact Or.inr rfl
          · rw [if_neg h4]
            generalize hst1 : (if k ≠ 0 then ({ st with seen := k :: st.seen } : ISt) else st) = st1
            have a1 : st1.dead = st.dead := by rw [← hst1]; split <;> rfl
            clear h1 h2 h3 h4 hd hst1
            (repeat' split) <;> simp [a1, hsr]

theorem header_dead (e : Env) (c : RwCfg) (fields : List Bytes) :
    ∀ (st : ISt), (st.dead = none ∨ st.dead = some 100) →
      ((fields.foldl (doheaderfield e c) st).dead = none ∨ (fields.foldl (doheaderfield e c) st).dead = some 100) := by
  induction fields with
  | nil => intro st h; exact h
  | cons f r ih =>
    intro st h
    simp only [List.foldl_cons]
    apply ih
    rcases doheaderfield_dead_cases e c st f with h1 | h1
    · rw [h1]; exact h
    · exact Or.inr h1

theorem defaultReturnPath_facts (e : Env) (c : RwCfg) (st : ISt) :
    (defaultReturnPath e c st).hrlist = st.hrlist ∧ (defaultReturnPath e c st).hrrlist = st.hrrlist ∧
    (defaultReturnPath e c st).seen = st.seen ∧
    ((defaultReturnPath e c st).dead = st.dead ∨ (defaultReturnPath e c st).dead = some 100) := by
  have h1 := setReturn_lists e
  have h2 := setReturn_dead e
  unfold defaultReturnPath
  simp only []
  split
  · simp
  · split <;> simp [h1, h2]

end Nq.Lemmas.C17
