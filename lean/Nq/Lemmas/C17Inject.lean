/-
  C17 lemmas: how the per-field callback results accumulate into qmail-inject's recipient lists over
  the whole header (`doheaderfield` folded over the fields `headerbody` delivers).
-/
import Nq.Inject

namespace Nq.Lemmas.C17
open Nq Nq.Token822 Nq.Inject

/-- what a header field contributes to `hrlist` (`cls = 1`: To, Cc, Bcc, Apparently-To) or to `hrrlist`
(`cls = 2`: Resent-To, Resent-Cc, Resent-Bcc): the unquoted addresses its callback returned -/
def hrContribution (c : RwCfg) (cls : Nat) (h : Bytes) : List Bytes :=
  if (fieldClass (hfieldKnown h)).1 = cls then (rewriteField c true h).2.1.map addrString else []

theorem fieldClass_cases (n : Nat) :
    fieldClass n = (1, true) ∨ fieldClass n = (2, true) ∨ fieldClass n = (3, false) ∨ fieldClass n = (4, false) ∨
    fieldClass n = (0, false) := by
  unfold fieldClass
  split
  · exact Or.inl rfl
  · split
    · exact Or.inr (Or.inl rfl)
    · split
      · exact Or.inr (Or.inr (Or.inl rfl))
      · split
        · exact Or.inr (Or.inr (Or.inr (Or.inl rfl)))
        · exact Or.inr (Or.inr (Or.inr (Or.inr rfl)))

theorem fieldClass_skipped :
    (fieldClass Gen.H_FROM).1 = 4 ∧ (fieldClass Gen.H_MESSAGEID).1 = 0 ∧ (fieldClass Gen.H_RETURNPATH).1 = 3 ∧
    (fieldClass 0).1 = 0 := by decide

theorem setReturn_lists (e : Env) (st : ISt) (got : List (List Tok)) :
    (setReturn e st got).hrlist = st.hrlist ∧ (setReturn e st got).hrrlist = st.hrrlist ∧
    (setReturn e st got).seen = st.seen := by
  unfold setReturn
  split <;> simp

/-- **one field**: the two recipient lists grow by exactly the field's contribution -/
theorem doheaderfield_lists (e : Env) (c : RwCfg) (st : ISt) (h : Bytes) :
    (doheaderfield e c st h).hrlist = st.hrlist ++ (if st.dead.isSome then [] else hrContribution c 1 h) ∧
    (doheaderfield e c st h).hrrlist = st.hrrlist ++ (if st.dead.isSome then [] else hrContribution c 2 h) := by
  obtain ⟨k1, k2, k3, k4⟩ := fieldClass_skipped
  have hsr := setReturn_lists e
  unfold doheaderfield hrContribution
  generalize hfieldKnown h = k
  by_cases hd : st.dead.isSome = true
  · simp [hd]
  · simp only [hd, Bool.false_eq_true, if_false]
    by_cases h1 : (hasFlag e 'f' && decide (k = Gen.H_FROM)) = true
    · rw [if_pos h1]
      have hk : k = Gen.H_FROM := by simp at h1; exact h1.2
      have : (fieldClass k).1 = 4 := by rw [hk]; exact k1
      simp [this]
    · rw [if_neg h1]
      by_cases h2 : (hasFlag e 'i' && decide (k = Gen.H_MESSAGEID)) = true
      · rw [if_pos h2]
        have hk : k = Gen.H_MESSAGEID := by simp at h2; exact h2.2
        have : (fieldClass k).1 = 0 := by rw [hk]; exact k2
        simp [this]
      · rw [if_neg h2]
        by_cases h3 : (hasFlag e 's' && decide (k = Gen.H_RETURNPATH)) = true
        · rw [if_pos h3]
          have hk : k = Gen.H_RETURNPATH := by simp at h3; exact h3.2
          have : (fieldClass k).1 = 3 := by rw [hk]; exact k3
          simp [this]
        · rw [if_neg h3]
          by_cases h4 : (decide (k = 0) && !hfieldValid h) = true
          · rw [if_pos h4]
            have hk : k = 0 := by simp at h4; exact h4.1
            have : (fieldClass k).1 = 0 := by rw [hk]; exact k4
            simp [this]
          · rw [if_neg h4]
            generalize hst1 : (if k ≠ 0 then ({ st with seen := k :: st.seen } : ISt) else st) = st1
            have a1 : st1.hrlist = st.hrlist := by rw [← hst1]; split <;> rfl
            have a2 : st1.hrrlist = st.hrrlist := by rw [← hst1]; split <;> rfl
            clear h1 h2 h3 h4 k1 k2 k3 k4 hd hst1
            rcases fieldClass_cases k with hc | hc | hc | hc | hc <;>
              (simp only [hc]; repeat' split) <;> simp_all

/-- once dead, always dead -/
theorem doheaderfield_dead (e : Env) (c : RwCfg) (st : ISt) (h : Bytes) (hd : (doheaderfield e c st h).dead = none) :
    st.dead = none := by
  cases hs : st.dead with
  | none => rfl
  | some x =>
    have : doheaderfield e c st h = st := by simp [doheaderfield, hs]
    rw [this, hs] at hd
    exact absurd hd (by simp)

/-- **the whole header**: if qmail-inject survives all fields, the recipient lists are the concatenation of
the fields' contributions, in order -/
theorem header_lists (e : Env) (c : RwCfg) (fields : List Bytes) :
    ∀ (st : ISt), (fields.foldl (doheaderfield e c) st).dead = none →
      st.dead = none ∧
      (fields.foldl (doheaderfield e c) st).hrlist = st.hrlist ++ fields.flatMap (hrContribution c 1) ∧
      (fields.foldl (doheaderfield e c) st).hrrlist = st.hrrlist ++ fields.flatMap (hrContribution c 2) := by
  induction fields with
  | nil => intro st hd; exact ⟨hd, by simp, by simp⟩
  | cons h r ih =>
    intro st hd
    simp only [List.foldl_cons] at hd ⊢
    obtain ⟨d1, l1, l2⟩ := ih _ hd
    have d0 := doheaderfield_dead e c st h d1
    obtain ⟨f1, f2⟩ := doheaderfield_lists e c st h
    simp only [d0, Option.isSome_none, Bool.false_eq_true, if_false] at f1 f2
    refine ⟨d0, ?_, ?_⟩
    · rw [l1, f1]; simp
    · rw [l2, f2]; simp

theorem setReturn_dead (e : Env) (st : ISt) (got : List (List Tok)) : (setReturn e st got).dead = st.dead := by
  unfold setReturn
  split <;> simp

/-- `die_*()` always exits 100 -/
theorem doheaderfield_dead_cases (e : Env) (c : RwCfg) (st : ISt) (h : Bytes) :
    (doheaderfield e c st h).dead = st.dead ∨ (doheaderfield e c st h).dead = some 100 := by
  have hsr := setReturn_dead e
  unfold doheaderfield
  generalize hfieldKnown h = k
  by_cases hd : st.dead.isSome = true
  · simp [hd]
  · simp only [hd, Bool.false_eq_true, if_false]
    by_cases h1 : (hasFlag e 'f' && decide (k = Gen.H_FROM)) = true
    · rw [if_pos h1]; exact Or.inl rfl
    · rw [if_neg h1]
      by_cases h2 : (hasFlag e 'i' && decide (k = Gen.H_MESSAGEID)) = true
      · rw [if_pos h2]; exact Or.inl rfl
      · rw [if_neg h2]
        by_cases h3 : (hasFlag e 's' && decide (k = Gen.H_RETURNPATH)) = true
        · rw [if_pos h3]; exact Or.inl rfl
        · rw [if_neg h3]
          by_cases h4 : (decide (k = 0) && !hfieldValid h) = true
          · rw [if_pos h4]; exact Or.inr rfl
          · rw [if_neg h4]
            generalize hst1 : (if k ≠ 0 then ({ st with seen := k :: st.seen } : ISt) else st) = st1
            have a1 : st1.dead = st.dead := by rw [← hst1]; split <;> rfl
            clear h1 h2 h3 h4 hd hst1
            (repeat' split) <;> simp [a1, hsr]

theorem header_dead (e : Env) (c : RwCfg) (fields : List Bytes) :
    ∀ (st : ISt), (st.dead = none ∨ st.dead = some 100) →
      ((fields.foldl (doheaderfield e c) st).dead = none ∨ (fields.foldl (doheaderfield e c) st).dead = some 100) := by
  induction fields with
  | nil => intro st h; exact h
  | cons f r ih =>
    intro st h
    simp only [List.foldl_cons]
    apply ih
    rcases doheaderfield_dead_cases e c st f with h1 | h1
    · rw [h1]; exact h
    · exact Or.inr h1

theorem defaultReturnPath_facts (e : Env) (c : RwCfg) (st : ISt) :
    (defaultReturnPath e c st).hrlist = st.hrlist ∧ (defaultReturnPath e c st).hrrlist = st.hrrlist ∧
    (defaultReturnPath e c st).seen = st.seen ∧
    ((defaultReturnPath e c st).dead = st.dead ∨ (defaultReturnPath e c st).dead = some 100) := by
  have h1 := setReturn_lists e
  have h2 := setReturn_dead e
  unfold defaultReturnPath
  simp only []
  split
  · simp
  · split <;> simp [h1, h2]

/-! ### `htypeseen` / `flagresent` over the whole header (audit repair: `isResent` is now determined) -/

/-- the header types that make a message "resent" (`flagresent` in `finishheader` / `exitnicely`) -/
def resentTypes : List Nat :=
  [Gen.H_R_SENDER, Gen.H_R_FROM, Gen.H_R_REPLYTO, Gen.H_R_TO, Gen.H_R_CC, Gen.H_R_BCC, Gen.H_R_DATE, Gen.H_R_MESSAGEID]

/-- the field is one of the eight Resent- fields `hfield_known` recognises -/
def isResentField (h : Bytes) : Bool := resentTypes.contains (hfieldKnown h)

theorem isResent_eq (st : ISt) : isResent st = resentTypes.any (fun k => st.seen.contains k) := rfl

theorem isResent_seen {s t : ISt} (h : s.seen = t.seen) : isResent s = isResent t := by
  simp [isResent_eq, h]

theorem any_contains_cons (l s : List Nat) (x : Nat) :
    l.any (fun k => (x :: s).contains k) = (l.contains x || l.any (fun k => s.contains k)) := by
  induction l with
  | nil => simp
  | cons a l ih =>
    rw [List.any_cons, ih, List.any_cons, List.contains_cons, List.contains_cons]
    have : (a == x) = (x == a) := BEq.comm
    rw [this]
    cases (x == a) <;> cases s.contains a <;> cases l.contains x <;> simp

theorem isResent_cons (st st' : ISt) (k : Nat) (h : st'.seen = k :: st.seen) :
    isResent st' = (resentTypes.contains k || isResent st) := by
  rw [isResent_eq, isResent_eq, h, any_contains_cons]

/-- **one field, `htypeseen`**: a field that is processed either records its type, or it is skipped /
fatal / unknown — and then it is not a Resent- field -/
theorem doheaderfield_seen (e : Env) (c : RwCfg) (st : ISt) (h : Bytes) (hd : st.dead = none) :
    (doheaderfield e c st h).seen = hfieldKnown h :: st.seen ∨
    ((doheaderfield e c st h).seen = st.seen ∧ isResentField h = false) := by
  have hsr := setReturn_lists e
  unfold doheaderfield isResentField
  generalize hfieldKnown h = k
  simp only [hd, Option.isSome_none, Bool.false_eq_true, if_false]
  by_cases h1 : (hasFlag e 'f' && decide (k = Gen.H_FROM)) = true
  · rw [if_pos h1]
    have hk : k = Gen.H_FROM := by simp at h1; exact h1.2
    right; subst hk; exact ⟨rfl, by decide⟩
  · rw [if_neg h1]
    by_cases h2 : (hasFlag e 'i' && decide (k = Gen.H_MESSAGEID)) = true
    · rw [if_pos h2]
      have hk : k = Gen.H_MESSAGEID := by simp at h2; exact h2.2
      right; subst hk; exact ⟨rfl, by decide⟩
    · rw [if_neg h2]
      by_cases h3 : (hasFlag e 's' && decide (k = Gen.H_RETURNPATH)) = true
      · rw [if_pos h3]
        have hk : k = Gen.H_RETURNPATH := by simp at h3; exact h3.2
        right; subst hk; exact ⟨rfl, by decide⟩
      · rw [if_neg h3]
        by_cases h4 : (decide (k = 0) && !hfieldValid h) = true
        · rw [if_pos h4]
          have hk : k = 0 := by simp at h4; exact h4.1
          right; subst hk; exact ⟨rfl, by decide⟩
        · rw [if_neg h4]
          by_cases hk : k = 0
          · right
            subst hk
            refine ⟨?_, by decide⟩
            clear h1 h2 h3 h4
            simp only [ne_eq, not_true_eq_false, if_false]
            (repeat' split) <;> simp [hsr]
          · left
            clear h1 h2 h3 h4
            simp only [ne_eq, hk, not_false_eq_true, if_true]
            (repeat' split) <;> simp [hsr]

/-- **the whole header, `flagresent`**: if qmail-inject survives all fields, the message counts as resent
exactly when the state did before or one of the fields is a Resent- field -/
theorem header_resent (e : Env) (c : RwCfg) (fields : List Bytes) :
    ∀ (st : ISt), (fields.foldl (doheaderfield e c) st).dead = none →
      isResent (fields.foldl (doheaderfield e c) st) = (isResent st || fields.any isResentField) := by
  induction fields with
  | nil => intro st _; simp
  | cons h r ih =>
    intro st hd
    simp only [List.foldl_cons] at hd ⊢
    have d1 := (header_lists e c r _ hd).1
    have d0 := doheaderfield_dead e c st h d1
    rw [ih _ hd]
    rcases doheaderfield_seen e c st h d0 with hs | ⟨hs, hr⟩
    · rw [isResent_cons st _ _ hs]
      simp only [List.any_cons, isResentField]
      cases resentTypes.contains (hfieldKnown h) <;> cases isResent st <;> simp
    · rw [isResent_seen hs, List.any_cons, hr]; simp

theorem mapOpt_some (f : Bytes → Option Bytes) (l : List Bytes) :
    ∀ ys, mapOpt f l = some ys → ys = l.filterMap f ∧ ∀ x ∈ l, (f x).isSome = true := by
  induction l with
  | nil => intro ys h; simp [mapOpt] at h; subst h; simp
  | cons x r ih =>
    intro ys h
    unfold mapOpt at h
    cases hx : f x with
    | none => simp [hx] at h
    | some y =>
      cases hr : mapOpt f r with
      | none => simp [hx, hr] at h
      | some zs =>
        simp only [hx, hr, Option.some.injEq] at h
        obtain ⟨e1, e2⟩ := ih zs hr
        subst h
        refine ⟨by simp [hx, e1], ?_⟩
        intro z hz
        simp only [List.mem_cons] at hz
        rcases hz with rfl | hz
        · simp [hx]
        · exact e2 z hz

/-! ### the saved header over the whole header -/

/-- what a header field contributes to the saved header (`savedh_append`): nothing if it is deleted by a
QMAILINJECT letter (`f` From, `i` Message-ID, `s` Return-Path) or is one of the four dropped types (Bcc,
Resent-Bcc, Return-Path, Content-Length); its own text if it carries no addresses; else the rewritten text
`rewriteField` returns (the unparsed `taout`, or the original text when a `rwmayfail` field does not parse) -/
def savedContribution (e : Env) (c : RwCfg) (h : Bytes) : List Bytes :=
  let k := hfieldKnown h
  if (hasFlag e 'f' && k = Gen.H_FROM) || (hasFlag e 'i' && k = Gen.H_MESSAGEID) || (hasFlag e 's' && k = Gen.H_RETURNPATH) then []
  else if fieldDropped k then []
  else if (fieldClass k).1 = 0 then [h]
  else [(rewriteField c (fieldClass k).2 h).1]

theorem setReturn_savedh (e : Env) (st : ISt) (got : List (List Tok)) : (setReturn e st got).savedh = st.savedh := by
  unfold setReturn
  split <;> simp

/-- one field: `savedh` grows by exactly the field's contribution, or qmail-inject dies -/
theorem doheaderfield_savedh_or (e : Env) (c : RwCfg) (st : ISt) (h : Bytes) (hd : st.dead = none) :
    (doheaderfield e c st h).savedh = st.savedh ++ savedContribution e c h ∨
    (doheaderfield e c st h).dead = some 100 := by
  have hsr := setReturn_savedh e
  unfold doheaderfield
  unfold savedContribution
  generalize hfieldKnown h = k
  have hd2 : st.dead.isSome = false := by simp [hd]
  simp only [hd2, Bool.false_eq_true, if_false]
  by_cases h1 : (hasFlag e 'f' && decide (k = Gen.H_FROM)) = true
  · simp [h1]
  · rw [if_neg h1]
    by_cases h2 : (hasFlag e 'i' && decide (k = Gen.H_MESSAGEID)) = true
    · simp [h2]
    · rw [if_neg h2]
      by_cases h3 : (hasFlag e 's' && decide (k = Gen.H_RETURNPATH)) = true
      · simp [h3]
      · rw [if_neg h3]
        by_cases h4 : (decide (k = 0) && !hfieldValid h) = true
        · rw [if_pos h4]; right; rfl
        · rw [if_neg h4]
          have hflags : ((hasFlag e 'f' && decide (k = Gen.H_FROM)) || (hasFlag e 'i' && decide (k = Gen.H_MESSAGEID)) ||
              (hasFlag e 's' && decide (k = Gen.H_RETURNPATH))) = false := by
            simp only [Bool.not_eq_true] at h1 h2 h3
            simp [h1, h2, h3]
          rw [hflags]
          simp only [Bool.false_eq_true, if_false]
          generalize hst1 : (if k ≠ 0 then ({ st with seen := k :: st.seen } : ISt) else st) = st1
          have a1 : st1.savedh = st.savedh := by rw [← hst1]; split <;> rfl
          clear h1 h2 h3 h4 hflags hst1
          generalize fieldClass k = fc
          obtain ⟨cls, mf⟩ := fc
          simp only []
          generalize rewriteField c mf h = r
          obtain ⟨txt, got, die⟩ := r
          simp only []
          by_cases hc0 : cls = 0
          · subst hc0
            cases hdrop : fieldDropped k <;> simp [a1]
          · simp only [hc0, if_false]
            cases die with
            | true => right; simp
            | false =>
              left
              simp only [Bool.false_eq_true, if_false]
              cases hdrop : fieldDropped k <;> simp only [Bool.false_eq_true, if_false, if_true] <;>
                (repeat' split) <;> simp [a1, hsr]

/-- **one field, saved header**: if qmail-inject survives the field, `savedh` grows by exactly the field's contribution -/
theorem doheaderfield_savedh (e : Env) (c : RwCfg) (st : ISt) (h : Bytes) (hd : st.dead = none)
    (hd' : (doheaderfield e c st h).dead = none) :
    (doheaderfield e c st h).savedh = st.savedh ++ savedContribution e c h := by
  rcases doheaderfield_savedh_or e c st h hd with h1 | h1
  · exact h1
  · rw [hd'] at h1; exact absurd h1 (by simp)

/-- **the whole header, saved header**: if qmail-inject survives all fields, the saved header is the
concatenation of the fields' contributions, in order -/
theorem header_savedh (e : Env) (c : RwCfg) (fields : List Bytes) :
    ∀ (st : ISt), (fields.foldl (doheaderfield e c) st).dead = none →
      (fields.foldl (doheaderfield e c) st).savedh = st.savedh ++ fields.flatMap (savedContribution e c) := by
  induction fields with
  | nil => intro st _; simp
  | cons h r ih =>
    intro st hd
    simp only [List.foldl_cons] at hd ⊢
    have d1 := (header_lists e c r _ hd).1
    have d0 := doheaderfield_dead e c st h d1
    rw [ih _ hd, doheaderfield_savedh e c st h d0 d1]
    simp

theorem defaultReturnPath_savedh (e : Env) (c : RwCfg) (st : ISt) :
    (defaultReturnPath e c st).savedh = st.savedh := by
  have h1 := setReturn_savedh e
  unfold defaultReturnPath
  simp only []
  split
  · simp
  · split <;> simp [h1]

end Nq.Lemmas.C17
