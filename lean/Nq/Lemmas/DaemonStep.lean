/-
  Every event the monitor accepts preserves the accounting invariant.
-/
import Nq.Lemmas.DaemonInv

namespace Nq.Lemmas.DI
open Nq Nq.Daemon

/-- the two states agree on the envelope, on the ghost history and on the bounce / message files -/
structure SameGhost (ms ms' : MsgSt) : Prop where
  e1 : ms'.todo = ms.todo
  e2 : ms'.accepted = ms.accepted
  e3 : ms'.fin = ms.fin
  e4 : ms'.delivered = ms.delivered
  e5 : ms'.noted = ms.noted
  e6 : ms'.inFile = ms.inFile
  e7 : ms'.bounced = ms.bounced
  e8 : ms'.droppedRecs = ms.droppedRecs
  e9 : ms'.lostRecs = ms.lostRecs
  e10 : ms'.bounce = ms.bounce
  e11 : ms'.mess = ms.mess

theorem SameGhost.setChan (ms : MsgSt) (c : Ch) (v : Option (List Rec)) : SameGhost ms (ms.setChan c v) := by
  cases c <;> constructor <;> rfl
theorem SameGhost.setChanSynced (ms : MsgSt) (c : Ch) (v : Bool) : SameGhost ms (ms.setChanSynced c v) := by
  cases c <;> constructor <;> rfl
theorem SameGhost.trans {a b c : MsgSt} (h1 : SameGhost a b) (h2 : SameGhost b c) : SameGhost a c :=
  ⟨h2.e1.trans h1.e1, h2.e2.trans h1.e2, h2.e3.trans h1.e3, h2.e4.trans h1.e4, h2.e5.trans h1.e5, h2.e6.trans h1.e6,
   h2.e7.trans h1.e7, h2.e8.trans h1.e8, h2.e9.trans h1.e9, h2.e10.trans h1.e10, h2.e11.trans h1.e11⟩

/-- events that happen while `todo/<m>` still exists cannot disturb the accounting -/
theorem minv_todo_ctx (cfg : Cfg) (ms ms' : MsgSt) (h : MInv cfg ms) (ht : ms.todo.isSome) (g : SameGhost ms ms') : MInv cfg ms' := by
  obtain ⟨e1, e2, e3, e4, e5, e6, e7, e8, e9, e10, e11⟩ := g
  have hne : ms'.todo ≠ none := by rw [e1]; intro hn; simp [hn] at ht
  constructor
  · intro env he; rw [e2]; exact h.a1 env (by rw [← e1]; exact he)
  · intro hn; exact absurd hn hne
  · intro hn; exact absurd hn hne
  · intro hn; exact absurd hn hne
  · intro x hx; rw [e3] at hx; rw [e4, e5]; exact h.k3 x hx
  · intro x hx; rw [e5] at hx; rw [e6, e7, e8, e9]; exact h.k4 x hx
  · intro hb; rw [e6]; exact h.k5 (by rw [← e10]; exact hb)
  · intro hn; exact absurd hn hne
  · intro hn; exact absurd hn hne
  · intro hn; exact absurd hn hne
  · intro _; rw [e11]; exact h.m1 (Or.inl ht)
  · intro sd r ha hd; rw [e2] at ha; rw [e8] at hd; exact h.d1 sd r ha hd

theorem msg_with_volatile (s : St) (k : Nat) (n : List Note) (mm : List (Nat × Ch × Nat)) :
    ({ s with notes := n, mayMark := mm } : St).msg k = s.msg k := rfl

/-- one message updated, clean exchange not in progress, `fin` only grows -/
theorem inv_upd_grow (cfg : Cfg) (s : St) (m : Nat) (f : MsgSt → MsgSt) (hinv : Inv cfg s) (hclean : s.clean = none)
    (hm : MInv cfg (f (s.msg m))) (hfin : ∀ x ∈ (s.msg m).fin, x ∈ (f (s.msg m)).fin) : Inv cfg (s.upd m f) := by
  refine inv_upd cfg s m f _ (fun k => St.msg_upd s m k f) hinv hm ?_ ?_ ?_
  · intro m' c i hmem
    have h0 := hinv.may m' c i hmem
    rw [St.msg_upd]
    split
    · rename_i he; subst he; exact hfin _ h0
    · exact h0
  · intro m' hc
    have : (s.upd m f).clean = s.clean := rfl
    rw [this, hclean] at hc; cases hc
  · intro m' hc
    have : (s.upd m f).clean = s.clean := rfl
    rw [this, hclean] at hc; cases hc

/-! ### per-event preservation of the per-message invariant -/

theorem minv_unlinkChan_job (cfg : Cfg) (ms : MsgSt) (c : Ch) (rs : List Rec) (h : MInv cfg ms) (ht : ms.todo = none)
    (hc : ms.chan c = some rs) (hfin : allFinished ms c rs = true) : MInv cfg (ms.setChan c none) := by
  obtain ⟨r1, r2, r3, r4, r5, r6, r7, r8, r9, r10, r11, r12, r13⟩ := setChan_rest ms c none
  obtain ⟨q1, q2, q3⟩ := setChan_rest2 ms c none
  have hplaced : ∀ c', MsgSt.placed (ms.setChan c none) c' = MsgSt.placed ms c' := by
    intro c'; cases c' <;> simp [MsgSt.placed, r12, r13]
  constructor
  · intro env he; rw [r1] at he; rw [r11]; exact h.a1 env he
  · intro hn sd r ha; rw [r11] at ha; rw [r12, r13]; exact h.a2 ht sd r ha
  · intro _ c' rs' hc'
    rw [chan_setChan] at hc'
    split at hc'
    · cases hc'
    · rw [hplaced]; exact h.k1 ht c' rs' hc'
  · intro _ c' rs' i hc' hd hi
    rw [chan_setChan] at hc'
    split at hc'
    · cases hc'
    · rw [r4]; exact h.k2 ht c' rs' i hc' hd hi
  · intro x hx; rw [r4] at hx; rw [r5, r6]; exact h.k3 x hx
  · intro x hx; rw [r6] at hx; rw [r7, r8, q1, q2]; exact h.k4 x hx
  · intro hb; rw [r7]; exact h.k5 (by rw [← r3]; exact hb)
  · intro _ _
    rw [r2]
    -- the file being removed existed, hence info/<m> exists
    apply h.k6 ht
    cases c
    · left; simpa [MsgSt.chan] using congrArg Option.isSome hc
    · right; left; simpa [MsgSt.chan] using congrArg Option.isSome hc
  · intro _ c' hc' i hi
    rw [hplaced] at hi; rw [r4]
    by_cases hcc : c' = c
    · subst hcc
      have hlen : rs.length = (MsgSt.placed ms c').length := by
        have := h.k1 ht c' rs hc; rw [← this]; simp [addrs]
      have hi' : i < rs.length := by omega
      have := (List.all_eq_true.1 hfin) i (List.mem_range.2 hi')
      simp only [Bool.or_eq_true] at this
      rcases this with hd | hf
      · exact h.k2 ht c' rs i hc hd hi'
      · simpa using hf
    · rw [chan_setChan] at hc'
      simp only [hcc, if_false] at hc'
      exact h.k7 ht c' hc' i hi
  · intro _ sd r i ha hi; rw [r11] at ha; rw [r2] at hi; exact h.i1 ht sd r i ha hi
  · intro hp; rw [r1, r2] at hp; rw [q3]; exact h.m1 hp
  · intro sd r ha hd; rw [r11] at ha; rw [q1] at hd; exact h.d1 sd r ha hd

/-- a change that touches none of the fields the invariant speaks about -/
theorem minv_congr (cfg : Cfg) (ms ms' : MsgSt) (h : MInv cfg ms) (g : SameGhost ms ms')
    (e11 : ms'.loc = ms.loc) (e12 : ms'.rem = ms.rem) (e13 : ms'.placedLoc = ms.placedLoc) (e14 : ms'.placedRem = ms.placedRem)
    (e15 : ms'.info = ms.info) : MInv cfg ms' := by
  obtain ⟨e1, e2, e3, e4, e5, e6, e7, e8, e9, e10, e16⟩ := g
  have hchan : ∀ c, ms'.chan c = ms.chan c := by intro c; cases c <;> simp [MsgSt.chan, e11, e12]
  have hpl : ∀ c, MsgSt.placed ms' c = MsgSt.placed ms c := by intro c; cases c <;> simp [MsgSt.placed, e13, e14]
  constructor
  · intro env he; rw [e2]; exact h.a1 env (by rw [← e1]; exact he)
  · intro hn sd r ha; rw [e13, e14]; exact h.a2 (by rw [← e1]; exact hn) sd r (by rw [← e2]; exact ha)
  · intro hn c rs hc; rw [hpl]; exact h.k1 (by rw [← e1]; exact hn) c rs (by rw [← hchan]; exact hc)
  · intro hn c rs i hc hd hi; rw [e3]; exact h.k2 (by rw [← e1]; exact hn) c rs i (by rw [← hchan]; exact hc) hd hi
  · intro x hx; rw [e3] at hx; rw [e4, e5]; exact h.k3 x hx
  · intro x hx; rw [e5] at hx; rw [e6, e7, e8, e9]; exact h.k4 x hx
  · intro hb; rw [e6]; exact h.k5 (by rw [← e10]; exact hb)
  · intro hn hp; rw [e15]; exact h.k6 (by rw [← e1]; exact hn) (by rw [← e11, ← e12, ← e10]; exact hp)
  · intro hn c hc i hi; rw [e3]; rw [hpl] at hi; exact h.k7 (by rw [← e1]; exact hn) c (by rw [← hchan]; exact hc) i hi
  · intro hn sd r i ha hi; rw [e1] at hn; rw [e2] at ha; rw [e15] at hi; exact h.i1 hn sd r i ha hi
  · intro hp; rw [e1, e15] at hp; rw [e16]; exact h.m1 hp
  · intro sd r ha hd; rw [e2] at ha; rw [e8] at hd; exact h.d1 sd r ha hd

/-- qmail-clean removes `mess/<m>` on a `foop/<m>` request, which is granted only when `todo/<m>` and `info/<m>` are gone -/
theorem minv_unlinkMess (cfg : Cfg) (ms : MsgSt) (h : MInv cfg ms) (ht : ms.todo = none) (hi : ms.info = none) :
    MInv cfg { ms with mess := false } := by
  constructor
  · exact h.a1
  · exact h.a2
  · exact h.k1
  · exact h.k2
  · exact h.k3
  · exact h.k4
  · exact h.k5
  · exact h.k6
  · exact h.k7
  · exact h.i1
  · intro hp; simp [ht, hi] at hp
  · exact h.d1

theorem minv_unlinkInfo_done (cfg : Cfg) (ms : MsgSt) (h : MInv cfg ms)
    (hl : ms.loc = none) (hr : ms.rem = none) (hb : ms.bounce = none) (ht : ms.todo = none) :
    MInv cfg { ms with info := none, infoSynced := false } := by
  constructor
  · exact h.a1
  · exact h.a2
  · exact h.k1
  · exact h.k2
  · exact h.k3
  · exact h.k4
  · exact h.k5
  · intro _ hp; simp [hl, hr, hb] at hp
  · exact h.k7
  · intro _ sd r i _ hi; simp at hi
  · intro hp; simp [ht] at hp
  · exact h.d1

theorem minv_markD (cfg : Cfg) (ms : MsgSt) (c : Ch) (rs : List Rec) (idx : Nat) (h : MInv cfg ms)
    (hc : ms.chan c = some rs) (hfin : (c, idx) ∈ ms.fin) : MInv cfg (ms.setChan c (some (setDone rs idx))) := by
  obtain ⟨r1, r2, r3, r4, r5, r6, r7, r8, r9, r10, r11, r12, r13⟩ := setChan_rest ms c (some (setDone rs idx))
  obtain ⟨q1, q2, q3⟩ := setChan_rest2 ms c (some (setDone rs idx))
  have hplaced : ∀ c', MsgSt.placed (ms.setChan c (some (setDone rs idx))) c' = MsgSt.placed ms c' := by
    intro c'; cases c' <;> simp [MsgSt.placed, r12, r13]
  constructor
  · intro env he; rw [r1] at he; rw [r11]; exact h.a1 env he
  · intro hn sd r ha; rw [r1] at hn; rw [r11] at ha; rw [r12, r13]; exact h.a2 hn sd r ha
  · intro hn c' rs' hc'
    rw [r1] at hn; rw [chan_setChan] at hc'; rw [hplaced]
    split at hc'
    · rename_i he; subst he; cases hc'; rw [addrs_setDone]; exact h.k1 hn c' rs hc
    · exact h.k1 hn c' rs' hc'
  · intro hn c' rs' i hc' hd hi
    rw [r1] at hn; rw [chan_setChan] at hc'; rw [r4]
    split at hc'
    · rename_i he; subst he; cases hc'
      rw [length_setDone] at hi
      rcases getD_setDone rs idx i hd with ⟨h1, _⟩ | h1
      · subst h1; exact hfin
      · exact h.k2 hn c' rs i hc h1 hi
    · exact h.k2 hn c' rs' i hc' hd hi
  · intro x hx; rw [r4] at hx; rw [r5, r6]; exact h.k3 x hx
  · intro x hx; rw [r6] at hx; rw [r7, r8, q1, q2]; exact h.k4 x hx
  · intro hb; rw [r7]; exact h.k5 (by rw [← r3]; exact hb)
  · intro hn _
    rw [r1] at hn; rw [r2]
    apply h.k6 hn
    cases c
    · left; simpa [MsgSt.chan] using congrArg Option.isSome hc
    · right; left; simpa [MsgSt.chan] using congrArg Option.isSome hc
  · intro hn c' hc' i hi
    rw [r1] at hn; rw [hplaced] at hi; rw [r4]; rw [chan_setChan] at hc'
    split at hc'
    · cases hc'
    · exact h.k7 hn c' hc' i hi
  · intro hn sd r i ha hi; rw [r1] at hn; rw [r11] at ha; rw [r2] at hi; exact h.i1 hn sd r i ha hi
  · intro hp; rw [r1, r2] at hp; rw [q3]; exact h.m1 hp
  · intro sd r ha hd; rw [r11] at ha; rw [q1] at hd; exact h.d1 sd r ha hd

theorem minv_reportK (cfg : Cfg) (ms : MsgSt) (x : Ch × Nat) (h : MInv cfg ms) :
    MInv cfg { ms with fin := x :: ms.fin, delivered := x :: ms.delivered } := by
  constructor
  · exact h.a1
  · exact h.a2
  · exact h.k1
  · intro hn c rs i hc hd hi; exact List.mem_cons_of_mem _ (h.k2 hn c rs i hc hd hi)
  · intro y hy
    rcases List.mem_cons.1 hy with rfl | hy
    · left; simp
    · rcases h.k3 y hy with h1 | h1
      · left; exact List.mem_cons_of_mem _ h1
      · right; exact h1
  · exact h.k4
  · exact h.k5
  · exact h.k6
  · intro hn c hc i hi; exact List.mem_cons_of_mem _ (h.k7 hn c hc i hi)
  · exact h.i1
  · exact h.m1
  · exact h.d1

theorem minv_appendBounce (cfg : Cfg) (ms : MsgSt) (x : Ch × Nat) (bs : Bytes) (h : MInv cfg ms)
    (hi : ms.info.isSome = true) :
    MInv cfg { ms with bounce := some ((ms.bounce.getD []) ++ bs), fin := x :: ms.fin, noted := x :: ms.noted,
                       inFile := x :: ms.inFile, lastInject := false } := by
  constructor
  · exact h.a1
  · exact h.a2
  · exact h.k1
  · intro hn c rs i hc hd hi'; exact List.mem_cons_of_mem _ (h.k2 hn c rs i hc hd hi')
  · intro y hy
    rcases List.mem_cons.1 hy with rfl | hy
    · right; simp
    · rcases h.k3 y hy with h1 | h1
      · left; exact h1
      · right; exact List.mem_cons_of_mem _ h1
  · intro y hy
    rcases List.mem_cons.1 hy with rfl | hy
    · left; simp
    · rcases h.k4 y hy with h1 | h1
      · left; exact List.mem_cons_of_mem _ h1
      · right; exact h1
  · intro hb; simp at hb
  · intro _ _; exact hi
  · intro hn c hc i hi'; exact List.mem_cons_of_mem _ (h.k7 hn c hc i hi')
  · exact h.i1
  · exact h.m1
  · exact h.d1

theorem dropLast_append_singleton (l : Bytes) (a : Byte) : (l ++ [a]).dropLast = l := by
  induction l with
  | nil => rfl
  | cons x xs ih =>
    cases xs with
    | nil => rfl
    | cons y ys => simp only [List.cons_append, List.dropLast_cons_cons] at ih ⊢; rw [ih]

/-- the bounce file of a message whose `info/<m>` names the sender `#@[]` is discarded: every paragraph in it goes to `droppedRecs` -/
theorem minv_unlinkBounce_discard (cfg : Cfg) (ms : MsgSt) (h : MInv cfg ms) (ht : ms.todo = none) (info : Bytes)
    (hinfo : ms.info = some info) (hs : (info.drop 1).dropLast = [35, 64, 91, 93]) :
    MInv cfg { ms with bounce := none, inFile := [], discarded := true, droppedRecs := ms.inFile ++ ms.droppedRecs } := by
  constructor
  · exact h.a1
  · exact h.a2
  · exact h.k1
  · exact h.k2
  · exact h.k3
  · intro x hx
    rcases h.k4 x hx with h1 | h1 | h1 | h1
    · right; right; left; exact List.mem_append_left _ h1
    · right; left; exact h1
    · right; right; left; exact List.mem_append_right _ h1
    · right; right; right; exact h1
  · intro _; rfl
  · intro hn hp
    rcases hp with hp | hp | hp
    · exact h.k6 hn (Or.inl hp)
    · exact h.k6 hn (Or.inr (Or.inl hp))
    · simp at hp
  · exact h.k7
  · exact h.i1
  · exact h.m1
  · intro sd r ha _
    have := h.i1 ht sd r info ha hinfo
    rw [this] at hs
    simpa [dropLast_append_singleton] using hs

theorem minv_unlinkBounce_ok (cfg : Cfg) (ms : MsgSt) (h : MInv cfg ms) :
    MInv cfg { ms with bounce := none, bounced := ms.inFile ++ ms.bounced, inFile := [] } := by
  constructor
  · exact h.a1
  · exact h.a2
  · exact h.k1
  · exact h.k2
  · exact h.k3
  · intro x hx
    rcases h.k4 x hx with h1 | h1 | h1
    · right; left; exact List.mem_append_left _ h1
    · right; left; exact List.mem_append_right _ h1
    · right; right; exact h1
  · intro _; rfl
  · intro hn hp
    rcases hp with hp | hp | hp
    · exact h.k6 hn (Or.inl hp)
    · exact h.k6 hn (Or.inr (Or.inl hp))
    · simp at hp
  · exact h.k7
  · exact h.i1
  · exact h.m1
  · exact h.d1

/-- a crash changes the content of `bounce/<m>`: the paragraphs that were in the file stay accounted — they are still in the
file (`inFile`, when the old content survives as a prefix) or become exempt (`lostRecs`) -/
theorem minv_crashBounce (cfg : Cfg) (ms : MsgSt) (content : Bytes) (h : MInv cfg ms)
    (hg : ms.bounce.isSome = true ∨ (ms.todo.isNone = true ∧ ms.info.isSome = true)) :
    MInv cfg { ms with bounce := some content, lost := true, lastInject := false,
                       lostRecs := (if (ms.bounce.getD []).isPrefixOf content then [] else ms.inFile) ++ ms.lostRecs } := by
  constructor
  · exact h.a1
  · exact h.a2
  · exact h.k1
  · exact h.k2
  · exact h.k3
  · intro x hx
    rcases h.k4 x hx with h1 | h1 | h1 | h1
    · left; exact h1
    · right; left; exact h1
    · right; right; left; exact h1
    · right; right; right; exact List.mem_append_right _ h1
  · intro hb; simp at hb
  · intro hn _
    rcases hg with hg | hg
    · exact h.k6 hn (Or.inr (Or.inr hg))
    · exact hg.2
  · exact h.k7
  · exact h.i1
  · exact h.m1
  · exact h.d1

theorem allT_getD : ∀ (rs : List Rec) (i : Nat), allT rs = true → i < rs.length → (rs.getD i ⟨false, []⟩).done = false
  | [], _, _, h => by simp at h
  | r :: rs, 0, ha, _ => by simp [allT] at ha ⊢; exact ha.1
  | r :: rs, i + 1, ha, hi => by
    simp [allT] at ha hi ⊢
    have := allT_getD rs i (by simp [allT]; exact ha.2) hi
    simpa using this

theorem minv_unlinkTodo (cfg : Cfg) (ms : MsgSt) (h : MInv cfg ms) (hr : TodoReady cfg ms) :
    MInv cfg { ms with todo := none, placedLoc := optAddrs ms.loc, placedRem := optAddrs ms.rem,
                       fin := [], delivered := [], noted := [], inFile := [], bounced := [] } := by
  obtain ⟨sender, rcpts, ht, hi, hall, hrt⟩ := hr
  constructor
  · intro env he; simp at he
  · intro _ sd r ha
    have := h.a1 (sender, rcpts) ht
    simp only at ha
    rw [this] at ha; cases ha
    exact hrt
  · intro _ c rs hc
    cases c <;> simp [MsgSt.chan] at hc <;> simp [MsgSt.placed, hc, optAddrs]
  · intro _ c rs i hc hd hi'
    have hc' : ms.chan c = some rs := by cases c <;> simpa [MsgSt.chan] using hc
    have := allT_getD rs i (hall c rs hc') hi'
    rw [this] at hd; cases hd
  · intro x hx; simp at hx
  · intro x hx; simp at hx
  · intro _; rfl
  · intro _ _; show ms.info.isSome = true; rw [hi]; rfl
  · intro _ c hc i hi'
    cases c <;> simp [MsgSt.chan] at hc <;> simp [MsgSt.placed, hc, optAddrs] at hi'
  · intro _ sd r i ha hinf
    have := h.a1 (sender, rcpts) ht
    simp only at ha hinf
    rw [this] at ha; cases ha
    rw [hi] at hinf; cases hinf; rfl
  · intro _; exact h.m1 (Or.inl (by rw [ht]; rfl))
  · exact h.d1

theorem minv_newmsg (cfg : Cfg) (sender : Bytes) (rcpts : List Bytes) :
    MInv cfg { mess := true, intd := true, todo := some (sender, rcpts), accepted := some (sender, rcpts) } := by
  constructor
  · intro env he; simpa using he
  · intro hn; simp at hn
  · intro hn; simp at hn
  · intro hn; simp at hn
  · intro x hx; simp at hx
  · intro x hx; simp at hx
  · intro _; rfl
  · intro hn; simp at hn
  · intro hn; simp at hn
  · intro hn; simp at hn
  · intro _; rfl
  · intro sd r _ hd; simp at hd

end Nq.Lemmas.DI
