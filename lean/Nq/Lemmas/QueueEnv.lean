/-
  The envelope scanner of qmail-queue accepts exactly the documented envelope format:
  F sender NUL (T recipient NUL)* NUL, every address NUL-free and shorter than ADDR bytes.
-/
import Nq.Lemmas.QueueInv

namespace Nq.Lemmas.QI
open Nq Nq.QueueInject

/-- `T r NUL` for each recipient -/
def encRcpts : List Bytes → Bytes
  | [] => []
  | r :: rs => 84 :: r ++ 0 :: encRcpts rs

/-- an address qmail-queue accepts: no NUL, at most `addr - 1` bytes -/
def AddrOk (addr : Nat) (a : Bytes) : Prop := (0 : Byte) ∉ a ∧ a.length < addr

theorem scan_addr (addr : Nat) : ∀ (a : Bytes) (len : Nat) (w : Bytes), (0 : Byte) ∉ a → len + a.length < addr →
    scanFrom addr (.inAddr len) (a ++ 0 :: w) =
      ((scanFrom addr .expectT w).1, a ++ 0 :: (scanFrom addr .expectT w).2)
  | [], len, w, _, _ => by simp [scanFrom, sstep]
  | c :: a, len, w, h0, hl => by
    have hc : c ≠ 0 := fun hc => h0 (by simp [hc])
    have ha : (0 : Byte) ∉ a := fun hm => h0 (List.mem_cons_of_mem _ hm)
    simp only [List.length_cons] at hl
    have hne : len + 1 ≠ addr := by omega
    simp only [List.cons_append, scanFrom, sstep, hc, hne, if_false]
    rw [scan_addr addr a (len + 1) w ha (by omega)]
    simp

theorem scan_rcpts (addr : Nat) : ∀ (rs : List Bytes) (rest : Bytes), (∀ r ∈ rs, AddrOk addr r) →
    scanFrom addr .expectT (encRcpts rs ++ 0 :: rest) = (.done, encRcpts rs)
  | [], rest, _ => by
    simp [encRcpts, scanFrom, sstep, scanFrom_terminal addr .done rest (Or.inl rfl)]
  | r :: rs, rest, h => by
    have hr := h r (by simp)
    have ih := scan_rcpts addr rs rest (fun x hx => h x (by simp [hx]))
    simp only [encRcpts, List.cons_append, List.append_assoc, scanFrom, sstep]
    have : (84 : Byte) ≠ 0 := by decide
    simp only [this, if_false, if_true]
    rw [scan_addr addr r 0 _ hr.1 (by simpa using hr.2), ih]
    simp

/-- **completeness**: every well-formed envelope is accepted, and what is stored is the envelope
without its final NUL; anything after the terminator is ignored -/
theorem scan_complete (addr : Nat) (sender : Bytes) (rs : List Bytes) (rest : Bytes)
    (hs : AddrOk addr sender) (hr : ∀ r ∈ rs, AddrOk addr r) :
    scanFrom addr .expectF (70 :: sender ++ 0 :: (encRcpts rs ++ 0 :: rest)) =
      (.done, 70 :: sender ++ 0 :: encRcpts rs) := by
  simp only [List.cons_append, scanFrom, sstep, if_true]
  rw [scan_addr addr sender 0 _ hs.1 (by simpa using hs.2), scan_rcpts addr rs rest hr]
  simp

/-- **soundness**: whatever is accepted has the documented format -/
theorem scan_sound_from (addr : Nat) (hpos : 0 < addr) : ∀ (w : Bytes) (s : SSt) (out : Bytes), scanFrom addr s w = (.done, out) →
    match s with
    | .expectT => ∃ rs rest, w = encRcpts rs ++ 0 :: rest ∧ out = encRcpts rs ∧ ∀ r ∈ rs, AddrOk addr r
    | .inAddr len => ∃ a rs rest, w = a ++ 0 :: (encRcpts rs ++ 0 :: rest) ∧ out = a ++ 0 :: encRcpts rs ∧
        (0 : Byte) ∉ a ∧ (addr ≤ len ∨ a = [] ∨ len + a.length < addr) ∧ ∀ r ∈ rs, AddrOk addr r
    | .expectF => ∃ a rs rest, w = 70 :: a ++ 0 :: (encRcpts rs ++ 0 :: rest) ∧ out = 70 :: a ++ 0 :: encRcpts rs ∧
        AddrOk addr a ∧ ∀ r ∈ rs, AddrOk addr r
    | _ => True
  | [], s, out, h => by
    cases s <;> simp [scanFrom] at h ⊢
  | c :: w, s, out, h => by
    cases s with
    | expectT =>
      simp only [scanFrom, sstep] at h
      by_cases h0 : c = 0
      · subst h0
        simp [scanFrom_terminal addr .done w (Or.inl rfl)] at h
        exact ⟨[], w, by simp [encRcpts], by simp [encRcpts, h], by simp⟩
      · by_cases hT : c = 84
        · subst hT
          simp at h
          cases hq : scanFrom addr (.inAddr 0) w with
          | mk q1 q2 =>
            rw [hq] at h
            simp at h
            obtain ⟨h1, h2⟩ := h
            subst h1
            have := scan_sound_from addr hpos w (.inAddr 0) q2 hq
            obtain ⟨a, rs, rest, e1, e2, e3, e4, e5⟩ := this
            refine ⟨a :: rs, rest, ?_, ?_, ?_⟩
            · simp [encRcpts, e1]
            · simp [encRcpts, ← h2, e2]
            · intro r hr
              rcases List.mem_cons.1 hr with rfl | hr
              · exact ⟨e3, by rcases e4 with e4 | e4 | e4; omega; (subst e4; simpa using hpos); simpa using e4⟩
              · exact e5 r hr
        · simp [h0, hT, scanFrom_terminal addr .bad w (Or.inr (Or.inl rfl))] at h
    | inAddr len =>
      simp only [scanFrom, sstep] at h
      by_cases h0 : c = 0
      · subst h0
        simp at h
        cases hq : scanFrom addr .expectT w with
        | mk q1 q2 =>
          rw [hq] at h
          simp at h
          obtain ⟨h1, h2⟩ := h
          subst h1
          obtain ⟨rs, rest, e1, e2, e3⟩ := scan_sound_from addr hpos w .expectT q2 hq
          exact ⟨[], rs, rest, by simp [e1], by simp [← h2, e2], by simp, Or.inr (Or.inl rfl), e3⟩
      · by_cases hl : len + 1 = addr
        · simp [h0, hl, scanFrom_terminal addr .long w (Or.inr (Or.inr rfl))] at h
        · simp only [h0, hl, if_false] at h
          cases hq : scanFrom addr (.inAddr (len + 1)) w with
          | mk q1 q2 =>
            rw [hq] at h
            simp at h
            obtain ⟨h1, h2⟩ := h
            subst h1
            obtain ⟨a, rs, rest, e1, e2, e3, e4, e5⟩ := scan_sound_from addr hpos w (.inAddr (len + 1)) q2 hq
            refine ⟨c :: a, rs, rest, by simp [e1], by simp [← h2, e2], ?_, ?_, e5⟩
            · intro hm
              rcases List.mem_cons.1 hm with hm | hm
              · exact h0 hm.symm
              · exact e3 hm
            · rcases e4 with e4 | e4 | e4
              · left; omega
              · subst e4
                by_cases hlt : len + 1 < addr
                · right; right; simpa using hlt
                · left; omega
              · right; right; simp; omega
    | expectF =>
      simp only [scanFrom, sstep] at h
      by_cases hF : c = 70
      · subst hF
        simp at h
        cases hq : scanFrom addr (.inAddr 0) w with
        | mk q1 q2 =>
          rw [hq] at h
          simp at h
          obtain ⟨h1, h2⟩ := h
          subst h1
          obtain ⟨a, rs, rest, e1, e2, e3, e4, e5⟩ := scan_sound_from addr hpos w (.inAddr 0) q2 hq
          refine ⟨a, rs, rest, by simp [e1], by simp [← h2, e2], ⟨e3, ?_⟩, e5⟩
          rcases e4 with e4 | e4 | e4
          · omega
          · subst e4; simpa using hpos
          · simpa using e4
      · simp [hF, scanFrom_terminal addr .bad w (Or.inr (Or.inl rfl))] at h
    | done => trivial
    | bad => trivial
    | long => trivial

end Nq.Lemmas.QI
