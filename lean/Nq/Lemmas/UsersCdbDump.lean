/- Reading the records of a compiled cdb back in file order (`Nq.Spec.Users.cdbDump`, the independent reading of the
   format the driver uses as its oracle) gives exactly the source list. Core Lean only. -/
import Nq.Users
import Nq.Spec.Users
import Nq.Lemmas.UsersCdbBytes

namespace Nq.Lemmas.Users
open Nq Nq.Users Nq.Spec.Users

theorem dumpRecs_mkEnts : ∀ (es : List (Bytes × Bytes)) (pos fuel : Nat) (tail : Bytes),
    ((mkEnts es pos).flatMap recBytes).length < fuel →
    ((mkEnts es pos).flatMap recBytes).length < 4294967296 →
    dumpRecs fuel ((mkEnts es pos).flatMap recBytes ++ tail) ((mkEnts es pos).flatMap recBytes).length = some es
  | [], _, 0, _, h, _ => by simp [mkEnts] at h
  | [], _, fuel + 1, _, _, _ => by simp [mkEnts, dumpRecs]
  | (k, d) :: r, pos, 0, _, h, _ => by omega
  | (k, d) :: r, pos, fuel + 1, tail, hf, hs => by
    have ih := dumpRecs_mkEnts r (pos + 8 + k.length + d.length) fuel tail
    simp only [mkEnts, List.flatMap_cons, List.length_append, recBytes_length] at hf hs ⊢
    have ih' := ih (by omega) (by omega)
    generalize hR : (mkEnts r (pos + 8 + k.length + d.length)).flatMap recBytes = R at hf hs ih' ⊢
    have hk : k.length % 4294967296 = k.length := Nat.mod_eq_of_lt (by omega)
    have hd : d.length % 4294967296 = d.length := Nat.mod_eq_of_lt (by omega)
    simp only [recBytes, pack, List.cons_append, List.nil_append, List.append_assoc, dumpRecs, le32_pack, hk, hd]
    have h0 : ¬ (8 + k.length + d.length + R.length = 0) := by omega
    have h1 : ¬ (8 + k.length + d.length + R.length < 8 + k.length + d.length) := by omega
    rw [if_neg h0, if_neg h1]
    have t1 : (k ++ (d ++ (R ++ tail))).take k.length = k := List.take_left' rfl
    have t2 : (k ++ (d ++ (R ++ tail))).drop k.length = d ++ (R ++ tail) := List.drop_left' rfl
    have t3 : (d ++ (R ++ tail)).take d.length = d := List.take_left' rfl
    have t4 : (d ++ (R ++ tail)).drop d.length = R ++ tail := List.drop_left' rfl
    have e : 8 + k.length + d.length + R.length - (8 + k.length + d.length) = R.length := by omega
    simp only [t1, t2, t3, t4, e, and_self, if_true, ih', Option.map_some]

/-- the dump of the file cdbmake writes is the source list, in order, duplicates included -/
theorem cdbDump_cdbMake (es : List (Bytes × Bytes)) (hsz : (cdbMake es).length < 4294967296) :
    cdbDump (cdbMake es) = some es := by
  have hlen : (cdbMake es).length = 2048 + ((mkEnts es 2048).flatMap recBytes).length +
      (finishFrom (mkEnts es 2048) 256 0 (2048 + ((mkEnts es 2048).flatMap recBytes).length)).2.length := by
    rw [cdbMake_eq]; simp only [List.length_append, finishFrom_hd_length]
  -- header entry 0 holds the position of the first table = end of the record area
  have hp0 : At (finishFrom (mkEnts es 2048) 256 0 (2048 + ((mkEnts es 2048).flatMap recBytes).length)).1 0
      (pack (2048 + ((mkEnts es 2048).flatMap recBytes).length) ++ pack (tableOf (mkEnts es 2048) 0).length) := by
    rw [finishFrom_succ]; exact At.here _ _
  have hhd : At (cdbMake es) 0
      (pack (2048 + ((mkEnts es 2048).flatMap recBytes).length) ++ pack (tableOf (mkEnts es 2048) 0).length) := by
    rw [cdbMake_eq, List.append_assoc]; exact At.append_right _ hp0
  unfold cdbDump
  rw [read8_at hhd, Nat.mod_eq_of_lt (by omega)]
  dsimp only
  rw [if_neg (by omega)]
  have hdrop : (cdbMake es).drop 2048 = (mkEnts es 2048).flatMap recBytes ++
      (finishFrom (mkEnts es 2048) 256 0 (2048 + ((mkEnts es 2048).flatMap recBytes).length)).2 := by
    have h2048 : (finishFrom (mkEnts es 2048) 256 0 (2048 + ((mkEnts es 2048).flatMap recBytes).length)).1.length = 2048 := by
      rw [finishFrom_hd_length]
    rw [cdbMake_eq, List.append_assoc, List.drop_left' h2048]
  rw [hdrop, Nat.add_sub_cancel_left]
  exact dumpRecs_mkEnts es 2048 _ _ (by omega) (by omega)

end Nq.Lemmas.Users
