/-
  Lemmas about the qmail-clean model (`Nq.Clean`): decimal printing/scanning round trip, the shape
  of the event list of one request, and the stream-level oracle.
-/
import Nq.Clean
import Nq.Spec.TrustBoundary

namespace Nq.Lemmas.CleanL
open Nq Nq.Clean Nq.Spec.TB

/-! ### digits -/

theorem digitByte_toNat (n : Nat) : (digitByte n).toNat = 48 + n % 10 := by
  have h : ∀ k, k < 10 → ((48 + k).toUInt8).toNat = 48 + k := by decide
  exact h (n % 10) (Nat.mod_lt _ (by decide))

theorem isDigit_iff (c : Byte) : isDigit c = true ↔ 48 ≤ c.toNat ∧ c.toNat ≤ 57 := by
  simp [isDigit, UInt8.le_iff_toNat_le]

theorem isDigit_digitByte (n : Nat) : isDigit (digitByte n) = true := by
  rw [isDigit_iff, digitByte_toNat]
  have := Nat.mod_lt n (show 10 > 0 by decide)
  omega

/-- value of a digit string written least significant digit first -/
def valRev : Bytes → Nat
  | [] => 0
  | d :: r => (d.toNat - 48) + 10 * valRev r

theorem decVal_reverse (l : Bytes) : decVal l.reverse = valRev l := by
  unfold decVal
  rw [List.foldl_reverse]
  induction l with
  | nil => rfl
  | cons d r ih => simp only [List.foldr_cons, valRev, ih]; omega

theorem valRev_revDigits (f n : Nat) (h : n < f) : valRev (revDigits f n) = n := by
  induction f generalizing n with
  | zero => omega
  | succ f ih =>
    unfold revDigits
    by_cases h10 : n < 10
    · simp only [h10, if_true, valRev, digitByte_toNat]; omega
    · simp only [h10, if_false, valRev, digitByte_toNat]
      rw [ih (n / 10) (by omega)]; omega

theorem revDigits_digits (f n : Nat) : ∀ d ∈ revDigits f n, isDigit d = true := by
  induction f generalizing n with
  | zero => intro d hd; simp [revDigits] at hd
  | succ f ih =>
    intro d hd
    unfold revDigits at hd
    by_cases h10 : n < 10
    · simp only [h10, if_true, List.mem_singleton] at hd; subst hd; exact isDigit_digitByte n
    · simp only [h10, if_false, List.mem_cons] at hd
      rcases hd with hd | hd
      · subst hd; exact isDigit_digitByte n
      · exact ih _ d hd

/-- **`fmt_ulong` then reading the digits back gives the number** -/
theorem decVal_fmtUlong (n : Nat) : decVal (fmtUlong n) = n := by
  unfold fmtUlong
  rw [decVal_reverse, valRev_revDigits _ _ (Nat.lt_succ_self n)]

theorem fmtUlong_digits (n : Nat) : (fmtUlong n).all isDigit = true := by
  unfold fmtUlong
  rw [List.all_reverse, List.all_eq_true]
  exact revDigits_digits _ _

theorem fmtUlong_ne_nil (n : Nat) : fmtUlong n ≠ [] := by
  unfold fmtUlong revDigits
  by_cases h10 : n < 10 <;> simp [h10]

/-! ### `scan_ulong` -/

theorem scan_lt (ds : Bytes) (a : Nat) (ha : a < ULONG) :
    ds.foldl (fun acc d => (acc * 10 + (d.toNat - 48)) % ULONG) a < ULONG := by
  induction ds generalizing a with
  | nil => simpa using ha
  | cons d r ih => simp only [List.foldl_cons]; exact ih _ (Nat.mod_lt _ (by decide))

theorem scanUlong_lt (ds : Bytes) : scanUlong ds < ULONG := scan_lt ds 0 (by decide)

theorem scan_mod (ds : Bytes) (a b : Nat) (hab : a % ULONG = b % ULONG) :
    ds.foldl (fun acc d => (acc * 10 + (d.toNat - 48)) % ULONG) a % ULONG
      = ds.foldl (fun acc d => acc * 10 + (d.toNat - 48)) b % ULONG := by
  induction ds generalizing a b with
  | nil => simpa using hab
  | cons d r ih =>
    simp only [List.foldl_cons]
    apply ih
    simp only [ULONG] at hab ⊢
    omega

/-- `scan_ulong` computes the decimal value modulo 2^64 -/
theorem scanUlong_eq (ds : Bytes) : scanUlong ds = decVal ds % ULONG := by
  have h := scan_mod ds 0 0 rfl
  have h2 := scanUlong_lt ds
  unfold scanUlong at *
  unfold decVal
  rw [← h, Nat.mod_eq_of_lt h2]

/-- the canonical-spelling test of qmail-clean: it holds exactly when no wrap-around happened
and there are no superfluous leading zeros -/
theorem canonical_iff (ds : Bytes) :
    fmtUlong (scanUlong ds) = ds ↔ (decVal ds < ULONG ∧ fmtUlong (decVal ds) = ds) := by
  constructor
  · intro h
    have h1 : decVal ds = scanUlong ds := by
      have := congrArg decVal h
      rw [decVal_fmtUlong] at this; exact this.symm
    have h2 := scanUlong_lt ds
    exact ⟨by omega, by rw [h1]; exact h⟩
  · intro ⟨h1, h2⟩
    rw [scanUlong_eq, Nat.mod_eq_of_lt h1]; exact h2

/-! ### one request -/

theorem unlinks_shape (ps : List Bytes) (plan : List Nat) :
    ∃ qs s, (unlinks ps plan).1 = qs.map Ev.unlink ++ [Ev.status s] ∧ (∀ q ∈ qs, q ∈ ps) ∧ (s = stOK ∨ s = stERR)
      ∧ (s = stOK → qs = ps) := by
  induction ps generalizing plan with
  | nil => exact ⟨[], stOK, by simp [unlinks], by simp, Or.inl rfl, fun _ => rfl⟩
  | cons p ps ih =>
    by_cases hr : plan.headD 0 = 0 ∨ plan.headD 0 = 1
    · obtain ⟨qs, s, h1, h2, h3, h4⟩ := ih plan.tail
      refine ⟨p :: qs, s, ?_, ?_, h3, ?_⟩
      · simp only [unlinks, hr, if_true, h1, List.map_cons, List.cons_append]
      · intro q hq
        rcases List.mem_cons.mp hq with h | h
        · simp [h]
        · exact List.mem_cons_of_mem _ (h2 q h)
      · intro hs; rw [h4 hs]
    · refine ⟨[p], stERR, ?_, ?_, Or.inr rfl, ?_⟩
      · simp only [unlinks, hr, if_false, List.map_cons, List.map_nil, List.cons_append, List.nil_append]
      · simp
      · intro h; simp [stOK, stERR] at h

/-- the structure of an accepted request -/
structure Accepted (line ds : Bytes) (pfx : Bytes) : Prop where
  shape : line = pfx ++ ds ++ [0]
  pfx_ok : pfx = FOOP ∨ pfx = TODO
  nonempty : ds ≠ []
  digits : ds.all isDigit = true
  len_lo : 7 ≤ line.length
  len_hi : line.length ≤ 100
  nowrap : decVal ds < ULONG
  canonical : fmtUlong (decVal ds) = ds

/-- either the request is answered 'x' and nothing else happens, or it is an accepted request and
the events are the `unlinks` of its targets -/
theorem handleReq_cases (line : Bytes) (plan : List Nat) :
    handleReq line plan = ([.status stX], plan) ∨
    ∃ ds pfx ps, Accepted line ds pfx ∧ targets pfx (decVal ds) = some ps ∧ handleReq line plan = unlinks ps plan := by
  unfold handleReq
  by_cases h1 : line.length < 7
  · simp [h1]
  by_cases h2 : line.length > 100
  · simp [h1, h2]
  by_cases h3 : line.getLast? ≠ some 0
  · simp [h1, h2, h3]
  simp only [h1, h2, h3, if_false]
  by_cases h4n : (!((line.drop 5).dropLast).all isDigit) = true
  · simp [h4n]
  simp only [h4n, if_false]
  have h4 : ((line.drop 5).dropLast).all isDigit = true := by simpa using h4n
  by_cases h5 : fmtUlong (scanUlong (line.drop 5).dropLast) ≠ (line.drop 5).dropLast
  · simp [h5]
  simp only [h5, if_false]
  have h5' : fmtUlong (scanUlong (line.drop 5).dropLast) = (line.drop 5).dropLast := by
    simpa using h5
  obtain ⟨hnw, hcan⟩ := (canonical_iff _).mp h5'
  have hid : scanUlong (line.drop 5).dropLast = decVal (line.drop 5).dropLast := by
    rw [scanUlong_eq, Nat.mod_eq_of_lt hnw]
  rw [hid]
  cases ht : targets (line.take 5) (decVal (line.drop 5).dropLast) with
  | none => simp
  | some ps =>
    right
    have h3' : line.getLast? = some 0 := by simpa using h3
    have hd : (line.drop 5).getLast? = some 0 := by
      rw [List.getLast?_drop]; simp [h3']; omega
    obtain ⟨ys, hys⟩ := List.getLast?_eq_some_iff.mp hd
    have hds : (line.drop 5).dropLast = ys := by rw [hys, List.dropLast_concat]
    have hpfx : line.take 5 = FOOP ∨ line.take 5 = TODO := by
      unfold targets at ht
      by_cases a : line.take 5 = FOOP
      · exact Or.inl a
      · by_cases b : line.take 5 = TODO
        · exact Or.inr b
        · simp [a, b] at ht
    refine ⟨(line.drop 5).dropLast, line.take 5, ps, ⟨?_, hpfx, ?_, h4, by omega, by omega, hnw, hcan⟩, ht, rfl⟩
    · rw [hds, List.append_assoc, ← hys, List.take_append_drop]
    · rw [hds]; intro hy
      have : (line.drop 5).length = 1 := by rw [hys, hy]; rfl
      rw [List.length_drop] at this; omega

theorem targets_allowed (line ds pfx : Bytes) (ps : List Bytes) (ha : Accepted line ds pfx)
    (ht : targets pfx (decVal ds) = some ps) : allowed line = ps := by
  have hl : pfx.length = 5 := by rcases ha.pfx_ok with h | h <;> rw [h] <;> rfl
  have hbody : line.dropLast = pfx ++ ds := by rw [ha.shape, List.dropLast_concat]
  have h1 : line.getLast? = some 0 := by rw [ha.shape, List.getLast?_concat]
  have h2 : (pfx ++ ds).drop 5 = ds := by rw [← hl]; exact List.drop_left
  have h3 : (pfx ++ ds).take 5 = pfx := by rw [← hl]; exact List.take_left
  unfold allowed
  simp only [hbody, h1, h2, h3, ha.nonempty, ha.digits, ne_eq, not_false_eq_true, and_self, if_true]
  unfold targets at ht
  rcases ha.pfx_ok with h | h
  · subst h; simpa using ht
  · subst h
    have : TODO ≠ FOOP := by decide
    simpa [this] using ht

/-- the event list of one request: some unlinks of allowed paths, then exactly one status byte -/
theorem handleReq_shape (line : Bytes) (plan : List Nat) :
    ∃ qs s, (handleReq line plan).1 = qs.map Ev.unlink ++ [Ev.status s] ∧ (∀ q ∈ qs, q ∈ allowed line)
      ∧ (s = stX → qs = []) ∧ (s = stOK → qs = allowed line) := by
  rcases handleReq_cases line plan with h | ⟨ds, pfx, ps, ha, ht, h⟩
  · exact ⟨[], stX, by simp [h], by simp, fun _ => rfl, fun h => by simp [stX, stOK] at h⟩
  · obtain ⟨qs, s, h1, h2, h3, h4⟩ := unlinks_shape ps plan
    rw [targets_allowed line ds pfx ps ha ht]
    refine ⟨qs, s, by rw [h, h1], h2, ?_, h4⟩
    intro hs; rcases h3 with h3 | h3 <;> rw [h3] at hs <;> simp [stX, stOK, stERR] at hs

theorem statuses_append (a b : List Ev) : statuses (a ++ b) = statuses a ++ statuses b := by
  induction a with
  | nil => rfl
  | cons e a ih => cases e <;> simp [statuses, ih]

theorem paths_append (a b : List Ev) : paths (a ++ b) = paths a ++ paths b := by
  induction a with
  | nil => rfl
  | cons e a ih => cases e <;> simp [paths, ih]

theorem statuses_unlinks (qs : List Bytes) : statuses (qs.map Ev.unlink) = [] := by
  induction qs with
  | nil => rfl
  | cons q qs ih => simp [statuses, ih]

theorem paths_unlinks (qs : List Bytes) : paths (qs.map Ev.unlink) = qs := by
  induction qs with
  | nil => rfl
  | cons q qs ih => simp [paths, ih]

/-! ### `cleanuppid()` -/

/-- everything `cleanuppid()` unlinks is `pid/<name>` for an entry that is not `.`/`..`, whose `stat`
succeeded and whose access time is at least OSSIFIED seconds before `now` -/
theorem pidUnlinks_sound (now : Nat) (es : List PidEnt) :
    ∀ p ∈ pidUnlinks now es, ∃ e ∈ es, p = PIDDIR ++ e.name ∧ e.name ≠ DOT1 ∧ e.name ≠ DOT2 ∧
      ∃ t, e.atime = some t ∧ t + OSSIFIED ≤ now := by
  induction es with
  | nil => intro p hp; simp [pidUnlinks] at hp
  | cons e r ih =>
    intro p hp
    have lift : (∃ e' ∈ r, p = PIDDIR ++ e'.name ∧ e'.name ≠ DOT1 ∧ e'.name ≠ DOT2 ∧ ∃ t, e'.atime = some t ∧ t + OSSIFIED ≤ now) →
        ∃ e' ∈ e :: r, p = PIDDIR ++ e'.name ∧ e'.name ≠ DOT1 ∧ e'.name ≠ DOT2 ∧ ∃ t, e'.atime = some t ∧ t + OSSIFIED ≤ now := by
      intro ⟨e', h1, h2⟩; exact ⟨e', List.mem_cons_of_mem _ h1, h2⟩
    unfold pidUnlinks at hp
    by_cases hd : e.name = DOT1 ∨ e.name = DOT2
    · rw [if_pos hd] at hp; exact lift (ih p hp)
    · rw [if_neg hd] at hp
      cases ha : e.atime with
      | none => simp only [ha] at hp; exact lift (ih p hp)
      | some t =>
        simp only [ha] at hp
        by_cases hf : now < t + OSSIFIED
        · rw [if_pos hf] at hp; exact lift (ih p hp)
        · rw [if_neg hf] at hp
          rcases List.mem_cons.mp hp with h | h
          · exact ⟨e, by simp, h, fun h1 => hd (Or.inl h1), fun h2 => hd (Or.inr h2), t, ha, by omega⟩
          · exact lift (ih p h)

/-- complement: every such entry is unlinked -/
theorem pidUnlinks_complete (now : Nat) (es : List PidEnt) (e : PidEnt) (he : e ∈ es) (h1 : e.name ≠ DOT1)
    (h2 : e.name ≠ DOT2) (t : Nat) (ha : e.atime = some t) (ht : t + OSSIFIED ≤ now) :
    PIDDIR ++ e.name ∈ pidUnlinks now es := by
  induction es with
  | nil => cases he
  | cons x r ih =>
    have step : PIDDIR ++ e.name ∈ pidUnlinks now r → PIDDIR ++ e.name ∈ pidUnlinks now (x :: r) := by
      intro h
      unfold pidUnlinks
      by_cases hd : x.name = DOT1 ∨ x.name = DOT2
      · rw [if_pos hd]; exact h
      · rw [if_neg hd]
        cases hx : x.atime with
        | none => exact h
        | some u =>
          simp only []
          by_cases hf : now < u + OSSIFIED
          · rw [if_pos hf]; exact h
          · rw [if_neg hf]; exact List.mem_cons_of_mem _ h
    rcases List.mem_cons.mp he with h | h
    · subst h
      unfold pidUnlinks
      have hd : ¬ (e.name = DOT1 ∨ e.name = DOT2) := fun h => h.elim h1 h2
      rw [if_neg hd]
      simp only [ha]
      have hf : ¬ now < t + OSSIFIED := by omega
      rw [if_neg hf]; simp
    · exact step (ih h)

theorem pidUnlinks_old (sc : Scan) (es : List PidEnt) (h : sc.ents = some es) :
    ∀ p ∈ pidUnlinks sc.now es, pidOld sc p = true := by
  intro p hp
  obtain ⟨e, he, hpe, _, _, t, ha, ht⟩ := pidUnlinks_sound sc.now es p hp
  unfold pidOld
  simp only [h, List.any_eq_true]
  exact ⟨e, he, by simp [hpe, ha, ht]⟩

theorem paths_cleanuppid (sc : Scan) : ∀ p ∈ paths (cleanuppid sc), pidOld sc p = true := by
  intro p hp
  unfold cleanuppid at hp
  cases h : sc.ents with
  | none => simp [h, paths] at hp
  | some es =>
    simp only [h, paths, paths_append, paths_unlinks, List.append_nil] at hp
    exact pidUnlinks_old sc es h p hp

theorem statuses_cleanuppid (sc : Scan) : statuses (cleanuppid sc) = [] := by
  unfold cleanuppid
  cases sc.ents with
  | none => rfl
  | some es => simp [statuses, statuses_append, statuses_unlinks]

/-! ### the stream -/

theorem takeGroup_shape (qs : List Bytes) (s : Byte) (rest : List Ev) :
    takeGroup (qs.map Ev.unlink ++ [Ev.status s] ++ rest) = some (qs, s, rest) := by
  induction qs with
  | nil => simp [takeGroup]
  | cons q qs ih => simp [takeGroup] at ih ⊢; rw [ih]

theorem takePid_shape (sc : Scan) (ps : List Bytes) (rest : List Ev) (h : ∀ p ∈ ps, pidOld sc p = true) :
    takePid sc (ps.map Ev.unlink ++ [Ev.cleanupEnd] ++ rest) = some rest := by
  induction ps with
  | nil => simp [takePid]
  | cons p ps ih =>
    have hp : pidOld sc p = true := h p (by simp)
    simp only [List.map_cons, List.cons_append, takePid, hp, if_true]
    exact ih (fun q hq => h q (by simp [hq]))

/-- the `cleanuppid()` window (if this iteration has one) is what `takeScan` accepts, provided the
events that follow do not themselves start with an `opendir` -/
theorem takeScan_housekeeping (cl : Nat) (scans : List Scan) (evs : List Ev) (hne : ∀ r, evs ≠ Ev.cleanup :: r) :
    takeScan scans (housekeeping cl scans ++ evs) = some (nextScans cl scans, evs) := by
  unfold housekeeping nextScans
  by_cases h : cl = 0
  · simp only [h, if_true, cleanuppid, List.cons_append, takeScan]
    cases he : (scans.headD {}).ents with
    | none => simp
    | some es =>
      simp only []
      rw [takePid_shape _ _ _ (pidUnlinks_old _ es he)]
      rfl
  · simp only [h, if_false, List.nil_append]
    cases evs with
    | nil => rfl
    | cons e r => cases e <;> first | rfl | exact absurd rfl (hne r)

theorem cleanOK_runReqs (reqs : List Bytes) (cl : Nat) (plan : List Nat) (scans : List Scan) :
    cleanOK reqs scans (runReqs cl reqs plan scans) = true := by
  induction reqs generalizing cl plan scans with
  | nil =>
    unfold runReqs cleanOK
    have := takeScan_housekeeping cl scans [] (fun r h => by cases h)
    rw [List.append_nil] at this
    rw [this]; rfl
  | cons q qs ih =>
    obtain ⟨ps, s, h1, h2, h3, _⟩ := handleReq_shape q plan
    unfold runReqs cleanOK
    rw [List.append_assoc, takeScan_housekeeping, h1]
    · simp only []
      rw [takeGroup_shape]
      simp only [Bool.and_eq_true, List.all_eq_true, ih, and_true]
      refine ⟨fun p hp => by simpa using h2 p hp, ?_⟩
      by_cases hs : s = stX
      · simp [h3 hs]
      · simp [hs]
    · intro r hr
      rw [h1] at hr
      cases ps <;> simp at hr

/-- every path the program ever passes to `unlink` is a file named by one of the (validated) requests
or an old entry of `pid/` in one of the directory scans -/
theorem paths_runReqs (reqs : List Bytes) (cl : Nat) (plan : List Nat) (scans : List Scan) :
    ∀ p ∈ paths (runReqs cl reqs plan scans),
      (∃ q ∈ reqs, p ∈ allowed q) ∨ (∃ sc ∈ scans, pidOld sc p = true) := by
  have hk : ∀ cl (scans : List Scan), ∀ p ∈ paths (housekeeping cl scans), ∃ sc ∈ scans, pidOld sc p = true := by
    intro cl scans p hp
    unfold housekeeping at hp
    by_cases h : cl = 0
    · rw [if_pos h] at hp
      cases scans with
      | nil => simp [cleanuppid, paths] at hp
      | cons sc r => exact ⟨sc, by simp, paths_cleanuppid sc p (by simpa using hp)⟩
    · rw [if_neg h] at hp; simp [paths] at hp
  have hsub : ∀ cl (scans : List Scan), ∀ sc ∈ nextScans cl scans, sc ∈ scans := by
    intro cl scans sc hsc
    unfold nextScans at hsc
    by_cases h : cl = 0
    · rw [if_pos h] at hsc; exact List.mem_of_mem_tail hsc
    · rw [if_neg h] at hsc; exact hsc
  induction reqs generalizing cl plan scans with
  | nil => intro p hp; exact Or.inr (hk cl scans p hp)
  | cons q qs ih =>
    intro p hp
    unfold runReqs at hp
    rw [paths_append, paths_append] at hp
    rcases List.mem_append.mp hp with hp | hp
    · rcases List.mem_append.mp hp with hp | hp
      · exact Or.inr (hk cl scans p hp)
      · obtain ⟨ps, s, h1, h2, _, _⟩ := handleReq_shape q plan
        rw [h1, paths_append, paths_unlinks] at hp
        simp [paths] at hp
        exact Or.inl ⟨q, by simp, h2 p hp⟩
    · rcases ih _ _ _ p hp with ⟨q', hq', h⟩ | ⟨sc, hsc, h⟩
      · exact Or.inl ⟨q', List.mem_cons_of_mem _ hq', h⟩
      · exact Or.inr ⟨sc, hsub cl scans sc hsc, h⟩

end Nq.Lemmas.CleanL
