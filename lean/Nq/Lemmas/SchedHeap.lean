/-
  Lemmas about the binary heap of prioq.c as modelled in Nq/Sched.lean (hole technique, same index
  arithmetic): heap order is preserved by insert and delmin, the root is a minimum, insert adds exactly
  the entry and delmin removes exactly the root (as permutations).  Core Lean only.
-/
import Nq.Sched
namespace Nq.Lemmas.Sched
open Nq.Sched

theorem get_set (a : PQ) (i k : Nat) (v : Elt) (hi : i < a.size) :
    (a.setIfInBounds i v)[k]! = if i = k then v else a[k]! := by
  simp only [Array.getElem!_eq_getD, Array.getD_eq_getD_getElem?, Array.getElem?_setIfInBounds]
  by_cases h : i = k
  · subst h; simp [hi]
  · simp [h]

theorem get_push_lt (a : PQ) (v : Elt) (k : Nat) (hk : k < a.size) : (a.push v)[k]! = a[k]! := by
  rw [getElem!_pos (a.push v) k (by simp; omega), getElem!_pos a k hk, Array.getElem_push_lt hk]

theorem get_push_eq (a : PQ) (v : Elt) : (a.push v)[a.size]! = v := by
  simp [Array.getElem!_eq_getD, Array.getD_eq_getD_getElem?]

theorem get_pop (a : PQ) (k : Nat) (hk : k < a.size - 1) : a.pop[k]! = a[k]! := by
  have h1 : k < a.pop.size := by simpa using hk
  have h2 : k < a.size := by omega
  rw [getElem!_pos a.pop k h1, getElem!_pos a k h2, Array.getElem_pop]

theorem set_set_perm (a : PQ) (i j : Nat) (pe : Elt) (hi : i < a.size) (hj : j < a.size) (hij : i ≠ j) :
    ((a.setIfInBounds j a[i]!).setIfInBounds i pe).Perm (a.setIfInBounds j pe) := by
  obtain ⟨v, hv⟩ : ∃ v, v = a[i]! := ⟨_, rfl⟩
  rw [← hv]
  have hv' : v = a[i] := by rw [hv, getElem!_pos a i hi]
  have hb : ((a.setIfInBounds j v).setIfInBounds i pe)
      = (a.setIfInBounds j pe).swap i j (by simpa using hi) (by simpa using hj) := by
    apply Array.ext
    · simp
    · intro k h1 h2
      have hk : k < a.size := by simpa using h1
      by_cases hki : k = i
      · subst hki; simp [Array.getElem_setIfInBounds, Array.getElem_swap, hij, hk, hj]
      · by_cases hkj : k = j
        · subst hkj; simp [Array.getElem_setIfInBounds, Array.getElem_swap, hki, Ne.symm hki, hk, hi, hv']
        · simp [Array.getElem_setIfInBounds, Array.getElem_swap, hki, hkj, Ne.symm hki, Ne.symm hkj, hk]
  rw [hb]; exact Array.swap_perm _ _

theorem pop_perm (r b : PQ) (n : Nat) (hr : r.size = n + 1) (hb : b.size = n + 1) (hp : r.Perm b)
    (hl : r[n]! = b[n]!) : r.pop.Perm b.pop := by
  rw [Array.perm_iff_toList_perm] at *
  have hrl : r.toList ≠ [] := by intro h; have := congrArg List.length h; simp [hr] at this
  have hbl : b.toList ≠ [] := by intro h; have := congrArg List.length h; simp [hb] at this
  have e1 := List.dropLast_concat_getLast hrl
  have e2 := List.dropLast_concat_getLast hbl
  have g1 : r.toList.getLast hrl = r[n]! := by
    rw [List.getLast_eq_getElem, getElem!_pos r n (by omega)]; simp [hr]
  have g2 : b.toList.getLast hbl = b[n]! := by
    rw [List.getLast_eq_getElem, getElem!_pos b n (by omega)]; simp [hb]
  rw [← e1, ← e2, g1, g2, hl] at hp
  simp only [Array.toList_pop]
  exact (List.perm_append_right_iff _).mp hp


/-! ### sift-up (prioq_insert) -/

/-- the array is a heap "with a hole at `j` that will receive `pe`" -/
def UpInv (a : PQ) (pe : Elt) (j : Nat) : Prop :=
  (∀ k, 0 < k → k < a.size → k ≠ j → (k - 1) / 2 ≠ j → a[(k - 1) / 2]!.dt ≤ a[k]!.dt) ∧
  (∀ k, 0 < k → k < a.size → (k - 1) / 2 = j → pe.dt ≤ a[k]!.dt) ∧
  (∀ k, 0 < k → k < a.size → (k - 1) / 2 = j → 0 < j → a[(j - 1) / 2]!.dt ≤ a[k]!.dt)

theorem heap_of_upInv_stop (a : PQ) (pe : Elt) (j : Nat) (hj : j < a.size) (h : UpInv a pe j)
    (hstop : j = 0 ∨ a[(j - 1) / 2]!.dt ≤ pe.dt) : Heap (a.setIfInBounds j pe) := by
  obtain ⟨h1, h2, _⟩ := h
  intro k hk0 hk
  rw [Array.size_setIfInBounds] at hk
  rw [get_set a j _ pe hj, get_set a j k pe hj]
  by_cases hkj : j = k
  · subst hkj
    have : j ≠ (j - 1) / 2 := by omega
    rw [if_neg this, if_pos rfl]
    rcases hstop with h0 | h0
    · omega
    · exact h0
  · rw [if_neg hkj]
    by_cases hpj : j = (k - 1) / 2
    · rw [if_pos hpj]; exact h2 k hk0 hk hpj.symm
    · rw [if_neg hpj]; exact h1 k hk0 hk (Ne.symm hkj) (Ne.symm hpj)

theorem upInv_step (a : PQ) (pe : Elt) (j : Nat) (hj : j < a.size) (hj0 : j ≠ 0) (h : UpInv a pe j)
    (hlt : ¬ a[(j - 1) / 2]!.dt ≤ pe.dt) :
    UpInv (a.setIfInBounds j a[(j - 1) / 2]!) pe ((j - 1) / 2) := by
  obtain ⟨h1, h2, h3⟩ := h
  have hij : (j - 1) / 2 < j := by omega
  have hlt' : pe.dt < a[(j - 1) / 2]!.dt := Int.not_le.mp hlt
  refine ⟨?_, ?_, ?_⟩
  · intro k hk0 hk hki hpi
    rw [Array.size_setIfInBounds] at hk
    rw [get_set a j _ _ hj, get_set a j k _ hj]
    have hkj : j ≠ k := by intro e; subst e; exact hpi rfl
    rw [if_neg hkj]
    by_cases hpj : j = (k - 1) / 2
    · rw [if_pos hpj]; exact h3 k hk0 hk hpj.symm (by omega)
    · rw [if_neg hpj]; exact h1 k hk0 hk (Ne.symm hkj) (Ne.symm hpj)
  · intro k hk0 hk hpi
    rw [Array.size_setIfInBounds] at hk
    rw [get_set a j k _ hj]
    by_cases hkj : j = k
    · rw [if_pos hkj]; exact Int.le_of_lt hlt'
    · rw [if_neg hkj]
      have := h1 k hk0 hk (Ne.symm hkj) (by omega)
      rw [hpi] at this
      exact Int.le_trans (Int.le_of_lt hlt') this
  · intro k hk0 hk hpi hi0
    rw [Array.size_setIfInBounds] at hk
    rw [get_set a j _ _ hj, get_set a j k _ hj]
    have : j ≠ ((j - 1) / 2 - 1) / 2 := by omega
    rw [if_neg this]
    have hpar := h1 ((j - 1) / 2) hi0 (by omega) (by omega) (by omega)
    by_cases hkj : j = k
    · rw [if_pos hkj]; exact hpar
    · rw [if_neg hkj]
      have := h1 k hk0 hk (Ne.symm hkj) (by omega)
      rw [hpi] at this
      exact Int.le_trans hpar this

theorem siftUp_spec (pe : Elt) : ∀ (f : Nat) (a : PQ) (j : Nat), j ≤ f → j < a.size → UpInv a pe j →
    Heap (siftUp pe f a j) ∧ (siftUp pe f a j).Perm (a.setIfInBounds j pe) := by
  intro f
  induction f with
  | zero =>
    intro a j hjf hj h
    simp only [siftUp]
    exact ⟨heap_of_upInv_stop a pe j hj h (Or.inl (by omega)), Array.Perm.refl _⟩
  | succ f ih =>
    intro a j hjf hj h
    simp only [siftUp]
    by_cases hj0 : j = 0
    · rw [if_pos hj0]
      exact ⟨heap_of_upInv_stop a pe j hj h (Or.inl hj0), Array.Perm.refl _⟩
    · rw [if_neg hj0]
      by_cases hc : a[(j - 1) / 2]!.dt ≤ pe.dt
      · rw [if_pos hc]
        exact ⟨heap_of_upInv_stop a pe j hj h (Or.inr hc), Array.Perm.refl _⟩
      · rw [if_neg hc]
        have hi : (j - 1) / 2 < a.size := by omega
        have := ih (a.setIfInBounds j a[(j - 1) / 2]!) ((j - 1) / 2) (by omega)
          (by rw [Array.size_setIfInBounds]; exact hi) (upInv_step a pe j hj hj0 h hc)
        exact ⟨this.1, this.2.trans (set_set_perm a ((j - 1) / 2) j pe hi hj (by omega))⟩

theorem upInv_push (q : PQ) (pe : Elt) (h : Heap q) : UpInv (q.push pe) pe q.size := by
  refine ⟨?_, ?_, ?_⟩
  · intro k hk0 hk hkj hpj
    rw [Array.size_push] at hk
    have hk' : k < q.size := by omega
    rw [get_push_lt q pe _ (by omega), get_push_lt q pe k hk']
    exact h k hk0 hk'
  · intro k hk0 hk hp
    rw [Array.size_push] at hk
    omega
  · intro k hk0 hk hp
    rw [Array.size_push] at hk
    omega

theorem insert_spec (q : PQ) (pe : Elt) (h : Heap q) :
    Heap (q.insert pe) ∧ (q.insert pe).toList.Perm (pe :: q.toList) := by
  have hs := siftUp_spec pe q.size (q.push pe) q.size (Nat.le_refl _) (by simp) (upInv_push q pe h)
  refine ⟨hs.1, ?_⟩
  have hp := Array.perm_iff_toList_perm.mp hs.2
  have e : (q.push pe).setIfInBounds q.size pe = q.push pe := by
    apply Array.ext
    · simp
    · intro k h1 h2
      rw [Array.getElem_setIfInBounds (by simpa using h2)]
      split
      · rename_i hk; subst hk; simp
      · rfl
  unfold PQ.insert
  rw [e] at hp
  rw [Array.toList_push] at hp
  exact hp.trans (List.perm_append_singleton pe q.toList)

/-! ### sift-down (prioq_delmin) -/

/-- heap on `[0,n)` "with a hole at `i` that will receive the last element `a[n]`" -/
def DownInv (a : PQ) (n i : Nat) : Prop :=
  (∀ k, 0 < k → k < n → k ≠ i → (k - 1) / 2 ≠ i → a[(k - 1) / 2]!.dt ≤ a[k]!.dt) ∧
  (∀ k, 0 < k → k < n → (k - 1) / 2 = i → 0 < i → a[(i - 1) / 2]!.dt ≤ a[k]!.dt) ∧
  (0 < i → a[(i - 1) / 2]!.dt ≤ a[n]!.dt)

/-- heap order on the first `n` entries -/
def HeapN (a : PQ) (n : Nat) : Prop := ∀ k, 0 < k → k < n → a[(k - 1) / 2]!.dt ≤ a[k]!.dt

theorem heapN_of_downInv_stop (a : PQ) (n i : Nat) (hi : i < n) (hn : n < a.size) (h : DownInv a n i)
    (hch : ∀ k, 0 < k → k < n → (k - 1) / 2 = i → a[n]!.dt ≤ a[k]!.dt) :
    HeapN (a.setIfInBounds i a[n]!) n := by
  obtain ⟨h1, _, h3⟩ := h
  have hia : i < a.size := by omega
  intro k hk0 hk
  rw [get_set a i _ _ hia, get_set a i k _ hia]
  by_cases hki : i = k
  · subst hki
    have : i ≠ (i - 1) / 2 := by omega
    rw [if_neg this, if_pos rfl]
    exact h3 hk0
  · rw [if_neg hki]
    by_cases hpi : i = (k - 1) / 2
    · rw [if_pos hpi]; exact hch k hk0 hk hpi.symm
    · rw [if_neg hpi]; exact h1 k hk0 hk (Ne.symm hki) (Ne.symm hpi)

theorem downInv_step (a : PQ) (n i j : Nat) (hi : i < n) (hn : n < a.size) (h : DownInv a n i)
    (hj : j = i + i + 1 ∨ j = i + i + 2) (hjn : j < n)
    (hsm : ∀ k, 0 < k → k < n → (k - 1) / 2 = i → a[j]!.dt ≤ a[k]!.dt)
    (hlt : ¬ a[n]!.dt ≤ a[j]!.dt) :
    DownInv (a.setIfInBounds i a[j]!) n j := by
  obtain ⟨h1, h2, h3⟩ := h
  have hia : i < a.size := by omega
  have hpj : (j - 1) / 2 = i := by omega
  have hj0 : 0 < j := by omega
  refine ⟨?_, ?_, ?_⟩
  · intro k hk0 hk hkj hpk
    rw [get_set a i _ _ hia, get_set a i k _ hia]
    by_cases hki : i = k
    · subst hki
      have : i ≠ (i - 1) / 2 := by omega
      rw [if_neg this, if_pos rfl]
      exact h2 j hj0 hjn hpj hk0
    · rw [if_neg hki]
      by_cases hpi : i = (k - 1) / 2
      · rw [if_pos hpi]; exact hsm k hk0 hk hpi.symm
      · rw [if_neg hpi]; exact h1 k hk0 hk (Ne.symm hki) (Ne.symm hpi)
  · intro k hk0 hk hpk _
    rw [get_set a i _ _ hia, get_set a i k _ hia]
    rw [hpj, if_pos rfl]
    have hki : i ≠ k := by omega
    rw [if_neg hki]
    have := h1 k hk0 hk (Ne.symm hki) (by omega)
    rw [hpk] at this
    exact this
  · intro _
    rw [get_set a i _ _ hia, get_set a i n _ hia]
    rw [hpj, if_pos rfl]
    have : i ≠ n := by omega
    rw [if_neg this]
    exact Int.le_of_lt (Int.not_le.mp hlt)

theorem siftDown_spec : ∀ (f : Nat) (a : PQ) (n i : Nat), n ≤ i + f → i < n → n < a.size → DownInv a n i →
    HeapN (siftDown f a n i) n ∧ (siftDown f a n i).Perm (a.setIfInBounds i a[n]!) ∧
    (siftDown f a n i)[n]! = a[n]! := by
  intro f
  induction f with
  | zero => intro a n i hf hi; omega
  | succ f ih =>
    intro a n i hf hi hn h
    have hia : i < a.size := by omega
    have hstopn : (a.setIfInBounds i a[n]!)[n]! = a[n]! := by
      rw [get_set a i n _ hia, if_neg (by omega)]
    simp only [siftDown]
    by_cases hjn : i + i + 2 > n
    · rw [if_pos hjn]
      refine ⟨heapN_of_downInv_stop a n i hi hn h ?_, Array.Perm.refl _, hstopn⟩
      intro k hk0 hk hp; omega
    · rw [if_neg hjn]
      -- the smaller child (the C code's `if (p[j-1].dt <= p[j].dt) --j`)
      by_cases hc1 : a[i + i + 2 - 1]!.dt ≤ a[i + i + 2]!.dt
      · rw [if_pos hc1]
        have e : i + i + 2 - 1 = i + i + 1 := by omega
        rw [e] at hc1 ⊢
        by_cases hc2 : a[n]!.dt ≤ a[i + i + 1]!.dt
        · rw [if_pos hc2]
          refine ⟨heapN_of_downInv_stop a n i hi hn h ?_, Array.Perm.refl _, hstopn⟩
          intro k hk0 hk hp
          have hk2 : k = i + i + 1 ∨ k = i + i + 2 := by omega
          rcases hk2 with hk2 | hk2
          · rw [hk2]; exact hc2
          · rw [hk2]; exact Int.le_trans hc2 hc1
        · rw [if_neg hc2]
          have hjlt : i + i + 1 < n := by omega
          have hd := downInv_step a n i (i + i + 1) hi hn h (Or.inl rfl) hjlt (by
            intro k hk0 hk hp
            have hk2 : k = i + i + 1 ∨ k = i + i + 2 := by omega
            rcases hk2 with hk2 | hk2
            · rw [hk2]; exact Int.le_refl _
            · rw [hk2]; exact hc1) hc2
          have r := ih (a.setIfInBounds i a[i + i + 1]!) n (i + i + 1) (by omega) hjlt
            (by rw [Array.size_setIfInBounds]; exact hn) hd
          have hn' : (a.setIfInBounds i a[i + i + 1]!)[n]! = a[n]! := by
            rw [get_set a i n _ hia, if_neg (by omega)]
          rw [hn'] at r
          exact ⟨r.1, r.2.1.trans (set_set_perm a (i + i + 1) i a[n]! (by omega) hia (by omega)), r.2.2⟩
      · rw [if_neg hc1]
        by_cases hc2 : a[n]!.dt ≤ a[i + i + 2]!.dt
        · rw [if_pos hc2]
          refine ⟨heapN_of_downInv_stop a n i hi hn h ?_, Array.Perm.refl _, hstopn⟩
          intro k hk0 hk hp
          have hk2 : k = i + i + 1 ∨ k = i + i + 2 := by omega
          have hlt := Int.not_le.mp hc1
          have e : i + i + 2 - 1 = i + i + 1 := by omega
          rw [e] at hlt
          rcases hk2 with hk2 | hk2
          · rw [hk2]; exact Int.le_trans hc2 (Int.le_of_lt hlt)
          · rw [hk2]; exact hc2
        · rw [if_neg hc2]
          have hjlt : i + i + 2 < n := by
            have : i + i + 2 ≠ n := by intro e; rw [e] at hc2; exact hc2 (Int.le_refl _)
            omega
          have hd := downInv_step a n i (i + i + 2) hi hn h (Or.inr rfl) hjlt (by
            intro k hk0 hk hp
            have hk2 : k = i + i + 1 ∨ k = i + i + 2 := by omega
            have hlt := Int.not_le.mp hc1
            have e : i + i + 2 - 1 = i + i + 1 := by omega
            rw [e] at hlt
            rcases hk2 with hk2 | hk2
            · rw [hk2]; exact Int.le_of_lt hlt
            · rw [hk2]; exact Int.le_refl _) hc2
          have r := ih (a.setIfInBounds i a[i + i + 2]!) n (i + i + 2) (by omega) hjlt
            (by rw [Array.size_setIfInBounds]; exact hn) hd
          have hn' : (a.setIfInBounds i a[i + i + 2]!)[n]! = a[n]! := by
            rw [get_set a i n _ hia, if_neg (by omega)]
          rw [hn'] at r
          exact ⟨r.1, r.2.1.trans (set_set_perm a (i + i + 2) i a[n]! (by omega) hia (by omega)), r.2.2⟩


/-! ### prioq_delmin, prioq_min -/

theorem ext_get (a b : PQ) (hs : a.size = b.size) (h : ∀ k, k < a.size → a[k]! = b[k]!) : a = b := by
  apply Array.ext hs
  intro k h1 h2
  have := h k h1
  rwa [getElem!_pos a k h1, getElem!_pos b k h2] at this

theorem get_swap (q : PQ) (i j k : Nat) (hi : i < q.size) (hj : j < q.size) (hk : k < q.size) :
    (q.swap i j hi hj)[k]! = if k = i then q[j]! else if k = j then q[i]! else q[k]! := by
  rw [getElem!_pos (q.swap i j hi hj) k (by simpa using hk), Array.getElem_swap, getElem!_pos q j hj,
    getElem!_pos q i hi, getElem!_pos q k hk]

theorem root_swap_perm (q : PQ) (n : Nat) (hq : q.size = n + 1) (hn : 0 < n) :
    q.toList.Perm (q[0]! :: ((q.setIfInBounds 0 q[n]!).pop).toList) := by
  have h0 : 0 < q.size := by omega
  have hnq : n < q.size := by omega
  have hc : (q.swap 0 n h0 hnq).Perm q := Array.swap_perm _ _
  have hcs : (q.swap 0 n h0 hnq).size = n + 1 := by simpa using hq
  have hpop : (q.swap 0 n h0 hnq).pop = (q.setIfInBounds 0 q[n]!).pop := by
    apply ext_get
    · simp
    · intro k hk
      have hk' : k < n := by simpa [hq] using hk
      rw [get_pop _ k (by rw [hcs]; omega), get_pop _ k (by rw [Array.size_setIfInBounds, hq]; omega),
        get_swap q 0 n k h0 hnq (by omega), get_set q 0 k _ h0]
      by_cases hk0 : k = 0
      · subst hk0; simp
      · rw [if_neg hk0, if_neg (by omega), if_neg (by omega)]
  have hne : (q.swap 0 n h0 hnq).toList ≠ [] := by
    intro h; have := congrArg List.length h; simp [hq] at this
  have hlast : (q.swap 0 n h0 hnq).toList.getLast hne = q[0]! := by
    rw [List.getLast_eq_getElem]
    have : (q.swap 0 n h0 hnq).toList.length - 1 = n := by simp [hq]
    have e := get_swap q 0 n n h0 hnq hnq
    rw [if_neg (by omega), if_pos rfl, getElem!_pos _ n (by rw [hcs]; omega)] at e
    simp only [this, Array.getElem_toList]
    exact e
  have e1 := List.dropLast_concat_getLast hne
  rw [hlast, ← Array.toList_pop, hpop] at e1
  have := Array.perm_iff_toList_perm.mp hc
  rw [← e1] at this
  exact this.symm.trans (List.perm_append_singleton _ _)

theorem heap_root_min (q : PQ) (h : Heap q) : ∀ k, k < q.size → q[0]!.dt ≤ q[k]!.dt := by
  intro k
  induction k using Nat.strongRecOn with
  | _ k ih =>
    intro hk
    by_cases h0 : k = 0
    · subst h0; exact Int.le_refl _
    · exact Int.le_trans (ih ((k - 1) / 2) (by omega) (by omega)) (h k (by omega) hk)

theorem heap_root_le_mem (q : PQ) (h : Heap q) (e : Elt) (he : e ∈ q.toList) : q[0]!.dt ≤ e.dt := by
  obtain ⟨k, hk, hke⟩ := List.mem_iff_getElem.mp he
  have hk' : k < q.size := by simpa using hk
  have := heap_root_min q h k hk'
  rw [getElem!_pos q k hk'] at this
  simp only [Array.getElem_toList] at hke
  rw [hke] at this
  exact this

theorem delmin_spec (q : PQ) (h : Heap q) (hne : q.size ≠ 0) :
    Heap q.delmin ∧ q.toList.Perm (q[0]! :: q.delmin.toList) := by
  unfold PQ.delmin
  rw [if_neg hne]
  by_cases h1 : q.size = 1
  · -- a single entry: the loop does not run
    rw [h1]
    simp only [Nat.sub_self, siftDown]
    have hs : ((q.setIfInBounds 0 q[0]!).pop).size = 0 := by simp [h1]
    refine ⟨?_, ?_⟩
    · intro k _ hk; omega
    · have he : ((q.setIfInBounds 0 q[0]!).pop).toList = [] := by
        apply List.eq_nil_of_length_eq_zero; simpa using hs
      rw [he]
      have hl : q.toList.length = 1 := by simpa using h1
      match hq : q.toList, hl with
      | [x], _ =>
        have : q[0]! = x := by
          rw [getElem!_pos q 0 (by omega)]
          have : q.toList[0]'(by rw [hq]; simp) = x := by simp [hq]
          simpa using this
        rw [this]
  · have hn : 0 < q.size - 1 := by omega
    have hq : q.size = (q.size - 1) + 1 := by omega
    have hd : DownInv q (q.size - 1) 0 := by
      refine ⟨?_, ?_, ?_⟩
      · intro k hk0 hk _ _; exact h k hk0 (by omega)
      · intro k _ _ _ h00; omega
      · intro h00; omega
    obtain ⟨r1, r2, r3⟩ := siftDown_spec (q.size - 1) q (q.size - 1) 0 (by omega) hn (by omega) hd
    have hsz : (siftDown (q.size - 1) q (q.size - 1) 0).size = q.size := by
      rw [r2.size_eq, Array.size_setIfInBounds]
    refine ⟨?_, ?_⟩
    · intro k hk0 hk
      have hk' : k < q.size - 1 := by simpa [hsz] using hk
      rw [get_pop _ _ (by rw [hsz]; omega), get_pop _ k (by rw [hsz]; omega)]
      exact r1 k hk0 hk'
    · have hp := pop_perm _ _ (q.size - 1) (by rw [hsz]; exact hq)
        (by rw [Array.size_setIfInBounds]; exact hq) r2
        (by rw [r3, get_set q 0 _ _ (by omega), if_neg (by omega)])
      have := root_swap_perm q (q.size - 1) hq hn
      exact this.trans ((List.perm_cons _).mpr (Array.perm_iff_toList_perm.mp hp).symm)

theorem heap_empty : Heap #[] := by intro k _ hk; simp at hk

theorem delmin_heap (q : PQ) (h : Heap q) : Heap q.delmin := by
  by_cases hne : q.size = 0
  · unfold PQ.delmin; rw [if_pos hne]; exact h
  · exact (delmin_spec q h hne).1

theorem heap_run (ops : List PQ.Op) : ∀ q, Heap q → Heap (PQ.run q ops) := by
  induction ops with
  | nil => intro q h; exact h
  | cons o r ih =>
    intro q h
    cases o with
    | ins e => exact ih _ (insert_spec q e h).1
    | del => exact ih _ (delmin_heap q h)

theorem min_eq (q : PQ) (pe : Elt) (h : q.min = some pe) : q.size ≠ 0 ∧ pe = q[0]! := by
  unfold PQ.min at h
  have hs : 0 < q.size := by
    rcases Nat.eq_zero_or_pos q.size with h0 | h0
    · simp [Array.getElem?_eq_none (Nat.le_of_eq h0)] at h
    · exact h0
  refine ⟨by omega, ?_⟩
  rw [Array.getElem?_eq_getElem hs] at h
  rw [getElem!_pos q 0 hs]
  exact (Option.some.inj h).symm

theorem min_none (q : PQ) (h : q.min = none) : q.size = 0 := by
  unfold PQ.min at h
  rcases Nat.eq_zero_or_pos q.size with h0 | h0
  · exact h0
  · rw [Array.getElem?_eq_getElem h0] at h; cases h

end Nq.Lemmas.Sched
