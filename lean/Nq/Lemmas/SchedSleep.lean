/-
  Lemmas for the sleep-promptness theorems of C15 (`C15_sleep_*`): the timeout the select preparation
  (`Nq.SelPrep`, the model of qmail-send.c main()/pass_selprep/todo_selprep/cleanup_selprep; owned by C16 and only
  imported here) computes never carries the daemon past a startable due time by more than SLEEP_FUZZ.
  Core Lean only.
-/
import Nq.Spec.SchedHist
import Nq.Lemmas.SelPrep
import Nq.Lemmas.SchedHeap

namespace Nq.Lemmas.SchedSleep
open Nq Nq.Sched Nq.SchedHist Nq.Spec.SchedHist Nq.Lemmas.Sched
open Nq.SelPrep (Snap timeout wakeup dueTimes immediate jobAvail lowerL SLEEP_FUZZ SLEEP_FOREVER)

/-- membership in `startableDues`, spelled out -/
theorem mem_startableDues (s : Snap) (d : Int) :
    d ∈ startableDues s ↔
      s.exitasap = false ∧
        ((jobAvail s = true ∧ ∃ c, c ∈ s.chans ∧ c.passOpen = false ∧ c.pqMin = some d)
          ∨ s.pqfailMin = some d ∨ s.pqdoneMin = some d) := by
  unfold startableDues
  cases he : s.exitasap
  · cases hj : jobAvail s
    · simp only [Bool.false_eq_true, if_false, List.nil_append, List.mem_append, Nq.SelPrep.mem_optList, true_and,
        false_and, false_or]
    · simp only [Bool.false_eq_true, if_false, if_true, List.mem_append, Nq.SelPrep.mem_optList,
        Nq.SelPrep.mem_chanTimes, true_and]
      constructor
      · rintro ((h | h) | h)
        · exact Or.inl h
        · exact Or.inr (Or.inl h)
        · exact Or.inr (Or.inr h)
      · rintro (h | h | h)
        · exact Or.inl (Or.inl h)
        · exact Or.inl (Or.inr h)
        · exact Or.inr h
  · simp

/-- every startable due time is one of the timer events the select preparation looks at -/
theorem startable_sub_dueTimes (s : Snap) (d : Int) (hd : d ∈ startableDues s) : d ∈ dueTimes s := by
  rw [mem_startableDues] at hd
  rw [Nq.SelPrep.mem_dueTimes]
  obtain ⟨he, h | h | h⟩ := hd
  · exact Or.inl ⟨he, h.1, h.2⟩
  · exact Or.inr (Or.inl ⟨he, h⟩)
  · exact Or.inr (Or.inr (Or.inl ⟨he, h⟩))

/-- the wake-up time never lies after a startable due time, unless it is already at or before the clock -/
theorem wakeup_le_startable (s : Snap) (h0 : 0 ≤ s.recent) (d : Int) (hd : d ∈ startableDues s) :
    wakeup s ≤ s.recent ∨ wakeup s ≤ d := by
  cases him : immediate s with
  | true => left; have := Nq.SelPrep.wakeup_of_immediate s him; omega
  | false =>
    right
    rw [Nq.SelPrep.wakeup_of_not_immediate s him]
    exact Nq.SelPrep.lowerL_le_mem _ _ _ (startable_sub_dueTimes s d hd)

theorem timeout_prompt (s : Snap) (h0 : 0 ≤ s.recent) (d : Int) (hd : d ∈ startableDues s) :
    (d ≤ s.recent → timeout s = 0) ∧ (s.recent < d → timeout s ≤ d - s.recent + SLEEP_FUZZ) ∧ 0 ≤ timeout s := by
  have hfz := Nq.SelPrep.fuzz_nonneg
  have hw := wakeup_le_startable s h0 d hd
  unfold timeout
  by_cases hle : wakeup s ≤ s.recent
  · rw [if_pos hle]; exact ⟨fun _ => rfl, fun _ => by omega, Int.le_refl _⟩
  · rw [if_neg hle]
    have hwd : wakeup s ≤ d := by rcases hw with h | h; exact absurd h hle; exact h
    exact ⟨fun h => by omega, fun _ => by omega, by omega⟩

/-- the root of a heap, as the snapshot sees it, is no later than any entry -/
theorem min_dt_le (q : PQ) (h : Heap q) (e : Elt) (he : e ∈ q.toList) :
    ∃ m, q.min.map (·.dt) = some m ∧ m ≤ e.dt := by
  cases hm : q.min with
  | none =>
    exfalso
    unfold PQ.min at hm
    have hs : q.size = 0 := by
      rcases Nat.eq_zero_or_pos q.size with h0 | h0
      · exact h0
      · rw [Array.getElem?_eq_getElem h0] at hm; cases hm
    have : q.toList = [] := by
      have : q.toList.length = 0 := by simpa using hs
      exact List.eq_nil_of_length_eq_zero this
    rw [this] at he; cases he
  | some pe =>
    obtain ⟨_, hm0⟩ := min_eq q pe hm
    exact ⟨pe.dt, rfl, by rw [hm0]; exact heap_root_le_mem q h e he⟩

end Nq.Lemmas.SchedSleep
