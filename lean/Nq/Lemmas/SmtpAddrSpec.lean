/-
  Nq.Lemmas.SmtpAddrSpec — the path grammar of `Nq.Spec.SmtpAddr` against the model of addrparse():
  the lexer satisfies the grammar, the grammar determines the address, the model's loop computes it.
-/
import Nq.SmtpSession
import Nq.Spec.SmtpAddr
namespace Nq.SmtpAddrSpec
open Nq Nq.SmtpSession

theorem lexQ_dq (r : Bytes) : lexQ (DQ :: r) = ([], .closed r) := by rw [lexQ.eq_def]; simp
theorem lexQ_bsl_nil : lexQ [BSL] = ([], .opn true) := by rw [lexQ]; simp [BSL, DQ]
theorem lexQ_bsl_cons (d : Byte) (r : Bytes) : lexQ (BSL :: d :: r) = (.esc d :: (lexQ r).1, (lexQ r).2) := by
  rw [lexQ]; simp [BSL, DQ]
theorem lexQ_ch (c : Byte) (r : Bytes) (h1 : c ≠ DQ) (h2 : c ≠ BSL) :
    lexQ (c :: r) = (.ch c :: (lexQ r).1, (lexQ r).2) := by
  rw [lexQ.eq_def]; simp [if_neg h1, if_neg h2]
/-! lexer satisfies the grammar -/
theorem lexQ_spec : ∀ (n : Nat) (s : Bytes), s.length ≤ n →
    (∀ q ∈ (lexQ s).1, q.ok) ∧ s = qtext (lexQ s).1 ++ (lexQ s).2.text ∧
    (∀ r, (lexQ s).2 = .closed r → r.length < s.length) := by
  intro n
  induction n with
  | zero =>
    intro s hs
    have : s = [] := by cases s <;> simp_all
    subst this; simp [lexQ, qtext, QEnd.text]
  | succ n ih =>
    intro s hs
    match s with
    | [] => simp [lexQ, qtext, QEnd.text]
    | c :: r =>
      by_cases h1 : c = DQ
      · subst h1; rw [lexQ_dq]; simp [qtext, QEnd.text]
      · by_cases h2 : c = BSL
        · subst h2
          match r with
          | [] => rw [lexQ_bsl_nil]; simp [qtext, QEnd.text]
          | d :: r' =>
            have hl : r'.length ≤ n := by simp at hs; omega
            obtain ⟨a, b, c3⟩ := ih r' hl
            rw [lexQ_bsl_cons]
            refine ⟨?_, ?_, ?_⟩
            · intro q hq
              rcases List.mem_cons.mp hq with rfl | hq
              · simp [QItem.ok]
              · exact a q hq
            · simp only [qtext, List.flatMap_cons, QItem.text] at b ⊢
              simp; exact b
            · intro r0 hr0; have := c3 r0 hr0; simp; omega
        · have hl : r.length ≤ n := by simp at hs; omega
          obtain ⟨a, b, c3⟩ := ih r hl
          rw [lexQ_ch c r h1 h2]
          refine ⟨?_, ?_, ?_⟩
          · intro q hq
            rcases List.mem_cons.mp hq with rfl | hq
            · exact ⟨h2, h1⟩
            · exact a q hq
          · simp only [qtext, List.flatMap_cons, QItem.text] at b ⊢
            simp; exact b
          · intro r0 hr0; have := c3 r0 hr0; simp; omega

theorem lexTop_nil (term : Byte) (n : Nat) : lexTop term n [] = ([], .eos) := by
  cases n <;> rw [lexTop.eq_def]
theorem lexTop_term (term : Byte) (n : Nat) (r : Bytes) : lexTop term (n+1) (term :: r) = ([], .term r) := by
  rw [lexTop.eq_def]; simp
theorem lexTop_dq_closed (term : Byte) (n : Nat) (r : Bytes) (h : DQ ≠ term) (qs : List QItem) (r' : Bytes)
    (hq : lexQ r = (qs, .closed r')) :
    lexTop term (n+1) (DQ :: r) = (.quoted qs :: (lexTop term n r').1, (lexTop term n r').2) := by
  rw [lexTop.eq_def]; simp [if_neg h, hq]
theorem lexTop_dq_opn (term : Byte) (n : Nat) (r : Bytes) (h : DQ ≠ term) (qs : List QItem) (d : Bool)
    (hq : lexQ r = (qs, .opn d)) :
    lexTop term (n+1) (DQ :: r) = ([], .openq qs d) := by
  rw [lexTop.eq_def]; simp [if_neg h, hq]
theorem lexTop_bsl_nil (term : Byte) (n : Nat) (h : BSL ≠ term) : lexTop term (n+1) [BSL] = ([], .bsl) := by
  rw [lexTop.eq_def]; simp [if_neg h, BSL, DQ]
theorem lexTop_bsl_cons (term : Byte) (n : Nat) (d : Byte) (r : Bytes) (h : BSL ≠ term) :
    lexTop term (n+1) (BSL :: d :: r) = (.esc d :: (lexTop term n r).1, (lexTop term n r).2) := by
  rw [lexTop.eq_def]; simp [if_neg h, BSL, DQ]
theorem lexTop_ch (term : Byte) (n : Nat) (c : Byte) (r : Bytes) (h0 : c ≠ term) (h1 : c ≠ DQ) (h2 : c ≠ BSL) :
    lexTop term (n+1) (c :: r) = (.ch c :: (lexTop term n r).1, (lexTop term n r).2) := by
  rw [lexTop.eq_def]; simp [if_neg h0, if_neg h1, if_neg h2]

theorem lexTop_spec (term : Byte) : ∀ (n : Nat) (s : Bytes), s.length ≤ n →
    (∀ i ∈ (lexTop term n s).1, i.ok term) ∧ (lexTop term n s).2.ok ∧
    s = itemsText (lexTop term n s).1 ++ (lexTop term n s).2.text term := by
  intro n
  induction n with
  | zero =>
    intro s hs
    have : s = [] := by cases s <;> simp_all
    subst this; rw [lexTop_nil]; simp [itemsText, Ending.text, Ending.ok]
  | succ n ih =>
    intro s hs
    match s with
    | [] => rw [lexTop_nil]; simp [itemsText, Ending.text, Ending.ok]
    | c :: r =>
      by_cases h0 : c = term
      · subst h0; rw [lexTop_term]; simp [itemsText, Ending.text, Ending.ok]
      · by_cases h1 : c = DQ
        · subst h1
          obtain ⟨qa, qb, qc⟩ := lexQ_spec r.length r (Nat.le_refl _)
          generalize hq : lexQ r = p at qa qb qc
          obtain ⟨qs, qe⟩ := p
          cases qe with
          | closed r' =>
            rw [lexTop_dq_closed term n r h0 qs r' hq]
            have hl : r'.length ≤ n := by
              have := qc r' rfl; simp at hs; omega
            obtain ⟨a, b, c3⟩ := ih r' hl
            refine ⟨?_, b, ?_⟩
            · intro i hi
              rcases List.mem_cons.mp hi with rfl | hi
              · exact qa
              · exact a i hi
            · simp only [itemsText, List.flatMap_cons, Item.text, QEnd.text] at c3 qb ⊢
              rw [qb]; simp; exact c3
          | opn d =>
            rw [lexTop_dq_opn term n r h0 qs d hq]
            refine ⟨by simp, qa, ?_⟩
            simp only [itemsText, List.flatMap_nil, Ending.text, QEnd.text] at qb ⊢
            rw [qb]; simp
        · by_cases h2 : c = BSL
          · subst h2
            match r with
            | [] => rw [lexTop_bsl_nil term n h0]; simp [itemsText, Ending.text, Ending.ok]
            | d :: r' =>
              have hl : r'.length ≤ n := by simp at hs; omega
              obtain ⟨a, b, c3⟩ := ih r' hl
              rw [lexTop_bsl_cons term n d r' h0]
              refine ⟨?_, b, ?_⟩
              · intro i hi
                rcases List.mem_cons.mp hi with rfl | hi
                · simp [Item.ok]
                · exact a i hi
              · simp only [itemsText, List.flatMap_cons, Item.text] at c3 ⊢
                simp; exact c3
          · have hl : r.length ≤ n := by simp at hs; omega
            obtain ⟨a, b, c3⟩ := ih r hl
            rw [lexTop_ch term n c r h0 h1 h2]
            refine ⟨?_, b, ?_⟩
            · intro i hi
              rcases List.mem_cons.mp hi with rfl | hi
              · exact ⟨h2, h1, h0⟩
              · exact a i hi
            · simp only [itemsText, List.flatMap_cons, Item.text] at c3 ⊢
              simp; exact c3

/-- the lexer's reading satisfies the grammar -/
theorem specUnq_is (term : Byte) (s : Bytes) : IsUnq term s (specUnq term s) := by
  obtain ⟨a, b, c⟩ := lexTop_spec term s.length s (Nat.le_refl _)
  exact ⟨_, _, a, b, c, rfl⟩

/-! ### the grammar determines the address: it is what the copy loop of the model computes -/

theorem unq_esc (term : Byte) (q : Bool) (c : Byte) (r : Bytes) : unq term true q (c :: r) = c :: unq term false q r := by
  cases q <;> rfl

theorem unq_nil (term : Byte) (e q : Bool) : unq term e q [] = [] := by
  cases e <;> cases q <;> rfl

theorem unq_q_ch (term : Byte) (c : Byte) (r : Bytes) (h1 : c ≠ SmtpAddrSpec.BSL) (h2 : c ≠ SmtpAddrSpec.DQ) :
    unq term false true (c :: r) = c :: unq term false true r := by
  have h1' : c ≠ SmtpSession.BSL := h1
  have h2' : c ≠ SmtpSession.DQ := h2
  simp [unq, if_neg h1', if_neg h2']

theorem unq_q_bsl (term : Byte) (r : Bytes) : unq term false true (SmtpAddrSpec.BSL :: r) = unq term true true r := by
  simp [unq]

theorem unq_q_dq (term : Byte) (r : Bytes) : unq term false true (SmtpAddrSpec.DQ :: r) = unq term false false r := by
  simp [unq, SmtpSession.BSL, SmtpSession.DQ, SmtpAddrSpec.DQ]

theorem unq_t_ch (term : Byte) (c : Byte) (r : Bytes) (h1 : c ≠ SmtpAddrSpec.BSL) (h2 : c ≠ SmtpAddrSpec.DQ) (h0 : c ≠ term) :
    unq term false false (c :: r) = c :: unq term false false r := by
  have h1' : c ≠ SmtpSession.BSL := h1
  have h2' : c ≠ SmtpSession.DQ := h2
  simp [unq, if_neg h1', if_neg h2', h0]

theorem unq_t_bsl (term : Byte) (r : Bytes) (h : SmtpAddrSpec.BSL ≠ term) :
    unq term false false (SmtpAddrSpec.BSL :: r) = unq term true false r := by
  have h' : SmtpSession.BSL ≠ term := h
  simp [unq, h']

theorem unq_t_dq (term : Byte) (r : Bytes) (h : SmtpAddrSpec.DQ ≠ term) :
    unq term false false (SmtpAddrSpec.DQ :: r) = unq term false true r := by
  have h' : SmtpSession.DQ ≠ term := h
  simp [unq, h', SmtpSession.BSL, SmtpSession.DQ, SmtpAddrSpec.DQ]

theorem unq_t_term (term : Byte) (r : Bytes) : unq term false false (term :: r) = [] := by
  simp [unq]

theorem unq_qitems (term : Byte) : ∀ (qs : List QItem), (∀ q ∈ qs, q.ok) → ∀ r,
    unq term false true (qtext qs ++ r) = qs.map QItem.val ++ unq term false true r := by
  intro qs
  induction qs with
  | nil => intro _ r; simp [qtext]
  | cons q qs ih =>
    intro hok r
    have hq := hok q (List.mem_cons_self ..)
    have ih' := ih (fun x hx => hok x (List.mem_cons_of_mem _ hx)) r
    cases q with
    | ch c =>
      obtain ⟨h1, h2⟩ := hq
      simp only [qtext, List.flatMap_cons, QItem.text, List.map_cons, QItem.val, List.cons_append, List.nil_append] at ih' ⊢
      rw [unq_q_ch term c _ h1 h2, ih']
    | esc c =>
      simp only [qtext, List.flatMap_cons, QItem.text, List.map_cons, QItem.val, List.cons_append, List.nil_append] at ih' ⊢
      rw [unq_q_bsl, unq_esc, ih']

theorem unq_items (term : Byte) (hb : SmtpAddrSpec.BSL ≠ term) (hd : SmtpAddrSpec.DQ ≠ term) :
    ∀ (items : List Item), (∀ i ∈ items, i.ok term) → ∀ r,
    unq term false false (itemsText items ++ r) = itemsVal items ++ unq term false false r := by
  intro items
  induction items with
  | nil => intro _ r; simp [itemsText, itemsVal]
  | cons i items ih =>
    intro hok r
    have hi := hok i (List.mem_cons_self ..)
    have ih' := ih (fun x hx => hok x (List.mem_cons_of_mem _ hx)) r
    cases i with
    | ch c =>
      obtain ⟨h1, h2, h0⟩ := hi
      simp only [itemsText, itemsVal, List.flatMap_cons, Item.text, Item.val, List.cons_append, List.nil_append] at ih' ⊢
      rw [unq_t_ch term c _ h1 h2 h0, ih']
    | esc c =>
      simp only [itemsText, itemsVal, List.flatMap_cons, Item.text, Item.val, List.cons_append, List.nil_append] at ih' ⊢
      rw [unq_t_bsl term _ hb, unq_esc, ih']
    | quoted qs =>
      simp only [itemsText, itemsVal, List.flatMap_cons, Item.text, Item.val, List.cons_append, List.nil_append, List.append_assoc] at ih' ⊢
      rw [unq_t_dq term _ hd, unq_qitems term qs hi, unq_q_dq, ih']

/-- uniqueness: whatever items a string is read as, the address is the one the model's loop computes -/
theorem IsUnq_unq (term : Byte) (hb : SmtpAddrSpec.BSL ≠ term) (hd : SmtpAddrSpec.DQ ≠ term) (s a : Bytes)
    (h : IsUnq term s a) : a = unq term false false s := by
  obtain ⟨items, e, hok, heok, hs, ha⟩ := h
  subst hs ha
  rw [unq_items term hb hd items hok]
  congr 1
  cases e with
  | eos => simp [Ending.text, Ending.val, unq_nil]
  | term r => simp [Ending.text, Ending.val, unq_t_term]
  | bsl => simp only [Ending.text, Ending.val]; rw [unq_t_bsl term _ hb, unq_nil]
  | openq qs d =>
    simp only [Ending.text, Ending.val]
    rw [unq_t_dq term _ hd, unq_qitems term qs heok]
    cases d
    · simp [unq_nil]
    · simp only [if_true]; rw [unq_q_bsl, unq_nil]; simp

theorem unq_eq_spec (term : Byte) (hb : SmtpAddrSpec.BSL ≠ term) (hd : SmtpAddrSpec.DQ ≠ term) (s : Bytes) :
    unq term false false s = specUnq term s :=
  (IsUnq_unq term hb hd s _ (specUnq_is term s)).symm

end Nq.SmtpAddrSpec
