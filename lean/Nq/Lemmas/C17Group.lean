/-
  C17 lemmas: the right-to-left address-list parser (a) ignores comment tokens altogether, (b) on a
  flat list of mailboxes, commas (present, repeated or — where RFC 822 text stays unambiguous —
  missing), and groups `phrase : … ;`.
-/
import Nq.Lemmas.C17Envelope

namespace Nq.Lemmas.C17
open Nq Nq.Token822 Nq.Inject

/-! ### (a) comment tokens only ever reach `taout` -/

/-- the two parser states agree on everything but `taout` -/
def SameButOut (a b : ASt) : Prop :=
  a.mode = b.mode ∧ a.ingroup = b.ingroup ∧ a.wordok = b.wordok ∧ a.addr = b.addr ∧ a.got = b.got ∧ a.failed = b.failed

theorem SameButOut.refl (a : ASt) : SameButOut a a := ⟨rfl, rfl, rfl, rfl, rfl, rfl⟩

theorem SameButOut.trans {a b c : ASt} (h1 : SameButOut a b) (h2 : SameButOut b c) : SameButOut a c := by
  obtain ⟨a1, a2, a3, a4, a5, a6⟩ := h1
  obtain ⟨b1, b2, b3, b4, b5, b6⟩ := h2
  exact ⟨a1.trans b1, a2.trans b2, a3.trans b3, a4.trans b4, a5.trans b5, a6.trans b6⟩

/-- no decision of the parser depends on `taout` -/
theorem astep_sameButOut (cb : List Tok → List Tok) (a b : ASt) (t : Tok) (h : SameButOut a b) :
    SameButOut (astep cb a t) (astep cb b t) := by
  obtain ⟨mode, ingroup, wordok, addr, out, got, failed⟩ := a
  obtain ⟨mode', ingroup', wordok', addr', out', got', failed'⟩ := b
  simp only [SameButOut] at h
  obtain ⟨rfl, rfl, rfl, rfl, rfl, rfl⟩ := h
  cases failed <;> cases mode <;> cases t <;> cases addr <;> cases wordok <;> cases ingroup <;>
    simp [SameButOut, astep, astepNormal, flush, flushComma, gotaddr, outLeft, addrLeft, isPhraseTok]

/-- a comment token changes `taout` only -/
theorem astep_comment (cb : List Tok → List Tok) (a : ASt) (s : Bytes) :
    SameButOut (astep cb a (.comment s)) a := by
  obtain ⟨mode, ingroup, wordok, addr, out, got, failed⟩ := a
  cases failed <;> cases mode <;>
    simp [SameButOut, astep, astepNormal, outLeft, isPhraseTok]

theorem afinish_sameButOut (cb : List Tok → List Tok) (a b : ASt) (h : SameButOut a b) :
    SameButOut (afinish cb a) (afinish cb b) := by
  obtain ⟨mode, ingroup, wordok, addr, out, got, failed⟩ := a
  obtain ⟨mode', ingroup', wordok', addr', out', got', failed'⟩ := b
  simp only [SameButOut] at h
  obtain ⟨rfl, rfl, rfl, rfl, rfl, rfl⟩ := h
  cases failed <;> cases mode <;> cases addr <;>
    simp [SameButOut, afinish, flush, gotaddr]

theorem foldl_sameButOut (cb : List Tok → List Tok) (ts : List Tok) :
    ∀ (a b : ASt), SameButOut a b → SameButOut (ts.foldl (astep cb) a) (ts.foldl (astep cb) b) := by
  induction ts with
  | nil => intro a b h; exact h
  | cons t ts ih => intro a b h; exact ih _ _ (astep_sameButOut cb a b t h)

/-- dropping the comment tokens from the input changes `taout` only -/
theorem foldl_filter_comments (cb : List Tok → List Tok) (ts : List Tok) :
    ∀ (a b : ASt), SameButOut a b →
      SameButOut (ts.foldl (astep cb) a) ((ts.filter notComment).foldl (astep cb) b) := by
  induction ts with
  | nil => intro a b h; exact h
  | cons t ts ih =>
    intro a b h
    cases t with
    | comment s =>
      have : SameButOut (astep cb a (.comment s)) b := (astep_comment cb a s).trans h
      simpa [notComment] using ih _ _ this
    | _ =>
      simp only [List.filter, notComment, List.foldl_cons]
      exact ih _ _ (astep_sameButOut cb a b _ h)

theorem filter_reverse_notComment (l : List Tok) : (l.filter notComment).reverse = l.reverse.filter notComment := by
  simp [List.filter_reverse]

/-- **comments are lexically white space for `token822_addrlist`**: the return value and the sequence of
callback invocations are those of the same field without its comment tokens -/
theorem addrlist_comments (cb : List Tok → List Tok) (name colon : Tok) (body : List Tok) :
    (addrlist cb (name :: colon :: body)).ok = (addrlist cb (name :: colon :: body.filter notComment)).ok ∧
    (addrlist cb (name :: colon :: body)).got = (addrlist cb (name :: colon :: body.filter notComment)).got := by
  have h := foldl_filter_comments cb body.reverse {} {} (SameButOut.refl _)
  rw [← filter_reverse_notComment] at h
  have h2 := afinish_sameButOut cb _ _ h
  obtain ⟨_, _, _, _, g, f⟩ := h2
  simp only [addrlist, List.drop_succ_cons, List.drop_zero]
  exact ⟨by rw [f], g⟩

/-! ### (b) groups, repeated and missing commas -/

/-- one element of an address list, right to left as the parser meets it -/
inductive El
  | mbox (it : Item)          -- a mailbox: addr-spec, or `phrase <route-addr>`
  | comma
  | gclose                    -- `;`
  | gopen (ph : List Tok)     -- `:` and, to its left, the group's display name

def El.toks : El → List Tok
  | .mbox it => it.toks
  | .comma => [.comma]
  | .gclose => [.semi]
  | .gopen ph => .colon :: ph

def El.ok : El → Prop
  | .mbox it => it.ok
  | .gopen ph => Tok.comma ∉ ph
  | _ => True

/-- what lies immediately to the right of the next element -/
inductive Edge
  | fresh       -- nothing pending: start of the list, after a comma, after `;`
  | pendW       -- an addr-spec whose leftmost token is a word (a missing comma before it is understood)
  | pendS       -- an addr-spec whose leftmost token is `@` or `.` (degenerate; needs a real separator)
  | phrase      -- the display name of a `phrase <…>`
  | colon       -- the display name of a group
  deriving DecidableEq, Repr

/-- the value of `wordok` after the tokens (comments are transparent) -/
def endW : Bool → List Tok → Bool
  | w, [] => w
  | w, t :: r => if notComment t then (if isWordTok t then endW false r else endW true r) else endW w r

def startsWord : List Tok → Bool
  | t :: _ => isWordTok t
  | [] => false

/-- the grammar, as an automaton on elements: `g` = inside a group.  A mailbox may follow (stand to the
left of) its neighbour WITHOUT a comma when that neighbour is an addr-spec beginning with a word and the
mailbox ends with a word or `>`; `phrase <…>` and a group need a real comma to their left unless what
stands there ends in `>` or `;` (otherwise it would be read as part of the display name) -/
def elNext (g : Bool) (e : Edge) : El → Option (Bool × Edge)
  | .comma => some (g, .fresh)
  | .mbox (.plain m) =>
    match e with
    | .fresh => some (g, if endW true m then .pendS else .pendW)
    | .pendW => if startsWord m then some (g, if endW false m then .pendS else .pendW) else none
    | _ => none
  | .mbox (.angle _ _) => if e = .colon then none else some (g, .phrase)
  | .gclose => if e = .colon ∨ g = true then none else some (true, .fresh)
  | .gopen _ => if e = .colon ∨ g = false then none else some (false, .colon)

def validEls : Bool → Edge → List El → Bool
  | g, _, [] => !g
  | g, e, el :: r =>
    match elNext g e el with
    | some (g', e') => validEls g' e' r
    | none => false

/-- the listed mailboxes (each reversed, comments removed), right to left -/
def mboxes : List El → List (List Tok)
  | [] => []
  | .mbox it :: r => it.addr :: mboxes r
  | _ :: r => mboxes r

/-- the parser state that corresponds to an edge -/
def Abs (a : ASt) (g : Bool) (e : Edge) : Prop :=
  a.failed = false ∧ a.ingroup = g ∧
  match e with
  | .fresh => a.mode = .normal ∧ a.addr = [] ∧ a.wordok = true
  | .pendW => a.mode = .normal ∧ a.addr ≠ [] ∧ a.wordok = false
  | .pendS => a.mode = .normal ∧ a.addr ≠ [] ∧ a.wordok = true
  | .phrase => a.mode = .phrase ∧ a.addr = []
  | .colon => a.mode = .colon ∧ a.addr = []

/-- the callback invocation still owed for the pending address -/
def owed (cb : List Tok → List Tok) (a : ASt) : List (List Tok) :=
  if a.addr.isEmpty then [] else [cb a.addr]

/-- plain mailbox with comments, outside `<…>`, any starting `wordok`: also where `wordok` ends -/
theorem fold_mailboxW (cb : List Tok → List Tok) (r : List Tok) :
    ∀ (w : Bool) (a : ASt), a.mode = .normal → a.failed = false → a.wordok = w → sepOkC w r = true →
      let z := r.foldl (astep cb) a
      z.mode = .normal ∧ z.failed = false ∧ z.ingroup = a.ingroup ∧ z.addr = a.addr ++ r.filter notComment ∧
      z.got = a.got ∧ z.wordok = endW w r := by
  induction r with
  | nil => intro w a hm hf hw _; simp [hm, hf, hw, endW]
  | cons t r ih =>
    intro w a hm hf hw hs
    simp only [List.foldl_cons]
    by_cases hc : notComment t = true
    · simp only [sepOkC, hc, if_true] at hs
      by_cases ht : isWordTok t = true
      · simp only [ht, if_true, Bool.and_eq_true] at hs
        obtain ⟨hw1, hs'⟩ := hs
        have hwok : a.wordok = true := by rw [hw, hw1]
        have hstep : astep cb a t = { a with addr := a.addr ++ [t], wordok := false } := by
          cases t <;> simp [isWordTok] at ht <;>
            simp [astep, hf, hm, astepNormal, hwok, addrLeft]
        rw [hstep]
        obtain ⟨h1, h2, h3, h4, h5, h6⟩ := ih false { a with addr := a.addr ++ [t], wordok := false } hm hf rfl hs'
        exact ⟨h1, h2, h3, by rw [h4]; simp [hc], h5, by rw [h6]; simp [endW, hc, ht]⟩
      · have ht' : isWordTok t = false := by simpa using ht
        simp only [ht', Bool.false_eq_true, if_false, Bool.and_eq_true] at hs
        obtain ⟨hsep, hs'⟩ := hs
        have hstep : astep cb a t = { a with addr := a.addr ++ [t], wordok := true } := by
          cases t <;> simp [isSepTok] at hsep <;>
            simp [astep, hf, hm, astepNormal, addrLeft]
        rw [hstep]
        obtain ⟨h1, h2, h3, h4, h5, h6⟩ := ih true { a with addr := a.addr ++ [t], wordok := true } hm hf rfl hs'
        exact ⟨h1, h2, h3, by rw [h4]; simp [hc], h5, by rw [h6]; simp [endW, hc, ht']⟩
    · have hc' : notComment t = false := by simpa using hc
      simp only [sepOkC, hc', Bool.false_eq_true, if_false] at hs
      have hstep : astep cb a t = { a with out := t :: a.out } := by
        cases t <;> simp [notComment] at hc' <;> simp [astep, hf, hm, astepNormal, outLeft]
      rw [hstep]
      obtain ⟨h1, h2, h3, h4, h5, h6⟩ := ih w { a with out := t :: a.out } hm hf hw hs
      exact ⟨h1, h2, h3, by rw [h4]; simp [hc'], h5, by rw [h6]; simp [endW, hc']⟩

/-- the display name of a group: everything up to the next comma is copied -/
theorem fold_colon (cb : List Tok → List Tok) (ph : List Tok) :
    ∀ (a : ASt), a.mode = .colon → a.failed = false → Tok.comma ∉ ph →
      let z := ph.foldl (astep cb) a
      z.mode = .colon ∧ z.failed = false ∧ z.ingroup = a.ingroup ∧ z.got = a.got ∧ z.addr = a.addr := by
  induction ph with
  | nil => intro a hm hf _; simp [hm, hf]
  | cons t r ih =>
    intro a hm hf hp
    have ht : t ≠ .comma := fun e => hp (by simp [e])
    have hr : Tok.comma ∉ r := fun e => hp (by simp [e])
    have hstep : astep cb a t = { a with out := t :: a.out } := by
      simp [astep, hf, hm, ht, outLeft]
    simp only [List.foldl_cons, hstep]
    exact ih { a with out := t :: a.out } hm hf hr

/-- `>` inner `<` phrase, started in angle mode with an empty `taaddr` -/
theorem fold_angle_item (cb : List Tok → List Tok) (inner ph : List Tok) (b : ASt)
    (hm : b.mode = .angle) (hf : b.failed = false) (ha : b.addr = [])
    (hl : Tok.left ∉ inner) (hp : ph.all isPhraseTok = true) :
    let z := (inner ++ .left :: ph).foldl (astep cb) b
    z.mode = .phrase ∧ z.failed = false ∧ z.ingroup = b.ingroup ∧ z.addr = [] ∧
    z.got = b.got ++ [cb (inner.filter notComment)] := by
  simp only [List.foldl_append, List.foldl_cons]
  obtain ⟨a1, a2, a3, a4, a5⟩ := fold_angle cb inner b hm hf hl
  generalize List.foldl (astep cb) b inner = c at a1 a2 a3 a4 a5
  have h1 : astep cb c .left = { (gotaddr cb c) with mode := .phrase, out := Tok.left :: (gotaddr cb c).out } := by
    simp [astep, a2, a1, outLeft]
  rw [h1]
  obtain ⟨p1, p2, p3, p4, p5⟩ := fold_phrase cb ph
    { (gotaddr cb c) with mode := .phrase, out := Tok.left :: (gotaddr cb c).out } rfl (by simp [gotaddr, a2]) hp
  refine ⟨p1, p2, by rw [p3]; simp [gotaddr, a3], by rw [p5]; simp [gotaddr], ?_⟩
  rw [p4]
  simp [gotaddr, a4, a5, ha]

/-- **one element**: from the state of an edge at which the grammar allows it, the parser reaches the
state of the next edge, and the callback has been (or is still owed to be) invoked for exactly the
pending address and the element's own mailbox -/
theorem fold_el (cb : List Tok → List Tok) (el : El) (a : ASt) (g g' : Bool) (e e' : Edge)
    (hA : Abs a g e) (hn : elNext g e el = some (g', e')) (hok : el.ok) :
    let z := el.toks.foldl (astep cb) a
    Abs z g' e' ∧ z.got ++ owed cb z = a.got ++ owed cb a ++ (mboxes [el]).map cb := by
  obtain ⟨hf, hg, hE⟩ := hA
  cases el with
  | comma =>
    simp only [elNext, Option.some.injEq, Prod.mk.injEq] at hn
    obtain ⟨rfl, rfl⟩ := hn
    cases e <;> simp only [] at hE
    · obtain ⟨hm, ha, hw⟩ := hE
      simp [El.toks, astep, hf, hm, astepNormal, flush, ha, outLeft, Abs, hg, owed, mboxes]
    · obtain ⟨hm, ha, hw⟩ := hE
      have he : a.addr.isEmpty = false := by cases h : a.addr <;> simp_all
      simp [El.toks, astep, hf, hm, astepNormal, flush, he, gotaddr, outLeft, Abs, hg, owed, mboxes]
    · obtain ⟨hm, ha, hw⟩ := hE
      have he : a.addr.isEmpty = false := by cases h : a.addr <;> simp_all
      simp [El.toks, astep, hf, hm, astepNormal, flush, he, gotaddr, outLeft, Abs, hg, owed, mboxes]
    · obtain ⟨hm, ha⟩ := hE
      simp [El.toks, astep, hf, hm, isPhraseTok, astepNormal, flush, ha, outLeft, Abs, hg, owed, mboxes]
    · obtain ⟨hm, ha⟩ := hE
      simp [El.toks, astep, hf, hm, ha, outLeft, Abs, hg, owed, mboxes]
  | gclose =>
    simp only [elNext] at hn
    split at hn
    · simp at hn
    · rename_i hcond
      simp only [Option.some.injEq, Prod.mk.injEq] at hn
      obtain ⟨rfl, rfl⟩ := hn
      have hg0 : a.ingroup = false := by
        rw [hg]; cases g <;> simp_all
      cases e <;> simp only [] at hE
      · obtain ⟨hm, ha, hw⟩ := hE
        simp [El.toks, astep, hf, hm, astepNormal, flushComma, ha, outLeft, Abs, hg0, owed, mboxes]
      · obtain ⟨hm, ha, hw⟩ := hE
        have he : a.addr.isEmpty = false := by cases h : a.addr <;> simp_all
        simp [El.toks, astep, hf, hm, astepNormal, flushComma, he, gotaddr, outLeft, Abs, hg0, owed, mboxes]
      · obtain ⟨hm, ha, hw⟩ := hE
        have he : a.addr.isEmpty = false := by cases h : a.addr <;> simp_all
        simp [El.toks, astep, hf, hm, astepNormal, flushComma, he, gotaddr, outLeft, Abs, hg0, owed, mboxes]
      · obtain ⟨hm, ha⟩ := hE
        simp [El.toks, astep, hf, hm, isPhraseTok, astepNormal, flushComma, ha, outLeft, Abs, hg0, owed, mboxes]
      · simp at hcond
  | gopen ph =>
    simp only [elNext] at hn
    split at hn
    · simp at hn
    · rename_i hcond
      simp only [Option.some.injEq, Prod.mk.injEq] at hn
      obtain ⟨rfl, rfl⟩ := hn
      have hg1 : a.ingroup = true := by
        rw [hg]; cases g <;> simp_all
      simp only [El.ok] at hok
      simp only [El.toks, List.foldl_cons]
      -- the colon itself
      have hcolon : ∃ b : ASt, astep cb a .colon = b ∧ b.mode = .colon ∧ b.failed = false ∧ b.ingroup = false ∧
          b.addr = [] ∧ b.got = a.got ++ owed cb a := by
        cases e <;> simp only [] at hE
        · obtain ⟨hm, ha, hw⟩ := hE
          exact ⟨_, rfl, by simp [astep, hf, hm, astepNormal, flush, ha, outLeft, hg1, owed]⟩
        · obtain ⟨hm, ha, hw⟩ := hE
          have he : a.addr.isEmpty = false := by cases h : a.addr <;> simp_all
          exact ⟨_, rfl, by simp [astep, hf, hm, astepNormal, flush, he, gotaddr, outLeft, hg1, owed]⟩
        · obtain ⟨hm, ha, hw⟩ := hE
          have he : a.addr.isEmpty = false := by cases h : a.addr <;> simp_all
          exact ⟨_, rfl, by simp [astep, hf, hm, astepNormal, flush, he, gotaddr, outLeft, hg1, owed]⟩
        · obtain ⟨hm, ha⟩ := hE
          exact ⟨_, rfl, by simp [astep, hf, hm, isPhraseTok, astepNormal, flush, ha, outLeft, hg1, owed]⟩
        · simp at hcond
      obtain ⟨b, hb, b1, b2, b3, b4, b5⟩ := hcolon
      rw [hb]
      obtain ⟨c1, c2, c3, c4, c5⟩ := fold_colon cb ph b b1 b2 hok
      refine ⟨⟨c2, by rw [c3, b3], c1, by rw [c5, b4]⟩, ?_⟩
      simp [owed, c5, b4, c4, b5, mboxes]
  | mbox it =>
    cases it with
    | plain m =>
      obtain ⟨hne, hs⟩ := hok
      simp only [elNext] at hn
      cases e <;> simp only [] at hE <;> simp only [reduceCtorEq] at hn
      · -- fresh
        obtain ⟨hm, ha, hw⟩ := hE
        simp only [Option.some.injEq, Prod.mk.injEq] at hn
        obtain ⟨rfl, rfl⟩ := hn
        obtain ⟨z1, z2, z3, z4, z5, z6⟩ := fold_mailboxW cb m true a hm hf hw hs
        simp only [El.toks, Item.toks]
        have hza : (m.foldl (astep cb) a).addr = m.filter notComment := by rw [z4, ha]; simp
        have hzne : (m.foldl (astep cb) a).addr.isEmpty = false := by
          rw [hza]; cases h : m.filter notComment <;> simp_all
        refine ⟨⟨z2, by rw [z3, hg], ?_⟩, ?_⟩
        · cases hw' : endW true m
          · simp only [Bool.false_eq_true, if_false]
            exact ⟨z1, by rw [hza]; exact hne, by rw [z6, hw']⟩
          · simp only [if_true]
            exact ⟨z1, by rw [hza]; exact hne, by rw [z6, hw']⟩
        · have hne' : (m.filter notComment).isEmpty = false := by
            cases h : m.filter notComment <;> simp_all
          simp [owed, ha, z5, hza, hne', mboxes, Item.addr]
      · -- pendW: the missing comma
        obtain ⟨hm, ha, hw⟩ := hE
        split at hn
        · rename_i hsw
          simp only [Option.some.injEq, Prod.mk.injEq] at hn
          obtain ⟨rfl, rfl⟩ := hn
          cases m with
          | nil => simp [startsWord] at hsw
          | cons t r =>
            simp only [startsWord] at hsw
            have hnc : notComment t = true := by cases t <;> simp_all [isWordTok, notComment]
            simp only [sepOkC, hnc, hsw, if_true, Bool.true_and] at hs
            have he : a.addr.isEmpty = false := by cases h : a.addr <;> simp_all
            have hstep : astep cb a t = { a with addr := [t], wordok := false, out := Tok.comma :: ((cb a.addr).reverse ++ a.out), got := a.got ++ [cb a.addr] } := by
              cases t <;> simp [isWordTok] at hsw <;>
                simp [astep, hf, hm, astepNormal, hw, flushComma, he, gotaddr, addrLeft]
            simp only [El.toks, Item.toks, List.foldl_cons, hstep]
            obtain ⟨z1, z2, z3, z4, z5, z6⟩ := fold_mailboxW cb r false
              { a with addr := [t], wordok := false, out := Tok.comma :: ((cb a.addr).reverse ++ a.out), got := a.got ++ [cb a.addr] } hm hf rfl hs
            simp only [] at z3 z4 z5 z6
            have hend : endW false (t :: r) = endW false r := by simp [endW, hnc, hsw]
            have hzne : ∀ x : ASt, x.addr = [t] ++ r.filter notComment → x.addr.isEmpty = false := by
              intro x hx; rw [hx]; simp
            refine ⟨⟨z2, by rw [z3, hg], ?_⟩, ?_⟩
            · rw [hend]
              cases hw' : endW false r
              · simp only [Bool.false_eq_true, if_false]
                exact ⟨z1, by rw [z4]; simp, by rw [z6, hw']⟩
              · simp only [if_true]
                exact ⟨z1, by rw [z4]; simp, by rw [z6, hw']⟩
            · simp [owed, hzne _ z4, he, z5, z4, mboxes, Item.addr, hnc]
        · simp at hn
    | angle inner ph =>
      obtain ⟨hl, hp⟩ := hok
      simp only [elNext] at hn
      split at hn
      · simp at hn
      · rename_i hcond
        simp only [Option.some.injEq, Prod.mk.injEq] at hn
        obtain ⟨rfl, rfl⟩ := hn
        simp only [El.toks, Item.toks, List.cons_append, List.foldl_cons]
        -- the `>`
        have hright : ∃ b : ASt, astep cb a .right = b ∧ b.mode = .angle ∧ b.failed = false ∧ b.ingroup = a.ingroup ∧
            b.addr = [] ∧ b.got = a.got ++ owed cb a := by
          cases e <;> simp only [] at hE
          · obtain ⟨hm, ha, hw⟩ := hE
            exact ⟨_, rfl, by simp [astep, hf, hm, astepNormal, flushComma, ha, outLeft, owed]⟩
          · obtain ⟨hm, ha, hw⟩ := hE
            have he : a.addr.isEmpty = false := by cases h : a.addr <;> simp_all
            exact ⟨_, rfl, by simp [astep, hf, hm, astepNormal, flushComma, he, gotaddr, outLeft, owed]⟩
          · obtain ⟨hm, ha, hw⟩ := hE
            have he : a.addr.isEmpty = false := by cases h : a.addr <;> simp_all
            exact ⟨_, rfl, by simp [astep, hf, hm, astepNormal, flushComma, he, gotaddr, outLeft, owed]⟩
          · obtain ⟨hm, ha⟩ := hE
            exact ⟨_, rfl, by simp [astep, hf, hm, isPhraseTok, astepNormal, flushComma, ha, outLeft, owed]⟩
          · simp at hcond
        obtain ⟨b, hb, b1, b2, b3, b4, b5⟩ := hright
        rw [hb]
        obtain ⟨c1, c2, c3, c4, c5⟩ := fold_angle_item cb inner ph b b1 b2 b4 hl hp
        refine ⟨⟨c2, by rw [c3, b3, hg], c1, c4⟩, ?_⟩
        simp only [owed, c4, c5, b5, mboxes, Item.addr]
        simp

/-- **the address-list parser on a list of elements accepted by the grammar** -/
theorem fold_els (cb : List Tok → List Tok) (els : List El) :
    ∀ (a : ASt) (g : Bool) (e : Edge), Abs a g e → validEls g e els = true → (∀ el ∈ els, el.ok) →
      let z := afinish cb ((els.flatMap El.toks).foldl (astep cb) a)
      z.failed = false ∧ z.got = a.got ++ owed cb a ++ (mboxes els).map cb := by
  induction els with
  | nil =>
    intro a g e hA _ _
    obtain ⟨hf, hg, hE⟩ := hA
    simp only [List.flatMap_nil, List.foldl_nil, mboxes, List.map_nil, List.append_nil]
    cases e <;> simp only [] at hE
    · obtain ⟨hm, ha, _⟩ := hE; simp [afinish, hf, hm, flush, ha, owed]
    · obtain ⟨hm, ha, _⟩ := hE
      have he : a.addr.isEmpty = false := by cases h : a.addr <;> simp_all
      simp [afinish, hf, hm, flush, he, gotaddr, owed]
    · obtain ⟨hm, ha, _⟩ := hE
      have he : a.addr.isEmpty = false := by cases h : a.addr <;> simp_all
      simp [afinish, hf, hm, flush, he, gotaddr, owed]
    · obtain ⟨hm, ha⟩ := hE; simp [afinish, hf, hm, flush, ha, owed]
    · obtain ⟨hm, ha⟩ := hE; simp [afinish, hf, hm, flush, ha, owed]
  | cons el els ih =>
    intro a g e hA hv hok
    simp only [validEls] at hv
    cases hn : elNext g e el with
    | none => simp [hn] at hv
    | some p =>
      obtain ⟨g', e'⟩ := p
      simp only [hn] at hv
      obtain ⟨hA', hgot⟩ := fold_el cb el a g g' e e' hA hn (hok el (by simp))
      have := ih _ g' e' hA' hv (fun x hx => hok x (by simp [hx]))
      simp only [List.flatMap_cons, List.foldl_append]
      refine ⟨this.1, ?_⟩
      rw [this.2, hgot]
      have hm : mboxes (el :: els) = mboxes [el] ++ mboxes els := by
        cases el <;> simp [mboxes]
      rw [hm]
      simp

/-! ### the RFC 822 address list as a tree: mailboxes and groups of mailboxes, comma-separated -/

/-- an address (token lists right to left, as everywhere here) -/
inductive Addr
  | mbox (it : Item)
  | group (name : List Tok) (members : List Item)    -- `name : m₁, …, mₖ ;` — members listed right to left

def Addr.ok : Addr → Prop
  | .mbox it => it.ok
  | .group name members => Tok.comma ∉ name ∧ ∀ m ∈ members, m.ok

/-- the mailboxes an address stands for -/
def Addr.mailboxes : Addr → List (List Tok)
  | .mbox it => [it.addr]
  | .group _ members => members.map Item.addr

def flatItems : List Item → List El
  | [] => []
  | [i] => [.mbox i]
  | i :: j :: r => .mbox i :: .comma :: flatItems (j :: r)

def Addr.els : Addr → List El
  | .mbox it => [.mbox it]
  | .group name members => .gclose :: (flatItems members ++ [.gopen name])

/-- the elements of a comma-separated address list (listed right to left) -/
def flatAddrs : List Addr → List El
  | [] => []
  | [a] => a.els
  | a :: b :: r => a.els ++ .comma :: flatAddrs (b :: r)

/-- the grammar automaton run over a list of elements -/
def runEls : Bool → Edge → List El → Option (Bool × Edge)
  | g, e, [] => some (g, e)
  | g, e, el :: r =>
    match elNext g e el with
    | some (g', e') => runEls g' e' r
    | none => none

theorem validEls_run (els : List El) : ∀ (g : Bool) (e : Edge),
    validEls g e els = (match runEls g e els with | some (g', _) => !g' | none => false) := by
  induction els with
  | nil => intro g e; simp [validEls, runEls]
  | cons el r ih =>
    intro g e
    simp only [validEls, runEls]
    cases elNext g e el with
    | none => rfl
    | some p => obtain ⟨g', e'⟩ := p; exact ih g' e'

theorem runEls_append (x y : List El) : ∀ (g : Bool) (e : Edge),
    runEls g e (x ++ y) = (match runEls g e x with | some (g', e') => runEls g' e' y | none => none) := by
  induction x with
  | nil => intro g e; simp [runEls]
  | cons el r ih =>
    intro g e
    simp only [List.cons_append, runEls]
    cases elNext g e el with
    | none => rfl
    | some p => obtain ⟨g', e'⟩ := p; exact ih g' e'

theorem elNext_mbox_fresh (g : Bool) (it : Item) : ∃ e', elNext g .fresh (.mbox it) = some (g, e') ∧ e' ≠ .colon := by
  cases it with
  | plain m =>
    cases h : endW true m <;> simp [elNext, h]
  | angle inner ph => simp [elNext]

theorem runEls_items (g : Bool) (items : List Item) :
    ∃ e', runEls g .fresh (flatItems items) = some (g, e') ∧ e' ≠ .colon := by
  induction items with
  | nil => exact ⟨.fresh, rfl, by simp⟩
  | cons i r ih =>
    obtain ⟨e1, h1, hne⟩ := elNext_mbox_fresh g i
    cases r with
    | nil => exact ⟨e1, by simp [flatItems, runEls, h1], hne⟩
    | cons j r' =>
      obtain ⟨e2, h2, hne2⟩ := ih
      have hc : ∀ e, elNext g e .comma = some (g, .fresh) := fun e => rfl
      exact ⟨e2, by simp only [flatItems, runEls, h1, hc, h2], hne2⟩

theorem runEls_addr (a : Addr) : ∃ e', runEls false .fresh a.els = some (false, e') := by
  cases a with
  | mbox it =>
    obtain ⟨e1, h1, _⟩ := elNext_mbox_fresh false it
    exact ⟨e1, by simp [Addr.els, runEls, h1]⟩
  | group name members =>
    obtain ⟨e1, h1, hne⟩ := runEls_items true members
    refine ⟨.colon, ?_⟩
    simp only [Addr.els, runEls, elNext]
    simp only [reduceCtorEq, Bool.false_eq_true, or_self, if_false]
    rw [runEls_append, h1]
    simp [runEls, elNext, hne]

theorem runEls_addrs (L : List Addr) : ∃ e', runEls false .fresh (flatAddrs L) = some (false, e') := by
  induction L with
  | nil => exact ⟨.fresh, rfl⟩
  | cons a r ih =>
    obtain ⟨e1, h1⟩ := runEls_addr a
    cases r with
    | nil => exact ⟨e1, by simpa [flatAddrs] using h1⟩
    | cons b r' =>
      obtain ⟨e2, h2⟩ := ih
      refine ⟨e2, ?_⟩
      have hc : ∀ e, elNext false e .comma = some (false, .fresh) := fun e => rfl
      simp only [flatAddrs]
      rw [runEls_append, h1]
      simp only [runEls, hc, h2]

/-- every comma-separated list of mailboxes and groups is accepted by the grammar automaton -/
theorem validEls_addrs (L : List Addr) : validEls false .fresh (flatAddrs L) = true := by
  obtain ⟨e', h⟩ := runEls_addrs L
  rw [validEls_run, h]
  rfl

theorem mboxes_append (x y : List El) : mboxes (x ++ y) = mboxes x ++ mboxes y := by
  induction x with
  | nil => rfl
  | cons el r ih => cases el <;> simp [mboxes, ih]

theorem mboxes_items (items : List Item) : mboxes (flatItems items) = items.map Item.addr := by
  induction items with
  | nil => rfl
  | cons i r ih =>
    cases r with
    | nil => simp [flatItems, mboxes]
    | cons j r' => simp only [flatItems, mboxes, ih, List.map_cons]

theorem mboxes_addr (a : Addr) : mboxes a.els = a.mailboxes := by
  cases a with
  | mbox it => simp [Addr.els, mboxes, Addr.mailboxes]
  | group name members =>
    simp only [Addr.els, mboxes, mboxes_append, mboxes_items, Addr.mailboxes]
    simp [mboxes]

theorem mboxes_addrs (L : List Addr) : mboxes (flatAddrs L) = L.flatMap Addr.mailboxes := by
  induction L with
  | nil => rfl
  | cons a r ih =>
    cases r with
    | nil => simp [flatAddrs, mboxes_addr]
    | cons b r' =>
      simp only [flatAddrs, mboxes_append, mboxes, mboxes_addr, ih, List.flatMap_cons]

theorem ok_items (items : List Item) (h : ∀ m ∈ items, m.ok) : ∀ el ∈ flatItems items, el.ok := by
  induction items with
  | nil => intro el hel; simp [flatItems] at hel
  | cons i r ih =>
    cases r with
    | nil =>
      intro el hel
      simp only [flatItems, List.mem_cons, List.not_mem_nil, or_false] at hel
      subst hel; exact h i (by simp)
    | cons j r' =>
      intro el hel
      simp only [flatItems, List.mem_cons] at hel
      rcases hel with rfl | rfl | hel
      · exact h i (by simp)
      · trivial
      · exact ih (fun m hm => h m (by simp [hm])) el (by simpa [flatItems] using hel)

theorem ok_addr (a : Addr) (h : a.ok) : ∀ el ∈ a.els, el.ok := by
  cases a with
  | mbox it =>
    intro el hel
    simp only [Addr.els, List.mem_cons, List.not_mem_nil, or_false] at hel
    subst hel; exact h
  | group name members =>
    obtain ⟨h1, h2⟩ := h
    intro el hel
    simp only [Addr.els, List.mem_cons, List.mem_append, List.not_mem_nil, or_false] at hel
    rcases hel with rfl | hel | rfl
    · trivial
    · exact ok_items members h2 el hel
    · exact h1

theorem ok_addrs (L : List Addr) (h : ∀ a ∈ L, a.ok) : ∀ el ∈ flatAddrs L, el.ok := by
  induction L with
  | nil => intro el hel; simp [flatAddrs] at hel
  | cons a r ih =>
    cases r with
    | nil =>
      intro el hel
      exact ok_addr a (h a (by simp)) el (by simpa [flatAddrs] using hel)
    | cons b r' =>
      intro el hel
      simp only [flatAddrs, List.mem_append, List.mem_cons] at hel
      rcases hel with hel | rfl | hel
      · exact ok_addr a (h a (by simp)) el hel
      · trivial
      · exact ih (fun x hx => h x (by simp [hx])) el hel

end Nq.Lemmas.C17
