/- Lemmas for C20 (c): fixed buffers. Core Lean only. -/
import Nq.FixedBuf

namespace Nq.Lemmas.C20
open Nq Nq.FixedBuf

theorem mem_range_append_lt {len i B : Nat} (hB : len < B) (h : i ∈ List.range len ++ [len]) : i < B := by
  simp only [List.mem_append, List.mem_range, List.mem_singleton] at h
  omega

theorem errstrLoop_bound (g avail len : Nat) (hl : len ≤ g) :
    (∀ i ∈ (errstrLoop g avail len).1, i ≤ g) ∧ (errstrLoop g avail len).2 ≤ g := by
  induction avail generalizing len with
  | zero => simp [errstrLoop, hl]
  | succ a ih =>
    simp only [errstrLoop]
    by_cases c : len < g
    · rw [if_pos c]
      obtain ⟨i1, i2⟩ := ih (len + 1) (by omega)
      refine ⟨?_, i2⟩
      intro i hi; simp only [List.mem_cons] at hi
      rcases hi with hi | hi
      · omega
      · exact i1 i hi
    · rw [if_neg c]; simp; omega

end Nq.Lemmas.C20
