/-
  Lemmas for C20 (qmail-local.c: the filling pass never stores more recipients than the counting pass counted).
-/
import Nq.LocalPass

namespace Nq.LocalPass
open Nq

theorem count1_add (r : Bytes) : ∀ (first : Option Byte) (n : Nat), count1 first n r = n + count1 first 0 r := by
  induction r with
  | nil => intro first n; simp [count1]
  | cons c r ih =>
    intro first n
    by_cases h : c = LF
    · simp only [count1, if_pos h]
      by_cases hc : counted1 (first.getD LF) = true
      · rw [if_pos hc, if_pos hc, ih none (n + 1), ih none (0 + 1)]; omega
      · rw [if_neg hc, if_neg hc, ih none n]
    · simp only [count1, if_neg h]
      exact ih _ n

/-- a non-empty trimmed line starts with the first byte of the line -/
theorem trim_head (l : Bytes) : trim l = [] ∨ (trim l).head? = l.head? := by
  cases l with
  | nil => left; rfl
  | cons c r =>
    simp only [trim]
    split
    · by_cases hb : isBlank c = true <;> simp [hb]
    · right; rfl

theorem eff_head {l : Bytes} {e : Byte} (h : eff l = e) (he : e ≠ 0) : l.head? = some e := by
  unfold eff at h
  rcases trim_head l with ht | ht
  · rw [ht] at h; simp at h; exact absurd h.symm he
  · rw [← ht]
    cases hh : trim l with
    | nil => rw [hh] at h; simp at h; exact absurd h.symm he
    | cons a t => rw [hh] at h; simp at h; simp [h]

/-- a line that pass 2 forwards was counted by pass 1 -/
theorem fwd_counted {atStart : Bool} {cur : Bytes} (h : act atStart cur = .fwd) :
    counted1 ((cur.head?).getD LF) = true := by
  unfold act at h
  by_cases h0 : eff cur = 0
  · rw [if_pos h0] at h; split at h <;> cases h
  · rw [if_neg h0] at h
    by_cases h1 : eff cur = HASH
    · rw [if_pos h1] at h; cases h
    · rw [if_neg h1] at h
      by_cases h2 : eff cur = PDOT ∨ eff cur = SLASH
      · rw [if_pos h2] at h; cases h
      · rw [if_neg h2] at h
        by_cases h3 : eff cur = PIPE
        · rw [if_pos h3] at h; cases h
        · have hh := eff_head rfl h0
          rw [hh]
          simp only [Option.getD_some, counted1]
          simp only [not_or] at h2
          simp [h1, h2.1, h2.2, h3]

theorem head_snoc (cur : Bytes) (c : Byte) : (cur ++ [c]).head? = some ((cur.head?).getD c) := by
  cases cur <;> simp

/-- the simulation: from a line-in-progress `cur`, pass 2 stores exactly the indices `nf, nf+1, …`, at most as many as
pass 1 counts from the same point -/
theorem run2_bound (doit : Bool) (env : Nat → Bool) (r : Bytes) :
    ∀ (cur : Bytes) (atStart : Bool) (ln nf cf : Nat) (ffo : Bool),
      (run2 doit env cur atStart ln nf cf ffo r).nf ≤ nf + count1 cur.head? 0 r ∧
      (run2 doit env cur atStart ln nf cf ffo r).stores =
        List.range' nf ((run2 doit env cur atStart ln nf cf ffo r).nf - nf) ∧
      nf ≤ (run2 doit env cur atStart ln nf cf ffo r).nf ∧
      (run2 doit env cur atStart ln nf cf ffo r).cf ≤ cf + count1 cur.head? 0 r := by
  induction r with
  | nil => intro cur atStart ln nf cf ffo; simp [run2, count1]
  | cons c r ih =>
    intro cur atStart ln nf cf ffo
    by_cases h : c = LF
    · simp only [run2, if_pos h, count1]
      have hK : count1 none (if counted1 (cur.head?.getD LF) = true then 0 + 1 else 0) r
          = (if counted1 (cur.head?.getD LF) = true then 1 else 0) + count1 none 0 r := by
        split
        · rw [count1_add]
        · rw [Nat.zero_add]
      rw [hK]
      have ih0 := fun ln nf cf ffo => ih [] false ln nf cf ffo
      simp only [List.head?_nil] at ih0
      cases ha : act atStart cur with
      | skip => simp only []; obtain ⟨a, b, c', d⟩ := ih0 (ln + 1) nf cf ffo; exact ⟨by omega, b, c', by omega⟩
      | dieBlank => simp only []; exact ⟨by omega, by simp, Nat.le_refl _, by omega⟩
      | file =>
        simp only []
        cases ffo with
        | true => simp only [if_true]; exact ⟨by omega, by simp, Nat.le_refl _, by omega⟩
        | false =>
          cases hde : (doit && env ln) with
          | true => simp only [Bool.false_eq_true, if_false, if_true]; exact ⟨by omega, by simp, Nat.le_refl _, by omega⟩
          | false =>
            simp only [Bool.false_eq_true, if_false]
            obtain ⟨a, b, c', d⟩ := ih0 (ln + 1) nf cf false; exact ⟨by omega, b, c', by omega⟩
      | prog =>
        simp only []
        cases ffo with
        | true => simp only [if_true]; exact ⟨by omega, by simp, Nat.le_refl _, by omega⟩
        | false =>
          cases hde : (doit && env ln) with
          | true => simp only [Bool.false_eq_true, if_false, if_true]; exact ⟨by omega, by simp, Nat.le_refl _, by omega⟩
          | false =>
            simp only [Bool.false_eq_true, if_false]
            obtain ⟨a, b, c', d⟩ := ih0 (ln + 1) nf cf false; exact ⟨by omega, b, c', by omega⟩
      | plus l => simp only []; obtain ⟨a, b, c', d⟩ := ih0 (ln + 1) nf cf (ffo || l); exact ⟨by omega, b, c', by omega⟩
      | fwd =>
        have hc := fwd_counted ha
        rw [if_pos hc]
        cases doit with
        | false =>
          simp only [Bool.false_eq_true, if_false]
          obtain ⟨a, b, c', d⟩ := ih0 (ln + 1) nf (cf + 1) ffo; exact ⟨by omega, b, c', by omega⟩
        | true =>
          obtain ⟨a, b, c', d⟩ := ih0 (ln + 1) (nf + 1) (cf + 1) ffo
          simp only [if_true]
          refine ⟨by omega, ?_, by omega, by omega⟩
          rw [b]
          generalize (run2 true env [] false (ln + 1) (nf + 1) (cf + 1) ffo r).nf = y at c' ⊢
          have : y - nf = (y - (nf + 1)) + 1 := by omega
          rw [this, List.range'_succ]
    · simp only [run2, if_neg h, count1]
      have := ih (cur ++ [c]) atStart ln nf cf ffo
      rw [head_snoc] at this
      exact this

end Nq.LocalPass
