/- Lemmas for `Nq.SelFds` (C16): `nfds` is a left fold of `bump` over the descriptors that were `FD_SET`; the sets are the
   declarative `mustRead` / `mustWrite`. -/
import Nq.SelFds

namespace Nq.SelFds
open Nq.SelPrep

theorem bumpT_eq (n fd : Nat) : bumpT n fd = bump n fd := by
  simp only [bumpT, bump]
  by_cases h : n ≤ fd
  · have : n < fd + 1 := by omega
    simp [h, this]
  · have : ¬ n < fd + 1 := by omega
    simp [h, this]

theorem commNfds_eq (f : FdNums) (cs : List Chan) :
    ∀ n i, commNfds f n i cs = ((commSelprep i cs).map (num f)).foldl bump n := by
  induction cs with
  | nil => intro n i; simp [commNfds, commSelprep]
  | cons c cs ih =>
    intro n i
    simp only [commNfds, commSelprep, ih]
    cases h : (c.spawnAlive && c.commPending) <;> simp [num]

theorem delNfds_eq (f : FdNums) (cs : List Chan) :
    ∀ n i, delNfds f n i cs = ((delSelprep i cs).map (num f)).foldl bump n := by
  induction cs with
  | nil => intro n i; simp [delNfds, delSelprep]
  | cons c cs ih =>
    intro n i
    simp only [delNfds, delSelprep, ih]
    cases h : c.spawnAlive <;> simp [num]

/-- `nfds` = the fold of `bump` from 1 over everything that was `FD_SET`, in the order of the calls -/
theorem nfds_eq (s : Snap) (f : FdNums) : nfds s f = (wset s f ++ rset s f).foldl bump 1 := by
  simp only [nfds, trigNfds, wset, rset, wfds, rfds, todoWatch, commNfds_eq, delNfds_eq, List.map_append, List.foldl_append]
  cases h : (!s.exitasap && s.triggerFd) <;> simp [num, bumpT_eq]

theorem foldl_bump_ge (l : List Nat) : ∀ n, n ≤ l.foldl bump n := by
  induction l with
  | nil => intro n; simp
  | cons x l ih =>
    intro n
    simp only [List.foldl_cons]
    have := ih (bump n x)
    have h2 : n ≤ bump n x := by simp only [bump]; split <;> omega
    omega

theorem foldl_bump_gt (l : List Nat) : ∀ n x, x ∈ l → x < l.foldl bump n := by
  induction l with
  | nil => intro n x h; simp at h
  | cons y l ih =>
    intro n x h
    simp only [List.foldl_cons]
    rcases List.mem_cons.1 h with h | h
    · subst h
      have := foldl_bump_ge l (bump n x)
      have h2 : x < bump n x := by simp only [bump]; split <;> omega
      omega
    · exact ih _ x h

theorem foldl_bump_tight (l : List Nat) : ∀ n, l.foldl bump n = n ∨ ∃ x, x ∈ l ∧ l.foldl bump n = x + 1 := by
  induction l with
  | nil => intro n; simp
  | cons y l ih =>
    intro n
    simp only [List.foldl_cons]
    rcases ih (bump n y) with h | ⟨x, hx, h⟩
    · rw [h]
      simp only [bump]
      split
      · right; exact ⟨y, List.mem_cons_self, rfl⟩
      · left; rfl
    · right; exact ⟨x, List.mem_cons_of_mem _ hx, h⟩

theorem delSelprep_map (f : FdNums) (cs : List Chan) :
    ∀ k, (delSelprep k cs).map (num f) = (cs.zipIdx k).filterMap (fun (c, i) => if c.spawnAlive then some (f.inn i) else none) := by
  induction cs with
  | nil => intro k; simp [delSelprep]
  | cons c cs ih =>
    intro k
    simp only [delSelprep, List.map_append, ih, List.zipIdx_cons, List.filterMap_cons]
    cases h : c.spawnAlive <;> simp [num]

theorem commSelprep_map (f : FdNums) (cs : List Chan) :
    ∀ k, (commSelprep k cs).map (num f)
      = (cs.zipIdx k).filterMap (fun (c, i) => if c.spawnAlive && c.commPending then some (f.out i) else none) := by
  induction cs with
  | nil => intro k; simp [commSelprep]
  | cons c cs ih =>
    intro k
    simp only [commSelprep, List.map_append, ih, List.zipIdx_cons, List.filterMap_cons]
    cases h : (c.spawnAlive && c.commPending) <;> simp [num]

/-- the sets the code builds are exactly the declarative ones -/
theorem rset_eq_mustRead (s : Snap) (f : FdNums) : rset s f = mustRead s f := by
  simp only [rset, rfds, mustRead, todoWatch, List.map_append, delSelprep_map]
  cases h : (!s.exitasap && s.triggerFd) <;> simp [num]

theorem wset_eq_mustWrite (s : Snap) (f : FdNums) : wset s f = mustWrite s f := by
  simp only [wset, wfds, mustWrite, commSelprep_map]

theorem mem_mustRead (s : Snap) (f : FdNums) (fd : Nat) :
    fd ∈ mustRead s f ↔ (∃ i c, s.chans[i]? = some c ∧ c.spawnAlive = true ∧ fd = f.inn i)
                          ∨ (s.exitasap = false ∧ s.triggerFd = true ∧ fd = f.trig) := by
  simp only [mustRead, List.mem_append, List.mem_filterMap, Prod.exists]
  constructor
  · rintro (⟨c, i, hm, hv⟩ | h)
    · left
      rw [List.mk_mem_zipIdx_iff_getElem?] at hm
      cases ha : c.spawnAlive with
      | false => simp [ha] at hv
      | true => simp [ha] at hv; exact ⟨i, c, hm, ha, hv.symm⟩
    · right
      cases he : s.exitasap <;> cases ht : s.triggerFd <;> simp [he, ht] at h ⊢
      exact h
  · rintro (⟨i, c, hm, ha, hv⟩ | ⟨he, ht, hv⟩)
    · left
      refine ⟨c, i, ?_, ?_⟩
      · rw [List.mk_mem_zipIdx_iff_getElem?]; exact hm
      · simp [ha, hv]
    · right; simp [he, ht, hv]

theorem mem_mustWrite (s : Snap) (f : FdNums) (fd : Nat) :
    fd ∈ mustWrite s f ↔ ∃ i c, s.chans[i]? = some c ∧ c.spawnAlive = true ∧ c.commPending = true ∧ fd = f.out i := by
  simp only [mustWrite, List.mem_filterMap, Prod.exists]
  constructor
  · rintro ⟨c, i, hm, hv⟩
    rw [List.mk_mem_zipIdx_iff_getElem?] at hm
    cases ha : c.spawnAlive <;> cases hp : c.commPending <;> simp [ha, hp] at hv
    exact ⟨i, c, hm, ha, hp, hv.symm⟩
  · rintro ⟨i, c, hm, ha, hp, hv⟩
    refine ⟨c, i, ?_, ?_⟩
    · rw [List.mk_mem_zipIdx_iff_getElem?]; exact hm
    · simp [ha, hp, hv]

end Nq.SelFds
