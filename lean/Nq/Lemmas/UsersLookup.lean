/- Lemmas about nughde_get's lookup order (`nughdeLoop`/`wildLoop`) against the declarative assignment
   `specLookup` (first exact entry, else the longest wildcard prefix, first duplicate). -/
import Nq.Users
import Nq.Spec.Users

namespace Nq.Lemmas.Users
open Nq Nq.Users Nq.Spec.Users Nq.Gen.Lspawn

/-- the lookup function the source table defines: data of the first pair with that key -/
def lkTbl (tbl : List Asg) (k : Bytes) : Lk :=
  match assocFind (pairsOf tbl) k with
  | some d => .found d
  | none => .notFound

theorem lowerByte_ne_zero (c : Byte) (h : c ≠ 0) : lowerByte c ≠ 0 := by
  unfold lowerByte
  split
  · rename_i hc
    intro h0
    have h1 : (c + 32).toNat = 0 := by rw [h0]; rfl
    rw [UInt8.toNat_add] at h1
    have := UInt8.le_iff_toNat_le.mp hc.1
    have := UInt8.le_iff_toNat_le.mp hc.2
    simp at *
    omega
  · exact h

theorem nul_not_mem_lower (l : Bytes) (h : NUL ∉ l) : NUL ∉ lower l := by
  induction l with
  | nil => simp [lower]
  | cons c r ih =>
    simp only [lower, List.map_cons, List.mem_cons, not_or] at *
    refine ⟨?_, ih h.2⟩
    intro h0
    exact lowerByte_ne_zero c (fun hc => h.1 hc.symm) h0.symm

theorem assocFind_append (l1 l2 : List (Bytes × Bytes)) (k : Bytes) :
    assocFind (l1 ++ l2) k = match assocFind l1 k with
      | some d => some d
      | none => assocFind l2 k := by
  induction l1 with
  | nil => simp [assocFind]
  | cons p r ih =>
    obtain ⟨k', d⟩ := p
    simp only [List.cons_append, assocFind]
    split
    · rfl
    · exact ih

theorem assocFind_wild (tbl : List Asg) (p : Bytes) (hp : NUL ∉ p) :
    assocFind (tbl.map (fun a => (a.key, a.data))) (BANG :: p) = (firstWild tbl p).map (·.data) := by
  induction tbl with
  | nil => simp [assocFind, firstWild]
  | cons a r ih =>
    simp only [List.map_cons, assocFind, firstWild, List.find?_cons]
    by_cases hw : a.wild = true
    · by_cases hn : a.name = p
      · simp [Asg.key, hw, hn]
      · have : ¬ (Asg.key a = BANG :: p) := by simp [Asg.key, hw, hn]
        simp only [this, if_false]
        have : (a.wild && a.name == p) = false := by simp [hn]
        rw [this]; exact ih
    · have hw' : a.wild = false := by simpa using hw
      have : ¬ (Asg.key a = BANG :: p) := by
        simp only [Asg.key, hw', Bool.false_eq_true, if_false, List.cons.injEq, true_and]
        intro h; apply hp; rw [← h]; simp
      simp only [this, if_false]
      have : (a.wild && a.name == p) = false := by simp [hw']
      rw [this]; exact ih

theorem assocFind_exact (tbl : List Asg) (hT : ∀ a ∈ tbl, NUL ∉ a.name) (l : Bytes) :
    assocFind (tbl.map (fun a => (a.key, a.data))) (BANG :: (l ++ [NUL])) = (firstExact tbl l).map (·.data) := by
  induction tbl with
  | nil => simp [assocFind, firstExact]
  | cons a r ih =>
    have ihr := ih (fun x hx => hT x (by simp [hx]))
    have ha := hT a (by simp)
    simp only [List.map_cons, assocFind, firstExact, List.find?_cons]
    by_cases hw : a.wild = true
    · have : ¬ (Asg.key a = BANG :: (l ++ [NUL])) := by
        simp only [Asg.key, hw, if_true, List.cons.injEq, true_and]
        intro h; apply ha; rw [h]; simp
      simp only [this, if_false]
      have : (!a.wild && a.name == l) = false := by simp [hw]
      rw [this]; exact ihr
    · have hw' : a.wild = false := by simpa using hw
      by_cases hn : a.name = l
      · simp [Asg.key, hw', hn]
      · have : ¬ (Asg.key a = BANG :: (l ++ [NUL])) := by
          simp only [Asg.key, hw', Bool.false_eq_true, if_false, List.cons.injEq, true_and]
          intro h; exact hn (List.append_cancel_right h)
        simp only [this, if_false]
        have : (!a.wild && a.name == l) = false := by simp [hn]
        rw [this]; exact ihr

theorem lkTbl_wild (tbl : List Asg) (p : Bytes) (hp : NUL ∉ p) :
    lkTbl tbl (BANG :: p) = match firstWild tbl p with
      | some a => .found a.data
      | none => .notFound := by
  unfold lkTbl pairsOf
  rw [assocFind_append, assocFind_wild tbl p hp]
  cases firstWild tbl p <;> simp [assocFind]

theorem lkTbl_exact (tbl : List Asg) (hT : ∀ a ∈ tbl, NUL ∉ a.name) (l : Bytes) :
    lkTbl tbl (BANG :: (l ++ [NUL])) = match firstExact tbl l with
      | some a => .found a.data
      | none => .notFound := by
  unfold lkTbl pairsOf
  rw [assocFind_append, assocFind_exact tbl hT l]
  cases firstExact tbl l <;> simp [assocFind]

/-! the break characters recorded by qmail-newu cover every non-empty wildcard prefix -/

theorem wildOf_mono (tbl : List Asg) : ∀ (w : Bytes) (c : Byte), c ∈ w → c ∈ wildOf tbl w := by
  induction tbl with
  | nil => intro w c h; simpa [wildOf] using h
  | cons a r ih =>
    intro w c h
    simp only [wildOf]
    split
    · split
      · exact ih w c h
      · exact ih _ c (by simp [h])
    · exact ih w c h

theorem wildOf_covers (tbl : List Asg) : ∀ (w : Bytes) (a : Asg) (c : Byte), a ∈ tbl → a.wild = true →
    a.name.getLast? = some c → c ∈ wildOf tbl w := by
  induction tbl with
  | nil => intro w a c h; simp at h
  | cons b r ih =>
    intro w a c ha hw hc
    rcases List.mem_cons.mp ha with rfl | ha
    · simp only [wildOf, hw, if_true, hc]
      split
      · rename_i hcw; exact wildOf_mono r w c (by simpa using hcw)
      · exact wildOf_mono r _ c (by simp)
    · simp only [wildOf]
      split
      · split
        · exact ih w a c ha hw hc
        · exact ih _ a c ha hw hc
      · exact ih w a c ha hw hc

theorem getLast?_take_succ (l : Bytes) (n : Nat) (h : n < l.length) :
    (l.take (n + 1)).getLast? = some (l.getD n 0) := by
  rw [List.getLast?_eq_getElem?]
  have : (l.take (n + 1)).length = n + 1 := by rw [List.length_take]; omega
  rw [this]
  simp [List.getElem?_take, List.getD_eq_getElem?_getD, List.getElem?_eq_getElem h]

theorem wildLoop_spec (tbl : List Asg) (loc : Bytes) (hl : NUL ∉ loc) :
    ∀ n, n ≤ loc.length →
    wildLoop (lkTbl tbl) (wildOf tbl []) loc n =
      match longestWild tbl loc n with
      | some (m, a) => .hit (a.data ++ loc.drop m ++ [NUL])
      | none => .miss := by
  have hlow : NUL ∉ lower loc := nul_not_mem_lower loc hl
  intro n
  induction n with
  | zero =>
    intro _
    simp only [wildLoop, longestWild]
    rw [lkTbl_wild tbl [] (by simp)]
    cases firstWild tbl [] <;> simp
  | succ n ih =>
    intro hn
    have hn' : n < (lower loc).length := by simp [lower]; omega
    have htake : NUL ∉ (lower loc).take (n + 1) := fun h => hlow (List.mem_of_mem_take h)
    simp only [wildLoop, longestWild]
    split
    · rw [lkTbl_wild tbl _ htake]
      cases hf : firstWild tbl ((lower loc).take (n + 1)) with
      | some a => simp
      | none => simp only []; exact ih (by omega)
    · rename_i hc
      have hnone : firstWild tbl ((lower loc).take (n + 1)) = none := by
        cases hf : firstWild tbl ((lower loc).take (n + 1)) with
        | none => rfl
        | some a =>
          exfalso
          unfold firstWild at hf
          have hmem := List.mem_of_find?_eq_some hf
          have hp := List.find?_some hf
          simp only [Bool.and_eq_true, beq_iff_eq] at hp
          have hlast : a.name.getLast? = some ((lower loc).getD n 0) := by
            rw [hp.2]; exact getLast?_take_succ _ _ hn'
          have := wildOf_covers tbl [] a _ hmem hp.1 hlast
          exact hc (by simpa using this)
      rw [hnone]; exact ih (by omega)

theorem nughdeLoop_spec (tbl : List Asg) (hT : ∀ a ∈ tbl, NUL ∉ a.name) (loc : Bytes) (hl : NUL ∉ loc) :
    nughdeLoop (lkTbl tbl) (wildOf tbl []) loc =
      match specLookup tbl loc with
      | some r => .hit r
      | none => .miss := by
  unfold nughdeLoop specLookup
  have : BANG :: lower loc ++ [NUL] = BANG :: (lower loc ++ [NUL]) := rfl
  rw [this, lkTbl_exact tbl hT (lower loc)]
  cases firstExact tbl (lower loc) with
  | some a => simp
  | none =>
    simp only []
    rw [wildLoop_spec tbl loc hl loc.length (Nat.le_refl _)]
    cases longestWild tbl loc loc.length with
    | none => rfl
    | some p => obtain ⟨m, a⟩ := p; rfl

end Nq.Lemmas.Users

namespace Nq.Lemmas.Users
open Nq Nq.Users Nq.Spec.Users Nq.Gen.Lspawn

/-! tables produced by qmail-newu's parser have NUL-free names -/

theorem newuLine_name (line : Bytes) (a : Asg) (h : newuLine line = some a) : NUL ∉ a.name := by
  unfold newuLine at h
  split at h
  · simp at h
  · rename_i hc
    simp only at h
    split at h
    · simp at h
    · split at h
      · simp at h
      · split at h
        · simp at h
        · simp only [Option.some.injEq] at h
          subst h
          apply nul_not_mem_lower
          intro hm
          have := List.mem_of_mem_take (List.mem_of_mem_drop hm)
          exact hc (by simpa using this)

theorem newuLoop_names : ∀ (fuel : Nat) (inp : Bytes) (acc tbl : List Asg),
    newuLoop fuel inp acc = some tbl → (∀ a ∈ acc, NUL ∉ a.name) → ∀ a ∈ tbl, NUL ∉ a.name := by
  intro fuel
  induction fuel with
  | zero => intro inp acc tbl h; simp [newuLoop] at h
  | succ fuel ih =>
    intro inp acc tbl h hacc
    simp only [newuLoop] at h
    generalize getln inp [] = g at h
    obtain ⟨line, m, rest⟩ := g
    simp only at h
    split at h
    · simp only [Option.some.injEq] at h; subst h
      intro a ha; exact hacc a (by simpa using ha)
    · split at h
      · simp at h
      · split at h
        · simp at h
        · rename_i a hline
          refine ih rest (a :: acc) tbl h ?_
          intro x hx
          rcases List.mem_cons.mp hx with rfl | hx
          · exact newuLine_name line _ hline
          · exact hacc x hx

theorem newuParse_names (assign : Bytes) (tbl : List Asg) (h : newuParse assign = some tbl) :
    ∀ a ∈ tbl, NUL ∉ a.name :=
  newuLoop_names _ _ [] tbl h (by simp)

end Nq.Lemmas.Users

namespace Nq.Lemmas.Users
open Nq Nq.Users Nq.Spec.Users Nq.Gen.Lspawn

/-! the only error nughde_get's cdb part exits with is QLX_CDB -/

theorem wildLoop_exit (lk : Bytes → Lk) (wild loc : Bytes) : ∀ n c, wildLoop lk wild loc n = .exit c → c = QLX_CDB := by
  intro n
  induction n with
  | zero =>
    intro c h
    simp only [wildLoop] at h
    split at h <;> simp_all
  | succ n ih =>
    intro c h
    simp only [wildLoop] at h
    split at h
    · split at h
      · simp_all
      · simp at h
      · exact ih c h
    · exact ih c h

theorem nughdeLoop_exit (lk : Bytes → Lk) (wild loc : Bytes) (c : Nat) (h : nughdeLoop lk wild loc = .exit c) :
    c = QLX_CDB := by
  unfold nughdeLoop at h
  split at h
  · simp_all
  · simp at h
  · exact wildLoop_exit lk wild loc _ c h

theorem nughdeCdb_exit (f : Option Bytes) (loc : Bytes) (c : Nat) (h : nughdeCdb f loc = .exit c) : c = QLX_CDB := by
  unfold nughdeCdb at h
  split at h
  · simp at h
  · split at h
    · exact nughdeLoop_exit _ _ _ c h
    · simp_all

/-! the wildchars record -/

theorem assocFind_empty_key (tbl : List Asg) (w : Bytes) :
    assocFind (tbl.map (fun a => (a.key, a.data)) ++ [([], w)]) [] = some w := by
  induction tbl with
  | nil => simp [assocFind]
  | cons a r ih =>
    simp only [List.map_cons, List.cons_append, assocFind]
    have : ¬ (Asg.key a = []) := by simp [Asg.key]
    simp only [this, if_false]
    exact ih

theorem lkTbl_empty (tbl : List Asg) : lkTbl tbl [] = .found (wildOf tbl []) := by
  unfold lkTbl pairsOf
  rw [assocFind_empty_key]

end Nq.Lemmas.Users
