import Nq.Lemmas.Pop3Walk6
namespace Nq.Lemmas.Pop3
open Nq Nq.Pop3 Nq.Pop3Ref Nq.Lemmas.Pop3Fmt

/-! ### whole sessions: the reference `walk` accepts the model's transcript -/

/-- a session as the reference sees it: complete command lines (without LF) and removals of files
by third parties, in order -/
inductive LEv
  | line (l : Bytes)
  | vanish (p : Bytes)

def LEv.toEv : LEv → Ev
  | .line l => .data (l ++ [LF])
  | .vanish p => .vanish p

def LEv.toREv : LEv → REv
  | .line l => .line l
  | .vanish p => .vanish p

def stepLEv (r : Run) : LEv → Run
  | .line l => stepLine r l
  | .vanish p => feedEv r (.vanish p)

/-- the model's parser and the reference's agree on every NUL-free line -/
theorem parse_ref (line : Bytes) (h : ∀ c ∈ line, c ≠ NUL) :
    splitCmd line = (lower (parseLine line).1, (parseLine line).2) := by
  have hall : ∀ l : Bytes, (∀ c ∈ l, c ≠ NUL) → l.takeWhile (fun x : Byte => decide (x ≠ NUL)) = l := by
    intro l hl
    exact takeWhile_all _ l (by intro c hc; simpa using hl c hc)
  unfold splitCmd parseLine
  split
  · have hd : ∀ c ∈ line.dropLast, c ≠ NUL := fun c hc => h c (List.dropLast_subset _ hc)
    simp only [hall _ hd]
    rfl
  · simp only [hall _ h]
    rfl

theorem sim_vanish (s : Sess) (rs : RSt) (h : Sim s rs) (p : Bytes) :
    Sim { s with fs := fsUnlink s.fs p } { rs with gone := p :: rs.gone } :=
  { rel := h.rel, modz := h.modz, last := h.last, small := h.small, inrange := h.inrange, noLF := h.noLF,
    total := h.total,
    file := by
      intro r hr
      obtain ⟨f1, f2⟩ := h.file r hr
      constructor
      · intro hg
        rcases List.mem_cons.mp hg with e | e
        · show fsFind (fsUnlink s.fs p) r.path = none
          rw [e]; exact find_unlink_self s.fs p
        · exact find_unlink_absent s.fs r.path p (f1 e)
      · intro hg
        have hne : r.path ≠ p := fun e => hg (by simp [e])
        have hng : r.path ∉ rs.gone := fun e => hg (by simp [e])
        obtain ⟨f, hf, hd⟩ := f2 hng
        exact ⟨f, by show fsFind (fsUnlink s.fs p) r.path = some f; rw [find_unlink_other s.fs r.path p hne]; exact hf, hd⟩ }

theorem names_exec (s : Sess) (verb arg : Bytes) : (exec s verb arg).1.msgs.map (·.fn) = s.msgs.map (·.fn) := by
  have key : ∀ ms : List Msg, ms.map (·.fn) = (ms.map ident).map Prod.fst := by
    intro ms; induction ms <;> simp_all [ident]
  rw [key, key, exec_ident]

theorem ref_quit (rs : RSt) (arg : Bytes) : refStep rs vQuit arg = (rs, .quit) := by
  simp [refStep, vQuit]

theorem walk_line (rs rs' : RSt) (l v a : Bytes) (e : Expect) (rest : List REv) (w : Bytes)
    (h1 : splitCmd l = (v, a)) (h2 : refStep rs v a = (rs', e)) :
    (e = .quit → walk rs (.line l :: rest) w =
      if matchQuit (!(rs.msgs.zipIdx.any (fun (x : RMsg × Nat) => rs.marked.contains x.2 && rs.gone.contains x.1.path))) w
      then some (rs', true) else none) ∧
    (e ≠ .quit → walk rs (.line l :: rest) w =
      match matchReply e w with
      | some w' => walk rs' rest w'
      | none => none) := by
  constructor
  · intro he
    subst he
    simp only [walk, h1, h2]
  · intro he
    cases e <;> first | exact absurd rfl he | (simp only [walk, h1, h2]; try rfl)

theorem stepLEv_done (e : LEv) (r : Run) (x : Nat) (h : r.exit = some x) : stepLEv r e = r := by
  cases e with
  | line l => simp [stepLEv, stepLine, h]
  | vanish p => exact feedEv_exit_some (.vanish p) r x h

theorem steps_done (evs : List LEv) : ∀ (r : Run) (x : Nat), r.exit = some x → evs.foldl stepLEv r = r := by
  induction evs with
  | nil => intro r x _; rfl
  | cons e evs ih => intro r x h; rw [List.foldl_cons, stepLEv_done e r x h]; exact ih r x h

/-- the maildir after the removals among `evs` (nothing else touches it before QUIT) -/
def vanishedL : List LEv → FS → FS
  | [], fs => fs
  | .line _ :: rest, fs => vanishedL rest fs
  | .vanish p :: rest, fs => vanishedL rest (fsUnlink fs p)

/-- **Session simulation.** From related states, for every sequence of NUL-free command lines and
removals, the reference `walk` accepts everything the model writes — each reply is what RFC 1939
requires for that command. The events split into `pre`, which holds no QUIT line, and `post`; the state `s'`
after `pre` is related to the reference's final state, its maildir is the initial one minus the removals of
`pre`, its message table denotes the same files and sizes as at the beginning. Without QUIT `post` is empty and
`s'` is the final state; with QUIT `post` begins with the QUIT line, the model has written exactly pop3_quit's
lines, has exited 0 and its maildir is what `quitLoop` makes of `s'`. -/
theorem walk_sim : ∀ (evs : List LEv) (r : Run) (rs : RSt), Sim r.s rs → r.exit = none →
    NamesOk (r.s.msgs.map (·.fn)) → (∀ l, LEv.line l ∈ evs → ∀ c ∈ l, c ≠ NUL) →
    ∃ w rs' q pre post s', evs = pre ++ post ∧
      (evs.foldl stepLEv r).out = r.out ++ w ∧ walk rs (evs.map LEv.toREv) w = some (rs', q) ∧
      Sim s' rs' ∧ NamesOk (s'.msgs.map (·.fn)) ∧ s'.fs = vanishedL pre r.s.fs ∧
      s'.msgs.map ident = r.s.msgs.map ident ∧
      (∀ l, LEv.line l ∈ pre → lower (parseLine l).1 ≠ vQuit) ∧
      (q = false → post = [] ∧ (evs.foldl stepLEv r).s = s' ∧ (evs.foldl stepLEv r).exit = none) ∧
      (q = true → (∃ l rest, post = .line l :: rest ∧ lower (parseLine l).1 = vQuit) ∧
        (evs.foldl stepLEv r).exit = some 0 ∧
        (evs.foldl stepLEv r).s.fs = (quitLoop s'.msgs s'.fs []).1) := by
  intro evs
  induction evs with
  | nil =>
    intro r rs h hx hn _
    exact ⟨[], rs, false, [], [], r.s, rfl, by simp, by simp [walk], h, hn, rfl, rfl, by simp,
      fun _ => ⟨rfl, rfl, hx⟩, fun hh => by cases hh⟩
  | cons ev evs ih =>
    intro r rs h hx hn hnul
    have hnul' : ∀ l, LEv.line l ∈ evs → ∀ c ∈ l, c ≠ NUL := fun l hl => hnul l (by simp [hl])
    cases ev with
    | vanish p =>
      have e1 : stepLEv r (.vanish p) = { r with s := { r.s with fs := fsUnlink r.s.fs p } } := by
        simp [stepLEv, feedEv_vanish, hx]
      obtain ⟨w, rs', q, pre, post, s', h0, h1, h2, h3, h4, h5, h6, h7, h8, h9⟩ :=
        ih { r with s := { r.s with fs := fsUnlink r.s.fs p } }
          { rs with gone := p :: rs.gone } (sim_vanish r.s rs h p) hx hn hnul'
      refine ⟨w, rs', q, .vanish p :: pre, post, s', by rw [h0]; rfl, ?_, ?_, h3, h4, h5, h6, ?_, ?_, ?_⟩
      · rw [List.foldl_cons, e1]; exact h1
      · simp only [List.map_cons, LEv.toREv, walk]; exact h2
      · intro l hl
        rcases List.mem_cons.mp hl with e | e
        · cases e
        · exact h7 l e
      · rw [List.foldl_cons, e1]; exact h8
      · rw [List.foldl_cons, e1]; exact h9
    | line l =>
      have hl : ∀ c ∈ l, c ≠ NUL := hnul l (by simp)
      have hp := parse_ref l hl
      have e1 : stepLEv r (.line l) = { s := (exec r.s (parseLine l).1 (parseLine l).2).1, cmd := [],
                                        out := r.out ++ (exec r.s (parseLine l).1 (parseLine l).2).2.1,
                                        exit := (exec r.s (parseLine l).1 (parseLine l).2).2.2 } := by
        simp [stepLEv, stepLine, hx]
      generalize hv : (parseLine l).1 = v at hp e1
      generalize ha : (parseLine l).2 = a at hp e1
      by_cases hq : lower v = vQuit
      · -- QUIT
        have ex : exec r.s v a = ({ r.s with fs := (quitLoop r.s.msgs r.s.fs []).1 },
            (quitLoop r.s.msgs r.s.fs []).2 ++ okLine, some 0) := by
          simp [exec, verbIs, hq]
        have hout := quit_out r.s.msgs r.s.fs [] (fsFind r.s.fs) (fun _ _ => rfl) hn
        simp only [List.nil_append] at hout
        have hfin : (ev_rest : List LEv) → ev_rest.foldl stepLEv (stepLEv r (.line l)) = stepLEv r (.line l) :=
          fun ev_rest => steps_done ev_rest _ 0 (by rw [e1, ex])
        have hlost := lost_iff rs.marked rs.gone (fsFind r.s.fs) r.s.msgs 0 rs.msgs h.rel (by
          intro x hxm
          obtain ⟨f1, f2⟩ := h.file x hxm
          constructor
          · intro hnone
            rcases Classical.em (x.path ∈ rs.gone) with hg | hg
            · exact hg
            · obtain ⟨f, hf, _⟩ := f2 hg; rw [hf] at hnone; cases hnone
          · exact f1)
        refine ⟨rep (lostCount (fsFind r.s.fs) r.s.msgs) ++ okLine, rs, true, [], .line l :: evs, r.s, rfl, ?_, ?_,
          h, hn, rfl, rfl, by simp, (fun hh => by cases hh), fun _ => ?_⟩
        · rw [List.foldl_cons, hfin, e1, ex, hout]
        · have hw := (walk_line rs rs l vQuit a .quit (evs.map LEv.toREv) (rep (lostCount (fsFind r.s.fs) r.s.msgs) ++ okLine)
            (by rw [hp, hq]) (ref_quit rs a)).1 rfl
          simp only [List.map_cons, LEv.toREv]
          rw [hw, hlost]
          have : (!decide (lostCount (fsFind r.s.fs) r.s.msgs ≠ 0)) = decide (lostCount (fsFind r.s.fs) r.s.msgs = 0) := by
            by_cases hz : lostCount (fsFind r.s.fs) r.s.msgs = 0 <;> simp [hz]
          rw [this, matchQuit_rep]
          try simp
        · rw [List.foldl_cons, hfin, e1, ex]
          exact ⟨⟨l, evs, rfl, by rw [hv]; exact hq⟩, rfl, rfl⟩
      · -- any other command
        have st := step_sim r.s rs h v a hq
        have hx' : (exec r.s v a).2.2 = none := st.goes_on
        have hn' : NamesOk ((exec r.s v a).1.msgs.map (·.fn)) := by rw [names_exec]; exact hn
        have hfs : (exec r.s v a).1.fs = r.s.fs := (exec_nonquit r.s v a (by simpa [verbIs] using hq)).1
        obtain ⟨w', rs', q, pre, post, s', h0, h1, h2, h3, h4, h5, h6, h7, h8, h9⟩ := ih
          { s := (exec r.s v a).1, cmd := [], out := r.out ++ (exec r.s v a).2.1, exit := (exec r.s v a).2.2 }
          (refStep rs (lower v) a).1 st.next hx' hn' hnul'
        refine ⟨(exec r.s v a).2.1 ++ w', rs', q, .line l :: pre, post, s', by rw [h0]; rfl, ?_, ?_, h3, h4, ?_, ?_, ?_, ?_, ?_⟩
        · rw [List.foldl_cons, e1, h1]; simp
        · have hw := (walk_line rs (refStep rs (lower v) a).1 l (lower v) a (refStep rs (lower v) a).2 (evs.map LEv.toREv)
            ((exec r.s v a).2.1 ++ w') hp rfl).2 st.not_quit
          simp only [List.map_cons, LEv.toREv]
          rw [hw, st.reply w']
          exact h2
        · rw [h5]; simp only [vanishedL]; rw [hfs]
        · rw [h6]; exact exec_ident r.s v a
        · intro l' hl'
          rcases List.mem_cons.mp hl' with e | e
          · cases e; rw [hv]; exact hq
          · exact h7 l' e
        · rw [List.foldl_cons, e1]; exact h8
        · rw [List.foldl_cons, e1]; exact h9

/-- feeding the bytes of the lines (each followed by LF) and the removals = stepping line by line -/
theorem feed_levs : ∀ (evs : List LEv) (r : Run), r.cmd = [] → (∀ l, LEv.line l ∈ evs → LF ∉ l) →
    (evs.map LEv.toEv).foldl feedEv r = evs.foldl stepLEv r := by
  intro evs
  induction evs with
  | nil => intro r _ _; rfl
  | cons e evs ih =>
    intro r hc hl
    have hl' : ∀ l, LEv.line l ∈ evs → LF ∉ l := fun l h => hl l (by simp [h])
    cases e with
    | line l =>
      simp only [List.map_cons, List.foldl_cons, LEv.toEv, stepLEv, feedEv_data]
      rw [feed_line r l hc (hl l (by simp))]
      exact ih _ (stepLine_cmd r l hc) hl'
    | vanish p =>
      simp only [List.map_cons, List.foldl_cons, LEv.toEv, stepLEv]
      apply ih _ _ hl'
      rw [feedEv_vanish]; cases r.exit <;> exact hc

end Nq.Lemmas.Pop3
