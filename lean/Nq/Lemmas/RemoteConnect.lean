/-
  Helper lemmas for C09 about `Nq.RemoteConnect` (qmail-remote.c `main()` between the lookup and `smtp()`).
-/
import Nq.RemoteConnect
import Nq.Lemmas.RemoteSmtp

namespace Nq.Lemmas.RemoteConnect
open Nq Nq.RemoteSmtp Nq.RspawnReport Nq.RemoteConnect Nq.Spec.RemoteVerdict Nq.Lemmas.RemoteSmtp

theorem tryLoop_report (pm : Nat) (cs : List Cand) : ∀ (k : Nat) (r : Bytes), tryLoop pm k cs = .report r → r = tempNoconnRep := by
  induction cs with
  | nil => intro k r h; simp [tryLoop] at h; exact h.symm
  | cons c rest ih =>
    intro k r h
    simp only [tryLoop] at h
    by_cases h1 : c.pref < pm
    · simp only [h1, if_true] at h
      by_cases h2 : c.skip = true
      · simp only [h2, if_true] at h; exact ih _ _ h
      · have h2' : c.skip = false := by simpa using h2
        by_cases h3 : c.conn = 0
        · simp [h2', h3] at h
        · simp [h2', h3] at h; exact ih _ _ h
    · simp only [h1, if_false] at h; exact ih _ _ h

/-- no eligible address connects: the loop ends in `temp_noconn` -/
theorem tryLoop_noconn (pm : Nat) (cs : List Cand) (h : ∀ c ∈ cs, c.pref < pm → c.skip = true ∨ c.conn ≠ 0) :
    ∀ k, tryLoop pm k cs = .report tempNoconnRep := by
  induction cs with
  | nil => intro k; simp [tryLoop]
  | cons c rest ih =>
    intro k
    have ih' := ih (fun c' hc' => h c' (by simp [hc']))
    simp only [tryLoop]
    by_cases h1 : c.pref < pm
    · rcases h c (by simp) h1 with h2 | h2
      · simp [h1, h2, ih']
      · by_cases h3 : c.skip = true
        · simp [h1, h3, ih']
        · simp [h1, h3, h2, ih']
    · simp [h1, ih']

/-- the address used is the first eligible one that is not skipped and connects -/
theorem tryLoop_connected (pm : Nat) (cs : List Cand) : ∀ (k i : Nat) (hst : Bytes), tryLoop pm k cs = .connected i hst →
    ∃ j c, i = k + j ∧ cs[j]? = some c ∧ c.host = hst ∧ c.pref < pm ∧ c.skip = false ∧ c.conn = 0 ∧
      ∀ j' c', j' < j → cs[j']? = some c' → c'.pref < pm → c'.skip = true ∨ c'.conn ≠ 0 := by
  induction cs with
  | nil => intro k i hst h; simp [tryLoop] at h
  | cons c rest ih =>
    intro k i hst h
    simp only [tryLoop] at h
    have next : tryLoop pm (k + 1) rest = .connected i hst → (c.pref < pm → c.skip = true ∨ c.conn ≠ 0) →
        ∃ j c0, i = k + j ∧ (c :: rest)[j]? = some c0 ∧ c0.host = hst ∧ c0.pref < pm ∧ c0.skip = false ∧ c0.conn = 0 ∧
          ∀ j' c', j' < j → (c :: rest)[j']? = some c' → c'.pref < pm → c'.skip = true ∨ c'.conn ≠ 0 := by
      intro h' hc
      obtain ⟨j, c0, e1, e2, e3, e4, e5, e6, e7⟩ := ih _ _ _ h'
      refine ⟨j + 1, c0, by omega, by simpa using e2, e3, e4, e5, e6, ?_⟩
      intro j' c' hj hget hp
      cases j' with
      | zero => simp at hget; rw [← hget] at hp ⊢; exact hc hp
      | succ j'' => exact e7 j'' c' (by omega) (by simpa using hget) hp
    by_cases h1 : c.pref < pm
    · simp only [h1, if_true] at h
      by_cases h2 : c.skip = true
      · simp only [h2, if_true] at h; exact next h (fun _ => Or.inl h2)
      · have h2' : c.skip = false := by simpa using h2
        by_cases h3 : c.conn = 0
        · simp [h2', h3] at h
          exact ⟨0, c, by omega, by simp, h.2, h1, h2', h3, by intro j' c' hj; omega⟩
        · simp [h2', h3] at h; exact next h (fun _ => Or.inr h3)
    · simp only [h1, if_false] at h; exact next h (fun hp => absurd hp h1)

theorem all_not_any (pm : Nat) (l : List Cand) :
    l.all (fun c => decide (pm ≤ c.pref)) = !(l.any (fun c => decide (c.pref < pm))) := by
  induction l with
  | nil => rfl
  | cons c l ih =>
    simp only [List.all_cons, List.any_cons, ih, Bool.not_or]
    congr 1
    by_cases h : pm ≤ c.pref
    · simp [h]
    · simp [h]; omega

theorem all_iff_not_any_eligible (cs : List Cand) :
    cs.all (fun c => decide (prefme cs ≤ c.pref)) = !(cs.any (eligible cs)) := all_not_any (prefme cs) cs

set_option maxRecDepth 20000 in
/-- reports of the connect phase are never `K` -/
theorem connectPhase_report (dnsret : Int) (hostArg : Bytes) (cs : List Cand) (r : Bytes)
    (h : connectPhase dnsret hostArg cs = .report r) : headB r = cZ ∨ headB r = cD := by
  unfold connectPhase at h
  by_cases h3 : dnsret = -3
  · simp [h3] at h; rw [← h]; left; decide
  · by_cases h1 : dnsret = -1
    · simp [h1] at h; rw [← h]; left; decide
    · by_cases h2 : dnsret = -2
      · simp [h2] at h; rw [← h]; right
        unfold permDnsRep; rw [List.append_assoc, headB_append _ _ (by decide)]; decide
      · by_cases hd : dnsret = 1 ∧ cs = []
        · simp [h3, h1, h2, hd] at h; rw [← h]; left; decide
        · by_cases he : cs = []
          · simp [h3, h1, h2, hd, he] at h
            by_cases hd1 : dnsret = 1
            · simp [hd1] at h; rw [← h]; left; decide
            · simp [hd1] at h; rw [← h]; right; decide
          · by_cases ha : cs.all (fun c => decide (prefme cs ≤ c.pref)) = true
            · simp [h3, h1, h2, he, ha] at h
              rw [← h]; right; decide
            · have ha' : cs.all (fun c => decide (prefme cs ≤ c.pref)) = false := by simpa using ha
              simp only [h3, h1, h2, he, ha', if_false, and_false, Bool.false_eq_true] at h
              have := tryLoop_report _ _ _ _ h
              rw [this]; left; decide

set_option maxRecDepth 20000 in
/-- **connect phase predicate** for the model of `main()` -/
theorem preOK_mainRun (dnsret : Int) (hostArg : Bytes) (cs : List Cand) (a : Args) (sc : Script) :
    preOK dnsret cs (obsOf (mainRun dnsret hostArg cs a sc)) = true := by
  unfold preOK mainRun connectPhase
  by_cases h3 : dnsret = -3
  · simp [h3, obsOf]; decide
  · by_cases h1 : dnsret = -1
    · simp [h1, obsOf]; decide
    · by_cases h2 : dnsret = -2
      · simp [h2, obsOf]
        unfold permDnsRep; rw [List.append_assoc, headB_append _ _ (by decide)]; decide
      · by_cases he : cs = []
        · by_cases hd1 : dnsret = 1
          · simp [h3, h1, h2, he, hd1, obsOf]; decide
          · simp [h3, h1, h2, he, hd1, obsOf]; decide
        · have hne : cs.isEmpty = false := by cases cs <;> simp_all
          by_cases ha : cs.any (eligible cs) = true
          · have hall : cs.all (fun c => decide (prefme cs ≤ c.pref)) = false := by
              rw [all_iff_not_any_eligible, ha]; rfl
            by_cases hc : cs.any (fun c => eligible cs c && connects c) = true
            · simp [h3, h1, h2, he, hne, ha, hc]
            · have hno : ∀ c ∈ cs, c.pref < prefme cs → c.skip = true ∨ c.conn ≠ 0 := by
                intro c hcm hp
                have hc' : ∀ x ∈ cs, eligible cs x = true → connects x = false := by simpa using hc
                have hcc := hc' c hcm (by simp [eligible, hp])
                simp only [connects, Bool.and_eq_false_imp, Bool.not_eq_eq_eq_not, Bool.not_true] at hcc
                by_cases hs : c.skip = true
                · exact Or.inl hs
                · right
                  have := hcc (by simpa using hs)
                  simpa using this
              have hl := tryLoop_noconn (prefme cs) cs hno 0
              simp only [h3, h1, h2, he, hne, ha, hc, hall, hl, if_false, and_false, Bool.false_eq_true,
                Bool.not_true, Bool.not_false, if_true, Bool.or_self, decide_false]
              simp [obsOf]; decide
          · have hall : cs.all (fun c => decide (prefme cs ≤ c.pref)) = true := by
              rw [all_iff_not_any_eligible]; simp [ha]
            simp only [h3, h1, h2, he, hne, ha, hall, if_false, and_false, if_true, Bool.false_eq_true,
              Bool.not_false, Bool.or_self, decide_false]
            simp [obsOf]; decide


end Nq.Lemmas.RemoteConnect
