/-
  Simulation between the outbound encoder (qmail-remote `blast`) and the inbound decoder
  (qmail-smtpd `blast`): whatever the encoder emits, the decoder turns into `canon m`.
-/
import Nq.SmtpOut
import Nq.SmtpIn

namespace Nq.Lemmas
open Nq Nq.SmtpOut Nq.SmtpIn

/-- decoder states that can face the encoder in each encoder state -/
def rel : RSt → DSt → Bool
  | .top, .s1 => true
  | .mid, .s0 => true
  | .mid, .s4 => true
  | .cr, .s1 => true
  | .cr, .s0 => true
  | .cr, .s4 => true
  | _, _ => false

/-- a CR the decoder has consumed but not yet emitted -/
def pend : DSt → Bytes
  | .s4 => [CR]
  | _ => []

def cst : RSt → CSt
  | .cr => .c
  | _ => .n

@[simp] theorem emit_nil (r : DRes) : emit [] r = r := by cases r <;> simp [emit]
@[simp] theorem emit_emit (a b : Bytes) (r : DRes) : emit a (emit b r) = emit (a ++ b) r := by
  cases r <;> simp [emit]

theorem sim (rest : Bytes) : ∀ (m : Bytes) (es : RSt) (ds : DSt) (e : Bytes),
    rel es ds = true → rrun es m = some e →
    drun ds (e ++ rest) = emit (pend ds ++ crun (cst es) m) (.accepted [] rest) := by
  intro m
  induction m with
  | nil =>
    intro es ds e hrel hr
    cases es <;> cases ds <;> simp [rel] at hrel <;>
      simp [rrun, rfinish] at hr <;> subst hr <;>
      simp [drun, dstep, emit, pend, crun, cfinish, cst, CR, LF, DOT]
  | cons x m ih =>
    intro es ds e hrel hr
    simp only [rrun] at hr
    cases hr' : rrun (rstep es x).1 m with
    | none => simp [hr'] at hr
    | some e' =>
      simp [hr'] at hr
      subst hr
      by_cases h1 : x = LF
      · subst h1
        cases es <;> cases ds <;> simp [rel] at hrel <;>
          simp [rstep, CR, LF, DOT] at hr' ⊢ <;>
          (have := ih _ .s1 e' (by simp [rel]) hr'
           simp [drun, dstep, pend, crun, cstep, cst, CR, LF, DOT] at this ⊢
           simp [this])
      · by_cases h2 : x = CR
        · subst h2
          cases es <;> cases ds <;> simp [rel] at hrel <;>
            simp [rstep, CR, LF, DOT] at hr' ⊢
          · have := ih _ .s1 e' (by simp [rel]) hr'
            simpa [drun, dstep, pend, crun, cstep, cst, CR, LF, DOT] using this
          · have := ih _ .s0 e' (by simp [rel]) hr'
            simpa [drun, dstep, pend, crun, cstep, cst, CR, LF, DOT] using this
          · have := ih _ .s4 e' (by simp [rel]) hr'
            simpa [drun, dstep, pend, crun, cstep, cst, CR, LF, DOT] using this
          all_goals
            (have := ih _ .s4 e' (by simp [rel]) hr'
             simp [drun, dstep, pend, crun, cstep, cst, CR, LF, DOT] at this ⊢
             simp [this])
        · by_cases h3 : x = DOT
          · subst h3
            cases es <;> cases ds <;> simp [rel] at hrel <;>
              simp [rstep, CR, LF, DOT] at hr' ⊢ <;>
              (have := ih _ .s0 e' (by simp [rel]) hr'
               simp [drun, dstep, pend, crun, cstep, cst, CR, LF, DOT] at this ⊢
               simp [this])
          · cases es <;> cases ds <;> simp [rel] at hrel <;>
              simp [rstep, h1, h2, h3] at hr' ⊢ <;>
              (have := ih _ .s0 e' (by simp [rel]) hr'
               simp [drun, dstep, pend, crun, cstep, cst, h1, h2, h3, CR, LF, DOT] at this ⊢
               simp [this])

end Nq.Lemmas
